#!/bin/bash
# ./tools_coverage.sh Cxx  -> line coverage of /repo/sleap_nn reached by the quick check of Cxx
# (a measurement aid for finding blind spots of the correspondence generators; not part of any check)
HERE="$(cd "$(dirname "$0")" && pwd)"
P=$1
OUT=${2:-/tmp/cov_$P}
mkdir -p $OUT
export PYTHONPATH="/repo:$HERE" PYTHONHASHSEED=0 CUDA_VISIBLE_DEVICES="" WANDB_MODE=offline PYTHONDONTWRITEBYTECODE=1 OMP_NUM_THREADS=1 MKL_NUM_THREADS=1
export VERIF_EVIDENCE_DIR=$OUT/evidence VERIF_REPLAY_DIR=$OUT/replays
cat > $OUT/.coveragerc <<RC
[run]
source = /repo/sleap_nn
concurrency = thread,multiprocessing
parallel = True
data_file = $OUT/.coverage
RC
cd $HERE
COVERAGE_PROCESS_START=$OUT/.coveragerc /venv/bin/python -m coverage run --rcfile=$OUT/.coveragerc -m harness.main $P --tier quick > $OUT/check.log 2>&1
cd $OUT && /venv/bin/python -m coverage combine --rcfile=$OUT/.coveragerc > /dev/null 2>&1
/venv/bin/python -m coverage json --rcfile=$OUT/.coveragerc -o $OUT/cov.json > /dev/null 2>&1
/venv/bin/python - <<PY
import json
props=[json.loads(l) for l in open('$HERE/properties.jsonl')]
p=[x for x in props if x['id']=='$P'][0]
cov=json.load(open('$OUT/cov.json'))['files']
for f in p['anchors']['files']:
    key=[k for k in cov if k.endswith(f)]
    if not key: print(f, 'NOT IMPORTED'); continue
    c=cov[key[0]]; s=c['summary']
    print(f"{f}: {s['covered_lines']}/{s['num_statements']} lines ({s['percent_covered']:.0f}%)")
    # per function
    for fn,fd in sorted(c.get('functions',{}).items()):
        fs=fd['summary']
        if fs['num_statements']>=3 and fs['percent_covered']<100 and fn:
            print(f"    {fn}: {fs['covered_lines']}/{fs['num_statements']} missing {fd['missing_lines'][:25]}")
PY
