(* PerRunVal.v (C20) — per-run obligations, clause (e) validators, F13 conversion of presets, clause (d)
   normalisation.  See PerRunAug.v for the conventions. *)
From Coq Require Import List String Ascii ZArith QArith Bool Arith Lia Lqa.
From SV Require Import C20.CfgTree C20.Lemmas Gen.C20_Schema Gen.C20_Builders C20.Eval.
From SV Require Import C20.PerRunBase.
Import ListNotations.
Close Scope Q_scope.
Open Scope string_scope.

(* ====================================================================== (e) *)
(* validators *)

Lemma qle_true : forall a b, qle a b = true <-> (a <= b)%Q.
Proof. intros. unfold qle. apply Qle_bool_iff. Qed.
Print Assumptions qle_true.
Lemma qle_false : forall a b, qle a b = false <-> (b < a)%Q.
Proof.
  intros. unfold qle. split.
  - intro H. apply Qnot_le_lt. intro L. apply Qle_bool_iff in L. congruence.
  - intro H. destruct (Qle_bool a b) eqn:E; [|reflexivity]. apply Qle_bool_iff in E.
    exfalso. apply (Qlt_not_le _ _ H E).
Qed.
Print Assumptions qle_false.
Lemma qlt_true : forall a b, qlt a b = true <-> (a < b)%Q.
Proof. intros. unfold qlt. rewrite negb_true_iff. apply (qle_false b a). Qed.
Print Assumptions qlt_true.
Lemma qlt_false : forall a b, qlt a b = false <-> (b <= a)%Q.
Proof. intros. unfold qlt. rewrite negb_false_iff. apply (qle_true b a). Qed.
Print Assumptions qlt_false.

(* v is a real number in [0, 1] (Python: int, float or bool).  `num_of` is defined on
   the rational values only: NaN and +-infinity (`VNonFin`) are NOT in the unit interval. *)
Definition in_unit (v : cfg) : Prop := exists q, num_of v = Some q /\ (0 <= q)%Q /\ (q <= 1)%Q.

Ltac cmp_cases :=
  repeat match goal with
         | |- context [qle ?a ?b] =>
             let E := fresh "E" in destruct (qle a b) eqn:E;
             [apply qle_true in E | apply qle_false in E]
         | |- context [qlt ?a ?b] =>
             let E := fresh "E" in destruct (qlt a b) eqn:E;
             [apply qlt_true in E | apply qlt_false in E]
         end.

Ltac unit_numeric q :=
  cmp_cases; simpl;
  (split; [ intro; first [discriminate | exists q; split; [reflexivity | split; lra]]
          | intros [q' [Eq [L1 L2]]]; simpl in Eq; injection Eq as <-; first [reflexivity | exfalso; lra] ]).

Ltac not_numeric := simpl; split; [discriminate | intros [q' [Eq _]]; discriminate Eq].

Theorem validate_proportion_spec : forall i a v, is_ok (validate_proportion i a v) = true <-> in_unit v.
Proof.
  intros i a v. unfold in_unit.
  unfold validate_proportion, py_le, py_cmp.
  destruct v as [| |b|z|q|k|s|l|l|kv|c kv]; try not_numeric.
  - destruct b; cbn.
    + split; [intros _|reflexivity]. exists 1%Q. split; [reflexivity|]. split; lra.
    + split; [intros _|reflexivity]. exists 0%Q. split; [reflexivity|]. split; lra.
  - cbv [py_and bind xnum_of xle num_of negb is_ok]. unit_numeric (inject_Z z).
  - cbv [py_and bind xnum_of xle num_of negb is_ok]. unit_numeric q.
  - (* NaN, +inf, -inf: every one is rejected (for NaN both comparisons are False) *)
    destruct k; cbn; split; try discriminate; intros [q' [Eq _]]; discriminate Eq.
Qed.
Print Assumptions validate_proportion_spec.

(* non-finite values are outside the unit interval, so (by the spec above) NaN,
   +inf and -inf are rejected by validate_proportion *)
Theorem validate_proportion_rejects_nonfinite : forall i a k,
  is_ok (validate_proportion i a (VNonFin k)) = false.
Proof.
  intros i a k. destruct (is_ok (validate_proportion i a (VNonFin k))) eqn:E; [|reflexivity].
  apply validate_proportion_spec in E. destruct E as [q [Eq _]]. discriminate Eq.
Qed.
Print Assumptions validate_proportion_rejects_nonfinite.

Definition PROB_FIELDS : list (string * string) :=
  [("IntensityConfig", "uniform_noise_p"); ("IntensityConfig", "gaussian_noise_p");
   ("IntensityConfig", "contrast_p"); ("IntensityConfig", "brightness_p");
   ("GeometricConfig", "affine_p"); ("GeometricConfig", "erase_p"); ("GeometricConfig", "mixup_p")].

(* the validator of every probability option accepts exactly the numbers in [0,1] *)
Theorem probability_validators : forall cn fn, In (cn, fn) PROB_FIELDS ->
  exists c f, find_class classes cn = Some c /\ find_field c fn = Some f /\
              forall inst v, f_validator f inst v = Ok tt <-> in_unit v.
Proof.
  intros cn fn I. simpl in I.
  repeat (destruct I as [I|I];
          [ injection I as <- <-; eexists; eexists; split; [reflexivity | split; [reflexivity|]];
            intros inst v; cbn [f_validator];
            match goal with |- bind (validate_proportion ?i ?a v) _ = _ <-> _ =>
              rewrite <- (validate_proportion_spec i a v); destruct (validate_proportion i a v) end;
            simpl; split; congruence
          |]).
  contradiction.
Qed.
Print Assumptions probability_validators.

(* ... so the constructors reject out-of-range probabilities *)
Theorem probabilities_out_of_range_rejected : forall cn fn c kw r v,
  In (cn, fn) PROB_FIELDS -> find_class classes cn = Some c ->
  mk c kw = Ok r -> lookup fn kw = Some v -> in_unit v.
Proof.
  intros cn fn c kw r v I C M L.
  destruct (probability_validators cn fn I) as [c' [f [C' [F V]]]].
  rewrite C in C'. injection C' as <-. apply (V r v). eapply mk_validates; eassumption.
Qed.
Print Assumptions probabilities_out_of_range_rejected.

(* ... in particular NaN and +-infinity, for every probability option *)
Theorem probabilities_nonfinite_rejected : forall cn fn c kw k,
  In (cn, fn) PROB_FIELDS -> find_class classes cn = Some c ->
  lookup fn kw = Some (VNonFin k) -> is_ok (mk c kw) = false.
Proof.
  intros cn fn c kw k I C L. destruct (mk c kw) as [r|] eqn:M; [|reflexivity]. exfalso.
  destruct (probabilities_out_of_range_rejected cn fn c kw r _ I C M L) as [q [Eq _]]. discriminate Eq.
Qed.
Print Assumptions probabilities_nonfinite_rejected.
Example ex_prob_accepts : is_ok (mk cls_GeometricConfig [("affine_p", VFloat (1 # 2))]) = true /\
                          is_ok (mk cls_GeometricConfig [("affine_p", VInt 1)]) = true /\
                          is_ok (mk cls_GeometricConfig [("affine_p", VNonFin NaN)]) = false.
Proof. vm_compute. repeat split. Qed.

(* --- scale ---------------------------------------------------------------- *)

(* `isinstance(x, float) and x >= 0`: a rational float >= 0, or float('inf') (which IS
   >= 0 in Python); NaN (every comparison False) and -inf are not *)
Definition nonneg_float (x : cfg) : Prop := (exists q, x = VFloat q /\ (0 <= q)%Q) \/ x = VNonFin PInf.
(* "a float >= 0 or a list of floats >= 0" *)
Definition scale_ok (v : cfg) : Prop :=
  nonneg_float v \/ exists l, v = VList l /\ Forall nonneg_float l.

Definition scale_elem (x : cfg) : res bool := py_and (Ok (py_is_float x)) (fun _ => py_ge x (VInt 0)).

Lemma scale_elem_spec : forall x, scale_elem x = Ok true <-> nonneg_float x.
Proof.
  intro x. unfold nonneg_float, scale_elem, py_ge, py_cmp.
  destruct x as [| |b|z|q|k|s|l|l|kv|c kv];
    try (simpl; split; [discriminate | intros [[q' [Eq _]]|Eq]; discriminate Eq]).
  - cbv [py_and bind xnum_of xle num_of py_is_float inject_Z]. cmp_cases; simpl.
    + split; [intros _; left; exists q; split; [reflexivity|exact E] | reflexivity].
    + split; [discriminate | intros [[q' [Eq L]]|Eq]; [injection Eq as <-; exfalso; lra | discriminate Eq]].
  - destruct k; cbn; split; try discriminate; try reflexivity;
      try (intros _; right; reflexivity); intros [[q' [Eq _]]|Eq]; discriminate Eq.
Qed.
Print Assumptions scale_elem_spec.

Theorem scale_validator_spec : forall inst v, py_getattr inst "scale" = Ok v ->
  (is_ok (PreprocessingConfig__validate_scale inst) = true <-> scale_ok v).
Proof.
  intros inst v G. unfold PreprocessingConfig__validate_scale. rewrite !G. cbn [bind].
  unfold scale_ok.
  destruct v as [| |b|z|q|k|s|l|l|kv|c kv];
    try (cbn; split; [discriminate | intros [[[q' [Eq _]]|Eq]|[l' [Eq _]]]; discriminate Eq]).
  - (* float *)
    change (py_and (Ok (py_is_float (VFloat q))) (fun _ => py_ge (VFloat q) (VInt 0))) with (scale_elem (VFloat q)).
    destruct (scale_elem (VFloat q)) as [[|]|e] eqn:E.
    + simpl. split; [intros _; left; apply scale_elem_spec; exact E | reflexivity].
    + cbn. split; [discriminate|]. intros [N|[l' [Eq _]]]; [|discriminate Eq].
      apply scale_elem_spec in N. congruence.
    + cbn. split; [discriminate|]. intros [N|[l' [Eq _]]]; [|discriminate Eq].
      apply scale_elem_spec in N. congruence.
  - (* NaN / +inf / -inf *)
    change (py_and (Ok (py_is_float (VNonFin k))) (fun _ => py_ge (VNonFin k) (VInt 0))) with (scale_elem (VNonFin k)).
    destruct (scale_elem (VNonFin k)) as [[|]|e] eqn:E.
    + simpl. split; [intros _; left; apply scale_elem_spec; exact E | reflexivity].
    + cbn. split; [discriminate|]. intros [N|[l' [Eq _]]]; [|discriminate Eq].
      apply scale_elem_spec in N. congruence.
    + cbn. split; [discriminate|]. intros [N|[l' [Eq _]]]; [|discriminate Eq].
      apply scale_elem_spec in N. congruence.
  - (* list *)
    change (fun v_x : cfg => py_and (Ok (py_is_float v_x)) (fun _ : unit => py_ge v_x (VInt 0))) with scale_elem.
    cbn [py_is_float py_is_list py_and bind py_all].
    destruct (all_res scale_elem l) as [[|]|e] eqn:A; cbn.
    + split; [intros _|reflexivity]. right. exists l. split; [reflexivity|].
      apply all_res_true in A. eapply Forall_impl; [|exact A]. intros x Hx. apply scale_elem_spec. exact Hx.
    + split; [discriminate|]. intros [[[q' [Eq _]]|Eq]|[l' [Eq F]]]; try discriminate Eq. injection Eq as <-.
      assert (all_res scale_elem l = Ok true) as T.
      { apply all_res_true. eapply Forall_impl; [|exact F]. intros x Hx. apply scale_elem_spec. exact Hx. }
      congruence.
    + split; [discriminate|]. intros [[[q' [Eq _]]|Eq]|[l' [Eq F]]]; try discriminate Eq. injection Eq as <-.
      assert (all_res scale_elem l = Ok true) as T.
      { apply all_res_true. eapply Forall_impl; [|exact F]. intros x Hx. apply scale_elem_spec. exact Hx. }
      congruence.
Qed.
Print Assumptions scale_validator_spec.

(* ... so the constructor rejects invalid scales *)
Theorem invalid_scale_rejected : forall kw r v,
  mk cls_PreprocessingConfig kw = Ok r -> lookup "scale" kw = Some v -> scale_ok v.
Proof.
  intros kw r v M L.
  assert (exists f, find_field cls_PreprocessingConfig "scale" = Some f /\
                    forall inst x, f_validator f inst x = Ok tt -> is_ok (PreprocessingConfig__validate_scale inst) = true)
    as [f [F V]].
  { eexists. split; [reflexivity|]. intros inst x. cbn [f_validator].
    destruct (PreprocessingConfig__validate_scale inst); simpl; [reflexivity|discriminate]. }
  pose proof (mk_validates _ _ _ _ _ _ M F L) as H. apply V in H.
  apply (scale_validator_spec r v); [|exact H].
  pose proof (mk_reflects_kwargs _ _ _ _ _ M L) as G.
  destruct (mk_complete _ _ _ M) as [kv [R _]]. subst r. simpl in G. simpl.
  destruct (lookup "scale" kv); [injection G as <-; reflexivity | discriminate].
Qed.
Print Assumptions invalid_scale_rejected.

(* in particular NaN and -inf are not valid scales, alone or inside a list (for ALL lists) *)
Theorem scale_rejects_nan_and_neg_inf : forall kw r v k, k <> PInf ->
  mk cls_PreprocessingConfig kw = Ok r -> lookup "scale" kw = Some v ->
  v <> VNonFin k /\ forall l, v = VList l -> ~ In (VNonFin k) l.
Proof.
  intros kw r v k Hk M L. pose proof (invalid_scale_rejected kw r v M L) as S.
  assert (~ nonneg_float (VNonFin k)) as N.
  { intros [[q [Eq _]]|Eq]; [discriminate Eq | injection Eq as ->; apply Hk; reflexivity]. }
  split.
  - intros ->. destruct S as [S|[l [Eq _]]]; [exact (N S) | discriminate Eq].
  - intros l -> I. destruct S as [[[q [Eq _]]|Eq]|[l' [Eq F]]]; try discriminate Eq.
    injection Eq as <-. rewrite Forall_forall in F. exact (N (F _ I)).
Qed.
Print Assumptions scale_rejects_nan_and_neg_inf.
Example ex_scale_accepts : is_ok (mk cls_PreprocessingConfig [("scale", VFloat (5 # 8))]) = true /\
                           is_ok (mk cls_PreprocessingConfig [("scale", VNonFin NaN)]) = false /\
                           is_ok (mk cls_PreprocessingConfig [("scale", VList [VFloat 1; VNonFin NInf])]) = false.
Proof. vm_compute. repeat split. Qed.

(* --- backbone sizes --------------------------------------------------------- *)

Definition SWINT_SIZES := ["tiny"; "small"; "base"].
Definition CONVNEXT_SIZES := ["tiny"; "small"; "base"; "large"].
Definition SWINT_CLASSES := [cls_SwinTConfig; cls_SwinTSmallConfig; cls_SwinTBaseConfig].
Definition CONVNEXT_CLASSES := [cls_ConvNextConfig; cls_ConvNextSmallConfig; cls_ConvNextBaseConfig; cls_ConvNextLargeConfig].

Definition known_size (sizes : list string) (v : cfg) : Prop := exists s, v = VStr s /\ In s sizes.

(* class c rejects every model_type outside `sizes` (for ALL values v) *)
Definition rejects_unknown_sizes (sizes : list string) (c : class_def) : Prop :=
  forall kw r v, mk c kw = Ok r -> lookup "model_type" kw = Some v -> known_size sizes v.

Lemma existsb_strs_spec : forall x sizes, existsb (cfg_eqb x) (map VStr sizes) = true <-> known_size sizes x.
Proof.
  intros x sizes. unfold known_size. rewrite existsb_exists. split.
  - intros [y [I E]]. apply in_map_iff in I. destruct I as [s [<- I]].
    apply cfg_eqb_eq in E. exists s. split; assumption.
  - intros [s [-> I]]. exists (VStr s). split; [apply in_map; exact I | simpl; apply String.eqb_refl].
Qed.
Print Assumptions existsb_strs_spec.

(* the model_type validator of class c, as attached in the generated schema,
   accepts only `sizes` *)
Ltac size_validator sizes :=
  eexists; split; [reflexivity|]; intros inst x; cbn [f_validator];
  lazymatch goal with
  | |- bind (?m inst x) _ = Ok tt -> _ => unfold m; cbn [py_contains bind]
  end;
  lazymatch goal with
  | |- context [py_in_strs x ?L] =>
      unfold known_size; rewrite <- (py_in_strs_spec x sizes);
      destruct (py_in_strs x L) eqn:E; simpl; (let Hx := fresh "Hx" in intro Hx; first [reflexivity | discriminate Hx])
  | |- context [existsb (cfg_eqb x) ?L] =>
      change L with (map VStr sizes); rewrite <- (existsb_strs_spec x sizes);
      destruct (existsb (cfg_eqb x) (map VStr sizes)) eqn:E; simpl; (let Hx := fresh "Hx" in intro Hx; first [reflexivity | discriminate Hx])
  end.

Ltac rejects_sizes sizes :=
  intros kw r v M L;
  lazymatch type of M with
  | mk ?c _ = _ =>
      assert (exists f, find_field c "model_type" = Some f /\
                        forall inst x, f_validator f inst x = Ok tt -> known_size sizes x) as [f [F V]]
        by (size_validator sizes);
      exact (V r v (mk_validates _ _ _ _ _ _ M F L))
  end.

Theorem swint_sizes_validated : Forall (rejects_unknown_sizes SWINT_SIZES) SWINT_CLASSES.
Proof. unfold SWINT_CLASSES. repeat (apply Forall_cons; [rejects_sizes SWINT_SIZES|]). apply Forall_nil. Qed.
Print Assumptions swint_sizes_validated.

(* status of F16 (pinned tree bc2d651: accepted; fixed by 96319fe): do the ConvNeXt classes reject the
   unknown size "huge"?  True on the current tree: the live statement is convnext_sizes_hold. *)
Definition convnext_sizes_validated_b : bool :=
  forallb (fun c => negb (is_ok (mk c [("model_type", VStr "huge")]))) CONVNEXT_CLASSES.

Theorem convnext_sizes_full : convnext_sizes_validated_b = true ->
  Forall (rejects_unknown_sizes CONVNEXT_SIZES) CONVNEXT_CLASSES.
Proof.
  intro B.
  first [ exfalso; vm_compute in B; discriminate B
        | unfold CONVNEXT_CLASSES; repeat (apply Forall_cons; [rejects_sizes CONVNEXT_SIZES|]); apply Forall_nil ].
Qed.
Print Assumptions convnext_sizes_full.

(* unconditional, on the current tree: every ConvNeXt class rejects every model_type outside the
   four documented sizes, for ALL values (stops compiling if F16 returns) *)
Theorem convnext_sizes_hold : Forall (rejects_unknown_sizes CONVNEXT_SIZES) CONVNEXT_CLASSES.
Proof. exact (convnext_sizes_full ltac:(vm_compute; reflexivity)). Qed.
Print Assumptions convnext_sizes_hold.

(* historic (F16, pinned tree): premise false on the current tree *)
Definition convnext_cex : class_def :=
  match find (fun c => is_ok (mk c [("model_type", VStr "huge")])) CONVNEXT_CLASSES with
  | Some c => c
  | None => cls_ConvNextConfig
  end.

Theorem convnext_sizes_refuted : convnext_sizes_validated_b = false ->
  exists c, In c CONVNEXT_CLASSES /\ ~ rejects_unknown_sizes CONVNEXT_SIZES c.
Proof.
  intro B.
  first [ exfalso; vm_compute in B; discriminate B
        | exists convnext_cex; split;
          [ vm_compute; tauto
          | intro R;
            assert (exists r, mk convnext_cex [("model_type", VStr "huge")] = Ok r) as [r M]
              by (vm_compute; eexists; reflexivity);
            destruct (R _ r (VStr "huge") M eq_refl) as [s [E I]]; injection E as <-;
            simpl in I; repeat (destruct I as [I|I]; [discriminate I|]); contradiction ] ].
Qed.
Print Assumptions convnext_sizes_refuted.

(* --- oneof -------------------------------------------------------------------- *)

(* more than one backbone, or more than one head type, at once is rejected, for
   ALL keyword arguments *)
Theorem backbone_and_head_reject_two : forall c, In c [cls_BackboneConfig; cls_HeadConfig] ->
  forall kw f1 f2 v1 v2,
  In f1 (c_fields c) -> In f2 (c_fields c) -> f_name f1 <> f_name f2 ->
  lookup (f_name f1) kw = Some v1 -> lookup (f_name f2) kw = Some v2 -> v1 <> VNone -> v2 <> VNone ->
  is_ok (mk c kw) = false.
Proof.
  intros c I kw f1 f2 v1 v2. apply mk_oneof_rejects_two. simpl in I. destruct I as [<-|[<-|[]]]; reflexivity.
Qed.
Print Assumptions backbone_and_head_reject_two.

(* --- F13 (pinned tree bc2d651: 7 presets did not convert; fixed by 95397fc): the documented presets
   must reach the training configuration.  Live statements: presets_convert_hold here and
   presets_and_heads_convert_hold in PerRunChain. -------- *)

Definition model_arg (b h : cfg) : string -> cfg :=
  env_of [("backbone_config", b); ("head_configs", h)] get_model_config_defaults.
Definition preset_converts (p : string) : res cfg :=
  bind (get_model_config (model_arg (VStr p) (VStr "centroid"))) (to_sleap_nn_cfg classes "ModelConfig").
Definition presets_convert_b : bool := forallb (fun e => is_ok (preset_converts (fst e))) PRESETS.

Theorem presets_convert_full : presets_convert_b = true ->
  forall e, In e PRESETS -> exists c, preset_converts (fst e) = Ok c.
Proof.
  intros B e I. unfold presets_convert_b in B. rewrite forallb_forall in B. specialize (B e I).
  destruct (preset_converts (fst e)) as [c|]; [exists c; reflexivity | discriminate B].
Qed.
Print Assumptions presets_convert_full.

Theorem presets_convert_hold : forall e, In e PRESETS -> exists c, preset_converts (fst e) = Ok c.
Proof. exact (presets_convert_full ltac:(vm_compute; reflexivity)). Qed.
Print Assumptions presets_convert_hold.

(* historic (F13, pinned tree): premise false on the current tree *)
Definition preset_cex : string :=
  match find (fun e => negb (is_ok (preset_converts (fst e)))) PRESETS with
  | Some e => fst e
  | None => ""
  end.

Theorem presets_convert_refuted : presets_convert_b = false ->
  exists p mc, In p (map fst PRESETS) /\
    get_model_config (model_arg (VStr p) (VStr "centroid")) = Ok mc /\
    to_sleap_nn_cfg classes "ModelConfig" mc = Err ValidationError.
Proof.
  intro B.
  first [ exfalso; vm_compute in B; discriminate B
        | exists preset_cex;
          assert (exists mc, get_model_config (model_arg (VStr preset_cex) (VStr "centroid")) = Ok mc /\
                             to_sleap_nn_cfg classes "ModelConfig" mc = Err ValidationError) as [mc [G T]]
            by (vm_compute; eexists; split; reflexivity);
          exists mc; split; [vm_compute; tauto | split; assumption] ].
Qed.
Print Assumptions presets_convert_refuted.

(* the part that held on the pinned tree as well: the presets whose class is the declared field type convert *)
Theorem presets_convert_partial :
  forallb (fun p => is_ok (preset_converts p)) ["unet"; "convnext"; "convnext_tiny"; "swint"; "swint_tiny"] = true.
Proof. vm_compute. reflexivity. Qed.
Print Assumptions presets_convert_partial.

(* ================================================================ (d) on built *)

Lemma verify_schema_wf : swf verify_schema = true.
Proof. vm_compute. reflexivity. Qed.
Print Assumptions verify_schema_wf.

(* normalisation changes no value of, and is idempotent on, EVERY configuration
   that TrainingJobConfig(...).to_sleap_nn_cfg() produces, whatever the three
   sections are *)
Theorem normalise_identity_on_built : forall dc mc tc job c,
  job_of dc mc tc = Ok job -> to_sleap_nn_cfg classes "TrainingJobConfig" job = Ok c ->
  verify_training_cfg c = Ok c.
Proof.
  intros dc mc tc job c J T. unfold job_of in J.
  destruct (mk_complete _ _ _ J) as [kv [-> K]].
  unfold to_sleap_nn_cfg in T. apply bind_ok in T. destruct T as [c0 [T M]].
  destruct (has_missing c0) eqn:HM; [discriminate|]. injection M as <-.
  pose proof T as T0. apply to_cfg_obj_keys in T. destruct T as [kv' [-> K']].
  unfold verify_training_cfg. rewrite K', K.
  replace (forallb (fun k => mem_str k (field_names cls_TrainingJobConfig)) (field_names cls_TrainingJobConfig))
    with true by (vm_compute; reflexivity).
  assert (top_values classes cls_TrainingJobConfig kv' = Ok kv') as ->.
  { apply top_values_fixed.
    pose proof (to_cfg_gen_obj_entries false classes _ _ _ _ _ cls_TrainingJobConfig T0 eq_refl) as E.
    eapply Forall_impl; [|exact E]. intros e [f [x [F X]]]. exists f. split; [exact F|].
    exact (to_cfg_top_fixed _ _ _ _ _ _ X). }
  cbn [bind].
  apply normalise_identity_on_complete; [exact verify_schema_wf | | exact HM].
  unfold verify_schema. apply complete_all_leaves.
  - rewrite K', K. unfold field_names. rewrite map_map. reflexivity.
  - apply Forall_forall. intros e I. apply in_map_iff in I. destruct I as [f [<- _]]. eexists. reflexivity.
Qed.
Print Assumptions normalise_identity_on_built.

(* what verify_training_cfg returns, for ANY input it accepts: field by field of TrainingJobConfig the
   converted supplied value, else the class default *)
Definition verified_fields (kv1 : list (string * cfg)) : list (string * cfg) :=
  map (fun f => (f_name f, match lookup (f_name f) kv1 with Some v => v | None => section_default f end))
      (c_fields cls_TrainingJobConfig).

Lemma verify_shape : forall kv c', verify_training_cfg (VDict kv) = Ok c' ->
  exists kv1, top_values classes cls_TrainingJobConfig kv = Ok kv1 /\ c' = VDict (verified_fields kv1) /\
              normalise verify_schema (VDict kv1) = Ok c'.
Proof.
  intros kv c' V. unfold verify_training_cfg in V.
  destruct (forallb _ _); [|discriminate]. apply bind_ok in V. destruct V as [kv1 [TV N]].
  exists kv1. split; [exact TV|]. split; [|exact N].
  unfold normalise in N. apply bind_ok in N. destruct N as [c1 [M HN]].
  destruct (has_missing c1); [discriminate|]. injection HN as <-.
  unfold verify_schema in M. rewrite merge_node in M. destruct (negb _) in M; [discriminate|].
  rewrite (merge_fields_flat f_name section_default) in M. cbn [bind] in M. injection M as <-. reflexivity.
Qed.
Print Assumptions verify_shape.

Theorem normalise_idempotent_on_any : forall c c',
  verify_training_cfg c = Ok c' -> verify_training_cfg c' = Ok c'.
Proof.
  intros c c' V. destruct c; try discriminate V.
  destruct (verify_shape _ _ V) as [kv1 [TV [-> N]]].
  unfold verify_training_cfg.
  replace (forallb (fun k => mem_str k (field_names cls_TrainingJobConfig)) (map fst (verified_fields kv1)))
    with true by (unfold verified_fields; rewrite map_map; vm_compute; reflexivity).
  assert (top_values classes cls_TrainingJobConfig (verified_fields kv1) = Ok (verified_fields kv1)) as ->.
  { apply top_values_fixed. unfold verified_fields, cls_TrainingJobConfig. cbn [c_fields map].
    repeat (apply Forall_cons;
            [ eexists; split; [reflexivity|]; cbn [fst snd f_name f_ty f_opt];
              match goal with
              | |- top_value _ ?t ?o (match lookup ?k kv1 with Some v => v | None => section_default ?f end) = _ =>
                  destruct (lookup k kv1) as [v|] eqn:L;
                  [ destruct (top_values_lookup _ _ _ _ _ _ TV L) as [f0 [v0 [F0 T0]]];
                    vm_compute in F0; injection F0 as <-; exact (top_value_idem _ _ _ _ _ T0)
                  | unfold section_default;
                    match goal with |- context [to_cfg ?cs ?t' ?o' ?d] =>
                      destruct (to_cfg cs t' o' d) as [x|] eqn:X;
                      [ exact (to_cfg_top_fixed false _ _ _ _ _ X) | reflexivity ] end ]
              end
            |]).
    apply Forall_nil. }
  cbn [bind]. eapply normalise_idempotent; [exact verify_schema_wf | exact N].
Qed.
Print Assumptions normalise_idempotent_on_any.

(* THE READING OF THE LAST CLAUSE, as a theorem.  verify_training_cfg returns every section it is
   given as a dict (or list) node VERBATIM, whatever it holds: no attrs validator, no `oneof` check,
   no completion runs below the top level.  So a DictConfig / YAML with two backbones, a probability
   1.5 or a scale -1 passes normalisation unchanged; "configuration objects reject ..." is proved
   for the constructors of the configuration classes (the theorems of (e) above, and at the
   builders' entry points in PerRunChain), and the configurations the builders produce cannot hold
   such values for that reason. *)
Theorem verify_takes_sections_verbatim : forall kv c' sec v,
  verify_training_cfg (VDict kv) = Ok c' -> In sec ["data_config"; "model_config"; "trainer_config"] ->
  lookup sec kv = Some v -> (exists d, v = VDict d) \/ (exists l, v = VList l) ->
  get [sec] c' = Some v.
Proof.
  intros kv c' sec v V I L Sh.
  destruct (verify_shape _ _ V) as [kv1 [TV [-> _]]].
  destruct (top_values_lookup_fwd _ _ _ _ _ _ TV L) as [f [v' [_ [T L1]]]].
  assert (v' = v) as ->.
  { destruct Sh as [[d ->]|[l ->]]; simpl in T; inversion T; reflexivity. }
  simpl in I. unfold verified_fields, cls_TrainingJobConfig. cbn [c_fields map f_name].
  destruct I as [<-|[<-|[<-|[]]]]; cbn [get fields lookup String.eqb Ascii.eqb Bool.eqb]; rewrite L1; reflexivity.
Qed.
Print Assumptions verify_takes_sections_verbatim.

(* ... while a scalar or None at a section is rejected, and a non-string scalar at a str field is
   CONVERTED (normalisation is the identity on built configurations, not on arbitrary containers) *)
Definition two_backbones : cfg :=
  VDict [("backbone_config", VDict [("unet", VDict [("filters", VInt 8)]); ("convnext", VDict [("model_type", VStr "huge")]);
                                    ("swint", VNone)])].
Definition bad_probability : cfg :=
  VDict [("augmentation_config", VDict [("intensity", VDict [("contrast_p", VFloat (3 # 2))])]);
         ("preprocessing", VDict [("scale", VFloat (-1))])].
Definition unvalidated_container : cfg :=
  VDict [("data_config", bad_probability); ("model_config", two_backbones); ("trainer_config", VDict [])].
Example ex_verify_validates_nothing_below_the_top :
  (exists c', verify_training_cfg unvalidated_container = Ok c' /\
              get ["model_config"] c' = Some two_backbones /\ get ["data_config"] c' = Some bad_probability) /\
  is_ok (mk cls_BackboneConfig [("unet", default_obj cls_UNetConfig); ("convnext", default_obj cls_ConvNextConfig)]) = false /\
  is_ok (mk cls_IntensityConfig [("contrast_p", VFloat (3 # 2))]) = false /\
  verify_training_cfg (VDict [("data_config", VInt 3)]) = Err ValidationError /\
  verify_training_cfg (VDict [("data_config", VNone)]) = Err ValidationError /\
  (forall dc mc tc c', verify_training_cfg (VDict [("data_config", VDict dc); ("model_config", VDict mc);
                                                   ("trainer_config", VDict tc); ("name", VInt 123)]) = Ok c' ->
                       get ["name"] c' = Some (VStr "123")).
Proof.
  split; [vm_compute; eexists; repeat split|].
  repeat (split; [vm_compute; reflexivity|]).
  intros dc mc tc c' V. destruct (verify_shape _ _ V) as [kv1 [TV [-> _]]].
  destruct (top_values_lookup_fwd _ _ _ _ "name" (VInt 123) TV eq_refl) as [f [v' [F [T L1]]]].
  vm_compute in F. injection F as <-. vm_compute in T. injection T as <-.
  unfold verified_fields, cls_TrainingJobConfig. cbn [c_fields map f_name get fields lookup String.eqb Ascii.eqb Bool.eqb].
  rewrite L1. reflexivity.
Qed.

(* every class can be default-constructed and gives the declared defaults
   (so `default_obj`, used as "the schema default" above, is what `Cls()` returns) *)
Theorem defaults_constructible :
  forallb (fun c => match mk c [] with Ok r => cfg_eqb r (default_obj c) | Err _ => false end) classes = true.
Proof. vm_compute. reflexivity. Qed.
Print Assumptions defaults_constructible.

