(* Lemmas.v (C20) — once-and-for-all proofs about the generic configuration model
   of C20/CfgTree.v.  Nothing here depends on the generated files. *)
From Coq Require Import List String Ascii ZArith QArith Bool Arith Lia.
From SV Require Import C20.CfgTree.
Import ListNotations.
Close Scope Q_scope.
Open Scope string_scope.

(* ------------------------------------------------------------------ basics *)

Lemma mem_str_In : forall k l, mem_str k l = true <-> In k l.
Proof.
  unfold mem_str. intros k l. rewrite existsb_exists. split.
  - intros [x [Hx E]]. apply String.eqb_eq in E. subst. exact Hx.
  - intro H. exists k. split; [exact H | apply String.eqb_refl].
Qed.

Lemma mem_str_false : forall k l, mem_str k l = false <-> ~ In k l.
Proof.
  intros. rewrite <- mem_str_In. destruct (mem_str k l); split; congruence.
Qed.

Lemma nodup_str_NoDup : forall l, nodup_str l = true <-> NoDup l.
Proof.
  induction l as [|k r IH]; simpl.
  - split; [constructor | reflexivity].
  - rewrite andb_true_iff, negb_true_iff, mem_str_false, IH. split.
    + intros [A B]. constructor; assumption.
    + intro H. inversion H; subst. split; assumption.
Qed.

Lemma lookup_In : forall {A} k (kv : list (string * A)) v, lookup k kv = Some v -> In (k, v) kv.
Proof.
  induction kv as [|[k' v'] r IH]; simpl; intros v H; [discriminate|].
  destruct (String.eqb k k') eqn:E.
  - apply String.eqb_eq in E. inversion H; subst. left; reflexivity.
  - right. apply IH. exact H.
Qed.

Lemma lookup_In_keys : forall {A} k (kv : list (string * A)) v, lookup k kv = Some v -> In k (map fst kv).
Proof.
  intros. apply lookup_In in H. apply (in_map fst) in H. exact H.
Qed.

Lemma lookup_None : forall {A} k (kv : list (string * A)), lookup k kv = None <-> ~ In k (map fst kv).
Proof.
  induction kv as [|[k' v'] r IH]; simpl.
  - split; [intros _ []| reflexivity].
  - destruct (String.eqb k k') eqn:E.
    + apply String.eqb_eq in E. subst. split; [discriminate | intro H; exfalso; apply H; left; reflexivity].
    + apply String.eqb_neq in E. rewrite IH. split.
      * intros H [H1|H1]; [congruence | contradiction].
      * intros H H1. apply H. right. exact H1.
Qed.

Lemma lookup_NoDup : forall {A} (kv : list (string * A)) k v,
  NoDup (map fst kv) -> In (k, v) kv -> lookup k kv = Some v.
Proof.
  induction kv as [|[k' v'] r IH]; simpl; intros k v ND H; [contradiction|].
  inversion ND as [|x l Hn ND']; subst.
  destruct H as [H|H].
  - inversion H; subst. rewrite String.eqb_refl. reflexivity.
  - destruct (String.eqb k k') eqn:E.
    + apply String.eqb_eq in E. subst. exfalso. apply Hn.
      apply (in_map fst) in H. exact H.
    + apply IH; assumption.
Qed.

Lemma bind_ok : forall {A B} (m : res A) (f : A -> res B) b,
  bind m f = Ok b -> exists a, m = Ok a /\ f a = Ok b.
Proof. intros A B [a|e] f b H; simpl in H; [exists a; split; [reflexivity|exact H] | discriminate]. Qed.

Lemma andl_true : forall a b : bool, (a &&& b) = true <-> a = true /\ b = true.
Proof. intros [|] [|]; simpl; split; intros; try discriminate; try tauto; destruct H; discriminate. Qed.

(* ------------------------------------------------------- structural equality *)

Lemma q_eqb_eq : forall a b, q_eqb a b = true -> a = b.
Proof.
  intros [an ad] [bn bd]. unfold q_eqb. simpl. rewrite andb_true_iff.
  intros [A B]. apply Z.eqb_eq in A. apply Pos.eqb_eq in B. subst. reflexivity.
Qed.

Section CfgInd.
  Variable P : cfg -> Prop.
  Hypothesis HNone : P VNone.
  Hypothesis HMissing : P VMissing.
  Hypothesis HBool : forall b, P (VBool b).
  Hypothesis HInt : forall z, P (VInt z).
  Hypothesis HFloat : forall q, P (VFloat q).
  Hypothesis HNonFin : forall k, P (VNonFin k).
  Hypothesis HStr : forall s, P (VStr s).
  Hypothesis HList : forall l, Forall P l -> P (VList l).
  Hypothesis HTup : forall l, Forall P l -> P (VTup l).
  Hypothesis HDict : forall kv, Forall (fun e => P (snd e)) kv -> P (VDict kv).
  Hypothesis HObj : forall c kv, Forall (fun e => P (snd e)) kv -> P (VObj c kv).

  Fixpoint cfg_ind' (c : cfg) : P c :=
    match c with
    | VNone => HNone
    | VMissing => HMissing
    | VBool b => HBool b
    | VInt z => HInt z
    | VFloat q => HFloat q
    | VNonFin k => HNonFin k
    | VStr s => HStr s
    | VList l => HList l ((fix go (l : list cfg) : Forall P l :=
                             match l with [] => Forall_nil _ | x :: r => Forall_cons _ (cfg_ind' x) (go r) end) l)
    | VTup l => HTup l ((fix go (l : list cfg) : Forall P l :=
                           match l with [] => Forall_nil _ | x :: r => Forall_cons _ (cfg_ind' x) (go r) end) l)
    | VDict kv => HDict kv ((fix go (l : list (string * cfg)) : Forall (fun e => P (snd e)) l :=
                               match l with [] => Forall_nil _ | x :: r => Forall_cons _ (cfg_ind' (snd x)) (go r) end) kv)
    | VObj c kv => HObj c kv ((fix go (l : list (string * cfg)) : Forall (fun e => P (snd e)) l :=
                                 match l with [] => Forall_nil _ | x :: r => Forall_cons _ (cfg_ind' (snd x)) (go r) end) kv)
    end.
End CfgInd.

Definition list_eqb_go :=
  fix go (x y : list cfg) {struct x} : bool :=
    match x, y with
    | [], [] => true
    | a' :: x', b' :: y' => cfg_eqb a' b' &&& go x' y'
    | _, _ => false
    end.

Definition kv_eqb_go :=
  fix go (x y : list (string * cfg)) {struct x} : bool :=
    match x, y with
    | [], [] => true
    | (k, a') :: x', (k', b') :: y' => String.eqb k k' &&& cfg_eqb a' b' &&& go x' y'
    | _, _ => false
    end.

Lemma list_eqb_go_eq : forall x, Forall (fun a => forall b, cfg_eqb a b = true -> a = b) x ->
  forall y, list_eqb_go x y = true -> x = y.
Proof.
  induction 1 as [|a x Ha Hx IH]; intros [|b y] H; simpl in H; try discriminate; [reflexivity|].
  apply andl_true in H. destruct H as [H1 H2]. f_equal; [apply Ha; exact H1 | apply IH; exact H2].
Qed.

Lemma kv_eqb_go_eq : forall x, Forall (fun e => forall b, cfg_eqb (snd e) b = true -> snd e = b) x ->
  forall y, kv_eqb_go x y = true -> x = y.
Proof.
  induction 1 as [|[k a] x Ha Hx IH]; intros [|[k' b] y] H; simpl in H; try discriminate; [reflexivity|].
  apply andl_true in H. destruct H as [H1 H2]. apply andl_true in H1. destruct H1 as [H0 H1].
  apply String.eqb_eq in H0. subst. simpl in Ha. rewrite (Ha b H1). f_equal. apply IH; exact H2.
Qed.

Lemma cfg_eqb_eq : forall a b, cfg_eqb a b = true -> a = b.
Proof.
  induction a using cfg_ind'; intros y E; destruct y; simpl in E; try discriminate; try reflexivity.
  - apply Bool.eqb_prop in E. subst. reflexivity.
  - apply Z.eqb_eq in E. subst. reflexivity.
  - apply q_eqb_eq in E. subst. reflexivity.
  - destruct k, k0; simpl in E; try discriminate; reflexivity.
  - apply String.eqb_eq in E. subst. reflexivity.
  - f_equal. apply (list_eqb_go_eq l H l0 E).
  - f_equal. apply (list_eqb_go_eq l H l0 E).
  - f_equal. apply (kv_eqb_go_eq kv H kv0 E).
  - apply andl_true in E. destruct E as [E1 E2]. apply String.eqb_eq in E1. subst.
    f_equal. apply (kv_eqb_go_eq kv H kv0 E2).
Qed.

(* -------------------------------------------------------------- attrs layer *)

Lemma find_field_name : forall c k f, find_field c k = Some f -> f_name f = k /\ In f (c_fields c).
Proof.
  unfold find_field. intros c k f H. apply find_some in H. destruct H as [H1 H2].
  apply String.eqb_eq in H2. split; assumption.
Qed.

Lemma find_field_None : forall c k, find_field c k = None <-> ~ In k (field_names c).
Proof.
  unfold find_field, field_names. intros c k. induction (c_fields c) as [|f r IH]; simpl.
  - split; [intros _ [] | reflexivity].
  - destruct (String.eqb (f_name f) k) eqn:E.
    + apply String.eqb_eq in E. split; [discriminate | intro H; exfalso; apply H; left; exact E].
    + apply String.eqb_neq in E. rewrite IH. split.
      * intros H [H1|H1]; [congruence|contradiction].
      * intros H H1. apply H. right. exact H1.
Qed.

Lemma lookup_fill : forall c kw k,
  lookup k (fill c kw) =
  match find_field c k with
  | Some f => Some (match lookup k kw with Some v => v | None => f_default f end)
  | None => None
  end.
Proof.
  unfold fill, find_field. intros c kw k. induction (c_fields c) as [|f r IH]; simpl; [reflexivity|].
  rewrite String.eqb_sym. destruct (String.eqb (f_name f) k) eqn:E.
  - apply String.eqb_eq in E. subst. reflexivity.
  - exact IH.
Qed.

Lemma fill_keys : forall c kw, map fst (fill c kw) = field_names c.
Proof. unfold fill, field_names. intros. rewrite map_map. reflexivity. Qed.

Lemma mk_ok_shape : forall c kw r, mk c kw = Ok r ->
  r = VObj (c_name c) (fill c kw) /\
  nodup_str (map fst kw) = true /\
  forallb (fun k => mem_str k (field_names c)) (map fst kw) = true /\
  run_validators (c_fields c) (VObj (c_name c) (fill c kw)) (fill c kw) = Ok tt /\
  (c_oneof c = true -> oneof_check false (fill c kw) = Ok tt).
Proof.
  unfold mk. intros c kw r H.
  destruct (nodup_str (map fst kw)); simpl in H; [|discriminate].
  destruct (forallb (fun k => mem_str k (field_names c)) (map fst kw)); simpl in H; [|discriminate].
  apply bind_ok in H. destruct H as [[] [H1 H]].
  apply bind_ok in H. destruct H as [[] [H2 H]].
  inversion H; subst. repeat split; try assumption.
  intro O. rewrite O in H2. exact H2.
Qed.

(* every supplied keyword argument is the value of its field *)
Theorem mk_reflects_kwargs : forall c kw r k v,
  mk c kw = Ok r -> lookup k kw = Some v -> get [k] r = Some v.
Proof.
  intros c kw r k v H L. apply mk_ok_shape in H. destruct H as [R [_ [K _]]]. subst r.
  simpl. rewrite lookup_fill.
  assert (In k (field_names c)) as Hk.
  { rewrite forallb_forall in K. apply mem_str_In. apply K. eapply lookup_In_keys. exact L. }
  destruct (find_field c k) eqn:F.
  - rewrite L. reflexivity.
  - apply find_field_None in F. contradiction.
Qed.

(* every field that is not supplied holds its declared default *)
Theorem mk_defaults_elsewhere : forall c kw r k f,
  mk c kw = Ok r -> lookup k kw = None -> find_field c k = Some f -> get [k] r = Some (f_default f).
Proof.
  intros c kw r k f H L F. apply mk_ok_shape in H. destruct H as [R _]. subst r.
  simpl. rewrite lookup_fill, F, L. reflexivity.
Qed.

(* the instance has exactly the declared fields, in the declared order *)
Theorem mk_complete : forall c kw r, mk c kw = Ok r ->
  exists kv, r = VObj (c_name c) kv /\ map fst kv = field_names c.
Proof.
  intros c kw r H. apply mk_ok_shape in H. destruct H as [R _]. subst r.
  exists (fill c kw). split; [reflexivity | apply fill_keys].
Qed.

Theorem mk_unknown_keyword : forall c kw k,
  In k (map fst kw) -> ~ In k (field_names c) -> mk c kw = Err TypeError.
Proof.
  intros c kw k Hk Hn. unfold mk. destruct (nodup_str (map fst kw)); simpl; [|reflexivity].
  destruct (forallb (fun k0 => mem_str k0 (field_names c)) (map fst kw)) eqn:E; simpl; [|reflexivity].
  rewrite forallb_forall in E. specialize (E k Hk). apply mem_str_In in E. contradiction.
Qed.

(* --- oneof ---------------------------------------------------------------- *)

Lemma filter_two : forall {A} (p : A -> bool) (l : list A) x y,
  In x l -> In y l -> x <> y -> p x = true -> p y = true -> 2 <= List.length (filter p l).
Proof.
  induction l as [|a r IH]; intros x y Hx Hy Ne Px Py; [contradiction|].
  simpl. destruct Hx as [Hx|Hx]; destruct Hy as [Hy|Hy]; subst.
  - congruence.
  - rewrite Px. simpl. apply le_n_S.
    assert (In y (filter p r)) by (apply filter_In; split; assumption).
    destruct (filter p r); [contradiction | simpl; lia].
  - rewrite Py. simpl. apply le_n_S.
    assert (In x (filter p r)) by (apply filter_In; split; assumption).
    destruct (filter p r); [contradiction | simpl; lia].
  - specialize (IH x y Hx Hy Ne Px Py). destruct (p a); simpl; lia.
Qed.

Theorem oneof_rejects_two : forall must kv, 2 <= count_set kv -> oneof_check must kv = Err ValueError.
Proof.
  unfold oneof_check. intros must kv H.
  destruct (Nat.ltb 1 (count_set kv)) eqn:E; [reflexivity|]. apply Nat.ltb_ge in E. lia.
Qed.

Theorem oneof_accepts_at_most_one : forall kv, count_set kv <= 1 -> oneof_check false kv = Ok tt.
Proof.
  unfold oneof_check. intros kv H.
  destruct (Nat.ltb 1 (count_set kv)) eqn:E; [apply Nat.ltb_lt in E; lia|].
  rewrite andb_false_r. reflexivity.
Qed.

(* a oneof class cannot be constructed with two different members set *)
Theorem mk_oneof_rejects_two : forall c kw f1 f2 v1 v2,
  c_oneof c = true ->
  In f1 (c_fields c) -> In f2 (c_fields c) -> f_name f1 <> f_name f2 ->
  lookup (f_name f1) kw = Some v1 -> lookup (f_name f2) kw = Some v2 ->
  v1 <> VNone -> v2 <> VNone ->
  is_ok (mk c kw) = false.
Proof.
  intros c kw f1 f2 v1 v2 O I1 I2 Ne L1 L2 N1 N2.
  destruct (mk c kw) eqn:M; [|reflexivity]. exfalso.
  apply mk_ok_shape in M. destruct M as [_ [_ [_ [_ M]]]]. specialize (M O).
  rewrite oneof_rejects_two in M; [discriminate|].
  unfold count_set.
  apply filter_two with (x := (f_name f1, v1)) (y := (f_name f2, v2)).
  - unfold fill. apply in_map_iff. exists f1. rewrite L1. split; [reflexivity|assumption].
  - unfold fill. apply in_map_iff. exists f2. rewrite L2. split; [reflexivity|assumption].
  - intro E. inversion E. contradiction.
  - simpl. destruct v1; try reflexivity. congruence.
  - simpl. destruct v2; try reflexivity. congruence.
Qed.

Theorem mk_oneof_at_most_one : forall c kw n kv,
  c_oneof c = true -> mk c kw = Ok (VObj n kv) -> count_set kv <= 1.
Proof.
  intros c kw n kv O M. apply mk_ok_shape in M. destruct M as [R [_ [_ [_ M]]]]. specialize (M O).
  inversion R; subst. unfold oneof_check in M.
  destruct (Nat.ltb 1 (count_set (fill c kw))) eqn:E; [discriminate|]. apply Nat.ltb_ge in E. exact E.
Qed.

(* ------------------------------------------------------------ structured merge *)

Section SchemaInd.
  Variable P : schema -> Prop.
  Hypothesis HLeaf : forall d, P (SLeaf d).
  Hypothesis HNode : forall o d fs, Forall (fun e => P (snd e)) fs -> P (SNode o d fs).
  Fixpoint schema_ind' (s : schema) : P s :=
    match s with
    | SLeaf d => HLeaf d
    | SNode o d fs =>
        HNode o d fs ((fix go (l : list (string * schema)) : Forall (fun e => P (snd e)) l :=
                         match l with [] => Forall_nil _ | x :: r => Forall_cons _ (schema_ind' (snd x)) (go r) end) fs)
    end.
End SchemaInd.

Definition sdefault_fields :=
  fix go (fs : list (string * schema)) : list (string * cfg) :=
    match fs with [] => [] | (k, s') :: r => (k, sdefault s') :: go r end.

Definition merge_fields (kv : list (string * cfg)) :=
  fix go (fs : list (string * schema)) : res (list (string * cfg)) :=
    match fs with
    | [] => Ok []
    | (k, s') :: r =>
        bind (match lookup k kv with Some c' => merge s' c' | None => Ok (sdefault s') end) (fun v =>
        bind (go r) (fun r' => Ok ((k, v) :: r')))
    end.

Definition complete_fields :=
  fix go (fs : list (string * schema)) (kv : list (string * cfg)) : bool :=
    match fs, kv with
    | [], [] => true
    | (k, s') :: r, (k', c') :: r' => String.eqb k k' && complete s' c' && go r r'
    | _, _ => false
    end.

Definition swf_fields :=
  fix go (fs : list (string * schema)) : bool :=
    match fs with [] => true | (_, s') :: r => swf s' && go r end.

Lemma merge_node : forall o d fs kv,
  merge (SNode o d fs) (VDict kv) =
  if negb (forallb (fun k => mem_str k (map fst fs)) (map fst kv)) then Err ConfigKeyError
  else bind (merge_fields kv fs) (fun kv' => Ok (VDict kv')).
Proof. reflexivity. Qed.

Lemma complete_node : forall o d fs kv, complete (SNode o d fs) (VDict kv) = complete_fields fs kv.
Proof. reflexivity. Qed.

Lemma swf_node : forall o d fs,
  swf (SNode o d fs) = implb d o && nodup_str (map fst fs) && swf_fields fs.
Proof. reflexivity. Qed.

Lemma sdefault_node : forall o d fs,
  sdefault (SNode o d fs) = if d then VNone else VDict (sdefault_fields fs).
Proof. reflexivity. Qed.

Lemma complete_fields_keys : forall fs kv, complete_fields fs kv = true -> map fst kv = map fst fs.
Proof.
  induction fs as [|[k s] r IH]; intros [|[k' c] r'] H; simpl in H; try discriminate; [reflexivity|].
  apply andb_true_iff in H. destruct H as [H H2]. apply andb_true_iff in H. destruct H as [H0 H1].
  apply String.eqb_eq in H0. subst. simpl. f_equal. apply IH. exact H2.
Qed.

Lemma merge_fields_complete : forall kv fs kvs,
  Forall (fun e => swf (snd e) = true -> forall c, complete (snd e) c = true -> merge (snd e) c = Ok c) fs ->
  swf_fields fs = true -> complete_fields fs kvs = true ->
  (forall k c, In (k, c) kvs -> lookup k kv = Some c) ->
  merge_fields kv fs = Ok kvs.
Proof.
  intros kv. induction fs as [|[k s] r IH]; intros [|[k' c] r'] H W3 C L;
    simpl in C; try discriminate; [reflexivity|].
  apply andb_true_iff in C. destruct C as [C C2]. apply andb_true_iff in C. destruct C as [C0 C1].
  apply String.eqb_eq in C0. subst k'.
  simpl in W3. apply andb_true_iff in W3. destruct W3 as [Ws Wr].
  inversion H as [|x l Hs Hr]; subst. simpl in Hs.
  simpl. rewrite (L k c (or_introl eq_refl)). rewrite (Hs Ws c C1). simpl.
  rewrite (IH r' Hr Wr C2).
  - reflexivity.
  - intros k0 c0 I. apply L. right. exact I.
Qed.

(* identity on complete configurations *)
Theorem merge_complete_id : forall s, swf s = true -> forall c, complete s c = true -> merge s c = Ok c.
Proof.
  induction s using schema_ind'; intros W c C; [reflexivity|].
  rewrite swf_node in W. apply andb_true_iff in W. destruct W as [W W3].
  apply andb_true_iff in W. destruct W as [W1 W2].
  destruct c; simpl in C; try discriminate.
  - simpl. rewrite C. reflexivity.
  - rewrite merge_node. fold (complete_fields fs kv) in C.
    pose proof (complete_fields_keys _ _ C) as K.
    assert (forallb (fun k => mem_str k (map fst fs)) (map fst kv) = true) as F.
    { apply forallb_forall. intros k Hk. apply mem_str_In. rewrite <- K. exact Hk. }
    rewrite F. simpl.
    assert (NoDup (map fst kv)) as ND by (rewrite K; apply nodup_str_NoDup; exact W2).
    rewrite (merge_fields_complete kv fs kv H W3 C); [reflexivity|].
    intros; apply lookup_NoDup; assumption.
Qed.

Lemma sdefault_complete : forall s, swf s = true -> complete s (sdefault s) = true.
Proof.
  induction s using schema_ind'; intro W; [reflexivity|].
  rewrite swf_node in W. apply andb_true_iff in W. destruct W as [W W3].
  apply andb_true_iff in W. destruct W as [W1 _].
  rewrite sdefault_node. destruct d.
  - simpl. destruct o; [reflexivity | discriminate].
  - rewrite complete_node. clear W1. induction fs as [|[k s] r IH]; [reflexivity|].
    simpl in W3. apply andb_true_iff in W3. destruct W3 as [Ws Wr].
    inversion H as [|x l Hs Hr]; subst. simpl in Hs.
    simpl. rewrite String.eqb_refl, (Hs Ws). simpl. apply IH; assumption.
Qed.

(* the result of a merge is complete *)
Theorem merge_result_complete : forall s, swf s = true -> forall c c', merge s c = Ok c' -> complete s c' = true.
Proof.
  induction s using schema_ind'; intros W c c' M; [reflexivity|].
  rewrite swf_node in W. apply andb_true_iff in W. destruct W as [W W3].
  apply andb_true_iff in W. destruct W as [W1 W2].
  destruct c; simpl in M; try discriminate.
  - destruct o; [|discriminate]. inversion M; subst. reflexivity.
  - fold (merge_fields kv) in M.
    destruct (negb (forallb (fun k => mem_str k (map fst fs)) (map fst kv))); [discriminate|].
    apply bind_ok in M. destruct M as [kv' [M E]]. inversion E; subst. rewrite complete_node.
    clear E W1 W2. revert kv' M. induction fs as [|[k s] r IH]; intros kv' M; simpl in M.
    + inversion M; subst. reflexivity.
    + simpl in W3. apply andb_true_iff in W3. destruct W3 as [Ws Wr].
      inversion H as [|x l Hs Hr]; subst. simpl in Hs.
      apply bind_ok in M. destruct M as [v [Mv M]].
      apply bind_ok in M. destruct M as [r' [Mr M]]. inversion M; subst.
      simpl. rewrite String.eqb_refl. simpl.
      rewrite (IH Hr Wr r' Mr), andb_true_r.
      destruct (lookup k kv) as [c0|].
      * apply (Hs Ws c0 v Mv).
      * inversion Mv; subst. apply sdefault_complete. exact Ws.
Qed.

(* normalisation is idempotent *)
Theorem merge_idempotent : forall s, swf s = true -> forall c c', merge s c = Ok c' -> merge s c' = Ok c'.
Proof.
  intros s W c c' M. apply merge_complete_id; [exact W|]. eapply merge_result_complete; eassumption.
Qed.

Lemma merge_fields_lookup : forall kv fs kv' k s',
  merge_fields kv fs = Ok kv' -> lookup k fs = Some s' ->
  exists y, lookup k kv' = Some y /\
            (match lookup k kv with Some x => merge s' x | None => Ok (sdefault s') end) = Ok y.
Proof.
  induction fs as [|[k0 s0] r IH]; intros kv' k s' M L; simpl in L; [discriminate|].
  simpl in M. apply bind_ok in M. destruct M as [v [Mv M]].
  apply bind_ok in M. destruct M as [r' [Mr M]]. inversion M; subst.
  simpl. destruct (String.eqb k k0) eqn:E.
  - apply String.eqb_eq in E. subst. inversion L; subst. exists v. split; [reflexivity|exact Mv].
  - apply (IH r' k s' Mr L).
Qed.

(* lossless: a value present at a leaf of the schema is kept unchanged *)
Theorem merge_lossless : forall s c c' p v,
  merge s c = Ok c' -> leaf_path s p = true -> get p c = Some v -> get p c' = Some v.
Proof.
  induction s using schema_ind'; intros c c' p v M LP G.
  - simpl in M. inversion M; subst. exact G.
  - destruct p as [|k r]; simpl in LP; [discriminate|].
    destruct (lookup k fs) as [s'|] eqn:Ls; [|discriminate].
    destruct c; simpl in G; try discriminate.
    + (* VDict *)
      rewrite merge_node in M.
      destruct (negb (forallb (fun k0 => mem_str k0 (map fst fs)) (map fst kv))); [discriminate|].
      apply bind_ok in M. destruct M as [kv' [M E]]. inversion E; subst.
      destruct (lookup k kv) as [x|] eqn:Lk; [|discriminate].
      destruct (merge_fields_lookup kv fs kv' k s' M Ls) as [y [Ly My]].
      rewrite Lk in My. simpl. rewrite Ly.
      rewrite Forall_forall in H. apply lookup_In in Ls.
      apply (H (k, s') Ls x y r v My LP G).
      (* (a VObj is not a plain container: merge rejects it — closed by discriminate above) *)
Qed.

Theorem merge_rejects_unknown_key : forall o d fs kv k,
  In k (map fst kv) -> ~ In k (map fst fs) -> merge (SNode o d fs) (VDict kv) = Err ConfigKeyError.
Proof.
  intros o d fs kv k Hk Hn. rewrite merge_node.
  destruct (forallb (fun k0 => mem_str k0 (map fst fs)) (map fst kv)) eqn:F; [|reflexivity].
  rewrite forallb_forall in F. specialize (F k Hk). apply mem_str_In in F. contradiction.
Qed.

Theorem merge_fills_defaults : forall o d fs kv c' k s',
  merge (SNode o d fs) (VDict kv) = Ok c' -> lookup k kv = None -> lookup k fs = Some s' ->
  get [k] c' = Some (sdefault s').
Proof.
  intros o d fs kv c' k s' M Lk Ls. rewrite merge_node in M.
  destruct (negb (forallb (fun k0 => mem_str k0 (map fst fs)) (map fst kv))); [discriminate|].
  apply bind_ok in M. destruct M as [kv' [M E]]. inversion E; subst.
  destruct (merge_fields_lookup kv fs kv' k s' M Ls) as [y [Ly My]].
  rewrite Lk in My. inversion My; subst. simpl. rewrite Ly. reflexivity.
Qed.

Theorem normalise_idempotent : forall s, swf s = true -> forall c c',
  normalise s c = Ok c' -> normalise s c' = Ok c'.
Proof.
  unfold normalise. intros s W c c' N. apply bind_ok in N. destruct N as [c1 [M N]].
  destruct (has_missing c1) eqn:HM; [discriminate|]. inversion N; subst.
  rewrite (merge_idempotent s W c c' M). simpl. rewrite HM. reflexivity.
Qed.

Theorem normalise_identity_on_complete : forall s, swf s = true -> forall c,
  complete s c = true -> has_missing c = false -> normalise s c = Ok c.
Proof.
  unfold normalise. intros s W c C HM. rewrite (merge_complete_id s W c C). simpl. rewrite HM. reflexivity.
Qed.

(* ----------------------------------------------- finite reachability is sound *)

Lemma strs_eqb_eq : forall a b, strs_eqb a b = true -> a = b.
Proof.
  unfold strs_eqb. induction a as [|x a IH]; intros [|y b] H; try discriminate; [reflexivity|].
  apply andl_true in H. destruct H as [H1 H2]. apply String.eqb_eq in H1. subst.
  f_equal. apply IH. exact H2.
Qed.

Lemma st_mem_In : forall (x : st) R, st_mem x R = true -> In x R.
Proof.
  unfold st_mem. intros [s seen] R H. apply existsb_exists in H. destruct H as [[s' seen'] [I E]].
  simpl in E. apply andl_true in E. destruct E as [E1 E2].
  apply cfg_eqb_eq in E2. apply strs_eqb_eq in E1. subst. exact I.
Qed.

Lemma fold_res_app : forall {S A} (f : S -> A -> res S) l1 l2 s,
  fold_res f (l1 ++ l2) s = bind (fold_res f l1 s) (fold_res f l2).
Proof.
  induction l1 as [|x r IH]; intros l2 s; simpl; [reflexivity|].
  destruct (f s x); simpl; [apply IH | reflexivity].
Qed.

Lemma fold_res_map : forall {S A B} (f : S -> B -> res S) (g : A -> B) l s,
  fold_res f (map g l) s = fold_res (fun s x => f s (g x)) l s.
Proof.
  induction l as [|x r IH]; intros s; simpl; [reflexivity|].
  destruct (f s (g x)); simpl; [apply IH | reflexivity].
Qed.

Section ReachSound.
  Variable step : cfg -> string -> res cfg.
  Variable names : list string.
  Variable inv : cfg -> list string -> bool.
  Variable allowed : list string -> bool.

  Lemma canon_ext : forall A B, (forall m, In m names -> mem_str m A = mem_str m B) ->
    canon names A = canon names B.
  Proof. intros A B H. unfold canon. apply filter_ext_in. exact H. Qed.

  Lemma mem_canon : forall A m, In m names -> mem_str m (canon names A) = mem_str m A.
  Proof.
    intros A m Hm. unfold canon. destruct (mem_str m A) eqn:E.
    - apply mem_str_In. apply filter_In. split; assumption.
    - apply mem_str_false. intro I. apply filter_In in I. destruct I as [_ I]. congruence.
  Qed.

  Lemma mem_str_cons : forall m n A, mem_str m (n :: A) = String.eqb m n || mem_str m A.
  Proof. reflexivity. Qed.

  Lemma canon_cons_canon : forall n A, canon names (n :: canon names A) = canon names (n :: A).
  Proof.
    intros. apply canon_ext. intros m Hm. rewrite !mem_str_cons, mem_canon; [reflexivity|exact Hm].
  Qed.

  Lemma canon_snoc : forall n A, canon names (A ++ [n]) = canon names (n :: A).
  Proof.
    intros. apply canon_ext. intros m _. rewrite mem_str_cons. unfold mem_str.
    rewrite existsb_app. simpl. rewrite orb_false_r. apply orb_comm.
  Qed.

  Lemma canon_nil : canon names [] = [].
  Proof. unfold canon. induction names as [|x r IH]; simpl; [reflexivity|exact IH]. Qed.

  Lemma canon_In : forall A n, In n (canon names A) <-> In n names /\ In n A.
  Proof. intros. unfold canon. rewrite filter_In, mem_str_In. reflexivity. Qed.

  Theorem reach_sound : forall R init,
    closed step names inv allowed R = true ->
    st_mem (init, []) R = true ->
    (forall A n, allowed (canon names (n :: A)) = true -> allowed (canon names A) = true) ->
    forall l, Forall (fun n => In n names) l -> allowed (canon names l) = true ->
    exists s, fold_names step l init = Ok s /\ inv s (canon names l) = true.
  Proof.
    intros R init C I0 Anti l.
    assert (forall l, Forall (fun n => In n names) l -> allowed (canon names l) = true ->
                      exists s, fold_names step l init = Ok s /\ In (s, canon names l) R) as Main.
    { clear l. induction l as [|n l' IH] using rev_ind; intros F A.
      - exists init. split; [reflexivity|]. rewrite canon_nil. apply st_mem_In. exact I0.
      - apply Forall_app in F. destruct F as [F Fn]. inversion Fn as [|x y Hn _]; subst.
        rewrite canon_snoc in A. pose proof (Anti _ _ A) as A'.
        destruct (IH F A') as [s' [Fs' Is']].
        unfold closed in C. rewrite forallb_forall in C. specialize (C _ Is').
        apply andl_true in C. destruct C as [_ C]. rewrite forallb_forall in C.
        specialize (C (let seen' := canon names (n :: snd (s', canon names l')) in
                       if allowed seen' then match step (fst (s', canon names l')) n with
                                             | Ok s'' => Some (s'', seen') | Err _ => None end
                       else Some (s', canon names l'))).
        simpl in C. rewrite canon_cons_canon, A in C.
        assert (In (match step s' n with Ok s'' => Some (s'', canon names (n :: l')) | Err _ => None end)
                   (succs step names allowed (s', canon names l'))) as Hin.
        { unfold succs. apply in_map_iff. exists n. split; [|exact Hn].
          simpl. rewrite canon_cons_canon, A. reflexivity. }
        specialize (C Hin). destruct (step s' n) as [s''|] eqn:St; [|discriminate].
        exists s''. split.
        + unfold fold_names in *. rewrite fold_res_app, Fs'. simpl. rewrite St. reflexivity.
        + rewrite canon_snoc. apply st_mem_In. exact C. }
    intros F A. destruct (Main l F A) as [s [Fs Is]]. exists s. split; [exact Fs|].
    unfold closed in C. rewrite forallb_forall in C. specialize (C _ Is).
    apply andl_true in C. destruct C as [C _]. exact C.
  Qed.
End ReachSound.

(* ------------------------------------- structured conversion keeps the keys *)

Lemma to_cfg_gen_obj_keys : forall st cs t o n kv c,
  to_cfg_gen st cs t o (VObj n kv) = Ok c -> exists kv', c = VDict kv' /\ map fst kv' = map fst kv.
Proof.
  intros st cs t o n kv c H. simpl in H.
  destruct (negb _); [discriminate|].
  destruct (find_class cs n) as [cd|]; [|discriminate].
  apply bind_ok in H. destruct H as [kv' [G E]]. inversion E; subst. exists kv'. split; [reflexivity|].
  clear E. revert kv' G. induction kv as [|[k x] r IH]; intros kv' G.
  - inversion G; subst. reflexivity.
  - destruct (find_field cd k) as [f|]; [|discriminate].
    apply bind_ok in G. destruct G as [x' [_ G]].
    apply bind_ok in G. destruct G as [r' [Gr G]]. inversion G; subst.
    simpl. f_equal. apply IH. exact Gr.
Qed.

Lemma to_cfg_obj_keys : forall cs t o n kv c,
  to_cfg cs t o (VObj n kv) = Ok c -> exists kv', c = VDict kv' /\ map fst kv' = map fst kv.
Proof. intros cs. exact (to_cfg_gen_obj_keys false cs). Qed.

Lemma complete_all_leaves : forall o d fs kv,
  map fst kv = map fst fs -> Forall (fun e => exists x, snd e = SLeaf x) fs ->
  complete (SNode o d fs) (VDict kv) = true.
Proof.
  intros o d fs kv K L. rewrite complete_node. revert kv K.
  induction fs as [|[k s] r IH]; intros [|[k' c] r'] K; simpl in K; try discriminate; [reflexivity|].
  inversion K; subst. inversion L as [|x l [y Hy] Lr]; subst. simpl in Hy. subst s.
  simpl. rewrite String.eqb_refl. simpl. apply IH; assumption.
Qed.

(* --------------------------------------------------------------- small specs *)

Lemma py_in_strs_spec : forall v l, py_in_strs v l = true <-> exists s, v = VStr s /\ In s l.
Proof.
  intros v l. destruct v; simpl; try (split; [discriminate | intros [s0 [E _]]; discriminate]).
  rewrite mem_str_In. split.
  - intro I. exists s. split; [reflexivity|exact I].
  - intros [s0 [E I]]. inversion E; subst. exact I.
Qed.

Lemma all_res_true : forall f l, all_res f l = Ok true <-> Forall (fun x => f x = Ok true) l.
Proof.
  induction l as [|x r IH]; simpl.
  - split; [constructor | reflexivity].
  - split.
    + intro H. apply bind_ok in H. destruct H as [b [Fx H]]. destruct b; [|discriminate].
      constructor; [exact Fx | apply IH; exact H].
    + intro H. inversion H; subst. rewrite H2. simpl. apply IH. exact H3.
Qed.

(* a successfully constructed instance passed the validator of every field, on
   the value the field holds *)
Lemma run_validators_all : forall fs obj kv, run_validators fs obj kv = Ok tt ->
  forall f, In f fs ->
    f_validator f obj (match lookup (f_name f) kv with Some v => v | None => VNone end) = Ok tt.
Proof.
  induction fs as [|g r IH]; intros obj kv H f I; [contradiction|].
  simpl in H. apply bind_ok in H. destruct H as [[] [Hg Hr]].
  destruct I as [I|I]; [subst; exact Hg | apply IH; assumption].
Qed.

Theorem mk_validates : forall c kw r k f v,
  mk c kw = Ok r -> find_field c k = Some f -> lookup k kw = Some v -> f_validator f r v = Ok tt.
Proof.
  intros c kw r k f v M F L. apply mk_ok_shape in M. destruct M as [R [_ [_ [V _]]]]. subst r.
  destruct (find_field_name c k f F) as [N I]. pose proof (run_validators_all _ _ _ V f I) as H.
  rewrite N, lookup_fill, F, L in H. exact H.
Qed.

(* ----------------------------------- structured conversion changes no value *)

Lemma q_eqb_refl : forall q, q_eqb q q = true.
Proof. intros [n d]. unfold q_eqb. simpl. rewrite Z.eqb_refl, Pos.eqb_refl. reflexivity. Qed.

Lemma cfg_eqb_scalar_refl : forall v,
  match v with VList _ | VTup _ | VDict _ | VObj _ _ => True | _ => cfg_eqb v v = true end.
Proof.
  destruct v; simpl; try exact I; try reflexivity.
  - apply Bool.eqb_reflx.
  - apply Z.eqb_refl.
  - apply q_eqb_refl.
  - destruct k; reflexivity.
  - apply String.eqb_refl.
Qed.

Definition veq_list :=
  fix go (x y : list cfg) {struct x} : bool :=
    match x, y with
    | [], [] => true
    | a' :: x', b' :: y' => veq a' b' &&& go x' y'
    | _, _ => false
    end.
Definition veq_kv :=
  fix go (x y : list (string * cfg)) {struct x} : bool :=
    match x, y with
    | [], [] => true
    | (k, a') :: x', (k', b') :: y' => String.eqb k k' &&& veq a' b' &&& go x' y'
    | _, _ => false
    end.

Lemma veq_list_plain : forall l, Forall (fun v => veq v (plain v) = true) l -> veq_list l (map plain l) = true.
Proof. induction 1 as [|v l Hv _ IH]; simpl; [reflexivity|]. rewrite Hv. exact IH. Qed.

Lemma veq_kv_plain : forall kv, Forall (fun e => veq (snd e) (plain (snd e)) = true) kv ->
  veq_kv kv (map (fun e => (fst e, plain (snd e))) kv) = true.
Proof.
  induction 1 as [|[k v] l Hv _ IH]; simpl; [reflexivity|]. simpl in Hv. rewrite String.eqb_refl, Hv. exact IH.
Qed.

(* the plain container of a value holds the same value *)
Lemma veq_plain : forall v, veq v (plain v) = true.
Proof.
  induction v using cfg_ind'; simpl; try reflexivity.
  - apply Bool.eqb_reflx.
  - apply Z.eqb_refl.
  - apply q_eqb_refl.
  - destruct k; reflexivity.
  - apply String.eqb_refl.
  - apply (veq_list_plain l H).
  - apply (veq_list_plain l H).
  - apply (veq_kv_plain kv H).
  - apply (veq_kv_plain kv H).
Qed.

(* OmegaConf.structured + to_container changes no value of a COERCION-FREE tree (every scalar at a
   field of its own type; `coercion_free` = the strict conversion succeeds): the container holds,
   key by key and element by element, the value the attrs tree held (ints on float fields become
   the float of the same value, tuples become lists, objects become dicts).  Without the
   hypothesis the statement is false for the code: a typed OmegaConf node converts a scalar of
   another type (123 at a str field is stored as "123") — see ex_coercion_changes_value. *)
Definition to_cfg_list_go (st : bool) (cs : list class_def) (e : ty) :=
  fix go (l : list cfg) : res (list cfg) :=
    match l with
    | [] => Ok []
    | x :: r => bind (to_cfg_gen st cs e false x) (fun x' => bind (go r) (fun r' => Ok (x' :: r')))
    end.


Lemma to_cfg_strict_list : forall cs e l l',
  Forall (fun v => forall t o c, to_cfg_gen true cs t o v = Ok c -> veq v c = true) l ->
  to_cfg_list_go true cs e l = Ok l' -> veq_list l l' = true.
Proof.
  intros cs e. induction l as [|x r IH]; intros l' F G.
  - inversion G; subst. reflexivity.
  - simpl in G. apply bind_ok in G. destruct G as [x' [Gx G]].
    apply bind_ok in G. destruct G as [r' [Gr G]]. inversion G; subst.
    inversion F as [|y l0 Hx Hr]; subst. simpl. rewrite (Hx _ _ _ Gx). apply IH; assumption.
Qed.

Lemma to_cfg_strict_preserves : forall cs v t o c, to_cfg_gen true cs t o v = Ok c -> veq v c = true.
Proof.
  intros cs. induction v using cfg_ind'; intros t o c0 T.
  - simpl in T. destruct (o || ty_any t); inversion T; reflexivity.
  - simpl in T. inversion T; reflexivity.
  - destruct t; simpl in T; try discriminate T; inversion T; simpl; apply Bool.eqb_reflx.
  - destruct t; simpl in T; try discriminate T; inversion T; simpl;
      [apply Z.eqb_refl | apply Z.eqb_refl | apply q_eqb_refl].
  - destruct t; simpl in T; try discriminate T; inversion T; simpl; apply q_eqb_refl.
  - destruct t; simpl in T; try discriminate T; inversion T; destruct k; reflexivity.
  - destruct t; simpl in T; try discriminate T; inversion T; simpl; apply String.eqb_refl.
  - destruct t; simpl in T; try discriminate T;
      try (assert (c0 = plain (VList l)) as -> by (inversion T; reflexivity); apply veq_plain).
    change (bind (to_cfg_list_go true cs t l) (fun l' => Ok (VList l')) = Ok c0) in T.
    apply bind_ok in T. destruct T as [l' [G E]]. inversion E; subst.
    change (veq_list l l' = true). eapply to_cfg_strict_list; eassumption.
  - destruct t; simpl in T; try discriminate T;
      try (assert (c0 = plain (VList l)) as -> by (inversion T; reflexivity); exact (veq_plain (VList l))).
    change (bind (to_cfg_list_go true cs t l) (fun l' => Ok (VList l')) = Ok c0) in T.
    apply bind_ok in T. destruct T as [l' [G E]]. inversion E; subst.
    change (veq_list l l' = true). eapply to_cfg_strict_list; eassumption.
  - simpl in T. assert (c0 = plain (VDict kv)) as -> by (destruct t; inversion T; reflexivity). apply veq_plain.
  - simpl in T. destruct (negb _); [discriminate|]. destruct (find_class cs c) as [cd|]; [|discriminate].
    apply bind_ok in T. destruct T as [kv' [G E]]. inversion E; subst. clear E.
    change (veq_kv kv kv' = true). revert kv' G.
    induction kv as [|[k x] r IH]; intros kv' G.
    + inversion G; subst. reflexivity.
    + destruct (find_field cd k) as [f|]; [|discriminate].
      apply bind_ok in G. destruct G as [x' [Gx G]].
      apply bind_ok in G. destruct G as [r' [Gr G]]. inversion G; subst.
      inversion H as [|e l Hx Hr]; subst. simpl in Hx.
      simpl. rewrite String.eqb_refl, (Hx _ _ _ Gx). apply IH; assumption.
Qed.

(* where the strict conversion succeeds the code's conversion returns the same container *)
Lemma to_cfg_strict_agrees : forall cs v t o c, to_cfg_gen true cs t o v = Ok c -> to_cfg_gen false cs t o v = Ok c.
Proof.
  intros cs. induction v using cfg_ind'; intros t o c0 T;
    try (destruct t; simpl in T |- *; try discriminate T; exact T).
  - destruct t; simpl in T |- *; try discriminate T; try exact T.
    change (bind (to_cfg_list_go true cs t l) (fun l' => Ok (VList l')) = Ok c0) in T.
    change (bind (to_cfg_list_go false cs t l) (fun l' => Ok (VList l')) = Ok c0).
    apply bind_ok in T. destruct T as [l' [G E]].
    assert (to_cfg_list_go false cs t l = Ok l') as ->; [|exact E]. clear E. revert l' G.
    induction l as [|x r IH]; intros l' G; [exact G|].
    simpl in G |- *. apply bind_ok in G. destruct G as [x' [Gx G]].
    apply bind_ok in G. destruct G as [r' [Gr G]]. inversion H as [|y l0 Hx Hr]; subst.
    rewrite (Hx _ _ _ Gx). simpl. rewrite (IH Hr _ Gr). exact G.
  - destruct t; simpl in T |- *; try discriminate T; try exact T.
    change (bind (to_cfg_list_go true cs t l) (fun l' => Ok (VList l')) = Ok c0) in T.
    change (bind (to_cfg_list_go false cs t l) (fun l' => Ok (VList l')) = Ok c0).
    apply bind_ok in T. destruct T as [l' [G E]].
    assert (to_cfg_list_go false cs t l = Ok l') as ->; [|exact E]. clear E. revert l' G.
    induction l as [|x r IH]; intros l' G; [exact G|].
    simpl in G |- *. apply bind_ok in G. destruct G as [x' [Gx G]].
    apply bind_ok in G. destruct G as [r' [Gr G]]. inversion H as [|y l0 Hx Hr]; subst.
    rewrite (Hx _ _ _ Gx). simpl. rewrite (IH Hr _ Gr). exact G.
  - simpl in T |- *. destruct (negb _); [discriminate|]. destruct (find_class cs c) as [cd|]; [|discriminate].
    apply bind_ok in T. destruct T as [kv' [G E]].
    match goal with |- bind ?m _ = _ => assert (m = Ok kv') as ->; [|exact E] end. clear E. revert kv' G.
    induction kv as [|[k x] r IH]; intros kv' G; [exact G|].
    destruct (find_field cd k) as [f|]; [|discriminate].
    apply bind_ok in G. destruct G as [x' [Gx G]].
    apply bind_ok in G. destruct G as [r' [Gr G]]. inversion H as [|e l Hx Hr]; subst. simpl in Hx.
    rewrite (Hx _ _ _ Gx). simpl. rewrite (IH Hr _ Gr). exact G.
Qed.

Theorem to_cfg_preserves_values : forall cs v t o c,
  coercion_free cs t o v = true -> to_cfg cs t o v = Ok c -> veq v c = true.
Proof.
  intros cs v t o c F T. unfold coercion_free in F.
  destruct (to_cfg_gen true cs t o v) as [c0|] eqn:S; [|discriminate F].
  pose proof (to_cfg_strict_agrees _ _ _ _ _ S) as A. unfold to_cfg in T. rewrite A in T. inversion T; subst.
  exact (to_cfg_strict_preserves _ _ _ _ _ S).
Qed.

Lemma veq_kv_lookup : forall x y k a, veq_kv x y = true -> lookup k x = Some a ->
  exists b, lookup k y = Some b /\ veq a b = true.
Proof.
  induction x as [|[k0 a0] x IH]; intros [|[k1 b0] y] k a V L; simpl in V, L; try discriminate.
  apply andl_true in V. destruct V as [V V2]. apply andl_true in V. destruct V as [V0 V1].
  apply String.eqb_eq in V0. subst k1. simpl. destruct (String.eqb k k0).
  - inversion L; subst. exists b0. split; [reflexivity | exact V1].
  - apply (IH y k a V2 L).
Qed.

(* ... so the value at every path of the attrs tree is found at the same path of the container *)
Theorem veq_get : forall p a b x, veq a b = true -> get p a = Some x ->
  exists y, get p b = Some y /\ veq x y = true.
Proof.
  induction p as [|k r IH]; intros a b x V G.
  - simpl in G. inversion G; subst. exists b. split; [reflexivity | exact V].
  - simpl in G. destruct a; simpl in G; try discriminate.
    + destruct b; simpl in V; try discriminate. destruct (lookup k kv) as [a1|] eqn:L; [|discriminate].
      destruct (veq_kv_lookup kv kv0 k a1 V L) as [b1 [Lb Vb]]. simpl. rewrite Lb. apply (IH a1 b1 x Vb G).
    + destruct b; simpl in V; try discriminate. destruct (lookup k kv) as [a1|] eqn:L; [|discriminate].
      destruct (veq_kv_lookup kv kv0 k a1 V L) as [b1 [Lb Vb]]. simpl. rewrite Lb. apply (IH a1 b1 x Vb G).
Qed.

Theorem to_cfg_value_at : forall cs v t o c p x,
  coercion_free cs t o v = true -> to_cfg cs t o v = Ok c -> get p v = Some x ->
  exists y, get p c = Some y /\ veq x y = true.
Proof. intros. eapply veq_get; [eapply to_cfg_preserves_values; eassumption | assumption]. Qed.

(* ------------------------------------------------ top-level values of verify_training_cfg *)

Lemma py_bool_of_str_shape : forall s c, py_bool_of_str s = Ok c -> exists b, c = VBool b.
Proof.
  intros s c H. unfold py_bool_of_str in H. destruct (py_int_of_str s).
  - inversion H. eexists; reflexivity.
  - destruct (negb (all_ascii s)); [discriminate|].
    destruct (mem_str _ _); [inversion H; eexists; reflexivity|].
    destruct (mem_str _ _); [inversion H; eexists; reflexivity|discriminate].
  - discriminate.
Qed.

(* what the structured conversion returns is a fixed point of the top-level conversion: the
   container to_sleap_nn_cfg produces is accepted verbatim by verify_training_cfg's first step *)
Lemma to_cfg_top_fixed : forall st cs t o v c, to_cfg_gen st cs t o v = Ok c -> top_value cs t o c = Ok c.
Proof.
  intros st cs t o v c T. destruct v.
  - destruct o, t; simpl in T; try discriminate T; inversion T; subst; reflexivity.
  - simpl in T. inversion T. reflexivity.
  - destruct st, t; simpl in T; try discriminate T; inversion T; subst; reflexivity.
  - destruct st, t; simpl in T; try discriminate T; inversion T; subst; reflexivity.
  - destruct st, t; simpl in T; try discriminate T; inversion T; subst; reflexivity.
  - destruct st, t; simpl in T; try discriminate T; try (inversion T; subst; reflexivity);
      destruct k; simpl in T; inversion T; subst; reflexivity.
  - destruct st, t; simpl in T; try discriminate T; try (inversion T; subst; reflexivity).
    + apply py_bool_of_str_shape in T. destruct T as [b ->]. reflexivity.
    + destruct (py_int_of_str s); try discriminate T. inversion T. reflexivity.
    + destruct (py_int_of_str s); try discriminate T. destruct (Z.leb _ _); [|discriminate T]. inversion T. reflexivity.
  - destruct t; simpl in T; try discriminate T; try (inversion T; reflexivity).
    apply bind_ok in T. destruct T as [l' [_ E]]. inversion E. reflexivity.
  - destruct t; simpl in T; try discriminate T; try (inversion T; reflexivity).
    apply bind_ok in T. destruct T as [l' [_ E]]. inversion E. reflexivity.
  - destruct t; simpl in T; try discriminate T; inversion T; reflexivity.
  - apply to_cfg_gen_obj_keys in T. destruct T as [kv' [-> _]]. reflexivity.
Qed.

Lemma top_value_idem : forall cs t o v c, top_value cs t o v = Ok c -> top_value cs t o c = Ok c.
Proof.
  intros cs t o v c T.
  assert (forall w, (match t with
                     | TCls _ => if o && is_none w then Ok VNone else Err ValidationError
                     | _ => to_cfg cs t o w end) = Ok c -> top_value cs t o c = Ok c) as G.
  { intros w H. destruct t; try (exact (to_cfg_top_fixed false cs _ o w c H)).
    destruct (o && is_none w) eqn:E; [|discriminate H]. inversion H; subst.
    apply andb_true_iff in E. destruct E as [-> _]. reflexivity. }
  destruct v; simpl in T; try (inversion T; subst; reflexivity); try discriminate T; apply (G _ T).
Qed.

Lemma top_values_keys : forall cs c kv kv', top_values cs c kv = Ok kv' -> map fst kv' = map fst kv.
Proof.
  intros cs c. induction kv as [|[k v] r IH]; intros kv' H; simpl in H.
  - inversion H. reflexivity.
  - destruct (find_field c k); [|discriminate]. apply bind_ok in H. destruct H as [v' [_ H]].
    apply bind_ok in H. destruct H as [r' [Hr H]]. inversion H; subst. simpl. f_equal. apply IH. exact Hr.
Qed.

Lemma top_values_lookup : forall cs c kv kv' k v', top_values cs c kv = Ok kv' -> lookup k kv' = Some v' ->
  exists f v, find_field c k = Some f /\ top_value cs (f_ty f) (f_opt f) v = Ok v'.
Proof.
  intros cs c. induction kv as [|[k0 v0] r IH]; intros kv' k v' H L; simpl in H.
  - inversion H; subst. discriminate L.
  - destruct (find_field c k0) as [f|] eqn:F; [|discriminate]. apply bind_ok in H. destruct H as [v1 [Hv H]].
    apply bind_ok in H. destruct H as [r' [Hr H]]. inversion H; subst. simpl in L.
    destruct (String.eqb k k0) eqn:E.
    + apply String.eqb_eq in E. subst k0. inversion L; subst. exists f, v0. split; assumption.
    + exact (IH _ _ _ Hr L).
Qed.

Lemma top_values_fixed : forall cs c kv,
  Forall (fun e => exists f, find_field c (fst e) = Some f /\ top_value cs (f_ty f) (f_opt f) (snd e) = Ok (snd e)) kv ->
  top_values cs c kv = Ok kv.
Proof.
  intros cs c. induction kv as [|[k v] r IH]; intro F; [reflexivity|].
  inversion F as [|e l [f [Hf Hv]] Hr]; subst. simpl in Hf, Hv |- *. rewrite Hf, Hv. simpl. rewrite (IH Hr). reflexivity.
Qed.

(* the merge into a schema whose fields are all leaves: the supplied value, else the default *)
Lemma merge_fields_flat : forall {A} (name : A -> string) (dflt : A -> cfg) kv (l : list A),
  merge_fields kv (map (fun f => (name f, SLeaf (dflt f))) l) =
  Ok (map (fun f => (name f, match lookup (name f) kv with Some v => v | None => dflt f end)) l).
Proof.
  intros A name dflt kv. induction l as [|f r IH]; [reflexivity|].
  simpl. destruct (lookup (name f) kv); simpl; change (merge_fields kv) with (merge_fields kv) in IH;
    unfold merge_fields in IH |- *; rewrite IH; reflexivity.
Qed.

Lemma top_values_lookup_fwd : forall cs c kv kv' k v, top_values cs c kv = Ok kv' -> lookup k kv = Some v ->
  exists f v', find_field c k = Some f /\ top_value cs (f_ty f) (f_opt f) v = Ok v' /\ lookup k kv' = Some v'.
Proof.
  intros cs c. induction kv as [|[k0 v0] r IH]; intros kv' k v H L; simpl in H; [discriminate L|].
  destruct (find_field c k0) as [f|] eqn:F; [|discriminate]. apply bind_ok in H. destruct H as [v1 [Hv H]].
  apply bind_ok in H. destruct H as [r' [Hr H]]. inversion H; subst. simpl in L |- *.
  destruct (String.eqb k k0) eqn:E.
  - apply String.eqb_eq in E. subst k0. inversion L; subst. exists f, v1. repeat split; assumption.
  - exact (IH _ _ _ Hr L).
Qed.

(* the fields of a converted object are the conversions of its fields at their declared types *)
Lemma to_cfg_gen_obj_entries : forall st cs t o n kv kv' c,
  to_cfg_gen st cs t o (VObj n kv) = Ok (VDict kv') -> find_class cs n = Some c ->
  Forall (fun e => exists f x, find_field c (fst e) = Some f /\ to_cfg_gen st cs (f_ty f) (f_opt f) x = Ok (snd e)) kv'.
Proof.
  intros st cs t o n kv kv' c H C. simpl in H. destruct (negb _); [discriminate|]. rewrite C in H.
  apply bind_ok in H. destruct H as [kv0 [G E]]. inversion E; subst. clear E. revert kv' G.
  induction kv as [|[k x] r IH]; intros kv' G.
  - inversion G. constructor.
  - destruct (find_field c k) as [f|] eqn:F; [|discriminate].
    apply bind_ok in G. destruct G as [x' [Gx G]].
    apply bind_ok in G. destruct G as [r' [Gr G]]. inversion G; subst.
    constructor; [exists f, x; split; assumption | apply IH; exact Gr].
Qed.
