(* PerRunInterp.v (C20) — per-run obligations about the interpreted builder parameters (option names,
   dicts, flags).  See PerRunAug.v for the conventions. *)
From Coq Require Import List String Ascii ZArith QArith Bool Arith Lia Lqa.
From SV Require Import C20.CfgTree C20.Lemmas Gen.C20_Schema Gen.C20_Builders C20.Eval.
From SV Require Import C20.PerRunBase.
Import ListNotations.
Close Scope Q_scope.
Open Scope string_scope.

(* =================================================== interpreted parameters *)
(* backbone_config, head_configs, lr_scheduler: option names and dicts *)
(* of the members, exactly m is set, and it holds `want` *)
Definition only_member (members : list string) (m : string) (want r : cfg) : bool :=
  forallb (fun f => match get [f] r with
                    | Some v => if f =? m then cfg_eqb v want else is_none v
                    | None => false
                    end) members.

Definition preset_ok (e : string * (string * string)) : bool :=
  match get_backbone_config (bb_arg (VStr (fst e))), find_class classes (snd (snd e)) with
  | Ok r, Some c => only_member FAMILIES (fst (snd e)) (default_obj c) r
  | _, _ => false
  end.
Definition head_ok (e : string * string) : bool :=
  match get_head_configs (head_arg (VStr (fst e))), find_class classes (snd e) with
  | Ok r, Some c => only_member (map fst HEADS) (fst e) (default_obj c) r
  | _, _ => false
  end.
Definition sched_ok (e : string * string) : bool :=
  match get_trainer_config (trainer_arg (VStr (fst e))), find_class classes (snd e) with
  | Ok r, Some c => match get ["lr_scheduler"] r with
                    | Some l => only_member (map fst SCHEDULERS) (fst e) (default_obj c) l
                    | None => false
                    end
  | _, _ => false
  end.

(* every documented option name selects its member, holding exactly the schema
   defaults of the documented class, and nothing else.  Finite domains: the 12
   backbone presets, the 4 head types, the 2 schedulers. *)
Theorem option_names_select_documented_defaults :
  forallb preset_ok PRESETS &&& forallb head_ok HEADS &&& forallb sched_ok SCHEDULERS = true.
Proof. vm_compute. reflexivity. Qed.
Print Assumptions option_names_select_documented_defaults.

(* a dict {member: kwargs} is the member's constructor applied to the caller's
   kwargs, for ALL kwargs; by mk_reflects_kwargs / mk_defaults_elsewhere every
   supplied option lands unmodified, every other one holds the schema default *)
Theorem backbone_dict : forall kw r,
  (get_backbone_config (bb_arg (VDict [("unet", VDict kw)])) = Ok r ->
   exists u, mk cls_UNetConfig kw = Ok u /\
             r = VObj "BackboneConfig" [("unet", u); ("convnext", VNone); ("swint", VNone)]) /\
  (get_backbone_config (bb_arg (VDict [("convnext", VDict kw)])) = Ok r ->
   exists u, mk cls_ConvNextConfig kw = Ok u /\
             r = VObj "BackboneConfig" [("unet", VNone); ("convnext", u); ("swint", VNone)]) /\
  (get_backbone_config (bb_arg (VDict [("swint", VDict kw)])) = Ok r ->
   exists u, mk cls_SwinTConfig kw = Ok u /\
             r = VObj "BackboneConfig" [("unet", VNone); ("convnext", VNone); ("swint", u)]).
Proof.
  intros kw r. split; [|split]; intro H; unfold get_backbone_config in H; cbv zeta in H;
    repeat xstep H; eexists; split; try eassumption; reflexivity.
Qed.
Print Assumptions backbone_dict.

Theorem head_dict : forall kw kw2 r,
  (get_head_configs (head_arg (VDict [("single_instance", VDict [("confmaps", VDict kw)])])) = Ok r ->
   exists cm, mk cls_SingleInstanceConfMapsConfig kw = Ok cm /\
     r = VObj "HeadConfig" [("single_instance", VObj "SingleInstanceConfig" [("confmaps", cm)]);
                            ("centroid", VNone); ("centered_instance", VNone); ("bottomup", VNone)]) /\
  (get_head_configs (head_arg (VDict [("centroid", VDict [("confmaps", VDict kw)])])) = Ok r ->
   exists cm, mk cls_CentroidConfMapsConfig kw = Ok cm /\
     r = VObj "HeadConfig" [("single_instance", VNone); ("centroid", VObj "CentroidConfig" [("confmaps", cm)]);
                            ("centered_instance", VNone); ("bottomup", VNone)]) /\
  (get_head_configs (head_arg (VDict [("centered_instance", VDict [("confmaps", VDict kw)])])) = Ok r ->
   exists cm, mk cls_CenteredInstanceConfMapsConfig kw = Ok cm /\
     r = VObj "HeadConfig" [("single_instance", VNone); ("centroid", VNone);
                            ("centered_instance", VObj "CenteredInstanceConfig" [("confmaps", cm)]);
                            ("bottomup", VNone)]) /\
  (get_head_configs (head_arg (VDict [("bottomup", VDict [("confmaps", VDict kw); ("pafs", VDict kw2)])])) = Ok r ->
   exists cm pf, mk cls_BottomUpConfMapsConfig kw = Ok cm /\ mk cls_PAFConfig kw2 = Ok pf /\
     r = VObj "HeadConfig" [("single_instance", VNone); ("centroid", VNone); ("centered_instance", VNone);
                            ("bottomup", VObj "BottomUpConfig" [("confmaps", cm); ("pafs", pf)])]).
Proof.
  intros kw kw2 r. split; [|split; [|split]]; intro H; unfold get_head_configs in H; cbv zeta in H;
    repeat xstep H; repeat eexists; try eassumption.
Qed.
Print Assumptions head_dict.



(* ------------------------- get_model_config interprets through the two sub-builders *)

(* for ALL argument values: the model builder's backbone_config / head_configs are exactly
   what get_backbone_config / get_head_configs return on the caller's argument (so the
   theorems above and below about the sub-builders are statements about get_model_config,
   and get_model_config raises whenever a sub-builder does) *)
Theorem model_config_composes : forall a r, get_model_config a = Ok r ->
  exists bb hd, get_backbone_config (bb_arg (a "backbone_config")) = Ok bb /\
                get_head_configs (head_arg (a "head_configs")) = Ok hd /\
                get ["backbone_config"] r = Some bb /\ get ["head_configs"] r = Some hd.
Proof.
  intros a r H. unfold get_model_config in H. cbv zeta in H.
  fold (bb_arg (a "backbone_config")) in H. fold (head_arg (a "head_configs")) in H.
  destruct (get_backbone_config (bb_arg (a "backbone_config"))) as [bb|]; [|discriminate H]. cbn [bind] in H.
  destruct (get_head_configs (head_arg (a "head_configs"))) as [hd|]; [|discriminate H]. cbn [bind] in H.
  step H. exists bb, hd. repeat split; reflexivity.
Qed.
Print Assumptions model_config_composes.

(* ---------------------------------------------- unknown option names must raise *)

Theorem unknown_head_name_raises : forall s, ~ In s (map fst HEADS) ->
  is_ok (get_head_configs (head_arg (VStr s))) = false.
Proof.
  intros s H. apply not_in_all_neqb in H. simpl in H. destruct H as [E1 [E2 [E3 [E4 _]]]].
  unfold get_head_configs. cbv zeta. change (head_arg (VStr s) "head_cfg") with (VStr s).
  eval_head_mk. cbn [py_is_str py_eq_str]. rewrite E1, E2, E3, E4. reflexivity.
Qed.
Print Assumptions unknown_head_name_raises.

Theorem unknown_backbone_name_raises : forall s, ~ In s (map fst PRESETS) ->
  is_ok (get_backbone_config (bb_arg (VStr s))) = false.
Proof.
  intros s H. apply not_in_all_neqb in H. simpl in H.
  destruct H as [E1 [E2 [E3 [E4 [E5 [E6 [E7 [E8 [E9 [E10 [E11 [E12 _]]]]]]]]]]]].
  unfold get_backbone_config. cbv zeta. change (bb_arg (VStr s) "backbone_cfg") with (VStr s).
  eval_head_mk.
  repeat (rewrite bind_assoc; eval_head_mk).
  cbn [py_is_str py_startswith bind].
  destruct (String.prefix "unet" s); cbn [bind py_subscript lookup];
    [rewrite ?E1, ?E2, ?E3, ?E4, ?E5, ?E6, ?E7, ?E8, ?E9, ?E10, ?E11, ?E12; reflexivity|].
  destruct (String.prefix "convnext" s); cbn [bind py_subscript lookup];
    [rewrite ?E1, ?E2, ?E3, ?E4, ?E5, ?E6, ?E7, ?E8, ?E9, ?E10, ?E11, ?E12; reflexivity|].
  destruct (String.prefix "swint" s); cbn [bind py_subscript lookup];
    [rewrite ?E1, ?E2, ?E3, ?E4, ?E5, ?E6, ?E7, ?E8, ?E9, ?E10, ?E11, ?E12; reflexivity|].
  reflexivity.
Qed.
Print Assumptions unknown_backbone_name_raises.

(* ... also through get_model_config, whatever the other arguments are *)
Theorem model_config_unknown_names_raise : forall a s,
  (a "backbone_config" = VStr s /\ ~ In s (map fst PRESETS)) \/
  (a "head_configs" = VStr s /\ ~ In s (map fst HEADS)) ->
  is_ok (get_model_config a) = false.
Proof.
  intros a s H. destruct (get_model_config a) as [r|] eqn:G; [|reflexivity]. exfalso.
  destruct (model_config_composes a r G) as [bb [hd [B [Hd _]]]].
  destruct H as [[E N]|[E N]]; rewrite E in *.
  - pose proof (unknown_backbone_name_raises s N) as U. rewrite B in U. discriminate U.
  - pose proof (unknown_head_name_raises s N) as U. rewrite Hd in U. discriminate U.
Qed.
Print Assumptions model_config_unknown_names_raise.


Example ex_unknown_names :
  is_ok (get_backbone_config (bb_arg (VStr "unet_foo"))) = false /\
  is_ok (get_backbone_config (bb_arg (VStr "swint_base"))) = true /\
  is_ok (get_head_configs (head_arg (VStr "centroid"))) = true.
Proof. vm_compute. repeat split. Qed.

(* ------------------------------------------- augmentation arguments as dicts / other types *)

(* augmentation arguments given as dicts: each is the constructor of its config class applied
   to the caller's kwargs, for ALL kwargs (so by mk_reflects_kwargs / mk_defaults_elsewhere /
   mk_validates every supplied option lands unmodified, every other one holds the schema
   default, and an out-of-range probability makes the builder raise) *)
Theorem aug_dict : forall ikw gkw r,
  get_aug_config (aug_args (VDict ikw) (VDict gkw)) = Ok r ->
  exists i g, mk cls_IntensityConfig ikw = Ok i /\ mk cls_GeometricConfig gkw = Ok g /\
              r = VObj "AugmentationConfig" [("intensity", i); ("geometric", g)].
Proof.
  intros ikw gkw r H. unfold get_aug_config in H. cbv zeta in H.
  change (aug_args (VDict ikw) (VDict gkw) "intensity_aug") with (VDict ikw) in H.
  change (aug_args (VDict ikw) (VDict gkw) "geometric_aug") with (VDict gkw) in H.
  cbn [py_is_str py_is_list py_is_dict orb] in H.
  change (mk_kw cls_IntensityConfig [] [VDict ikw]) with (mk cls_IntensityConfig ikw) in H.
  change (mk_kw cls_GeometricConfig [] [VDict gkw]) with (mk cls_GeometricConfig gkw) in H.
  destruct (mk cls_IntensityConfig ikw) as [i|] eqn:Ei; [|vm_compute in H; discriminate H].
  destruct (mk cls_GeometricConfig gkw) as [g|] eqn:Eg; [|vm_compute in H; discriminate H].
  vm_compute in H. injection H as <-. exists i, g. repeat split; reflexivity.
Qed.
Print Assumptions aug_dict.

(* an argument that is neither a string, a list nor a dict (None, a tuple, a number) is
   ignored: that half of the augmentation configuration holds the schema defaults *)
Theorem aug_other_types_ignored : forall iv gv r,
  py_is_str iv = false -> py_is_list iv = false -> py_is_dict iv = false ->
  py_is_str gv = false -> py_is_list gv = false -> py_is_dict gv = false ->
  get_aug_config (aug_args iv gv) = Ok r -> r = default_obj cls_AugmentationConfig.
Proof.
  intros iv gv r S1 L1 D1 S2 L2 D2 H. unfold get_aug_config in H. cbv zeta in H.
  change (aug_args iv gv "intensity_aug") with iv in H. change (aug_args iv gv "geometric_aug") with gv in H.
  rewrite S1, L1, D1, S2, L2, D2 in H. cbn [orb] in H.
  vm_compute in H. injection H as <-. vm_compute. reflexivity.
Qed.
Print Assumptions aug_other_types_ignored.
