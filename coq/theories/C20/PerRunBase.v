(* PerRunBase.v (C20) — definitions, small lemmas and the symbolic-execution tactics shared by the
   per-run files PerRunAug / PerRunPass / PerRunInterp / PerRunVal (compiled in parallel by the check). *)
From Coq Require Import List String Ascii ZArith QArith Bool Arith Lia Lqa.
From SV Require Import C20.CfgTree C20.Lemmas Gen.C20_Schema Gen.C20_Builders C20.Eval.
Import ListNotations.
Close Scope Q_scope.
Open Scope string_scope.

Lemma bind_assoc : forall {A B C} (m : res A) (g : A -> res B) (f : B -> res C),
  bind (bind m g) f = bind m (fun x => bind (g x) f).
Proof. intros A B C [a|e] g f; reflexivity. Qed.
Print Assumptions bind_assoc.

Lemma mk_kw_shape : forall c kw x, mk_kw c kw [] = Ok x -> x = VObj (c_name c) (fill c kw).
Proof. unfold mk_kw. simpl. intros c kw x H. apply mk_ok_shape in H. tauto. Qed.
Print Assumptions mk_kw_shape.

(* one step of symbolic execution of a generated builder under `H : body = Ok r`:
   constructor calls are replaced by the instance they return (mk_ok_shape: the
   declared fields, each holding the keyword argument or the declared default),
   anything else that may raise (sub-builders, interpreted arguments) by an
   unknown value *)
Ltac step H :=
  lazymatch type of H with
  | bind (bind _ _) _ = Ok _ => rewrite bind_assoc in H
  | bind (mk_kw ?c ?kw []) _ = Ok _ =>
      let x := fresh "o" in let E := fresh "E" in
      destruct (mk_kw c kw []) as [x|] eqn:E;
      [ apply mk_kw_shape in E; subst x; cbn [bind] in H | discriminate H ]
  | bind ?m _ = Ok _ =>
      let x := fresh "x" in
      destruct m as [x|];
      [ lazymatch type of x with
        | (_ * _)%type => destruct x
        | _ => idtac
        end; cbn [bind] in H
      | discriminate H ]
  | mk_kw ?c ?kw [] = Ok ?r => apply mk_kw_shape in H; subst r
  | Ok _ = Ok _ => inversion H; subst; clear H
  end.


(* symbolic execution of a generated builder with evaluation (vm_compute) of
   everything concrete; constructor calls on caller-supplied keyword dicts are
   kept as hypotheses `mk cls kw = Ok o` *)
Ltac eval_ok H m :=
  let v := eval vm_compute in m in
  lazymatch v with
  | Ok _ => replace m with v in H by (vm_compute; reflexivity)
  end.

Ltac xstep H :=
  lazymatch type of H with
  | bind (bind _ _) _ = Ok _ => rewrite bind_assoc in H
  | bind (mk_kw ?c ?kw [VDict ?d]) _ = Ok _ =>
      change (mk_kw c kw [VDict d]) with (mk c (kw ++ d)%list) in H; cbn [app] in H
  | bind (mk ?c ?kw) _ = Ok _ =>
      let x := fresh "o" in let E := fresh "E" in
      destruct (mk c kw) as [x|] eqn:E; [cbn [bind] in H | discriminate H]
  | bind (mk_kw ?c ?kw []) _ = Ok _ =>
      first [ eval_ok H (mk_kw c kw []); cbn [bind] in H
            | change (mk_kw c kw []) with (mk c kw) in H ]
  | bind (if ?c then ?A else ?B) _ = Ok _ =>
      (* the condition is decided by vm_compute, and the proof term records a VM cast
         (so Qed re-checks it with the VM, not with the lazy machine) *)
      let cv := eval vm_compute in c in
      let E := fresh "E" in
      assert (E : c = cv) by (vm_compute; reflexivity); rewrite E in H; clear E; cbv iota in H
  | (if ?c then ?A else ?B) = Ok _ =>
      let cv := eval vm_compute in c in
      let E := fresh "E" in
      assert (E : c = cv) by (vm_compute; reflexivity); rewrite E in H; clear E; cbv iota in H
  | bind (py_for_items (VDict _) _ _) _ = Ok _ => cbn [py_for_items fold_break] in H
  | bind ?m _ = Ok _ => eval_ok H m; cbn [bind] in H
  | Ok _ = Ok _ => inversion H; subst; clear H
  | ?m = Ok _ => eval_ok H m
  end.


Definition FAMILIES := ["unet"; "convnext"; "swint"].
Definition PRESETS : list (string * (string * string)) :=
  [("unet", ("unet", "UNetConfig")); ("unet_medium_rf", ("unet", "UNetMediumRFConfig"));
   ("unet_large_rf", ("unet", "UNetLargeRFConfig"));
   ("convnext", ("convnext", "ConvNextConfig")); ("convnext_tiny", ("convnext", "ConvNextConfig"));
   ("convnext_small", ("convnext", "ConvNextSmallConfig")); ("convnext_base", ("convnext", "ConvNextBaseConfig"));
   ("convnext_large", ("convnext", "ConvNextLargeConfig"));
   ("swint", ("swint", "SwinTConfig")); ("swint_tiny", ("swint", "SwinTConfig"));
   ("swint_small", ("swint", "SwinTSmallConfig")); ("swint_base", ("swint", "SwinTBaseConfig"))].
Definition HEADS : list (string * string) :=
  [("single_instance", "SingleInstanceConfig"); ("centroid", "CentroidConfig");
   ("centered_instance", "CenteredInstanceConfig"); ("bottomup", "BottomUpConfig")].
Definition SCHEDULERS : list (string * string) :=
  [("step_lr", "StepLRConfig"); ("reduce_lr_on_plateau", "ReduceLROnPlateauConfig")].

Definition aug_args (ia ga : cfg) : string -> cfg :=
  env_of [("intensity_aug", ia); ("geometric_aug", ga)] get_aug_config_defaults.
Definition names_arg (l : list string) : cfg := VList (map VStr l).

(* an element on which the loop body raises, whatever the state, makes the loop raise *)
Lemma fold_res_raises : forall {S A} (f : S -> A -> res S) x l s,
  (forall st, is_ok (f st x) = false) -> In x l -> is_ok (fold_res f l s) = false.
Proof.
  intros S A f x. induction l as [|y r IH]; intros s F I; [contradiction|].
  simpl. destruct I as [->|I].
  - specialize (F s). destruct (f s x); [discriminate F | reflexivity].
  - destruct (f s y); simpl; [apply IH; assumption | reflexivity].
Qed.
Print Assumptions fold_res_raises.

(* s is none of the listed names: every `s == "name"` test is false *)
Fixpoint all_neqb (s : string) (names : list string) : Prop :=
  match names with
  | [] => True
  | n :: r => String.eqb s n = false /\ all_neqb s r
  end.
Lemma not_in_all_neqb : forall s names, ~ In s names -> all_neqb s names.
Proof.
  intros s names. induction names as [|n r IH]; intro H; simpl; [exact I|]. split.
  - apply String.eqb_neq. intro E. apply H. left. symmetry. exact E.
  - apply IH. intro I. apply H. right. exact I.
Qed.
Print Assumptions not_in_all_neqb.

(* evaluates the closed constructor call at the head of the goal `is_ok (bind (mk_kw ..) _) = false` *)
Ltac eval_head_mk :=
  lazymatch goal with
  | |- is_ok (bind (mk_kw ?c ?kw []) _) = false =>
      let v := eval vm_compute in (mk_kw c kw []) in
      lazymatch v with
      | Ok _ => replace (mk_kw c kw []) with v by (vm_compute; reflexivity); cbn [bind]
      end
  end.

Definition bb_arg (v : cfg) : string -> cfg := env_of [("backbone_cfg", v)] get_backbone_config_defaults.
Definition head_arg (v : cfg) : string -> cfg := env_of [("head_cfg", v)] get_head_configs_defaults.
Definition trainer_arg (v : cfg) : string -> cfg := env_of [("lr_scheduler", v)] get_trainer_config_defaults.

