(* CfgTree.v (C20) — the hand-written, generic part of the configuration model.
   Definitions only (executable); all proofs are in C20/Lemmas.v.

   * `cfg`: a configuration / Python value as a finite tree of scalars.  attrs
     objects keep their class name (`VObj`), plain dicts are `VDict`, tuples and
     lists are kept apart (`isinstance(x, list)` is false for a tuple) and are
     identified only by the conversion to an OmegaConf container (`to_cfg`).
     Floats are exact decimal rationals compared structurally (the translator
     and the harness both emit reduced fractions); NaN and +-infinity are
     `VNonFin` (numeric comparisons follow IEEE: anything against NaN is False).
   * `res`: a result or the *kind* of exception raised.
   * the attrs layer: `class_def` (fields, declared type, default, validator,
     `oneof` flag, bases), `mk` (= calling the attrs-generated `__init__` with
     keyword arguments: unknown keyword -> TypeError, defaults filled in,
     validators run in field order on the complete instance, then the `oneof`
     wrapper of sleap_nn/config/utils.py), `setattr` (attrs `define` validates on
     assignment, with the *old* instance), `getattr`.
   * the small Python fragment the builders use (`py_*`).
   * the OmegaConf layer: `to_cfg` (= `OmegaConf.structured(obj)` followed by
     `to_container(throw_on_missing=True)`: class of a nested object must be the
     declared class or a subclass, int -> float on float fields, tuples become
     lists, `???` raises; a scalar of ANOTHER type than the declared scalar type
     is CONVERTED by the typed node or rejected — `coerce_scalar`; the elements of
     List[T] / Tuple[T, T] are typed — `TListOf`; `to_cfg_gen true` is the strict
     variant that never converts, its success is the predicate `coercion_free` of
     the "changes no value" theorems), `top_value` (a top-level value of the
     DictConfig given to verify_training_cfg against the declared field) and the
     structured `merge schema cfg` (`OmegaConf.merge(schema, cfg)`: take cfg's
     value where present, the schema default elsewhere, reject unknown keys and
     scalars where a node is declared).
   * a finite reachability checker used for the augmentation-list theorems. *)
From Coq Require Import List String Ascii ZArith QArith Bool Arith.
From SV Require Import Base.Render.
Import ListNotations.
Open Scope string_scope.

(* ---------------------------------------------------------------- values *)

(* IEEE values that are not rational numbers: float('nan'), float('inf'), float('-inf') *)
Inductive nonfin := NaN | PInf | NInf.

Inductive cfg : Type :=
| VNone
| VMissing                                   (* omegaconf.MISSING, '???' *)
| VBool (b : bool)
| VInt (z : Z)
| VFloat (q : Q)
| VNonFin (k : nonfin)                       (* a float that is NaN or +-infinity *)
| VStr (s : string)
| VList (l : list cfg)
| VTup (l : list cfg)
| VDict (kv : list (string * cfg))
| VObj (cls : string) (kv : list (string * cfg)).

Inductive ekind :=
| ValueError | TypeError | KeyError | AttributeError
| ValidationError            (* omegaconf.errors.ValidationError *)
| MissingMandatory           (* omegaconf.errors.MissingMandatoryValue *)
| ConfigKeyError             (* omegaconf.errors.ConfigKeyError / ConfigAttributeError *)
| Unmodelled.                (* NOT an exception of the code: the code returns a value here that this
                                model does not compute (str(float), int()/float() of unusual strings).
                                The harness never accepts it as agreement with anything. *)

Inductive res (A : Type) : Type := Ok (a : A) | Err (e : ekind).
Arguments Ok {A} a.
Arguments Err {A} e.

Definition bind {A B} (m : res A) (f : A -> res B) : res B :=
  match m with Ok a => f a | Err e => Err e end.

Definition is_ok {A} (m : res A) : bool := match m with Ok _ => true | Err _ => false end.

(* lazy conjunction: `andb` evaluates both arguments under vm_compute (call by value) *)
Notation "a &&& b" := (if a then b else false) (at level 40, left associativity).

(* ------------------------------------------------------ structural equality *)

Definition q_eqb (a b : Q) : bool :=
  Z.eqb (Qnum a) (Qnum b) && Pos.eqb (Qden a) (Qden b).

Definition nonfin_eqb (a b : nonfin) : bool :=
  match a, b with NaN, NaN | PInf, PInf | NInf, NInf => true | _, _ => false end.

Fixpoint cfg_eqb (a b : cfg) {struct a} : bool :=
  match a with
  | VNone => match b with VNone => true | _ => false end
  | VMissing => match b with VMissing => true | _ => false end
  | VBool x => match b with VBool y => Bool.eqb x y | _ => false end
  | VInt x => match b with VInt y => Z.eqb x y | _ => false end
  | VFloat x => match b with VFloat y => q_eqb x y | _ => false end
  | VNonFin x => match b with VNonFin y => nonfin_eqb x y | _ => false end
  | VStr x => match b with VStr y => String.eqb x y | _ => false end
  | VList x =>
      match b with
      | VList y =>
          (fix go (x y : list cfg) {struct x} : bool :=
             match x, y with
             | [], [] => true
             | a' :: x', b' :: y' => cfg_eqb a' b' &&& go x' y'
             | _, _ => false
             end) x y
      | _ => false
      end
  | VTup x =>
      match b with
      | VTup y =>
          (fix go (x y : list cfg) {struct x} : bool :=
             match x, y with
             | [], [] => true
             | a' :: x', b' :: y' => cfg_eqb a' b' &&& go x' y'
             | _, _ => false
             end) x y
      | _ => false
      end
  | VDict x =>
      match b with
      | VDict y =>
          (fix go (x y : list (string * cfg)) {struct x} : bool :=
             match x, y with
             | [], [] => true
             | (k, a') :: x', (k', b') :: y' => String.eqb k k' &&& cfg_eqb a' b' &&& go x' y'
             | _, _ => false
             end) x y
      | _ => false
      end
  | VObj c x =>
      match b with
      | VObj c' y =>
          String.eqb c c' &&&
          (fix go (x y : list (string * cfg)) {struct x} : bool :=
             match x, y with
             | [], [] => true
             | (k, a') :: x', (k', b') :: y' => String.eqb k k' &&& cfg_eqb a' b' &&& go x' y'
             | _, _ => false
             end) x y
      | _ => false
      end
  end.

(* ------------------------------------------------------------ assoc lists *)

Fixpoint lookup {A} (k : string) (kv : list (string * A)) : option A :=
  match kv with
  | [] => None
  | (k', v) :: r => if String.eqb k k' then Some v else lookup k r
  end.

Fixpoint set_assoc {A} (k : string) (v : A) (kv : list (string * A)) : list (string * A) :=
  match kv with
  | [] => []
  | (k', v') :: r => if String.eqb k k' then (k, v) :: r else (k', v') :: set_assoc k v r
  end.

Definition mem_str (k : string) (l : list string) : bool := existsb (String.eqb k) l.

Fixpoint nodup_str (l : list string) : bool :=
  match l with [] => true | k :: r => negb (mem_str k r) && nodup_str r end.

Definition fields (c : cfg) : option (list (string * cfg)) :=
  match c with VDict kv | VObj _ kv => Some kv | _ => None end.

(* the value at a path of keys *)
Fixpoint get (p : list string) (c : cfg) : option cfg :=
  match p with
  | [] => Some c
  | k :: r =>
      match fields c with
      | Some kv => match lookup k kv with Some v => get r v | None => None end
      | None => None
      end
  end.

Definition is_none (c : cfg) : bool := match c with VNone => true | _ => false end.

(* ---------------------------------------------------------- Python fragment *)

Definition num_of (c : cfg) : option Q :=
  match c with
  | VBool b => Some (if b then 1 else 0)%Q
  | VInt z => Some (inject_Z z)
  | VFloat q => Some q
  | _ => None
  end.

Definition qle (a b : Q) : bool := Qle_bool a b.
Definition qlt (a b : Q) : bool := negb (Qle_bool b a).

(* Python's numeric comparisons are IEEE comparisons: every comparison with NaN
   is False, -inf is below and +inf above every rational *)
Inductive xnum := XFin (q : Q) | XNaN | XPInf | XNInf.

Definition xnum_of (c : cfg) : option xnum :=
  match c with
  | VNonFin NaN => Some XNaN
  | VNonFin PInf => Some XPInf
  | VNonFin NInf => Some XNInf
  | _ => match num_of c with Some q => Some (XFin q) | None => None end
  end.

Definition xle (a b : xnum) : bool :=
  match a, b with
  | XNaN, _ | _, XNaN => false
  | XFin x, XFin y => qle x y
  | XNInf, _ => true
  | _, XPInf => true
  | _, _ => false
  end.
Definition xlt (a b : xnum) : bool :=
  match a, b with
  | XNaN, _ | _, XNaN => false
  | XFin x, XFin y => qlt x y
  | XNInf, XNInf => false
  | XNInf, _ => true
  | XPInf, _ => false
  | XFin _, XPInf => true
  | XFin _, XNInf => false
  end.

Definition py_cmp (op : xnum -> xnum -> bool) (a b : cfg) : res bool :=
  match xnum_of a, xnum_of b with
  | Some x, Some y => Ok (op x y)
  | _, _ => Err TypeError
  end.
Definition py_le := py_cmp xle.
Definition py_lt := py_cmp xlt.
Definition py_ge (a b : cfg) := py_cmp xle b a.
Definition py_gt (a b : cfg) := py_cmp xlt b a.

Definition py_is_str (c : cfg) : bool := match c with VStr _ => true | _ => false end.
Definition py_is_list (c : cfg) : bool := match c with VList _ => true | _ => false end.
Definition py_is_dict (c : cfg) : bool := match c with VDict _ => true | _ => false end.
(* bool is a subclass of int *)
Definition py_is_int (c : cfg) : bool := match c with VInt _ | VBool _ => true | _ => false end.
Definition py_is_float (c : cfg) : bool := match c with VFloat _ | VNonFin _ => true | _ => false end.
Definition py_is_bool (c : cfg) : bool := match c with VBool _ => true | _ => false end.

(* `x == "literal"` *)
Definition py_eq_str (c : cfg) (s : string) : bool :=
  match c with VStr x => String.eqb x s | _ => false end.
(* `x in ["a", "b"]` *)
Definition py_in_strs (c : cfg) (l : list string) : bool :=
  match c with VStr x => mem_str x l | _ => false end.

Definition py_truthy (c : cfg) : bool :=
  match c with
  | VNone => false
  | VMissing => true
  | VBool b => b
  | VInt z => negb (Z.eqb z 0)
  | VFloat q => negb (Z.eqb (Qnum q) 0)
  | VNonFin _ => true
  | VStr s => negb (String.eqb s "")
  | VList l | VTup l => match l with [] => false | _ => true end
  | VDict kv => match kv with [] => false | _ => true end
  | VObj _ _ => true
  end.

Definition py_startswith (c : cfg) (p : string) : res bool :=
  match c with VStr s => Ok (String.prefix p s) | _ => Err AttributeError end.

(* `k in container` *)
Definition py_contains (container k : cfg) : res bool :=
  match container with
  | VDict kv => match k with
                | VStr s => Ok (match lookup s kv with Some _ => true | None => false end)
                | _ => Ok false
                end
  | VList l | VTup l => Ok (existsb (cfg_eqb k) l)
  | _ => Err TypeError
  end.

(* `container[k]` *)
Definition py_subscript (container k : cfg) : res cfg :=
  match container with
  | VDict kv => match k with
                | VStr s => match lookup s kv with Some v => Ok v | None => Err KeyError end
                | _ => Err KeyError
                end
  | _ => Err TypeError
  end.

Definition py_getattr (obj : cfg) (k : string) : res cfg :=
  match obj with
  | VObj _ kv => match lookup k kv with Some v => Ok v | None => Err AttributeError end
  | _ => Err AttributeError
  end.

Fixpoint fold_res {S A} (f : S -> A -> res S) (l : list A) (s : S) : res S :=
  match l with
  | [] => Ok s
  | x :: r => bind (f s x) (fold_res f r)
  end.

(* `for x in it: body` over a list / tuple *)
Definition py_for {S} (it : cfg) (s : S) (body : S -> cfg -> res S) : res S :=
  match it with
  | VList l | VTup l => fold_res body l s
  | _ => Err TypeError
  end.

(* `for k, v in d.items(): body` where body may `break` (second component) *)
Fixpoint fold_break {S} (f : S -> string -> cfg -> res (S * bool))
         (l : list (string * cfg)) (s : S) : res S :=
  match l with
  | [] => Ok s
  | (k, v) :: r => bind (f s k v) (fun sb => if snd sb then Ok (fst sb) else fold_break f r (fst sb))
  end.

Definition py_for_items {S} (d : cfg) (s : S)
           (body : S -> cfg -> cfg -> res (S * bool)) : res S :=
  match d with
  | VDict kv => fold_break (fun s k v => body s (VStr k) v) kv s
  | _ => Err AttributeError
  end.

(* `all(cond(x) for x in it)` — stops at the first false element *)
Fixpoint all_res (f : cfg -> res bool) (l : list cfg) : res bool :=
  match l with
  | [] => Ok true
  | x :: r => bind (f x) (fun b => if b then all_res f r else Ok false)
  end.
Definition py_all (it : cfg) (f : cfg -> res bool) : res bool :=
  match it with
  | VList l | VTup l => all_res f l
  | _ => Err TypeError
  end.

(* short-circuit `and` / `or` on conditions that may raise *)
Definition py_and (a : res bool) (b : unit -> res bool) : res bool :=
  bind a (fun x => if x then b tt else Ok false).
Definition py_or (a : res bool) (b : unit -> res bool) : res bool :=
  bind a (fun x => if x then Ok true else b tt).

(* keyword arguments: explicit ones followed by `**d` expansions *)
Fixpoint expand_kwargs (explicit : list (string * cfg)) (stars : list cfg)
  : res (list (string * cfg)) :=
  match stars with
  | [] => Ok explicit
  | VDict kv :: r => expand_kwargs (explicit ++ kv) r
  | _ :: _ => Err TypeError
  end.

(* the environment of a call: supplied keyword or the signature default;
   a required parameter that is not supplied reads as VMissing (the wrappers
   `call_kw` reject such calls with TypeError beforehand) *)
Definition env_of (kw defaults : list (string * cfg)) : string -> cfg :=
  fun p => match lookup p kw with
           | Some v => v
           | None => match lookup p defaults with Some v => v | None => VMissing end
           end.

Definition call_kw (params required : list string) (defaults : list (string * cfg))
           (f : (string -> cfg) -> res cfg) (kw : list (string * cfg)) : res cfg :=
  if negb (nodup_str (map fst kw)) then Err TypeError
  else if negb (forallb (fun k => mem_str k params) (map fst kw)) then Err TypeError
  else if negb (forallb (fun k => mem_str k (map fst kw)) required) then Err TypeError
  else f (env_of kw defaults).

(* --------------------------------------------------------------- attrs layer *)

Inductive ty := TAny | TBool | TInt | TFloat | TStr | TList | TDict | TCls (name : string)
| TListOf (elem : ty).                    (* List[T] / Tuple[T, ...]: OmegaConf types every element *)

Record field_def := mkField {
  f_name : string;
  f_ty : ty;
  f_opt : bool;                           (* Optional[...] *)
  f_default : cfg;
  f_validator : cfg -> cfg -> res unit    (* instance, value *)
}.

Record class_def := mkClass {
  c_name : string;
  c_bases : list string;                  (* all ancestors among the config classes *)
  c_oneof : bool;
  c_fields : list field_def
}.

Definition no_validator : cfg -> cfg -> res unit := fun _ _ => Ok tt.

Definition field_names (c : class_def) : list string := map f_name (c_fields c).

Definition fill (c : class_def) (kw : list (string * cfg)) : list (string * cfg) :=
  map (fun f => (f_name f, match lookup (f_name f) kw with Some v => v | None => f_default f end))
      (c_fields c).

(* the instance `Cls()` would be if its defaults pass its validators *)
Definition default_obj (c : class_def) : cfg := VObj (c_name c) (fill c []).

Fixpoint run_validators (fs : list field_def) (obj : cfg) (kv : list (string * cfg)) : res unit :=
  match fs with
  | [] => Ok tt
  | f :: r =>
      bind (f_validator f obj (match lookup (f_name f) kv with Some v => v | None => VNone end))
           (fun _ => run_validators r obj kv)
  end.

Definition count_set (kv : list (string * cfg)) : nat :=
  List.length (filter (fun e => negb (is_none (snd e))) kv).

(* sleap_nn/config/utils.py: oneof — more than one attribute set is an error;
   none set is an error only with must_be_set *)
Definition oneof_check (must_be_set : bool) (kv : list (string * cfg)) : res unit :=
  if Nat.ltb 1 (count_set kv) then Err ValueError
  else if Nat.eqb (count_set kv) 0 && must_be_set then Err ValueError
  else Ok tt.

Definition mk (c : class_def) (kw : list (string * cfg)) : res cfg :=
  if negb (nodup_str (map fst kw)) then Err TypeError
  else if negb (forallb (fun k => mem_str k (field_names c)) (map fst kw)) then Err TypeError
  else
    let kv := fill c kw in
    let obj := VObj (c_name c) kv in
    bind (run_validators (c_fields c) obj kv) (fun _ =>
    bind (if c_oneof c then oneof_check false kv else Ok tt) (fun _ =>
    Ok obj)).

Definition mk_kw (c : class_def) (explicit : list (string * cfg)) (stars : list cfg) : res cfg :=
  bind (expand_kwargs explicit stars) (mk c).

Definition find_class (cs : list class_def) (n : string) : option class_def :=
  find (fun c => String.eqb (c_name c) n) cs.

Definition find_field (c : class_def) (k : string) : option field_def :=
  find (fun f => String.eqb (f_name f) k) (c_fields c).

(* attrs `define`: on_setattr = [convert, validate]; the validator sees the
   instance *before* the assignment.  Slotted classes: unknown attribute ->
   AttributeError.  The oneof wrapper is not re-run. *)
Definition py_setattr (cs : list class_def) (obj : cfg) (k : string) (v : cfg) : res cfg :=
  match obj with
  | VObj n kv =>
      match find_class cs n with
      | Some c =>
          match find_field c k with
          | Some f => bind (f_validator f obj v) (fun _ => Ok (VObj n (set_assoc k v kv)))
          | None => Err AttributeError
          end
      | None => Err AttributeError
      end
  | _ => Err AttributeError
  end.

(* `obj.a.b.c = v` : getattr down the path, setattr on the last object *)
Fixpoint py_setattr_path (cs : list class_def) (obj : cfg) (p : list string) (v : cfg) : res cfg :=
  match p with
  | [] => Err AttributeError
  | [k] => py_setattr cs obj k v
  | k :: r =>
      bind (py_getattr obj k) (fun child =>
      bind (py_setattr_path cs child r v) (fun child' =>
      match obj with
      | VObj n kv => Ok (VObj n (set_assoc k child' kv))
      | _ => Err AttributeError
      end))
  end.

(* ------------------------------------------------------------ OmegaConf layer *)

Definition class_le (cs : list class_def) (actual declared : string) : bool :=
  String.eqb actual declared ||
  match find_class cs actual with
  | Some c => mem_str declared (c_bases c)
  | None => false
  end.

(* plain container of an untyped value *)
Fixpoint plain (v : cfg) : cfg :=
  match v with
  | VList l => VList (map plain l)
  | VTup l => VList (map plain l)
  | VDict kv => VDict (map (fun e => (fst e, plain (snd e))) kv)
  | VObj _ kv => VDict (map (fun e => (fst e, plain (snd e))) kv)
  | _ => v
  end.

Fixpoint has_missing (v : cfg) : bool :=
  match v with
  | VMissing => true
  | VList l | VTup l => existsb has_missing l
  | VDict kv | VObj _ kv => existsb (fun e => has_missing (snd e)) kv
  | _ => false
  end.

Definition ty_any (t : ty) : bool := match t with TAny => true | _ => false end.

(* --- OmegaConf's typed scalar nodes convert ("coerce") a value of another scalar type ---------
   StringNode: str(value) for every non-container; IntegerNode: int(value) for str / int (bool and
   float are rejected); FloatNode: float(value) for float / str / int (bool rejected); BooleanNode:
   bool, int (!= 0), str (int(value) != 0, else yes/y/on/true | no/n/off/false, any case).  The
   results this model cannot compute (the repr of a float, int()/float() of strings other than
   [+-]digits) are `Err Unmodelled`, never a claim about the code. *)
Definition z_to_string (z : Z) : string := rZ z "".

Definition is_digit (a : ascii) : bool :=
  let n := nat_of_ascii a in Nat.leb 48 n && Nat.leb n 57.
Fixpoint digits_val (s : string) (acc : Z) : option Z :=
  match s with
  | EmptyString => Some acc
  | String a r => if is_digit a then digits_val r (acc * 10 + Z.of_nat (nat_of_ascii a - 48)) else None
  end.
(* a printable ASCII character that int() never accepts in base 10 *)
Definition never_in_int (a : ascii) : bool :=
  let n := nat_of_ascii a in
  Nat.leb 33 n && Nat.leb n 127 && negb (is_digit a) && negb (Nat.eqb n 43 || Nat.eqb n 45 || Nat.eqb n 95).
Fixpoint str_exists (p : ascii -> bool) (s : string) : bool :=
  match s with EmptyString => false | String a r => p a || str_exists p r end.

Inductive parsed := PInt (z : Z) | PNot | PUnknown.
(* Python's int(s): [+-]digits is parsed; "" and any string holding a printable ASCII character
   other than digits, sign, underscore never parse; the rest (whitespace, underscores, non-ASCII
   digits) is not modelled *)
Definition py_int_of_str (s : string) : parsed :=
  let body := match s with
              | String a r => if Nat.eqb (nat_of_ascii a) 43 || Nat.eqb (nat_of_ascii a) 45 then r else s
              | EmptyString => s
              end in
  let neg := match s with String a _ => Nat.eqb (nat_of_ascii a) 45 | _ => false end in
  match body with
  | EmptyString => PNot                       (* "", "+", "-" *)
  | _ => match digits_val body 0%Z with
         | Some z => PInt (if neg then (- z)%Z else z)
         | None => if str_exists never_in_int s then PNot else PUnknown
         end
  end.

Definition ascii_lower (a : ascii) : ascii :=
  let n := nat_of_ascii a in if Nat.leb 65 n && Nat.leb n 90 then ascii_of_nat (n + 32) else a.
Fixpoint str_lower (s : string) : string :=
  match s with EmptyString => EmptyString | String a r => String (ascii_lower a) (str_lower r) end.
Definition all_ascii (s : string) : bool := negb (str_exists (fun a => Nat.leb 128 (nat_of_ascii a)) s).

Definition py_bool_of_str (s : string) : res cfg :=
  match py_int_of_str s with
  | PInt z => Ok (VBool (negb (Z.eqb z 0)))
  | PUnknown => Err Unmodelled
  | PNot =>
      if negb (all_ascii s) then Err Unmodelled
      else if mem_str (str_lower s) ["yes"; "y"; "on"; "true"] then Ok (VBool true)
      else if mem_str (str_lower s) ["no"; "n"; "off"; "false"] then Ok (VBool false)
      else Err ValidationError
  end.

Definition two53 : Z := 9007199254740992%Z.

(* a scalar v of another type than the declared scalar type t: what the typed node stores.
   `strict` = true: no conversion is performed (the value would change), ValidationError instead —
   the success of the strict conversion is the predicate "coercion-free" of the theorems. *)
Definition coerce_scalar (strict : bool) (t : ty) (v : cfg) : res cfg :=
  if strict then Err ValidationError else
  match t, v with
  | TStr, VBool b => Ok (VStr (if b then "True" else "False"))
  | TStr, VInt z => Ok (VStr (z_to_string z))
  | TStr, VFloat _ => Err Unmodelled
  | TStr, VNonFin NaN => Ok (VStr "nan")
  | TStr, VNonFin PInf => Ok (VStr "inf")
  | TStr, VNonFin NInf => Ok (VStr "-inf")
  | TBool, VInt z => Ok (VBool (negb (Z.eqb z 0)))
  | TBool, VStr s => py_bool_of_str s
  | TInt, VStr s => match py_int_of_str s with
                    | PInt z => Ok (VInt z) | PNot => Err ValidationError | PUnknown => Err Unmodelled
                    end
  | TFloat, VStr s => match py_int_of_str s with
                      | PInt z => if Z.leb (Z.abs z) two53 then Ok (VFloat (inject_Z z)) else Err Unmodelled
                      | _ => Err Unmodelled
                      end
  | _, _ => Err ValidationError
  end.

(* OmegaConf.structured on the value of a field declared with type t *)
Fixpoint to_cfg_gen (strict : bool) (cs : list class_def) (t : ty) (opt : bool) (v : cfg) {struct v} : res cfg :=
  match v with
  | VNone => if opt || ty_any t then Ok VNone else Err ValidationError
  | VMissing => Ok VMissing
  | VBool _ => match t with TBool | TAny => Ok v | _ => coerce_scalar strict t v end
  | VInt z => match t with
              | TInt | TAny => Ok v
              | TFloat => Ok (VFloat (inject_Z z))
              | _ => coerce_scalar strict t v
              end
  | VFloat _ | VNonFin _ => match t with TFloat | TAny => Ok v | _ => coerce_scalar strict t v end
  | VStr _ => match t with TStr | TAny => Ok v | _ => coerce_scalar strict t v end
  | VList l | VTup l =>
      match t with
      | TList | TAny => Ok (VList (map plain l))
      | TListOf e =>
          bind ((fix go (l : list cfg) : res (list cfg) :=
                   match l with
                   | [] => Ok []
                   | x :: r => bind (to_cfg_gen strict cs e false x) (fun x' =>
                               bind (go r) (fun r' => Ok (x' :: r')))
                   end) l)
               (fun l' => Ok (VList l'))
      | _ => Err ValidationError
      end
  | VDict kv => match t with
                | TDict | TAny => Ok (VDict (map (fun e => (fst e, plain (snd e))) kv))
                | _ => Err ValidationError
                end
  | VObj n kv =>
      let ok := match t with TCls d => class_le cs n d | TAny => true | _ => false end in
      if negb ok then Err ValidationError
      else
        match find_class cs n with
        | None => Err ValidationError
        | Some c =>
            bind ((fix go (kv : list (string * cfg)) : res (list (string * cfg)) :=
                     match kv with
                     | [] => Ok []
                     | (k, x) :: r =>
                         match find_field c k with
                         | None => Err ValidationError
                         | Some f =>
                             bind (to_cfg_gen strict cs (f_ty f) (f_opt f) x) (fun x' =>
                             bind (go r) (fun r' => Ok ((k, x') :: r')))
                         end
                     end) kv)
                 (fun kv' => Ok (VDict kv'))
        end
  end.

(* what the code does *)
Definition to_cfg := to_cfg_gen false.
(* the value sits at fields of its own type everywhere (int at float, tuple at list, object at its
   class allowed): the structured conversion then performs no scalar conversion *)
Definition coercion_free (cs : list class_def) (t : ty) (opt : bool) (v : cfg) : bool :=
  is_ok (to_cfg_gen true cs t opt v).

(* a top-level value of the DictConfig handed to verify_training_cfg, against the declared field
   (`OmegaConf.structured(TrainingJobConfig(<the keys of cfg as keywords>))`): a dict / list NODE is taken as it is whatever
   the declared type (its own metadata replaces the declared one); a scalar goes through the typed
   node of the field — converted at the str fields, rejected at a section (`None`, `3`, `'abc'`:
   ValidationError), `???` stays `???` *)
Definition top_value (cs : list class_def) (t : ty) (opt : bool) (v : cfg) : res cfg :=
  match v with
  | VDict _ | VList _ => Ok v
  | VTup _ | VObj _ _ => Err Unmodelled          (* not values of a DictConfig *)
  | VMissing => Ok VMissing
  | _ => match t with
         | TCls _ => if opt && is_none v then Ok VNone else Err ValidationError
         | _ => to_cfg cs t opt v
         end
  end.

(* every top-level value against the field of class c it is the keyword of (unknown keyword: the
   constructor's TypeError) *)
Definition top_values (cs : list class_def) (c : class_def) :=
  fix go (kv : list (string * cfg)) : res (list (string * cfg)) :=
    match kv with
    | [] => Ok []
    | (k, v) :: r =>
        match find_field c k with
        | None => Err TypeError
        | Some f => bind (top_value cs (f_ty f) (f_opt f) v) (fun v' =>
                    bind (go r) (fun r' => Ok ((k, v') :: r')))
        end
    end.

(* TrainingJobConfig.to_sleap_nn_cfg: structured + to_container(throw_on_missing) *)
Definition to_sleap_nn_cfg (cs : list class_def) (top : string) (obj : cfg) : res cfg :=
  bind (to_cfg cs (TCls top) false obj) (fun c =>
  if has_missing c then Err MissingMandatory else Ok c).

(* --- structured merge ----------------------------------------------------- *)

Inductive schema : Type :=
| SLeaf (d : cfg)                 (* untyped value (scalar, list or free subtree) with its default *)
| SNode (opt : bool)              (* Optional[...]: None is accepted *)
        (dnone : bool)            (* the default is None (else: the populated node) *)
        (fs : list (string * schema)).

Fixpoint sdefault (s : schema) : cfg :=
  match s with
  | SLeaf d => d
  | SNode _ dnone fs =>
      if dnone then VNone
      else VDict ((fix go (fs : list (string * schema)) : list (string * cfg) :=
                     match fs with
                     | [] => []
                     | (k, s') :: r => (k, sdefault s') :: go r
                     end) fs)
  end.

Fixpoint merge (s : schema) (c : cfg) {struct s} : res cfg :=
  match s with
  | SLeaf _ => Ok c
  | SNode opt _ fs =>
      match c with
      | VNone => if opt then Ok VNone else Err ValidationError
      | VDict kv =>
          if negb (forallb (fun k => mem_str k (map fst fs)) (map fst kv)) then Err ConfigKeyError
          else
            bind ((fix go (fs : list (string * schema)) : res (list (string * cfg)) :=
                     match fs with
                     | [] => Ok []
                     | (k, s') :: r =>
                         bind (match lookup k kv with
                               | Some c' => merge s' c'
                               | None => Ok (sdefault s')
                               end) (fun v =>
                         bind (go r) (fun r' => Ok ((k, v) :: r')))
                     end) fs)
                 (fun kv' => Ok (VDict kv'))
      | _ => Err ValidationError
      end
  end.

(* c has exactly the keys the schema declares, in the declared order, at every node *)
Fixpoint complete (s : schema) (c : cfg) {struct s} : bool :=
  match s with
  | SLeaf _ => true
  | SNode opt _ fs =>
      match c with
      | VNone => opt
      | VDict kv =>
          (fix go (fs : list (string * schema)) (kv : list (string * cfg)) : bool :=
             match fs, kv with
             | [], [] => true
             | (k, s') :: r, (k', c') :: r' => String.eqb k k' && complete s' c' && go r r'
             | _, _ => false
             end) fs kv
      | _ => false
      end
  end.

(* well-formed: keys distinct at every node, a None default only where None is accepted *)
Fixpoint swf (s : schema) : bool :=
  match s with
  | SLeaf _ => true
  | SNode opt dnone fs =>
      implb dnone opt && nodup_str (map fst fs) &&
      (fix go (fs : list (string * schema)) : bool :=
         match fs with [] => true | (_, s') :: r => swf s' && go r end) fs
  end.

(* p addresses a leaf of the schema *)
Fixpoint leaf_path (s : schema) (p : list string) : bool :=
  match s, p with
  | SLeaf _, [] => true
  | SNode _ _ fs, k :: r => match lookup k fs with Some s' => leaf_path s' r | None => false end
  | _, _ => false
  end.

(* verify_training_cfg = merge, then to_container(throw_on_missing=True) *)
Definition normalise (s : schema) (c : cfg) : res cfg :=
  bind (merge s c) (fun c' => if has_missing c' then Err MissingMandatory else Ok c').

(* ------------------------------------------- finite reachability (aug lists) *)

Section Reach.
  Variable step : cfg -> string -> res cfg.      (* one loop iteration *)
  Variable names : list string.                  (* the documented option names *)
  Variable inv : cfg -> list string -> bool.     (* state, canonical set of names seen *)
  Variable allowed : list string -> bool.        (* on canonical sets *)

  Definition canon (seen : list string) : list string :=
    filter (fun n => mem_str n seen) names.

  Definition strs_eqb (a b : list string) : bool :=
    (fix go (a b : list string) : bool :=
       match a, b with
       | [], [] => true
       | x :: a', y :: b' => String.eqb x y &&& go a' b'
       | _, _ => false
       end) a b.

  Definition st := (cfg * list string)%type.

  Definition st_mem (x : st) (R : list st) : bool :=
    existsb (fun y => strs_eqb (snd x) (snd y) &&& cfg_eqb (fst x) (fst y)) R.

  Definition succs (x : st) : list (option st) :=
    map (fun n =>
           let seen' := canon (n :: snd x) in
           if allowed seen' then
             match step (fst x) n with
             | Ok s' => Some (s', seen')
             | Err _ => None
             end
           else Some x) names.

  (* every listed state satisfies inv, and every allowed step from a listed
     state succeeds and lands on a listed state *)
  Definition closed (R : list st) : bool :=
    forallb (fun x =>
               inv (fst x) (snd x) &&&
               forallb (fun o => match o with Some y => st_mem y R | None => false end) (succs x)) R.

  Fixpoint explore (fuel : nat) (R todo : list st) : list st :=
    match fuel with
    | O => R
    | S f =>
        match todo with
        | [] => R
        | x :: rest =>
            if st_mem x R then explore f R rest
            else explore f (x :: R)
                   (rest ++ flat_map (fun o => match o with Some y => [y] | None => [] end) (succs x))
        end
    end.

  Definition fold_names (l : list string) (s : cfg) : res cfg := fold_res step l s.
End Reach.

(* all ordered lists of distinct elements of `names` of length exactly n / at most n
   — used for bounded exhaustive searches *)
Fixpoint distinct_lists (n : nat) (names : list string) : list (list string) :=
  match n with
  | O => [[]]
  | S m => flat_map (fun l => map (fun x => x :: l) (filter (fun x => negb (mem_str x l)) names))
                    (distinct_lists m names)
  end.
Definition ordered_lists (n : nat) (names : list string) : list (list string) :=
  flat_map (fun k => distinct_lists k names) (seq 0 (S n)).

(* ------------------------------------------------------------------ rendering *)
Definition rkind (e : ekind) : rdr :=
  rquoted (match e with
           | ValueError => "ValueError" | TypeError => "TypeError" | KeyError => "KeyError"
           | AttributeError => "AttributeError" | ValidationError => "ValidationError"
           | MissingMandatory => "MissingMandatoryValue" | ConfigKeyError => "ConfigKeyError"
           | Unmodelled => "Unmodelled"
           end).

(* JSON: null | true | 17 | {"f":[n,d]} | "s" | [..] | {"t":[..]} | {"d":[[k,v]..]} |
   {"o":"Cls","kv":[[k,v]..]} | {"m":0} for MISSING.  Strings are not escaped: the
   harness only uses [A-Za-z0-9_./-]. *)
Fixpoint rcfg (v : cfg) : rdr :=
  match v with
  | VNone => rstr "null"
  | VMissing => rstr "{""m"":0}"
  | VBool b => rbool b
  | VInt z => rZ z
  | VFloat q => fun k => rstr "{""f"":" (rQ q (rstr "}" k))
  | VNonFin NaN => rstr "{""nf"":""nan""}"
  | VNonFin PInf => rstr "{""nf"":""inf""}"
  | VNonFin NInf => rstr "{""nf"":""-inf""}"
  | VStr s => rquoted s
  | VList l => rlist rcfg l
  | VTup l => fun k => rstr "{""t"":" (rlist rcfg l (rstr "}" k))
  | VDict kv =>
      fun k => rstr "{""d"":" (rlist (fun e k' => rstr "[" (rquoted (fst e) (rstr "," (rcfg (snd e) (rstr "]" k'))))) kv (rstr "}" k))
  | VObj c kv =>
      fun k => rstr "{""o"":" (rquoted c (rstr ",""kv"":"
                 (rlist (fun e k' => rstr "[" (rquoted (fst e) (rstr "," (rcfg (snd e) (rstr "]" k'))))) kv (rstr "}" k))))
  end.

Definition rres {A} (r : A -> rdr) (m : res A) : rdr :=
  match m with
  | Ok a => fun k => rstr "{""ok"":" (r a (rstr "}" k))
  | Err e => fun k => rstr "{""err"":" (rkind e (rstr "}" k))
  end.

(* ------------------------------------------------- "the same value" across layers *)
(* `veq a b`: b holds the value a in container form — what OmegaConf forgets is
   forgotten (a tuple becomes a list, an attrs object / dict becomes a dict with the
   same keys in the same order, an int may have become the float of the same value);
   every scalar is otherwise identical. *)
Fixpoint veq (a b : cfg) {struct a} : bool :=
  match a with
  | VInt z => match b with
              | VInt z' => Z.eqb z z'
              | VFloat q => q_eqb q (inject_Z z)
              | _ => false
              end
  | VList x | VTup x =>
      match b with
      | VList y =>
          (fix go (x y : list cfg) {struct x} : bool :=
             match x, y with
             | [], [] => true
             | a' :: x', b' :: y' => veq a' b' &&& go x' y'
             | _, _ => false
             end) x y
      | _ => false
      end
  | VDict x | VObj _ x =>
      match b with
      | VDict y =>
          (fix go (x y : list (string * cfg)) {struct x} : bool :=
             match x, y with
             | [], [] => true
             | (k, a') :: x', (k', b') :: y' => String.eqb k k' &&& veq a' b' &&& go x' y'
             | _, _ => false
             end) x y
      | _ => false
      end
  | _ => cfg_eqb a b
  end.
