(* PerRun.v (C20) — the per-run obligations about the REGENERATED functions live in
   PerRunAug.v (clause c), PerRunPass.v (a, b), PerRunInterp.v / PerRunSched.v (interpreted parameters),
   PerRunVal.v (e, d, F13), PerRunChain.v (end to end; after Pass and Val); they share PerRunBase.v and are compiled in parallel by the
   check.  This file only re-exports them (the harness evaluates the status booleans
   through it). *)
From SV Require Export C20.PerRunBase C20.PerRunAug C20.PerRunPass C20.PerRunInterp C20.PerRunSched C20.PerRunVal C20.PerRunChain.
