(* PerRun.v (C20) — per-run obligations about the REGENERATED functions
   (Gen/C20_Schema.v, Gen/C20_Builders.v, rewritten from the sources of
   sleap_nn/config/*.py and sleap_nn/train.py on every check run).  The
   specifications in this file (option names, what "enabled" means, the
   documented place of every builder parameter, the documented backbone presets
   and sizes) are hand-written from the docstrings; the proofs are by
   computation / case analysis on the generated terms, so a harmless rewrite of
   the sources recomputes and a breaking one makes this file fail to compile.

   Three clauses of the property are FALSE on the pinned tree (F12, F13, F16).
   Each is stated as a pair `..._full : status_b = true -> <clause>` /
   `..._refuted : status_b = false -> exists <witness>, <negation>` over a closed
   boolean computed from the generated model, plus the strongest unconditional
   statement `..._partial`; the harness evaluates the status booleans, reports
   which member of each pair is the live one and cross-checks it against the
   implementation.  After a repair of the sources the same file compiles and the
   `_full` members become the live ones. *)
From Coq Require Import List String Ascii ZArith QArith Bool Arith Lia.
From SV Require Import C20.CfgTree C20.Lemmas Gen.C20_Schema Gen.C20_Builders C20.Eval.
Import ListNotations.
Close Scope Q_scope.
Open Scope string_scope.

(* ===================================================================== (c) *)
(* augmentation lists *)

Definition INTENSITY := ["uniform_noise"; "gaussian_noise"; "contrast"; "brightness"].
Definition GEOMETRIC := ["rotation"; "scale"; "translate"; "erase_scale"; "mixup"].
Definition AFFINE := ["rotation"; "scale"; "translate"].
Definition ALL := (INTENSITY ++ GEOMETRIC)%list.

Definition prob_pos (s : cfg) (p : list string) : bool :=
  match get p s with
  | Some v => match num_of v with Some q => qlt 0 q | None => false end
  | None => false
  end.
Definition nonzero (s : cfg) (p : list string) : bool :=
  match get p s with
  | Some v => match num_of v with Some q => negb (Qeq_bool q 0) | None => false end
  | None => false
  end.
Definition not_all_one (s : cfg) (p : list string) : bool :=
  match get p s with
  | Some (VTup l) | Some (VList l) =>
      existsb (fun x => match num_of x with Some q => negb (Qeq_bool q 1) | None => true end) l
  | _ => false
  end.

(* an intensity option is enabled iff its probability is positive *)
Definition int_enabled (n : string) (s : cfg) : bool := prob_pos s ["intensity"; n ++ "_p"].
(* a geometric option is enabled iff the transform it names is applied with
   positive probability and is not the identity ("set rotation to 0 to disable
   rotation", scale (1,1), translate 0) *)
Definition geo_enabled (n : string) (s : cfg) : bool :=
  let g := fun k => ["geometric"; k] in
  if n =? "rotation" then prob_pos s (g "affine_p") &&& nonzero s (g "rotation")
  else if n =? "scale" then prob_pos s (g "affine_p") &&& not_all_one s (g "scale")
  else if n =? "translate" then
    prob_pos s (g "affine_p") &&& (nonzero s (g "translate_width") || nonzero s (g "translate_height"))
  else if n =? "erase_scale" then prob_pos s (g "erase_p")
  else if n =? "mixup" then prob_pos s (g "mixup_p")
  else false.

Definition aug_init : cfg := default_obj cls_AugmentationConfig.

(* options that no preset is documented to change keep their schema default *)
Definition UNTOUCHED : list (list string) :=
  (map (fun k => ["intensity"; k])
      ["uniform_noise_min"; "uniform_noise_max"; "gaussian_noise_mean"; "gaussian_noise_std";
       "contrast_min"; "contrast_max"; "brightness"] ++
   map (fun k => ["geometric"; k])
      ["erase_scale_min"; "erase_scale_max"; "erase_ratio_min"; "erase_ratio_max"; "mixup_lambda"])%list.
Definition untouched (s : cfg) : bool :=
  forallb (fun p => match get p s, get p aug_init with
                    | Some a, Some b => cfg_eqb a b
                    | _, _ => false
                    end) UNTOUCHED.

Definition aug_args (ia ga : cfg) : string -> cfg :=
  env_of [("intensity_aug", ia); ("geometric_aug", ga)] get_aug_config_defaults.
Definition names_arg (l : list string) : cfg := VList (map VStr l).

Definition int_step (s : cfg) (n : string) := get_aug_config__for_intensity_aug s (VStr n).
Definition geo_step (s : cfg) (n : string) := get_aug_config__for_geometric_aug s (VStr n).
Definition aug_step (s : cfg) (n : string) : res cfg :=
  if mem_str n INTENSITY then int_step s n else geo_step s n.
Definition aug_enabled (n : string) (s : cfg) : bool :=
  if mem_str n INTENSITY then int_enabled n s else geo_enabled n s.
Definition aug_inv (s : cfg) (seen : list string) : bool :=
  forallb (fun n => aug_enabled n s) seen &&& untouched s.

Definition all_true (_ : list string) : bool := true.
(* selector of F12: the geometric list names two different affine presets *)
Definition selector_F12 (gl : list string) : bool :=
  Nat.leb 2 (List.length (filter (fun a => mem_str a gl) AFFINE)).
Definition allowed_partial (seen : list string) : bool := negb (selector_F12 seen).

Definition aug_R_full := explore aug_step ALL all_true (200 * 200) [] [(aug_init, [])].
Definition aug_R_partial := explore aug_step ALL allowed_partial (200 * 200) [] [(aug_init, [])].

(* status of clause (c): the unbounded check (finite reachability, sound for all
   lists) and the bounded exhaustive one (all ordered lists of distinct
   geometric names up to length 4) *)
Definition aug_check (allowed : list string -> bool) (R : list st) : bool :=
  closed aug_step ALL aug_inv allowed R &&& st_mem (aug_init, []) R.
Definition aug_geo_full_b : bool := aug_check all_true aug_R_full.

Definition aug_ok_b (il gl : list string) : bool :=
  match get_aug_config (aug_args (names_arg il) (names_arg gl)) with
  | Ok s => forallb (fun n => int_enabled n s) il &&& forallb (fun n => geo_enabled n s) gl
  | Err _ => false
  end.
Definition aug_geo_exhaustive4_b : bool := forallb (aug_ok_b []) (ordered_lists 4 GEOMETRIC).
Definition aug_geo_cex : list string :=
  match find (fun l => negb (aug_ok_b [] l)) (ordered_lists 4 GEOMETRIC) with Some l => l | None => [] end.

Lemma aug_unfold_gen : forall xs ys : list cfg,
  get_aug_config (aug_args (VList xs) (VList ys)) =
  bind (fold_res get_aug_config__for_intensity_aug xs aug_init)
       (fun s1 => fold_res get_aug_config__for_geometric_aug ys s1).
Proof.
  intros xs ys.
  cbv -[fold_res get_aug_config__for_intensity_aug get_aug_config__for_geometric_aug].
  destruct (fold_res get_aug_config__for_intensity_aug xs _) as [s1|e]; [|reflexivity].
  destruct (fold_res get_aug_config__for_geometric_aug ys s1) as [s2|e]; reflexivity.
Qed.

Lemma aug_unfold : forall il gl,
  get_aug_config (aug_args (names_arg il) (names_arg gl)) =
  bind (fold_res get_aug_config__for_intensity_aug (map VStr il) aug_init)
       (fun s1 => fold_res get_aug_config__for_geometric_aug (map VStr gl) s1).
Proof. intros. apply aug_unfold_gen. Qed.

Lemma fold_res_ext_in : forall {S A} (f g : S -> A -> res S) l s,
  (forall s x, In x l -> f s x = g s x) -> fold_res f l s = fold_res g l s.
Proof.
  induction l as [|x r IH]; intros s H; simpl; [reflexivity|].
  rewrite (H s x (or_introl eq_refl)). destruct (g s x); simpl; [|reflexivity].
  apply IH. intros s0 x0 I. apply H. right. exact I.
Qed.

Lemma aug_fold : forall il gl,
  Forall (fun n => In n INTENSITY) il -> Forall (fun n => In n GEOMETRIC) gl ->
  get_aug_config (aug_args (names_arg il) (names_arg gl)) = fold_names aug_step (il ++ gl)%list aug_init.
Proof.
  intros il gl Hi Hg. rewrite aug_unfold. unfold fold_names. rewrite fold_res_app, !fold_res_map.
  rewrite (fold_res_ext_in (fun s x => get_aug_config__for_intensity_aug s (VStr x)) aug_step il).
  - destruct (fold_res aug_step il aug_init); simpl; [|reflexivity].
    rewrite fold_res_map. apply fold_res_ext_in. intros s x I. rewrite Forall_forall in Hg. specialize (Hg x I).
    unfold aug_step. simpl in Hg.
    repeat (destruct Hg as [Hg|Hg]; [subst; reflexivity|]). contradiction.
  - intros s x I. rewrite Forall_forall in Hi. specialize (Hi x I).
    unfold aug_step. simpl in Hi.
    repeat (destruct Hi as [Hi|Hi]; [subst; reflexivity|]). contradiction.
Qed.

Lemma filter_length_mono : forall {A} (p q : A -> bool) l,
  (forall x, p x = true -> q x = true) -> List.length (filter p l) <= List.length (filter q l).
Proof.
  induction l as [|a r IH]; intro H; simpl; [lia|]. specialize (IH H).
  destruct (p a) eqn:P; [rewrite (H a P); simpl; lia | destruct (q a); simpl; lia].
Qed.

Lemma allowed_partial_antitone : forall A n,
  allowed_partial (canon ALL (n :: A)) = true -> allowed_partial (canon ALL A) = true.
Proof.
  unfold allowed_partial, selector_F12. intros A n H.
  apply negb_true_iff in H. apply negb_true_iff. apply Nat.leb_gt in H. apply Nat.leb_gt.
  eapply Nat.le_lt_trans; [|exact H]. apply filter_length_mono.
  intros x Hx. apply mem_str_In in Hx. apply canon_In in Hx. destruct Hx as [H1 H2].
  apply mem_str_In. apply canon_In. split; [exact H1 | right; exact H2].
Qed.

(* on a list il ++ gl the selector only sees gl *)
Lemma selector_app : forall il gl, Forall (fun n => In n INTENSITY) il ->
  selector_F12 (canon ALL (il ++ gl)%list) = selector_F12 gl.
Proof.
  intros il gl Hi. unfold selector_F12. f_equal. f_equal. apply filter_ext_in. intros a Ha.
  assert (In a ALL) as HA by (simpl in Ha; simpl; tauto).
  rewrite (mem_canon ALL (il ++ gl)%list a HA). unfold mem_str. rewrite existsb_app.
  fold (mem_str a il). fold (mem_str a gl).
  replace (mem_str a il) with false; [reflexivity|]. symmetry. apply mem_str_false. intro I.
  rewrite Forall_forall in Hi. specialize (Hi a I). simpl in Ha, Hi.
  repeat (destruct Ha as [Ha|Ha]; [subst; repeat (destruct Hi as [Hi|Hi]; [discriminate Hi|]); contradiction|]).
  contradiction.
Qed.

Lemma aug_from_reach : forall allowed R,
  aug_check allowed R = true ->
  (forall A n, allowed (canon ALL (n :: A)) = true -> allowed (canon ALL A) = true) ->
  forall il gl,
  Forall (fun n => In n INTENSITY) il -> Forall (fun n => In n GEOMETRIC) gl ->
  allowed (canon ALL (il ++ gl)%list) = true ->
  exists s, get_aug_config (aug_args (names_arg il) (names_arg gl)) = Ok s /\
            (forall n, In n il -> int_enabled n s = true) /\
            (forall n, In n gl -> geo_enabled n s = true) /\
            untouched s = true.
Proof.
  intros allowed R C Anti il gl Hi Hg Al. unfold aug_check in C. apply andl_true in C. destruct C as [C I0].
  assert (Forall (fun n => In n ALL) (il ++ gl)%list) as F.
  { apply Forall_app. split; eapply Forall_impl; try eassumption; intros a Ha; unfold ALL; apply in_or_app; tauto. }
  destruct (reach_sound aug_step ALL aug_inv allowed R aug_init C I0 Anti (il ++ gl)%list F Al) as [s [Fs Is]].
  exists s. rewrite aug_fold by assumption. split; [exact Fs|].
  unfold aug_inv in Is. apply andl_true in Is. destruct Is as [En Un]. rewrite forallb_forall in En.
  repeat split; [| |exact Un].
  - intros n I. assert (In n (canon ALL (il ++ gl)%list)) as Hc.
    { apply canon_In. split; [|apply in_or_app; tauto].
      rewrite Forall_forall in Hi. specialize (Hi n I). unfold ALL. apply in_or_app. tauto. }
    specialize (En n Hc). unfold aug_enabled in En.
    rewrite Forall_forall in Hi. specialize (Hi n I). apply mem_str_In in Hi. rewrite Hi in En. exact En.
  - intros n I. assert (In n (canon ALL (il ++ gl)%list)) as Hc.
    { apply canon_In. split; [|apply in_or_app; tauto].
      rewrite Forall_forall in Hg. specialize (Hg n I). unfold ALL. apply in_or_app. tauto. }
    specialize (En n Hc). unfold aug_enabled in En.
    rewrite Forall_forall in Hg. specialize (Hg n I). simpl in Hg.
    repeat (destruct Hg as [Hg|Hg]; [subst; exact En|]). contradiction.
Qed.

(* (c), strongest unconditional statement: for ALL lists (any length, any order,
   repetitions allowed) of documented names in which the geometric list does
   not name two different affine presets, get_aug_config succeeds, every named
   option is enabled, and the untouched options keep their defaults. *)
Theorem aug_lists_partial : forall il gl,
  Forall (fun n => In n INTENSITY) il -> Forall (fun n => In n GEOMETRIC) gl ->
  selector_F12 gl = false ->
  exists s, get_aug_config (aug_args (names_arg il) (names_arg gl)) = Ok s /\
            (forall n, In n il -> int_enabled n s = true) /\
            (forall n, In n gl -> geo_enabled n s = true) /\
            untouched s = true.
Proof.
  intros il gl Hi Hg Sel.
  apply (aug_from_reach allowed_partial aug_R_partial); try assumption.
  - vm_compute. reflexivity.
  - exact allowed_partial_antitone.
  - unfold allowed_partial. rewrite selector_app by assumption. rewrite Sel. reflexivity.
Qed.

(* (c), the full clause — live after a repair of F12 *)
Theorem aug_lists_full : aug_check all_true aug_R_full = true ->
  forall il gl,
  Forall (fun n => In n INTENSITY) il -> Forall (fun n => In n GEOMETRIC) gl ->
  exists s, get_aug_config (aug_args (names_arg il) (names_arg gl)) = Ok s /\
            (forall n, In n il -> int_enabled n s = true) /\
            (forall n, In n gl -> geo_enabled n s = true) /\
            untouched s = true.
Proof.
  intros B il gl Hi Hg.
  exact (aug_from_reach all_true aug_R_full B (fun _ _ _ => eq_refl) il gl Hi Hg eq_refl).
Qed.

Lemma aug_ok_b_false : forall gl, Forall (fun n => In n GEOMETRIC) gl -> aug_ok_b [] gl = false ->
  ~ (exists s, get_aug_config (aug_args (names_arg []) (names_arg gl)) = Ok s /\
               forall n, In n gl -> geo_enabled n s = true).
Proof.
  intros gl Hg B [s [E H]]. unfold aug_ok_b in B. rewrite E in B. simpl in B.
  assert (forallb (fun n => geo_enabled n s) gl = true) as T by (apply forallb_forall; exact H).
  rewrite T in B. discriminate.
Qed.

(* (c), refutation — live on the pinned tree (F12): a list of documented
   geometric names, found by the exhaustive search over ordered lists of
   distinct names up to length 4 on the GENERATED function, for which some named
   option is not enabled *)
Lemma all_geometric : forall l, forallb (fun n => mem_str n GEOMETRIC) l = true ->
  Forall (fun n => In n GEOMETRIC) l.
Proof.
  intros l F. apply Forall_forall. intros n I. apply mem_str_In.
  rewrite forallb_forall in F. apply F. exact I.
Qed.

Theorem aug_lists_refuted : aug_geo_exhaustive4_b = false ->
  exists gl, Forall (fun n => In n GEOMETRIC) gl /\ selector_F12 gl = true /\
    ~ (exists s, get_aug_config (aug_args (names_arg []) (names_arg gl)) = Ok s /\
                 forall n, In n gl -> geo_enabled n s = true).
Proof.
  intro B.
  first
    [ exfalso; vm_compute in B; discriminate B
    | exists aug_geo_cex; split; [| split];
      [ apply all_geometric; vm_compute; reflexivity
      | vm_compute; reflexivity
      | apply aug_ok_b_false; [ apply all_geometric; vm_compute; reflexivity | vm_compute; reflexivity ] ] ].
Qed.

(* a single name given as a string is the singleton list *)
Theorem aug_string_is_singleton : forall n m,
  get_aug_config (aug_args (VStr n) (VStr m)) = get_aug_config (aug_args (names_arg [n]) (names_arg [m])).
Proof. intros. reflexivity. Qed.

(* ================================================================= (a), (b) *)
(* pass-through and defaults of the three top-level builders *)

Lemma bind_assoc : forall {A B C} (m : res A) (g : A -> res B) (f : B -> res C),
  bind (bind m g) f = bind m (fun x => bind (g x) f).
Proof. intros A B C [a|e] g f; reflexivity. Qed.

Lemma mk_kw_shape : forall c kw x, mk_kw c kw [] = Ok x -> x = VObj (c_name c) (fill c kw).
Proof. unfold mk_kw. simpl. intros c kw x H. apply mk_ok_shape in H. tauto. Qed.

(* one step of symbolic execution of a generated builder under `H : body = Ok r`:
   constructor calls are replaced by the instance they return (mk_ok_shape: the
   declared fields, each holding the keyword argument or the declared default),
   anything else that may raise (sub-builders, interpreted arguments) by an
   unknown value *)
Ltac step H :=
  lazymatch type of H with
  | bind (bind _ _) _ = Ok _ => rewrite bind_assoc in H
  | bind (mk_kw ?c ?kw []) _ = Ok _ =>
      let x := fresh "o" in let E := fresh "E" in
      destruct (mk_kw c kw []) as [x|] eqn:E;
      [ apply mk_kw_shape in E; subst x; cbn [bind] in H | discriminate H ]
  | bind ?m _ = Ok _ =>
      let x := fresh "x" in
      destruct m as [x|];
      [ lazymatch type of x with
        | (_ * _)%type => destruct x
        | _ => idtac
        end; cbn [bind] in H
      | discriminate H ]
  | mk_kw ?c ?kw [] = Ok ?r => apply mk_kw_shape in H; subst r
  | Ok _ = Ok _ => inversion H; subst; clear H
  end.

(* every parameter p documented to land at path: the result holds the caller's
   value there, unmodified, for ALL argument values *)
Definition passes (b : (string -> cfg) -> res cfg) (tbl : list (string * list string)) : Prop :=
  forall a r, b a = Ok r -> forall p path, In (p, path) tbl -> get path r = Some (a p).

Fixpoint leaf_paths (c : cfg) : list (list string) :=
  match c with
  | VObj _ kv =>
      (fix go (kv : list (string * cfg)) : list (list string) :=
         match kv with
         | [] => []
         | (k, v) :: r => (map (cons k) (leaf_paths v) ++ go r)%list
         end) kv
  | _ => [[]]
  end.

Fixpoint is_prefix (p q : list string) : bool :=
  match p, q with
  | [], _ => true
  | x :: p', y :: q' => String.eqb x y &&& is_prefix p' q'
  | _, _ => false
  end.

(* the options of class c that no parameter feeds *)
Definition unfed (fed : list (list string)) (c : class_def) : list (list string) :=
  filter (fun p => negb (existsb (fun f => is_prefix f p || is_prefix p f) fed)) (leaf_paths (default_obj c)).

(* every option not fed by a parameter holds the schema default, and the result
   is a complete instance of the class *)
Definition holds_defaults (b : (string -> cfg) -> res cfg) (c : class_def) (fed : list (list string)) : Prop :=
  forall a r, b a = Ok r ->
    (exists kv, r = VObj (c_name c) kv /\ map fst kv = field_names c) /\
    forall p, In p (unfed fed c) -> get p r = get p (default_obj c).

Definition same (l : list string) : list (string * list string) := map (fun p => (p, [p])) l.
Definition under (k : string) (l : list (string * string)) : list (string * list string) :=
  map (fun e => (fst e, [k; snd e])) l.

Definition DATA_PATHS : list (string * list string) :=
  (same ["train_labels_path"; "val_labels_path"; "test_file_path"; "provider"; "user_instances_only";
         "data_pipeline_fw"; "np_chunks_path"; "litdata_chunks_path"; "use_existing_chunks"; "chunk_size";
         "delete_chunks_after_training"; "use_augmentations_train"] ++
   under "preprocessing" [("is_rgb", "is_rgb"); ("scale", "scale"); ("max_height", "max_height");
                          ("max_width", "max_width"); ("crop_hw", "crop_hw"); ("min_crop_size", "min_crop_size")])%list.
Definition DATA_PROCESSED : list (string * list string) :=
  [("intensity_aug", ["augmentation_config"]); ("geometry_aug", ["augmentation_config"])].

Definition MODEL_PATHS : list (string * list string) :=
  [("init_weight", ["init_weights"]); ("pre_trained_weights", ["pre_trained_weights"]);
   ("pretrained_backbone_weights", ["pretrained_backbone_weights"]);
   ("pretrained_head_weights", ["pretrained_head_weights"])].
Definition MODEL_PROCESSED : list (string * list string) :=
  [("backbone_config", ["backbone_config"]); ("head_configs", ["head_configs"])].

Definition TRAINER_PATHS : list (string * list string) :=
  ([("batch_size", ["train_data_loader"; "batch_size"]); ("batch_size", ["val_data_loader"; "batch_size"]);
    ("shuffle_train", ["train_data_loader"; "shuffle"]);
    ("num_workers", ["train_data_loader"; "num_workers"]); ("num_workers", ["val_data_loader"; "num_workers"]);
    ("ckpt_save_top_k", ["model_ckpt"; "save_top_k"]); ("ckpt_save_last", ["model_ckpt"; "save_last"]);
    ("trainer_num_devices", ["trainer_devices"]); ("optimizer", ["optimizer_name"]);
    ("learning_rate", ["optimizer"; "lr"]); ("amsgrad", ["optimizer"; "amsgrad"]);
    ("early_stopping", ["early_stopping"; "stop_training_on_plateau"]);
    ("early_stopping_min_delta", ["early_stopping"; "min_delta"]);
    ("early_stopping_patience", ["early_stopping"; "patience"])] ++
   same ["trainer_accelerator"; "enable_progress_bar"; "steps_per_epoch"; "max_epochs"; "seed"; "use_wandb";
         "save_ckpt"; "save_ckpt_path"; "resume_ckpt_path"] ++
   under "wandb" [("wandb_entity", "entity"); ("wandb_project", "project"); ("wandb_name", "name");
                  ("wandb_api_key", "api_key"); ("wandb_mode", "wandb_mode");
                  ("wandb_resume_prv_runid", "prv_runid"); ("wandb_group_name", "group")])%list.
Definition TRAINER_PROCESSED : list (string * list string) := [("lr_scheduler", ["lr_scheduler"])].

(* every parameter of the (regenerated) signature has a documented place *)
Definition params_tabled (params : list string) (tbl proc : list (string * list string)) : bool :=
  forallb (fun p => mem_str p (map fst tbl) || mem_str p (map fst proc)) params &&&
  forallb (fun p => mem_str p params) (map fst tbl ++ map fst proc)%list.

Theorem params_all_tabled :
  params_tabled get_data_config_params DATA_PATHS DATA_PROCESSED &&&
  params_tabled get_model_config_params MODEL_PATHS MODEL_PROCESSED &&&
  params_tabled get_trainer_config_params TRAINER_PATHS TRAINER_PROCESSED = true.
Proof. vm_compute. reflexivity. Qed.

Ltac all_paths I :=
  repeat (destruct I as [I|I]; [injection I as <- <-; reflexivity|]); contradiction.

Theorem data_pass_through : passes get_data_config DATA_PATHS.
Proof.
  intros a r H. unfold get_data_config in H. cbv zeta in H. repeat step H.
  intros p path I. cbv [DATA_PATHS same under map app fst snd] in I. all_paths I.
Qed.

Theorem model_pass_through : passes get_model_config MODEL_PATHS.
Proof.
  intros a r H. unfold get_model_config in H. cbv zeta in H. repeat step H.
  intros p path I. cbv [MODEL_PATHS] in I. all_paths I.
Qed.

Theorem trainer_pass_through : passes get_trainer_config TRAINER_PATHS.
Proof.
  intros a r H. unfold get_trainer_config in H. cbv zeta in H. repeat step H.
  intros p path I. cbv [TRAINER_PATHS same under map app fst snd] in I. all_paths I.
Qed.

Ltac all_defaults I :=
  vm_compute in I; repeat (destruct I as [I|I]; [subst; reflexivity|]); contradiction.

Ltac complete_instance :=
  eexists; split; [reflexivity | rewrite fill_keys; reflexivity].

Theorem data_defaults :
  holds_defaults get_data_config cls_DataConfig (map snd DATA_PATHS ++ map snd DATA_PROCESSED).
Proof.
  intros a r H. unfold get_data_config in H. cbv zeta in H. repeat step H.
  split; [complete_instance | intros p I; all_defaults I].
Qed.

Theorem model_defaults :
  holds_defaults get_model_config cls_ModelConfig (map snd MODEL_PATHS ++ map snd MODEL_PROCESSED).
Proof.
  intros a r H. unfold get_model_config in H. cbv zeta in H. repeat step H.
  split; [complete_instance | intros p I; all_defaults I].
Qed.

Theorem trainer_defaults :
  holds_defaults get_trainer_config cls_TrainerConfig (map snd TRAINER_PATHS ++ map snd TRAINER_PROCESSED).
Proof.
  intros a r H. unfold get_trainer_config in H. cbv zeta in H. repeat step H.
  split; [complete_instance | intros p I; all_defaults I].
Qed.

(* the statement about defaults is not vacuous: these are the unfed options *)
Example ex_unfed_options :
  unfed (map snd TRAINER_PATHS ++ map snd TRAINER_PROCESSED) cls_TrainerConfig =
    [["val_data_loader"; "shuffle"]; ["profiler"]; ["trainer_strategy"]] /\
  unfed (map snd DATA_PATHS ++ map snd DATA_PROCESSED) cls_DataConfig = [["skeletons"]] /\
  unfed (map snd MODEL_PATHS ++ map snd MODEL_PROCESSED) cls_ModelConfig = [["total_params"]].
Proof. vm_compute. repeat split. Qed.
