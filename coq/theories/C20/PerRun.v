(* PerRun.v (C20) — per-run obligations about the REGENERATED functions
   (Gen/C20_Schema.v, Gen/C20_Builders.v, rewritten from the sources of
   sleap_nn/config/*.py and sleap_nn/train.py on every check run).  The
   specifications in this file (option names, what "enabled" means, the
   documented place of every builder parameter, the documented backbone presets
   and sizes) are hand-written from the docstrings; the proofs are by
   computation / case analysis on the generated terms, so a harmless rewrite of
   the sources recomputes and a breaking one makes this file fail to compile.

   Three clauses of the property are FALSE on the pinned tree (F12, F13, F16).
   Each is stated as a pair `..._full : status_b = true -> <clause>` /
   `..._refuted : status_b = false -> exists <witness>, <negation>` over a closed
   boolean computed from the generated model, plus the strongest unconditional
   statement `..._partial`; the harness evaluates the status booleans, reports
   which member of each pair is the live one and cross-checks it against the
   implementation.  After a repair of the sources the same file compiles and the
   `_full` members become the live ones. *)
From Coq Require Import List String Ascii ZArith QArith Bool Arith Lia Lqa.
From SV Require Import C20.CfgTree C20.Lemmas Gen.C20_Schema Gen.C20_Builders C20.Eval.
Import ListNotations.
Close Scope Q_scope.
Open Scope string_scope.

(* ===================================================================== (c) *)
(* augmentation lists *)

Definition INTENSITY := ["uniform_noise"; "gaussian_noise"; "contrast"; "brightness"].
Definition GEOMETRIC := ["rotation"; "scale"; "translate"; "erase_scale"; "mixup"].
Definition AFFINE := ["rotation"; "scale"; "translate"].
Definition ALL := (INTENSITY ++ GEOMETRIC)%list.

Definition prob_pos (s : cfg) (p : list string) : bool :=
  match get p s with
  | Some v => match num_of v with Some q => qlt 0 q | None => false end
  | None => false
  end.
Definition nonzero (s : cfg) (p : list string) : bool :=
  match get p s with
  | Some v => match num_of v with Some q => negb (Qeq_bool q 0) | None => false end
  | None => false
  end.
Definition not_all_one (s : cfg) (p : list string) : bool :=
  match get p s with
  | Some (VTup l) | Some (VList l) =>
      existsb (fun x => match num_of x with Some q => negb (Qeq_bool q 1) | None => true end) l
  | _ => false
  end.

(* an intensity option is enabled iff its probability is positive *)
Definition int_enabled (n : string) (s : cfg) : bool := prob_pos s ["intensity"; n ++ "_p"].
(* a geometric option is enabled iff the transform it names is applied with
   positive probability and is not the identity ("set rotation to 0 to disable
   rotation", scale (1,1), translate 0) *)
Definition geo_enabled (n : string) (s : cfg) : bool :=
  let g := fun k => ["geometric"; k] in
  if n =? "rotation" then prob_pos s (g "affine_p") &&& nonzero s (g "rotation")
  else if n =? "scale" then prob_pos s (g "affine_p") &&& not_all_one s (g "scale")
  else if n =? "translate" then
    prob_pos s (g "affine_p") &&& (nonzero s (g "translate_width") || nonzero s (g "translate_height"))
  else if n =? "erase_scale" then prob_pos s (g "erase_p")
  else if n =? "mixup" then prob_pos s (g "mixup_p")
  else false.

Definition aug_init : cfg := default_obj cls_AugmentationConfig.

(* options that no preset is documented to change keep their schema default *)
Definition UNTOUCHED : list (list string) :=
  (map (fun k => ["intensity"; k])
      ["uniform_noise_min"; "uniform_noise_max"; "gaussian_noise_mean"; "gaussian_noise_std";
       "contrast_min"; "contrast_max"; "brightness"] ++
   map (fun k => ["geometric"; k])
      ["erase_scale_min"; "erase_scale_max"; "erase_ratio_min"; "erase_ratio_max"; "mixup_lambda"])%list.
Definition untouched (s : cfg) : bool :=
  forallb (fun p => match get p s, get p aug_init with
                    | Some a, Some b => cfg_eqb a b
                    | _, _ => false
                    end) UNTOUCHED.

Definition aug_args (ia ga : cfg) : string -> cfg :=
  env_of [("intensity_aug", ia); ("geometric_aug", ga)] get_aug_config_defaults.
Definition names_arg (l : list string) : cfg := VList (map VStr l).

(* The body of the geometric loop as a function of (the list being iterated, the
   state, the current name).  The repaired source reads the list inside the loop
   ("switch off only the affine parameters that are not named anywhere in the
   list"), so the translator lambda-lifts it with the list as an extra argument;
   the pinned source does not read it.  Both shapes are accepted here. *)
Definition geo_body : cfg -> cfg -> cfg -> res cfg :=
  ltac:(let t := type of get_aug_config__for_geometric_aug in
        lazymatch t with
        | cfg -> cfg -> cfg -> res cfg => exact get_aug_config__for_geometric_aug
        | cfg -> cfg -> res cfg => exact (fun _ : cfg => get_aug_config__for_geometric_aug)
        end).

(* one loop iteration, for the geometric list P *)
Definition int_step (s : cfg) (n : string) := get_aug_config__for_intensity_aug s (VStr n).
Definition geo_step (P : list string) (s : cfg) (n : string) := geo_body (names_arg P) s (VStr n).
Definition aug_step (P : list string) (s : cfg) (n : string) : res cfg :=
  if mem_str n INTENSITY then int_step s n else geo_step P s n.
Definition aug_enabled (n : string) (s : cfg) : bool :=
  if mem_str n INTENSITY then int_enabled n s else geo_enabled n s.
Definition aug_inv (s : cfg) (seen : list string) : bool :=
  forallb (fun n => aug_enabled n s) seen &&& untouched s.

(* selector of F12: the geometric list names two different affine presets *)
Definition selector_F12 (gl : list string) : bool :=
  Nat.leb 2 (List.length (canon AFFINE gl)).

(* The loop body depends on the list only through the affine names it contains
   (geo_body_param below), so a run on the list gl is a run of the machine
   `aug_step P` with P = canon AFFINE gl, one of the 8 sublists of AFFINE, on
   names whose affine part lies inside P. *)
Definition AFFINE_SETS : list (list string) :=
  [[]; ["rotation"]; ["scale"]; ["translate"]; ["rotation"; "scale"]; ["rotation"; "translate"];
   ["scale"; "translate"]; ["rotation"; "scale"; "translate"]].
Definition AFFINE_SMALL : list (list string) := filter (fun P => Nat.leb (List.length P) 1) AFFINE_SETS.

Definition allowed_for (P seen : list string) : bool :=
  forallb (fun a => mem_str a P) (canon AFFINE seen).

Definition aug_R (P : list string) : list st :=
  explore (aug_step P) ALL (allowed_for P) (200 * 200) [] [(aug_init, [])].

(* status of clause (c): the unbounded check (finite reachability, sound for all
   lists) and the bounded exhaustive one (all ordered lists of distinct
   geometric names up to length 4) *)
Definition aug_check (P : list string) (R : list st) : bool :=
  closed (aug_step P) ALL aug_inv (allowed_for P) R &&& st_mem (aug_init, []) R.
Definition aug_geo_full_b : bool := forallb (fun P => aug_check P (aug_R P)) AFFINE_SETS.

Definition aug_ok_b (il gl : list string) : bool :=
  match get_aug_config (aug_args (names_arg il) (names_arg gl)) with
  | Ok s => forallb (fun n => int_enabled n s) il &&& forallb (fun n => geo_enabled n s) gl
  | Err _ => false
  end.
Definition aug_geo_exhaustive4_b : bool := forallb (aug_ok_b []) (ordered_lists 4 GEOMETRIC).
Definition aug_geo_cex : list string :=
  match find (fun l => negb (aug_ok_b [] l)) (ordered_lists 4 GEOMETRIC) with Some l => l | None => [] end.

Lemma aug_unfold_gen : forall xs ys : list cfg,
  get_aug_config (aug_args (VList xs) (VList ys)) =
  bind (fold_res get_aug_config__for_intensity_aug xs aug_init)
       (fun s1 => fold_res (geo_body (VList ys)) ys s1).
Proof.
  intros xs ys.
  cbv -[fold_res get_aug_config__for_intensity_aug get_aug_config__for_geometric_aug].
  destruct (fold_res get_aug_config__for_intensity_aug xs _) as [s1|e]; [|reflexivity].
  destruct (fold_res _ ys s1) as [s2|e]; reflexivity.
Qed.
Print Assumptions aug_unfold_gen.

Lemma aug_unfold : forall il gl,
  get_aug_config (aug_args (names_arg il) (names_arg gl)) =
  bind (fold_res get_aug_config__for_intensity_aug (map VStr il) aug_init)
       (fun s1 => fold_res (geo_body (names_arg gl)) (map VStr gl) s1).
Proof. intros. apply aug_unfold_gen. Qed.
Print Assumptions aug_unfold.

Lemma contains_names : forall a l, existsb (cfg_eqb (VStr a)) (map VStr l) = mem_str a l.
Proof. intros a l. unfold mem_str. induction l as [|x r IH]; cbn [existsb map]; [reflexivity|]. rewrite IH. reflexivity. Qed.
Print Assumptions contains_names.

(* the loop body reads the list only through `"rotation" / "scale" / "translate" in list` *)
Lemma geo_body_param : forall gl s n,
  geo_body (names_arg gl) s n = geo_body (names_arg (canon AFFINE gl)) s n.
Proof.
  intros gl s n. unfold geo_body.
  first
    [ reflexivity
    | assert (forall a, In a AFFINE ->
                existsb (cfg_eqb (VStr a)) (map VStr (canon AFFINE gl)) = existsb (cfg_eqb (VStr a)) (map VStr gl)) as H
        by (intros a Ia; rewrite !contains_names; apply mem_canon; exact Ia);
      pose proof (H "rotation" (or_introl eq_refl)) as H1;
      pose proof (H "scale" (or_intror (or_introl eq_refl))) as H2;
      pose proof (H "translate" (or_intror (or_intror (or_introl eq_refl)))) as H3;
      clear H;
      unfold get_aug_config__for_geometric_aug, names_arg; cbn [py_contains];
      set (x1 := existsb (cfg_eqb (VStr "rotation")) (map VStr (canon AFFINE gl))) in *;
      set (x2 := existsb (cfg_eqb (VStr "scale")) (map VStr (canon AFFINE gl))) in *;
      set (x3 := existsb (cfg_eqb (VStr "translate")) (map VStr (canon AFFINE gl))) in *;
      clearbody x1 x2 x3; subst x1 x2 x3; reflexivity ].
Qed.
Print Assumptions geo_body_param.

Lemma fold_res_ext_in : forall {S A} (f g : S -> A -> res S) l s,
  (forall s x, In x l -> f s x = g s x) -> fold_res f l s = fold_res g l s.
Proof.
  induction l as [|x r IH]; intros s H; simpl; [reflexivity|].
  rewrite (H s x (or_introl eq_refl)). destruct (g s x); simpl; [|reflexivity].
  apply IH. intros s0 x0 I. apply H. right. exact I.
Qed.
Print Assumptions fold_res_ext_in.

Lemma aug_fold : forall il gl,
  Forall (fun n => In n INTENSITY) il -> Forall (fun n => In n GEOMETRIC) gl ->
  get_aug_config (aug_args (names_arg il) (names_arg gl)) =
  fold_names (aug_step (canon AFFINE gl)) (il ++ gl)%list aug_init.
Proof.
  intros il gl Hi Hg. rewrite aug_unfold. unfold fold_names. rewrite fold_res_app, !fold_res_map.
  rewrite (fold_res_ext_in (fun s x => get_aug_config__for_intensity_aug s (VStr x)) (aug_step (canon AFFINE gl)) il).
  - destruct (fold_res (aug_step (canon AFFINE gl)) il aug_init); simpl; [|reflexivity].
    rewrite fold_res_map. apply fold_res_ext_in. intros s x I. rewrite Forall_forall in Hg. specialize (Hg x I).
    rewrite geo_body_param.
    unfold aug_step, geo_step. simpl in Hg.
    repeat (destruct Hg as [Hg|Hg]; [subst; reflexivity|]). contradiction.
  - intros s x I. rewrite Forall_forall in Hi. specialize (Hi x I).
    unfold aug_step. simpl in Hi.
    repeat (destruct Hi as [Hi|Hi]; [subst; reflexivity|]). contradiction.
Qed.
Print Assumptions aug_fold.

Lemma allowed_for_antitone : forall P A n,
  allowed_for P (canon ALL (n :: A)) = true -> allowed_for P (canon ALL A) = true.
Proof.
  unfold allowed_for. intros P A n H. rewrite forallb_forall in *. intros a Ia. apply H.
  apply canon_In in Ia. destruct Ia as [I1 I2]. apply canon_In in I2. destruct I2 as [I2 I3].
  apply canon_In. split; [exact I1|]. apply canon_In. split; [exact I2 | right; exact I3].
Qed.
Print Assumptions allowed_for_antitone.

(* the names of il ++ gl lie inside the machine of gl's affine set *)
Lemma allowed_for_own : forall il gl, Forall (fun n => In n INTENSITY) il ->
  allowed_for (canon AFFINE gl) (canon ALL (il ++ gl)%list) = true.
Proof.
  intros il gl Hi. unfold allowed_for. apply forallb_forall. intros a Ia.
  apply canon_In in Ia. destruct Ia as [I1 I2]. apply canon_In in I2. destruct I2 as [_ I3].
  apply mem_str_In. apply canon_In. split; [exact I1|].
  apply in_app_or in I3. destruct I3 as [I3|I3]; [|exact I3]. exfalso.
  rewrite Forall_forall in Hi. specialize (Hi a I3). simpl in I1, Hi.
  repeat (destruct I1 as [I1|I1]; [subst; repeat (destruct Hi as [Hi|Hi]; [discriminate Hi|]); contradiction|]).
  contradiction.
Qed.
Print Assumptions allowed_for_own.

Lemma canon_affine_cases : forall gl, In (canon AFFINE gl) AFFINE_SETS.
Proof.
  intro gl. unfold canon, AFFINE. cbn [filter].
  destruct (mem_str "rotation" gl), (mem_str "scale" gl), (mem_str "translate" gl); simpl; tauto.
Qed.
Print Assumptions canon_affine_cases.

Lemma aug_from_reach : forall P R, aug_check P R = true ->
  forall il gl, canon AFFINE gl = P ->
  Forall (fun n => In n INTENSITY) il -> Forall (fun n => In n GEOMETRIC) gl ->
  exists s, get_aug_config (aug_args (names_arg il) (names_arg gl)) = Ok s /\
            (forall n, In n il -> int_enabled n s = true) /\
            (forall n, In n gl -> geo_enabled n s = true) /\
            untouched s = true.
Proof.
  intros P R C il gl EP Hi Hg. unfold aug_check in C. apply andl_true in C. destruct C as [C I0].
  assert (Forall (fun n => In n ALL) (il ++ gl)%list) as F.
  { apply Forall_app. split; eapply Forall_impl; try eassumption; intros a Ha; unfold ALL; apply in_or_app; tauto. }
  assert (allowed_for P (canon ALL (il ++ gl)%list) = true) as Al by (rewrite <- EP; apply allowed_for_own; exact Hi).
  destruct (reach_sound (aug_step P) ALL aug_inv (allowed_for P) R aug_init C I0 (allowed_for_antitone P)
                        (il ++ gl)%list F Al) as [s [Fs Is]].
  rewrite <- EP in Fs.
  exists s. rewrite aug_fold by assumption. split; [exact Fs|].
  unfold aug_inv in Is. apply andl_true in Is. destruct Is as [En Un]. rewrite forallb_forall in En.
  repeat split; [| |exact Un].
  - intros n I. assert (In n (canon ALL (il ++ gl)%list)) as Hc.
    { apply canon_In. split; [|apply in_or_app; tauto].
      rewrite Forall_forall in Hi. specialize (Hi n I). unfold ALL. apply in_or_app. tauto. }
    specialize (En n Hc). unfold aug_enabled in En.
    rewrite Forall_forall in Hi. specialize (Hi n I). apply mem_str_In in Hi. rewrite Hi in En. exact En.
  - intros n I. assert (In n (canon ALL (il ++ gl)%list)) as Hc.
    { apply canon_In. split; [|apply in_or_app; tauto].
      rewrite Forall_forall in Hg. specialize (Hg n I). unfold ALL. apply in_or_app. tauto. }
    specialize (En n Hc). unfold aug_enabled in En.
    rewrite Forall_forall in Hg. specialize (Hg n I). simpl in Hg.
    repeat (destruct Hg as [Hg|Hg]; [subst; exact En|]). contradiction.
Qed.
Print Assumptions aug_from_reach.

(* (c), strongest unconditional statement: for ALL lists (any length, any order,
   repetitions allowed) of documented names in which the geometric list does
   not name two different affine presets, get_aug_config succeeds, every named
   option is enabled, and the untouched options keep their defaults. *)
Theorem aug_lists_partial : forall il gl,
  Forall (fun n => In n INTENSITY) il -> Forall (fun n => In n GEOMETRIC) gl ->
  selector_F12 gl = false ->
  exists s, get_aug_config (aug_args (names_arg il) (names_arg gl)) = Ok s /\
            (forall n, In n il -> int_enabled n s = true) /\
            (forall n, In n gl -> geo_enabled n s = true) /\
            untouched s = true.
Proof.
  intros il gl Hi Hg Sel.
  assert (forallb (fun P => aug_check P (aug_R P)) AFFINE_SMALL = true) as B by (vm_compute; reflexivity).
  rewrite forallb_forall in B.
  assert (In (canon AFFINE gl) AFFINE_SMALL) as I.
  { unfold AFFINE_SMALL. apply filter_In. split; [apply canon_affine_cases|].
    unfold selector_F12 in Sel. apply Nat.leb_gt in Sel. apply Nat.leb_le. lia. }
  exact (aug_from_reach _ _ (B _ I) il gl eq_refl Hi Hg).
Qed.
Print Assumptions aug_lists_partial.

(* (c), the full clause — live after a repair of F12 *)
Theorem aug_lists_full : forallb (fun P => aug_check P (aug_R P)) AFFINE_SETS = true ->   (* = aug_geo_full_b *)
  forall il gl,
  Forall (fun n => In n INTENSITY) il -> Forall (fun n => In n GEOMETRIC) gl ->
  exists s, get_aug_config (aug_args (names_arg il) (names_arg gl)) = Ok s /\
            (forall n, In n il -> int_enabled n s = true) /\
            (forall n, In n gl -> geo_enabled n s = true) /\
            untouched s = true.
Proof.
  intros B il gl Hi Hg.
  rewrite forallb_forall in B.
  exact (aug_from_reach _ _ (B _ (canon_affine_cases gl)) il gl eq_refl Hi Hg).
Qed.
Print Assumptions aug_lists_full.

Lemma aug_ok_b_false : forall gl, Forall (fun n => In n GEOMETRIC) gl -> aug_ok_b [] gl = false ->
  ~ (exists s, get_aug_config (aug_args (names_arg []) (names_arg gl)) = Ok s /\
               forall n, In n gl -> geo_enabled n s = true).
Proof.
  intros gl Hg B [s [E H]]. unfold aug_ok_b in B. rewrite E in B. simpl in B.
  assert (forallb (fun n => geo_enabled n s) gl = true) as T by (apply forallb_forall; exact H).
  rewrite T in B. discriminate.
Qed.
Print Assumptions aug_ok_b_false.

(* (c), refutation — live on the pinned tree (F12): a list of documented
   geometric names, found by the exhaustive search over ordered lists of
   distinct names up to length 4 on the GENERATED function, for which some named
   option is not enabled *)
Lemma all_geometric : forall l, forallb (fun n => mem_str n GEOMETRIC) l = true ->
  Forall (fun n => In n GEOMETRIC) l.
Proof.
  intros l F. apply Forall_forall. intros n I. apply mem_str_In.
  rewrite forallb_forall in F. apply F. exact I.
Qed.
Print Assumptions all_geometric.

Theorem aug_lists_refuted : aug_geo_exhaustive4_b = false ->
  exists gl, Forall (fun n => In n GEOMETRIC) gl /\ selector_F12 gl = true /\
    ~ (exists s, get_aug_config (aug_args (names_arg []) (names_arg gl)) = Ok s /\
                 forall n, In n gl -> geo_enabled n s = true).
Proof.
  intro B.
  first
    [ exfalso; vm_compute in B; discriminate B
    | exists aug_geo_cex; split; [| split];
      [ apply all_geometric; vm_compute; reflexivity
      | vm_compute; reflexivity
      | apply aug_ok_b_false; [ apply all_geometric; vm_compute; reflexivity | vm_compute; reflexivity ] ] ].
Qed.
Print Assumptions aug_lists_refuted.

(* a single name given as a string is the singleton list *)
Theorem aug_string_is_singleton : forall n m,
  get_aug_config (aug_args (VStr n) (VStr m)) = get_aug_config (aug_args (names_arg [n]) (names_arg [m])).
Proof. intros. reflexivity. Qed.
Print Assumptions aug_string_is_singleton.

(* ================================================================= (a), (b) *)
(* pass-through and defaults of the three top-level builders *)

Lemma bind_assoc : forall {A B C} (m : res A) (g : A -> res B) (f : B -> res C),
  bind (bind m g) f = bind m (fun x => bind (g x) f).
Proof. intros A B C [a|e] g f; reflexivity. Qed.
Print Assumptions bind_assoc.

Lemma mk_kw_shape : forall c kw x, mk_kw c kw [] = Ok x -> x = VObj (c_name c) (fill c kw).
Proof. unfold mk_kw. simpl. intros c kw x H. apply mk_ok_shape in H. tauto. Qed.
Print Assumptions mk_kw_shape.

(* one step of symbolic execution of a generated builder under `H : body = Ok r`:
   constructor calls are replaced by the instance they return (mk_ok_shape: the
   declared fields, each holding the keyword argument or the declared default),
   anything else that may raise (sub-builders, interpreted arguments) by an
   unknown value *)
Ltac step H :=
  lazymatch type of H with
  | bind (bind _ _) _ = Ok _ => rewrite bind_assoc in H
  | bind (mk_kw ?c ?kw []) _ = Ok _ =>
      let x := fresh "o" in let E := fresh "E" in
      destruct (mk_kw c kw []) as [x|] eqn:E;
      [ apply mk_kw_shape in E; subst x; cbn [bind] in H | discriminate H ]
  | bind ?m _ = Ok _ =>
      let x := fresh "x" in
      destruct m as [x|];
      [ lazymatch type of x with
        | (_ * _)%type => destruct x
        | _ => idtac
        end; cbn [bind] in H
      | discriminate H ]
  | mk_kw ?c ?kw [] = Ok ?r => apply mk_kw_shape in H; subst r
  | Ok _ = Ok _ => inversion H; subst; clear H
  end.

(* every parameter p documented to land at path: the result holds the caller's
   value there, unmodified, for ALL argument values *)
Definition passes (b : (string -> cfg) -> res cfg) (tbl : list (string * list string)) : Prop :=
  forall a r, b a = Ok r -> forall p path, In (p, path) tbl -> get path r = Some (a p).

Fixpoint leaf_paths (c : cfg) : list (list string) :=
  match c with
  | VObj _ kv =>
      (fix go (kv : list (string * cfg)) : list (list string) :=
         match kv with
         | [] => []
         | (k, v) :: r => (map (cons k) (leaf_paths v) ++ go r)%list
         end) kv
  | _ => [[]]
  end.

Fixpoint is_prefix (p q : list string) : bool :=
  match p, q with
  | [], _ => true
  | x :: p', y :: q' => String.eqb x y &&& is_prefix p' q'
  | _, _ => false
  end.

(* the options of class c that no parameter feeds *)
Definition unfed (fed : list (list string)) (c : class_def) : list (list string) :=
  filter (fun p => negb (existsb (fun f => is_prefix f p || is_prefix p f) fed)) (leaf_paths (default_obj c)).

(* every option not fed by a parameter holds the schema default, and the result
   is a complete instance of the class *)
Definition holds_defaults (b : (string -> cfg) -> res cfg) (c : class_def) (fed : list (list string)) : Prop :=
  forall a r, b a = Ok r ->
    (exists kv, r = VObj (c_name c) kv /\ map fst kv = field_names c) /\
    forall p, In p (unfed fed c) -> get p r = get p (default_obj c).

Definition same (l : list string) : list (string * list string) := map (fun p => (p, [p])) l.
Definition under (k : string) (l : list (string * string)) : list (string * list string) :=
  map (fun e => (fst e, [k; snd e])) l.

Definition DATA_PATHS : list (string * list string) :=
  (same ["train_labels_path"; "val_labels_path"; "test_file_path"; "provider"; "user_instances_only";
         "data_pipeline_fw"; "np_chunks_path"; "litdata_chunks_path"; "use_existing_chunks"; "chunk_size";
         "delete_chunks_after_training"; "use_augmentations_train"] ++
   under "preprocessing" [("is_rgb", "is_rgb"); ("scale", "scale"); ("max_height", "max_height");
                          ("max_width", "max_width"); ("crop_hw", "crop_hw"); ("min_crop_size", "min_crop_size")])%list.
Definition DATA_PROCESSED : list (string * list string) :=
  [("intensity_aug", ["augmentation_config"]); ("geometry_aug", ["augmentation_config"])].

Definition MODEL_PATHS : list (string * list string) :=
  [("init_weight", ["init_weights"]); ("pre_trained_weights", ["pre_trained_weights"]);
   ("pretrained_backbone_weights", ["pretrained_backbone_weights"]);
   ("pretrained_head_weights", ["pretrained_head_weights"])].
Definition MODEL_PROCESSED : list (string * list string) :=
  [("backbone_config", ["backbone_config"]); ("head_configs", ["head_configs"])].

Definition TRAINER_PATHS : list (string * list string) :=
  ([("batch_size", ["train_data_loader"; "batch_size"]); ("batch_size", ["val_data_loader"; "batch_size"]);
    ("shuffle_train", ["train_data_loader"; "shuffle"]);
    ("num_workers", ["train_data_loader"; "num_workers"]); ("num_workers", ["val_data_loader"; "num_workers"]);
    ("ckpt_save_top_k", ["model_ckpt"; "save_top_k"]); ("ckpt_save_last", ["model_ckpt"; "save_last"]);
    ("trainer_num_devices", ["trainer_devices"]); ("optimizer", ["optimizer_name"]);
    ("learning_rate", ["optimizer"; "lr"]); ("amsgrad", ["optimizer"; "amsgrad"]);
    ("early_stopping", ["early_stopping"; "stop_training_on_plateau"]);
    ("early_stopping_min_delta", ["early_stopping"; "min_delta"]);
    ("early_stopping_patience", ["early_stopping"; "patience"])] ++
   same ["trainer_accelerator"; "enable_progress_bar"; "steps_per_epoch"; "max_epochs"; "seed"; "use_wandb";
         "save_ckpt"; "save_ckpt_path"; "resume_ckpt_path"] ++
   under "wandb" [("wandb_entity", "entity"); ("wandb_project", "project"); ("wandb_name", "name");
                  ("wandb_api_key", "api_key"); ("wandb_mode", "wandb_mode");
                  ("wandb_resume_prv_runid", "prv_runid"); ("wandb_group_name", "group")])%list.
Definition TRAINER_PROCESSED : list (string * list string) := [("lr_scheduler", ["lr_scheduler"])].

(* every parameter of the (regenerated) signature has a documented place *)
Definition params_tabled (params : list string) (tbl proc : list (string * list string)) : bool :=
  forallb (fun p => mem_str p (map fst tbl) || mem_str p (map fst proc)) params &&&
  forallb (fun p => mem_str p params) (map fst tbl ++ map fst proc)%list.

Theorem params_all_tabled :
  params_tabled get_data_config_params DATA_PATHS DATA_PROCESSED &&&
  params_tabled get_model_config_params MODEL_PATHS MODEL_PROCESSED &&&
  params_tabled get_trainer_config_params TRAINER_PATHS TRAINER_PROCESSED = true.
Proof. vm_compute. reflexivity. Qed.
Print Assumptions params_all_tabled.

Ltac all_paths I :=
  repeat (destruct I as [I|I]; [injection I as <- <-; reflexivity|]); contradiction.

Theorem data_pass_through : passes get_data_config DATA_PATHS.
Proof.
  intros a r H. unfold get_data_config in H. cbv zeta in H. repeat step H.
  intros p path I. cbv [DATA_PATHS same under map app fst snd] in I. all_paths I.
Qed.
Print Assumptions data_pass_through.

Theorem model_pass_through : passes get_model_config MODEL_PATHS.
Proof.
  intros a r H. unfold get_model_config in H. cbv zeta in H. repeat step H.
  intros p path I. cbv [MODEL_PATHS] in I. all_paths I.
Qed.
Print Assumptions model_pass_through.

Theorem trainer_pass_through : passes get_trainer_config TRAINER_PATHS.
Proof.
  intros a r H. unfold get_trainer_config in H. cbv zeta in H. repeat step H.
  intros p path I. cbv [TRAINER_PATHS same under map app fst snd] in I. all_paths I.
Qed.
Print Assumptions trainer_pass_through.

Ltac all_defaults I :=
  vm_compute in I; repeat (destruct I as [I|I]; [subst; reflexivity|]); contradiction.

Ltac complete_instance :=
  eexists; split; [reflexivity | rewrite fill_keys; reflexivity].

Theorem data_defaults :
  holds_defaults get_data_config cls_DataConfig (map snd DATA_PATHS ++ map snd DATA_PROCESSED).
Proof.
  intros a r H. unfold get_data_config in H. cbv zeta in H. repeat step H.
  split; [complete_instance | intros p I; all_defaults I].
Qed.
Print Assumptions data_defaults.

Theorem model_defaults :
  holds_defaults get_model_config cls_ModelConfig (map snd MODEL_PATHS ++ map snd MODEL_PROCESSED).
Proof.
  intros a r H. unfold get_model_config in H. cbv zeta in H. repeat step H.
  split; [complete_instance | intros p I; all_defaults I].
Qed.
Print Assumptions model_defaults.

Theorem trainer_defaults :
  holds_defaults get_trainer_config cls_TrainerConfig (map snd TRAINER_PATHS ++ map snd TRAINER_PROCESSED).
Proof.
  intros a r H. unfold get_trainer_config in H. cbv zeta in H. repeat step H.
  split; [complete_instance | intros p I; all_defaults I].
Qed.
Print Assumptions trainer_defaults.

(* the statement about defaults is not vacuous: there are unfed options in every section
   (membership, not equality: a new schema field that no builder argument feeds simply joins
   the list and is covered by the *_defaults theorems above) *)
Example ex_unfed_options :
  In ["profiler"] (unfed (map snd TRAINER_PATHS ++ map snd TRAINER_PROCESSED) cls_TrainerConfig) /\
  In ["skeletons"] (unfed (map snd DATA_PATHS ++ map snd DATA_PROCESSED) cls_DataConfig) /\
  In ["total_params"] (unfed (map snd MODEL_PATHS ++ map snd MODEL_PROCESSED) cls_ModelConfig).
Proof. vm_compute. repeat split; tauto. Qed.

(* =================================================== interpreted parameters *)
(* backbone_config, head_configs, lr_scheduler: option names and dicts *)

(* symbolic execution of a generated builder with evaluation (vm_compute) of
   everything concrete; constructor calls on caller-supplied keyword dicts are
   kept as hypotheses `mk cls kw = Ok o` *)
Ltac eval_ok H m :=
  let v := eval vm_compute in m in
  lazymatch v with
  | Ok _ => replace m with v in H by (vm_compute; reflexivity)
  end.

Ltac xstep H :=
  lazymatch type of H with
  | bind (bind _ _) _ = Ok _ => rewrite bind_assoc in H
  | bind (mk_kw ?c ?kw [VDict ?d]) _ = Ok _ =>
      change (mk_kw c kw [VDict d]) with (mk c (kw ++ d)%list) in H; cbn [app] in H
  | bind (mk ?c ?kw) _ = Ok _ =>
      let x := fresh "o" in let E := fresh "E" in
      destruct (mk c kw) as [x|] eqn:E; [cbn [bind] in H | discriminate H]
  | bind (mk_kw ?c ?kw []) _ = Ok _ =>
      first [ eval_ok H (mk_kw c kw []); cbn [bind] in H
            | change (mk_kw c kw []) with (mk c kw) in H ]
  | bind (if ?c then ?A else ?B) _ = Ok _ =>
      let cv := eval vm_compute in c in
      lazymatch cv with
      | true => change (if c then A else B) with A in H
      | false => change (if c then A else B) with B in H
      end
  | (if ?c then ?A else ?B) = Ok _ =>
      let cv := eval vm_compute in c in
      lazymatch cv with
      | true => change (if c then A else B) with A in H
      | false => change (if c then A else B) with B in H
      end
  | bind (py_for_items (VDict _) _ _) _ = Ok _ => cbn [py_for_items fold_break] in H
  | bind ?m _ = Ok _ => eval_ok H m; cbn [bind] in H
  | Ok _ = Ok _ => inversion H; subst; clear H
  | ?m = Ok _ => eval_ok H m
  end.

Definition FAMILIES := ["unet"; "convnext"; "swint"].
Definition PRESETS : list (string * (string * string)) :=
  [("unet", ("unet", "UNetConfig")); ("unet_medium_rf", ("unet", "UNetMediumRFConfig"));
   ("unet_large_rf", ("unet", "UNetLargeRFConfig"));
   ("convnext", ("convnext", "ConvNextConfig")); ("convnext_tiny", ("convnext", "ConvNextConfig"));
   ("convnext_small", ("convnext", "ConvNextSmallConfig")); ("convnext_base", ("convnext", "ConvNextBaseConfig"));
   ("convnext_large", ("convnext", "ConvNextLargeConfig"));
   ("swint", ("swint", "SwinTConfig")); ("swint_tiny", ("swint", "SwinTConfig"));
   ("swint_small", ("swint", "SwinTSmallConfig")); ("swint_base", ("swint", "SwinTBaseConfig"))].
Definition HEADS : list (string * string) :=
  [("single_instance", "SingleInstanceConfig"); ("centroid", "CentroidConfig");
   ("centered_instance", "CenteredInstanceConfig"); ("bottomup", "BottomUpConfig")].
Definition SCHEDULERS : list (string * string) :=
  [("step_lr", "StepLRConfig"); ("reduce_lr_on_plateau", "ReduceLROnPlateauConfig")].

Definition bb_arg (v : cfg) : string -> cfg := env_of [("backbone_cfg", v)] get_backbone_config_defaults.
Definition head_arg (v : cfg) : string -> cfg := env_of [("head_cfg", v)] get_head_configs_defaults.
Definition trainer_arg (v : cfg) : string -> cfg := env_of [("lr_scheduler", v)] get_trainer_config_defaults.

(* of the members, exactly m is set, and it holds `want` *)
Definition only_member (members : list string) (m : string) (want r : cfg) : bool :=
  forallb (fun f => match get [f] r with
                    | Some v => if f =? m then cfg_eqb v want else is_none v
                    | None => false
                    end) members.

Definition preset_ok (e : string * (string * string)) : bool :=
  match get_backbone_config (bb_arg (VStr (fst e))), find_class classes (snd (snd e)) with
  | Ok r, Some c => only_member FAMILIES (fst (snd e)) (default_obj c) r
  | _, _ => false
  end.
Definition head_ok (e : string * string) : bool :=
  match get_head_configs (head_arg (VStr (fst e))), find_class classes (snd e) with
  | Ok r, Some c => only_member (map fst HEADS) (fst e) (default_obj c) r
  | _, _ => false
  end.
Definition sched_ok (e : string * string) : bool :=
  match get_trainer_config (trainer_arg (VStr (fst e))), find_class classes (snd e) with
  | Ok r, Some c => match get ["lr_scheduler"] r with
                    | Some l => only_member (map fst SCHEDULERS) (fst e) (default_obj c) l
                    | None => false
                    end
  | _, _ => false
  end.

(* every documented option name selects its member, holding exactly the schema
   defaults of the documented class, and nothing else.  Finite domains: the 12
   backbone presets, the 4 head types, the 2 schedulers. *)
Theorem option_names_select_documented_defaults :
  forallb preset_ok PRESETS &&& forallb head_ok HEADS &&& forallb sched_ok SCHEDULERS = true.
Proof. vm_compute. reflexivity. Qed.
Print Assumptions option_names_select_documented_defaults.

(* a dict {member: kwargs} is the member's constructor applied to the caller's
   kwargs, for ALL kwargs; by mk_reflects_kwargs / mk_defaults_elsewhere every
   supplied option lands unmodified, every other one holds the schema default *)
Theorem backbone_dict : forall kw r,
  (get_backbone_config (bb_arg (VDict [("unet", VDict kw)])) = Ok r ->
   exists u, mk cls_UNetConfig kw = Ok u /\
             r = VObj "BackboneConfig" [("unet", u); ("convnext", VNone); ("swint", VNone)]) /\
  (get_backbone_config (bb_arg (VDict [("convnext", VDict kw)])) = Ok r ->
   exists u, mk cls_ConvNextConfig kw = Ok u /\
             r = VObj "BackboneConfig" [("unet", VNone); ("convnext", u); ("swint", VNone)]) /\
  (get_backbone_config (bb_arg (VDict [("swint", VDict kw)])) = Ok r ->
   exists u, mk cls_SwinTConfig kw = Ok u /\
             r = VObj "BackboneConfig" [("unet", VNone); ("convnext", VNone); ("swint", u)]).
Proof.
  intros kw r. split; [|split]; intro H; unfold get_backbone_config in H; cbv zeta in H;
    repeat xstep H; eexists; split; try eassumption; reflexivity.
Qed.
Print Assumptions backbone_dict.

Theorem head_dict : forall kw kw2 r,
  (get_head_configs (head_arg (VDict [("single_instance", VDict [("confmaps", VDict kw)])])) = Ok r ->
   exists cm, mk cls_SingleInstanceConfMapsConfig kw = Ok cm /\
     r = VObj "HeadConfig" [("single_instance", VObj "SingleInstanceConfig" [("confmaps", cm)]);
                            ("centroid", VNone); ("centered_instance", VNone); ("bottomup", VNone)]) /\
  (get_head_configs (head_arg (VDict [("centroid", VDict [("confmaps", VDict kw)])])) = Ok r ->
   exists cm, mk cls_CentroidConfMapsConfig kw = Ok cm /\
     r = VObj "HeadConfig" [("single_instance", VNone); ("centroid", VObj "CentroidConfig" [("confmaps", cm)]);
                            ("centered_instance", VNone); ("bottomup", VNone)]) /\
  (get_head_configs (head_arg (VDict [("centered_instance", VDict [("confmaps", VDict kw)])])) = Ok r ->
   exists cm, mk cls_CenteredInstanceConfMapsConfig kw = Ok cm /\
     r = VObj "HeadConfig" [("single_instance", VNone); ("centroid", VNone);
                            ("centered_instance", VObj "CenteredInstanceConfig" [("confmaps", cm)]);
                            ("bottomup", VNone)]) /\
  (get_head_configs (head_arg (VDict [("bottomup", VDict [("confmaps", VDict kw); ("pafs", VDict kw2)])])) = Ok r ->
   exists cm pf, mk cls_BottomUpConfMapsConfig kw = Ok cm /\ mk cls_PAFConfig kw2 = Ok pf /\
     r = VObj "HeadConfig" [("single_instance", VNone); ("centroid", VNone); ("centered_instance", VNone);
                            ("bottomup", VObj "BottomUpConfig" [("confmaps", cm); ("pafs", pf)])]).
Proof.
  intros kw kw2 r. split; [|split; [|split]]; intro H; unfold get_head_configs in H; cbv zeta in H;
    repeat xstep H; repeat eexists; try eassumption.
Qed.
Print Assumptions head_dict.

Theorem lr_scheduler_dict : forall kw r,
  (get_trainer_config (trainer_arg (VDict [("step_lr", VDict kw)])) = Ok r ->
   exists o, mk cls_StepLRConfig kw = Ok o /\
     get ["lr_scheduler"] r = Some (VObj "LRSchedulerConfig" [("step_lr", o); ("reduce_lr_on_plateau", VNone)])) /\
  (get_trainer_config (trainer_arg (VDict [("reduce_lr_on_plateau", VDict kw)])) = Ok r ->
   exists o, mk cls_ReduceLROnPlateauConfig kw = Ok o /\
     get ["lr_scheduler"] r = Some (VObj "LRSchedulerConfig" [("step_lr", VNone); ("reduce_lr_on_plateau", o)])).
Proof.
  intros kw r. split; intro H; unfold get_trainer_config in H; cbv zeta in H;
    repeat xstep H; eexists; split; try eassumption; reflexivity.
Qed.
Print Assumptions lr_scheduler_dict.

(* ====================================================================== (e) *)
(* validators *)

Lemma qle_true : forall a b, qle a b = true <-> (a <= b)%Q.
Proof. intros. unfold qle. apply Qle_bool_iff. Qed.
Print Assumptions qle_true.
Lemma qle_false : forall a b, qle a b = false <-> (b < a)%Q.
Proof.
  intros. unfold qle. split.
  - intro H. apply Qnot_le_lt. intro L. apply Qle_bool_iff in L. congruence.
  - intro H. destruct (Qle_bool a b) eqn:E; [|reflexivity]. apply Qle_bool_iff in E.
    exfalso. apply (Qlt_not_le _ _ H E).
Qed.
Print Assumptions qle_false.
Lemma qlt_true : forall a b, qlt a b = true <-> (a < b)%Q.
Proof. intros. unfold qlt. rewrite negb_true_iff. apply (qle_false b a). Qed.
Print Assumptions qlt_true.
Lemma qlt_false : forall a b, qlt a b = false <-> (b <= a)%Q.
Proof. intros. unfold qlt. rewrite negb_false_iff. apply (qle_true b a). Qed.
Print Assumptions qlt_false.

(* v is a real number in [0, 1] (Python: int, float or bool) *)
Definition in_unit (v : cfg) : Prop := exists q, num_of v = Some q /\ (0 <= q)%Q /\ (q <= 1)%Q.

Ltac cmp_cases :=
  repeat match goal with
         | |- context [qle ?a ?b] =>
             let E := fresh "E" in destruct (qle a b) eqn:E;
             [apply qle_true in E | apply qle_false in E]
         | |- context [qlt ?a ?b] =>
             let E := fresh "E" in destruct (qlt a b) eqn:E;
             [apply qlt_true in E | apply qlt_false in E]
         end.

Ltac unit_numeric q :=
  cmp_cases; simpl;
  (split; [ intro; first [discriminate | exists q; split; [reflexivity | split; lra]]
          | intros [q' [Eq [L1 L2]]]; simpl in Eq; injection Eq as <-; first [reflexivity | exfalso; lra] ]).

Ltac not_numeric := simpl; split; [discriminate | intros [q' [Eq _]]; discriminate Eq].

Theorem validate_proportion_spec : forall i a v, is_ok (validate_proportion i a v) = true <-> in_unit v.
Proof.
  intros i a v. unfold in_unit.
  unfold validate_proportion, py_le, py_cmp.
  destruct v as [| |b|z|q|s|l|l|kv|c kv]; try not_numeric.
  - destruct b; cbn.
    + split; [intros _|reflexivity]. exists 1%Q. split; [reflexivity|]. split; lra.
    + split; [intros _|reflexivity]. exists 0%Q. split; [reflexivity|]. split; lra.
  - cbv [py_and bind num_of negb is_ok]. unit_numeric (inject_Z z).
  - cbv [py_and bind num_of negb is_ok]. unit_numeric q.
Qed.
Print Assumptions validate_proportion_spec.

Definition PROB_FIELDS : list (string * string) :=
  [("IntensityConfig", "uniform_noise_p"); ("IntensityConfig", "gaussian_noise_p");
   ("IntensityConfig", "contrast_p"); ("IntensityConfig", "brightness_p");
   ("GeometricConfig", "affine_p"); ("GeometricConfig", "erase_p"); ("GeometricConfig", "mixup_p")].

(* the validator of every probability option accepts exactly the numbers in [0,1] *)
Theorem probability_validators : forall cn fn, In (cn, fn) PROB_FIELDS ->
  exists c f, find_class classes cn = Some c /\ find_field c fn = Some f /\
              forall inst v, f_validator f inst v = Ok tt <-> in_unit v.
Proof.
  intros cn fn I. simpl in I.
  repeat (destruct I as [I|I];
          [ injection I as <- <-; eexists; eexists; split; [reflexivity | split; [reflexivity|]];
            intros inst v; cbn [f_validator];
            match goal with |- bind (validate_proportion ?i ?a v) _ = _ <-> _ =>
              rewrite <- (validate_proportion_spec i a v); destruct (validate_proportion i a v) end;
            simpl; split; congruence
          |]).
  contradiction.
Qed.
Print Assumptions probability_validators.

(* ... so the constructors reject out-of-range probabilities *)
Theorem probabilities_out_of_range_rejected : forall cn fn c kw r v,
  In (cn, fn) PROB_FIELDS -> find_class classes cn = Some c ->
  mk c kw = Ok r -> lookup fn kw = Some v -> in_unit v.
Proof.
  intros cn fn c kw r v I C M L.
  destruct (probability_validators cn fn I) as [c' [f [C' [F V]]]].
  rewrite C in C'. injection C' as <-. apply (V r v). eapply mk_validates; eassumption.
Qed.
Print Assumptions probabilities_out_of_range_rejected.

(* --- scale ---------------------------------------------------------------- *)

Definition nonneg_float (x : cfg) : Prop := exists q, x = VFloat q /\ (0 <= q)%Q.
(* "a float >= 0 or a list of floats >= 0" *)
Definition scale_ok (v : cfg) : Prop :=
  nonneg_float v \/ exists l, v = VList l /\ Forall nonneg_float l.

Definition scale_elem (x : cfg) : res bool := py_and (Ok (py_is_float x)) (fun _ => py_ge x (VInt 0)).

Lemma scale_elem_spec : forall x, scale_elem x = Ok true <-> nonneg_float x.
Proof.
  intro x. unfold nonneg_float, scale_elem, py_ge, py_cmp.
  destruct x as [| |b|z|q|s|l|l|kv|c kv];
    try (simpl; split; [discriminate | intros [q' [Eq _]]; discriminate Eq]).
  cbv [py_and bind num_of py_is_float inject_Z]. cmp_cases; simpl.
  - split; [intros _; exists q; split; [reflexivity|exact E] | reflexivity].
  - split; [discriminate | intros [q' [Eq L]]; injection Eq as <-; exfalso; lra].
Qed.
Print Assumptions scale_elem_spec.

Theorem scale_validator_spec : forall inst v, py_getattr inst "scale" = Ok v ->
  (is_ok (PreprocessingConfig__validate_scale inst) = true <-> scale_ok v).
Proof.
  intros inst v G. unfold PreprocessingConfig__validate_scale. rewrite !G. cbn [bind].
  unfold scale_ok.
  destruct v as [| |b|z|q|s|l|l|kv|c kv];
    try (cbn; split; [discriminate | intros [[q' [Eq _]]|[l' [Eq _]]]; discriminate Eq]).
  - (* float *)
    change (py_and (Ok (py_is_float (VFloat q))) (fun _ => py_ge (VFloat q) (VInt 0))) with (scale_elem (VFloat q)).
    destruct (scale_elem (VFloat q)) as [[|]|e] eqn:E.
    + simpl. split; [intros _; left; apply scale_elem_spec; exact E | reflexivity].
    + cbn. split; [discriminate|]. intros [N|[l' [Eq _]]]; [|discriminate Eq].
      apply scale_elem_spec in N. congruence.
    + cbn. split; [discriminate|]. intros [N|[l' [Eq _]]]; [|discriminate Eq].
      apply scale_elem_spec in N. congruence.
  - (* list *)
    change (fun v_x : cfg => py_and (Ok (py_is_float v_x)) (fun _ : unit => py_ge v_x (VInt 0))) with scale_elem.
    cbn [py_is_float py_is_list py_and bind py_all].
    destruct (all_res scale_elem l) as [[|]|e] eqn:A; cbn.
    + split; [intros _|reflexivity]. right. exists l. split; [reflexivity|].
      apply all_res_true in A. eapply Forall_impl; [|exact A]. intros x Hx. apply scale_elem_spec. exact Hx.
    + split; [discriminate|]. intros [[q' [Eq _]]|[l' [Eq F]]]; [discriminate Eq|]. injection Eq as <-.
      assert (all_res scale_elem l = Ok true) as T.
      { apply all_res_true. eapply Forall_impl; [|exact F]. intros x Hx. apply scale_elem_spec. exact Hx. }
      congruence.
    + split; [discriminate|]. intros [[q' [Eq _]]|[l' [Eq F]]]; [discriminate Eq|]. injection Eq as <-.
      assert (all_res scale_elem l = Ok true) as T.
      { apply all_res_true. eapply Forall_impl; [|exact F]. intros x Hx. apply scale_elem_spec. exact Hx. }
      congruence.
Qed.
Print Assumptions scale_validator_spec.

(* ... so the constructor rejects invalid scales *)
Theorem invalid_scale_rejected : forall kw r v,
  mk cls_PreprocessingConfig kw = Ok r -> lookup "scale" kw = Some v -> scale_ok v.
Proof.
  intros kw r v M L.
  assert (exists f, find_field cls_PreprocessingConfig "scale" = Some f /\
                    forall inst x, f_validator f inst x = Ok tt -> is_ok (PreprocessingConfig__validate_scale inst) = true)
    as [f [F V]].
  { eexists. split; [reflexivity|]. intros inst x. cbn [f_validator].
    destruct (PreprocessingConfig__validate_scale inst); simpl; [reflexivity|discriminate]. }
  pose proof (mk_validates _ _ _ _ _ _ M F L) as H. apply V in H.
  apply (scale_validator_spec r v); [|exact H].
  pose proof (mk_reflects_kwargs _ _ _ _ _ M L) as G.
  destruct (mk_complete _ _ _ M) as [kv [R _]]. subst r. simpl in G. simpl.
  destruct (lookup "scale" kv); [injection G as <-; reflexivity | discriminate].
Qed.
Print Assumptions invalid_scale_rejected.

(* --- backbone sizes --------------------------------------------------------- *)

Definition SWINT_SIZES := ["tiny"; "small"; "base"].
Definition CONVNEXT_SIZES := ["tiny"; "small"; "base"; "large"].
Definition SWINT_CLASSES := [cls_SwinTConfig; cls_SwinTSmallConfig; cls_SwinTBaseConfig].
Definition CONVNEXT_CLASSES := [cls_ConvNextConfig; cls_ConvNextSmallConfig; cls_ConvNextBaseConfig; cls_ConvNextLargeConfig].

Definition known_size (sizes : list string) (v : cfg) : Prop := exists s, v = VStr s /\ In s sizes.

(* class c rejects every model_type outside `sizes` (for ALL values v) *)
Definition rejects_unknown_sizes (sizes : list string) (c : class_def) : Prop :=
  forall kw r v, mk c kw = Ok r -> lookup "model_type" kw = Some v -> known_size sizes v.

Lemma existsb_strs_spec : forall x sizes, existsb (cfg_eqb x) (map VStr sizes) = true <-> known_size sizes x.
Proof.
  intros x sizes. unfold known_size. rewrite existsb_exists. split.
  - intros [y [I E]]. apply in_map_iff in I. destruct I as [s [<- I]].
    apply cfg_eqb_eq in E. exists s. split; assumption.
  - intros [s [-> I]]. exists (VStr s). split; [apply in_map; exact I | simpl; apply String.eqb_refl].
Qed.
Print Assumptions existsb_strs_spec.

(* the model_type validator of class c, as attached in the generated schema,
   accepts only `sizes` *)
Ltac size_validator sizes :=
  eexists; split; [reflexivity|]; intros inst x; cbn [f_validator];
  lazymatch goal with
  | |- bind (?m inst x) _ = Ok tt -> _ => unfold m; cbn [py_contains bind]
  end;
  lazymatch goal with
  | |- context [py_in_strs x ?L] =>
      unfold known_size; rewrite <- (py_in_strs_spec x sizes);
      destruct (py_in_strs x L) eqn:E; simpl; (let Hx := fresh "Hx" in intro Hx; first [reflexivity | discriminate Hx])
  | |- context [existsb (cfg_eqb x) ?L] =>
      change L with (map VStr sizes); rewrite <- (existsb_strs_spec x sizes);
      destruct (existsb (cfg_eqb x) (map VStr sizes)) eqn:E; simpl; (let Hx := fresh "Hx" in intro Hx; first [reflexivity | discriminate Hx])
  end.

Ltac rejects_sizes sizes :=
  intros kw r v M L;
  lazymatch type of M with
  | mk ?c _ = _ =>
      assert (exists f, find_field c "model_type" = Some f /\
                        forall inst x, f_validator f inst x = Ok tt -> known_size sizes x) as [f [F V]]
        by (size_validator sizes);
      exact (V r v (mk_validates _ _ _ _ _ _ M F L))
  end.

Theorem swint_sizes_validated : Forall (rejects_unknown_sizes SWINT_SIZES) SWINT_CLASSES.
Proof. unfold SWINT_CLASSES. repeat (apply Forall_cons; [rejects_sizes SWINT_SIZES|]). apply Forall_nil. Qed.
Print Assumptions swint_sizes_validated.

(* status of F16: do the ConvNeXt classes reject the unknown size "huge"? *)
Definition convnext_sizes_validated_b : bool :=
  forallb (fun c => negb (is_ok (mk c [("model_type", VStr "huge")]))) CONVNEXT_CLASSES.

Theorem convnext_sizes_full : convnext_sizes_validated_b = true ->
  Forall (rejects_unknown_sizes CONVNEXT_SIZES) CONVNEXT_CLASSES.
Proof.
  intro B.
  first [ exfalso; vm_compute in B; discriminate B
        | unfold CONVNEXT_CLASSES; repeat (apply Forall_cons; [rejects_sizes CONVNEXT_SIZES|]); apply Forall_nil ].
Qed.
Print Assumptions convnext_sizes_full.

Definition convnext_cex : class_def :=
  match find (fun c => is_ok (mk c [("model_type", VStr "huge")])) CONVNEXT_CLASSES with
  | Some c => c
  | None => cls_ConvNextConfig
  end.

Theorem convnext_sizes_refuted : convnext_sizes_validated_b = false ->
  exists c, In c CONVNEXT_CLASSES /\ ~ rejects_unknown_sizes CONVNEXT_SIZES c.
Proof.
  intro B.
  first [ exfalso; vm_compute in B; discriminate B
        | exists convnext_cex; split;
          [ vm_compute; tauto
          | intro R;
            assert (exists r, mk convnext_cex [("model_type", VStr "huge")] = Ok r) as [r M]
              by (vm_compute; eexists; reflexivity);
            destruct (R _ r (VStr "huge") M eq_refl) as [s [E I]]; injection E as <-;
            simpl in I; repeat (destruct I as [I|I]; [discriminate I|]); contradiction ] ].
Qed.
Print Assumptions convnext_sizes_refuted.

(* --- oneof -------------------------------------------------------------------- *)

(* more than one backbone, or more than one head type, at once is rejected, for
   ALL keyword arguments *)
Theorem backbone_and_head_reject_two : forall c, In c [cls_BackboneConfig; cls_HeadConfig] ->
  forall kw f1 f2 v1 v2,
  In f1 (c_fields c) -> In f2 (c_fields c) -> f_name f1 <> f_name f2 ->
  lookup (f_name f1) kw = Some v1 -> lookup (f_name f2) kw = Some v2 -> v1 <> VNone -> v2 <> VNone ->
  is_ok (mk c kw) = false.
Proof.
  intros c I kw f1 f2 v1 v2. apply mk_oneof_rejects_two. simpl in I. destruct I as [<-|[<-|[]]]; reflexivity.
Qed.
Print Assumptions backbone_and_head_reject_two.

(* --- F13: the documented presets must reach the training configuration -------- *)

Definition model_arg (b h : cfg) : string -> cfg :=
  env_of [("backbone_config", b); ("head_configs", h)] get_model_config_defaults.
Definition preset_converts (p : string) : res cfg :=
  bind (get_model_config (model_arg (VStr p) (VStr "centroid"))) (to_sleap_nn_cfg classes "ModelConfig").
Definition presets_convert_b : bool := forallb (fun e => is_ok (preset_converts (fst e))) PRESETS.

Theorem presets_convert_full : presets_convert_b = true ->
  forall e, In e PRESETS -> exists c, preset_converts (fst e) = Ok c.
Proof.
  intros B e I. unfold presets_convert_b in B. rewrite forallb_forall in B. specialize (B e I).
  destruct (preset_converts (fst e)) as [c|]; [exists c; reflexivity | discriminate B].
Qed.
Print Assumptions presets_convert_full.

Definition preset_cex : string :=
  match find (fun e => negb (is_ok (preset_converts (fst e)))) PRESETS with
  | Some e => fst e
  | None => ""
  end.

Theorem presets_convert_refuted : presets_convert_b = false ->
  exists p mc, In p (map fst PRESETS) /\
    get_model_config (model_arg (VStr p) (VStr "centroid")) = Ok mc /\
    to_sleap_nn_cfg classes "ModelConfig" mc = Err ValidationError.
Proof.
  intro B.
  first [ exfalso; vm_compute in B; discriminate B
        | exists preset_cex;
          assert (exists mc, get_model_config (model_arg (VStr preset_cex) (VStr "centroid")) = Ok mc /\
                             to_sleap_nn_cfg classes "ModelConfig" mc = Err ValidationError) as [mc [G T]]
            by (vm_compute; eexists; split; reflexivity);
          exists mc; split; [vm_compute; tauto | split; assumption] ].
Qed.
Print Assumptions presets_convert_refuted.

(* unconditional part: the presets whose class is the declared field type convert *)
Theorem presets_convert_partial :
  forallb (fun p => is_ok (preset_converts p)) ["unet"; "convnext"; "convnext_tiny"; "swint"; "swint_tiny"] = true.
Proof. vm_compute. reflexivity. Qed.
Print Assumptions presets_convert_partial.

(* ================================================================ (d) on built *)

Lemma verify_schema_wf : swf verify_schema = true.
Proof. vm_compute. reflexivity. Qed.
Print Assumptions verify_schema_wf.

(* normalisation changes no value of, and is idempotent on, EVERY configuration
   that TrainingJobConfig(...).to_sleap_nn_cfg() produces, whatever the three
   sections are *)
Theorem normalise_identity_on_built : forall dc mc tc job c,
  job_of dc mc tc = Ok job -> to_sleap_nn_cfg classes "TrainingJobConfig" job = Ok c ->
  verify_training_cfg c = Ok c.
Proof.
  intros dc mc tc job c J T. unfold job_of in J.
  destruct (mk_complete _ _ _ J) as [kv [-> K]].
  unfold to_sleap_nn_cfg in T. apply bind_ok in T. destruct T as [c0 [T M]].
  destruct (has_missing c0) eqn:HM; [discriminate|]. injection M as <-.
  apply to_cfg_obj_keys in T. destruct T as [kv' [-> K']].
  unfold verify_training_cfg. rewrite K', K.
  replace (forallb (fun k => mem_str k (field_names cls_TrainingJobConfig)) (field_names cls_TrainingJobConfig))
    with true by (vm_compute; reflexivity).
  apply normalise_identity_on_complete; [exact verify_schema_wf | | exact HM].
  unfold verify_schema. apply complete_all_leaves.
  - rewrite K', K. unfold field_names. rewrite map_map. reflexivity.
  - apply Forall_forall. intros e I. apply in_map_iff in I. destruct I as [f [<- _]]. eexists. reflexivity.
Qed.
Print Assumptions normalise_identity_on_built.

Theorem normalise_idempotent_on_any : forall c c',
  verify_training_cfg c = Ok c' -> verify_training_cfg c' = Ok c'.
Proof.
  intros c c' V. unfold verify_training_cfg in *. destruct c; try discriminate.
  destruct (forallb _ _) eqn:F; [|discriminate].
  pose proof V as V0. unfold normalise in V. apply bind_ok in V. destruct V as [c1 [M N]].
  destruct (has_missing c1); [discriminate|]. injection N as <-.
  pose proof (merge_result_complete _ verify_schema_wf _ _ M) as C.
  unfold verify_schema in M. simpl in M.
  destruct (negb _) in M; [discriminate|]. apply bind_ok in M. destruct M as [kv' [_ E]]. injection E as <-.
  unfold verify_schema in C. rewrite complete_node in C. apply complete_fields_keys in C.
  assert (forallb (fun k => mem_str k (field_names cls_TrainingJobConfig)) (map fst kv') = true) as F'.
  { rewrite C, map_map. apply forallb_forall. intros k I. apply mem_str_In. exact I. }
  rewrite F'. eapply normalise_idempotent; [exact verify_schema_wf | exact V0].
Qed.
Print Assumptions normalise_idempotent_on_any.

(* every class can be default-constructed and gives the declared defaults
   (so `default_obj`, used as "the schema default" above, is what `Cls()` returns) *)
Theorem defaults_constructible :
  forallb (fun c => match mk c [] with Ok r => cfg_eqb r (default_obj c) | Err _ => false end) classes = true.
Proof. vm_compute. reflexivity. Qed.
Print Assumptions defaults_constructible.
