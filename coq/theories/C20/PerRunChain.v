(* PerRunChain.v (C20) — per-run obligations that chain the clauses: what the builders place
   in the attrs tree (PerRunPass) is found, value for value, in the training configuration
   `TrainingJobConfig(...).to_sleap_nn_cfg()` returns, and normalisation
   (`verify_training_cfg`) returns that configuration unchanged.  See PerRunAug.v for the
   conventions. *)
From Coq Require Import List String Ascii ZArith QArith Bool Arith Lia.
From SV Require Import C20.CfgTree C20.Lemmas Gen.C20_Schema Gen.C20_Builders C20.Eval.
From SV Require Import C20.PerRunBase C20.PerRunAug C20.PerRunPass C20.PerRunInterp C20.PerRunVal.
Import ListNotations.
Close Scope Q_scope.
Open Scope string_scope.

(* whatever the three sections are, provided every scalar in them sits at an option of its own
   type (`job_coercion_free`: int at a float option, tuple for list allowed — the documented argument
   types; a scalar of another type is CONVERTED by OmegaConf, see ex_mistyped_argument_is_converted):
   a value at path p of a section is found at section :: p of the training configuration (`veq`: as
   the same value in container form) *)
Definition job_coercion_free (job : cfg) : bool := coercion_free classes (TCls "TrainingJobConfig") false job.

Theorem built_values_reach_training_cfg : forall dc mc tc job c,
  job_of dc mc tc = Ok job -> to_sleap_nn_cfg classes "TrainingJobConfig" job = Ok c ->
  job_coercion_free job = true ->
  forall sec v p x, In (sec, v) [("data_config", dc); ("model_config", mc); ("trainer_config", tc)] ->
  get p v = Some x -> exists y, get (sec :: p) c = Some y /\ veq x y = true.
Proof.
  intros dc mc tc job c J T CF sec v p x I G.
  assert (get (sec :: p) job = Some x) as Gj.
  { assert (get [sec] job = Some v) as H.
    { unfold job_of in J. simpl in I.
      destruct I as [E|[E|[E|[]]]]; injection E as <- <-; apply (mk_reflects_kwargs _ _ _ _ _ J); reflexivity. }
    simpl in H |- *. destruct (fields job) as [kv|]; [|discriminate H].
    destruct (lookup sec kv) as [v'|]; [|discriminate H]. injection H as ->. exact G. }
  unfold to_sleap_nn_cfg in T. apply bind_ok in T. destruct T as [c0 [T M]].
  destruct (has_missing c0); [discriminate M|]. injection M as <-.
  exact (to_cfg_value_at _ _ _ _ _ _ _ CF T Gj).
Qed.
Print Assumptions built_values_reach_training_cfg.

(* end to end, for ALL argument values of the three builders that put every scalar at an option of
   its own type: if the training configuration is produced at all, every pass-through parameter is
   found at section.path in it (same value), and normalisation returns the configuration unchanged
   (so the same holds after verify_training_cfg, any number of times).  `verify_training_cfg c = Ok c`
   needs no typing hypothesis (normalise_identity_on_built). *)
Theorem arguments_reach_training_cfg : forall ad am at_ dc mc tc job c,
  get_data_config ad = Ok dc -> get_model_config am = Ok mc -> get_trainer_config at_ = Ok tc ->
  job_of dc mc tc = Ok job -> to_sleap_nn_cfg classes "TrainingJobConfig" job = Ok c ->
  job_coercion_free job = true ->
  verify_training_cfg c = Ok c /\
  (forall p path, In (p, path) DATA_PATHS ->
     exists y, get ("data_config" :: path) c = Some y /\ veq (ad p) y = true) /\
  (forall p path, In (p, path) MODEL_PATHS ->
     exists y, get ("model_config" :: path) c = Some y /\ veq (am p) y = true) /\
  (forall p path, In (p, path) TRAINER_PATHS ->
     exists y, get ("trainer_config" :: path) c = Some y /\ veq (at_ p) y = true).
Proof.
  intros ad am at_ dc mc tc job c D M Tr J T CF.
  split; [exact (normalise_identity_on_built dc mc tc job c J T)|].
  split; [|split]; intros p path I.
  - apply (built_values_reach_training_cfg dc mc tc job c J T CF "data_config" dc); [left; reflexivity|].
    exact (data_pass_through ad dc D p path I).
  - apply (built_values_reach_training_cfg dc mc tc job c J T CF "model_config" mc); [right; left; reflexivity|].
    exact (model_pass_through am mc M p path I).
  - apply (built_values_reach_training_cfg dc mc tc job c J T CF "trainer_config" tc); [right; right; left; reflexivity|].
    exact (trainer_pass_through at_ tc Tr p path I).
Qed.
Print Assumptions arguments_reach_training_cfg.

(* non-vacuity: the default call of the three builders does produce a training configuration, and
   its job object is coercion-free *)
Definition base_dkw := [("train_labels_path", VStr "a.slp"); ("val_labels_path", VStr "b.slp")].
Definition job_for (dkw mkw tkw : list (string * cfg)) : res cfg :=
  bind (run_builder "get_data_config" dkw) (fun dc =>
  bind (run_builder "get_model_config" mkw) (fun mc =>
  bind (run_builder "get_trainer_config" tkw) (fun tc => job_of dc mc tc))).
Example ex_chain_defaults :
  is_ok (chain base_dkw [("head_configs", VStr "centroid")] []) = true /\
  match job_for base_dkw [("head_configs", VStr "centroid")] [] with Ok j => job_coercion_free j | Err _ => false end = true /\
  match job_for (("crop_hw", VTup [VInt 160; VInt 160]) :: ("max_height", VInt 512) :: base_dkw)
                [("head_configs", VStr "bottomup"); ("backbone_config", VStr "swint_base")]
                [("learning_rate", VInt 1); ("lr_scheduler", VStr "step_lr")]
  with Ok j => job_coercion_free j | Err _ => false end = true /\
  match job_for (("provider", VInt 123) :: base_dkw) [("head_configs", VStr "centroid")] []
  with Ok j => job_coercion_free j | Err _ => true end = false.
Proof. vm_compute. repeat split. Qed.

(* the hypothesis is necessary, and this is the code's behaviour (compared on every run: stream
   "mistyped"): an argument of another scalar type than its option is stored CONVERTED.  Such
   arguments are outside the documented argument types the property quantifies over. *)
Example ex_mistyped_argument_is_converted :
  match chain (("provider", VInt 123) :: ("chunk_size", VStr "12") :: ("is_rgb", VInt 2) :: base_dkw)
              [("head_configs", VStr "centroid")] [] with
  | Ok r => match get ["cfg"; "data_config"; "provider"] r, get ["cfg"; "data_config"; "chunk_size"] r,
                  get ["cfg"; "data_config"; "preprocessing"; "is_rgb"] r, get ["norm_same"] r with
            | Some (VStr "123"), Some (VInt 12), Some (VBool true), Some (VBool true) => true
            | _, _, _, _ => false
            end
  | Err _ => false
  end = true.
Proof. vm_compute. reflexivity. Qed.

(* ----------------------------------------------------- validators at the entry points *)

(* the validators at the entry points the caller uses, for ALL argument values *)
Theorem data_config_rejects_invalid_scale : forall a r, get_data_config a = Ok r -> scale_ok (a "scale").
Proof.
  intros a r H. unfold get_data_config in H. cbv zeta in H.
  match type of H with
  | bind (mk_kw ?c ?kw []) _ = _ => destruct (mk_kw c kw []) as [o|] eqn:E; [|discriminate H]
  end.
  change (mk cls_PreprocessingConfig
            [("is_rgb", a "is_rgb"); ("max_height", a "max_height"); ("max_width", a "max_width");
             ("scale", a "scale"); ("crop_hw", a "crop_hw"); ("min_crop_size", a "min_crop_size")] = Ok o) in E.
  eapply invalid_scale_rejected; [exact E | reflexivity].
Qed.
Print Assumptions data_config_rejects_invalid_scale.

Theorem data_config_rejects_bad_probability : forall a r ikw gkw,
  get_data_config a = Ok r -> py_truthy (a "use_augmentations_train") = true ->
  a "intensity_aug" = VDict ikw -> a "geometry_aug" = VDict gkw ->
  forall fn v,
    (In ("IntensityConfig", fn) PROB_FIELDS /\ lookup fn ikw = Some v) \/
    (In ("GeometricConfig", fn) PROB_FIELDS /\ lookup fn gkw = Some v) -> in_unit v.
Proof.
  intros a r ikw gkw H T Ei Eg fn v C.
  pose proof (data_config_augmentation a r H) as D. rewrite T, Ei, Eg in D. destruct D as [g [G _]].
  destruct (aug_dict ikw gkw g G) as [i [ge [Mi [Mg _]]]].
  destruct C as [[I L]|[I L]].
  - exact (probabilities_out_of_range_rejected _ _ cls_IntensityConfig ikw i v I eq_refl Mi L).
  - exact (probabilities_out_of_range_rejected _ _ cls_GeometricConfig gkw ge v I eq_refl Mg L).
Qed.
Print Assumptions data_config_rejects_bad_probability.

(* every documented preset with every documented head type reaches the training configuration
   (finite: 12 x 4, all other arguments at their defaults); implication form (historic, see PerRunAug.v) *)
Theorem presets_and_heads_convert : presets_convert_b = true ->
  forallb (fun e => forallb (fun h =>
     is_ok (bind (get_model_config (model_arg (VStr (fst e)) (VStr (fst h)))) (to_sleap_nn_cfg classes "ModelConfig")))
     HEADS) PRESETS = true.
Proof. intro B. first [ exfalso; vm_compute in B; discriminate B | vm_compute; reflexivity ]. Qed.
Print Assumptions presets_and_heads_convert.

(* the live statement on the current tree (since fix 95397fc); genuinely finite: the 12 documented
   preset names x the 4 documented head names, other arguments at their defaults *)
Theorem presets_and_heads_convert_hold :
  forallb (fun e => forallb (fun h =>
     is_ok (bind (get_model_config (model_arg (VStr (fst e)) (VStr (fst h)))) (to_sleap_nn_cfg classes "ModelConfig")))
     HEADS) PRESETS = true.
Proof. vm_compute. reflexivity. Qed.
Print Assumptions presets_and_heads_convert_hold.

(* non-vacuity of the entry-point validator theorems: an in-range probability dict and a valid scale
   are accepted, out-of-range ones are not *)
Example ex_entry_point_validators :
  is_ok (run_builder "get_data_config" (("use_augmentations_train", VBool true) ::
           ("intensity_aug", VDict [("contrast_p", VFloat (1 # 2))]) :: ("geometry_aug", VDict [("affine_p", VInt 1)]) ::
           ("scale", VFloat (1 # 2)) :: base_dkw)) = true /\
  is_ok (run_builder "get_data_config" (("use_augmentations_train", VBool true) ::
           ("intensity_aug", VDict [("contrast_p", VFloat (3 # 2))]) :: ("geometry_aug", VDict []) :: base_dkw)) = false /\
  is_ok (run_builder "get_data_config" (("scale", VFloat (-1)) :: base_dkw)) = false.
Proof. vm_compute. repeat split. Qed.
