(* Eval.v (C20) — evaluation entry points for the correspondence harness and the
   normalisation schema, over the REGENERATED files Gen/C20_Schema.v and
   Gen/C20_Builders.v (so this file is recompiled whenever the sources of
   sleap_nn/config/*.py or sleap_nn/train.py change).  Definitions only. *)
From Coq Require Import List String ZArith QArith Bool.
From SV Require Import Base.Render C20.CfgTree Gen.C20_Schema Gen.C20_Builders.
Import ListNotations.
Open Scope string_scope.

(* verify_training_cfg, as the code runs it:
   1. `sch = TrainingJobConfig(<the keys of cfg as keywords>)`: an unknown top-level key is the
      constructor's TypeError, an absent one takes the class default;
   2. `schema = OmegaConf.structured(sch)`: every top-level VALUE meets the declared field type
      (`top_value`): a dict / list node is taken as it is (its own metadata replaces the declared
      type — so below the top level nothing is typed, validated or completed: the sections are
      LEAVES of the merge), a scalar is converted by the typed node of a str field (`name: 123`
      becomes "123") and rejected at a section;
   3. `OmegaConf.merge(schema, cfg)`: the supplied value where present (converted again by the same
      typed node, to the same result), the schema default elsewhere;
   4. `to_container(throw_on_missing=True)`.
   No attrs validator and no `oneof` check runs on a section: see PerRunVal.verify_takes_sections_verbatim. *)
Definition section_default (f : field_def) : cfg :=
  match to_cfg classes (f_ty f) (f_opt f) (f_default f) with Ok c => c | Err _ => VMissing end.

Definition verify_schema : schema :=
  SNode false false (map (fun f => (f_name f, SLeaf (section_default f))) (c_fields cls_TrainingJobConfig)).

Definition verify_training_cfg (c : cfg) : res cfg :=
  match c with
  | VDict kv =>
      if forallb (fun k => mem_str k (field_names cls_TrainingJobConfig)) (map fst kv)
      then bind (top_values classes cls_TrainingJobConfig kv) (fun kv' => normalise verify_schema (VDict kv'))
      else Err TypeError
  | _ => Err TypeError
  end.

Definition job_of (dc mc tc : cfg) : res cfg :=
  mk cls_TrainingJobConfig [("data_config", dc); ("model_config", mc); ("trainer_config", tc)].

(* builders -> TrainingJobConfig -> to_sleap_nn_cfg -> verify_training_cfg twice *)
Definition chain (dkw mkw tkw : list (string * cfg)) : res cfg :=
  bind (run_builder "get_data_config" dkw) (fun dc =>
  bind (run_builder "get_model_config" mkw) (fun mc =>
  bind (run_builder "get_trainer_config" tkw) (fun tc =>
  bind (job_of dc mc tc) (fun job =>
  bind (to_sleap_nn_cfg classes "TrainingJobConfig" job) (fun c =>
  bind (verify_training_cfg c) (fun c1 =>
  bind (verify_training_cfg c1) (fun c2 =>
  Ok (VDict [("cfg", c); ("norm_same", VBool (cfg_eqb c c1)); ("norm_idem", VBool (cfg_eqb c1 c2))])))))))).

Inductive case :=
| CBuild (name : string) (kw : list (string * cfg))       (* a builder, attrs level *)
| CMk (cls : string) (kw : list (string * cfg))           (* a class constructor *)
| CChain (dkw mkw tkw : list (string * cfg))
| CNorm (c : cfg)                                         (* verify_training_cfg on a plain container *)
| CStruct (cls : string) (obj : cfg).                     (* OmegaConf.structured(obj) *)

Definition run (c : case) : res cfg :=
  match c with
  | CBuild n kw => run_builder n kw
  | CMk n kw => match find_class classes n with Some c => mk c kw | None => Err KeyError end
  | CChain d m t => chain d m t
  | CNorm c => verify_training_cfg c
  | CStruct n obj => to_sleap_nn_cfg classes n obj
  end.

Definition rrun : res cfg -> rdr := rres rcfg.
