(* Eval.v (C20) — evaluation entry points for the correspondence harness and the
   normalisation schema, over the REGENERATED files Gen/C20_Schema.v and
   Gen/C20_Builders.v (so this file is recompiled whenever the sources of
   sleap_nn/config/*.py or sleap_nn/train.py change).  Definitions only. *)
From Coq Require Import List String ZArith QArith Bool.
From SV Require Import Base.Render C20.CfgTree Gen.C20_Schema Gen.C20_Builders.
Import ListNotations.
Open Scope string_scope.

(* The schema verify_training_cfg merges into: `TrainingJobConfig` built from the keys of cfg makes
   every top-level key a field (unknown top-level key -> TypeError, absent ->
   the class default), and below the top level the supplied DictConfig nodes are
   taken as they are (their metadata replaces the declared type), so the
   sections are leaves. *)
Definition section_default (f : field_def) : cfg :=
  match to_cfg classes (f_ty f) (f_opt f) (f_default f) with Ok c => c | Err _ => VMissing end.

Definition verify_schema : schema :=
  SNode false false (map (fun f => (f_name f, SLeaf (section_default f))) (c_fields cls_TrainingJobConfig)).

(* verify_training_cfg: `TrainingJobConfig` is first called with the top-level keys
   as keyword arguments (unknown key -> TypeError), then merge + to_container *)
Definition verify_training_cfg (c : cfg) : res cfg :=
  match c with
  | VDict kv =>
      if forallb (fun k => mem_str k (field_names cls_TrainingJobConfig)) (map fst kv)
      then normalise verify_schema c else Err TypeError
  | _ => Err TypeError
  end.

Definition job_of (dc mc tc : cfg) : res cfg :=
  mk cls_TrainingJobConfig [("data_config", dc); ("model_config", mc); ("trainer_config", tc)].

(* builders -> TrainingJobConfig -> to_sleap_nn_cfg -> verify_training_cfg twice *)
Definition chain (dkw mkw tkw : list (string * cfg)) : res cfg :=
  bind (run_builder "get_data_config" dkw) (fun dc =>
  bind (run_builder "get_model_config" mkw) (fun mc =>
  bind (run_builder "get_trainer_config" tkw) (fun tc =>
  bind (job_of dc mc tc) (fun job =>
  bind (to_sleap_nn_cfg classes "TrainingJobConfig" job) (fun c =>
  bind (verify_training_cfg c) (fun c1 =>
  bind (verify_training_cfg c1) (fun c2 =>
  Ok (VDict [("cfg", c); ("norm_same", VBool (cfg_eqb c c1)); ("norm_idem", VBool (cfg_eqb c1 c2))])))))))).

Inductive case :=
| CBuild (name : string) (kw : list (string * cfg))       (* a builder, attrs level *)
| CMk (cls : string) (kw : list (string * cfg))           (* a class constructor *)
| CChain (dkw mkw tkw : list (string * cfg))
| CNorm (c : cfg)                                         (* verify_training_cfg on a plain container *)
| CStruct (cls : string) (obj : cfg).                     (* OmegaConf.structured(obj) *)

Definition run (c : case) : res cfg :=
  match c with
  | CBuild n kw => run_builder n kw
  | CMk n kw => match find_class classes n with Some c => mk c kw | None => Err KeyError end
  | CChain d m t => chain d m t
  | CNorm c => verify_training_cfg c
  | CStruct n obj => to_sleap_nn_cfg classes n obj
  end.

Definition rrun : res cfg -> rdr := rres rcfg.
