(* PerRunPass.v (C20) — per-run obligations, clauses (a) and (b): pass-through and defaults of the three
   top-level builders.  See PerRunAug.v for the conventions. *)
From Coq Require Import List String Ascii ZArith QArith Bool Arith Lia Lqa.
From SV Require Import C20.CfgTree C20.Lemmas Gen.C20_Schema Gen.C20_Builders C20.Eval.
From SV Require Import C20.PerRunBase.
Import ListNotations.
Close Scope Q_scope.
Open Scope string_scope.

(* ================================================================= (a), (b) *)
(* pass-through and defaults of the three top-level builders *)


(* every parameter p documented to land at path: the result holds the caller's
   value there, unmodified, for ALL argument values *)
Definition passes (b : (string -> cfg) -> res cfg) (tbl : list (string * list string)) : Prop :=
  forall a r, b a = Ok r -> forall p path, In (p, path) tbl -> get path r = Some (a p).

Fixpoint leaf_paths (c : cfg) : list (list string) :=
  match c with
  | VObj _ kv =>
      (fix go (kv : list (string * cfg)) : list (list string) :=
         match kv with
         | [] => []
         | (k, v) :: r => (map (cons k) (leaf_paths v) ++ go r)%list
         end) kv
  | _ => [[]]
  end.

Fixpoint is_prefix (p q : list string) : bool :=
  match p, q with
  | [], _ => true
  | x :: p', y :: q' => String.eqb x y &&& is_prefix p' q'
  | _, _ => false
  end.

(* the options of class c that no parameter feeds *)
Definition unfed (fed : list (list string)) (c : class_def) : list (list string) :=
  filter (fun p => negb (existsb (fun f => is_prefix f p || is_prefix p f) fed)) (leaf_paths (default_obj c)).

(* every option not fed by a parameter holds the schema default, and the result
   is a complete instance of the class *)
Definition holds_defaults (b : (string -> cfg) -> res cfg) (c : class_def) (fed : list (list string)) : Prop :=
  forall a r, b a = Ok r ->
    (exists kv, r = VObj (c_name c) kv /\ map fst kv = field_names c) /\
    forall p, In p (unfed fed c) -> get p r = get p (default_obj c).

Definition same (l : list string) : list (string * list string) := map (fun p => (p, [p])) l.
Definition under (k : string) (l : list (string * string)) : list (string * list string) :=
  map (fun e => (fst e, [k; snd e])) l.

Definition DATA_PATHS : list (string * list string) :=
  (same ["train_labels_path"; "val_labels_path"; "test_file_path"; "provider"; "user_instances_only";
         "data_pipeline_fw"; "np_chunks_path"; "litdata_chunks_path"; "use_existing_chunks"; "chunk_size";
         "delete_chunks_after_training"; "use_augmentations_train"] ++
   under "preprocessing" [("is_rgb", "is_rgb"); ("scale", "scale"); ("max_height", "max_height");
                          ("max_width", "max_width"); ("crop_hw", "crop_hw"); ("min_crop_size", "min_crop_size")])%list.
Definition DATA_PROCESSED : list (string * list string) :=
  [("intensity_aug", ["augmentation_config"]); ("geometry_aug", ["augmentation_config"])].

Definition MODEL_PATHS : list (string * list string) :=
  [("init_weight", ["init_weights"]); ("pre_trained_weights", ["pre_trained_weights"]);
   ("pretrained_backbone_weights", ["pretrained_backbone_weights"]);
   ("pretrained_head_weights", ["pretrained_head_weights"])].
Definition MODEL_PROCESSED : list (string * list string) :=
  [("backbone_config", ["backbone_config"]); ("head_configs", ["head_configs"])].

Definition TRAINER_PATHS : list (string * list string) :=
  ([("batch_size", ["train_data_loader"; "batch_size"]); ("batch_size", ["val_data_loader"; "batch_size"]);
    ("shuffle_train", ["train_data_loader"; "shuffle"]);
    ("num_workers", ["train_data_loader"; "num_workers"]); ("num_workers", ["val_data_loader"; "num_workers"]);
    ("ckpt_save_top_k", ["model_ckpt"; "save_top_k"]); ("ckpt_save_last", ["model_ckpt"; "save_last"]);
    ("trainer_num_devices", ["trainer_devices"]); ("optimizer", ["optimizer_name"]);
    ("learning_rate", ["optimizer"; "lr"]); ("amsgrad", ["optimizer"; "amsgrad"]);
    ("early_stopping", ["early_stopping"; "stop_training_on_plateau"]);
    ("early_stopping_min_delta", ["early_stopping"; "min_delta"]);
    ("early_stopping_patience", ["early_stopping"; "patience"])] ++
   same ["trainer_accelerator"; "enable_progress_bar"; "steps_per_epoch"; "max_epochs"; "seed"; "use_wandb";
         "save_ckpt"; "save_ckpt_path"; "resume_ckpt_path"] ++
   under "wandb" [("wandb_entity", "entity"); ("wandb_project", "project"); ("wandb_name", "name");
                  ("wandb_api_key", "api_key"); ("wandb_mode", "wandb_mode");
                  ("wandb_resume_prv_runid", "prv_runid"); ("wandb_group_name", "group")])%list.
Definition TRAINER_PROCESSED : list (string * list string) := [("lr_scheduler", ["lr_scheduler"])].

(* every parameter of the (regenerated) signature has a documented place *)
Definition params_tabled (params : list string) (tbl proc : list (string * list string)) : bool :=
  forallb (fun p => mem_str p (map fst tbl) || mem_str p (map fst proc)) params &&&
  forallb (fun p => mem_str p params) (map fst tbl ++ map fst proc)%list.

Theorem params_all_tabled :
  params_tabled get_data_config_params DATA_PATHS DATA_PROCESSED &&&
  params_tabled get_model_config_params MODEL_PATHS MODEL_PROCESSED &&&
  params_tabled get_trainer_config_params TRAINER_PATHS TRAINER_PROCESSED = true.
Proof. vm_compute. reflexivity. Qed.
Print Assumptions params_all_tabled.

Ltac all_paths I :=
  repeat (destruct I as [I|I]; [injection I as <- <-; vm_compute; reflexivity|]); contradiction.

Theorem data_pass_through : passes get_data_config DATA_PATHS.
Proof.
  intros a r H. unfold get_data_config in H. cbv zeta in H. repeat step H.
  intros p path I. cbv [DATA_PATHS same under map app fst snd] in I. all_paths I.
Qed.
Print Assumptions data_pass_through.

Theorem model_pass_through : passes get_model_config MODEL_PATHS.
Proof.
  intros a r H. unfold get_model_config in H. cbv zeta in H. repeat step H.
  intros p path I. cbv [MODEL_PATHS] in I. all_paths I.
Qed.
Print Assumptions model_pass_through.

Theorem trainer_pass_through : passes get_trainer_config TRAINER_PATHS.
Proof.
  intros a r H. unfold get_trainer_config in H. cbv zeta in H. repeat step H.
  intros p path I. cbv [TRAINER_PATHS same under map app fst snd] in I. all_paths I.
Qed.
Print Assumptions trainer_pass_through.

Ltac all_defaults I :=
  vm_compute in I; repeat (destruct I as [I|I]; [subst; reflexivity|]); contradiction.

Ltac complete_instance :=
  eexists; split; [reflexivity | rewrite fill_keys; reflexivity].

Theorem data_defaults :
  holds_defaults get_data_config cls_DataConfig (map snd DATA_PATHS ++ map snd DATA_PROCESSED).
Proof.
  intros a r H. unfold get_data_config in H. cbv zeta in H. repeat step H.
  split; [complete_instance | intros p I; all_defaults I].
Qed.
Print Assumptions data_defaults.

Theorem model_defaults :
  holds_defaults get_model_config cls_ModelConfig (map snd MODEL_PATHS ++ map snd MODEL_PROCESSED).
Proof.
  intros a r H. unfold get_model_config in H. cbv zeta in H. repeat step H.
  split; [complete_instance | intros p I; all_defaults I].
Qed.
Print Assumptions model_defaults.

Theorem trainer_defaults :
  holds_defaults get_trainer_config cls_TrainerConfig (map snd TRAINER_PATHS ++ map snd TRAINER_PROCESSED).
Proof.
  intros a r H. unfold get_trainer_config in H. cbv zeta in H. repeat step H.
  split; [complete_instance | intros p I; all_defaults I].
Qed.
Print Assumptions trainer_defaults.

(* the statement about defaults is not vacuous: there are unfed options in every section
   (membership, not equality: a new schema field that no builder argument feeds simply joins
   the list and is covered by the *_defaults theorems above) *)
Example ex_unfed_options :
  In ["profiler"] (unfed (map snd TRAINER_PATHS ++ map snd TRAINER_PROCESSED) cls_TrainerConfig) /\
  In ["skeletons"] (unfed (map snd DATA_PATHS ++ map snd DATA_PROCESSED) cls_DataConfig) /\
  In ["total_params"] (unfed (map snd MODEL_PATHS ++ map snd MODEL_PROCESSED) cls_ModelConfig).
Proof. vm_compute. repeat split; tauto. Qed.

