(* PerRunSched.v (C20) — per-run obligations about the interpreted `lr_scheduler` parameter of
   get_trainer_config (dict, documented names, undocumented names).  See PerRunAug.v for the conventions. *)
From Coq Require Import List String Ascii ZArith QArith Bool Arith Lia Lqa.
From SV Require Import C20.CfgTree C20.Lemmas Gen.C20_Schema Gen.C20_Builders C20.Eval.
From SV Require Import C20.PerRunBase.
Import ListNotations.
Close Scope Q_scope.
Open Scope string_scope.

Theorem lr_scheduler_dict : forall kw r,
  (get_trainer_config (trainer_arg (VDict [("step_lr", VDict kw)])) = Ok r ->
   exists o, mk cls_StepLRConfig kw = Ok o /\
     get ["lr_scheduler"] r = Some (VObj "LRSchedulerConfig" [("step_lr", o); ("reduce_lr_on_plateau", VNone)])) /\
  (get_trainer_config (trainer_arg (VDict [("reduce_lr_on_plateau", VDict kw)])) = Ok r ->
   exists o, mk cls_ReduceLROnPlateauConfig kw = Ok o /\
     get ["lr_scheduler"] r = Some (VObj "LRSchedulerConfig" [("step_lr", VNone); ("reduce_lr_on_plateau", o)])).
Proof.
  intros kw r. split; intro H; unfold get_trainer_config in H; cbv zeta in H;
    repeat xstep H; eexists; split; try eassumption; reflexivity.
Qed.
Print Assumptions lr_scheduler_dict.

(* an lr_scheduler given as an undocumented string makes get_trainer_config raise, whatever
   the other arguments are *)
Theorem unknown_scheduler_name_raises : forall a s, a "lr_scheduler" = VStr s -> ~ In s (map fst SCHEDULERS) ->
  is_ok (get_trainer_config a) = false.
Proof.
  intros a s Ea H. apply not_in_all_neqb in H. simpl in H. destruct H as [E1 [E2 _]].
  unfold get_trainer_config. cbv zeta.
  repeat lazymatch goal with
         | |- is_ok (bind (bind _ _) _) = false => rewrite bind_assoc
         | |- is_ok (bind (if py_is_str (a "lr_scheduler") then _ else _) _) = false =>
             rewrite Ea; cbn [py_is_str py_eq_str]; rewrite E1, E2; reflexivity
         | |- is_ok (bind ?m _) = false => destruct m; [cbn [bind] | reflexivity]
         end.
Qed.
Print Assumptions unknown_scheduler_name_raises.

(* lr_scheduler = None: no scheduler is configured *)
Theorem no_scheduler_by_default : forall r, get_trainer_config (trainer_arg VNone) = Ok r ->
  get ["lr_scheduler"] r = Some (VObj "LRSchedulerConfig" [("step_lr", VNone); ("reduce_lr_on_plateau", VNone)]).
Proof. intros r H. vm_compute in H. injection H as <-. reflexivity. Qed.
Print Assumptions no_scheduler_by_default.

Example ex_unknown_scheduler :
  is_ok (get_trainer_config (trainer_arg (VStr "cosine"))) = false /\
  is_ok (get_trainer_config (trainer_arg (VStr "step_lr"))) = true.
Proof. vm_compute. split; reflexivity. Qed.
