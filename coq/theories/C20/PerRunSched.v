(* PerRunSched.v (C20) — per-run obligations about the interpreted `lr_scheduler` parameter of
   get_trainer_config (dict, documented names, undocumented names).  See PerRunAug.v for the conventions. *)
From Coq Require Import List String Ascii ZArith QArith Bool Arith Lia Lqa.
From SV Require Import C20.CfgTree C20.Lemmas Gen.C20_Schema Gen.C20_Builders C20.Eval.
From SV Require Import C20.PerRunBase.
Import ListNotations.
Close Scope Q_scope.
Open Scope string_scope.

Theorem lr_scheduler_dict : forall kw r,
  (get_trainer_config (trainer_arg (VDict [("step_lr", VDict kw)])) = Ok r ->
   exists o, mk cls_StepLRConfig kw = Ok o /\
     get ["lr_scheduler"] r = Some (VObj "LRSchedulerConfig" [("step_lr", o); ("reduce_lr_on_plateau", VNone)])) /\
  (get_trainer_config (trainer_arg (VDict [("reduce_lr_on_plateau", VDict kw)])) = Ok r ->
   exists o, mk cls_ReduceLROnPlateauConfig kw = Ok o /\
     get ["lr_scheduler"] r = Some (VObj "LRSchedulerConfig" [("step_lr", VNone); ("reduce_lr_on_plateau", o)])).
Proof.
  intros kw r. split; intro H; unfold get_trainer_config in H; cbv zeta in H;
    repeat xstep H; eexists; split; try eassumption; reflexivity.
Qed.
Print Assumptions lr_scheduler_dict.

(* an lr_scheduler given as an undocumented string makes get_trainer_config raise, whatever
   the other arguments are *)
Theorem unknown_scheduler_name_raises : forall a s, a "lr_scheduler" = VStr s -> ~ In s (map fst SCHEDULERS) ->
  is_ok (get_trainer_config a) = false.
Proof.
  intros a s Ea H. apply not_in_all_neqb in H. simpl in H. destruct H as [E1 [E2 _]].
  unfold get_trainer_config. cbv zeta.
  repeat lazymatch goal with
         | |- is_ok (bind (bind _ _) _) = false => rewrite bind_assoc
         | |- is_ok (bind (if py_is_str (a "lr_scheduler") then _ else _) _) = false =>
             rewrite Ea; cbn [py_is_str py_eq_str]; rewrite E1, E2; reflexivity
         | |- is_ok (bind ?m _) = false => destruct m; [cbn [bind] | reflexivity]
         end.
Qed.
Print Assumptions unknown_scheduler_name_raises.

(* lr_scheduler = None: no scheduler is configured *)
Theorem no_scheduler_by_default : forall r, get_trainer_config (trainer_arg VNone) = Ok r ->
  get ["lr_scheduler"] r = Some (VObj "LRSchedulerConfig" [("step_lr", VNone); ("reduce_lr_on_plateau", VNone)]).
Proof. intros r H. vm_compute in H. injection H as <-. reflexivity. Qed.
Print Assumptions no_scheduler_by_default.

Example ex_unknown_scheduler :
  is_ok (get_trainer_config (trainer_arg (VStr "cosine"))) = false /\
  is_ok (get_trainer_config (trainer_arg (VStr "step_lr"))) = true.
Proof. vm_compute. split; reflexivity. Qed.

(* ----------------------------------------------- the scheduler argument, for ALL other arguments *)
(* What get_trainer_config puts at `lr_scheduler` depends on the argument `lr_scheduler` alone: it is what
   the call with every other argument at its default puts there.  (Round-4 review, finding 10: the
   theorems above fix the other arguments at their defaults through `trainer_arg`.) *)
Theorem trainer_scheduler_depends_on_its_argument_only : forall a r, get_trainer_config a = Ok r ->
  exists r0, get_trainer_config (trainer_arg (a "lr_scheduler")) = Ok r0 /\
             get ["lr_scheduler"] r = get ["lr_scheduler"] r0.
Proof.
  intros a r H. unfold get_trainer_config in H. cbv zeta in H.
  step H. step H.
  match type of H with
  | bind (mk_kw cls_LRSchedulerConfig [] []) _ = _ => eval_ok H (mk_kw cls_LRSchedulerConfig [] []); cbn [bind] in H
  end.
  match type of H with
  | bind ?blk _ = Ok _ => destruct blk as [[v l]|] eqn:E; [cbn [bind] in H | discriminate H]
  end.
  repeat step H.
  unfold get_trainer_config. cbv zeta.
  change (trainer_arg (a "lr_scheduler") "lr_scheduler") with (a "lr_scheduler").
  unfold trainer_arg, env_of.
  cbn [lookup String.eqb Ascii.eqb Bool.eqb get_trainer_config_defaults].
  eexists. split.
  - repeat match goal with
    | |- bind (mk_kw ?c ?kw []) _ = _ =>
        let v := eval vm_compute in (mk_kw c kw []) in
        lazymatch v with Ok _ => replace (mk_kw c kw []) with v by (vm_compute; reflexivity); cbn [bind] end
    end.
    rewrite E. cbn [bind].
    match goal with |- ?L = Ok _ => let v := eval vm_compute in L in
      lazymatch v with Ok ?x => transitivity (Ok x); [vm_compute; reflexivity | reflexivity] end end.
  - vm_compute. reflexivity.
Qed.
Print Assumptions trainer_scheduler_depends_on_its_argument_only.

(* ... so the three theorems about the scheduler argument hold whatever the other arguments are *)
Theorem lr_scheduler_dict_any_args : forall a kw r, get_trainer_config a = Ok r ->
  (a "lr_scheduler" = VDict [("step_lr", VDict kw)] ->
   exists o, mk cls_StepLRConfig kw = Ok o /\
     get ["lr_scheduler"] r = Some (VObj "LRSchedulerConfig" [("step_lr", o); ("reduce_lr_on_plateau", VNone)])) /\
  (a "lr_scheduler" = VDict [("reduce_lr_on_plateau", VDict kw)] ->
   exists o, mk cls_ReduceLROnPlateauConfig kw = Ok o /\
     get ["lr_scheduler"] r = Some (VObj "LRSchedulerConfig" [("step_lr", VNone); ("reduce_lr_on_plateau", o)])).
Proof.
  intros a kw r H. destruct (trainer_scheduler_depends_on_its_argument_only a r H) as [r0 [H0 G]].
  split; intro E; rewrite E in H0; rewrite G.
  - exact (proj1 (lr_scheduler_dict kw r0) H0).
  - exact (proj2 (lr_scheduler_dict kw r0) H0).
Qed.
Print Assumptions lr_scheduler_dict_any_args.

Theorem scheduler_names_any_args : forall a r, get_trainer_config a = Ok r ->
  (a "lr_scheduler" = VNone ->
   get ["lr_scheduler"] r = Some (VObj "LRSchedulerConfig" [("step_lr", VNone); ("reduce_lr_on_plateau", VNone)])) /\
  (a "lr_scheduler" = VStr "step_lr" ->
   get ["lr_scheduler"] r = Some (VObj "LRSchedulerConfig" [("step_lr", default_obj cls_StepLRConfig); ("reduce_lr_on_plateau", VNone)])) /\
  (a "lr_scheduler" = VStr "reduce_lr_on_plateau" ->
   get ["lr_scheduler"] r = Some (VObj "LRSchedulerConfig" [("step_lr", VNone); ("reduce_lr_on_plateau", default_obj cls_ReduceLROnPlateauConfig)])).
Proof.
  intros a r H. destruct (trainer_scheduler_depends_on_its_argument_only a r H) as [r0 [H0 G]].
  repeat split; intro E; rewrite E in H0; rewrite G; vm_compute in H0; injection H0 as <-; vm_compute; reflexivity.
Qed.
Print Assumptions scheduler_names_any_args.
