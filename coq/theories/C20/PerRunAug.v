(* PerRunAug.v (C20) — per-run obligations about the REGENERATED functions
   (Gen/C20_Schema.v, Gen/C20_Builders.v, rewritten from the sources of
   sleap_nn/config/*.py and sleap_nn/train.py on every check run).  The
   specifications in the PerRun*.v files (option names, what "enabled" means, the
   documented place of every builder parameter, the documented backbone presets
   and sizes) are hand-written from the docstrings; the proofs are by
   computation / case analysis on the generated terms, so a harmless rewrite of
   the sources recomputes and a breaking one makes a file fail to compile.

   History and conventions.  Three clauses of the property were FALSE on the PINNED tree
   (snapshot bc2d651, before the fixes): F12 (fixed by 072f0a2), F13 (95397fc), F16 (96319fe).
   Each is stated as a pair `..._full : status_b = true -> <clause>` /
   `..._refuted : status_b = false -> exists <witness>, <negation>` over a closed
   boolean computed from the generated model, plus the strongest unconditional
   statement `..._partial`.  On the CURRENT tree (HEAD contains the three fixes) every status
   boolean is true, and the clause itself is stated UNCONDITIONALLY as `..._hold`
   (aug_lists_hold, data_config_aug_lists_hold, convnext_sizes_hold, presets_convert_hold,
   presets_and_heads_convert_hold): these are the live statements; they stop compiling if a
   defect returns (and the oracle then reports the failing input as a VIOLATION — the `fixed:`
   lines of known_findings.txt suppress nothing).  The `_refuted` / `_partial` members are about a
   variant no code implements any more: they document the historic defect, are vacuously true
   now (`status_b = false` is false), and keep the check able to name the witness of a regression. *)
From Coq Require Import List String Ascii ZArith QArith Bool Arith Lia Lqa.
From SV Require Import C20.CfgTree C20.Lemmas Gen.C20_Schema Gen.C20_Builders C20.Eval.
From SV Require Import C20.PerRunBase.
Import ListNotations.
Close Scope Q_scope.
Open Scope string_scope.

(* ===================================================================== (c) *)
(* augmentation lists *)

Definition INTENSITY := ["uniform_noise"; "gaussian_noise"; "contrast"; "brightness"].
Definition GEOMETRIC := ["rotation"; "scale"; "translate"; "erase_scale"; "mixup"].
Definition AFFINE := ["rotation"; "scale"; "translate"].
Definition ALL := (INTENSITY ++ GEOMETRIC)%list.

Definition prob_pos (s : cfg) (p : list string) : bool :=
  match get p s with
  | Some v => match num_of v with Some q => qlt 0 q | None => false end
  | None => false
  end.
Definition nonzero (s : cfg) (p : list string) : bool :=
  match get p s with
  | Some v => match num_of v with Some q => negb (Qeq_bool q 0) | None => false end
  | None => false
  end.
Definition not_all_one (s : cfg) (p : list string) : bool :=
  match get p s with
  | Some (VTup l) | Some (VList l) =>
      existsb (fun x => match num_of x with Some q => negb (Qeq_bool q 1) | None => true end) l
  | _ => false
  end.

(* an intensity option is enabled iff its probability is positive *)
Definition int_enabled (n : string) (s : cfg) : bool := prob_pos s ["intensity"; n ++ "_p"].
(* a geometric option is enabled iff the transform it names is applied with
   positive probability and is not the identity ("set rotation to 0 to disable
   rotation", scale (1,1), translate 0) *)
Definition geo_enabled (n : string) (s : cfg) : bool :=
  let g := fun k => ["geometric"; k] in
  if n =? "rotation" then prob_pos s (g "affine_p") &&& nonzero s (g "rotation")
  else if n =? "scale" then prob_pos s (g "affine_p") &&& not_all_one s (g "scale")
  else if n =? "translate" then
    prob_pos s (g "affine_p") &&& (nonzero s (g "translate_width") || nonzero s (g "translate_height"))
  else if n =? "erase_scale" then prob_pos s (g "erase_p")
  else if n =? "mixup" then prob_pos s (g "mixup_p")
  else false.

Definition aug_init : cfg := default_obj cls_AugmentationConfig.

(* options that no preset is documented to change keep their schema default *)
Definition UNTOUCHED : list (list string) :=
  (map (fun k => ["intensity"; k])
      ["uniform_noise_min"; "uniform_noise_max"; "gaussian_noise_mean"; "gaussian_noise_std";
       "contrast_min"; "contrast_max"; "brightness"] ++
   map (fun k => ["geometric"; k])
      ["erase_scale_min"; "erase_scale_max"; "erase_ratio_min"; "erase_ratio_max"; "mixup_lambda"])%list.
Definition untouched (s : cfg) : bool :=
  forallb (fun p => match get p s, get p aug_init with
                    | Some a, Some b => cfg_eqb a b
                    | _, _ => false
                    end) UNTOUCHED.


(* The body of the geometric loop as a function of (the list being iterated, the
   state, the current name).  The repaired source reads the list inside the loop
   ("switch off only the affine parameters that are not named anywhere in the
   list"), so the translator lambda-lifts it with the list as an extra argument;
   the pinned source does not read it.  Both shapes are accepted here. *)
Definition geo_body : cfg -> cfg -> cfg -> res cfg :=
  ltac:(let t := type of get_aug_config__for_geometric_aug in
        lazymatch t with
        | cfg -> cfg -> cfg -> res cfg => exact get_aug_config__for_geometric_aug
        | cfg -> cfg -> res cfg => exact (fun _ : cfg => get_aug_config__for_geometric_aug)
        end).

(* one loop iteration, for the geometric list P *)
Definition int_step (s : cfg) (n : string) := get_aug_config__for_intensity_aug s (VStr n).
Definition geo_step (P : list string) (s : cfg) (n : string) := geo_body (names_arg P) s (VStr n).
Definition aug_step (P : list string) (s : cfg) (n : string) : res cfg :=
  if mem_str n INTENSITY then int_step s n else geo_step P s n.
Definition aug_enabled (n : string) (s : cfg) : bool :=
  if mem_str n INTENSITY then int_enabled n s else geo_enabled n s.
Definition aug_inv (s : cfg) (seen : list string) : bool :=
  forallb (fun n => aug_enabled n s) seen &&& untouched s.

(* selector of F12: the geometric list names two different affine presets *)
Definition selector_F12 (gl : list string) : bool :=
  Nat.leb 2 (List.length (canon AFFINE gl)).

(* The loop body depends on the list only through the affine names it contains
   (geo_body_param below), so a run on the list gl is a run of the machine
   `aug_step P` with P = canon AFFINE gl, one of the 8 sublists of AFFINE, on
   names whose affine part lies inside P. *)
Definition AFFINE_SETS : list (list string) :=
  [[]; ["rotation"]; ["scale"]; ["translate"]; ["rotation"; "scale"]; ["rotation"; "translate"];
   ["scale"; "translate"]; ["rotation"; "scale"; "translate"]].
Definition AFFINE_SMALL : list (list string) := filter (fun P => Nat.leb (List.length P) 1) AFFINE_SETS.

Definition allowed_for (P seen : list string) : bool :=
  forallb (fun a => mem_str a P) (canon AFFINE seen).

Definition aug_R (P : list string) : list st :=
  explore (aug_step P) ALL (allowed_for P) (200 * 200) [] [(aug_init, [])].

(* status of clause (c): the unbounded check (finite reachability, sound for all
   lists) and the bounded exhaustive one (all ordered lists of distinct
   geometric names up to length 4) *)
Definition aug_check (P : list string) (R : list st) : bool :=
  closed (aug_step P) ALL aug_inv (allowed_for P) R &&& st_mem (aug_init, []) R.
Definition aug_geo_full_b : bool := forallb (fun P => aug_check P (aug_R P)) AFFINE_SETS.

Definition aug_ok_b (il gl : list string) : bool :=
  match get_aug_config (aug_args (names_arg il) (names_arg gl)) with
  | Ok s => forallb (fun n => int_enabled n s) il &&& forallb (fun n => geo_enabled n s) gl
  | Err _ => false
  end.
Definition aug_geo_exhaustive4_b : bool := forallb (aug_ok_b []) (ordered_lists 4 GEOMETRIC).
Definition aug_geo_cex : list string :=
  match find (fun l => negb (aug_ok_b [] l)) (ordered_lists 4 GEOMETRIC) with Some l => l | None => [] end.

Lemma aug_unfold_gen : forall xs ys : list cfg,
  get_aug_config (aug_args (VList xs) (VList ys)) =
  bind (fold_res get_aug_config__for_intensity_aug xs aug_init)
       (fun s1 => fold_res (geo_body (VList ys)) ys s1).
Proof.
  intros xs ys.
  cbv -[fold_res get_aug_config__for_intensity_aug get_aug_config__for_geometric_aug].
  destruct (fold_res get_aug_config__for_intensity_aug xs _) as [s1|e]; [|reflexivity].
  destruct (fold_res _ ys s1) as [s2|e]; reflexivity.
Qed.
Print Assumptions aug_unfold_gen.

Lemma aug_unfold : forall il gl,
  get_aug_config (aug_args (names_arg il) (names_arg gl)) =
  bind (fold_res get_aug_config__for_intensity_aug (map VStr il) aug_init)
       (fun s1 => fold_res (geo_body (names_arg gl)) (map VStr gl) s1).
Proof. intros. apply aug_unfold_gen. Qed.
Print Assumptions aug_unfold.

Lemma contains_names : forall a l, existsb (cfg_eqb (VStr a)) (map VStr l) = mem_str a l.
Proof. intros a l. unfold mem_str. induction l as [|x r IH]; cbn [existsb map]; [reflexivity|]. rewrite IH. reflexivity. Qed.
Print Assumptions contains_names.

(* the loop body reads the list only through `"rotation" / "scale" / "translate" in list` *)
Lemma geo_body_param : forall gl s n,
  geo_body (names_arg gl) s n = geo_body (names_arg (canon AFFINE gl)) s n.
Proof.
  intros gl s n. unfold geo_body.
  first
    [ reflexivity
    | assert (forall a, In a AFFINE ->
                existsb (cfg_eqb (VStr a)) (map VStr (canon AFFINE gl)) = existsb (cfg_eqb (VStr a)) (map VStr gl)) as H
        by (intros a Ia; rewrite !contains_names; apply mem_canon; exact Ia);
      pose proof (H "rotation" (or_introl eq_refl)) as H1;
      pose proof (H "scale" (or_intror (or_introl eq_refl))) as H2;
      pose proof (H "translate" (or_intror (or_intror (or_introl eq_refl)))) as H3;
      clear H;
      unfold get_aug_config__for_geometric_aug, names_arg; cbn [py_contains];
      set (x1 := existsb (cfg_eqb (VStr "rotation")) (map VStr (canon AFFINE gl))) in *;
      set (x2 := existsb (cfg_eqb (VStr "scale")) (map VStr (canon AFFINE gl))) in *;
      set (x3 := existsb (cfg_eqb (VStr "translate")) (map VStr (canon AFFINE gl))) in *;
      clearbody x1 x2 x3; subst x1 x2 x3; reflexivity ].
Qed.
Print Assumptions geo_body_param.

Lemma fold_res_ext_in : forall {S A} (f g : S -> A -> res S) l s,
  (forall s x, In x l -> f s x = g s x) -> fold_res f l s = fold_res g l s.
Proof.
  induction l as [|x r IH]; intros s H; simpl; [reflexivity|].
  rewrite (H s x (or_introl eq_refl)). destruct (g s x); simpl; [|reflexivity].
  apply IH. intros s0 x0 I. apply H. right. exact I.
Qed.
Print Assumptions fold_res_ext_in.

Lemma aug_fold : forall il gl,
  Forall (fun n => In n INTENSITY) il -> Forall (fun n => In n GEOMETRIC) gl ->
  get_aug_config (aug_args (names_arg il) (names_arg gl)) =
  fold_names (aug_step (canon AFFINE gl)) (il ++ gl)%list aug_init.
Proof.
  intros il gl Hi Hg. rewrite aug_unfold. unfold fold_names. rewrite fold_res_app, !fold_res_map.
  rewrite (fold_res_ext_in (fun s x => get_aug_config__for_intensity_aug s (VStr x)) (aug_step (canon AFFINE gl)) il).
  - destruct (fold_res (aug_step (canon AFFINE gl)) il aug_init); simpl; [|reflexivity].
    rewrite fold_res_map. apply fold_res_ext_in. intros s x I. rewrite Forall_forall in Hg. specialize (Hg x I).
    rewrite geo_body_param.
    unfold aug_step, geo_step. simpl in Hg.
    repeat (destruct Hg as [Hg|Hg]; [subst; reflexivity|]). contradiction.
  - intros s x I. rewrite Forall_forall in Hi. specialize (Hi x I).
    unfold aug_step. simpl in Hi.
    repeat (destruct Hi as [Hi|Hi]; [subst; reflexivity|]). contradiction.
Qed.
Print Assumptions aug_fold.

Lemma allowed_for_antitone : forall P A n,
  allowed_for P (canon ALL (n :: A)) = true -> allowed_for P (canon ALL A) = true.
Proof.
  unfold allowed_for. intros P A n H. rewrite forallb_forall in *. intros a Ia. apply H.
  apply canon_In in Ia. destruct Ia as [I1 I2]. apply canon_In in I2. destruct I2 as [I2 I3].
  apply canon_In. split; [exact I1|]. apply canon_In. split; [exact I2 | right; exact I3].
Qed.
Print Assumptions allowed_for_antitone.

(* the names of il ++ gl lie inside the machine of gl's affine set *)
Lemma allowed_for_own : forall il gl, Forall (fun n => In n INTENSITY) il ->
  allowed_for (canon AFFINE gl) (canon ALL (il ++ gl)%list) = true.
Proof.
  intros il gl Hi. unfold allowed_for. apply forallb_forall. intros a Ia.
  apply canon_In in Ia. destruct Ia as [I1 I2]. apply canon_In in I2. destruct I2 as [_ I3].
  apply mem_str_In. apply canon_In. split; [exact I1|].
  apply in_app_or in I3. destruct I3 as [I3|I3]; [|exact I3]. exfalso.
  rewrite Forall_forall in Hi. specialize (Hi a I3). simpl in I1, Hi.
  repeat (destruct I1 as [I1|I1]; [subst; repeat (destruct Hi as [Hi|Hi]; [discriminate Hi|]); contradiction|]).
  contradiction.
Qed.
Print Assumptions allowed_for_own.

Lemma canon_affine_cases : forall gl, In (canon AFFINE gl) AFFINE_SETS.
Proof.
  intro gl. unfold canon, AFFINE. cbn [filter].
  destruct (mem_str "rotation" gl), (mem_str "scale" gl), (mem_str "translate" gl); simpl; tauto.
Qed.
Print Assumptions canon_affine_cases.

Lemma aug_from_reach : forall P R, aug_check P R = true ->
  forall il gl, canon AFFINE gl = P ->
  Forall (fun n => In n INTENSITY) il -> Forall (fun n => In n GEOMETRIC) gl ->
  exists s, get_aug_config (aug_args (names_arg il) (names_arg gl)) = Ok s /\
            (forall n, In n il -> int_enabled n s = true) /\
            (forall n, In n gl -> geo_enabled n s = true) /\
            untouched s = true.
Proof.
  intros P R C il gl EP Hi Hg. unfold aug_check in C. apply andl_true in C. destruct C as [C I0].
  assert (Forall (fun n => In n ALL) (il ++ gl)%list) as F.
  { apply Forall_app. split; eapply Forall_impl; try eassumption; intros a Ha; unfold ALL; apply in_or_app; tauto. }
  assert (allowed_for P (canon ALL (il ++ gl)%list) = true) as Al by (rewrite <- EP; apply allowed_for_own; exact Hi).
  destruct (reach_sound (aug_step P) ALL aug_inv (allowed_for P) R aug_init C I0 (allowed_for_antitone P)
                        (il ++ gl)%list F Al) as [s [Fs Is]].
  rewrite <- EP in Fs.
  exists s. rewrite aug_fold by assumption. split; [exact Fs|].
  unfold aug_inv in Is. apply andl_true in Is. destruct Is as [En Un]. rewrite forallb_forall in En.
  repeat split; [| |exact Un].
  - intros n I. assert (In n (canon ALL (il ++ gl)%list)) as Hc.
    { apply canon_In. split; [|apply in_or_app; tauto].
      rewrite Forall_forall in Hi. specialize (Hi n I). unfold ALL. apply in_or_app. tauto. }
    specialize (En n Hc). unfold aug_enabled in En.
    rewrite Forall_forall in Hi. specialize (Hi n I). apply mem_str_In in Hi. rewrite Hi in En. exact En.
  - intros n I. assert (In n (canon ALL (il ++ gl)%list)) as Hc.
    { apply canon_In. split; [|apply in_or_app; tauto].
      rewrite Forall_forall in Hg. specialize (Hg n I). unfold ALL. apply in_or_app. tauto. }
    specialize (En n Hc). unfold aug_enabled in En.
    rewrite Forall_forall in Hg. specialize (Hg n I). simpl in Hg.
    repeat (destruct Hg as [Hg|Hg]; [subst; exact En|]). contradiction.
Qed.
Print Assumptions aug_from_reach.

(* (c), strongest statement that held on the pinned tree as well (before fix 072f0a2; now
   subsumed by aug_lists_hold): for ALL lists (any length, any order,
   repetitions allowed) of documented names in which the geometric list does
   not name two different affine presets, get_aug_config succeeds, every named
   option is enabled, and the untouched options keep their defaults. *)
Theorem aug_lists_partial : forall il gl,
  Forall (fun n => In n INTENSITY) il -> Forall (fun n => In n GEOMETRIC) gl ->
  selector_F12 gl = false ->
  exists s, get_aug_config (aug_args (names_arg il) (names_arg gl)) = Ok s /\
            (forall n, In n il -> int_enabled n s = true) /\
            (forall n, In n gl -> geo_enabled n s = true) /\
            untouched s = true.
Proof.
  intros il gl Hi Hg Sel.
  assert (forallb (fun P => aug_check P (aug_R P)) AFFINE_SMALL = true) as B
    by (vm_cast_no_check (eq_refl true)).     (* evaluated once, by the kernel's VM at Qed *)
  rewrite forallb_forall in B.
  assert (In (canon AFFINE gl) AFFINE_SMALL) as I.
  { unfold AFFINE_SMALL. apply filter_In. split; [apply canon_affine_cases|].
    unfold selector_F12 in Sel. apply Nat.leb_gt in Sel. apply Nat.leb_le. lia. }
  exact (aug_from_reach _ _ (B _ I) il gl eq_refl Hi Hg).
Qed.
Print Assumptions aug_lists_partial.

(* (c), the full clause as an implication from the status boolean (true on the current tree since
   fix 072f0a2; unconditional form: aug_lists_hold below) *)
Theorem aug_lists_full : forallb (fun P => aug_check P (aug_R P)) AFFINE_SETS = true ->   (* = aug_geo_full_b *)
  forall il gl,
  Forall (fun n => In n INTENSITY) il -> Forall (fun n => In n GEOMETRIC) gl ->
  exists s, get_aug_config (aug_args (names_arg il) (names_arg gl)) = Ok s /\
            (forall n, In n il -> int_enabled n s = true) /\
            (forall n, In n gl -> geo_enabled n s = true) /\
            untouched s = true.
Proof.
  intros B il gl Hi Hg.
  rewrite forallb_forall in B.
  exact (aug_from_reach _ _ (B _ (canon_affine_cases gl)) il gl eq_refl Hi Hg).
Qed.
Print Assumptions aug_lists_full.

Lemma aug_ok_b_false : forall gl, Forall (fun n => In n GEOMETRIC) gl -> aug_ok_b [] gl = false ->
  ~ (exists s, get_aug_config (aug_args (names_arg []) (names_arg gl)) = Ok s /\
               forall n, In n gl -> geo_enabled n s = true).
Proof.
  intros gl Hg B [s [E H]]. unfold aug_ok_b in B. rewrite E in B. simpl in B.
  assert (forallb (fun n => geo_enabled n s) gl = true) as T by (apply forallb_forall; exact H).
  rewrite T in B. discriminate.
Qed.
Print Assumptions aug_ok_b_false.

(* (c), refutation — was live on the pinned tree bc2d651 (F12, before fix 072f0a2); on the current
   tree its premise is false (historic; names the witness if the defect returns): a list of documented
   geometric names, found by the exhaustive search over ordered lists of
   distinct names up to length 4 on the GENERATED function, for which some named
   option is not enabled *)
Lemma all_geometric : forall l, forallb (fun n => mem_str n GEOMETRIC) l = true ->
  Forall (fun n => In n GEOMETRIC) l.
Proof.
  intros l F. apply Forall_forall. intros n I. apply mem_str_In.
  rewrite forallb_forall in F. apply F. exact I.
Qed.
Print Assumptions all_geometric.

Theorem aug_lists_refuted : aug_geo_exhaustive4_b = false ->
  exists gl, Forall (fun n => In n GEOMETRIC) gl /\ selector_F12 gl = true /\
    ~ (exists s, get_aug_config (aug_args (names_arg []) (names_arg gl)) = Ok s /\
                 forall n, In n gl -> geo_enabled n s = true).
Proof.
  intro B.
  first
    [ exfalso; vm_compute in B; discriminate B
    | exists aug_geo_cex; split; [| split];
      [ apply all_geometric; vm_compute; reflexivity
      | vm_compute; reflexivity
      | apply aug_ok_b_false; [ apply all_geometric; vm_compute; reflexivity | vm_compute; reflexivity ] ] ].
Qed.
Print Assumptions aug_lists_refuted.

(* a single name given as a string is the singleton list *)
Theorem aug_string_is_singleton : forall n m,
  get_aug_config (aug_args (VStr n) (VStr m)) = get_aug_config (aug_args (names_arg [n]) (names_arg [m])).
Proof. intros. reflexivity. Qed.
Print Assumptions aug_string_is_singleton.


(* ---------------------------------------------- unknown option names must raise *)

Lemma int_body_unknown : forall s st, ~ In s INTENSITY ->
  is_ok (get_aug_config__for_intensity_aug st (VStr s)) = false.
Proof.
  intros s st H. apply not_in_all_neqb in H. simpl in H. destruct H as [E1 [E2 [E3 [E4 _]]]].
  unfold get_aug_config__for_intensity_aug. cbn [py_eq_str]. rewrite E1, E2, E3, E4. reflexivity.
Qed.
Print Assumptions int_body_unknown.

Lemma geo_body_unknown : forall L s st, ~ In s GEOMETRIC -> is_ok (geo_body L st (VStr s)) = false.
Proof.
  intros L s st H. apply not_in_all_neqb in H. simpl in H. destruct H as [E1 [E2 [E3 [E4 [E5 _]]]]].
  unfold geo_body, get_aug_config__for_geometric_aug. cbn [py_eq_str]. rewrite E1, E2, E3, E4, E5. reflexivity.
Qed.
Print Assumptions geo_body_unknown.

(* a list (any length, any position) naming an option that is not documented makes
   get_aug_config raise; a single string is the singleton list *)
Theorem unknown_aug_names_raise : forall xs ys s,
  (In (VStr s) xs /\ ~ In s INTENSITY) \/ (In (VStr s) ys /\ ~ In s GEOMETRIC) ->
  is_ok (get_aug_config (aug_args (VList xs) (VList ys))) = false.
Proof.
  intros xs ys s H. rewrite aug_unfold_gen. destruct H as [[I N]|[I N]].
  - pose proof (fold_res_raises get_aug_config__for_intensity_aug (VStr s) xs aug_init
                  (fun st => int_body_unknown s st N) I) as F.
    destruct (fold_res get_aug_config__for_intensity_aug xs aug_init); [discriminate F | reflexivity].
  - destruct (fold_res get_aug_config__for_intensity_aug xs aug_init) as [s1|]; [|reflexivity]. cbn [bind].
    exact (fold_res_raises (geo_body (VList ys)) (VStr s) ys s1 (fun st => geo_body_unknown _ s st N) I).
Qed.
Print Assumptions unknown_aug_names_raise.

Theorem unknown_aug_string_raises : forall s other,
  (~ In s INTENSITY -> is_ok (get_aug_config (aug_args (VStr s) (VList other))) = false) /\
  (~ In s GEOMETRIC -> is_ok (get_aug_config (aug_args (VList other) (VStr s))) = false).
Proof.
  intros s other. split; intro N.
  - change (get_aug_config (aug_args (VStr s) (VList other))) with (get_aug_config (aug_args (VList [VStr s]) (VList other))).
    apply (unknown_aug_names_raise _ _ s). left. split; [left; reflexivity | exact N].
  - change (get_aug_config (aug_args (VList other) (VStr s))) with (get_aug_config (aug_args (VList other) (VList [VStr s]))).
    apply (unknown_aug_names_raise _ _ s). right. split; [left; reflexivity | exact N].
Qed.
Print Assumptions unknown_aug_string_raises.
Example ex_unknown_aug : is_ok (get_aug_config (aug_args (names_arg ["contrast"; "foo"]) VNone)) = false /\
                         is_ok (get_aug_config (aug_args (names_arg ["contrast"]) (VStr "mixup"))) = true.
Proof. vm_compute. split; reflexivity. Qed.

(* ------------------------------ the data builder interprets its augmentation arguments *)

(* get_data_config: with use_augmentations_train falsy the augmentation arguments are
   ignored and augmentation_config is None; otherwise augmentation_config is exactly what
   get_aug_config returns on (intensity_aug, geometry_aug) — so get_data_config raises
   whenever get_aug_config does — for ALL argument values *)
Theorem data_config_augmentation : forall a r, get_data_config a = Ok r ->
  if py_truthy (a "use_augmentations_train")
  then exists g, get_aug_config (aug_args (a "intensity_aug") (a "geometry_aug")) = Ok g /\
                 get ["augmentation_config"] r = Some g
  else get ["augmentation_config"] r = Some VNone.
Proof.
  intros a r H. unfold get_data_config in H. cbv zeta in H. step H.
  fold (aug_args (a "intensity_aug") (a "geometry_aug")) in H.
  destruct (py_truthy (a "use_augmentations_train")).
  - destruct (get_aug_config (aug_args (a "intensity_aug") (a "geometry_aug"))) as [g|]; [|discriminate H].
    cbn [bind] in H. step H. exists g. split; reflexivity.
  - cbn [bind] in H. step H. reflexivity.
Qed.
Print Assumptions data_config_augmentation.

(* clause (c) at the entry point the caller uses: with augmentation switched on and lists of
   documented names, every named option is enabled in the data configuration *)
Theorem data_config_aug_lists_full : forallb (fun P => aug_check P (aug_R P)) AFFINE_SETS = true ->
  forall a r il gl, get_data_config a = Ok r ->
  py_truthy (a "use_augmentations_train") = true ->
  a "intensity_aug" = names_arg il -> a "geometry_aug" = names_arg gl ->
  Forall (fun n => In n INTENSITY) il -> Forall (fun n => In n GEOMETRIC) gl ->
  exists s, get ["augmentation_config"] r = Some s /\
            (forall n, In n il -> int_enabled n s = true) /\
            (forall n, In n gl -> geo_enabled n s = true) /\
            untouched s = true.
Proof.
  intros B a r il gl H T Ei Eg Hi Hg. pose proof (data_config_augmentation a r H) as D.
  rewrite T, Ei, Eg in D. destruct D as [g [G P]].
  destruct (aug_lists_full B il gl Hi Hg) as [s [Gs Rest]]. rewrite Gs in G. injection G as <-.
  exists s. split; [exact P | exact Rest].
Qed.
Print Assumptions data_config_aug_lists_full.

(* ------------------------------------------------------- the live statements of clause (c) *)
(* Unconditional, on the current tree (since fix 072f0a2): for ALL lists of documented names — any
   length, any order, repetitions allowed — every named option is enabled.  The status boolean is
   evaluated by the kernel's VM at Qed; if the defect returns this stops compiling. *)
Theorem aug_lists_hold : forall il gl,
  Forall (fun n => In n INTENSITY) il -> Forall (fun n => In n GEOMETRIC) gl ->
  exists s, get_aug_config (aug_args (names_arg il) (names_arg gl)) = Ok s /\
            (forall n, In n il -> int_enabled n s = true) /\
            (forall n, In n gl -> geo_enabled n s = true) /\
            untouched s = true.
Proof.
  assert (forallb (fun P => aug_check P (aug_R P)) AFFINE_SETS = true) as B
    by (vm_cast_no_check (eq_refl true)).
  exact (aug_lists_full B).
Qed.
Print Assumptions aug_lists_hold.

Theorem data_config_aug_lists_hold : forall a r il gl, get_data_config a = Ok r ->
  py_truthy (a "use_augmentations_train") = true ->
  a "intensity_aug" = names_arg il -> a "geometry_aug" = names_arg gl ->
  Forall (fun n => In n INTENSITY) il -> Forall (fun n => In n GEOMETRIC) gl ->
  exists s, get ["augmentation_config"] r = Some s /\
            (forall n, In n il -> int_enabled n s = true) /\
            (forall n, In n gl -> geo_enabled n s = true) /\
            untouched s = true.
Proof.
  intros a r il gl H T Ei Eg Hi Hg. pose proof (data_config_augmentation a r H) as D.
  rewrite T, Ei, Eg in D. destruct D as [g [G P]].
  destruct (aug_lists_hold il gl Hi Hg) as [s [Gs Rest]]. rewrite Gs in G. injection G as <-.
  exists s. split; [exact P | exact Rest].
Qed.
Print Assumptions data_config_aug_lists_hold.

(* non-vacuity: the list that was the F12 witness, in both orders *)
Example ex_aug_lists_hold :
  aug_ok_b ["contrast"] ["rotation"; "scale"] = true /\ aug_ok_b [] ["scale"; "rotation"; "translate"; "mixup"] = true.
Proof. vm_compute. split; reflexivity. Qed.
