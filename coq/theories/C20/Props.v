(* Props.v (C20) — statements only, of the once-and-for-all theorems about the
   generic configuration model C20/CfgTree.v (proofs: C20/Lemmas.v).  They
   hold for EVERY class table, schema and configuration tree — nothing here
   depends on the generated files; the theorems about the regenerated schema
   and builders are in C20/PerRun.v and are re-proved on every run.

   cfg        a configuration / Python value as a finite tree of scalars
   mk c kw    the attrs constructor of class c called with keyword arguments kw
   merge s c  OmegaConf's structured merge of cfg c into schema s
   normalise  merge followed by to_container(throw_on_missing=True) *)
From Coq Require Import List String ZArith QArith Bool Arith.
From SV Require Import C20.CfgTree C20.Lemmas.
Import ListNotations.
Close Scope Q_scope.
Open Scope string_scope.

(* --- non-vacuity / smoke ------------------------------------------------------ *)
Definition ex_schema : schema :=
  SNode false false [("a", SLeaf (VInt 1)); ("b", SNode true true [("x", SLeaf (VStr "d"))])].
Example ex_merge_fills_and_keeps :
  swf ex_schema = true /\
  merge ex_schema (VDict [("b", VDict []); ("a", VInt 7)]) =
    Ok (VDict [("a", VInt 7); ("b", VDict [("x", VStr "d")])]) /\
  merge ex_schema (VDict []) = Ok (VDict [("a", VInt 1); ("b", VNone)]) /\
  merge ex_schema (VDict [("c", VInt 0)]) = Err ConfigKeyError /\
  complete ex_schema (VDict [("a", VInt 7); ("b", VNone)]) = true.
Proof. repeat split. Qed.

(* --- (d) structured merge ------------------------------------------------------- *)
(* Facts about the model's `merge`, for every (also nested) schema.  The only schema the code's
   verify_training_cfg instantiates — and the only one compared with the code — is the FLAT
   Eval.verify_schema (top-level fields, every one a leaf): below the top level the code neither
   completes nor rejects anything ("the result is complete" holds at depth 1 only; a plain YAML
   without data_config.provider stays without it).  Typed top-level scalars are handled before the
   merge (CfgTree.top_value, Eval.verify_training_cfg). *)

(* merge is idempotent *)
Theorem c20_merge_idempotent : forall s, swf s = true ->
  forall c c', merge s c = Ok c' -> merge s c' = Ok c'.
Proof. exact merge_idempotent. Qed.
Print Assumptions c20_merge_idempotent.

(* merge is the identity on complete configurations *)
Theorem c20_merge_identity_on_complete : forall s, swf s = true ->
  forall c, complete s c = true -> merge s c = Ok c.
Proof. exact merge_complete_id. Qed.
Print Assumptions c20_merge_identity_on_complete.

(* the result of a merge is complete: every declared key, in declared order *)
Theorem c20_merge_result_complete : forall s, swf s = true ->
  forall c c', merge s c = Ok c' -> complete s c' = true.
Proof. exact merge_result_complete. Qed.
Print Assumptions c20_merge_result_complete.

(* lossless: whatever value cfg holds at a leaf of the schema is kept unchanged *)
Theorem c20_merge_lossless : forall s c c' p v,
  merge s c = Ok c' -> leaf_path s p = true -> get p c = Some v -> get p c' = Some v.
Proof. exact merge_lossless. Qed.
Print Assumptions c20_merge_lossless.

(* an absent key receives the schema default *)
Theorem c20_merge_fills_defaults : forall o d fs kv c' k s',
  merge (SNode o d fs) (VDict kv) = Ok c' -> lookup k kv = None -> lookup k fs = Some s' ->
  get [k] c' = Some (sdefault s').
Proof. exact merge_fills_defaults. Qed.
Print Assumptions c20_merge_fills_defaults.

(* an unknown key is rejected *)
Theorem c20_merge_rejects_unknown_key : forall o d fs kv k,
  In k (map fst kv) -> ~ In k (map fst fs) -> merge (SNode o d fs) (VDict kv) = Err ConfigKeyError.
Proof. exact merge_rejects_unknown_key. Qed.
Print Assumptions c20_merge_rejects_unknown_key.

Theorem c20_normalise_idempotent : forall s, swf s = true -> forall c c',
  normalise s c = Ok c' -> normalise s c' = Ok c'.
Proof. exact normalise_idempotent. Qed.
Print Assumptions c20_normalise_idempotent.

Theorem c20_normalise_identity_on_complete : forall s, swf s = true -> forall c,
  complete s c = true -> has_missing c = false -> normalise s c = Ok c.
Proof. exact normalise_identity_on_complete. Qed.
Print Assumptions c20_normalise_identity_on_complete.

(* --- attrs constructors ----------------------------------------------------------- *)

(* every supplied keyword argument is the value of its field, unmodified *)
Theorem c20_mk_reflects_kwargs : forall c kw r k v,
  mk c kw = Ok r -> lookup k kw = Some v -> get [k] r = Some v.
Proof. exact mk_reflects_kwargs. Qed.
Print Assumptions c20_mk_reflects_kwargs.

(* every field that is not supplied holds its declared default *)
Theorem c20_mk_defaults_elsewhere : forall c kw r k f,
  mk c kw = Ok r -> lookup k kw = None -> find_field c k = Some f -> get [k] r = Some (f_default f).
Proof. exact mk_defaults_elsewhere. Qed.
Print Assumptions c20_mk_defaults_elsewhere.

(* the instance is complete: exactly the declared fields, in declared order *)
Theorem c20_mk_complete : forall c kw r, mk c kw = Ok r ->
  exists kv, r = VObj (c_name c) kv /\ map fst kv = field_names c.
Proof. exact mk_complete. Qed.
Print Assumptions c20_mk_complete.

Theorem c20_mk_unknown_keyword : forall c kw k,
  In k (map fst kw) -> ~ In k (field_names c) -> mk c kw = Err TypeError.
Proof. exact mk_unknown_keyword. Qed.
Print Assumptions c20_mk_unknown_keyword.

(* an accepted instance passed the validator of every supplied field *)
Theorem c20_mk_validates : forall c kw r k f v,
  mk c kw = Ok r -> find_field c k = Some f -> lookup k kw = Some v -> f_validator f r v = Ok tt.
Proof. exact mk_validates. Qed.
Print Assumptions c20_mk_validates.

(* --- oneof ---------------------------------------------------------------------------- *)

Theorem c20_oneof_rejects_two : forall must kv, 2 <= count_set kv -> oneof_check must kv = Err ValueError.
Proof. exact oneof_rejects_two. Qed.
Print Assumptions c20_oneof_rejects_two.

(* stated for must_be_set = false: both uses in the code are the bare `@oneof` decorator (`mk`
   hard-codes it; the translator pins utils.oneof by AST hash) *)
Theorem c20_oneof_accepts_at_most_one : forall kv, count_set kv <= 1 -> oneof_check false kv = Ok tt.
Proof. exact oneof_accepts_at_most_one. Qed.
Print Assumptions c20_oneof_accepts_at_most_one.

(* a oneof class cannot be constructed with two different members set *)
Theorem c20_mk_oneof_rejects_two : forall c kw f1 f2 v1 v2,
  c_oneof c = true ->
  In f1 (c_fields c) -> In f2 (c_fields c) -> f_name f1 <> f_name f2 ->
  lookup (f_name f1) kw = Some v1 -> lookup (f_name f2) kw = Some v2 ->
  v1 <> VNone -> v2 <> VNone ->
  is_ok (mk c kw) = false.
Proof. exact mk_oneof_rejects_two. Qed.
Print Assumptions c20_mk_oneof_rejects_two.

Theorem c20_mk_oneof_at_most_one : forall c kw n kv,
  c_oneof c = true -> mk c kw = Ok (VObj n kv) -> count_set kv <= 1.
Proof. exact mk_oneof_at_most_one. Qed.
Print Assumptions c20_mk_oneof_at_most_one.

(* --- structured conversion keeps every key ---------------------------------------------- *)
Theorem c20_to_cfg_keeps_keys : forall cs t o n kv c,
  to_cfg cs t o (VObj n kv) = Ok c -> exists kv', c = VDict kv' /\ map fst kv' = map fst kv.
Proof. exact to_cfg_obj_keys. Qed.
Print Assumptions c20_to_cfg_keeps_keys.

(* --- structured conversion changes no value of a coercion-free tree ---------------------- *)
(* `veq a b`: b holds the value a in container form (tuple -> list, object -> dict with the
   same keys in the same order, an int possibly as the float of the same value; every other
   scalar identical).  `coercion_free cs t o v`: every scalar of v sits at a field of its own
   type (the strict conversion, which never converts, succeeds).  For such a value
   OmegaConf.structured + to_container yields a container holding the same values, for EVERY
   class table and declared type — so the value found at any path of the attrs tree a builder
   returned is found at the same path of the training configuration.
   The hypothesis is necessary and is about the CODE, not the model: a typed OmegaConf node
   converts a scalar of another type instead of rejecting it (an int / bool / float at a str
   field is stored as its str(), "12" at an int field as 12, 2 / "yes" at a bool field as True):
   ex_coercion_changes_value.  (Round-4 review, finding 1: the earlier model raised
   ValidationError there and the unconditional statement was true for that reason only.) *)
Theorem c20_to_cfg_preserves_values : forall cs v t o c,
  coercion_free cs t o v = true -> to_cfg cs t o v = Ok c -> veq v c = true.
Proof. exact to_cfg_preserves_values. Qed.
Print Assumptions c20_to_cfg_preserves_values.

Theorem c20_to_cfg_value_at : forall cs v t o c p x,
  coercion_free cs t o v = true -> to_cfg cs t o v = Ok c -> get p v = Some x ->
  exists y, get p c = Some y /\ veq x y = true.
Proof. exact to_cfg_value_at. Qed.
Print Assumptions c20_to_cfg_value_at.

(* on coercion-free values the code's conversion IS the strict one *)
Theorem c20_to_cfg_strict_agrees : forall cs v t o c,
  to_cfg_gen true cs t o v = Ok c -> to_cfg cs t o v = Ok c.
Proof. exact to_cfg_strict_agrees. Qed.
Print Assumptions c20_to_cfg_strict_agrees.

(* non-vacuity, and the counterexample to the unconditional form *)
Example ex_coercion_free :
  coercion_free [] TFloat false (VInt 2) = true /\ to_cfg [] TFloat false (VInt 2) = Ok (VFloat 2) /\
  coercion_free [] (TListOf TInt) true (VTup [VInt 160; VInt 160]) = true /\
  coercion_free [] TStr false (VInt 123) = false.
Proof. vm_compute. repeat split. Qed.
Example ex_coercion_changes_value :
  to_cfg [] TStr false (VInt 123) = Ok (VStr "123") /\ veq (VInt 123) (VStr "123") = false /\
  to_cfg [] TStr false (VBool true) = Ok (VStr "True") /\
  to_cfg [] TInt false (VStr "12") = Ok (VInt 12) /\ to_cfg [] TInt false (VStr "1e3") = Err ValidationError /\
  to_cfg [] TBool false (VInt 2) = Ok (VBool true) /\ to_cfg [] TBool false (VStr "Yes") = Ok (VBool true) /\
  to_cfg [] (TListOf TInt) true (VTup [VStr "1"; VInt 2]) = Ok (VList [VInt 1; VInt 2]) /\
  to_cfg [] (TListOf TInt) true (VTup [VFloat (3 # 2); VInt 2]) = Err ValidationError /\
  to_cfg [] TStr false (VFloat (3 # 2)) = Err Unmodelled.
Proof. vm_compute. repeat split. Qed.

Example ex_veq :
  veq (VObj "C" [("a", VInt 1); ("b", VTup [VFloat (1 # 2); VNone])])
      (VDict [("a", VFloat 1); ("b", VList [VFloat (1 # 2); VNone])]) = true /\
  veq (VInt 1) (VInt 2) = false /\ veq (VStr "a") (VStr "b") = false /\
  veq (VObj "C" [("a", VInt 1)]) (VDict [("b", VInt 1)]) = false.
Proof. vm_compute. repeat split. Qed.

(* --- finite reachability is a sound proof method for ALL lists (used for (c)) ----------- *)
(* If a finite set R of (state, names seen) pairs contains the initial state,
   every member satisfies inv, and every allowed step from a member succeeds
   and lands in R (`closed`, decidable), then for EVERY list l of names —
   any length, any order, repetitions allowed — whose set of names is allowed,
   folding the step function over l succeeds and the final state satisfies inv
   for the set of names of l. *)
Theorem c20_reachability_sound : forall step names inv allowed R init,
  closed step names inv allowed R = true ->
  st_mem (init, []) R = true ->
  (forall A n, allowed (canon names (n :: A)) = true -> allowed (canon names A) = true) ->
  forall l, Forall (fun n => In n names) l -> allowed (canon names l) = true ->
  exists s, fold_names step l init = Ok s /\ inv s (canon names l) = true.
Proof. exact reach_sound. Qed.
Print Assumptions c20_reachability_sound.

Theorem c20_cfg_eqb_sound : forall a b, cfg_eqb a b = true -> a = b.
Proof. exact cfg_eqb_eq. Qed.
Print Assumptions c20_cfg_eqb_sound.
