(* EdgeMaps.v — executable model of sleap_nn/data/edge_maps.py (and of
   gaussian_pdf / make_grid_vectors in sleap_nn/data/utils.py).  No proofs here.

   Numbers.  Coordinates and sigma are exact rationals; sizes/strides nat.  A
   keypoint is `option (Q*Q)`; None = a keypoint with ANY NaN coordinate.  Every
   float operation of edge_maps.py that touches one NaN coordinate of an endpoint
   yields NaN in both components: `norm` of the direction is NaN; in
   distance_to_edge the NaN reaches the result through the NUMERATOR of the
   projection, `sum(rel * dir, dim=3)` adds the x- and the y-product (current tree:
   `torch.where(NaN > 0, NaN, 1)` makes the divisor 1; pinned tree before fix
   5bfaeb9: `maximum(NaN, 1)` = NaN), `clamp(NaN)` is NaN and the final sum over the
   last axis mixes both components again; `NaN >= 0` is false in the in-image filter.

   Division is PARTIAL in this model (review round 4, finding 1): `qdiv n d` is
   None (= not a finite number) when the divisor is 0.  The two divisions of the
   file are the projection of distance_to_edge (divisor: the guarded edge length)
   and gaussian_pdf (divisor 2 sigma^2).  In floats 0/0 = NaN and x/0 = +-inf for
   x <> 0; the only way the projection's divisor can be 0 is a zero-length edge,
   whose numerator is 0 as well (direction vector 0), so None = NaN there; for
   sigma = 0 (outside the domain) the float code yields exp(-inf) = 0 off the
   segment and NaN on it, which the NaN sweep of make_multi_pafs turns into an
   all-zero field: None ("no term") has the same value.  That the guarded divisor
   is never 0 is a THEOREM (c05_projection_divisor_positive) which the "never NaN"
   theorems consume; `dist_edge_div` takes the divisor as an argument so that the
   unguarded code (divisor |d|^2) can be written down and shown to give NaN.

   The model does not compute exp / sqrt.  One instance's contribution to one
   output cell is a `term = (a, n, l2)` whose real value is
        exp(a) * n / sqrt(l2)          (Lemmas.v: tval)
   a  = the argument of exp in gaussian_pdf,
   n  = the x- or y-component of  edge_destination - edge_source,
   l2 = |edge_destination - edge_source|^2  (torch.norm squared; > 0 in a term).
   A cell of make_multi_pafs / generate_pafs is a `list term` whose value is the
   sum (pafs += paf); `paf[isnan(paf)] = 0` turns a NaN contribution into no term.

   Variants (boolean parameters; the harness detects on every run which one the
   code implements by replaying the corpus witnesses, and additionally evaluates the
   `false` variants against the pre-repair source obtained by reverse-applying
   proposed_fixes/C05_F1.diff / C05_F23.diff to the current file):
   * `fixed_len = true`  — CURRENT tree (since fix 5bfaeb9): the projection is divided
     by |d|^2, by 1 only when |d|^2 = 0 (`torch.where(len > 0, len, 1)`);
     `fixed_len = false` — PINNED tree (before fix 5bfaeb9, finding F1): divided by
     max(|d|^2, 1);
   * `fixed_box = true`  — CURRENT tree (since fix f00ee7f): generate_pafs keeps an
     animal iff one node lies in the closed rectangle [0,W-1]x[0,H-1];
     `fixed_box = false` — PINNED tree (before fix f00ee7f, finding F23): iff one node
     lies STRICTLY inside (0, xv[-1]) x (0, yv[-1]) where xv[-1], yv[-1] are the LAST
     GRID coordinates (not W-1, H-1).
   Other quirks, unchanged in the current tree:
   * distance_to_edge returns a SQUARED distance D2 and gaussian_pdf squares it
     again: the weight is exp(-(D2)^2 / (2 sigma^2));
   * sigma is NOT multiplied by the output stride (unlike confidence maps);
   * a zero-length edge has unit vector 0/0 = NaN, which becomes 0;
   * the shape is (2E, ceil(H/s), ceil(W/s)) (`torch.arange(0, n, s)`), not floor. *)
From Coq Require Import String Ascii.
From SV Require Import Base.Render.
From Coq Require Import List Arith ZArith QArith Bool.
Import ListNotations.
Open Scope list_scope.
Open Scope Q_scope.

Definition kp := option (Q * Q).
Definition term := (Q * Q * Q)%type.               (* (exp argument, numerator, len2) *)
Definition pcell := list term.                      (* value = sum of the terms *)
Definition chan (A : Type) := list (list A).        (* rows (y) of columns (x) *)

Definition ceil_div (n s : nat) : nat := ((n + s - 1) / s)%nat.

(* torch.arange(0, n, step=s): 0, s, 2s, ... < n *)
Definition grid (n s : nat) : list Q :=
  map (fun k => inject_Z (Z.of_nat (k * s))) (seq 0 (ceil_div n s)).

Definition sq (a : Q) : Q := a * a.
Definition qmax (a b : Q) : Q := if Qle_bool a b then b else a.          (* torch.maximum *)
Definition clamp01 (t : Q) : Q :=                                        (* torch.clamp(min=0,max=1) *)
  if Qle_bool t 0 then 0 else if Qle_bool 1 t then 1 else t.

Definition len2 (s d : Q * Q) : Q := sq (fst d - fst s) + sq (snd d - snd s).

(* the divisor of the projection:
   fixed_len = false: torch.maximum(|d|^2, 1)             (pinned tree, before fix 5bfaeb9)
   fixed_len = true : torch.where(|d|^2 > 0, |d|^2, 1)    (current tree) *)
Definition edge_len (fixed_len : bool) (l : Q) : Q :=
  if fixed_len then (if Qeq_bool l 0 then 1 else l) else qmax l 1.

(* float division as far as finiteness goes: None when the divisor is 0 *)
Definition qdiv (n d : Q) : option Q := if Qeq_bool d 0 then None else Some (n / d).

Definition obind {A B} (f : A -> option B) (o : option A) : option B :=
  match o with Some a => f a | None => None end.

(* distance_to_edge for one point (x,y) and one edge with finite endpoints, the
   projection being divided by `el`; None = NaN *)
Definition dist_edge_div (el : Q) (s d : Q * Q) (x y : Q) : option Q :=
  let dx := fst d - fst s in
  let dy := snd d - snd s in
  let rx := x - fst s in
  let ry := y - snd s in
  option_map (fun q => let t := clamp01 q in sq (t * dx - rx) + sq (t * dy - ry))
             (qdiv (rx * dx + ry * dy) el).

Section Variant.
Variable fixed_len : bool.

(* the code: the divisor is the guarded edge length *)
Definition dist_edge (s d : Q * Q) (x y : Q) : option Q :=
  dist_edge_div (edge_len fixed_len (len2 s d)) s d x y.

(* None = NaN *)
Definition dist_edge_opt (s d : kp) (x y : Q) : option Q :=
  match s, d with
  | Some s', Some d' => dist_edge s' d' x y
  | _, _ => None
  end.

Fixpoint map2 {A B C} (f : A -> B -> C) (l : list A) (m : list B) : list C :=
  match l, m with
  | a :: l', b :: m' => f a b :: map2 f l' m'
  | _, _ => []
  end.

(* distance_to_edge(points (h,w,2), sources (E,2), destinations (E,2)) -> (h,w,E) *)
Definition distance_to_edge (pts : chan (Q * Q)) (srcs dsts : list kp) : chan (list (option Q)) :=
  map (map (fun p => map2 (fun s d => dist_edge_opt s d (fst p) (snd p)) srcs dsts)) pts.

(* gaussian_pdf: the argument of exp; None when 2 sigma^2 = 0 (outside the domain) *)
Definition gauss_arg (sig : Q) (x : Q) : option Q := qdiv (- (sq x)) (2 * sq sig).

Definition sampling_grid (xv yv : list Q) : chan (Q * Q) :=
  map (fun y => map (fun x => (x, y)) xv) yv.

(* make_edge_maps -> (h, w, E): argument of exp, None = NaN *)
Definition make_edge_maps (xv yv : list Q) (srcs dsts : list kp) (sig : Q)
  : chan (list (option Q)) :=
  map (map (map (obind (gauss_arg sig)))) (distance_to_edge (sampling_grid xv yv) srcs dsts).

(* unit vector (dst - src) / norm(dst - src) as (dx, dy, len2); None = NaN
   (missing endpoint, or 0/0 for a zero-length edge) *)
Definition unit_vec (s d : kp) : option (Q * Q * Q) :=
  match s, d with
  | Some s', Some d' =>
      let l := len2 s' d' in
      if Qeq_bool l 0 then None else Some (fst d' - fst s', snd d' - snd s', l)
  | _, _ => None
  end.

(* one cell of make_pafs for one edge: (x-component, y-component); None = NaN *)
Definition paf_cell (sig : Q) (s d : kp) (x y : Q) : option term * option term :=
  match unit_vec s d, obind (gauss_arg sig) (dist_edge_opt s d x y) with
  | Some (dx, dy, l), Some a => (Some (a, dx, l), Some (a, dy, l))
  | _, _ => (None, None)
  end.

(* make_pafs -> (E, 2, h, w) *)
Definition make_pafs (xv yv : list Q) (srcs dsts : list kp) (sig : Q)
  : list (list (chan (option term))) :=
  map2 (fun s d =>
          [ map (fun y => map (fun x => fst (paf_cell sig s d x y)) xv) yv ;
            map (fun y => map (fun x => snd (paf_cell sig s d x y)) xv) yv ])
       srcs dsts.

(* paf[isnan(paf)] = 0 ; pafs += paf, cell by cell *)
Definition add_cell (acc : pcell) (o : option term) : pcell :=
  match o with None => acc | Some t => acc ++ [t] end.

Definition add_paf (acc : list (list (chan pcell))) (paf : list (list (chan (option term))))
  : list (list (chan pcell)) :=
  map2 (map2 (map2 (map2 add_cell))) acc paf.

Definition zeros (n_edges h w : nat) : list (list (chan pcell)) :=
  repeat (repeat (repeat (repeat ([] : pcell) w) h) 2) n_edges.

(* make_multi_pafs: sources, destinations (n_instances, E, 2) -> (E, 2, h, w) *)
Definition make_multi_pafs (xv yv : list Q) (n_edges : nat) (srcss dstss : list (list kp)) (sig : Q)
  : list (list (chan pcell)) :=
  fold_left (fun acc sd => add_paf acc (make_pafs xv yv (fst sd) (snd sd) sig))
            (combine srcss dstss) (zeros n_edges (length yv) (length xv)).

(* get_edge_points: instances[:, source_inds], instances[:, destination_inds].
   Node indices must be in range: torch raises IndexError otherwise (as soon as one
   animal is kept), whereas the model's default for an out-of-range index is None.
   `in_domain` below is the decidable domain predicate; the theorems about whole fields
   carry it (or its two conjuncts) as hypotheses and `generate_pafs_checked` is the entry
   point the harness compares with the code's exceptions. *)
Definition node (inst : list kp) (k : nat) : kp := nth k inst None.

Definition get_edge_points (insts : list (list kp)) (edges : list (nat * nat))
  : list (list kp) * list (list kp) :=
  (map (fun inst => map (fun e => node inst (fst e)) edges) insts,
   map (fun inst => map (fun e => node inst (snd e)) edges) insts).

(* the in-image filter *)
Definition Qlt_bool (a b : Q) : bool := negb (Qle_bool b a).

Definition node_in_strict (xm ym : Q) (p : kp) : bool :=
  match p with
  | Some (x, y) => Qlt_bool 0 x && Qlt_bool x xm && Qlt_bool 0 y && Qlt_bool y ym
  | None => false
  end.

Definition node_in_closed (xm ym : Q) (p : kp) : bool :=
  match p with
  | Some (x, y) => Qle_bool 0 x && Qle_bool x xm && Qle_bool 0 y && Qle_bool y ym
  | None => false
  end.

Definition nat_Q (n : nat) : Q := inject_Z (Z.of_nat n).

(* fixed_box = false: pinned tree (before fix f00ee7f), (instances > 0) & (instances < (xv[-1], yv[-1]));
   fixed_box = true: current tree, (instances >= 0) & (instances <= (W-1, H-1)).
   W, H >= 1 is a domain hypothesis of the theorems that speak about the box (W - 1 is a
   truncated subtraction on nat; for W = 0 the code's box is empty and so is the grid). *)
Definition in_img (fixed_box : bool) (H W : nat) (xv yv : list Q) (inst : list kp) : bool :=
  if fixed_box
  then existsb (node_in_closed (nat_Q (W - 1)) (nat_Q (H - 1))) inst
  else existsb (node_in_strict (last xv 0) (last yv 0)) inst.

(* generate_pafs without flattening: (E, 2, h, w); only sample 0 is used *)
Definition generate_pafs (fixed_box : bool) (samples : list (list (list kp))) (H W : nat)
  (sig : Q) (s : nat) (edges : list (nat * nat)) : list (list (chan pcell)) :=
  let xv := grid W s in
  let yv := grid H s in
  let insts := filter (in_img fixed_box H W xv yv) (hd [] samples) in
  let sd := get_edge_points insts edges in
  make_multi_pafs xv yv (length edges) (fst sd) (snd sd) sig.

(* pafs.reshape(n_edges * 2, h, w): edge0.x, edge0.y, edge1.x, ... *)
Definition flatten {A} (p : list (list A)) : list A := concat p.

Definition generate_pafs_flat (fixed_box : bool) (samples : list (list (list kp))) (H W : nat)
  (sig : Q) (s : nat) (edges : list (nat * nat)) : list (chan pcell) :=
  flatten (generate_pafs fixed_box samples H W sig s edges).

(* PartAffinityFieldsGenerator.__iter__: one output per example; H, W are
   ex["image"].shape[2], [3] *)
Definition datapipe (fixed_box : bool) (exs : list (nat * nat * list (list (list kp))))
  (sig : Q) (s : nat) (edges : list (nat * nat)) (flat : bool)
  : list (list (list (chan pcell))) :=
  map (fun ex => let '(H, W, smp) := ex in
                 if flat then [generate_pafs_flat fixed_box smp H W sig s edges]
                 else generate_pafs fixed_box smp H W sig s edges) exs.

End Variant.

(* the domain of generate_pafs (finding 4 of the round-4 review): at least one sample
   (`instances[0]`: IndexError otherwise), stride >= 1 (`torch.arange(..., step=0)`:
   RuntimeError) and, for every KEPT animal of sample 0, the node indices of every edge
   in range (`instances[:, inds]`: IndexError as soon as one animal is kept; with no kept
   animal torch does not look at the indices).  Negative indices (torch wraps them) are
   not representable (nat): outside the model. *)
Definition edges_in_range (n_nodes : nat) (edges : list (nat * nat)) : bool :=
  forallb (fun e => (fst e <? n_nodes)%nat && (snd e <? n_nodes)%nat) edges.

Definition in_domain (fixed_box : bool) (samples : list (list (list kp))) (H W s : nat)
  (edges : list (nat * nat)) : bool :=
  match samples with
  | [] => false
  | smp :: _ =>
      (1 <=? s)%nat &&
      forallb (fun inst => edges_in_range (length inst) edges)
              (filter (in_img fixed_box H W (grid W s) (grid H s)) smp)
  end.

(* None = the code raises *)
Definition generate_pafs_checked (fl fixed_box : bool) (samples : list (list (list kp))) (H W : nat)
  (sig : Q) (s : nat) (edges : list (nat * nat)) : option (list (list (chan pcell))) :=
  if in_domain fixed_box samples H W s edges
  then Some (generate_pafs fl fixed_box samples H W sig s edges) else None.

(* selectors of the findings F1 / F23 (both fixed in the current tree), as decidable
   predicates on the inputs; the harness evaluates them (case CSel) and compares them
   with the Python selectors of the oracle *)
(* F1: the code divides by max(len2,1) and the edge is shorter than one pixel but not
   of zero length *)
Definition selector_F1 (fixed_len : bool) (s d : Q * Q) : bool :=
  negb fixed_len && Qlt_bool 0 (len2 s d) && Qlt_bool (len2 s d) 1.

(* dropped_by_strict_box: the animal has a node inside the image [0,W-1]x[0,H-1]
   but none strictly inside the filter box (0, xv[-1]) x (0, yv[-1]) *)
Definition selector_strict_box (H W s : nat) (inst : list kp) : bool :=
  existsb (node_in_closed (nat_Q (W - 1)) (nat_Q (H - 1))) inst &&
  negb (in_img false H W (grid W s) (grid H s) inst).

(* cell access *)
Definition cell {A} (m : chan A) (i j : nat) : option A :=
  match nth_error m i with Some row => nth_error row j | None => None end.

Definition cell4 {A} (out : list (list (chan A))) (e c i j : nat) : option A :=
  match nth_error out e with
  | Some xy => match nth_error xy c with Some m => cell m i j | None => None end
  | None => None
  end.

(* ---- one cell of generate_pafs, computed directly (large images: the harness compares a
   SAMPLE of cells, so that vm_compute does not build the whole (E,2,h,w) field).
   q = (edge e, component c, row i, column j); None = outside the output's shape.
   Wide.sample_cell_spec / Props.c05_sampled_cell_is_cell_of_field: on `in_domain` this IS
   cell (e,c,i,j) of generate_pafs and cell (2e+c,i,j) of generate_pafs_flat.
   The model is EXACT (rationals) at any magnitude; float32 rounding of the code is not
   modelled, it is bounded in the harness (c05.py: `eps_pos`), see notes/C05.md. *)
Definition sample_cell (fl fb : bool) (samples : list (list (list kp))) (H W : nat) (sig : Q) (s : nat)
  (edges : list (nat * nat)) (q : nat * nat * nat * nat) : option pcell :=
  let '(e, c, i, j) := q in
  match nth_error edges e with
  | Some (a, b) =>
      if ((c <? 2) && (i * s <? H) && (j * s <? W))%nat
      then Some (flat_map (fun inst =>
                   let pc := paf_cell fl sig (node inst a) (node inst b) (nat_Q (j * s)) (nat_Q (i * s)) in
                   match (match c with O => fst pc | _ => snd pc end) with
                   | Some t => [t] | None => [] end)
                 (filter (in_img fb H W (grid W s) (grid H s)) (hd [] samples)))
      else None
  | None => None
  end.

(* ---- entry point for the correspondence harness: results as JSON trees ---- *)
Inductive tree := TQ (q : Q) | TNull | TB (b : bool) | TList (l : list tree).

Fixpoint rtree (t : tree) : rdr :=
  match t with
  | TQ q => rQ q
  | TNull => rstr "null"
  | TB b => rstr (if b then "true" else "false")
  | TList l => fun k =>
      String "[" ((fix go (first : bool) (l : list tree) : rdr := fun k =>
                     match l with
                     | [] => k
                     | x :: r => if first then rtree x (go false r k)
                                 else String "," (rtree x (go false r k))
                     end) true l (String "]" k))
  end.

Definition tl_ {A} (f : A -> tree) (l : list A) : tree := TList (map f l).
Definition topt {A} (f : A -> tree) (o : option A) : tree :=
  match o with None => TNull | Some a => f a end.
Definition tterm (t : term) : tree := let '(a, n, l) := t in TList [TQ a; TQ n; TQ l].
Definition tkp (p : kp) : tree := topt (fun q => TList [TQ (fst q); TQ (snd q)]) p.

Inductive case :=
| CDist (fl : bool) (pts : chan (Q * Q)) (srcs dsts : list kp)
| CEdgeMaps (fl : bool) (xv yv : list Q) (srcs dsts : list kp) (sig : Q)
| CPafs (fl : bool) (xv yv : list Q) (srcs dsts : list kp) (sig : Q)
| CMulti (fl : bool) (xv yv : list Q) (n_edges : nat) (srcss dstss : list (list kp)) (sig : Q)
| CEdgePts (insts : list (list kp)) (edges : list (nat * nat))
| CGen (fl fixed_box flat : bool) (samples : list (list (list kp))) (H W : nat) (sig : Q) (s : nat)
       (edges : list (nat * nat))
| CPipe (fl fixed_box flat : bool) (exs : list (nat * nat * list (list (list kp)))) (sig : Q) (s : nat)
        (edges : list (nat * nat))
| CGenChk (fl fixed_box : bool) (samples : list (list (list kp))) (H W : nat) (sig : Q) (s : nat)
          (edges : list (nat * nat))
| CSel (H W s : nat) (insts : list (list kp)) (edges : list (nat * nat))
| CGenAt (fl fixed_box : bool) (samples : list (list (list kp))) (H W : nat) (sig : Q) (s : nat)
         (edges : list (nat * nat)) (cells : list (nat * nat * nat * nat)).

Definition sel_F1_kp (s d : kp) : bool :=
  match s, d with Some s', Some d' => selector_F1 false s' d' | _, _ => false end.

Definition tpafs (p : list (list (chan pcell))) : tree := tl_ (tl_ (tl_ (tl_ (tl_ tterm)))) p.

Definition run (c : case) : tree :=
  match c with
  | CDist fl pts srcs dsts => tl_ (tl_ (tl_ (topt TQ))) (distance_to_edge fl pts srcs dsts)
  | CEdgeMaps fl xv yv srcs dsts sig => tl_ (tl_ (tl_ (topt TQ))) (make_edge_maps fl xv yv srcs dsts sig)
  | CPafs fl xv yv srcs dsts sig => tl_ (tl_ (tl_ (tl_ (topt tterm)))) (make_pafs fl xv yv srcs dsts sig)
  | CMulti fl xv yv n srcss dstss sig => tpafs (make_multi_pafs fl xv yv n srcss dstss sig)
  | CEdgePts insts edges =>
      let sd := get_edge_points insts edges in
      TList [tl_ (tl_ tkp) (fst sd); tl_ (tl_ tkp) (snd sd)]
  | CGen fl fb flat smp H W sig s edges =>
      if flat then tl_ (tl_ (tl_ (tl_ tterm))) (generate_pafs_flat fl fb smp H W sig s edges)
      else tpafs (generate_pafs fl fb smp H W sig s edges)
  | CPipe fl fb flat exs sig s edges => tl_ tpafs (datapipe fl fb exs sig s edges flat)
  | CGenChk fl fb smp H W sig s edges => topt tpafs (generate_pafs_checked fl fb smp H W sig s edges)
  | CSel H W s insts edges =>
      tl_ (fun inst => TList [TB (selector_strict_box H W s inst);
                              tl_ (fun e => TB (sel_F1_kp (node inst (fst e)) (node inst (snd e)))) edges])
          insts
  | CGenAt fl fb smp H W sig s edges cells =>
      if in_domain fb smp H W s edges
      then tl_ (topt (tl_ tterm)) (map (sample_cell fl fb smp H W sig s edges) cells)
      else TNull
  end.
