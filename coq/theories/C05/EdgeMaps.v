(* EdgeMaps.v — executable model of sleap_nn/data/edge_maps.py (and of
   gaussian_pdf / make_grid_vectors in sleap_nn/data/utils.py).  No proofs here.

   Numbers.  Coordinates and sigma are exact rationals; sizes/strides nat.  A
   keypoint is `option (Q*Q)`; None = a keypoint with ANY NaN coordinate (every
   float operation of this file that touches one NaN coordinate of an endpoint
   yields NaN in both components: `norm` of the direction is NaN, `maximum(NaN,1)`
   is NaN, `clamp(NaN)` is NaN; and `NaN > 0` is false in the in-image filter).

   The model does not compute exp / sqrt.  One instance's contribution to one
   output cell is a `term = (a, n, l2)` whose real value is
        exp(a) * n / sqrt(l2)          (Lemmas.v: tval)
   a  = the argument of exp in gaussian_pdf,
   n  = the x- or y-component of  edge_destination - edge_source,
   l2 = |edge_destination - edge_source|^2  (torch.norm squared; > 0 in a term).
   A cell of make_multi_pafs / generate_pafs is a `list term` whose value is the
   sum (pafs += paf); `paf[isnan(paf)] = 0` turns a NaN contribution into no term.

   Quirks of the code kept as they are:
   * distance_to_edge divides the projection by max(|d|^2, 1), not |d|^2:
     parameter `fixed_len = false`.  `fixed_len = true` is the proposed repair
     (divide by |d|^2, by 1 only when |d|^2 = 0); the harness detects which one
     the code implements;
   * distance_to_edge returns a SQUARED distance D2 and gaussian_pdf squares it
     again: the weight is exp(-(D2)^2 / (2 sigma^2));
   * sigma is NOT multiplied by the output stride (unlike confidence maps);
   * a zero-length edge has unit vector 0/0 = NaN, which becomes 0;
   * generate_pafs keeps an animal iff one node lies STRICTLY inside
     (0, xv[-1]) x (0, yv[-1]) where xv[-1], yv[-1] are the LAST GRID
     coordinates (not W-1, H-1): parameter `fixed_box = false`.
     `fixed_box = true` is the proposed repair (closed box [0,W-1]x[0,H-1]);
     the harness detects which one the code implements. *)
From Coq Require Import String Ascii.
From SV Require Import Base.Render.
From Coq Require Import List Arith ZArith QArith Bool.
Import ListNotations.
Open Scope list_scope.
Open Scope Q_scope.

Definition kp := option (Q * Q).
Definition term := (Q * Q * Q)%type.               (* (exp argument, numerator, len2) *)
Definition pcell := list term.                      (* value = sum of the terms *)
Definition chan (A : Type) := list (list A).        (* rows (y) of columns (x) *)

Definition ceil_div (n s : nat) : nat := ((n + s - 1) / s)%nat.

(* torch.arange(0, n, step=s): 0, s, 2s, ... < n *)
Definition grid (n s : nat) : list Q :=
  map (fun k => inject_Z (Z.of_nat (k * s))) (seq 0 (ceil_div n s)).

Definition sq (a : Q) : Q := a * a.
Definition qmax (a b : Q) : Q := if Qle_bool a b then b else a.          (* torch.maximum *)
Definition clamp01 (t : Q) : Q :=                                        (* torch.clamp(min=0,max=1) *)
  if Qle_bool t 0 then 0 else if Qle_bool 1 t then 1 else t.

Definition len2 (s d : Q * Q) : Q := sq (fst d - fst s) + sq (snd d - snd s).

(* the divisor of the projection:
   fixed_len = false: torch.maximum(|d|^2, 1)      (the code as it is)
   fixed_len = true : torch.where(|d|^2 > 0, |d|^2, 1)   (proposed repair of F1) *)
Definition edge_len (fixed_len : bool) (l : Q) : Q :=
  if fixed_len then (if Qeq_bool l 0 then 1 else l) else qmax l 1.

Section Variant.
Variable fixed_len : bool.

(* distance_to_edge for one point (x,y) and one edge with finite endpoints *)
Definition dist_edge (s d : Q * Q) (x y : Q) : Q :=
  let dx := fst d - fst s in
  let dy := snd d - snd s in
  let el := edge_len fixed_len (sq dx + sq dy) in
  let rx := x - fst s in
  let ry := y - snd s in
  let t := clamp01 ((rx * dx + ry * dy) / el) in
  sq (t * dx - rx) + sq (t * dy - ry).

(* None = NaN *)
Definition dist_edge_opt (s d : kp) (x y : Q) : option Q :=
  match s, d with
  | Some s', Some d' => Some (dist_edge s' d' x y)
  | _, _ => None
  end.

Fixpoint map2 {A B C} (f : A -> B -> C) (l : list A) (m : list B) : list C :=
  match l, m with
  | a :: l', b :: m' => f a b :: map2 f l' m'
  | _, _ => []
  end.

(* distance_to_edge(points (h,w,2), sources (E,2), destinations (E,2)) -> (h,w,E) *)
Definition distance_to_edge (pts : chan (Q * Q)) (srcs dsts : list kp) : chan (list (option Q)) :=
  map (map (fun p => map2 (fun s d => dist_edge_opt s d (fst p) (snd p)) srcs dsts)) pts.

(* gaussian_pdf: the argument of exp *)
Definition gauss_arg (sig : Q) (x : Q) : Q := - (sq x) / (2 * sq sig).

Definition sampling_grid (xv yv : list Q) : chan (Q * Q) :=
  map (fun y => map (fun x => (x, y)) xv) yv.

(* make_edge_maps -> (h, w, E): argument of exp, None = NaN *)
Definition make_edge_maps (xv yv : list Q) (srcs dsts : list kp) (sig : Q)
  : chan (list (option Q)) :=
  map (map (map (option_map (gauss_arg sig)))) (distance_to_edge (sampling_grid xv yv) srcs dsts).

(* unit vector (dst - src) / norm(dst - src) as (dx, dy, len2); None = NaN
   (missing endpoint, or 0/0 for a zero-length edge) *)
Definition unit_vec (s d : kp) : option (Q * Q * Q) :=
  match s, d with
  | Some s', Some d' =>
      let l := len2 s' d' in
      if Qeq_bool l 0 then None else Some (fst d' - fst s', snd d' - snd s', l)
  | _, _ => None
  end.

(* one cell of make_pafs for one edge: (x-component, y-component); None = NaN *)
Definition paf_cell (sig : Q) (s d : kp) (x y : Q) : option term * option term :=
  match unit_vec s d, dist_edge_opt s d x y with
  | Some (dx, dy, l), Some D => (Some (gauss_arg sig D, dx, l), Some (gauss_arg sig D, dy, l))
  | _, _ => (None, None)
  end.

(* make_pafs -> (E, 2, h, w) *)
Definition make_pafs (xv yv : list Q) (srcs dsts : list kp) (sig : Q)
  : list (list (chan (option term))) :=
  map2 (fun s d =>
          [ map (fun y => map (fun x => fst (paf_cell sig s d x y)) xv) yv ;
            map (fun y => map (fun x => snd (paf_cell sig s d x y)) xv) yv ])
       srcs dsts.

(* paf[isnan(paf)] = 0 ; pafs += paf, cell by cell *)
Definition add_cell (acc : pcell) (o : option term) : pcell :=
  match o with None => acc | Some t => acc ++ [t] end.

Definition add_paf (acc : list (list (chan pcell))) (paf : list (list (chan (option term))))
  : list (list (chan pcell)) :=
  map2 (map2 (map2 (map2 add_cell))) acc paf.

Definition zeros (n_edges h w : nat) : list (list (chan pcell)) :=
  repeat (repeat (repeat (repeat ([] : pcell) w) h) 2) n_edges.

(* make_multi_pafs: sources, destinations (n_instances, E, 2) -> (E, 2, h, w) *)
Definition make_multi_pafs (xv yv : list Q) (n_edges : nat) (srcss dstss : list (list kp)) (sig : Q)
  : list (list (chan pcell)) :=
  fold_left (fun acc sd => add_paf acc (make_pafs xv yv (fst sd) (snd sd) sig))
            (combine srcss dstss) (zeros n_edges (length yv) (length xv)).

(* get_edge_points: instances[:, source_inds], instances[:, destination_inds].
   Node indices are assumed in range (torch raises IndexError otherwise); the
   model's default for an out-of-range index is None. *)
Definition node (inst : list kp) (k : nat) : kp := nth k inst None.

Definition get_edge_points (insts : list (list kp)) (edges : list (nat * nat))
  : list (list kp) * list (list kp) :=
  (map (fun inst => map (fun e => node inst (fst e)) edges) insts,
   map (fun inst => map (fun e => node inst (snd e)) edges) insts).

(* the in-image filter *)
Definition Qlt_bool (a b : Q) : bool := negb (Qle_bool b a).

Definition node_in_strict (xm ym : Q) (p : kp) : bool :=
  match p with
  | Some (x, y) => Qlt_bool 0 x && Qlt_bool x xm && Qlt_bool 0 y && Qlt_bool y ym
  | None => false
  end.

Definition node_in_closed (xm ym : Q) (p : kp) : bool :=
  match p with
  | Some (x, y) => Qle_bool 0 x && Qle_bool x xm && Qle_bool 0 y && Qle_bool y ym
  | None => false
  end.

Definition nat_Q (n : nat) : Q := inject_Z (Z.of_nat n).

(* fixed_box = false: the code as it is, (instances > 0) & (instances < (xv[-1], yv[-1]));
   fixed_box = true: proposed repair, (instances >= 0) & (instances <= (W-1, H-1)) *)
Definition in_img (fixed_box : bool) (H W : nat) (xv yv : list Q) (inst : list kp) : bool :=
  if fixed_box
  then existsb (node_in_closed (nat_Q (W - 1)) (nat_Q (H - 1))) inst
  else existsb (node_in_strict (last xv 0) (last yv 0)) inst.

(* generate_pafs without flattening: (E, 2, h, w); only sample 0 is used *)
Definition generate_pafs (fixed_box : bool) (samples : list (list (list kp))) (H W : nat)
  (sig : Q) (s : nat) (edges : list (nat * nat)) : list (list (chan pcell)) :=
  let xv := grid W s in
  let yv := grid H s in
  let insts := filter (in_img fixed_box H W xv yv) (hd [] samples) in
  let sd := get_edge_points insts edges in
  make_multi_pafs xv yv (length edges) (fst sd) (snd sd) sig.

(* pafs.reshape(n_edges * 2, h, w): edge0.x, edge0.y, edge1.x, ... *)
Definition flatten {A} (p : list (list A)) : list A := concat p.

Definition generate_pafs_flat (fixed_box : bool) (samples : list (list (list kp))) (H W : nat)
  (sig : Q) (s : nat) (edges : list (nat * nat)) : list (chan pcell) :=
  flatten (generate_pafs fixed_box samples H W sig s edges).

(* PartAffinityFieldsGenerator.__iter__: one output per example; H, W are
   ex["image"].shape[2], [3] *)
Definition datapipe (fixed_box : bool) (exs : list (nat * nat * list (list (list kp))))
  (sig : Q) (s : nat) (edges : list (nat * nat)) (flat : bool)
  : list (list (list (chan pcell))) :=
  map (fun ex => let '(H, W, smp) := ex in
                 if flat then [generate_pafs_flat fixed_box smp H W sig s edges]
                 else generate_pafs fixed_box smp H W sig s edges) exs.

End Variant.

(* selectors of the known findings, as decidable predicates on the inputs *)
(* F1: the code divides by max(len2,1) and the edge is shorter than one pixel but not
   of zero length *)
Definition selector_F1 (fixed_len : bool) (s d : Q * Q) : bool :=
  negb fixed_len && Qlt_bool 0 (len2 s d) && Qlt_bool (len2 s d) 1.

(* dropped_by_strict_box: the animal has a node inside the image [0,W-1]x[0,H-1]
   but none strictly inside the filter box (0, xv[-1]) x (0, yv[-1]) *)
Definition selector_strict_box (H W s : nat) (inst : list kp) : bool :=
  existsb (node_in_closed (nat_Q (W - 1)) (nat_Q (H - 1))) inst &&
  negb (in_img false H W (grid W s) (grid H s) inst).

(* cell access *)
Definition cell {A} (m : chan A) (i j : nat) : option A :=
  match nth_error m i with Some row => nth_error row j | None => None end.

Definition cell4 {A} (out : list (list (chan A))) (e c i j : nat) : option A :=
  match nth_error out e with
  | Some xy => match nth_error xy c with Some m => cell m i j | None => None end
  | None => None
  end.

(* ---- entry point for the correspondence harness: results as JSON trees ---- *)
Inductive tree := TQ (q : Q) | TNull | TList (l : list tree).

Fixpoint rtree (t : tree) : rdr :=
  match t with
  | TQ q => rQ q
  | TNull => rstr "null"
  | TList l => fun k =>
      String "[" ((fix go (first : bool) (l : list tree) : rdr := fun k =>
                     match l with
                     | [] => k
                     | x :: r => if first then rtree x (go false r k)
                                 else String "," (rtree x (go false r k))
                     end) true l (String "]" k))
  end.

Definition tl_ {A} (f : A -> tree) (l : list A) : tree := TList (map f l).
Definition topt {A} (f : A -> tree) (o : option A) : tree :=
  match o with None => TNull | Some a => f a end.
Definition tterm (t : term) : tree := let '(a, n, l) := t in TList [TQ a; TQ n; TQ l].
Definition tkp (p : kp) : tree := topt (fun q => TList [TQ (fst q); TQ (snd q)]) p.

Inductive case :=
| CDist (fl : bool) (pts : chan (Q * Q)) (srcs dsts : list kp)
| CEdgeMaps (fl : bool) (xv yv : list Q) (srcs dsts : list kp) (sig : Q)
| CPafs (fl : bool) (xv yv : list Q) (srcs dsts : list kp) (sig : Q)
| CMulti (fl : bool) (xv yv : list Q) (n_edges : nat) (srcss dstss : list (list kp)) (sig : Q)
| CEdgePts (insts : list (list kp)) (edges : list (nat * nat))
| CGen (fl fixed_box flat : bool) (samples : list (list (list kp))) (H W : nat) (sig : Q) (s : nat)
       (edges : list (nat * nat))
| CPipe (fl fixed_box flat : bool) (exs : list (nat * nat * list (list (list kp)))) (sig : Q) (s : nat)
        (edges : list (nat * nat)).

Definition tpafs (p : list (list (chan pcell))) : tree := tl_ (tl_ (tl_ (tl_ (tl_ tterm)))) p.

Definition run (c : case) : tree :=
  match c with
  | CDist fl pts srcs dsts => tl_ (tl_ (tl_ (topt TQ))) (distance_to_edge fl pts srcs dsts)
  | CEdgeMaps fl xv yv srcs dsts sig => tl_ (tl_ (tl_ (topt TQ))) (make_edge_maps fl xv yv srcs dsts sig)
  | CPafs fl xv yv srcs dsts sig => tl_ (tl_ (tl_ (tl_ (topt tterm)))) (make_pafs fl xv yv srcs dsts sig)
  | CMulti fl xv yv n srcss dstss sig => tpafs (make_multi_pafs fl xv yv n srcss dstss sig)
  | CEdgePts insts edges =>
      let sd := get_edge_points insts edges in
      TList [tl_ (tl_ tkp) (fst sd); tl_ (tl_ tkp) (snd sd)]
  | CGen fl fb flat smp H W sig s edges =>
      if flat then tl_ (tl_ (tl_ (tl_ tterm))) (generate_pafs_flat fl fb smp H W sig s edges)
      else tpafs (generate_pafs fl fb smp H W sig s edges)
  | CPipe fl fb flat exs sig s edges => tl_ tpafs (datapipe fl fb exs sig s edges flat)
  end.
