(* Props.v (C05) — statements only.  Proofs: C05/Lemmas.v.

   Reading.  Model: C05/EdgeMaps.v.  A cell of the generated field is a list of
   terms (a, n, l2); `tval` = exp(a) * n / sqrt(l2) is a term's real value, `cval`
   the sum over the list, `pval` the value of an optional term after NaN -> 0.
   The property's vocabulary is defined over R independently of the model
   (Lemmas.v): `d2` squared distance, `pt_on s d t` = s + t(d-s), `on_segment`,
   `is_seg_dist2 s d p v` (v is THE squared distance from p to the closed segment:
   attained and minimal), `unit_vec_spec s d` = (d-s)/|d-s|, `paf_weight sig v` =
   exp(-(v^2)/(2 sig^2)) — the code's weight as a function of the squared distance v
   (it squares an already squared distance; still a non-increasing function of the
   distance, equal to 1 exactly at distance 0).
   `mweight fl sig s d x y` is the model's weight of edge s->d at image position (x,y).

   Variants.  fl = fixed_len (true = CURRENT tree, since fix 5bfaeb9: projection
   divided by len2, by 1 only when len2 = 0; false = PINNED tree before that fix,
   finding F1: divided by max(len2,1)), fb = fixed_box (true = CURRENT tree, since fix
   f00ee7f: closed box [0,W-1]x[0,H-1]; false = PINNED tree before that fix, finding
   F23: strict filter box (0,xv[-1])x(0,yv[-1])).  The harness detects which variants
   the code implements (now: true, true) and ties the `false` variants to the
   pre-repair source (proposed_fixes/C05_F1.diff, C05_F23.diff reverse-applied) on the
   corpus witnesses and a sample of cases.  Theorems quantified over fl / fb hold for
   all four combinations; the `..._refuted` / `..._partial` theorems and the F1 band
   (c05_weight_at_most_true_weight, c05_weight_at_least_shifted_weight) are about the
   HISTORIC variants: they document the repaired defects and let the check report a
   regression.
   `len_ok fl s d` = the edge is outside selector_F1 and not of zero length
   (fl = false: len2 >= 1;  fl = true: len2 > 0).

   Partial division (round 4).  The model's distance_to_edge (`dist_edge`,
   `dist_edge_div el` with an explicit divisor) and gaussian_pdf (`gauss_arg`) return
   `option Q`, None = not a finite number (division by 0).  `mweight` is the exp of what
   the model computes, 0 when that is None.  "Never NaN" below make_pafs therefore rests
   on c05_projection_divisor_positive (the division guard), via
   c05_distance_is_nan_iff_divisor_is_zero; ex_c05_unguarded_division_is_nan shows that
   without the guard coincident endpoints give NaN.

   Domain (round 4).  `in_domain fb samples H W s edges` (EdgeMaps.v; c05_in_domain_iff):
   at least one sample, stride >= 1, node indices of every edge in range for every kept
   animal.  Outside it the code raises (tie: case CGenChk) and the model's defaults
   describe nothing; the whole-field theorems carry it as a hypothesis.  `i*s < H`,
   `j*s < W` (a cell exists) imply H, W >= 1.

   Reading of "animals wholly outside the image" (review finding 2): an animal is its
   NODES; it is wholly outside iff no node lies in the closed pixel rectangle
   [0,W-1]x[0,H-1] (the code's comment: "keep the instances that have at least one node
   inside the image"; same filter as upstream SLEAP).  An animal whose two nodes lie
   outside on opposite sides, so that the segment between them crosses the image, is
   wholly outside in this reading and contributes exactly zero:
   ex_c05_crossing_animal_dropped.  "Weight 1 on the segment" is proved for kept
   animals. *)
From Coq Require Import List Arith ZArith QArith Qreals Reals.
Import ListNotations.
From Coq Require Import Permutation.
From SV Require Import C05.EdgeMaps C05.Lemmas C05.Wide.
Local Open Scope R_scope.

(* ---- the field as a whole: sum over the kept animals, channel order, no NaN ---- *)

(* channel 2e+c (edge e; c = 0: x, c = 1: y) of the flattened output, at grid cell
   (i,j) = image position (x,y) = (j*stride, i*stride), is the SUM over the animals
   that pass the in-image filter of each animal's own contribution; every term is
   well-defined (len2 > 0), has weight exponent <= 0 and |n| <= sqrt(len2) *)
Theorem c05_flat_cell_is_sum_over_kept_animals :
  forall fl fb samples H W sig s edges e a b c i j,
  (0 < sig)%Q -> in_domain fb samples H W s edges = true -> nth_error edges e = Some (a, b) -> (c < 2)%nat ->
  (i * s < H)%nat -> (j * s < W)%nat ->
  exists cl,
    cell3 (generate_pafs_flat fl fb samples H W sig s edges) (2 * e + c) i j = Some cl /\
    cval cl = Rsum (map (fun inst => pval (animal_contrib fl sig a b c (nat_Q (j * s)) (nat_Q (i * s)) inst))
                        (kept fb H W s (hd [] samples))) /\
    Forall term_ok cl.
Proof. exact flat_cell_dom. Qed.
Print Assumptions c05_flat_cell_is_sum_over_kept_animals.

(* same for the unflattened (E, 2, h, w) output *)
Theorem c05_cell_is_sum_over_kept_animals :
  forall fl fb samples H W sig s edges e a b c i j,
  in_domain fb samples H W s edges = true -> nth_error edges e = Some (a, b) -> (c < 2)%nat ->
  (i * s < H)%nat -> (j * s < W)%nat ->
  exists cl,
    cell4 (generate_pafs fl fb samples H W sig s edges) e c i j = Some cl /\
    cl = flat_map (fun inst => otl (animal_contrib fl sig a b c (nat_Q (j * s)) (nat_Q (i * s)) inst))
                  (kept fb H W s (hd [] samples)) /\
    cval cl = Rsum (map (fun inst => pval (animal_contrib fl sig a b c (nat_Q (j * s)) (nat_Q (i * s)) inst))
                        (kept fb H W s (hd [] samples))).
Proof. exact cell_dom. Qed.
Print Assumptions c05_cell_is_sum_over_kept_animals.

(* fields of several animals add *)
Theorem c05_fields_of_animals_add :
  forall fl fb l1 l2 rest H W sig s edges e a b c i j,
  (0 < s)%nat -> nth_error edges e = Some (a, b) -> (c < 2)%nat ->
  (i * s < H)%nat -> (j * s < W)%nat ->
  exists v v1 v2,
    cell4 (generate_pafs fl fb ((l1 ++ l2) :: rest) H W sig s edges) e c i j = Some v /\
    cell4 (generate_pafs fl fb (l1 :: rest) H W sig s edges) e c i j = Some v1 /\
    cell4 (generate_pafs fl fb (l2 :: rest) H W sig s edges) e c i j = Some v2 /\
    v = v1 ++ v2 /\ cval v = cval v1 + cval v2.
Proof. exact generate_pafs_additive. Qed.
Print Assumptions c05_fields_of_animals_add.

(* make_multi_pafs on arbitrary grid vectors: sum over the instances *)
Theorem c05_multi_pafs_is_sum :
  forall fl xv yv n_edges srcss dstss sig e c i j x y,
  nth_error yv i = Some y -> nth_error xv j = Some x -> (c < 2)%nat -> (e < n_edges)%nat ->
  Forall (fun sd => (e < length (fst sd))%nat /\ (e < length (snd sd))%nat) (combine srcss dstss) ->
  exists cl,
    cell4 (make_multi_pafs fl xv yv n_edges srcss dstss sig) e c i j = Some cl /\
    cl = flat_map (fun sd => otl (contrib fl sig e c x y sd)) (combine srcss dstss) /\
    cval cl = Rsum (map (fun sd => pval (contrib fl sig e c x y sd)) (combine srcss dstss)).
Proof. exact multi_pafs_cell. Qed.
Print Assumptions c05_multi_pafs_is_sum.

(* never NaN / inf: every term of every cell is well-defined and bounded by 1 *)
Theorem c05_terms_well_defined :
  forall fl fb samples H W sig s edges e c i j cl,
  (0 < sig)%Q ->
  cell4 (generate_pafs fl fb samples H W sig s edges) e c i j = Some cl -> Forall term_ok cl.
Proof. exact generate_pafs_terms_ok. Qed.
Print Assumptions c05_terms_well_defined.

Theorem c05_term_bounded : forall t, term_ok t -> Rabs (tval t) <= 1.
Proof. exact term_ok_bound. Qed.
Print Assumptions c05_term_bounded.

(* ---- one animal's contribution: weight * unit vector source -> destination ---- *)

Theorem c05_contribution_is_weight_times_unit_vector :
  forall fl sig a b c x y inst p q,
  node inst a = Some p -> node inst b = Some q -> ~ (len2 p q == 0)%Q ->
  pval (animal_contrib fl sig a b c x y inst) =
  mweight fl sig p q x y * comp c (unit_vec_spec (q2 p) (q2 q)).
Proof. exact animal_contrib_value. Qed.
Print Assumptions c05_contribution_is_weight_times_unit_vector.

Theorem c05_weight_range : forall fl sig s d x y, (0 < sig)%Q -> 0 < mweight fl sig s d x y <= 1.
Proof. exact mweight_range. Qed.
Print Assumptions c05_weight_range.

(* unit length, and pointing from the source to the destination: d - s = |d-s| * u, |d-s| > 0 *)
Theorem c05_unit_vector_norm : forall s d, 0 < d2 d s ->
  fst (unit_vec_spec s d) * fst (unit_vec_spec s d) + snd (unit_vec_spec s d) * snd (unit_vec_spec s d) = 1.
Proof. exact unit_vec_spec_norm. Qed.
Print Assumptions c05_unit_vector_norm.

Theorem c05_unit_vector_direction : forall s d, 0 < d2 d s ->
  0 < sqrt (d2 d s) /\
  fst d - fst s = sqrt (d2 d s) * fst (unit_vec_spec s d) /\
  snd d - snd s = sqrt (d2 d s) * snd (unit_vec_spec s d).
Proof. exact unit_vec_spec_direction. Qed.
Print Assumptions c05_unit_vector_direction.

(* ---- the weight and the true distance to the segment ---- *)

(* projection-clamp lemma: outside F1 the squared distance computed by the code IS the
   squared distance from the cell to the closed segment *)
Theorem c05_projected_distance_is_segment_distance_partial :
  forall fl s d x y, len_ok fl s d ->
  exists D, dist_edge fl s d x y = Some D /\ is_seg_dist2 (q2 s) (q2 d) (Q2R x, Q2R y) (Q2R D).
Proof. exact model_dist_is_seg_dist2. Qed.
Print Assumptions c05_projected_distance_is_segment_distance_partial.

Theorem c05_weight_is_function_of_true_distance_partial :
  forall fl sig s d x y v, (0 < sig)%Q -> len_ok fl s d ->
  is_seg_dist2 (q2 s) (q2 d) (Q2R x, Q2R y) v ->
  mweight fl sig s d x y = paf_weight (Q2R sig) v.
Proof. exact mweight_true_distance. Qed.
Print Assumptions c05_weight_is_function_of_true_distance_partial.

(* that function is non-increasing in the distance, strictly so, and 1 exactly at 0 *)
Theorem c05_paf_weight_nonincreasing : forall sig v1 v2,
  sig <> 0 -> 0 <= v1 <= v2 -> paf_weight sig v2 <= paf_weight sig v1.
Proof. exact paf_weight_monotone. Qed.
Print Assumptions c05_paf_weight_nonincreasing.

Theorem c05_paf_weight_strict : forall sig v1 v2,
  sig <> 0 -> 0 <= v1 < v2 -> paf_weight sig v2 < paf_weight sig v1.
Proof. exact paf_weight_strict. Qed.
Print Assumptions c05_paf_weight_strict.

Theorem c05_paf_weight_one_iff : forall sig v, sig <> 0 -> 0 <= v -> (paf_weight sig v = 1 <-> v = 0).
Proof. exact paf_weight_one_iff. Qed.
Print Assumptions c05_paf_weight_one_iff.

(* the true squared distance is unique, >= 0, and 0 exactly on the segment *)
Theorem c05_segment_distance_unique : forall s d p v1 v2,
  is_seg_dist2 s d p v1 -> is_seg_dist2 s d p v2 -> v1 = v2.
Proof. exact seg_dist2_unique. Qed.
Print Assumptions c05_segment_distance_unique.

Theorem c05_segment_distance_zero_iff_on_segment : forall s d p v,
  is_seg_dist2 s d p v -> (v = 0 <-> on_segment s d p).
Proof. exact seg_dist2_zero_iff. Qed.
Print Assumptions c05_segment_distance_zero_iff_on_segment.

(* weight 1 on the segment: FULL statement (every non-degenerate edge) is refuted for
   the pinned tree before fix 5bfaeb9 (fl = false, F1; HISTORIC variant), true outside the
   selector, true for all edges in the current tree (c05_repaired_weight_one_iff_on_segment) *)
Theorem c05_weight_one_on_segment_refuted :
  exists sig s d x y,
    (0 < sig)%Q /\ selector_F1 false s d = true /\ ~ (len2 s d == 0)%Q /\
    on_segment (q2 s) (q2 d) (Q2R x, Q2R y) /\ mweight false sig s d x y < 1.
Proof. exact mweight_on_segment_refuted. Qed.
Print Assumptions c05_weight_one_on_segment_refuted.

Theorem c05_weight_one_on_segment_partial :
  forall fl sig s d x y, (0 < sig)%Q -> len_ok fl s d ->
  on_segment (q2 s) (q2 d) (Q2R x, Q2R y) -> mweight fl sig s d x y = 1.
Proof. exact mweight_on_segment. Qed.
Print Assumptions c05_weight_one_on_segment_partial.

Theorem c05_weight_one_only_on_segment_partial :
  forall fl sig s d x y, (0 < sig)%Q -> len_ok fl s d ->
  mweight fl sig s d x y = 1 -> on_segment (q2 s) (q2 d) (Q2R x, Q2R y).
Proof. exact mweight_one_only_on_segment. Qed.
Print Assumptions c05_weight_one_only_on_segment_partial.

Theorem c05_weight_nonincreasing_in_true_distance_partial :
  forall fl sig s d x1 y1 x2 y2 v1 v2, (0 < sig)%Q -> len_ok fl s d ->
  is_seg_dist2 (q2 s) (q2 d) (Q2R x1, Q2R y1) v1 ->
  is_seg_dist2 (q2 s) (q2 d) (Q2R x2, Q2R y2) v2 ->
  v1 <= v2 -> mweight fl sig s d x2 y2 <= mweight fl sig s d x1 y1.
Proof. exact mweight_nonincreasing. Qed.
Print Assumptions c05_weight_nonincreasing_in_true_distance_partial.

(* what len_ok means in the two variants; after the repair the partial theorems are full *)
Theorem c05_len_ok_when_at_least_one_pixel : forall fl s d, (1 <= len2 s d)%Q -> len_ok fl s d.
Proof. exact len_ok_of_ge1. Qed.
Print Assumptions c05_len_ok_when_at_least_one_pixel.

Theorem c05_len_ok_after_repair : forall s d, ~ (len2 s d == 0)%Q -> len_ok true s d.
Proof. exact len_ok_fixed. Qed.
Print Assumptions c05_len_ok_after_repair.

(* inside F1 (HISTORIC variant fl = false; for fl = true these two are implied by
   c05_repaired_weight_is_function_of_true_distance) the weight is still never larger than
   the one of the true distance *)
Theorem c05_weight_at_most_true_weight : forall fl sig s d x y v,
  (0 < sig)%Q -> is_seg_dist2 (q2 s) (q2 d) (Q2R x, Q2R y) v ->
  mweight fl sig s d x y <= paf_weight (Q2R sig) v.
Proof. exact mweight_le_true. Qed.
Print Assumptions c05_weight_at_most_true_weight.

(* ... and never below the weight of (true distance + edge length): the error made
   inside F1 is bounded by the sub-pixel length of the edge (the harness attributes a
   failure on a short edge to F1 only inside this band) *)
Theorem c05_weight_at_least_shifted_weight : forall fl sig s d x y v,
  (0 < sig)%Q -> is_seg_dist2 (q2 s) (q2 d) (Q2R x, Q2R y) v ->
  paf_weight (Q2R sig) ((sqrt v + sqrt (d2 (q2 d) (q2 s))) * (sqrt v + sqrt (d2 (q2 d) (q2 s))))
  <= mweight fl sig s d x y.
Proof. exact mweight_ge_shifted. Qed.
Print Assumptions c05_weight_at_least_shifted_weight.

(* a kept animal's edge outside F1 puts exactly the unit vector on the cells of its segment *)
Theorem c05_unit_vector_on_segment_partial :
  forall fl sig a b c x y inst p q,
  (0 < sig)%Q -> node inst a = Some p -> node inst b = Some q -> len_ok fl p q ->
  on_segment (q2 p) (q2 q) (Q2R x, Q2R y) ->
  pval (animal_contrib fl sig a b c x y inst) = comp c (unit_vec_spec (q2 p) (q2 q)).
Proof. exact on_segment_contribution. Qed.
Print Assumptions c05_unit_vector_on_segment_partial.

(* ---- exact zeros ---- *)

(* a missing endpoint = the node exists (index in range: outside, torch raises IndexError)
   and is NaN *)
Theorem c05_missing_endpoint_contributes_zero : forall fl sig a b c x y inst,
  (a < length inst)%nat -> (b < length inst)%nat ->
  nth_error inst a = Some None \/ nth_error inst b = Some None ->
  animal_contrib fl sig a b c x y inst = None.
Proof. exact animal_contrib_missing_dom. Qed.
Print Assumptions c05_missing_endpoint_contributes_zero.

Theorem c05_zero_length_edge_contributes_zero : forall fl sig a b c x y inst p q,
  node inst a = Some p -> node inst b = Some q -> (len2 p q == 0)%Q ->
  animal_contrib fl sig a b c x y inst = None.
Proof. exact animal_contrib_zero_length. Qed.
Print Assumptions c05_zero_length_edge_contributes_zero.

(* an animal with no node in the closed image rectangle [0,W-1]x[0,H-1] ("wholly outside":
   see the header for this reading) is dropped (by the current filter and by the historic
   one) and a dropped animal changes nothing *)
Theorem c05_animal_outside_image_is_dropped : forall fb H W s inst,
  (0 < s)%nat -> (0 < H)%nat -> (0 < W)%nat ->
  (forall p, In p inst -> node_in_closed (nat_Q (W - 1)) (nat_Q (H - 1)) p = false) ->
  in_img fb H W (grid W s) (grid H s) inst = false.
Proof. exact wholly_outside_dropped. Qed.
Print Assumptions c05_animal_outside_image_is_dropped.

Theorem c05_dropped_animal_contributes_nothing : forall fl fb l1 inst l2 rest H W sig s edges,
  in_img fb H W (grid W s) (grid H s) inst = false ->
  generate_pafs fl fb ((l1 ++ inst :: l2) :: rest) H W sig s edges =
  generate_pafs fl fb ((l1 ++ l2) :: rest) H W sig s edges.
Proof. exact dropped_animal_no_effect. Qed.
Print Assumptions c05_dropped_animal_contributes_nothing.

(* ---- which animals are kept (F23; the fb = false theorems are about the HISTORIC
   filter of the pinned tree before fix f00ee7f; xv, yv non-empty = W, H >= 1) ---- *)

Theorem c05_code_filter_keeps : forall H W xv yv inst,
  in_img false H W xv yv inst = true <->
  exists x y, In (Some (x, y)) inst /\ (0 < x)%Q /\ (x < last xv 0)%Q /\ (0 < y)%Q /\ (y < last yv 0)%Q.
Proof. exact strict_box_keeps. Qed.
Print Assumptions c05_code_filter_keeps.

Theorem c05_last_grid_coordinate : forall n s, (0 < s)%nat -> (0 < n)%nat ->
  last (grid n s) 0%Q = nat_Q ((ceil_div n s - 1) * s) /\ ((ceil_div n s - 1) * s <= n - 1)%nat.
Proof. exact grid_last. Qed.
Print Assumptions c05_last_grid_coordinate.

(* FULL statement "an animal with a node inside the image is kept" is refuted for the
   HISTORIC filter (fb = false): the animal (0,2)-(0,5) in an 8x8 image is dropped and cell (x=0,y=3),
   which lies on its segment, holds no term (value 0 instead of the unit vector) *)
Theorem c05_in_image_animal_kept_refuted :
  exists H W s inst,
    (0 < s)%nat /\ selector_strict_box H W s inst = true /\
    (exists p, In p inst /\ node_in_closed (nat_Q (W - 1)) (nat_Q (H - 1)) p = true) /\
    in_img false H W (grid W s) (grid H s) inst = false /\
    on_segment (q2 (0, 2)%Q) (q2 (0, 5)%Q) (Q2R (nat_Q (0 * s)), Q2R (nat_Q (3 * s))) /\
    node inst 0 = Some (0, 2)%Q /\ node inst 1 = Some (0, 5)%Q /\
    cell4 (generate_pafs false false [[inst]] H W (3#2) s [(0, 1)%nat]) 0 1 3 0 = Some [].
Proof. exact in_image_animal_kept_refuted. Qed.
Print Assumptions c05_in_image_animal_kept_refuted.

Theorem c05_in_image_animal_kept_partial : forall H W s inst,
  selector_strict_box H W s inst = false ->
  (exists p, In p inst /\ node_in_closed (nat_Q (W - 1)) (nat_Q (H - 1)) p = true) ->
  in_img false H W (grid W s) (grid H s) inst = true.
Proof. exact in_image_animal_kept_partial. Qed.
Print Assumptions c05_in_image_animal_kept_partial.

(* current tree: kept iff a node lies in the closed image rectangle (W, H >= 1) *)
Theorem c05_repaired_filter_keeps_in_image_animals : forall H W xv yv inst,
  (0 < H)%nat -> (0 < W)%nat ->
  (in_img true H W xv yv inst = true <->
   exists x y, In (Some (x, y)) inst /\ (0 <= x <= nat_Q W - 1)%Q /\ (0 <= y <= nat_Q H - 1)%Q).
Proof. exact fixed_box_keeps_in_image_dom. Qed.
Print Assumptions c05_repaired_filter_keeps_in_image_animals.

(* ---- shape and channel order ---- *)

(* shape (2E, ceil(H/s), ceil(W/s)): `torch.arange(0, n, s)` has ceil(n/s) entries; the
   statement's "H/stride" is exact for multiples of the stride (c05_grid_size_exact) *)
Theorem c05_shape : forall fl fb samples H W sig s edges,
  in_domain fb samples H W s edges = true ->
  shape4 (length edges) (ceil_div H s) (ceil_div W s) (generate_pafs fl fb samples H W sig s edges).
Proof. exact shape_dom. Qed.
Print Assumptions c05_shape.

Theorem c05_flat_shape : forall fl fb samples H W sig s edges,
  in_domain fb samples H W s edges = true ->
  length (generate_pafs_flat fl fb samples H W sig s edges) = (2 * length edges)%nat /\
  Forall (chan_ok (ceil_div H s) (ceil_div W s)) (generate_pafs_flat fl fb samples H W sig s edges).
Proof. exact flat_shape_dom. Qed.
Print Assumptions c05_flat_shape.

Theorem c05_grid_size_exact : forall q s, (0 < s)%nat -> ceil_div (q * s) s = q.
Proof. exact ceil_div_exact. Qed.
Print Assumptions c05_grid_size_exact.

(* channels ordered edge0.x, edge0.y, edge1.x, ... *)
Theorem c05_channel_order : forall fl fb samples H W sig s edges e c i j,
  in_domain fb samples H W s edges = true ->
  (e < length edges)%nat -> (c < 2)%nat ->
  cell3 (generate_pafs_flat fl fb samples H W sig s edges) (2 * e + c) i j =
  cell4 (generate_pafs fl fb samples H W sig s edges) e c i j.
Proof. exact flat_channel_dom. Qed.
Print Assumptions c05_channel_order.

(* (_def: unfolds the model) the DataPipe yields one field per example, equal to
   generate_pafs on that example *)
Theorem c05_datapipe : forall fl fb exs sig s edges flat k H W smp,
  nth_error exs k = Some (H, W, smp) ->
  nth_error (datapipe fl fb exs sig s edges flat) k =
  Some (if flat then [generate_pafs_flat fl fb smp H W sig s edges]
        else generate_pafs fl fb smp H W sig s edges).
Proof. exact datapipe_nth. Qed.
Print Assumptions c05_datapipe.

(* ==== round 2: widened statements (proofs: C05/Wide.v) ==== *)

(* ---- the whole property in one statement, for the CURRENT tree (fixed_len = true,
   fixed_box = true: the variants the harness detects on /repo), on the domain of
   generate_pafs (in_domain: a sample exists, stride >= 1, node indices in range) ----
   `spec_contrib sig a b c p inst v` (Wide.v) is the property's own description of what
   one animal contributes to component c of edge (a,b) at image position p: v = 0 if an
   endpoint is missing or the two endpoints coincide, otherwise
   v = paf_weight sig D * (component c of the unit vector source -> destination) where D
   is THE squared distance from p to the closed segment.  Channel 2e+c of the flattened
   output, cell (i,j) = image position (j*stride, i*stride): the value is the sum of
   exactly these contributions over the animals of sample 0 that have a node in the
   closed image rectangle [0,W-1]x[0,H-1] (each of which has both nodes of the edge in
   range, so that "endpoint missing" in spec_contrib means a NaN keypoint); every term is
   well defined (never NaN). *)
Theorem c05_repaired_field_is_sum_of_weighted_unit_vectors :
  forall samples H W sig s edges e a b c i j,
  (0 < sig)%Q -> in_domain true samples H W s edges = true ->
  nth_error edges e = Some (a, b) -> (c < 2)%nat ->
  (i * s < H)%nat -> (j * s < W)%nat ->
  exists cl vs,
    cell3 (generate_pafs_flat true true samples H W sig s edges) (2 * e + c) i j = Some cl /\
    Forall2 (spec_contrib (Q2R sig) a b c (INR (j * s), INR (i * s)))
            (filter (existsb (node_in_closed (nat_Q (W - 1)) (nat_Q (H - 1)))) (hd [] samples)) vs /\
    Forall (fun inst => (a < length inst)%nat /\ (b < length inst)%nat)
           (filter (existsb (node_in_closed (nat_Q (W - 1)) (nat_Q (H - 1)))) (hd [] samples)) /\
    cval cl = Rsum vs /\ Forall term_ok cl.
Proof. exact repaired_field_spec_dom. Qed.
Print Assumptions c05_repaired_field_is_sum_of_weighted_unit_vectors.

(* spec_contrib pins the value down (so the theorem above determines every cell) *)
Theorem c05_spec_contribution_unique : forall sig a b c p inst v1 v2,
  spec_contrib sig a b c p inst v1 -> spec_contrib sig a b c p inst v2 -> v1 = v2.
Proof. exact spec_contrib_unique. Qed.
Print Assumptions c05_spec_contribution_unique.

(* ---- after the repair of F1 the projection-clamp statements hold for EVERY edge,
   zero-length ones included (distance_to_edge / make_edge_maps are public and are
   defined for coincident endpoints: the segment is the point itself) ---- *)
Theorem c05_repaired_projected_distance_is_segment_distance : forall s d x y,
  exists D, dist_edge true s d x y = Some D /\ is_seg_dist2 (q2 s) (q2 d) (Q2R x, Q2R y) (Q2R D).
Proof. exact repaired_dist_is_seg_dist2. Qed.
Print Assumptions c05_repaired_projected_distance_is_segment_distance.

Theorem c05_repaired_weight_is_function_of_true_distance : forall sig s d x y v,
  (0 < sig)%Q -> is_seg_dist2 (q2 s) (q2 d) (Q2R x, Q2R y) v ->
  mweight true sig s d x y = paf_weight (Q2R sig) v.
Proof. exact repaired_weight_true_distance. Qed.
Print Assumptions c05_repaired_weight_is_function_of_true_distance.

Theorem c05_repaired_weight_one_iff_on_segment : forall sig s d x y,
  (0 < sig)%Q ->
  (mweight true sig s d x y = 1 <-> on_segment (q2 s) (q2 d) (Q2R x, Q2R y)).
Proof. exact repaired_weight_one_iff_on_segment. Qed.
Print Assumptions c05_repaired_weight_one_iff_on_segment.

Theorem c05_repaired_weight_nonincreasing_in_true_distance : forall sig s d x1 y1 x2 y2 v1 v2,
  (0 < sig)%Q ->
  is_seg_dist2 (q2 s) (q2 d) (Q2R x1, Q2R y1) v1 ->
  is_seg_dist2 (q2 s) (q2 d) (Q2R x2, Q2R y2) v2 ->
  v1 <= v2 -> mweight true sig s d x2 y2 <= mweight true sig s d x1 y1.
Proof. exact repaired_weight_nonincreasing. Qed.
Print Assumptions c05_repaired_weight_nonincreasing_in_true_distance.

(* ---- never NaN below make_pafs.  The model's division is partial: distance_to_edge with
   divisor el is NaN (None) exactly when el = 0.  The code's divisor, the guarded edge
   length, is strictly positive for every edge in both variants (c05_projection_divisor_
   positive: THE division guard), hence distance_to_edge is NaN exactly when an endpoint is
   (Lemmas.dist_edge_some is proved from edge_len_pos; the four theorems below that say
   "defined" all go through it); without the guard (divisor len2 itself) coincident endpoints
   give NaN.  The distance is >= 0; a zero-length edge's distance is the squared distance to
   the point; for sigma > 0 make_edge_maps is the exp of a number <= 0 ---- *)
Theorem c05_projection_divisor_positive : forall fl s d, (0 < edge_len fl (len2 s d))%Q.
Proof. exact edge_len_pos. Qed.
Print Assumptions c05_projection_divisor_positive.

Theorem c05_distance_is_nan_iff_divisor_is_zero : forall el s d x y,
  dist_edge_div el s d x y = None <-> (el == 0)%Q.
Proof. exact dist_edge_div_none_iff. Qed.
Print Assumptions c05_distance_is_nan_iff_divisor_is_zero.

(* the unguarded code (divisor = len2) is NaN exactly on zero-length edges *)
Theorem c05_unguarded_distance_nan_iff_zero_length : forall s d x y,
  (len2 s d == 0)%Q <-> dist_edge_div (len2 s d) s d x y = None.
Proof. exact unguarded_dist_nan. Qed.
Print Assumptions c05_unguarded_distance_nan_iff_zero_length.

(* the code's distance_to_edge = the guarded divisor plugged in (_def), and it is defined *)
Theorem c05_distance_defined_for_finite_endpoints : forall fl s d x y,
  dist_edge fl s d x y = dist_edge_div (edge_len fl (len2 s d)) s d x y /\
  exists D, dist_edge fl s d x y = Some D.
Proof. exact dist_edge_defined. Qed.
Print Assumptions c05_distance_defined_for_finite_endpoints.

(* gaussian_pdf: NaN / not a weight exactly for sigma = 0 (outside the domain) *)
Theorem c05_gaussian_defined_iff_sigma_nonzero : forall sig x, gauss_arg sig x = None <-> (sig == 0)%Q.
Proof. exact gauss_arg_none_iff. Qed.
Print Assumptions c05_gaussian_defined_iff_sigma_nonzero.

Theorem c05_distance_defined_iff_endpoints_visible : forall fl s d x y,
  dist_edge_opt fl s d x y = None <-> s = None \/ d = None.
Proof. exact dist_edge_opt_none_iff. Qed.
Print Assumptions c05_distance_defined_iff_endpoints_visible.

Theorem c05_distance_nonnegative : forall fl s d x y,
  exists D, dist_edge fl s d x y = Some D /\ (0 <= D)%Q.
Proof. exact dist_edge_nonneg. Qed.
Print Assumptions c05_distance_nonnegative.

Theorem c05_zero_length_edge_distance_is_point_distance : forall fl s d x y,
  (len2 s d == 0)%Q ->
  exists D, dist_edge fl s d x y = Some D /\ (D == sq (x - fst s) + sq (y - snd s))%Q.
Proof. exact dist_edge_degenerate. Qed.
Print Assumptions c05_zero_length_edge_distance_is_point_distance.

(* (_def: unfolds the model) *)
Theorem c05_edge_maps_cellwise : forall fl xv yv srcs dsts sig,
  make_edge_maps fl xv yv srcs dsts sig =
  map (fun y => map (fun x => map2 (fun s d => obind (gauss_arg sig) (dist_edge_opt fl s d x y))
                                   srcs dsts) xv) yv.
Proof. exact make_edge_maps_eq. Qed.
Print Assumptions c05_edge_maps_cellwise.

Theorem c05_edge_map_defined_for_visible_endpoints : forall fl sig s d x y,
  (0 < sig)%Q ->
  exists a, obind (gauss_arg sig) (dist_edge_opt fl (Some s) (Some d) x y) = Some a /\
            (a <= 0)%Q /\ exp (Q2R a) = mweight fl sig s d x y.
Proof. exact edge_map_cell_defined. Qed.
Print Assumptions c05_edge_map_defined_for_visible_endpoints.

(* tensor level: with every endpoint visible (coincident or not) no entry of
   distance_to_edge / make_edge_maps is NaN, distances are >= 0 and the exponents <= 0 *)
Theorem c05_distance_to_edge_never_nan : forall fl pts srcs dsts,
  Forall (fun p : kp => p <> None) srcs -> Forall (fun p : kp => p <> None) dsts ->
  Forall (Forall (Forall (fun o : option Q => exists v, o = Some v /\ (0 <= v)%Q)))
         (distance_to_edge fl pts srcs dsts).
Proof. exact distance_to_edge_defined. Qed.
Print Assumptions c05_distance_to_edge_never_nan.

Theorem c05_edge_maps_never_nan : forall fl xv yv srcs dsts sig,
  (0 < sig)%Q ->
  Forall (fun p : kp => p <> None) srcs -> Forall (fun p : kp => p <> None) dsts ->
  Forall (Forall (Forall (fun o : option Q => exists a, o = Some a /\ (a <= 0)%Q)))
         (make_edge_maps fl xv yv srcs dsts sig).
Proof. exact make_edge_maps_defined. Qed.
Print Assumptions c05_edge_maps_never_nan.

(* (_def: unfolds the model) get_edge_points is indexing: (animal k, edge e = (a,b)) -> (node a, node b) of animal k *)
Theorem c05_get_edge_points : forall insts edges k e inst a b,
  nth_error insts k = Some inst -> nth_error edges e = Some (a, b) ->
  (exists row, nth_error (fst (get_edge_points insts edges)) k = Some row /\
               nth_error row e = Some (node inst a)) /\
  (exists row, nth_error (snd (get_edge_points insts edges)) k = Some row /\
               nth_error row e = Some (node inst b)).
Proof. exact get_edge_points_nth. Qed.
Print Assumptions c05_get_edge_points.

(* ---- edge lists: a self loop (u,u) contributes exactly zero; the reversed edge (b,a)
   holds minus the field of (a,b); an edge listed twice gets identical channels ---- *)
Theorem c05_self_loop_contributes_zero : forall fl sig a c x y inst,
  animal_contrib fl sig a a c x y inst = None.
Proof. exact self_loop_zero. Qed.
Print Assumptions c05_self_loop_contributes_zero.

Theorem c05_repaired_reversed_edge_negates : forall sig a b c x y inst,
  (0 < sig)%Q ->
  pval (animal_contrib true sig b a c x y inst) = - pval (animal_contrib true sig a b c x y inst).
Proof. exact reversed_edge_negates. Qed.
Print Assumptions c05_repaired_reversed_edge_negates.

Theorem c05_duplicate_edges_equal_channels : forall fl fb samples H W sig s edges e e' ab c i j,
  (0 < s)%nat -> nth_error edges e = Some ab -> nth_error edges e' = Some ab -> (c < 2)%nat ->
  (i * s < H)%nat -> (j * s < W)%nat ->
  cell4 (generate_pafs fl fb samples H W sig s edges) e c i j =
  cell4 (generate_pafs fl fb samples H W sig s edges) e' c i j.
Proof. exact duplicate_edges_equal_channels. Qed.
Print Assumptions c05_duplicate_edges_equal_channels.

(* ---- "fields add" is order-free: permuting the animals permutes the terms of every cell
   and leaves its value unchanged (NaN padding anywhere in the list changes nothing);
   only sample 0 of the (n_samples, ...) input is read, as documented ("n_samples=1") ---- *)
Theorem c05_animal_order_irrelevant : forall fl fb l1 l2 rest H W sig s edges e a b c i j,
  Permutation l1 l2 ->
  (0 < s)%nat -> nth_error edges e = Some (a, b) -> (c < 2)%nat ->
  (i * s < H)%nat -> (j * s < W)%nat ->
  exists v1 v2,
    cell4 (generate_pafs fl fb (l1 :: rest) H W sig s edges) e c i j = Some v1 /\
    cell4 (generate_pafs fl fb (l2 :: rest) H W sig s edges) e c i j = Some v2 /\
    Permutation v1 v2 /\ cval v1 = cval v2.
Proof. exact animal_order_irrelevant. Qed.
Print Assumptions c05_animal_order_irrelevant.

(* the same one level down, for make_multi_pafs itself (no filter): permuting the instances
   permutes the terms of every cell; an instance whose edge e has a missing endpoint (NaN
   padding, wherever it stands in the list) contributes no term to edge e *)
Theorem c05_multi_pafs_order_irrelevant :
  forall fl xv yv n_edges srcss1 dstss1 srcss2 dstss2 sig e c i j x y,
  nth_error yv i = Some y -> nth_error xv j = Some x -> (c < 2)%nat -> (e < n_edges)%nat ->
  Forall (fun sd => (e < length (fst sd))%nat /\ (e < length (snd sd))%nat) (combine srcss1 dstss1) ->
  Permutation (combine srcss1 dstss1) (combine srcss2 dstss2) ->
  exists v1 v2,
    cell4 (make_multi_pafs fl xv yv n_edges srcss1 dstss1 sig) e c i j = Some v1 /\
    cell4 (make_multi_pafs fl xv yv n_edges srcss2 dstss2 sig) e c i j = Some v2 /\
    Permutation v1 v2 /\ cval v1 = cval v2.
Proof. exact multi_pafs_order_irrelevant. Qed.
Print Assumptions c05_multi_pafs_order_irrelevant.

(* what a non-degenerate instance contributes to a cell of make_multi_pafs (the terms summed
   by c05_multi_pafs_is_sum), in the property's vocabulary *)
Theorem c05_multi_pafs_contribution_is_weight_times_unit_vector : forall fl sig e c x y sd p q,
  @nth kp e (fst sd) None = Some p -> @nth kp e (snd sd) None = Some q -> ~ (len2 p q == 0)%Q ->
  pval (contrib fl sig e c x y sd) = mweight fl sig p q x y * comp c (unit_vec_spec (q2 p) (q2 q)).
Proof. exact contrib_value. Qed.
Print Assumptions c05_multi_pafs_contribution_is_weight_times_unit_vector.

(* (_def) *)
Theorem c05_padding_instance_contributes_nothing : forall fl sig e c x y sd,
  @nth kp e (fst sd) None = None \/ @nth kp e (snd sd) None = None -> contrib fl sig e c x y sd = None.
Proof. exact padding_contributes_nothing. Qed.
Print Assumptions c05_padding_instance_contributes_nothing.

(* (_def: reflexivity) *)
Theorem c05_only_sample_0_is_used : forall fl fb smp rest H W sig s edges,
  generate_pafs fl fb (smp :: rest) H W sig s edges = generate_pafs fl fb [smp] H W sig s edges.
Proof. exact only_sample_0. Qed.
Print Assumptions c05_only_sample_0_is_used.

(* non-vacuity: concrete inputs meet the hypotheses; a kept animal's cell on its segment
   holds exactly one term *)
Example ex_c05_nonvacuous :
  exists t, cell4 (generate_pafs false false [[[Some (1, 2)%Q; Some (1, 5)%Q]]] 8 8 (3#2)%Q 1 [(0, 1)%nat]) 0 1 3 1
            = Some [t].
Proof. eexists. vm_compute. reflexivity. Qed.

Example ex_c05_len_ok : len_ok false (1, 2)%Q (1, 5)%Q.
Proof. apply len_ok_of_ge1. vm_compute. discriminate. Qed.

(* non-vacuity of the round-2 statements *)
Example ex_c05_spec_contrib_zero_length :
  spec_contrib 1 0 1 0 (0, 0) [Some (1, 2)%Q; Some (1, 2)%Q] 0.
Proof. unfold spec_contrib. cbn [node nth]. split; [reflexivity|]. intros H. exfalso. apply H. vm_compute. reflexivity. Qed.

Example ex_c05_repaired_border_animal_kept :
  exists t, cell3 (generate_pafs_flat true true [[[Some (0, 2)%Q; Some (0, 5)%Q]]] 8 8 (3#2)%Q 1 [(0, 1)%nat]) 1 3 0
            = Some [t].
Proof. eexists. vm_compute. reflexivity. Qed.

Example ex_c05_degenerate_edge_map :
  exists D, dist_edge true (1, 2)%Q (1, 2)%Q 4 6 = Some D /\ (D == 25)%Q.
Proof. eexists. split; [vm_compute; reflexivity|vm_compute; reflexivity]. Qed.

(* ... and the same coincident endpoints WITHOUT the guard (divisor len2 = 0): NaN.  The
   division guard is what c05_distance_to_edge_never_nan rests on. *)
Example ex_c05_unguarded_division_is_nan :
  dist_edge_div (len2 (1, 2)%Q (1, 2)%Q) (1, 2)%Q (1, 2)%Q 4 6 = None /\
  (forall fl, exists D, dist_edge fl (1, 2)%Q (1, 2)%Q 4 6 = Some D).
Proof. split; [vm_compute; reflexivity|]. intros fl. eexists. apply dist_edge_some. Qed.

(* sigma = 0 (outside the domain): no weight *)
Example ex_c05_sigma_zero_no_weight : gauss_arg 0 5 = None.
Proof. vm_compute. reflexivity. Qed.

Example ex_c05_permutation : Permutation [[Some (1, 2)%Q]; [None]] [[None]; [Some (1, 2)%Q]].
Proof. apply perm_swap. Qed.

Example ex_c05_coincident_endpoints_edge_map_defined :
  make_edge_maps true [0; 1]%Q [0]%Q [Some (1, 0)%Q] [Some (1, 0)%Q] 1 = [[[Some (-1#2)%Q]; [Some (0#2)%Q]]].
Proof. vm_compute. reflexivity. Qed.

(* ---- round 4: the domain of generate_pafs and the reading of "wholly outside" ---- *)

(* what in_domain says; outside it the code raises (IndexError / RuntimeError; tie: CGenChk) *)
Theorem c05_in_domain_iff : forall fb samples H W s edges,
  in_domain fb samples H W s edges = true <->
  exists smp rest, samples = smp :: rest /\ (0 < s)%nat /\
    forall inst, In inst (kept fb H W s smp) ->
      forall e a b, nth_error edges e = Some (a, b) -> (a < length inst)%nat /\ (b < length inst)%nat.
Proof. exact in_domain_iff. Qed.
Print Assumptions c05_in_domain_iff.

(* (_def) the checked entry point: an output exactly on the domain *)
Theorem c05_checked_entry_point : forall fl fb samples H W sig s edges out,
  generate_pafs_checked fl fb samples H W sig s edges = Some out <->
  in_domain fb samples H W s edges = true /\ out = generate_pafs fl fb samples H W sig s edges.
Proof. exact checked_some_iff. Qed.
Print Assumptions c05_checked_entry_point.

Example ex_c05_in_domain :
  in_domain true [[[Some (1, 1)%Q; Some (3, 1)%Q]]] 4 4 1 [(0, 1)%nat] = true /\
  in_domain true [[[Some (1, 1)%Q; Some (3, 1)%Q]]] 4 4 1 [(0, 7)%nat] = false /\   (* IndexError *)
  in_domain true [[[Some (9, 9)%Q; Some (9, 8)%Q]]] 4 4 1 [(0, 7)%nat] = true /\    (* no kept animal: torch does not index *)
  in_domain true [] 4 4 1 [(0, 1)%nat] = false /\                                  (* instances[0]: IndexError *)
  in_domain true [[[Some (1, 1)%Q; Some (3, 1)%Q]]] 4 4 0 [(0, 1)%nat] = false.    (* arange step 0: RuntimeError *)
Proof. vm_compute. repeat split; reflexivity. Qed.

(* review finding 2: both nodes outside (x = -2 and x = 6, image 4x4), the segment between
   them crosses the image and grid cell (x=2, y=1) lies on it; the animal has no node in the
   image = is wholly outside, is dropped and the cell holds no term (value 0).  With one
   node moved into the image the same cell holds a term. *)
Example ex_c05_crossing_animal_dropped :
  in_img true 4 4 (grid 4 1) (grid 4 1) [Some (-2, 1)%Q; Some (6, 1)%Q] = false /\
  on_segment (q2 (-2, 1)%Q) (q2 (6, 1)%Q) (Q2R 2, Q2R 1) /\
  cell3 (generate_pafs_flat true true [[[Some (-2, 1)%Q; Some (6, 1)%Q]]] 4 4 2 1 [(0, 1)%nat]) 0 1 2 = Some [] /\
  exists t, cell3 (generate_pafs_flat true true [[[Some (0, 1)%Q; Some (6, 1)%Q]]] 4 4 2 1 [(0, 1)%nat]) 0 1 2 = Some [t].
Proof.
  split; [vm_compute; reflexivity|]. split; [exact crossing_on_segment|].
  split; [vm_compute; reflexivity|]. eexists. vm_compute. reflexivity.
Qed.

(* round 5 (large images): the harness evaluates `sample_cell` on a sample of cells instead of
   the whole field; on the domain it is defined exactly inside the output's shape and IS the cell
   of generate_pafs (unflattened and flattened: channel 2e+c).  The model is exact at every
   magnitude; the float32 rounding of the code is bounded in the harness, not here. *)
Theorem c05_sampled_cell_is_cell_of_field :
  forall fl fb samples H W sig s edges e c i j cl,
  in_domain fb samples H W s edges = true ->
  sample_cell fl fb samples H W sig s edges (e, c, i, j) = Some cl ->
  cell4 (generate_pafs fl fb samples H W sig s edges) e c i j = Some cl /\
  cell3 (generate_pafs_flat fl fb samples H W sig s edges) (2 * e + c) i j = Some cl.
Proof. exact sample_cell_spec. Qed.
Print Assumptions c05_sampled_cell_is_cell_of_field.

Theorem c05_sampled_cell_defined_inside_shape :
  forall fl fb samples H W sig s edges e a b c i j,
  nth_error edges e = Some (a, b) -> (c < 2)%nat -> (i * s < H)%nat -> (j * s < W)%nat ->
  exists cl, sample_cell fl fb samples H W sig s edges (e, c, i, j) = Some cl.
Proof. exact sample_cell_defined. Qed.
Print Assumptions c05_sampled_cell_defined_inside_shape.

(* non-vacuity: a 1000-px edge with non-dyadic endpoints in a 1024 x 1280 image, stride 4: the cell
   at image point (600, 500) holds exactly one term *)
Example ex_c05_sampled_cell_large :
  exists t, sample_cell true true [[[Some (877#10, 19139#100)%Q; Some (11123#10, 90861#100)%Q]]]
              1024 1280 (3#2) 4 [(0, 1)%nat] (0, 0, 125, 150)%nat = Some [t].
Proof. eexists. vm_compute. reflexivity. Qed.

(* round 5: the bracket used by the harness in the large-image regime.  HYPOTHESIS, not proved in Coq:
   the code's computed distance D' is within eps of the true distance D, eps = 16 * 2^-24 *
   max(|p - src|, |dst - src|) for the difference form of distance_to_edge (float32 rounding analysis in
   harness/props/c05.py; valid for any magnitude without overflow, tested up to 1100 x 1300 px).
   CONCLUSION: the weight formed from D'^2 lies between the true weights at D + eps and max(0, D - eps);
   in particular on the segment (D = 0) it is >= paf_weight sig (eps^2). *)
Theorem c05_weight_bracket_under_distance_error :
  forall sig D D' eps,
  sig <> 0 -> 0 <= D -> 0 <= D' -> Rabs (D' - D) <= eps ->
  paf_weight sig ((D + eps) * (D + eps)) <= paf_weight sig (D' * D') <=
  paf_weight sig (Rmax 0 (D - eps) * Rmax 0 (D - eps)).
Proof. exact weight_bracket. Qed.
Print Assumptions c05_weight_bracket_under_distance_error.
