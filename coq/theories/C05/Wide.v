(* Wide.v (C05, round 2) — proofs of the widened statements of Props.v:
   * "never NaN" below make_pafs: the model's division is partial (None for divisor 0);
     the divisor of the projection is > 0 for EVERY edge in both variants
     (Lemmas.edge_len_pos -> dist_edge_some), so distance_to_edge / make_edge_maps are
     defined for coincident endpoints too; a zero-length edge's distance is the distance to
     the point; the current tree's distance (fixed_len = true) IS the segment distance for every edge,
     degenerate or not;
   * edge lists: self loops, reversed duplicates, repeated edges;
   * animal order is irrelevant (Permutation), only sample 0 is used;
   * the whole property in one statement for the current tree (fixed_len = true,
     fixed_box = true): every cell is the sum, over the animals with a node in the
     closed image, of  weight(true distance to the segment) * unit vector,  0 for a
     missing endpoint / zero length. *)
From Coq Require Import List Arith ZArith QArith Qreals Reals Lra Lia Psatz Bool Permutation.
Import ListNotations.
From SV Require Import C05.EdgeMaps C05.Lemmas.
Local Open Scope R_scope.

(* ------------------------------------------------------------------ *)
(* the division of distance_to_edge *)

(* edge_len_pos (the guard: divisor > 0 in both variants) is in Lemmas.v: dist_edge_some,
   "the model's partial distance_to_edge is always defined", is proved from it there *)

Lemma edge_len_code_ge1 l : (1 <= edge_len false l)%Q.
Proof.
  unfold edge_len. apply Rle_Qle. rewrite Q2R_qmax, Q2R_1. apply Rmax_r.
Qed.

Lemma dval_nonneg fl s d x y : (0 <= dval fl s d x y)%Q.
Proof.
  apply Rle_Qle. rewrite Q2R_0, Q2R_dist_edge. unfold proj_dist2. cbv zeta.
  match goal with |- 0 <= ?a * ?a + ?b * ?b =>
    pose proof (Rle_0_sqr a); pose proof (Rle_0_sqr b); unfold Rsqr in *; lra end.
Qed.

Lemma dist_edge_nonneg fl s d x y : exists D, dist_edge fl s d x y = Some D /\ (0 <= D)%Q.
Proof. exists (dval fl s d x y). split; [apply dist_edge_some|apply dval_nonneg]. Qed.

Lemma dval_degenerate fl s d x y :
  (len2 s d == 0)%Q -> (dval fl s d x y == sq (x - fst s) + sq (y - snd s))%Q.
Proof.
  intros Hz. apply eqR_Qeq. rewrite Q2R_dist_edge.
  apply Qeq_eqR in Hz. rewrite Q2R_0, Q2R_len2 in Hz. apply d2_zero_iff in Hz.
  unfold proj_dist2. cbv zeta. rewrite Hz.
  rewrite Q2R_plus, !Q2R_sq, !Q2R_minus. unfold q2; cbn [fst snd]. ring.
Qed.

Lemma dist_edge_degenerate fl s d x y :
  (len2 s d == 0)%Q ->
  exists D, dist_edge fl s d x y = Some D /\ (D == sq (x - fst s) + sq (y - snd s))%Q.
Proof. intros Hz. exists (dval fl s d x y). split; [apply dist_edge_some|apply dval_degenerate; exact Hz]. Qed.

(* NaN exactly when an endpoint is: the direction "visible endpoints -> defined" is
   dist_edge_some, i.e. the division guard edge_len_pos *)
Lemma dist_edge_opt_none_iff fl s d x y :
  dist_edge_opt fl s d x y = None <-> s = None \/ d = None.
Proof.
  destruct s as [s|], d as [d|]; cbn [dist_edge_opt]; try rewrite dist_edge_some;
    split; intros H; try discriminate; auto; destruct H; discriminate.
Qed.

Lemma seg_dist2_degenerate s p : is_seg_dist2 s s p (d2 s p).
Proof.
  assert (E : forall t, pt_on s s t = s).
  { intros t. unfold pt_on. destruct s as [a b]. cbn [fst snd]. f_equal; ring. }
  split.
  - exists 0. split; [lra|]. rewrite E. reflexivity.
  - intros t _. rewrite E. lra.
Qed.

(* full strength: for the current tree's divisor (fixed_len = true) the model's distance is the squared distance
   to the closed segment for EVERY edge (a zero-length edge is the point itself) *)
Lemma repaired_dval_is_seg_dist2 s d x y :
  is_seg_dist2 (q2 s) (q2 d) (Q2R x, Q2R y) (Q2R (dval true s d x y)).
Proof.
  destruct (Qeq_dec (len2 s d) 0) as [Hz|Hz].
  - rewrite (Qeq_eqR _ _ (dval_degenerate true s d x y Hz)).
    pose proof Hz as Hz'. apply Qeq_eqR in Hz'. rewrite Q2R_0, Q2R_len2 in Hz'.
    apply d2_zero_iff in Hz'. rewrite Hz'.
    replace (Q2R (sq (x - fst s) + sq (y - snd s))) with (d2 (q2 s) (Q2R x, Q2R y)).
    + apply seg_dist2_degenerate.
    + rewrite Q2R_plus, !Q2R_sq, !Q2R_minus. unfold d2, q2. cbn [fst snd]. ring.
  - apply dval_is_seg_dist2. apply len_ok_fixed. exact Hz.
Qed.

Lemma repaired_dist_is_seg_dist2 s d x y :
  exists D, dist_edge true s d x y = Some D /\ is_seg_dist2 (q2 s) (q2 d) (Q2R x, Q2R y) (Q2R D).
Proof. exists (dval true s d x y). split; [apply dist_edge_some|apply repaired_dval_is_seg_dist2]. Qed.

Lemma repaired_weight_true_distance sig s d x y v :
  (0 < sig)%Q -> is_seg_dist2 (q2 s) (q2 d) (Q2R x, Q2R y) v ->
  mweight true sig s d x y = paf_weight (Q2R sig) v.
Proof.
  intros Hs Hv. rewrite mweight_val by exact Hs. unfold paf_weight. rewrite Q2R_gauss_arg by exact Hs.
  rewrite (seg_dist2_unique _ _ _ _ _ (repaired_dval_is_seg_dist2 s d x y) Hv). reflexivity.
Qed.

Lemma repaired_weight_one_iff_on_segment sig s d x y :
  (0 < sig)%Q ->
  (mweight true sig s d x y = 1 <-> on_segment (q2 s) (q2 d) (Q2R x, Q2R y)).
Proof.
  intros Hs. pose proof (repaired_dval_is_seg_dist2 s d x y) as Hv.
  rewrite (repaired_weight_true_distance sig s d x y _ Hs Hv).
  rewrite (paf_weight_one_iff (Q2R sig) _ (sig_pos_R _ Hs) (seg_dist2_nonneg _ _ _ _ Hv)).
  apply (seg_dist2_zero_iff _ _ _ _ Hv).
Qed.

Lemma repaired_weight_nonincreasing sig s d x1 y1 x2 y2 v1 v2 :
  (0 < sig)%Q ->
  is_seg_dist2 (q2 s) (q2 d) (Q2R x1, Q2R y1) v1 ->
  is_seg_dist2 (q2 s) (q2 d) (Q2R x2, Q2R y2) v2 ->
  v1 <= v2 -> mweight true sig s d x2 y2 <= mweight true sig s d x1 y1.
Proof.
  intros Hs H1 H2 Hle.
  rewrite (repaired_weight_true_distance _ _ _ _ _ _ Hs H1), (repaired_weight_true_distance _ _ _ _ _ _ Hs H2).
  apply paf_weight_monotone; [apply sig_pos_R; exact Hs|]. split; [eapply seg_dist2_nonneg; exact H1|exact Hle].
Qed.

(* ------------------------------------------------------------------ *)
(* make_edge_maps, cell by cell: defined (not NaN) whenever both endpoints are
   visible, coincident or not; its value is the model's weight *)

Lemma map_map2 {A B C D} (g : C -> D) (f : A -> B -> C) l m :
  map g (map2 f l m) = map2 (fun a b => g (f a b)) l m.
Proof.
  revert m. induction l as [|a l IH]; intros [|b m]; simpl; try reflexivity. rewrite IH. reflexivity.
Qed.

Lemma make_edge_maps_eq fl xv yv srcs dsts sig :
  make_edge_maps fl xv yv srcs dsts sig =
  map (fun y => map (fun x => map2 (fun s d => obind (gauss_arg sig) (dist_edge_opt fl s d x y))
                                   srcs dsts) xv) yv.
Proof.
  unfold make_edge_maps, distance_to_edge, sampling_grid.
  rewrite !map_map. apply map_ext. intros y. rewrite !map_map. apply map_ext. intros x. cbn [fst snd].
  apply map_map2.
Qed.

Lemma edge_map_cell_defined fl sig s d x y :
  (0 < sig)%Q ->
  exists a, obind (gauss_arg sig) (dist_edge_opt fl (Some s) (Some d) x y) = Some a /\
            (a <= 0)%Q /\ exp (Q2R a) = mweight fl sig s d x y.
Proof.
  intros Hs. cbn [dist_edge_opt]. rewrite dist_edge_some. cbn [obind]. rewrite (gauss_arg_some _ _ Hs).
  eexists. split; [reflexivity|]. split; [apply gauss_arg_nonpos; exact Hs|].
  rewrite (mweight_val _ _ _ _ _ _ Hs). reflexivity.
Qed.

(* ------------------------------------------------------------------ *)
(* edge lists: self loops, reversed duplicates, repeated edges *)

Lemma self_loop_zero fl sig a c x y inst : animal_contrib fl sig a a c x y inst = None.
Proof.
  destruct (node inst a) as [p|] eqn:Ha.
  - apply (animal_contrib_zero_length fl sig a a c x y inst p p Ha Ha). apply len2_same.
  - apply animal_contrib_missing. left; exact Ha.
Qed.

Lemma seg_dist2_sym s d p v : is_seg_dist2 s d p v -> is_seg_dist2 d s p v.
Proof.
  assert (E : forall t, pt_on d s t = pt_on s d (1 - t)).
  { intros t. unfold pt_on. f_equal; ring. }
  intros [[t [Ht Hv]] Hmin]. split.
  - exists (1 - t). split; [lra|]. rewrite E. replace (1 - (1 - t)) with t by ring. exact Hv.
  - intros t' Ht'. rewrite E. apply Hmin. lra.
Qed.

Lemma d2_sym p q : d2 p q = d2 q p.
Proof. unfold d2. ring. Qed.

Lemma len2_sym s d : (len2 s d == len2 d s)%Q.
Proof. unfold len2, sq. ring. Qed.

Lemma mweight_repaired_sym sig s d x y :
  (0 < sig)%Q -> mweight true sig d s x y = mweight true sig s d x y.
Proof.
  intros Hs.
  rewrite (repaired_weight_true_distance sig s d x y _ Hs (repaired_dval_is_seg_dist2 s d x y)).
  apply repaired_weight_true_distance; [exact Hs|]. apply seg_dist2_sym. apply repaired_dval_is_seg_dist2.
Qed.

Lemma comp_unit_vec_rev c s d : comp c (unit_vec_spec d s) = - comp c (unit_vec_spec s d).
Proof.
  unfold unit_vec_spec. rewrite (d2_sym s d).
  destruct c; unfold comp; cbn [fst snd]; unfold Rdiv; ring.
Qed.

(* the field of the reversed edge (b,a) is minus the field of (a,b), cell by cell *)
Lemma reversed_edge_negates sig a b c x y inst :
  (0 < sig)%Q ->
  pval (animal_contrib true sig b a c x y inst) = - pval (animal_contrib true sig a b c x y inst).
Proof.
  intros Hs.
  destruct (node inst a) as [p|] eqn:Ha; [destruct (node inst b) as [q|] eqn:Hb|].
  - destruct (Qeq_dec (len2 p q) 0) as [Hz|Hz].
    + assert (Hz' : (len2 q p == 0)%Q) by (rewrite len2_sym; exact Hz).
      rewrite (animal_contrib_zero_length true sig a b c x y inst p q Ha Hb Hz).
      rewrite (animal_contrib_zero_length true sig b a c x y inst q p Hb Ha Hz'). simpl. lra.
    + assert (Hz' : ~ (len2 q p == 0)%Q) by (intros E; apply Hz; rewrite len2_sym; exact E).
      rewrite (animal_contrib_value true sig a b c x y inst p q Ha Hb Hz).
      rewrite (animal_contrib_value true sig b a c x y inst q p Hb Ha Hz').
      rewrite comp_unit_vec_rev, (mweight_repaired_sym sig p q x y Hs). ring.
  - rewrite (animal_contrib_missing true sig a b c x y inst (or_intror Hb)).
    rewrite (animal_contrib_missing true sig b a c x y inst (or_introl Hb)). simpl. lra.
  - rewrite (animal_contrib_missing true sig a b c x y inst (or_introl Ha)).
    rewrite (animal_contrib_missing true sig b a c x y inst (or_intror Ha)). simpl. lra.
Qed.

(* an edge listed twice gets two identical channel pairs *)
Lemma duplicate_edges_equal_channels fl fb samples H W sig s edges e e' ab c i j :
  (0 < s)%nat -> nth_error edges e = Some ab -> nth_error edges e' = Some ab -> (c < 2)%nat ->
  (i * s < H)%nat -> (j * s < W)%nat ->
  cell4 (generate_pafs fl fb samples H W sig s edges) e c i j =
  cell4 (generate_pafs fl fb samples H W sig s edges) e' c i j.
Proof.
  destruct ab as [a b]. intros Hs He He' Hc Hi Hj.
  destruct (generate_pafs_cell fl fb samples H W sig s edges e a b c i j Hs He Hc Hi Hj) as [cl [E1 [D1 _]]].
  destruct (generate_pafs_cell fl fb samples H W sig s edges e' a b c i j Hs He' Hc Hi Hj) as [cl' [E2 [D2 _]]].
  rewrite E1, E2, D1, D2. reflexivity.
Qed.

(* ------------------------------------------------------------------ *)
(* samples and animal order *)

Lemma only_sample_0 fl fb smp rest H W sig s edges :
  generate_pafs fl fb (smp :: rest) H W sig s edges = generate_pafs fl fb [smp] H W sig s edges.
Proof. reflexivity. Qed.

Lemma Rsum_perm l1 l2 : Permutation l1 l2 -> Rsum l1 = Rsum l2.
Proof. induction 1; simpl; lra. Qed.

Lemma filter_perm {A} (f : A -> bool) l1 l2 :
  Permutation l1 l2 -> Permutation (filter f l1) (filter f l2).
Proof.
  induction 1; simpl.
  - constructor.
  - destruct (f x); [constructor|]; assumption.
  - destruct (f x), (f y); try apply perm_swap; apply Permutation_refl.
  - eapply perm_trans; eassumption.
Qed.

Lemma flat_map_perm {A B} (f : A -> list B) l1 l2 :
  Permutation l1 l2 -> Permutation (flat_map f l1) (flat_map f l2).
Proof.
  induction 1; simpl.
  - constructor.
  - apply Permutation_app_head. assumption.
  - rewrite !app_assoc. apply Permutation_app_tail. apply Permutation_app_comm.
  - eapply perm_trans; eassumption.
Qed.

Lemma animal_order_irrelevant fl fb l1 l2 rest H W sig s edges e a b c i j :
  Permutation l1 l2 ->
  (0 < s)%nat -> nth_error edges e = Some (a, b) -> (c < 2)%nat ->
  (i * s < H)%nat -> (j * s < W)%nat ->
  exists v1 v2,
    cell4 (generate_pafs fl fb (l1 :: rest) H W sig s edges) e c i j = Some v1 /\
    cell4 (generate_pafs fl fb (l2 :: rest) H W sig s edges) e c i j = Some v2 /\
    Permutation v1 v2 /\ cval v1 = cval v2.
Proof.
  intros HP Hs He Hc Hi Hj.
  destruct (generate_pafs_cell fl fb (l1 :: rest) H W sig s edges e a b c i j Hs He Hc Hi Hj) as [v1 [E1 [D1 S1]]].
  destruct (generate_pafs_cell fl fb (l2 :: rest) H W sig s edges e a b c i j Hs He Hc Hi Hj) as [v2 [E2 [D2 S2]]].
  exists v1, v2. split; [exact E1|]. split; [exact E2|].
  assert (HK : Permutation (kept fb H W s l1) (kept fb H W s l2)) by (unfold kept; apply filter_perm; exact HP).
  split.
  - rewrite D1, D2. cbn [hd]. apply flat_map_perm. exact HK.
  - rewrite S1, S2. apply Rsum_perm. apply Permutation_map. exact HK.
Qed.

(* ------------------------------------------------------------------ *)
(* the whole property in one statement, for the current tree (fl = fb = true; since fixes 5bfaeb9, f00ee7f) *)

(* what one animal must contribute to component c of edge (a,b) at image position p,
   in the property's own vocabulary (no reference to the model's arithmetic) *)
Definition spec_contrib (sig : R) (a b c : nat) (p : R * R) (inst : list kp) (v : R) : Prop :=
  match node inst a, node inst b with
  | Some s', Some d' =>
      ((len2 s' d' == 0)%Q -> v = 0) /\
      (~ (len2 s' d' == 0)%Q ->
       exists D, is_seg_dist2 (q2 s') (q2 d') p D /\
                 v = paf_weight sig D * comp c (unit_vec_spec (q2 s') (q2 d')))
  | _, _ => v = 0
  end.

Lemma repaired_contrib_spec sig a b c x y inst :
  (0 < sig)%Q ->
  spec_contrib (Q2R sig) a b c (Q2R x, Q2R y) inst (pval (animal_contrib true sig a b c x y inst)).
Proof.
  intros Hs. unfold spec_contrib.
  destruct (node inst a) as [p|] eqn:Ha; [destruct (node inst b) as [q|] eqn:Hb|].
  - split.
    + intros Hz. rewrite (animal_contrib_zero_length true sig a b c x y inst p q Ha Hb Hz). reflexivity.
    + intros Hz. exists (Q2R (dval true p q x y)). split; [apply repaired_dval_is_seg_dist2|].
      rewrite (animal_contrib_value true sig a b c x y inst p q Ha Hb Hz). f_equal.
      apply repaired_weight_true_distance; [exact Hs|apply repaired_dval_is_seg_dist2].
  - rewrite (animal_contrib_missing true sig a b c x y inst (or_intror Hb)). reflexivity.
  - rewrite (animal_contrib_missing true sig a b c x y inst (or_introl Ha)). reflexivity.
Qed.

Lemma Forall2_map_fun {A B} (P : A -> B -> Prop) (f : A -> B) l :
  (forall x, P x (f x)) -> Forall2 P l (map f l).
Proof. intros Hf. induction l; simpl; constructor; auto. Qed.

(* spec_contrib determines the value *)
Lemma spec_contrib_unique sig a b c p inst v1 v2 :
  spec_contrib sig a b c p inst v1 -> spec_contrib sig a b c p inst v2 -> v1 = v2.
Proof.
  unfold spec_contrib. destruct (node inst a) as [s'|]; [destruct (node inst b) as [d'|]|]; try congruence.
  intros [Z1 N1] [Z2 N2]. destruct (Qeq_dec (len2 s' d') 0) as [Hz|Hz].
  - rewrite (Z1 Hz), (Z2 Hz). reflexivity.
  - destruct (N1 Hz) as [D1 [HD1 ->]]. destruct (N2 Hz) as [D2 [HD2 ->]].
    rewrite (seg_dist2_unique _ _ _ _ _ HD1 HD2). reflexivity.
Qed.

Theorem repaired_field_spec samples H W sig s edges e a b c i j :
  (0 < sig)%Q -> (0 < s)%nat -> nth_error edges e = Some (a, b) -> (c < 2)%nat ->
  (i * s < H)%nat -> (j * s < W)%nat ->
  exists cl vs,
    cell3 (generate_pafs_flat true true samples H W sig s edges) (2 * e + c) i j = Some cl /\
    Forall2 (spec_contrib (Q2R sig) a b c (INR (j * s), INR (i * s)))
            (filter (existsb (node_in_closed (nat_Q (W - 1)) (nat_Q (H - 1)))) (hd [] samples)) vs /\
    cval cl = Rsum vs /\ Forall term_ok cl.
Proof.
  intros Hsig Hs He Hc Hi Hj.
  destruct (generate_pafs_flat_cell true true samples H W sig s edges e a b c i j Hsig Hs He Hc Hi Hj)
    as [cl [Hcl [Hv Hok]]].
  exists cl. eexists. split; [exact Hcl|]. split; [|split; [exact Hv|exact Hok]].
  rewrite <- !Q2R_nat_Q.
  change (kept true H W s (hd [] samples))
    with (filter (existsb (node_in_closed (nat_Q (W - 1)) (nat_Q (H - 1)))) (hd [] samples)).
  apply Forall2_map_fun. intros inst. apply repaired_contrib_spec. exact Hsig.
Qed.

(* ------------------------------------------------------------------ *)
(* tensor level: distance_to_edge / make_edge_maps hold no NaN when every endpoint is
   visible (coincident endpoints included); get_edge_points is plain indexing *)

Lemma map2_Forall {A B C} (P : C -> Prop) (f : A -> B -> C) l m :
  (forall a b, In a l -> In b m -> P (f a b)) -> Forall P (map2 f l m).
Proof.
  revert m. induction l as [|a l IH]; intros [|b m] Hf; simpl; try constructor.
  - apply Hf; left; reflexivity.
  - apply IH. intros a' b' Ha Hb. apply Hf; right; assumption.
Qed.

Lemma distance_to_edge_defined fl pts srcs dsts :
  Forall (fun p : kp => p <> None) srcs -> Forall (fun p : kp => p <> None) dsts ->
  Forall (Forall (Forall (fun o : option Q => exists v, o = Some v /\ (0 <= v)%Q)))
         (distance_to_edge fl pts srcs dsts).
Proof.
  intros Hs Hd. unfold distance_to_edge.
  apply Forall_map. apply Forall_forall. intros row _.
  apply Forall_map. apply Forall_forall. intros p _.
  apply map2_Forall. intros a b Ha Hb.
  rewrite Forall_forall in Hs, Hd. specialize (Hs a Ha). specialize (Hd b Hb).
  destruct a as [a|]; [|congruence]. destruct b as [b|]; [|congruence].
  cbn [dist_edge_opt]. apply dist_edge_nonneg.
Qed.

Lemma make_edge_maps_defined fl xv yv srcs dsts sig :
  (0 < sig)%Q ->
  Forall (fun p : kp => p <> None) srcs -> Forall (fun p : kp => p <> None) dsts ->
  Forall (Forall (Forall (fun o : option Q => exists a, o = Some a /\ (a <= 0)%Q)))
         (make_edge_maps fl xv yv srcs dsts sig).
Proof.
  intros Hsig Hs Hd. rewrite make_edge_maps_eq.
  apply Forall_map. apply Forall_forall. intros y _.
  apply Forall_map. apply Forall_forall. intros x _.
  apply map2_Forall. intros a b Ha Hb.
  rewrite Forall_forall in Hs, Hd. specialize (Hs a Ha). specialize (Hd b Hb).
  destruct a as [a|]; [|congruence]. destruct b as [b|]; [|congruence].
  destruct (edge_map_cell_defined fl sig a b x y Hsig) as [e [He [Hle _]]].
  exists e. split; assumption.
Qed.

Lemma get_edge_points_nth insts edges k e inst a b :
  nth_error insts k = Some inst -> nth_error edges e = Some (a, b) ->
  (exists row, nth_error (fst (get_edge_points insts edges)) k = Some row /\
               nth_error row e = Some (node inst a)) /\
  (exists row, nth_error (snd (get_edge_points insts edges)) k = Some row /\
               nth_error row e = Some (node inst b)).
Proof.
  intros Hk He. unfold get_edge_points. cbn [fst snd]. split; eexists; split.
  - apply map_nth_error. exact Hk.
  - rewrite (map_nth_error _ _ _ He). reflexivity.
  - apply map_nth_error. exact Hk.
  - rewrite (map_nth_error _ _ _ He). reflexivity.
Qed.

(* ------------------------------------------------------------------ *)
(* make_multi_pafs itself: permuting the instances leaves every cell's value unchanged, and an
   instance whose edge e has a missing endpoint (NaN padding, wherever it stands in the list)
   contributes no term to edge e *)
Lemma multi_pafs_order_irrelevant fl xv yv n_edges srcss1 dstss1 srcss2 dstss2 sig e c i j x y :
  nth_error yv i = Some y -> nth_error xv j = Some x -> (c < 2)%nat -> (e < n_edges)%nat ->
  Forall (fun sd => (e < length (fst sd))%nat /\ (e < length (snd sd))%nat) (combine srcss1 dstss1) ->
  Permutation (combine srcss1 dstss1) (combine srcss2 dstss2) ->
  exists v1 v2,
    cell4 (make_multi_pafs fl xv yv n_edges srcss1 dstss1 sig) e c i j = Some v1 /\
    cell4 (make_multi_pafs fl xv yv n_edges srcss2 dstss2 sig) e c i j = Some v2 /\
    Permutation v1 v2 /\ cval v1 = cval v2.
Proof.
  intros Hy Hx Hc He Hall HP.
  assert (Hall2 : Forall (fun sd => (e < length (fst sd))%nat /\ (e < length (snd sd))%nat) (combine srcss2 dstss2)).
  { rewrite Forall_forall in *. intros sd Hin. apply Hall. eapply Permutation_in; [apply Permutation_sym; exact HP|exact Hin]. }
  destruct (multi_pafs_cell fl xv yv n_edges srcss1 dstss1 sig e c i j x y Hy Hx Hc He Hall) as [v1 [E1 [D1 S1]]].
  destruct (multi_pafs_cell fl xv yv n_edges srcss2 dstss2 sig e c i j x y Hy Hx Hc He Hall2) as [v2 [E2 [D2 S2]]].
  exists v1, v2. split; [exact E1|]. split; [exact E2|]. split.
  - rewrite D1, D2. apply flat_map_perm. exact HP.
  - rewrite S1, S2. apply Rsum_perm. apply Permutation_map. exact HP.
Qed.

Lemma padding_contributes_nothing fl sig e c x y sd :
  @nth kp e (fst sd) None = None \/ @nth kp e (snd sd) None = None -> contrib fl sig e c x y sd = None.
Proof.
  intros [H|H]; unfold contrib; rewrite H.
  - rewrite paf_cell_missing_src. destruct c; reflexivity.
  - rewrite paf_cell_missing_dst. destruct c; reflexivity.
Qed.

(* ------------------------------------------------------------------ *)
(* round 4 (review finding 4): the domain of generate_pafs.  `in_domain` (EdgeMaps.v,
   executable, tied to the code's exceptions through case CGenChk) spelled out, and the
   whole-field theorems restated on that domain: outside it the code raises and the
   model's totalised defaults (`nth k inst None`, `hd [] samples`, empty grid for stride 0)
   describe nothing. *)

Lemma edges_in_range_iff n edges :
  edges_in_range n edges = true <->
  forall e a b, nth_error edges e = Some (a, b) -> (a < n)%nat /\ (b < n)%nat.
Proof.
  unfold edges_in_range. rewrite forallb_forall. split.
  - intros Hall e a b He. apply nth_error_In in He. specialize (Hall _ He). cbn [fst snd] in Hall.
    apply andb_true_iff in Hall. destruct Hall as [H1 H2]. apply Nat.ltb_lt in H1, H2. split; assumption.
  - intros Hall [a b] Hin. apply In_nth_error in Hin. destruct Hin as [e He].
    destruct (Hall e a b He) as [H1 H2]. cbn [fst snd]. apply andb_true_iff. split; apply Nat.ltb_lt; assumption.
Qed.

Lemma in_domain_iff fb samples H W s edges :
  in_domain fb samples H W s edges = true <->
  exists smp rest, samples = smp :: rest /\ (0 < s)%nat /\
    forall inst, In inst (kept fb H W s smp) ->
      forall e a b, nth_error edges e = Some (a, b) -> (a < length inst)%nat /\ (b < length inst)%nat.
Proof.
  unfold in_domain. destruct samples as [|smp rest].
  - split; [discriminate|]. intros [smp [rest [E _]]]. discriminate.
  - rewrite andb_true_iff, Nat.leb_le, forallb_forall. fold (kept fb H W s smp). split.
    + intros [Hs Hall]. exists smp, rest. split; [reflexivity|]. split; [lia|].
      intros inst Hin. apply edges_in_range_iff. apply Hall. exact Hin.
    + intros [smp' [rest' [E [Hs Hall]]]]. inversion E; subst smp' rest'. split; [lia|].
      intros inst Hin. apply edges_in_range_iff. apply Hall. exact Hin.
Qed.

Lemma in_domain_stride fb samples H W s edges : in_domain fb samples H W s edges = true -> (0 < s)%nat.
Proof. intros Hd. apply in_domain_iff in Hd. destruct Hd as [? [? [_ [Hs _]]]]. exact Hs. Qed.

Lemma checked_some_iff fl fb samples H W sig s edges out :
  generate_pafs_checked fl fb samples H W sig s edges = Some out <->
  in_domain fb samples H W s edges = true /\ out = generate_pafs fl fb samples H W sig s edges.
Proof.
  unfold generate_pafs_checked. destruct (in_domain fb samples H W s edges); split.
  - intros E. inversion E. auto.
  - intros [_ ->]. reflexivity.
  - discriminate.
  - intros [E _]. discriminate.
Qed.

Theorem repaired_field_spec_dom samples H W sig s edges e a b c i j :
  (0 < sig)%Q -> in_domain true samples H W s edges = true ->
  nth_error edges e = Some (a, b) -> (c < 2)%nat -> (i * s < H)%nat -> (j * s < W)%nat ->
  exists cl vs,
    cell3 (generate_pafs_flat true true samples H W sig s edges) (2 * e + c) i j = Some cl /\
    Forall2 (spec_contrib (Q2R sig) a b c (INR (j * s), INR (i * s)))
            (filter (existsb (node_in_closed (nat_Q (W - 1)) (nat_Q (H - 1)))) (hd [] samples)) vs /\
    Forall (fun inst => (a < length inst)%nat /\ (b < length inst)%nat)
           (filter (existsb (node_in_closed (nat_Q (W - 1)) (nat_Q (H - 1)))) (hd [] samples)) /\
    cval cl = Rsum vs /\ Forall term_ok cl.
Proof.
  intros Hsig Hd He Hc Hi Hj.
  destruct (repaired_field_spec samples H W sig s edges e a b c i j Hsig (in_domain_stride _ _ _ _ _ _ Hd)
              He Hc Hi Hj) as [cl [vs [H1 [H2 [H3 H4]]]]].
  exists cl, vs. repeat (split; [assumption|]). split; [|split; assumption].
  apply in_domain_iff in Hd. destruct Hd as [smp [rest [-> [_ Hall]]]]. cbn [hd].
  apply Forall_forall. intros inst Hin. apply (Hall inst Hin e a b He).
Qed.

Lemma flat_cell_dom fl fb samples H W sig s edges e a b c i j :
  (0 < sig)%Q -> in_domain fb samples H W s edges = true ->
  nth_error edges e = Some (a, b) -> (c < 2)%nat -> (i * s < H)%nat -> (j * s < W)%nat ->
  exists cl,
    cell3 (generate_pafs_flat fl fb samples H W sig s edges) (2 * e + c) i j = Some cl /\
    cval cl = Rsum (map (fun inst => pval (animal_contrib fl sig a b c (nat_Q (j * s)) (nat_Q (i * s)) inst))
                        (kept fb H W s (hd [] samples))) /\
    Forall term_ok cl.
Proof.
  intros Hsig Hd. apply generate_pafs_flat_cell; [exact Hsig|eapply in_domain_stride; exact Hd].
Qed.

Lemma cell_dom fl fb samples H W sig s edges e a b c i j :
  in_domain fb samples H W s edges = true ->
  nth_error edges e = Some (a, b) -> (c < 2)%nat -> (i * s < H)%nat -> (j * s < W)%nat ->
  exists cl,
    cell4 (generate_pafs fl fb samples H W sig s edges) e c i j = Some cl /\
    cl = flat_map (fun inst => otl (animal_contrib fl sig a b c (nat_Q (j * s)) (nat_Q (i * s)) inst))
                  (kept fb H W s (hd [] samples)) /\
    cval cl = Rsum (map (fun inst => pval (animal_contrib fl sig a b c (nat_Q (j * s)) (nat_Q (i * s)) inst))
                        (kept fb H W s (hd [] samples))).
Proof. intros Hd. apply generate_pafs_cell. eapply in_domain_stride; exact Hd. Qed.

Lemma shape_dom fl fb samples H W sig s edges :
  in_domain fb samples H W s edges = true ->
  shape4 (length edges) (ceil_div H s) (ceil_div W s) (generate_pafs fl fb samples H W sig s edges).
Proof. intros _. apply generate_pafs_shape. Qed.

Lemma flat_shape_dom fl fb samples H W sig s edges :
  in_domain fb samples H W s edges = true ->
  length (generate_pafs_flat fl fb samples H W sig s edges) = (2 * length edges)%nat /\
  Forall (chan_ok (ceil_div H s) (ceil_div W s)) (generate_pafs_flat fl fb samples H W sig s edges).
Proof. intros _. apply generate_pafs_flat_shape. Qed.

Lemma flat_channel_dom fl fb samples H W sig s edges e c i j :
  in_domain fb samples H W s edges = true ->
  (e < length edges)%nat -> (c < 2)%nat ->
  cell3 (generate_pafs_flat fl fb samples H W sig s edges) (2 * e + c) i j =
  cell4 (generate_pafs fl fb samples H W sig s edges) e c i j.
Proof. intros _. apply generate_pafs_flat_channel. Qed.

(* a missing endpoint in the property's sense: the node EXISTS (index in range) and is NaN *)
Lemma animal_contrib_missing_dom fl sig a b c x y inst :
  (a < length inst)%nat -> (b < length inst)%nat ->
  nth_error inst a = Some None \/ nth_error inst b = Some None ->
  animal_contrib fl sig a b c x y inst = None.
Proof.
  intros _ _ H. apply animal_contrib_missing. unfold node.
  destruct H as [H|H]; [left|right]; apply nth_error_nth; exact H.
Qed.

(* the repaired filter, with the image size >= 1 made explicit (W - 1 is truncated on nat) *)
Lemma fixed_box_keeps_in_image_dom H W xv yv inst :
  (0 < H)%nat -> (0 < W)%nat ->
  (in_img true H W xv yv inst = true <->
   exists x y, In (Some (x, y)) inst /\ (0 <= x <= nat_Q W - 1)%Q /\ (0 <= y <= nat_Q H - 1)%Q).
Proof.
  intros HH HW. rewrite fixed_box_keeps_in_image.
  assert (E : forall n, (0 < n)%nat -> (nat_Q (n - 1) == nat_Q n - 1)%Q).
  { intros n Hn. unfold nat_Q, Qminus, Qeq, inject_Z, Qplus, Qopp. simpl. lia. }
  split; intros [x [y [Hin [Hx Hy]]]]; exists x, y; (split; [exact Hin|]).
  - rewrite <- (E W HW), <- (E H HH). auto.
  - rewrite (E W HW), (E H HH). auto.
Qed.

Lemma dist_edge_defined fl s d x y :
  dist_edge fl s d x y = dist_edge_div (edge_len fl (len2 s d)) s d x y /\
  exists D, dist_edge fl s d x y = Some D.
Proof. split; [reflexivity|]. eexists. apply dist_edge_some. Qed.

(* review finding 2: grid cell (2,1) lies on the segment from (-2,1) to (6,1) *)
Lemma crossing_on_segment : on_segment (q2 (-2, 1)%Q) (q2 (6, 1)%Q) (Q2R 2, Q2R 1).
Proof. exists (1/2). split; [lra|]. unfold pt_on, q2, Q2R. simpl. f_equal; field. Qed.

(* review finding 8: the value of one instance's contribution in make_multi_pafs, in the
   property's vocabulary (the analogue of animal_contrib_value one level down) *)
Lemma contrib_value fl sig e c x y sd p q :
  @nth kp e (fst sd) None = Some p -> @nth kp e (snd sd) None = Some q -> ~ (len2 p q == 0)%Q ->
  pval (contrib fl sig e c x y sd) = mweight fl sig p q x y * comp c (unit_vec_spec (q2 p) (q2 q)).
Proof.
  intros Ha Hb Hz. unfold contrib. rewrite Ha, Hb. apply paf_cell_pval.
  destruct (Qeq_bool (len2 p q) 0) eqn:E; [|reflexivity]. apply Qeq_bool_iff in E. contradiction.
Qed.

(* round 5: the directly computed cell of EdgeMaps.sample_cell (what the harness evaluates on a
   sample of cells of LARGE images) is the cell of the whole field *)
Lemma sample_cell_spec fl fb samples H W sig s edges e c i j cl :
  in_domain fb samples H W s edges = true ->
  sample_cell fl fb samples H W sig s edges (e, c, i, j) = Some cl ->
  cell4 (generate_pafs fl fb samples H W sig s edges) e c i j = Some cl /\
  cell3 (generate_pafs_flat fl fb samples H W sig s edges) (2 * e + c) i j = Some cl.
Proof.
  intros Hd Hs. unfold sample_cell in Hs.
  destruct (nth_error edges e) as [[a b]|] eqn:He; [|discriminate].
  destruct ((c <? 2)%nat && (i * s <? H)%nat && (j * s <? W)%nat) eqn:Hc; [|discriminate].
  apply andb_prop in Hc. destruct Hc as [Hc Hj]. apply andb_prop in Hc. destruct Hc as [Hc Hi].
  apply Nat.ltb_lt in Hc, Hi, Hj.
  destruct (cell_dom fl fb samples H W sig s edges e a b c i j Hd He Hc Hi Hj) as [cl' [H1 [H2 _]]].
  assert (E : cl' = cl).
  { rewrite H2. injection Hs as <-. reflexivity. }
  subst cl'. rewrite E in H1. split; [exact H1|].
  rewrite generate_pafs_flat_channel; [exact H1| |exact Hc].
  apply nth_error_Some. rewrite He. discriminate.
Qed.

Lemma sample_cell_defined fl fb samples H W sig s edges e a b c i j :
  nth_error edges e = Some (a, b) -> (c < 2)%nat -> (i * s < H)%nat -> (j * s < W)%nat ->
  exists cl, sample_cell fl fb samples H W sig s edges (e, c, i, j) = Some cl.
Proof.
  intros He Hc Hi Hj. unfold sample_cell. rewrite He.
  apply Nat.ltb_lt in Hc, Hi, Hj. rewrite Hc, Hi, Hj. cbn [andb]. eexists. reflexivity.
Qed.

(* round 5: what the harness's bracket (c05.py weight_interval) rests on.  If the computed distance D'
   to the segment is within eps of the true distance D (eps = the float32 rounding bound of the code's
   difference form, derived in c05.py; NOT proved here), the weight the code forms from the squared
   distance D'^2 lies between the true weights at distances D + eps and max(0, D - eps). *)
Lemma weight_bracket sig D D' eps :
  sig <> 0 -> 0 <= D -> 0 <= D' -> Rabs (D' - D) <= eps ->
  paf_weight sig ((D + eps) * (D + eps)) <= paf_weight sig (D' * D') <=
  paf_weight sig (Rmax 0 (D - eps) * Rmax 0 (D - eps)).
Proof.
  intros Hs HD HD' Habs.
  assert (Hb : - eps <= D' - D <= eps).
  { unfold Rabs in Habs. destruct (Rcase_abs (D' - D)); lra. }
  split.
  - apply paf_weight_monotone; [exact Hs|]. split.
    + apply Rmult_le_pos; lra.
    + apply Rmult_le_compat; lra.
  - apply paf_weight_monotone; [exact Hs|].
    assert (H0 : 0 <= Rmax 0 (D - eps)) by apply Rmax_l.
    assert (H1 : Rmax 0 (D - eps) <= D') by (apply Rmax_lub; lra).
    split.
    + apply Rmult_le_pos; exact H0.
    + apply Rmult_le_compat; assumption.
Qed.
