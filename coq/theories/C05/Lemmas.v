(* Lemmas.v (C05) — proofs about EdgeMaps.v over Coq's real numbers. *)
From Coq Require Import List Arith ZArith QArith Qreals Reals Lra Lia Psatz Bool.
Import ListNotations.
From SV Require Import C05.EdgeMaps.

Local Open Scope R_scope.

(* ------------------------------------------------------------------ *)
(* the property's vocabulary, written independently of the model, over R *)

Definition q2 (p : Q * Q) : R * R := (Q2R (fst p), Q2R (snd p)).

Definition d2 (p q : R * R) : R :=                      (* squared Euclidean distance *)
  (fst p - fst q) * (fst p - fst q) + (snd p - snd q) * (snd p - snd q).

Definition pt_on (s d : R * R) (t : R) : R * R :=       (* the point s + t (d - s) *)
  (fst s + t * (fst d - fst s), snd s + t * (snd d - snd s)).

Definition on_segment (s d p : R * R) : Prop := exists t, 0 <= t <= 1 /\ p = pt_on s d t.

(* v is the squared distance from p to the closed segment [s,d]: attained, and minimal *)
Definition is_seg_dist2 (s d p : R * R) (v : R) : Prop :=
  (exists t, 0 <= t <= 1 /\ v = d2 (pt_on s d t) p) /\
  (forall t, 0 <= t <= 1 -> v <= d2 (pt_on s d t) p).

(* the unit vector from s to d *)
Definition unit_vec_spec (s d : R * R) : R * R :=
  ((fst d - fst s) / sqrt (d2 d s), (snd d - snd s) / sqrt (d2 d s)).

(* the code's weight as a function of the squared distance D2 to the segment:
   gaussian_pdf applied to an already squared distance, exp(-(D2)^2 / (2 sigma^2)) *)
Definition paf_weight (sig D2 : R) : R := exp (- (D2 * D2) / (2 * (sig * sig))).

(* real value of a term / of an optional term after NaN -> 0 / of a cell (sum) *)
Definition tval (t : term) : R :=
  let '(a, n, l) := t in exp (Q2R a) * (Q2R n / sqrt (Q2R l)).
Definition pval (o : option term) : R := match o with None => 0 | Some t => tval t end.
Fixpoint Rsum (l : list R) : R := match l with [] => 0 | x :: t => x + Rsum t end.
Definition cval (c : pcell) : R := Rsum (map tval c).


(* ------------------------------------------------------------------ *)
(* Q -> R transport *)

Lemma Q2R_sq a : Q2R (sq a) = Q2R a * Q2R a.
Proof. unfold sq. apply Q2R_mult. Qed.
Lemma Q2R_0 : Q2R 0 = 0.  Proof. unfold Q2R; simpl; lra. Qed.
Lemma Q2R_1 : Q2R 1 = 1.  Proof. unfold Q2R; simpl; lra. Qed.
Lemma Q2R_2 : Q2R 2 = 2.  Proof. unfold Q2R; simpl; lra. Qed.

Lemma Qle_bool_R a b : Qle_bool a b = true <-> Q2R a <= Q2R b.
Proof.
  rewrite Qle_bool_iff. split; [apply Qle_Rle | apply Rle_Qle].
Qed.

Lemma Qle_bool_false_R a b : Qle_bool a b = false <-> Q2R b < Q2R a.
Proof.
  split; intros H.
  - destruct (Rlt_le_dec (Q2R b) (Q2R a)) as [Hl|Hl]; [exact Hl|].
    apply Qle_bool_R in Hl. congruence.
  - destruct (Qle_bool a b) eqn:E; [|reflexivity]. apply Qle_bool_R in E. lra.
Qed.

Lemma Q2R_qmax a b : Q2R (qmax a b) = Rmax (Q2R a) (Q2R b).
Proof.
  unfold qmax. destruct (Qle_bool a b) eqn:E.
  - apply Qle_bool_R in E. rewrite Rmax_right; [reflexivity|exact E].
  - apply Qle_bool_false_R in E. rewrite Rmax_left; [reflexivity|lra].
Qed.

Definition Rclamp01 (t : R) : R := Rmax 0 (Rmin 1 t).

Lemma Q2R_clamp01 t : Q2R (clamp01 t) = Rclamp01 (Q2R t).
Proof.
  unfold clamp01, Rclamp01.
  destruct (Qle_bool t 0) eqn:E0.
  - apply Qle_bool_R in E0. rewrite Q2R_0 in *.
    rewrite Rmax_left; [reflexivity|]. apply Rle_trans with (Q2R t); [apply Rmin_r|exact E0].
  - apply Qle_bool_false_R in E0. rewrite Q2R_0 in E0.
    destruct (Qle_bool 1 t) eqn:E1.
    + apply Qle_bool_R in E1. rewrite Q2R_1 in *. rewrite Rmin_left by exact E1.
      rewrite Rmax_right; lra.
    + apply Qle_bool_false_R in E1. rewrite Q2R_1 in E1. rewrite Rmin_right by lra.
      rewrite Rmax_right; lra.
Qed.

Lemma Rclamp01_range t : 0 <= Rclamp01 t <= 1.
Proof.
  unfold Rclamp01. split; [apply Rmax_l|].
  apply Rmax_lub; [lra|apply Rmin_l].
Qed.

Lemma Rclamp01_cases t :
  (t <= 0 /\ Rclamp01 t = 0) \/ (1 <= t /\ Rclamp01 t = 1) \/ (0 <= t <= 1 /\ Rclamp01 t = t).
Proof.
  unfold Rclamp01. destruct (Rle_dec t 0) as [H0|H0].
  - left. split; [exact H0|]. rewrite Rmax_left; [reflexivity|].
    apply Rle_trans with t; [apply Rmin_r|exact H0].
  - destruct (Rle_dec 1 t) as [H1|H1].
    + right; left. split; [exact H1|]. rewrite Rmin_left by exact H1. rewrite Rmax_right; lra.
    + right; right. split; [lra|]. rewrite Rmin_right by lra. rewrite Rmax_right; lra.
Qed.

(* distance_to_edge over R (same formula as EdgeMaps.dist_edge), el = the divisor used *)
Definition proj_dist2 (el : R) (s d p : R * R) : R :=
  let ex := fst d - fst s in
  let ey := snd d - snd s in
  let rx := fst p - fst s in
  let ry := snd p - snd s in
  let t := Rclamp01 ((rx * ex + ry * ey) / el) in
  (t * ex - rx) * (t * ex - rx) + (t * ey - ry) * (t * ey - ry).

Lemma Q2R_len2 s d : Q2R (len2 s d) = d2 (q2 d) (q2 s).
Proof.
  unfold len2, d2, q2. simpl. rewrite Q2R_plus, !Q2R_sq, !Q2R_minus. reflexivity.
Qed.

Lemma len2_nonneg s d : (0 <= len2 s d)%Q.
Proof.
  apply Rle_Qle. rewrite Q2R_0, Q2R_len2. unfold d2.
  pose proof (Rle_0_sqr (fst (q2 d) - fst (q2 s))). pose proof (Rle_0_sqr (snd (q2 d) - snd (q2 s))).
  unfold Rsqr in *. lra.
Qed.

Lemma edge_len_nonzero fl l : (0 <= l)%Q -> ~ (edge_len fl l == 0)%Q.
Proof.
  intros Hl. unfold edge_len. destruct fl.
  - destruct (Qeq_bool l 0) eqn:E; [discriminate|].
    intros Hz. apply Qeq_bool_iff in Hz. congruence.
  - intros Hz. apply Qeq_eqR in Hz. rewrite Q2R_qmax, Q2R_0, Q2R_1 in Hz.
    pose proof (Rmax_r (Q2R l) 1). lra.
Qed.
Lemma len2_nonzero_pos s d : Qeq_bool (len2 s d) 0 = false -> (0 < len2 s d)%Q.
Proof.
  intros H. pose proof (len2_nonneg s d) as Hn.
  destruct (Qlt_le_dec 0 (len2 s d)) as [Hl|Hl]; [exact Hl|].
  assert (Heq : (len2 s d == 0)%Q) by (apply Qle_antisym; assumption).
  apply Qeq_bool_iff in Heq. congruence.
Qed.

(* THE division guard of distance_to_edge: the divisor of the projection is > 0 for
   every edge, in both variants (current tree: |d|^2, or 1 when |d|^2 = 0; pinned tree
   before fix 5bfaeb9: max(|d|^2, 1)).  Every "never NaN" statement about
   distance_to_edge / make_edge_maps below goes through this lemma. *)
Lemma edge_len_pos fl s d : (0 < edge_len fl (len2 s d))%Q.
Proof.
  unfold edge_len. destruct fl.
  - destruct (Qeq_bool (len2 s d) 0) eqn:E; [reflexivity|]. apply len2_nonzero_pos; exact E.
  - apply Rlt_Qlt. rewrite Q2R_qmax, Q2R_0, Q2R_1. pose proof (Rmax_r (Q2R (len2 s d)) 1). lra.
Qed.

(* ---- the partial division of the model (EdgeMaps.qdiv): defined iff the divisor is not 0 ---- *)
Lemma qdiv_some n d : ~ (d == 0)%Q -> qdiv n d = Some (n / d)%Q.
Proof.
  intros H. unfold qdiv. destruct (Qeq_bool d 0) eqn:E; [|reflexivity].
  apply Qeq_bool_iff in E. contradiction.
Qed.

Lemma qdiv_none_iff n d : qdiv n d = None <-> (d == 0)%Q.
Proof.
  unfold qdiv. destruct (Qeq_bool d 0) eqn:E.
  - apply Qeq_bool_iff in E. tauto.
  - split; [discriminate|]. intros H. apply Qeq_bool_iff in H. congruence.
Qed.

(* the VALUES of the two partial functions where they are defined (total helper
   functions of the proofs only: the model and its evaluated path use qdiv) *)
Definition dist_val (el : Q) (s d : Q * Q) (x y : Q) : Q :=
  let dx := (fst d - fst s)%Q in
  let dy := (snd d - snd s)%Q in
  let rx := (x - fst s)%Q in
  let ry := (y - snd s)%Q in
  let t := clamp01 ((rx * dx + ry * dy) / el)%Q in
  (sq (t * dx - rx) + sq (t * dy - ry))%Q.

Definition garg_val (sig x : Q) : Q := (- (sq x) / (2 * sq sig))%Q.

Lemma dist_edge_div_some el s d x y :
  ~ (el == 0)%Q -> dist_edge_div el s d x y = Some (dist_val el s d x y).
Proof. intros H. unfold dist_edge_div. rewrite (qdiv_some _ _ H). reflexivity. Qed.

(* distance_to_edge with divisor el is NaN exactly when el = 0 *)
Lemma dist_edge_div_none_iff el s d x y : dist_edge_div el s d x y = None <-> (el == 0)%Q.
Proof.
  unfold dist_edge_div. rewrite <- (qdiv_none_iff ((x - fst s) * (fst d - fst s) + (y - snd s) * (snd d - snd s)) el).
  destruct (qdiv _ el); simpl; split; intros H; try discriminate; reflexivity.
Qed.

(* hence the UNGUARDED code (divisor |d|^2 itself) returns NaN for coincident endpoints *)
Lemma unguarded_dist_nan s d x y : (len2 s d == 0)%Q <-> dist_edge_div (len2 s d) s d x y = None.
Proof. symmetry. apply dist_edge_div_none_iff. Qed.

Lemma gauss_arg_none_iff sig x : gauss_arg sig x = None <-> (sig == 0)%Q.
Proof.
  unfold gauss_arg. rewrite qdiv_none_iff. unfold sq. split; intros H.
  - destruct (Qeq_dec sig 0) as [E|E]; [exact E|]. exfalso.
    assert (H2 : (sig * sig == 0)%Q).
    { apply (Qmult_inj_l _ _ 2); [discriminate|]. rewrite H. ring. }
    apply Qmult_integral in H2. tauto.
  - rewrite H. ring.
Qed.

(* outside the selector of F1 (and for a non-degenerate edge) the divisor is |d|^2 *)
Definition len_ok (fl : bool) (s d : Q * Q) : Prop :=
  selector_F1 fl s d = false /\ ~ (len2 s d == 0)%Q.

Lemma Qlt_bool_iff a b : Qlt_bool a b = true <-> (a < b)%Q.
Proof.
  unfold Qlt_bool. rewrite negb_true_iff. split; intros H.
  - apply Qnot_le_lt. intros Hle. apply Qle_bool_iff in Hle. congruence.
  - destruct (Qle_bool b a) eqn:E; [|reflexivity]. apply Qle_bool_iff in E.
    exfalso. apply (Qlt_not_le _ _ H). exact E.
Qed.

Lemma len_ok_pos fl s d : len_ok fl s d -> (0 < len2 s d)%Q.
Proof.
  intros [_ Hz]. pose proof (len2_nonneg s d) as Hn.
  destruct (Qlt_le_dec 0 (len2 s d)) as [Hl|Hl]; [exact Hl|].
  exfalso. apply Hz. apply Qle_antisym; assumption.
Qed.

Lemma edge_len_exact fl s d : len_ok fl s d -> Q2R (edge_len fl (len2 s d)) = d2 (q2 d) (q2 s).
Proof.
  intros Hok. pose proof (len_ok_pos _ _ _ Hok) as Hpos. destruct Hok as [Hsel Hz].
  rewrite <- Q2R_len2. unfold edge_len. destruct fl.
  - destruct (Qeq_bool (len2 s d) 0) eqn:E; [|reflexivity]. apply Qeq_bool_iff in E. contradiction.
  - rewrite Q2R_qmax, Q2R_1. apply Rmax_left.
    unfold selector_F1 in Hsel. simpl in Hsel.
    apply Qlt_bool_iff in Hpos. rewrite Hpos in Hsel. simpl in Hsel.
    destruct (Qlt_bool (len2 s d) 1) eqn:E; [discriminate|].
    unfold Qlt_bool in E. apply negb_false_iff, Qle_bool_iff, Qle_Rle in E. rewrite Q2R_1 in E. exact E.
Qed.

Lemma len_ok_of_ge1 fl s d : (1 <= len2 s d)%Q -> len_ok fl s d.
Proof.
  intros H. split.
  - unfold selector_F1. destruct (Qlt_bool (len2 s d) 1) eqn:E; [|rewrite andb_false_r; reflexivity].
    apply Qlt_bool_iff in E. exfalso. apply (Qlt_not_le _ _ E). exact H.
  - intros Hz. rewrite Hz in H. apply (Qlt_not_le 0 1); [reflexivity|exact H].
Qed.

Lemma len_ok_fixed s d : ~ (len2 s d == 0)%Q -> len_ok true s d.
Proof. intros H. split; [reflexivity|exact H]. Qed.

Section WithVariant.
Variable fl : bool.

(* the value of distance_to_edge in the variant fl ... *)
Definition dval (s d : Q * Q) (x y : Q) : Q := dist_val (edge_len fl (len2 s d)) s d x y.

(* ... which the model's (partial) distance_to_edge always has: this is where the
   division guard is used *)
Lemma dist_edge_some s d x y : dist_edge fl s d x y = Some (dval s d x y).
Proof.
  unfold dist_edge, dval. apply dist_edge_div_some.
  intros E. pose proof (edge_len_pos fl s d) as Hp. rewrite E in Hp. discriminate.
Qed.

(* real value of an optional exponent (None = NaN, swept to 0 by make_multi_pafs) *)
Definition wexp (o : option Q) : R := match o with Some a => exp (Q2R a) | None => 0 end.

(* the model's weight for an edge with both endpoints present: the exp of what the
   MODEL (partial divisions included) computes *)
Definition mweight (sig : Q) (s d : Q * Q) (x y : Q) : R :=
  wexp (obind (gauss_arg sig) (dist_edge fl s d x y)).

Lemma Q2R_dist_edge s d x y :
  Q2R (dval s d x y) =
  proj_dist2 (Q2R (edge_len fl (len2 s d))) (q2 s) (q2 d) (Q2R x, Q2R y).
Proof.
  unfold dval, dist_val, proj_dist2, q2. cbn [fst snd]. cbv zeta.
  rewrite Q2R_plus, !Q2R_sq, !Q2R_minus, !Q2R_mult, Q2R_clamp01.
  rewrite Q2R_div by (apply edge_len_nonzero; apply len2_nonneg).
  rewrite Q2R_plus, !Q2R_mult, !Q2R_minus. reflexivity.
Qed.

(* ------------------------------------------------------------------ *)
(* the projection-clamp lemma *)

Lemma d2_nonneg p q : 0 <= d2 p q.
Proof.
  unfold d2. pose proof (Rle_0_sqr (fst p - fst q)). pose proof (Rle_0_sqr (snd p - snd q)).
  unfold Rsqr in *. lra.
Qed.

Lemma d2_pt_on s d p t :
  d2 (pt_on s d t) p =
  (t * (fst d - fst s) - (fst p - fst s)) * (t * (fst d - fst s) - (fst p - fst s)) +
  (t * (snd d - snd s) - (snd p - snd s)) * (t * (snd d - snd s) - (snd p - snd s)).
Proof. unfold d2, pt_on. cbn [fst snd]. ring. Qed.

(* the value computed by the code is always the squared distance to SOME point
   of the closed segment (whatever the edge length) *)
Lemma proj_dist2_attained el s d p :
  exists t, 0 <= t <= 1 /\ proj_dist2 el s d p = d2 (pt_on s d t) p.
Proof.
  unfold proj_dist2. cbv zeta.
  match goal with |- context [Rclamp01 ?a] => exists (Rclamp01 a) end.
  split; [apply Rclamp01_range|]. rewrite d2_pt_on. reflexivity.
Qed.

Lemma quad_diff ex ey rx ry a t ts :
  a * (ex * ex + ey * ey) = rx * ex + ry * ey ->
  ((t * ex - rx) * (t * ex - rx) + (t * ey - ry) * (t * ey - ry)) -
  ((ts * ex - rx) * (ts * ex - rx) + (ts * ey - ry) * (ts * ey - ry)) =
  (ex * ex + ey * ey) * ((t - ts) * (t + ts - 2 * a)).
Proof.
  intros H.
  replace ((t * ex - rx) * (t * ex - rx) + (t * ey - ry) * (t * ey - ry) -
           ((ts * ex - rx) * (ts * ex - rx) + (ts * ey - ry) * (ts * ey - ry)))
    with ((t * t - ts * ts) * (ex * ex + ey * ey) - 2 * (t - ts) * (rx * ex + ry * ey)) by ring.
  rewrite <- H. ring.
Qed.

(* for an edge of length >= 1 the clamped projection is the nearest point of the segment *)
Lemma proj_dist2_minimal s d p t :
  0 < d2 d s -> 0 <= t <= 1 -> proj_dist2 (d2 d s) s d p <= d2 (pt_on s d t) p.
Proof.
  intros HL Ht. rewrite d2_pt_on. unfold proj_dist2. cbv zeta.
  unfold d2 in *.
  set (ex := fst d - fst s) in *. set (ey := snd d - snd s) in *.
  set (rx := fst p - fst s). set (ry := snd p - snd s).
  set (L := ex * ex + ey * ey) in *.
  set (a := (rx * ex + ry * ey) / L).
  assert (HaL : a * (ex * ex + ey * ey) = rx * ex + ry * ey).
  { unfold a. fold L. field. lra. }
  pose proof (quad_diff ex ey rx ry a t (Rclamp01 a) HaL) as Hd. fold L in Hd.
  assert (Hpos : 0 <= (t - Rclamp01 a) * (t + Rclamp01 a - 2 * a)).
  { destruct (Rclamp01_cases a) as [[Ha ->]|[[Ha ->]|[Ha ->]]].
    - apply Rmult_le_pos; lra.
    - replace ((t - 1) * (t + 1 - 2 * a)) with ((1 - t) * (2 * a - 1 - t)) by ring.
      apply Rmult_le_pos; lra.
    - replace ((t - a) * (t + a - 2 * a)) with ((t - a) * (t - a)) by ring.
      pose proof (Rle_0_sqr (t - a)) as Hs. unfold Rsqr in Hs. exact Hs. }
  assert (0 <= L * ((t - Rclamp01 a) * (t + Rclamp01 a - 2 * a))).
  { apply Rmult_le_pos; [lra|exact Hpos]. }
  lra.
Qed.

Lemma proj_dist2_is_seg_dist2 s d p :
  0 < d2 d s -> is_seg_dist2 s d p (proj_dist2 (d2 d s) s d p).
Proof.
  intros HL. split; [apply proj_dist2_attained|]. intros t Ht. apply proj_dist2_minimal; assumption.
Qed.

Lemma seg_dist2_unique s d p v1 v2 : is_seg_dist2 s d p v1 -> is_seg_dist2 s d p v2 -> v1 = v2.
Proof.
  intros [[t1 [Ht1 E1]] M1] [[t2 [Ht2 E2]] M2].
  pose proof (M1 t2 Ht2). pose proof (M2 t1 Ht1). lra.
Qed.

Lemma seg_dist2_nonneg s d p v : is_seg_dist2 s d p v -> 0 <= v.
Proof. intros [[t [_ ->]] _]. apply d2_nonneg. Qed.

Lemma d2_zero_iff p q : d2 p q = 0 <-> p = q.
Proof.
  destruct p as [a b], q as [c e]. unfold d2. cbn [fst snd]. split.
  - intros H. pose proof (Rle_0_sqr (a - c)) as H1. pose proof (Rle_0_sqr (b - e)) as H2.
    unfold Rsqr in *.
    assert (Ha : (a - c) * (a - c) = 0) by lra. assert (Hb : (b - e) * (b - e) = 0) by lra.
    apply Rmult_integral in Ha. apply Rmult_integral in Hb. f_equal; lra.
  - intros H. inversion H. subst. ring.
Qed.

Lemma seg_dist2_zero_iff s d p v : is_seg_dist2 s d p v -> (v = 0 <-> on_segment s d p).
Proof.
  intros [[t [Ht E]] M]. split.
  - intros Hz. exists t. split; [exact Ht|]. symmetry. apply d2_zero_iff. lra.
  - intros [t' [Ht' Hp]]. pose proof (M t' Ht') as Hle.
    assert (Hz : d2 (pt_on s d t') p = 0) by (apply d2_zero_iff; symmetry; exact Hp).
    pose proof (d2_nonneg (pt_on s d t) p). lra.
Qed.

(* Cauchy-Schwarz in the plane and the triangle inequality along the segment: the
   distance from p to ANY point of the segment exceeds the distance to the segment by
   at most the segment's length.  Bounds the error of the mis-projection (F1). *)
Lemma cauchy_schwarz2 ax ay ex ey :
  (ax * ex + ay * ey) * (ax * ex + ay * ey) <= (ax * ax + ay * ay) * (ex * ex + ey * ey).
Proof.
  pose proof (Rle_0_sqr (ax * ey - ay * ex)) as H. unfold Rsqr in H.
  replace ((ax * ax + ay * ay) * (ex * ex + ey * ey))
    with ((ax * ex + ay * ey) * (ax * ex + ay * ey) + (ax * ey - ay * ex) * (ax * ey - ay * ex)) by ring.
  lra.
Qed.

Lemma abs_le_sqrt x y : 0 <= y -> x * x <= y -> Rabs x <= sqrt y.
Proof.
  intros Hy H. rewrite <- sqrt_Rsqr_abs. apply sqrt_le_1; [apply Rle_0_sqr|exact Hy|exact H].
Qed.

Lemma any_segment_point_bound s d p v t' :
  is_seg_dist2 s d p v -> 0 <= t' <= 1 ->
  d2 (pt_on s d t') p <= (sqrt v + sqrt (d2 d s)) * (sqrt v + sqrt (d2 d s)).
Proof.
  intros [[t [Ht Ev]] _] Ht'.
  pose proof (d2_nonneg (pt_on s d t) p) as Hv0. rewrite <- Ev in Hv0.
  pose proof (d2_nonneg d s) as HL0.
  pose proof (sqrt_sqrt v Hv0) as HA. pose proof (sqrt_sqrt _ HL0) as HB.
  pose proof (sqrt_pos v) as HA0. pose proof (sqrt_pos (d2 d s)) as HB0.
  set (A := sqrt v) in *. set (B := sqrt (d2 d s)) in *.
  set (ex := fst d - fst s). set (ey := snd d - snd s).
  set (ax := fst s + t * ex - fst p). set (ay := snd s + t * ey - snd p).
  set (k := t' - t).
  assert (Hv : v = ax * ax + ay * ay) by (rewrite Ev; unfold d2, pt_on, ax, ay, ex, ey; cbn [fst snd]; ring).
  assert (HL : d2 d s = ex * ex + ey * ey) by (unfold d2, ex, ey; ring).
  assert (Hexp : d2 (pt_on s d t') p = v + 2 * (k * (ax * ex + ay * ey)) + k * k * (d2 d s)).
  { rewrite Hv, HL. unfold d2, pt_on, ax, ay, ex, ey, k. cbn [fst snd]. ring. }
  rewrite Hexp.
  assert (Hc : Rabs (ax * ex + ay * ey) <= A * B).
  { unfold A, B. rewrite <- sqrt_mult by assumption.
    apply abs_le_sqrt; [apply Rmult_le_pos; assumption|]. rewrite Hv, HL. apply cauchy_schwarz2. }
  assert (Hk : Rabs k <= 1) by (unfold k; apply Rabs_le; lra).
  assert (Hkc : k * (ax * ex + ay * ey) <= A * B).
  { eapply Rle_trans; [apply Rle_abs|]. rewrite Rabs_mult.
    replace (A * B) with (1 * (A * B)) by ring. apply Rmult_le_compat; try apply Rabs_pos; assumption. }
  assert (Hkk : k * k * d2 d s <= d2 d s).
  { assert (k * k <= 1).
    { replace (k * k) with (Rabs k * Rabs k) by (rewrite <- Rabs_mult; apply Rabs_right; apply Rle_ge; apply Rle_0_sqr).
      replace 1 with (1 * 1) by ring. apply Rmult_le_compat; try apply Rabs_pos; assumption. }
    replace (d2 d s) with (1 * d2 d s) at 2 by ring. apply Rmult_le_compat_r; assumption. }
  replace ((A + B) * (A + B)) with (A * A + 2 * (A * B) + B * B) by ring. rewrite HA, HB. lra.
Qed.

(* ------------------------------------------------------------------ *)
(* the weight *)

Lemma two_sq_pos s : s <> 0 -> 0 < 2 * (s * s).
Proof. intros H. pose proof (Rsqr_pos_lt s H). unfold Rsqr in *. lra. Qed.

Lemma exp_le a b : a <= b -> exp a <= exp b.
Proof. intros [Hlt|Heq]; [left; apply exp_increasing; exact Hlt | rewrite Heq; right; reflexivity]. Qed.

Lemma neg_div_le a b c : 0 < c -> a <= b -> - b / c <= - a / c.
Proof.
  intros Hc Hab. unfold Rdiv. apply Rmult_le_compat_r; [left; apply Rinv_0_lt_compat; exact Hc|lra].
Qed.

Lemma neg_div_lt a b c : 0 < c -> a < b -> - b / c < - a / c.
Proof.
  intros Hc Hab. unfold Rdiv. apply Rmult_lt_compat_r; [apply Rinv_0_lt_compat; exact Hc|lra].
Qed.

Lemma sq_le_sq a b : 0 <= a <= b -> a * a <= b * b.
Proof. intros [H0 H1]. apply Rmult_le_compat; lra. Qed.

Lemma sq_lt_sq a b : 0 <= a < b -> a * a < b * b.
Proof. intros [H0 H1]. apply Rmult_le_0_lt_compat; lra. Qed.

Lemma paf_weight_range sig v : sig <> 0 -> 0 < paf_weight sig v <= 1.
Proof.
  intros Hs. unfold paf_weight. split; [apply exp_pos|].
  rewrite <- exp_0. apply exp_le.
  pose proof (neg_div_le 0 (v * v) (2 * (sig * sig)) (two_sq_pos _ Hs)) as H.
  replace (- 0 / (2 * (sig * sig))) with 0 in H by (unfold Rdiv; lra).
  apply H. pose proof (Rle_0_sqr v). unfold Rsqr in *. lra.
Qed.

Lemma paf_weight_monotone sig v1 v2 :
  sig <> 0 -> 0 <= v1 <= v2 -> paf_weight sig v2 <= paf_weight sig v1.
Proof.
  intros Hs Hv. unfold paf_weight. apply exp_le.
  apply neg_div_le; [apply two_sq_pos; exact Hs | apply sq_le_sq; exact Hv].
Qed.

Lemma paf_weight_strict sig v1 v2 :
  sig <> 0 -> 0 <= v1 < v2 -> paf_weight sig v2 < paf_weight sig v1.
Proof.
  intros Hs Hv. unfold paf_weight. apply exp_increasing.
  apply neg_div_lt; [apply two_sq_pos; exact Hs | apply sq_lt_sq; exact Hv].
Qed.

Lemma paf_weight_0 sig : paf_weight sig 0 = 1.
Proof.
  unfold paf_weight. replace (- (0 * 0) / (2 * (sig * sig))) with 0 by (unfold Rdiv; lra). apply exp_0.
Qed.

Lemma paf_weight_one_iff sig v : sig <> 0 -> 0 <= v -> (paf_weight sig v = 1 <-> v = 0).
Proof.
  intros Hs Hv. split.
  - intros H1. destruct Hv as [Hpos|Hz]; [|symmetry; exact Hz]. exfalso.
    pose proof (paf_weight_strict sig 0 v Hs (conj (Rle_refl 0) Hpos)) as Hlt.
    rewrite paf_weight_0 in Hlt. lra.
  - intros ->. apply paf_weight_0.
Qed.

Lemma sig_pos_R (sig : Q) : (0 < sig)%Q -> Q2R sig <> 0.
Proof. intros Hs. apply Qlt_Rlt in Hs. rewrite Q2R_0 in Hs. lra. Qed.

Lemma sig_sq_nonzero (sig : Q) : (0 < sig)%Q -> ~ (2 * sq sig == 0)%Q.
Proof.
  intros Hs Heq. apply Qeq_eqR in Heq. rewrite Q2R_mult, Q2R_sq, Q2R_0, Q2R_2 in Heq.
  pose proof (two_sq_pos _ (sig_pos_R _ Hs)). lra.
Qed.

Lemma gauss_arg_some sig x : (0 < sig)%Q -> gauss_arg sig x = Some (garg_val sig x).
Proof. intros Hs. unfold gauss_arg, garg_val. apply qdiv_some. apply sig_sq_nonzero. exact Hs. Qed.

Lemma Q2R_gauss_arg sig x :
  (0 < sig)%Q -> Q2R (garg_val sig x) = - (Q2R x * Q2R x) / (2 * (Q2R sig * Q2R sig)).
Proof.
  intros Hs. unfold garg_val. rewrite Q2R_div by (apply sig_sq_nonzero; exact Hs).
  rewrite Q2R_opp, Q2R_mult, !Q2R_sq, Q2R_2. reflexivity.
Qed.

(* for sigma > 0 both partial functions are defined and the weight is exp of the value *)
Lemma mweight_val sig s d x y :
  (0 < sig)%Q -> mweight sig s d x y = exp (Q2R (garg_val sig (dval s d x y))).
Proof.
  intros Hs. unfold mweight. rewrite dist_edge_some. cbn [obind]. rewrite gauss_arg_some by exact Hs.
  reflexivity.
Qed.

(* the model's weight is the code's formula applied to the projected squared distance *)
Lemma mweight_eq sig s d x y :
  (0 < sig)%Q ->
  mweight sig s d x y =
  paf_weight (Q2R sig) (proj_dist2 (Q2R (edge_len fl (len2 s d))) (q2 s) (q2 d) (Q2R x, Q2R y)).
Proof.
  intros Hs. rewrite mweight_val by exact Hs. unfold paf_weight. rewrite Q2R_gauss_arg by exact Hs.
  rewrite Q2R_dist_edge. reflexivity.
Qed.

Lemma mweight_range sig s d x y : (0 < sig)%Q -> 0 < mweight sig s d x y <= 1.
Proof. intros Hs. rewrite mweight_eq by exact Hs. apply paf_weight_range. apply sig_pos_R. exact Hs. Qed.

Lemma len2_pos_R s d : (0 < len2 s d)%Q -> 0 < d2 (q2 d) (q2 s).
Proof. intros H. apply Qlt_Rlt in H. rewrite Q2R_0, Q2R_len2 in H. exact H. Qed.

Lemma dval_is_seg_dist2 s d x y :
  len_ok fl s d ->
  is_seg_dist2 (q2 s) (q2 d) (Q2R x, Q2R y) (Q2R (dval s d x y)).
Proof.
  intros Hok. rewrite Q2R_dist_edge, (edge_len_exact _ _ _ Hok).
  apply proj_dist2_is_seg_dist2. apply len2_pos_R. eapply len_ok_pos. exact Hok.
Qed.

(* the model's distance_to_edge is defined and IS the squared distance to the segment *)
Lemma model_dist_is_seg_dist2 s d x y :
  len_ok fl s d ->
  exists D, dist_edge fl s d x y = Some D /\ is_seg_dist2 (q2 s) (q2 d) (Q2R x, Q2R y) (Q2R D).
Proof. intros Hok. exists (dval s d x y). split; [apply dist_edge_some|apply dval_is_seg_dist2; exact Hok]. Qed.

(* (b) outside F1 the weight is the code's function of the TRUE squared distance to
   the closed segment *)
Lemma mweight_true_distance sig s d x y v :
  (0 < sig)%Q -> len_ok fl s d ->
  is_seg_dist2 (q2 s) (q2 d) (Q2R x, Q2R y) v ->
  mweight sig s d x y = paf_weight (Q2R sig) v.
Proof.
  intros Hs HL Hv. rewrite mweight_val by exact Hs. unfold paf_weight. rewrite Q2R_gauss_arg by exact Hs.
  rewrite (seg_dist2_unique _ _ _ _ _ (dval_is_seg_dist2 s d x y HL) Hv). reflexivity.
Qed.

(* whatever the length, the weight never exceeds the one of the true distance *)
Lemma mweight_le_true sig s d x y v :
  (0 < sig)%Q -> is_seg_dist2 (q2 s) (q2 d) (Q2R x, Q2R y) v ->
  mweight sig s d x y <= paf_weight (Q2R sig) v.
Proof.
  intros Hs Hv. rewrite mweight_eq by exact Hs.
  apply paf_weight_monotone; [apply sig_pos_R; exact Hs|].
  split; [eapply seg_dist2_nonneg; exact Hv|].
  destruct (proj_dist2_attained (Q2R (edge_len fl (len2 s d))) (q2 s) (q2 d) (Q2R x, Q2R y)) as [t [Ht ->]].
  destruct Hv as [_ M]. apply M. exact Ht.
Qed.

(* ... and never falls below the one of (true distance + edge length): the error of
   F1 is bounded by the (sub-pixel) length of the edge *)
Lemma mweight_ge_shifted sig s d x y v :
  (0 < sig)%Q -> is_seg_dist2 (q2 s) (q2 d) (Q2R x, Q2R y) v ->
  paf_weight (Q2R sig) ((sqrt v + sqrt (d2 (q2 d) (q2 s))) * (sqrt v + sqrt (d2 (q2 d) (q2 s))))
  <= mweight sig s d x y.
Proof.
  intros Hs Hv. rewrite mweight_eq by exact Hs.
  apply paf_weight_monotone; [apply sig_pos_R; exact Hs|].
  destruct (proj_dist2_attained (Q2R (edge_len fl (len2 s d))) (q2 s) (q2 d) (Q2R x, Q2R y)) as [t [Ht ->]].
  split; [apply d2_nonneg|]. apply any_segment_point_bound; assumption.
Qed.

Lemma mweight_on_segment sig s d x y :
  (0 < sig)%Q -> len_ok fl s d ->
  on_segment (q2 s) (q2 d) (Q2R x, Q2R y) -> mweight sig s d x y = 1.
Proof.
  intros Hs HL Hon.
  pose proof (dval_is_seg_dist2 s d x y HL) as Hv.
  rewrite (mweight_true_distance sig s d x y _ Hs HL Hv).
  apply paf_weight_one_iff; [apply sig_pos_R; exact Hs | eapply seg_dist2_nonneg; exact Hv |].
  apply (seg_dist2_zero_iff _ _ _ _ Hv). exact Hon.
Qed.

Lemma mweight_one_only_on_segment sig s d x y :
  (0 < sig)%Q -> len_ok fl s d ->
  mweight sig s d x y = 1 -> on_segment (q2 s) (q2 d) (Q2R x, Q2R y).
Proof.
  intros Hs HL H1.
  pose proof (dval_is_seg_dist2 s d x y HL) as Hv.
  rewrite (mweight_true_distance sig s d x y _ Hs HL Hv) in H1.
  apply (seg_dist2_zero_iff _ _ _ _ Hv).
  apply (paf_weight_one_iff (Q2R sig)); [apply sig_pos_R; exact Hs | eapply seg_dist2_nonneg; exact Hv | exact H1].
Qed.

Lemma mweight_nonincreasing sig s d x1 y1 x2 y2 v1 v2 :
  (0 < sig)%Q -> len_ok fl s d ->
  is_seg_dist2 (q2 s) (q2 d) (Q2R x1, Q2R y1) v1 ->
  is_seg_dist2 (q2 s) (q2 d) (Q2R x2, Q2R y2) v2 ->
  v1 <= v2 -> mweight sig s d x2 y2 <= mweight sig s d x1 y1.
Proof.
  intros Hs HL H1 H2 Hle.
  rewrite (mweight_true_distance _ _ _ _ _ _ Hs HL H1), (mweight_true_distance _ _ _ _ _ _ Hs HL H2).
  apply paf_weight_monotone; [apply sig_pos_R; exact Hs|]. split; [eapply seg_dist2_nonneg; exact H1|exact Hle].
Qed.

(* ------------------------------------------------------------------ *)
(* the unit vector and one animal's contribution to one cell *)

Definition comp {A} (c : nat) (pr : A * A) : A := match c with O => fst pr | _ => snd pr end.

Lemma unit_vec_spec_norm s d :
  0 < d2 d s ->
  fst (unit_vec_spec s d) * fst (unit_vec_spec s d) + snd (unit_vec_spec s d) * snd (unit_vec_spec s d) = 1.
Proof.
  intros HL. unfold unit_vec_spec. cbn [fst snd].
  assert (Hs : sqrt (d2 d s) * sqrt (d2 d s) = d2 d s) by (apply sqrt_sqrt; lra).
  assert (Hne : sqrt (d2 d s) <> 0).
  { intros Hz. rewrite Hz in Hs. lra. }
  set (r := sqrt (d2 d s)) in *.
  replace ((fst d - fst s) / r * ((fst d - fst s) / r) + (snd d - snd s) / r * ((snd d - snd s) / r))
    with (((fst d - fst s) * (fst d - fst s) + (snd d - snd s) * (snd d - snd s)) / (r * r))
    by (field; exact Hne).
  rewrite Hs. unfold d2. field. unfold d2 in HL. lra.
Qed.

(* it points from the source to the destination: d - s = |d - s| * u with |d - s| > 0 *)
Lemma unit_vec_spec_direction s d :
  0 < d2 d s ->
  0 < sqrt (d2 d s) /\
  fst d - fst s = sqrt (d2 d s) * fst (unit_vec_spec s d) /\
  snd d - snd s = sqrt (d2 d s) * snd (unit_vec_spec s d).
Proof.
  intros HL. pose proof (sqrt_lt_R0 _ HL) as Hp. unfold unit_vec_spec. cbn [fst snd].
  split; [exact Hp|]. split; field; lra.
Qed.


(* zero contribution: missing endpoint, zero-length edge *)
Lemma paf_cell_missing_src sig d x y : paf_cell fl sig None d x y = (None, None).
Proof. reflexivity. Qed.

Lemma paf_cell_missing_dst sig s x y : paf_cell fl sig s None x y = (None, None).
Proof. destruct s; reflexivity. Qed.

Lemma paf_cell_zero_length sig s d x y :
  (len2 s d == 0)%Q -> paf_cell fl sig (Some s) (Some d) x y = (None, None).
Proof.
  intros H. unfold paf_cell, unit_vec. apply Qeq_bool_iff in H. rewrite H. reflexivity.
Qed.

Lemma len2_same s : (len2 s s == 0)%Q.
Proof. unfold len2, sq. ring. Qed.

(* (a) a visible edge of non-zero length contributes weight * unit vector (for sigma = 0,
   outside the domain, both sides are 0: no term, weight of a NaN exponent) *)
Lemma paf_cell_pval sig s d x y c :
  Qeq_bool (len2 s d) 0 = false ->
  pval (comp c (paf_cell fl sig (Some s) (Some d) x y)) =
  mweight sig s d x y * comp c (unit_vec_spec (q2 s) (q2 d)).
Proof.
  intros Hz. unfold paf_cell, unit_vec, dist_edge_opt, mweight. rewrite Hz.
  destruct (obind (gauss_arg sig) (dist_edge fl s d x y)) as [a|].
  - destruct c; unfold comp, pval, wexp, tval, unit_vec_spec, q2; cbn [fst snd];
      rewrite Q2R_len2, !Q2R_minus; unfold q2; cbn [fst snd]; reflexivity.
  - destruct c; unfold comp, pval, wexp; cbn [fst snd]; ring.
Qed.

(* ... and for sigma > 0 there really are two terms *)
Lemma paf_cell_value sig s d x y :
  (0 < sig)%Q -> Qeq_bool (len2 s d) 0 = false ->
  exists tx ty,
    paf_cell fl sig (Some s) (Some d) x y = (Some tx, Some ty) /\
    tval tx = mweight sig s d x y * fst (unit_vec_spec (q2 s) (q2 d)) /\
    tval ty = mweight sig s d x y * snd (unit_vec_spec (q2 s) (q2 d)) /\
    (snd tx == len2 s d)%Q /\ (snd ty == len2 s d)%Q.
Proof.
  intros Hs Hz. rewrite (mweight_val _ _ _ _ _ Hs).
  unfold paf_cell, unit_vec, dist_edge_opt. rewrite Hz, dist_edge_some. cbn [obind].
  rewrite (gauss_arg_some _ _ Hs).
  eexists. eexists. split; [reflexivity|].
  unfold tval, unit_vec_spec, q2. cbn [fst snd].
  rewrite Q2R_len2, !Q2R_minus. unfold q2. cbn [fst snd].
  repeat split; reflexivity.
Qed.

Lemma tval_bound a n l :
  (a <= 0)%Q -> (0 < l)%Q -> (n * n <= l)%Q -> Rabs (tval (a, n, l)) <= 1.
Proof.
  intros Ha Hl Hn. unfold tval.
  apply Qle_Rle in Ha. rewrite Q2R_0 in Ha. apply Qlt_Rlt in Hl. rewrite Q2R_0 in Hl.
  apply Qle_Rle in Hn. rewrite Q2R_mult in Hn.
  assert (He : 0 < exp (Q2R a) <= 1).
  { split; [apply exp_pos|]. rewrite <- exp_0. apply exp_le. exact Ha. }
  assert (Hs : sqrt (Q2R l) * sqrt (Q2R l) = Q2R l) by (apply sqrt_sqrt; lra).
  pose proof (sqrt_lt_R0 _ Hl) as Hr.
  set (r := sqrt (Q2R l)) in *. set (m := Q2R n) in *.
  assert (Hq : Rabs (m / r) <= 1).
  { unfold Rdiv. rewrite Rabs_mult. rewrite (Rabs_right (/ r)) by (left; apply Rinv_0_lt_compat; exact Hr).
    apply Rmult_le_reg_r with r; [exact Hr|].
    rewrite Rmult_assoc, Rinv_l by lra. rewrite Rmult_1_r, Rmult_1_l.
    apply Rsqr_incr_0_var; [|lra]. rewrite <- Rsqr_abs. unfold Rsqr. lra. }
  rewrite Rabs_mult. rewrite (Rabs_right (exp (Q2R a))) by lra.
  replace 1 with (1 * 1) by ring. apply Rmult_le_compat; try lra. apply Rabs_pos.
Qed.

(* ------------------------------------------------------------------ *)
(* structure: which cell holds what *)

Lemma map2_nth {A B C} (f : A -> B -> C) l m k a b :
  nth_error l k = Some a -> nth_error m k = Some b ->
  nth_error (map2 f l m) k = Some (f a b).
Proof.
  revert m k. induction l as [|x l IH]; intros m k Ha Hb; destruct k; simpl in *; try discriminate;
    destruct m as [|y m]; simpl in *; try discriminate.
  - congruence.
  - apply IH; assumption.
Qed.

Lemma map2_length {A B C} (f : A -> B -> C) l m :
  length (map2 f l m) = Nat.min (length l) (length m).
Proof.
  revert m. induction l as [|x l IH]; intros m; destruct m as [|y m]; simpl; try reflexivity.
  rewrite IH. reflexivity.
Qed.

Lemma cell_map2 {A B C} (f : A -> B -> C) (a : chan A) (b : chan B) i j u v :
  cell a i j = Some u -> cell b i j = Some v -> cell (map2 (map2 f) a b) i j = Some (f u v).
Proof.
  unfold cell. intros Ha Hb.
  destruct (nth_error a i) as [ra|] eqn:Ea; [|discriminate].
  destruct (nth_error b i) as [rb|] eqn:Eb; [|discriminate].
  rewrite (map2_nth _ _ _ _ _ _ Ea Eb). apply map2_nth; assumption.
Qed.

Lemma cell4_add_paf acc paf e c i j a o :
  cell4 acc e c i j = Some a -> cell4 paf e c i j = Some o ->
  cell4 (add_paf acc paf) e c i j = Some (add_cell a o).
Proof.
  unfold cell4, add_paf. intros Ha Ho.
  destruct (nth_error acc e) as [xa|] eqn:Ea; [|discriminate].
  destruct (nth_error paf e) as [xp|] eqn:Ep; [|discriminate].
  rewrite (map2_nth _ _ _ _ _ _ Ea Ep).
  destruct (nth_error xa c) as [ma|] eqn:Ca; [|discriminate].
  destruct (nth_error xp c) as [mp|] eqn:Cp; [|discriminate].
  rewrite (map2_nth _ _ _ _ _ _ Ca Cp).
  apply cell_map2; assumption.
Qed.

Lemma cell_map_map {A} (f : Q -> Q -> A) xv yv i j x y :
  nth_error yv i = Some y -> nth_error xv j = Some x ->
  cell (map (fun y => map (fun x => f x y) xv) yv) i j = Some (f x y).
Proof.
  intros Hy Hx. unfold cell. rewrite nth_error_map, Hy. simpl. rewrite nth_error_map, Hx. reflexivity.
Qed.

Lemma make_pafs_cell xv yv srcs dsts sig e c i j s d x y :
  nth_error srcs e = Some s -> nth_error dsts e = Some d -> (c < 2)%nat ->
  nth_error yv i = Some y -> nth_error xv j = Some x ->
  cell4 (make_pafs fl xv yv srcs dsts sig) e c i j = Some (comp c (paf_cell fl sig s d x y)).
Proof.
  intros Hs Hd Hc Hy Hx. unfold cell4, make_pafs.
  rewrite (map2_nth _ _ _ _ _ _ Hs Hd).
  destruct c as [|[|c]]; [| |lia]; simpl nth_error; unfold comp.
  - apply (cell_map_map (fun x y => fst (paf_cell fl sig s d x y))); assumption.
  - apply (cell_map_map (fun x y => snd (paf_cell fl sig s d x y))); assumption.
Qed.

Lemma nth_error_repeat {A} (a : A) n k : (k < n)%nat -> nth_error (repeat a n) k = Some a.
Proof.
  intros H. rewrite (nth_error_nth' _ a) by (rewrite repeat_length; exact H).
  rewrite nth_repeat. reflexivity.
Qed.

Lemma zeros_cell n h w e c i j :
  (e < n)%nat -> (c < 2)%nat -> (i < h)%nat -> (j < w)%nat -> cell4 (zeros n h w) e c i j = Some [].
Proof.
  intros He Hc Hi Hj. unfold cell4, zeros, cell.
  rewrite (nth_error_repeat _ _ _ He), (nth_error_repeat _ _ _ Hc), (nth_error_repeat _ _ _ Hi).
  apply nth_error_repeat. exact Hj.
Qed.

Definition otl (o : option term) : list term := match o with None => [] | Some t => [t] end.

Lemma add_cell_otl a o : add_cell a o = a ++ otl o.
Proof. destruct o; simpl; [reflexivity|rewrite app_nil_r; reflexivity]. Qed.

(* the contribution of one instance (its source and destination lists) to cell (e,c,i,j) *)
Definition contrib (sig : Q) (e c : nat) (x y : Q) (sd : list kp * list kp) : option term :=
  comp c (paf_cell fl sig (nth e (fst sd) None) (nth e (snd sd) None) x y).

Lemma multi_fold_cell xv yv sig e c i j x y :
  nth_error yv i = Some y -> nth_error xv j = Some x -> (c < 2)%nat ->
  forall sds acc a0,
    Forall (fun sd => (e < length (fst sd))%nat /\ (e < length (snd sd))%nat) sds ->
    cell4 acc e c i j = Some a0 ->
    cell4 (fold_left (fun acc sd => add_paf acc (make_pafs fl xv yv (fst sd) (snd sd) sig)) sds acc) e c i j
    = Some (a0 ++ flat_map (fun sd => otl (contrib sig e c x y sd)) sds).
Proof.
  intros Hy Hx Hc. induction sds as [|sd t IH]; intros acc a0 Hall Hacc; simpl.
  - rewrite app_nil_r. exact Hacc.
  - pose proof (Forall_inv Hall) as [Hl1 Hl2]. pose proof (Forall_inv_tail Hall) as Ht.
    rewrite app_assoc. apply (IH _ _ Ht).
    rewrite <- add_cell_otl. apply cell4_add_paf; [exact Hacc|].
    unfold contrib. apply make_pafs_cell; try assumption.
    + apply nth_error_nth'. exact Hl1.
    + apply nth_error_nth'. exact Hl2.
Qed.

Lemma Rsum_app a b : Rsum (a ++ b) = Rsum a + Rsum b.
Proof. induction a as [|x a IH]; simpl; [lra|rewrite IH; lra]. Qed.

Lemma cval_app a b : cval (a ++ b) = cval a + cval b.
Proof. unfold cval. rewrite map_app. apply Rsum_app. Qed.

Lemma cval_otl o : cval (otl o) = pval o.
Proof. destruct o; unfold cval; simpl; lra. Qed.

Lemma cval_flat_map {A} (f : A -> option term) l :
  cval (flat_map (fun a => otl (f a)) l) = Rsum (map (fun a => pval (f a)) l).
Proof.
  induction l as [|a l IH]; simpl; [reflexivity|]. rewrite cval_app, cval_otl, IH. reflexivity.
Qed.

(* (c) make_multi_pafs fl: every cell is the SUM over the instances of their contributions *)
Lemma multi_pafs_cell xv yv n_edges srcss dstss sig e c i j x y :
  nth_error yv i = Some y -> nth_error xv j = Some x -> (c < 2)%nat -> (e < n_edges)%nat ->
  Forall (fun sd => (e < length (fst sd))%nat /\ (e < length (snd sd))%nat) (combine srcss dstss) ->
  exists cl,
    cell4 (make_multi_pafs fl xv yv n_edges srcss dstss sig) e c i j = Some cl /\
    cl = flat_map (fun sd => otl (contrib sig e c x y sd)) (combine srcss dstss) /\
    cval cl = Rsum (map (fun sd => pval (contrib sig e c x y sd)) (combine srcss dstss)).
Proof.
  intros Hy Hx Hc He Hall. eexists. split; [|split; [reflexivity|apply cval_flat_map]].
  unfold make_multi_pafs.
  rewrite (multi_fold_cell xv yv sig e c i j x y Hy Hx Hc _ _ [] Hall); [reflexivity|].
  apply zeros_cell; try assumption.
  - apply nth_error_Some. congruence.
  - apply nth_error_Some. congruence.
Qed.

(* ------------------------------------------------------------------ *)
(* the sampling grid *)

Lemma ceil_div_spec n s k : (0 < s)%nat -> (k < ceil_div n s)%nat <-> (k * s < n)%nat.
Proof.
  intros Hs. unfold ceil_div. split; intros H.
  - assert (Hm : (s * ((n + s - 1) / s) <= n + s - 1)%nat) by (apply Nat.mul_div_le; lia).
    nia.
  - assert (Hq : (S k <= (n + s - 1) / s)%nat); [|lia].
    apply Nat.div_le_lower_bound; [lia|nia].
Qed.

Lemma grid_length n s : length (grid n s) = ceil_div n s.
Proof. unfold grid. rewrite map_length, seq_length. reflexivity. Qed.

Lemma ceil_div_exact q s : (0 < s)%nat -> ceil_div (q * s) s = q.
Proof.
  intros Hs. unfold ceil_div.
  replace (q * s + s - 1)%nat with (s - 1 + q * s)%nat by lia.
  rewrite Nat.div_add by lia. rewrite Nat.div_small by lia. lia.
Qed.

Lemma grid_nth n s k : (0 < s)%nat -> (k * s < n)%nat ->
  nth_error (grid n s) k = Some (nat_Q (k * s)).
Proof.
  intros Hs Hk. unfold grid. rewrite nth_error_map.
  assert (Hlt : (k < ceil_div n s)%nat) by (apply ceil_div_spec; assumption).
  rewrite (nth_error_nth' _ 0%nat) by (rewrite seq_length; exact Hlt).
  rewrite seq_nth by exact Hlt. reflexivity.
Qed.

Lemma Q2R_nat_Q k : Q2R (nat_Q k) = INR k.
Proof. unfold nat_Q, Q2R, inject_Z; simpl. rewrite INR_IZR_INZ. lra. Qed.

(* xv[-1]: the last grid coordinate, (ceil(n/s) - 1) * s <= n - 1 *)
Lemma grid_last n s : (0 < s)%nat -> (0 < n)%nat ->
  last (grid n s) 0%Q = nat_Q ((ceil_div n s - 1) * s) /\ ((ceil_div n s - 1) * s <= n - 1)%nat.
Proof.
  intros Hs Hn.
  assert (Hc : (0 < ceil_div n s)%nat) by (apply ceil_div_spec; [exact Hs|lia]).
  destruct (ceil_div n s) as [|m] eqn:E; [lia|]. split.
  - replace (S m - 1)%nat with m by lia.
    unfold grid. rewrite E, seq_S, map_app. cbn [map Nat.add]. rewrite last_last. reflexivity.
  - assert (Hlt : (m < ceil_div n s)%nat) by lia. apply ceil_div_spec in Hlt; [|exact Hs].
    replace (S m - 1)%nat with m by lia. lia.
Qed.

(* ------------------------------------------------------------------ *)
(* generate_pafs fl *)

Definition kept (fb : bool) (H W s : nat) (insts : list (list kp)) : list (list kp) :=
  filter (in_img fb H W (grid W s) (grid H s)) insts.

(* one animal's contribution to component c of edge (a,b) at image position (x,y) *)
Definition animal_contrib (sig : Q) (a b c : nat) (x y : Q) (inst : list kp) : option term :=
  comp c (paf_cell fl sig (node inst a) (node inst b) x y).

Lemma combine_map {A B C} (f : A -> B) (g : A -> C) l :
  combine (map f l) (map g l) = map (fun a => (f a, g a)) l.
Proof. induction l as [|a l IH]; simpl; [reflexivity|rewrite IH; reflexivity]. Qed.

Lemma nth_map_edges (f : nat * nat -> kp) edges e ab :
  nth_error edges e = Some ab -> nth e (map f edges) None = f ab.
Proof.
  intros H. apply nth_error_nth. rewrite nth_error_map, H. reflexivity.
Qed.

Lemma flat_map_map {A B C} (f : A -> B) (g : B -> list C) l :
  flat_map g (map f l) = flat_map (fun a => g (f a)) l.
Proof. induction l as [|a l IH]; simpl; [reflexivity|rewrite IH; reflexivity]. Qed.

Lemma flat_map_ext' {A B} (f g : A -> list B) l : (forall a, f a = g a) -> flat_map f l = flat_map g l.
Proof. intros H. induction l as [|a l IH]; simpl; [reflexivity|rewrite H, IH; reflexivity]. Qed.

Theorem generate_pafs_cell fb samples H W sig s edges e a b c i j :
  (0 < s)%nat -> nth_error edges e = Some (a, b) -> (c < 2)%nat ->
  (i * s < H)%nat -> (j * s < W)%nat ->
  exists cl,
    cell4 (generate_pafs fl fb samples H W sig s edges) e c i j = Some cl /\
    cl = flat_map (fun inst => otl (animal_contrib sig a b c (nat_Q (j * s)) (nat_Q (i * s)) inst))
                  (kept fb H W s (hd [] samples)) /\
    cval cl = Rsum (map (fun inst => pval (animal_contrib sig a b c (nat_Q (j * s)) (nat_Q (i * s)) inst))
                        (kept fb H W s (hd [] samples))).
Proof.
  intros Hs He Hc Hi Hj.
  assert (Hlt : (e < length edges)%nat) by (apply nth_error_Some; congruence).
  unfold generate_pafs, get_edge_points. cbn [fst snd]. fold (kept fb H W s (hd [] samples)).
  set (insts := kept fb H W s (hd [] samples)).
  destruct (multi_pafs_cell (grid W s) (grid H s) (length edges)
              (map (fun inst => map (fun e0 => node inst (fst e0)) edges) insts)
              (map (fun inst => map (fun e0 => node inst (snd e0)) edges) insts)
              sig e c i j (nat_Q (j * s)) (nat_Q (i * s))) as [cl [Hcell [Hcl Hval]]].
  - apply grid_nth; assumption.
  - apply grid_nth; assumption.
  - exact Hc.
  - exact Hlt.
  - rewrite combine_map. apply Forall_forall. intros sd Hin. apply in_map_iff in Hin.
    destruct Hin as [inst [<- _]]. cbn [fst snd]. rewrite !map_length. split; exact Hlt.
  - assert (Hcontrib : forall inst,
              contrib sig e c (nat_Q (j * s)) (nat_Q (i * s))
                (map (fun e0 => node inst (fst e0)) edges, map (fun e0 => node inst (snd e0)) edges)
              = animal_contrib sig a b c (nat_Q (j * s)) (nat_Q (i * s)) inst).
    { intros inst. unfold contrib, animal_contrib. cbn [fst snd].
      apply (f_equal2 (fun u v => comp c (paf_cell fl sig u v (nat_Q (j * s)) (nat_Q (i * s))))).
      - apply (nth_map_edges (fun e0 => node inst (fst e0)) edges e (a, b) He).
      - apply (nth_map_edges (fun e0 => node inst (snd e0)) edges e (a, b) He). }
    rewrite combine_map in Hcl, Hval.
    exists cl. split; [exact Hcell|]. split.
    + rewrite Hcl, flat_map_map. apply flat_map_ext'. intros inst. rewrite Hcontrib. reflexivity.
    + rewrite Hval, map_map. f_equal. apply map_ext. intros inst. rewrite Hcontrib. reflexivity.
Qed.

(* (d) what one animal contributes *)
Lemma animal_contrib_missing sig a b c x y inst :
  node inst a = None \/ node inst b = None -> animal_contrib sig a b c x y inst = None.
Proof.
  intros [H|H]; unfold animal_contrib; rewrite H.
  - rewrite paf_cell_missing_src. destruct c; reflexivity.
  - rewrite paf_cell_missing_dst. destruct c; reflexivity.
Qed.

Lemma animal_contrib_zero_length sig a b c x y inst p q :
  node inst a = Some p -> node inst b = Some q -> (len2 p q == 0)%Q ->
  animal_contrib sig a b c x y inst = None.
Proof.
  intros Ha Hb Hz. unfold animal_contrib. rewrite Ha, Hb, (paf_cell_zero_length _ _ _ _ _ Hz).
  destruct c; reflexivity.
Qed.

Lemma animal_contrib_value sig a b c x y inst p q :
  node inst a = Some p -> node inst b = Some q -> ~ (len2 p q == 0)%Q ->
  pval (animal_contrib sig a b c x y inst) =
  mweight sig p q x y * comp c (unit_vec_spec (q2 p) (q2 q)).
Proof.
  intros Ha Hb Hz. unfold animal_contrib. rewrite Ha, Hb.
  assert (Hzb : Qeq_bool (len2 p q) 0 = false).
  { destruct (Qeq_bool (len2 p q) 0) eqn:E; [|reflexivity]. apply Qeq_bool_iff in E. contradiction. }
  apply paf_cell_pval. exact Hzb.
Qed.

(* (e) no NaN can reach the output: every term has a strictly positive len2 (so the
   division by its square root is defined), a non-positive exponent (weight in (0,1])
   and |numerator| <= sqrt(len2) (a component of a unit vector) *)
Definition term_ok (t : term) : Prop :=
  let '(a, n, l) := t in (a <= 0)%Q /\ (0 < l)%Q /\ (n * n <= l)%Q.

Lemma gauss_arg_nonpos sig x : (0 < sig)%Q -> (garg_val sig x <= 0)%Q.
Proof.
  intros Hs. apply Rle_Qle. rewrite Q2R_0, Q2R_gauss_arg by exact Hs.
  pose proof (neg_div_le 0 (Q2R x * Q2R x) _ (two_sq_pos _ (sig_pos_R _ Hs))) as H.
  replace (- 0 / (2 * (Q2R sig * Q2R sig))) with 0 in H by (unfold Rdiv; lra).
  apply H. pose proof (Rle_0_sqr (Q2R x)). unfold Rsqr in *. lra.
Qed.

Lemma comp_sq_le_len2 s d :
  ((fst d - fst s) * (fst d - fst s) <= len2 s d)%Q /\ ((snd d - snd s) * (snd d - snd s) <= len2 s d)%Q.
Proof.
  split; apply Rle_Qle; rewrite Q2R_len2, Q2R_mult, !Q2R_minus; unfold d2, q2; cbn [fst snd].
  - pose proof (Rle_0_sqr (Q2R (snd d) - Q2R (snd s))). unfold Rsqr in *. lra.
  - pose proof (Rle_0_sqr (Q2R (fst d) - Q2R (fst s))). unfold Rsqr in *. lra.
Qed.

Lemma paf_cell_term_ok sig s d x y c t :
  (0 < sig)%Q -> comp c (paf_cell fl sig s d x y) = Some t -> term_ok t.
Proof.
  intros Hs. destruct s as [s|], d as [d|]; unfold paf_cell, unit_vec, dist_edge_opt;
    try (destruct c; discriminate).
  destruct (Qeq_bool (len2 s d) 0) eqn:E; [destruct c; discriminate|].
  pose proof (len2_nonzero_pos _ _ E) as Hl. pose proof (comp_sq_le_len2 s d) as [Hx Hy].
  pose proof (gauss_arg_nonpos sig (dval s d x y) Hs) as Ha.
  rewrite dist_edge_some. cbn [obind]. rewrite (gauss_arg_some _ _ Hs).
  destruct c; unfold comp; cbn [fst snd]; intros Heq; inversion Heq; subst; unfold term_ok; auto.
Qed.

Lemma term_ok_bound t : term_ok t -> Rabs (tval t) <= 1.
Proof. destruct t as [[a n] l]. intros [Ha [Hl Hn]]. apply tval_bound; assumption. Qed.

Lemma map2_nth_inv {A B C} (f : A -> B -> C) l m k r :
  nth_error (map2 f l m) k = Some r ->
  exists a b, nth_error l k = Some a /\ nth_error m k = Some b /\ r = f a b.
Proof.
  revert m k r. induction l as [|x l IH]; intros m k r Hr; destruct m as [|y m];
    destruct k; simpl in *; try discriminate.
  - inversion Hr. eauto.
  - apply IH. exact Hr.
Qed.

Lemma cell_map2_inv {A B C} (f : A -> B -> C) (a : chan A) (b : chan B) i j r :
  cell (map2 (map2 f) a b) i j = Some r ->
  exists u v, cell a i j = Some u /\ cell b i j = Some v /\ r = f u v.
Proof.
  unfold cell. intros H.
  match type of H with context [@nth_error ?T ?l i] => destruct (@nth_error T l i) as [row|] eqn:E; try rewrite E in H; [|discriminate] end.
  apply map2_nth_inv in E. destruct E as [ra [rb [Ea [Eb ->]]]].
  apply map2_nth_inv in H. destruct H as [u [v [Eu [Ev ->]]]].
  exists u, v. rewrite Ea, Eb. auto.
Qed.

Lemma cell4_intro {A} (out : list (list (chan A))) e c i j xy m v :
  nth_error out e = Some xy -> nth_error xy c = Some m -> cell m i j = Some v ->
  cell4 out e c i j = Some v.
Proof. intros H1 H2 H3. unfold cell4. rewrite H1, H2. exact H3. Qed.

Lemma cell4_add_paf_inv acc paf e c i j cl :
  cell4 (add_paf acc paf) e c i j = Some cl ->
  exists a o, cell4 acc e c i j = Some a /\ cell4 paf e c i j = Some o /\ cl = add_cell a o.
Proof.
  intros H. unfold cell4 in H. unfold add_paf in H.
  match type of H with context [@nth_error ?T ?l e] => destruct (@nth_error T l e) as [xy|] eqn:E1; try rewrite E1 in H; [|discriminate] end.
  apply map2_nth_inv in E1. destruct E1 as [xa [xp [Ea [Ep ->]]]].
  match type of H with context [@nth_error ?T ?l c] => destruct (@nth_error T l c) as [ch|] eqn:E2; try rewrite E2 in H; [|discriminate] end.
  apply map2_nth_inv in E2. destruct E2 as [ca [cp [Eca [Ecp ->]]]].
  apply cell_map2_inv in H. destruct H as [u [v [Hu [Hv ->]]]].
  exists u, v. split; [eapply cell4_intro; eassumption|].
  split; [eapply cell4_intro; eassumption|reflexivity].
Qed.

Lemma make_pafs_cell_inv xv yv srcs dsts sig e c i j o :
  cell4 (make_pafs fl xv yv srcs dsts sig) e c i j = Some o ->
  exists s d x y, o = comp c (paf_cell fl sig s d x y).
Proof.
  unfold cell4, make_pafs. intros H.
  match type of H with context [@nth_error ?T ?l e] => destruct (@nth_error T l e) as [xy|] eqn:E1; try rewrite E1 in H; [|discriminate] end.
  apply map2_nth_inv in E1. destruct E1 as [s0 [d0 [_ [_ ->]]]].
  exists s0, d0. unfold cell in H.
  destruct c as [|[|c]]; simpl in H; try (destruct c; discriminate).
  - rewrite nth_error_map in H. destruct (nth_error yv i) as [y|]; [|discriminate]. simpl in H.
    rewrite nth_error_map in H. destruct (nth_error xv j) as [x|]; [|discriminate]. simpl in H.
    inversion H. exists x, y. reflexivity.
  - rewrite nth_error_map in H. destruct (nth_error yv i) as [y|]; [|discriminate]. simpl in H.
    rewrite nth_error_map in H. destruct (nth_error xv j) as [x|]; [|discriminate]. simpl in H.
    inversion H. exists x, y. reflexivity.
Qed.

Lemma zeros_cell_inv n h w e c i j cl : cell4 (zeros n h w) e c i j = Some cl -> cl = [].
Proof.
  unfold cell4, zeros, cell. intros Hz.
  match type of Hz with context [@nth_error ?T ?l e] =>
    destruct (@nth_error T l e) as [xy|] eqn:E1; try rewrite E1 in Hz; [|discriminate] end.
  apply nth_error_In, repeat_spec in E1. subst xy.
  match type of Hz with context [@nth_error ?T ?l c] =>
    destruct (@nth_error T l c) as [ch|] eqn:E2; try rewrite E2 in Hz; [|discriminate] end.
  apply nth_error_In, repeat_spec in E2. subst ch.
  match type of Hz with context [@nth_error ?T ?l i] =>
    destruct (@nth_error T l i) as [row|] eqn:E3; try rewrite E3 in Hz; [|discriminate] end.
  apply nth_error_In, repeat_spec in E3. subst row.
  apply nth_error_In, repeat_spec in Hz. exact Hz.
Qed.

Lemma multi_pafs_terms_ok xv yv sig sds :
  (0 < sig)%Q ->
  forall acc,
    (forall e c i j cl, cell4 acc e c i j = Some cl -> Forall term_ok cl) ->
    forall e c i j cl,
      cell4 (fold_left (fun acc (sd : list kp * list kp) =>
               add_paf acc (make_pafs fl xv yv (fst sd) (snd sd) sig)) sds acc) e c i j = Some cl ->
      Forall term_ok cl.
Proof.
  intros Hsig. induction sds as [|sd t IH]; intros acc Hacc e c i j cl Hc; simpl in Hc.
  - eapply Hacc; exact Hc.
  - eapply IH; [|exact Hc]. clear Hc e c i j cl. intros e c i j cl Hc.
    apply cell4_add_paf_inv in Hc. destruct Hc as [a [o [Ha [Ho ->]]]].
    rewrite add_cell_otl. apply Forall_app. split; [eapply Hacc; exact Ha|].
    destruct o as [t0|]; simpl; [|constructor]. constructor; [|constructor].
    apply make_pafs_cell_inv in Ho. destruct Ho as [s0 [d0 [x [y Heq]]]].
    apply (paf_cell_term_ok sig s0 d0 x y c); [exact Hsig|symmetry; exact Heq].
Qed.

Theorem generate_pafs_terms_ok fb samples H W sig s edges e c i j cl :
  (0 < sig)%Q ->
  cell4 (generate_pafs fl fb samples H W sig s edges) e c i j = Some cl -> Forall term_ok cl.
Proof.
  intros Hsig Hcell. unfold generate_pafs, make_multi_pafs in Hcell.
  eapply (multi_pafs_terms_ok _ _ _ _ Hsig); [|exact Hcell].
  intros e0 c0 i0 j0 cl0 Hz. apply zeros_cell_inv in Hz. subst. constructor.
Qed.

(* ------------------------------------------------------------------ *)
(* (f) shape and channel order *)

Definition chan_ok {A} (h w : nat) (ch : chan A) : Prop :=
  length ch = h /\ Forall (fun row => length row = w) ch.
Definition xy_ok {A} (h w : nat) (xy : list (chan A)) : Prop :=
  length xy = 2%nat /\ Forall (chan_ok h w) xy.
Definition shape4 {A} (n h w : nat) (p : list (list (chan A))) : Prop :=
  length p = n /\ Forall (xy_ok h w) p.

Lemma Forall_map2 {A B C} (P : A -> Prop) (Q : B -> Prop) (R : C -> Prop) (f : A -> B -> C) l m :
  (forall a b, P a -> Q b -> R (f a b)) -> Forall P l -> Forall Q m -> Forall R (map2 f l m).
Proof.
  intros Hf Hl. revert m. induction Hl as [|a l Ha Hl IH]; intros m Hm; [constructor|].
  destruct Hm as [|b m Hb Hm]; simpl; constructor; auto.
Qed.

Lemma map2_length_eq {A B C} (f : A -> B -> C) l m n :
  length l = n -> length m = n -> length (map2 f l m) = n.
Proof. intros H1 H2. rewrite map2_length, H1, H2. apply Nat.min_id. Qed.

Lemma add_paf_shape n h w acc paf :
  shape4 n h w acc -> shape4 n h w paf -> shape4 n h w (add_paf acc paf).
Proof.
  intros [La Fa] [Lp Fp]. unfold add_paf. split; [apply map2_length_eq; assumption|].
  eapply Forall_map2; [|exact Fa|exact Fp]. clear.
  intros xa xp [La Fa] [Lp Fp]. split; [apply map2_length_eq; assumption|].
  eapply Forall_map2; [|exact Fa|exact Fp]. clear.
  intros ca cp [La Fa] [Lp Fp]. split; [apply map2_length_eq; assumption|].
  eapply Forall_map2; [|exact Fa|exact Fp]. clear.
  intros ra rp La Lp. apply map2_length_eq; assumption.
Qed.

Lemma Forall_repeat {A} (P : A -> Prop) a n : P a -> Forall P (repeat a n).
Proof. intros H. induction n; simpl; constructor; auto. Qed.

Lemma zeros_shape n h w : shape4 n h w (zeros n h w).
Proof.
  unfold zeros. split; [apply repeat_length|]. apply Forall_repeat.
  split; [apply repeat_length|]. apply Forall_repeat.
  split; [apply repeat_length|]. apply Forall_repeat. apply repeat_length.
Qed.

Lemma make_pafs_shape xv yv srcs dsts sig n :
  length srcs = n -> length dsts = n -> shape4 n (length yv) (length xv) (make_pafs fl xv yv srcs dsts sig).
Proof.
  intros Ls Ld. unfold make_pafs. split; [apply map2_length_eq; assumption|].
  apply (Forall_map2 (fun _ => True) (fun _ => True)); [|apply Forall_forall; auto|apply Forall_forall; auto].
  intros s d _ _. split; [reflexivity|].
  constructor; [|constructor; [|constructor]].
  - split; [apply map_length|]. apply Forall_forall. intros row Hin. apply in_map_iff in Hin.
    destruct Hin as [y [<- _]]. apply map_length.
  - split; [apply map_length|]. apply Forall_forall. intros row Hin. apply in_map_iff in Hin.
    destruct Hin as [y [<- _]]. apply map_length.
Qed.

Lemma multi_pafs_shape xv yv n srcss dstss sig :
  Forall (fun l => length l = n) srcss -> Forall (fun l => length l = n) dstss ->
  shape4 n (length yv) (length xv) (make_multi_pafs fl xv yv n srcss dstss sig).
Proof.
  intros Hs Hd. unfold make_multi_pafs.
  assert (Hall : Forall (fun sd : list kp * list kp => length (fst sd) = n /\ length (snd sd) = n)
                        (combine srcss dstss)).
  { apply Forall_forall. intros [a b] Hin. cbn [fst snd].
    split; [apply in_combine_l in Hin; revert a Hin; apply Forall_forall; exact Hs
           |apply in_combine_r in Hin; revert b Hin; apply Forall_forall; exact Hd]. }
  generalize (zeros_shape n (length yv) (length xv)).
  generalize (zeros n (length yv) (length xv)).
  induction Hall as [|sd t [L1 L2] Ht IH]; intros acc Hacc; simpl; [exact Hacc|].
  apply IH. apply add_paf_shape; [exact Hacc|]. apply make_pafs_shape; assumption.
Qed.

Theorem generate_pafs_shape fb samples H W sig s edges :
  shape4 (length edges) (ceil_div H s) (ceil_div W s) (generate_pafs fl fb samples H W sig s edges).
Proof.
  unfold generate_pafs, get_edge_points. cbn [fst snd].
  rewrite <- (grid_length H s), <- (grid_length W s).
  apply multi_pafs_shape; apply Forall_forall; intros l Hin; apply in_map_iff in Hin;
    destruct Hin as [inst [<- _]]; apply map_length.
Qed.

(* pafs.reshape(n_edges * 2, h, w): channel 2e + c is (edge e, component c) *)
Lemma concat_nth2 {A} (p : list (list A)) e c xy :
  Forall (fun l => length l = 2%nat) p -> nth_error p e = Some xy -> (c < 2)%nat ->
  nth_error (concat p) (2 * e + c) = nth_error xy c.
Proof.
  intros Hall. revert e. induction Hall as [|x t Hx Ht IH]; intros e He Hc; [destruct e; discriminate|].
  destruct e as [|e]; simpl in He.
  - inversion He; subst. simpl. apply nth_error_app1. lia.
  - simpl concat. rewrite nth_error_app2 by lia.
    replace (2 * S e + c - length x)%nat with (2 * e + c)%nat by lia. apply IH; assumption.
Qed.

Lemma concat_length2 {A} (p : list (list A)) :
  Forall (fun l => length l = 2%nat) p -> length (concat p) = (2 * length p)%nat.
Proof. intros H. induction H as [|x t Hx Ht IH]; simpl; [reflexivity|]. rewrite app_length, IH, Hx. lia. Qed.

Definition cell3 {A} (out : list (chan A)) (k i j : nat) : option A :=
  match nth_error out k with Some m => cell m i j | None => None end.

Theorem generate_pafs_flat_channel fb samples H W sig s edges e c i j :
  (e < length edges)%nat -> (c < 2)%nat ->
  cell3 (generate_pafs_flat fl fb samples H W sig s edges) (2 * e + c) i j =
  cell4 (generate_pafs fl fb samples H W sig s edges) e c i j.
Proof.
  intros He Hc. pose proof (generate_pafs_shape fb samples H W sig s edges) as [Hl Hf].
  unfold cell3, cell4, generate_pafs_flat, flatten.
  destruct (nth_error (generate_pafs fl fb samples H W sig s edges) e) as [xy|] eqn:E.
  2:{ apply nth_error_None in E. lia. }
  rewrite (concat_nth2 _ e c xy); [reflexivity| |exact E|exact Hc].
  eapply Forall_impl; [|exact Hf]. intros a [Ha _]. exact Ha.
Qed.

Theorem generate_pafs_flat_shape fb samples H W sig s edges :
  length (generate_pafs_flat fl fb samples H W sig s edges) = (2 * length edges)%nat /\
  Forall (chan_ok (ceil_div H s) (ceil_div W s)) (generate_pafs_flat fl fb samples H W sig s edges).
Proof.
  pose proof (generate_pafs_shape fb samples H W sig s edges) as [Hl Hf].
  unfold generate_pafs_flat, flatten. split.
  - rewrite concat_length2, Hl; [reflexivity|].
    eapply Forall_impl; [|exact Hf]. intros a [Ha _]. exact Ha.
  - apply Forall_concat. eapply Forall_impl; [|exact Hf]. intros a [_ Ha]. exact Ha.
Qed.

(* ------------------------------------------------------------------ *)
(* the in-image filter *)


Lemma node_in_strict_spec xm ym p :
  node_in_strict xm ym p = true <->
  exists x y, p = Some (x, y) /\ (0 < x)%Q /\ (x < xm)%Q /\ (0 < y)%Q /\ (y < ym)%Q.
Proof.
  destruct p as [[x y]|]; simpl.
  - rewrite !andb_true_iff, !Qlt_bool_iff. split.
    + intros [[[H1 H2] H3] H4]. exists x, y. auto.
    + intros [x' [y' [Heq [H1 [H2 [H3 H4]]]]]]. inversion Heq; subst. auto.
  - split; [discriminate|]. intros [x [y [Heq _]]]. discriminate.
Qed.

Lemma node_in_closed_spec xm ym p :
  node_in_closed xm ym p = true <->
  exists x y, p = Some (x, y) /\ (0 <= x)%Q /\ (x <= xm)%Q /\ (0 <= y)%Q /\ (y <= ym)%Q.
Proof.
  destruct p as [[x y]|]; simpl.
  - rewrite !andb_true_iff, !Qle_bool_iff. split.
    + intros [[[H1 H2] H3] H4]. exists x, y. auto.
    + intros [x' [y' [Heq [H1 [H2 [H3 H4]]]]]]. inversion Heq; subst. auto.
  - split; [discriminate|]. intros [x [y [Heq _]]]. discriminate.
Qed.

Lemma node_in_strict_closed xm ym xM yM p :
  (xm <= xM)%Q -> (ym <= yM)%Q -> node_in_strict xm ym p = true -> node_in_closed xM yM p = true.
Proof.
  intros Hx Hy H. apply node_in_strict_spec in H. destruct H as [x [y [-> [H1 [H2 [H3 H4]]]]]].
  apply node_in_closed_spec. exists x, y. split; [reflexivity|].
  repeat split; try (apply Qlt_le_weak; assumption).
  - apply Qle_trans with xm; [apply Qlt_le_weak; exact H2|exact Hx].
  - apply Qle_trans with ym; [apply Qlt_le_weak; exact H4|exact Hy].
Qed.

Lemma nat_Q_le a b : (a <= b)%nat -> (nat_Q a <= nat_Q b)%Q.
Proof. intros H. unfold nat_Q, Qle, inject_Z. simpl. lia. Qed.

(* the historic filter box (fb = false, pinned tree before fix f00ee7f) lies inside the image: xv[-1] <= W-1, yv[-1] <= H-1 *)
Lemma in_img_strict_implies_closed H W s inst :
  (0 < s)%nat -> (0 < H)%nat -> (0 < W)%nat ->
  in_img false H W (grid W s) (grid H s) inst = true -> in_img true H W (grid W s) (grid H s) inst = true.
Proof.
  intros Hs HH HW. unfold in_img. rewrite !existsb_exists. intros [p [Hin Hp]]. exists p. split; [exact Hin|].
  destruct (grid_last W s Hs HW) as [Ex Hx]. destruct (grid_last H s Hs HH) as [Ey Hy].
  rewrite Ex, Ey in Hp.
  eapply node_in_strict_closed; [| |exact Hp]; apply nat_Q_le; assumption.
Qed.

(* animals wholly outside the image (no node in [0,W-1]x[0,H-1]) are dropped, by the current filter (fb = true) and by the historic one *)
Theorem wholly_outside_dropped fb H W s inst :
  (0 < s)%nat -> (0 < H)%nat -> (0 < W)%nat ->
  (forall p, In p inst -> node_in_closed (nat_Q (W - 1)) (nat_Q (H - 1)) p = false) ->
  in_img fb H W (grid W s) (grid H s) inst = false.
Proof.
  intros Hs HH HW Hout.
  assert (Hc : in_img true H W (grid W s) (grid H s) inst = false).
  { unfold in_img. destruct (existsb _ inst) eqn:E; [|reflexivity].
    apply existsb_exists in E. destruct E as [p [Hin Hp]]. rewrite (Hout p Hin) in Hp. discriminate. }
  destruct fb; [exact Hc|].
  destruct (in_img false H W (grid W s) (grid H s) inst) eqn:E; [|reflexivity].
  apply (in_img_strict_implies_closed H W s inst Hs HH HW) in E. congruence.
Qed.

(* a dropped animal changes nothing *)
Theorem dropped_animal_no_effect fb l1 inst l2 rest H W sig s edges :
  in_img fb H W (grid W s) (grid H s) inst = false ->
  generate_pafs fl fb ((l1 ++ inst :: l2) :: rest) H W sig s edges =
  generate_pafs fl fb ((l1 ++ l2) :: rest) H W sig s edges.
Proof.
  intros Hd. unfold generate_pafs. cbn [hd]. rewrite !filter_app. cbn [filter]. rewrite Hd. reflexivity.
Qed.

Lemma kept_In fb H W s insts inst :
  In inst (kept fb H W s insts) <-> In inst insts /\ in_img fb H W (grid W s) (grid H s) inst = true.
Proof. unfold kept. apply filter_In. Qed.

(* the current filter (fb = true) keeps exactly the animals with a node in the closed image rectangle *)
Theorem fixed_box_keeps_in_image H W xv yv inst :
  in_img true H W xv yv inst = true <->
  exists x y, In (Some (x, y)) inst /\ (0 <= x <= nat_Q (W - 1))%Q /\ (0 <= y <= nat_Q (H - 1))%Q.
Proof.
  unfold in_img. rewrite existsb_exists. split.
  - intros [p [Hin Hp]]. apply node_in_closed_spec in Hp. destruct Hp as [x [y [-> [H1 [H2 [H3 H4]]]]]].
    exists x, y. auto.
  - intros [x [y [Hin [[H1 H2] [H3 H4]]]]]. exists (Some (x, y)). split; [exact Hin|].
    apply node_in_closed_spec. exists x, y. auto.
Qed.

(* the historic filter (fb = false): a node strictly inside (0, xv[-1]) x (0, yv[-1]) *)
Theorem strict_box_keeps H W xv yv inst :
  in_img false H W xv yv inst = true <->
  exists x y, In (Some (x, y)) inst /\ (0 < x)%Q /\ (x < last xv 0)%Q /\ (0 < y)%Q /\ (y < last yv 0)%Q.
Proof.
  unfold in_img. rewrite existsb_exists. split.
  - intros [p [Hin Hp]]. apply node_in_strict_spec in Hp. destruct Hp as [x [y [-> Hr]]].
    exists x, y. auto.
  - intros [x [y [Hin Hr]]]. exists (Some (x, y)). split; [exact Hin|].
    apply node_in_strict_spec. exists x, y. auto.
Qed.

(* outside the selector the historic filter keeps every animal that has a node in the image *)
Lemma in_image_animal_kept_partial H W s inst :
  selector_strict_box H W s inst = false ->
  (exists p, In p inst /\ node_in_closed (nat_Q (W - 1)) (nat_Q (H - 1)) p = true) ->
  in_img false H W (grid W s) (grid H s) inst = true.
Proof.
  unfold selector_strict_box. intros Hsel [p [Hin Hp]].
  assert (He : existsb (node_in_closed (nat_Q (W - 1)) (nat_Q (H - 1))) inst = true).
  { apply existsb_exists. exists p. auto. }
  rewrite He in Hsel. simpl in Hsel. apply negb_false_iff in Hsel. exact Hsel.
Qed.

(* ------------------------------------------------------------------ *)
(* the DataPipe: one output per example, each equal to generate_pafs fl on that example *)

Lemma datapipe_nth fb exs sig s edges flat k H W smp :
  nth_error exs k = Some (H, W, smp) ->
  nth_error (datapipe fl fb exs sig s edges flat) k =
  Some (if flat then [generate_pafs_flat fl fb smp H W sig s edges]
        else generate_pafs fl fb smp H W sig s edges).
Proof. intros Hk. unfold datapipe. rewrite nth_error_map, Hk. reflexivity. Qed.

Lemma datapipe_length fb exs sig s edges flat :
  length (datapipe fl fb exs sig s edges flat) = length exs.
Proof. unfold datapipe. apply map_length. Qed.

(* combined: a kept animal's edge of length >= 1 puts exactly the unit vector on every
   cell of its segment *)
Lemma on_segment_contribution sig a b c x y inst p q :
  (0 < sig)%Q -> node inst a = Some p -> node inst b = Some q -> len_ok fl p q ->
  on_segment (q2 p) (q2 q) (Q2R x, Q2R y) ->
  pval (animal_contrib sig a b c x y inst) = comp c (unit_vec_spec (q2 p) (q2 q)).
Proof.
  intros Hs Ha Hb HL Hon.
  rewrite (animal_contrib_value sig a b c x y inst p q Ha Hb).
  - rewrite (mweight_on_segment sig p q x y Hs HL Hon). ring.
  - destruct HL as [_ Hz]. exact Hz.
Qed.

(* (c) fields of several animals add: the field of the animals l1 ++ l2 is, cell by cell,
   the sum of the field of l1 and the field of l2 *)
Theorem generate_pafs_additive fb l1 l2 rest H W sig s edges e a b c i j :
  (0 < s)%nat -> nth_error edges e = Some (a, b) -> (c < 2)%nat ->
  (i * s < H)%nat -> (j * s < W)%nat ->
  exists v v1 v2,
    cell4 (generate_pafs fl fb ((l1 ++ l2) :: rest) H W sig s edges) e c i j = Some v /\
    cell4 (generate_pafs fl fb (l1 :: rest) H W sig s edges) e c i j = Some v1 /\
    cell4 (generate_pafs fl fb (l2 :: rest) H W sig s edges) e c i j = Some v2 /\
    v = v1 ++ v2 /\ cval v = cval v1 + cval v2.
Proof.
  intros Hs He Hc Hi Hj.
  destruct (generate_pafs_cell fb ((l1 ++ l2) :: rest) H W sig s edges e a b c i j Hs He Hc Hi Hj)
    as [v [Hv [Ev _]]].
  destruct (generate_pafs_cell fb (l1 :: rest) H W sig s edges e a b c i j Hs He Hc Hi Hj)
    as [v1 [Hv1 [Ev1 _]]].
  destruct (generate_pafs_cell fb (l2 :: rest) H W sig s edges e a b c i j Hs He Hc Hi Hj)
    as [v2 [Hv2 [Ev2 _]]].
  exists v, v1, v2. repeat (split; [assumption|]).
  assert (Happ : v = v1 ++ v2).
  { rewrite Ev, Ev1, Ev2. cbn [hd]. unfold kept. rewrite filter_app, flat_map_app. reflexivity. }
  split; [exact Happ|]. rewrite Happ. apply cval_app.
Qed.

(* the flattened output: channel 2e+c, cell (i,j) is the sum over the kept animals *)
Theorem generate_pafs_flat_cell fb samples H W sig s edges e a b c i j :
  (0 < sig)%Q -> (0 < s)%nat -> nth_error edges e = Some (a, b) -> (c < 2)%nat ->
  (i * s < H)%nat -> (j * s < W)%nat ->
  exists cl,
    cell3 (generate_pafs_flat fl fb samples H W sig s edges) (2 * e + c) i j = Some cl /\
    cval cl = Rsum (map (fun inst => pval (animal_contrib sig a b c (nat_Q (j * s)) (nat_Q (i * s)) inst))
                        (kept fb H W s (hd [] samples))) /\
    Forall term_ok cl.
Proof.
  intros Hsig Hs He Hc Hi Hj.
  destruct (generate_pafs_cell fb samples H W sig s edges e a b c i j Hs He Hc Hi Hj) as [cl [Hcl [_ Hv]]].
  exists cl. split; [|split; [exact Hv|]].
  - rewrite generate_pafs_flat_channel; [exact Hcl| |exact Hc]. apply nth_error_Some. congruence.
  - eapply generate_pafs_terms_ok; [exact Hsig|exact Hcl].
Qed.

End WithVariant.

(* F1: the full statement (weight 1 on the segment for EVERY non-degenerate edge) is
   false of the pinned tree before fix 5bfaeb9 (fixed_len = false; historic variant) *)
Lemma mweight_on_segment_refuted :
  exists sig s d x y,
    (0 < sig)%Q /\ selector_F1 false s d = true /\ ~ (len2 s d == 0)%Q /\
    on_segment (q2 s) (q2 d) (Q2R x, Q2R y) /\ mweight false sig s d x y < 1.
Proof.
  exists (3#2)%Q, ((3#2)%Q, 2%Q), ((9#4)%Q, 2%Q), 2%Q, 2%Q.
  split; [reflexivity|]. split; [vm_compute; reflexivity|]. split; [vm_compute; discriminate|]. split.
  - exists (2/3). split; [lra|]. unfold pt_on, q2, Q2R. simpl. f_equal; field.
  - rewrite mweight_val by reflexivity. rewrite <- exp_0. apply exp_increasing.
    assert (H : (garg_val (3#2) (dval false (3#2, 2) (9#4, 2) 2 2) < 0)%Q) by (vm_compute; reflexivity).
    apply Qlt_Rlt in H. rewrite Q2R_0 in H. exact H.
Qed.

(* F23: "every animal with a node inside the image is kept" is false of the historic filter (fb = false),
   and a cell lying on the dropped animal's segment holds no term (value 0, not the unit vector) *)
Lemma in_image_animal_kept_refuted :
  exists H W s inst,
    (0 < s)%nat /\ selector_strict_box H W s inst = true /\
    (exists p, In p inst /\ node_in_closed (nat_Q (W - 1)) (nat_Q (H - 1)) p = true) /\
    in_img false H W (grid W s) (grid H s) inst = false /\
    on_segment (q2 (0, 2)%Q) (q2 (0, 5)%Q) (Q2R (nat_Q (0 * s)), Q2R (nat_Q (3 * s))) /\
    node inst 0 = Some (0, 2)%Q /\ node inst 1 = Some (0, 5)%Q /\
    cell4 (generate_pafs false false [[inst]] H W (3#2) s [(0, 1)%nat]) 0 1 3 0 = Some [].
Proof.
  exists 8%nat, 8%nat, 1%nat, [Some (0, 2)%Q; Some (0, 5)%Q].
  split; [lia|]. split; [vm_compute; reflexivity|]. split.
  - exists (Some (0, 2)%Q). split; [left; reflexivity|vm_compute; reflexivity].
  - split; [vm_compute; reflexivity|]. split.
    + exists (1/3). split; [lra|]. unfold pt_on, q2, nat_Q, Q2R. simpl. f_equal; field.
    + split; [reflexivity|]. split; [reflexivity|]. vm_compute. reflexivity.
Qed.

