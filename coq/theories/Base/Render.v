(* Render.v — turn model results into JSON text inside Coq, so that the
   correspondence harness reads one JSON value per case and never parses Coq's
   pretty-printed terms.  Every renderer is written in continuation style
   (x -> string -> string) so that rendering is linear in the output size.

   Numbers: nat / Z are rendered in decimal; Q as the JSON array [num, den]
   (exact, the harness converts with fractions.Fraction).  option None is
   rendered as null. *)
From Coq Require Import List String Ascii ZArith QArith Bool.
Import ListNotations.
Open Scope string_scope.

Definition rdr := string -> string.

Definition rstr (s : string) : rdr := fun k => s ++ k.
Definition rchr (c : ascii) : rdr := fun k => String c k.

(* decimal digits of a positive, least significant first, by repeated division
   with explicit fuel = number of bits + 1 (always enough). *)
Fixpoint pos_size (p : positive) : nat :=
  match p with xH => 1 | xO q | xI q => S (pos_size q) end.

Definition digit (n : N) : ascii := ascii_of_N (48 + n).

Fixpoint dec_N (fuel : nat) (n : N) (acc : string) : string :=
  match fuel with
  | O => acc
  | S f =>
      let (q, r) := N.div_eucl n 10 in
      let acc' := String (digit r) acc in
      match q with N0 => acc' | _ => dec_N f q acc' end
  end.

Definition rN (n : N) : rdr := fun k =>
  match n with
  | N0 => String "0" k
  | Npos p => dec_N (S (pos_size p)) n k
  end.

Definition rnat (n : nat) : rdr := rN (N.of_nat n).

Definition rZ (z : Z) : rdr := fun k =>
  match z with
  | Z0 => String "0" k
  | Zpos p => rN (Npos p) k
  | Zneg p => String "-" (rN (Npos p) k)
  end.

Definition rQ (q : Q) : rdr := fun k =>
  let q' := Qred q in
  String "[" (rZ (Qnum q') (String "," (rN (Npos (Qden q')) (String "]" k)))).

Definition rbool (b : bool) : rdr := rstr (if b then "true" else "false").

Definition ropt {A} (r : A -> rdr) (o : option A) : rdr :=
  match o with None => rstr "null" | Some a => r a end.

Fixpoint rlist_tail {A} (r : A -> rdr) (l : list A) : rdr := fun k =>
  match l with
  | [] => k
  | x :: t => String "," (r x (rlist_tail r t k))
  end.

Definition rlist {A} (r : A -> rdr) (l : list A) : rdr := fun k =>
  match l with
  | [] => String "[" (String "]" k)
  | x :: t => String "[" (r x (rlist_tail r t (String "]" k)))
  end.

Definition rpair {A B} (ra : A -> rdr) (rb : B -> rdr) (p : A * B) : rdr := fun k =>
  String "[" (ra (fst p) (String "," (rb (snd p) (String "]" k)))).

Definition rtriple {A B C} (ra : A -> rdr) (rb : B -> rdr) (rc : C -> rdr)
  (p : A * B * C) : rdr := fun k =>
  let '(a, b, c) := p in
  String "[" (ra a (String "," (rb b (String "," (rc c (String "]" k)))))).

(* a JSON string without escaping: callers only pass identifiers *)
Definition rquoted (s : string) : rdr := fun k =>
  String """" (s ++ String """" k).

Definition nl : ascii := ascii_of_nat 10.

(* one JSON value per line *)
Fixpoint rlines {A} (r : A -> rdr) (l : list A) : rdr := fun k =>
  match l with
  | [] => k
  | x :: t => r x (String nl (rlines r t k))
  end.

Definition render {A} (r : A -> rdr) (a : A) : string := r a EmptyString.
Definition render_lines {A} (r : A -> rdr) (l : list A) : string := rlines r l EmptyString.
