(* ConfMaps.v — executable model of sleap_nn/data/confidence_maps.py and
   sleap_nn/data/utils.py:make_grid_vectors (no proofs in this file).

   Numbers: coordinates, sigma are exact rationals (Q); sizes/strides nat.
   A keypoint is `option (Q*Q)`: None = missing (any NaN coordinate: the code
   computes exp(NaN) = NaN and `torch.nan_to_num` turns it into 0).
   The model does not compute `exp`: a cell holds `option Q`, the *argument*
   of the exponential (None = the value 0).  Its real value is
   `val a = match a with None => 0 | Some q => exp q end` (Lemmas.v).  The
   elementwise maximum of make_multi_confmaps is taken on the arguments
   (exp is strictly increasing; None is below everything because exp > 0). *)
From Coq Require Import List Arith ZArith QArith.
Import ListNotations.
Open Scope Q_scope.

Definition kp := option (Q * Q).
Definition cmap := list (list (option Q)).          (* rows (y) of columns (x) *)

Definition ceil_div (n s : nat) : nat := ((n + s - 1) / s)%nat.

(* torch.arange(0, n, step=s): 0, s, 2s, ... < n *)
Definition grid (n s : nat) : list Q :=
  map (fun k => inject_Z (Z.of_nat (k * s))) (seq 0 (ceil_div n s)).

Definition sq (a : Q) : Q := a * a.

(* exp(-((xv - x)^2 + (yv - y)^2) / (2 sigma^2)) : the argument *)
Definition cell_arg (sig : Q) (p : kp) (x y : Q) : option Q :=
  match p with
  | None => None
  | Some (px, py) => Some (- (sq (x - px) + sq (y - py)) / (2 * sq sig))
  end.

Definition chan (sig : Q) (xv yv : list Q) (p : kp) : cmap :=
  map (fun y => map (fun x => cell_arg sig p x y) xv) yv.

(* make_confmaps: (samples, nodes, 2) -> (samples, nodes, h, w) *)
Definition make_confmaps (pts : list (list kp)) (xv yv : list Q) (sig : Q)
  : list (list cmap) :=
  map (map (chan sig xv yv)) pts.

Definition omax (a b : option Q) : option Q :=
  match a, b with
  | None, _ => b
  | _, None => a
  | Some x, Some y => Some (if Qle_bool x y then y else x)
  end.

Fixpoint map2 {A B C} (f : A -> B -> C) (l : list A) (m : list B) : list C :=
  match l, m with
  | a :: l', b :: m' => f a b :: map2 f l' m'
  | _, _ => []
  end.

Definition cmap_max (a b : cmap) : cmap := map2 (map2 omax) a b.

Definition zero_map (w h : nat) : cmap := repeat (repeat None w) h.

(* make_multi_confmaps: (samples, instances, nodes, 2) -> (samples, nodes, h, w)
     cms = zeros((samples, n_nodes, h, w))
     points = points_batch.reshape(samples * n_inst, n_nodes, 2)
     for p in points: cms = maximum(cms, make_confmaps(p.unsqueeze(0), ...))
   NB: each instance's (1, nodes, h, w) map is broadcast over *all* samples, so
   with more than one sample every sample receives the maximum over the
   instances of all samples; the model follows the code. *)
Definition make_multi_confmaps (pts : list (list (list kp))) (n_nodes : nat)
  (xv yv : list Q) (sig : Q) : list (list cmap) :=
  let insts := concat pts in                       (* samples*instances, each a list of nodes *)
  let start := repeat (zero_map (length xv) (length yv)) n_nodes in
  let one := fold_left (fun acc inst => map2 cmap_max acc (map (chan sig xv yv) inst)) insts start in
  map (fun _ => one) pts.

(* generate_confmaps: rank-4 input is flattened to (samples, instances*nodes, 2) *)
Definition generate_confmaps3 (pts : list (list kp)) (H W : nat) (sigma : Q) (s : nat)
  : list (list cmap) :=
  make_confmaps pts (grid W s) (grid H s) (sigma * inject_Z (Z.of_nat s)).

Definition generate_confmaps4 (pts : list (list (list kp))) (H W : nat) (sigma : Q) (s : nat)
  : list (list cmap) :=
  generate_confmaps3 (map (@concat kp) pts) H W sigma s.

(* generate_multiconfmaps: instances[:, :num_instances]; centroid variant adds a
   unit node axis *)
Definition generate_multiconfmaps (pts : list (list (list kp))) (n_nodes : nat)
  (H W num_instances : nat) (sigma : Q) (s : nat) : list (list cmap) :=
  make_multi_confmaps (map (firstn num_instances) pts) n_nodes
    (grid W s) (grid H s) (sigma * inject_Z (Z.of_nat s)).

Definition generate_multiconfmaps_centroids (cents : list (list kp))
  (H W num_instances : nat) (sigma : Q) (s : nat) : list (list cmap) :=
  make_multi_confmaps (map (fun l => map (fun c => [c]) (firstn num_instances l)) cents) 1
    (grid W s) (grid H s) (sigma * inject_Z (Z.of_nat s)).

Definition cell (m : cmap) (i j : nat) : option (option Q) :=
  match nth_error m i with Some row => nth_error row j | None => None end.

(* ---- entry point for the correspondence harness ---- *)
Inductive case :=
| CGen3 (pts : list (list kp)) (H W : nat) (sigma : Q) (s : nat)
| CGen4 (pts : list (list (list kp))) (H W : nat) (sigma : Q) (s : nat)
| CMulti (pts : list (list (list kp))) (n_nodes H W num : nat) (sigma : Q) (s : nat)
| CCent (cents : list (list kp)) (H W num : nat) (sigma : Q) (s : nat).

Definition run (c : case) : list (list cmap) :=
  match c with
  | CGen3 p H W g s => generate_confmaps3 p H W g s
  | CGen4 p H W g s => generate_confmaps4 p H W g s
  | CMulti p n H W k g s => generate_multiconfmaps p n H W k g s
  | CCent p H W k g s => generate_multiconfmaps_centroids p H W k g s
  end.
