(* Lemmas2.v (C01) — round-2 proofs: (A) the description language of TExpr.v
   denotes the model functions; (B) end-to-end statements about
   generate_multiconfmaps / the centroid variant / the DataPipes, shapes, range,
   nearest-cell maximality.  (Lemmas.v is imported by C14 and is left untouched.) *)
From Coq Require Import List Arith ZArith QArith Qreals Reals Lra Lia Psatz Bool.
Import ListNotations.
From SV Require Import C01.ConfMaps C01.Lemmas C01.Entry C01.TExpr.

Local Open Scope R_scope.

(* ================================================================= (A) *)

Lemma eval_canon_confmaps p x y sig :
  eval canon_confmaps p x y sig = VCell (cell_arg sig p x y).
Proof. destruct p as [[px py]|]; reflexivity. Qed.

Theorem denote_confmaps_canon pts xv yv sig :
  denote_confmaps canon_confmaps pts xv yv sig = as_tval (make_confmaps pts xv yv sig).
Proof.
  unfold denote_confmaps, as_tval, make_confmaps, chan.
  rewrite map_map. apply map_ext. intros nodes.
  rewrite map_map. apply map_ext. intros p.
  rewrite map_map. apply map_ext. intros y.
  rewrite map_map. apply map_ext. intros x.
  apply eval_canon_confmaps.
Qed.

Theorem denote_grid_canon H W s : denote_grid canon_grid H W s = make_grid_vectors H W s.
Proof.
  unfold denote_grid, denote_arange, canon_grid, make_grid_vectors, arange, grid. cbn [gr_first gr_second ar_start ar_stop ar_step gx_val].
  rewrite !Nat.sub_0_r. reflexivity.
Qed.

Lemma map_repeat' {A B} (f : A -> B) a k : map f (repeat a k) = repeat (f a) k.
Proof. induction k; simpl; congruence. Qed.

Lemma map_const' {A B} (b : B) (l : list A) : map (fun _ => b) l = repeat b (length l).
Proof. induction l; simpl; congruence. Qed.

Lemma fold_map_repeat {A B} (f : B -> A -> A) l a k :
  fold_left (fun cms b => map (f b) cms) l (repeat a k) =
  repeat (fold_left (fun acc b => f b acc) l a) k.
Proof.
  revert a. induction l as [|b l IH]; intros a; simpl; [reflexivity|].
  rewrite map_repeat'. apply IH.
Qed.

(* PINNED tree: the loop of make_multi_confmaps, with the broadcast of every animal's
   (1, nodes, h, w) map over all samples, is the model function (which computes
   the maximum once and copies it to every sample) *)
Theorem denote_multi_canon pts n_nodes xv yv sig :
  denote_multi canon_multi pts n_nodes xv yv sig = Some (make_multi_confmaps pts n_nodes xv yv sig).
Proof.
  unfold denote_multi, canon_multi, make_multi_confmaps, zeros4, maximum_bcast, make_confmaps, zero_map.
  cbn [mu_zeros mu_points mu_call mu_comb mu_ret mdims_eqb mdim_eqb margs_eqb marg_eqb andb Nat.eqb
       mdim_val hd map].
  f_equal. rewrite map_const'.
  exact (fold_map_repeat (fun inst sm => map2 cmap_max sm (map (chan sig xv yv) inst)) (concat pts) _ _).
Qed.

Theorem denote_genc_canon3 pts H W sigma s :
  denote_genc canon_genc (SVP3 pts) H W sigma s = Some (generate_confmaps3 pts H W sigma s).
Proof. reflexivity. Qed.

Theorem denote_genc_canon4 pts H W sigma s :
  denote_genc canon_genc (SVP4 pts) H W sigma s = Some (generate_confmaps4 pts H W sigma s).
Proof. reflexivity. Qed.

(* round 4: the callee make_multi_confmaps is read in the variant fx (pinned /
   repaired); fx = false gives the round-2 statements about ConfMaps.v *)
Theorem denote_genm_canon_instances_v fx pts n_nodes H W num sigma s :
  denote_genm fx canon_genm false (SVP4 pts) n_nodes H W num sigma s =
  Some (generate_multiconfmaps_v fx pts n_nodes H W num sigma s).
Proof. reflexivity. Qed.

Theorem denote_genm_canon_centroids_v fx cents n_nodes H W num sigma s :
  denote_genm fx canon_genm true (SVP3 cents) n_nodes H W num sigma s =
  Some (generate_multiconfmaps_centroids_v fx cents H W num sigma s).
Proof.
  unfold denote_genm, canon_genm, generate_multiconfmaps_centroids_v, cent_pts. cbn.
  rewrite map_map. reflexivity.
Qed.

Lemma generate_multiconfmaps_v_pinned pts n_nodes H W num sigma s :
  generate_multiconfmaps_v false pts n_nodes H W num sigma s = generate_multiconfmaps pts n_nodes H W num sigma s.
Proof. reflexivity. Qed.

Lemma generate_multiconfmaps_centroids_v_pinned cents H W num sigma s :
  generate_multiconfmaps_centroids_v false cents H W num sigma s =
  generate_multiconfmaps_centroids cents H W num sigma s.
Proof. reflexivity. Qed.

Theorem denote_genm_canon_instances pts n_nodes H W num sigma s :
  denote_genm false canon_genm false (SVP4 pts) n_nodes H W num sigma s =
  Some (generate_multiconfmaps pts n_nodes H W num sigma s).
Proof. exact (denote_genm_canon_instances_v false pts n_nodes H W num sigma s). Qed.

Theorem denote_genm_canon_centroids cents n_nodes H W num sigma s :
  denote_genm false canon_genm true (SVP3 cents) n_nodes H W num sigma s =
  Some (generate_multiconfmaps_centroids cents H W num sigma s).
Proof. exact (denote_genm_canon_centroids_v false cents n_nodes H W num sigma s). Qed.

(* ================================================================= (B) *)

Lemma Forall_firstn {A} (P : A -> Prop) k l : Forall P l -> Forall P (firstn k l).
Proof.
  revert l. induction k as [|k IH]; intros l Hl; [constructor|].
  destruct l as [|a l]; [constructor|]. inversion Hl; subst. constructor; auto.
Qed.

Lemma Forall_concat_firstn {A} (P : A -> Prop) k (pts : list (list A)) :
  Forall P (concat pts) -> Forall P (concat (map (firstn k) pts)).
Proof.
  induction pts as [|smp pts IH]; simpl; intros Hall; [constructor|].
  apply Forall_app in Hall. destruct Hall as [H1 H2].
  apply Forall_app. split; [apply Forall_firstn; exact H1 | apply IH; exact H2].
Qed.

Lemma stride_sigma_pos sigma s : (0 < s)%nat -> (0 < sigma)%Q -> (0 < sigma * inject_Z (Z.of_nat s))%Q.
Proof.
  intros Hs Hsig. apply Qmult_lt_0_compat; [exact Hsig|]. unfold Qlt, inject_Z; simpl. lia.
Qed.

(* PINNED tree (before the repair of finding F60, see Entry.v / Lemmas3.v for the
   per-sample statements).  generate_multiconfmaps: cell (i, j) of channel c is the
   maximum, over the first num_instances animals of ALL samples (the pinned code
   broadcasts every animal over the samples), of the
   Gaussian bump of node c at image position (j*stride, i*stride) with standard
   deviation sigma*stride *)
Theorem generate_multiconfmaps_cell pts n_nodes H W num sigma s smp c i j :
  (0 < s)%nat -> (0 < sigma)%Q ->
  (i * s < H)%nat -> (j * s < W)%nat -> (c < n_nodes)%nat -> (smp < length pts)%nat ->
  Forall (fun inst => length inst = n_nodes) (concat pts) ->
  exists a,
    cell4 (generate_multiconfmaps pts n_nodes H W num sigma s) smp c i j = Some a /\
    val a = Rmax_list (map (fun inst => gauss_spec (nth c inst None) (INR (j * s)) (INR (i * s))
                                                   (Q2R sigma * INR s))
                           (concat (map (firstn num) pts))).
Proof.
  intros Hs Hsig Hi Hj Hc Hsmp Hall. unfold generate_multiconfmaps.
  destruct (multi_confmaps_cell (map (firstn num) pts) n_nodes (grid W s) (grid H s)
              (sigma * inject_Z (Z.of_nat s)) smp c i j
              (inject_Z (Z.of_nat (j * s))) (inject_Z (Z.of_nat (i * s)))) as [a [Ha Hv]].
  - apply stride_sigma_pos; assumption.
  - apply grid_nth; assumption.
  - apply grid_nth; assumption.
  - exact Hc.
  - rewrite map_length. exact Hsmp.
  - apply Forall_concat_firstn. exact Hall.
  - exists a. split; [exact Ha|]. rewrite Hv. rewrite Q2R_mult, !Q2R_inject_nat. reflexivity.
Qed.

Lemma concat_map_singletons {A} (ll : list (list A)) :
  concat (map (fun l => map (fun c => [c]) l) ll) = map (fun c => [c]) (concat ll).
Proof.
  induction ll as [|l ll IH]; simpl; [reflexivity|]. rewrite map_app, IH. reflexivity.
Qed.

(* PINNED tree, centroid variant: one channel, maximum over the first num_instances centroids of ALL samples *)
Theorem generate_multiconfmaps_centroids_cell cents H W num sigma s smp i j :
  (0 < s)%nat -> (0 < sigma)%Q ->
  (i * s < H)%nat -> (j * s < W)%nat -> (smp < length cents)%nat ->
  exists a,
    cell4 (generate_multiconfmaps_centroids cents H W num sigma s) smp 0 i j = Some a /\
    val a = Rmax_list (map (fun c => gauss_spec c (INR (j * s)) (INR (i * s)) (Q2R sigma * INR s))
                           (concat (map (firstn num) cents))).
Proof.
  intros Hs Hsig Hi Hj Hsmp. unfold generate_multiconfmaps_centroids.
  set (pts := map (fun l => map (fun c => [c]) (firstn num l)) cents).
  assert (Hpts : pts = map (fun l => map (fun c => [c]) l) (map (firstn num) cents)).
  { unfold pts. rewrite map_map. reflexivity. }
  assert (Hcc : concat pts = map (fun c => [c]) (concat (map (firstn num) cents))).
  { rewrite Hpts. apply concat_map_singletons. }
  destruct (multi_confmaps_cell pts 1 (grid W s) (grid H s)
              (sigma * inject_Z (Z.of_nat s)) smp 0 i j
              (inject_Z (Z.of_nat (j * s))) (inject_Z (Z.of_nat (i * s)))) as [a [Ha Hv]].
  - apply stride_sigma_pos; assumption.
  - apply grid_nth; assumption.
  - apply grid_nth; assumption.
  - lia.
  - unfold pts. rewrite map_length. exact Hsmp.
  - rewrite Hcc. apply Forall_forall. intros inst Hin. apply in_map_iff in Hin.
    destruct Hin as [q [<- _]]. reflexivity.
  - exists a. split; [exact Ha|]. rewrite Hv, Hcc, map_map.
    rewrite Q2R_mult, !Q2R_inject_nat. reflexivity.
Qed.

(* ---- range / zero channel of the maximum ---- *)
Lemma Rmax_list_range l : Forall (fun v => 0 <= v <= 1) l -> 0 <= Rmax_list l <= 1.
Proof.
  induction l as [|x t IH]; simpl; intros Hall; [lra|].
  inversion Hall as [|? ? Hx Ht]; subst. specialize (IH Ht).
  unfold Rmax. destruct (Rle_dec x (Rmax_list t)); lra.
Qed.

Lemma Rmax_list_gauss_range (f : list kp -> kp) x y sig insts :
  sig <> 0 -> 0 <= Rmax_list (map (fun inst => gauss_spec (f inst) x y sig) insts) <= 1.
Proof.
  intros Hs. apply Rmax_list_range. apply Forall_forall. intros v Hin.
  apply in_map_iff in Hin. destruct Hin as [inst [<- _]]. apply gauss_spec_range. exact Hs.
Qed.

Lemma Rmax_list_zeros l : Forall (fun v => v = 0) l -> Rmax_list l = 0.
Proof.
  induction l as [|x t IH]; simpl; intros Hall; [reflexivity|].
  inversion Hall as [|? ? Hx Ht]; subst. rewrite (IH Ht). apply Rmax_left. lra.
Qed.

Lemma Rmax_list_app l1 l2 : Rmax_list (l1 ++ l2) = Rmax (Rmax_list l1) (Rmax_list l2).
Proof.
  induction l1 as [|x t IH]; simpl.
  - rewrite Rmax_right; [reflexivity|apply Rmax_list_nonneg].
  - rewrite IH, Rmax_assoc. reflexivity.
Qed.

(* every cell of make_multi_confmaps (any grid vectors) lies in [0,1]: finite, not NaN *)
Theorem multi_confmaps_range pts n_nodes xv yv sig smp c i j x y :
  (0 < sig)%Q -> nth_error yv i = Some y -> nth_error xv j = Some x ->
  (c < n_nodes)%nat -> (smp < length pts)%nat ->
  Forall (fun inst => length inst = n_nodes) (concat pts) ->
  exists a, cell4 (make_multi_confmaps pts n_nodes xv yv sig) smp c i j = Some a /\ 0 <= val a <= 1.
Proof.
  intros Hs Hy Hx Hc Hsmp Hall.
  destruct (multi_confmaps_cell pts n_nodes xv yv sig smp c i j x y Hs Hy Hx Hc Hsmp Hall) as [a [Ha Hv]].
  exists a. split; [exact Ha|]. rewrite Hv.
  apply (Rmax_list_gauss_range (fun inst => nth c inst None)).
  apply Qlt_Rlt in Hs. rewrite Q2R_0 in Hs. lra.
Qed.

(* PINNED tree: a channel whose node is missing in every contributing animal of ALL samples is identically 0 *)
Theorem multi_confmaps_missing_channel_zero pts n_nodes xv yv sig smp c i j x y :
  (0 < sig)%Q -> nth_error yv i = Some y -> nth_error xv j = Some x ->
  (c < n_nodes)%nat -> (smp < length pts)%nat ->
  Forall (fun inst => length inst = n_nodes) (concat pts) ->
  Forall (fun inst => nth c inst None = None) (concat pts) ->
  exists a, cell4 (make_multi_confmaps pts n_nodes xv yv sig) smp c i j = Some a /\ val a = 0.
Proof.
  intros Hs Hy Hx Hc Hsmp Hall Hmiss.
  destruct (multi_confmaps_cell pts n_nodes xv yv sig smp c i j x y Hs Hy Hx Hc Hsmp Hall) as [a [Ha Hv]].
  exists a. split; [exact Ha|]. rewrite Hv. apply Rmax_list_zeros.
  apply Forall_forall. intros v Hin. apply in_map_iff in Hin. destruct Hin as [inst [<- Hin]].
  rewrite Forall_forall in Hmiss. rewrite (Hmiss inst Hin). reflexivity.
Qed.

(* ---- the multi-instance DataPipe does not slice by num_instances: the rows
   beyond num_instances are NaN padding and contribute nothing ---- *)
Lemma Rmax_list_drop_padding (g : list kp -> R) num (pts : list (list (list kp))) :
  (forall inst, 0 <= g inst) ->
  Forall (fun smp => Forall (fun inst => g inst = 0) (skipn num smp)) pts ->
  Rmax_list (map g (concat pts)) = Rmax_list (map g (concat (map (firstn num) pts))).
Proof.
  intros Hg. induction pts as [|smp pts IH]; intros Hpad; [reflexivity|].
  inversion Hpad as [|? ? Hs Ht]; subst. simpl.
  rewrite !map_app, !Rmax_list_app, (IH Ht). f_equal.
  rewrite <- (firstn_skipn num smp) at 1. rewrite map_app, Rmax_list_app.
  rewrite (Rmax_list_zeros (map g (skipn num smp))).
  - apply Rmax_left. apply Rmax_list_nonneg.
  - apply Forall_forall. intros v Hin. apply in_map_iff in Hin. destruct Hin as [inst [<- Hin]].
    rewrite Forall_forall in Hs. apply Hs. exact Hin.
Qed.

Lemma gauss_spec_nonneg p x y sig : 0 <= gauss_spec p x y sig.
Proof. destruct p as [[px py]|]; simpl; [left; apply exp_pos|lra]. Qed.

Theorem dp_multi_cell_ignores_padding pts n_nodes H W num sigma s smp c i j :
  (0 < s)%nat -> (0 < sigma)%Q ->
  (i * s < H)%nat -> (j * s < W)%nat -> (c < n_nodes)%nat -> (smp < length pts)%nat ->
  Forall (fun inst => length inst = n_nodes) (concat pts) ->
  Forall (fun smp => Forall (fun inst => nth c inst None = None) (skipn num smp)) pts ->
  exists a b,
    cell4 (dp_multi pts n_nodes H W sigma s) smp c i j = Some a /\
    cell4 (generate_multiconfmaps pts n_nodes H W num sigma s) smp c i j = Some b /\
    val a = val b.
Proof.
  intros Hs Hsig Hi Hj Hc Hsmp Hall Hpad.
  destruct (generate_multiconfmaps_cell pts n_nodes H W num sigma s smp c i j Hs Hsig Hi Hj Hc Hsmp Hall)
    as [b [Hb Hvb]].
  destruct (multi_confmaps_cell pts n_nodes (grid W s) (grid H s)
              (sigma * inject_Z (Z.of_nat s)) smp c i j
              (inject_Z (Z.of_nat (j * s))) (inject_Z (Z.of_nat (i * s)))) as [a [Ha Hva]];
    try assumption.
  - apply stride_sigma_pos; assumption.
  - apply grid_nth; assumption.
  - apply grid_nth; assumption.
  - exists a, b. split; [exact Ha|]. split; [exact Hb|].
    rewrite Hva, Hvb. rewrite Q2R_mult, !Q2R_inject_nat.
    apply (Rmax_list_drop_padding
             (fun inst => gauss_spec (nth c inst None) (INR (j * s)) (INR (i * s)) (Q2R sigma * INR s))).
    + intros inst. apply gauss_spec_nonneg.
    + eapply Forall_impl; [|exact Hpad]. intros sm Hsm.
      eapply Forall_impl; [|exact Hsm]. intros inst Hn. cbv beta in *. unfold kp in *. rewrite Hn. reflexivity.
Qed.

(* the DataPipes are the same functions as the generate_* entry points *)
Lemma dp_single_instances_eq pts H W sigma s :
  dp_single_instances pts H W sigma s = generate_confmaps4 pts H W sigma s.
Proof. reflexivity. Qed.

Lemma dp_single_other_eq pts H W sigma s :
  dp_single_other pts H W sigma s = generate_confmaps3 pts H W sigma s.
Proof. reflexivity. Qed.

Lemma dp_centroids_eq cents H W num sigma s :
  dp_centroids cents H W num sigma s = generate_multiconfmaps_centroids cents H W num sigma s.
Proof. reflexivity. Qed.

Lemma firstn_ge_all {A} k (pts : list (list A)) :
  Forall (fun smp => (length smp <= k)%nat) pts -> map (firstn k) pts = pts.
Proof.
  induction pts as [|smp pts IH]; intros Hall; [reflexivity|].
  inversion Hall; subst. simpl. rewrite firstn_all2 by assumption. f_equal. auto.
Qed.

Lemma dp_multi_eq pts n_nodes H W num sigma s :
  Forall (fun smp => (length smp <= num)%nat) pts ->
  dp_multi pts n_nodes H W sigma s = generate_multiconfmaps pts n_nodes H W num sigma s.
Proof.
  intros Hall. unfold dp_multi, generate_multiconfmaps. rewrite firstn_ge_all by exact Hall. reflexivity.
Qed.

(* ---- rank-4 input of generate_confmaps: channel k*n_nodes + c is node c of animal k ---- *)
Lemma nth_error_concat_uniform {A} (ll : list (list A)) n k c l :
  Forall (fun l => length l = n) ll -> nth_error ll k = Some l -> (c < n)%nat ->
  nth_error (concat ll) (k * n + c) = nth_error l c.
Proof.
  revert k. induction ll as [|l0 ll IH]; intros k Hall Hk Hc; [destruct k; discriminate|].
  inversion Hall as [|? ? Hl0 Ht]; subst. destruct k as [|k]; simpl in *.
  - inversion Hk; subst. apply nth_error_app1. lia.
  - rewrite nth_error_app2 by lia.
    replace (length l0 + k * length l0 + c - length l0)%nat with (k * length l0 + c)%nat by lia.
    apply IH; assumption.
Qed.

Theorem generate_confmaps4_cell pts H W sigma s smp insts n_nodes k inst c p i j :
  (0 < s)%nat -> (0 < sigma)%Q ->
  nth_error pts smp = Some insts -> Forall (fun l => length l = n_nodes) insts ->
  nth_error insts k = Some inst -> nth_error inst c = Some p ->
  (i * s < H)%nat -> (j * s < W)%nat ->
  exists a,
    cell4 (generate_confmaps4 pts H W sigma s) smp (k * n_nodes + c) i j = Some a /\
    val a = gauss_spec p (INR (j * s)) (INR (i * s)) (Q2R sigma * INR s).
Proof.
  intros Hs Hsig Hsmp Hall Hk Hc Hi Hj. unfold generate_confmaps4.
  apply (generate_confmaps3_cell (map (@concat kp) pts) H W sigma s smp (concat insts)); try assumption.
  - rewrite nth_error_map, Hsmp. reflexivity.
  - assert (Hlt : (c < n_nodes)%nat).
    { rewrite Forall_forall in Hall. rewrite <- (Hall inst (nth_error_In _ _ Hk)).
      apply nth_error_Some. congruence. }
    rewrite (nth_error_concat_uniform insts n_nodes k c inst Hall Hk Hlt). exact Hc.
Qed.

(* ---- largest at the nearest grid cell, stated on the output of generate_confmaps ---- *)
Theorem generate_confmaps3_nearest_is_largest pts H W sigma s smp nodes c q i j i' j' :
  (0 < s)%nat -> (0 < sigma)%Q ->
  nth_error pts smp = Some nodes -> nth_error nodes c = Some (Some q) ->
  (i * s < H)%nat -> (j * s < W)%nat -> (i' * s < H)%nat -> (j' * s < W)%nat ->
  dist2 q (INR (j * s)) (INR (i * s)) <= dist2 q (INR (j' * s)) (INR (i' * s)) ->
  exists a a',
    cell4 (generate_confmaps3 pts H W sigma s) smp c i j = Some a /\
    cell4 (generate_confmaps3 pts H W sigma s) smp c i' j' = Some a' /\
    val a' <= val a.
Proof.
  intros Hs Hsig Hsmp Hc Hi Hj Hi' Hj' Hd.
  destruct (generate_confmaps3_cell pts H W sigma s smp nodes c (Some q) i j Hs Hsig Hsmp Hc Hi Hj) as [a [Ha Hv]].
  destruct (generate_confmaps3_cell pts H W sigma s smp nodes c (Some q) i' j' Hs Hsig Hsmp Hc Hi' Hj') as [a' [Ha' Hv']].
  exists a, a'. split; [exact Ha|]. split; [exact Ha'|].
  rewrite Hv, Hv'. apply gauss_spec_monotone; [|exact Hd].
  apply Qlt_Rlt in Hsig. rewrite Q2R_0 in Hsig.
  assert (0 < INR s) by (apply lt_0_INR; exact Hs). nra.
Qed.

(* ---- shapes ---- *)
Definition cmap_shape (h w : nat) (m : cmap) : Prop :=
  length m = h /\ Forall (fun row => length row = w) m.

Lemma chan_shape sig xv yv p : cmap_shape (length yv) (length xv) (chan sig xv yv p).
Proof.
  unfold cmap_shape, chan. split; [apply map_length|].
  apply Forall_forall. intros row Hin. apply in_map_iff in Hin. destruct Hin as [y [<- _]]. apply map_length.
Qed.

(* (n_samples, n_nodes, ceil(H/stride), ceil(W/stride)) *)
Theorem generate_confmaps3_shape pts H W sigma s :
  length (generate_confmaps3 pts H W sigma s) = length pts /\
  forall smp nodes, nth_error pts smp = Some nodes ->
    exists chans, nth_error (generate_confmaps3 pts H W sigma s) smp = Some chans /\
      length chans = length nodes /\
      Forall (cmap_shape (ceil_div H s) (ceil_div W s)) chans.
Proof.
  unfold generate_confmaps3, make_confmaps. split; [apply map_length|].
  intros smp nodes Hsmp. rewrite nth_error_map, Hsmp. simpl. eexists. split; [reflexivity|].
  split; [apply map_length|].
  apply Forall_forall. intros m Hin. apply in_map_iff in Hin. destruct Hin as [p [<- _]].
  rewrite <- (grid_length H s), <- (grid_length W s). apply chan_shape.
Qed.

Lemma map2_omax_length a b w : length a = w -> length b = w -> length (map2 omax a b) = w.
Proof. intros Ha Hb. rewrite map2_length, Ha, Hb. apply Nat.min_id. Qed.

Lemma cmap_max_shape h w a b : cmap_shape h w a -> cmap_shape h w b -> cmap_shape h w (cmap_max a b).
Proof.
  unfold cmap_shape, cmap_max. revert h b. induction a as [|ra a IH]; intros h b [Hla Hfa] [Hlb Hfb].
  - simpl in *. split; [exact Hla|constructor].
  - destruct b as [|rb b]; simpl in *; [subst; discriminate|].
    inversion Hfa; subst. inversion Hfb; subst.
    destruct (IH (length a) b) as [Hl Hf]; [split; [reflexivity|assumption] | split; [lia|assumption] |].
    split; [simpl; rewrite Hl; reflexivity|].
    constructor; [apply map2_omax_length; congruence | exact Hf].
Qed.

Lemma map2_cmap_max_shape h w acc ms :
  length acc = length ms -> Forall (cmap_shape h w) acc -> Forall (cmap_shape h w) ms ->
  length (map2 cmap_max acc ms) = length acc /\ Forall (cmap_shape h w) (map2 cmap_max acc ms).
Proof.
  revert ms. induction acc as [|a acc IH]; intros ms Hlen Ha Hm; destruct ms as [|m ms]; simpl in *;
    try discriminate; [split; [reflexivity|constructor]|].
  inversion Ha; subst. inversion Hm; subst.
  destruct (IH ms) as [Hl Hf]; [lia|assumption|assumption|].
  split; [rewrite Hl; reflexivity|]. constructor; [apply cmap_max_shape; assumption|exact Hf].
Qed.

Lemma zero_map_shape w h : cmap_shape h w (zero_map w h).
Proof.
  unfold cmap_shape, zero_map. split; [apply repeat_length|].
  apply Forall_forall. intros row Hin. apply repeat_spec in Hin. subst. apply repeat_length.
Qed.

Lemma multi_fold_shape sig xv yv n_nodes insts :
  Forall (fun inst : list kp => length inst = n_nodes) insts ->
  forall start, length start = n_nodes /\ Forall (cmap_shape (length yv) (length xv)) start ->
  length (fold_left (fun acc inst => map2 cmap_max acc (map (chan sig xv yv) inst)) insts start) = n_nodes /\
  Forall (cmap_shape (length yv) (length xv))
         (fold_left (fun acc inst => map2 cmap_max acc (map (chan sig xv yv) inst)) insts start).
Proof.
  induction 1 as [|inst insts Hi Ht IH]; intros start [Hl Hf]; simpl; [split; assumption|].
  apply IH.
  assert (Hms : Forall (cmap_shape (length yv) (length xv)) (map (chan sig xv yv) inst)).
  { apply Forall_forall. intros m Hin. apply in_map_iff in Hin. destruct Hin as [p [<- _]]. apply chan_shape. }
  destruct (map2_cmap_max_shape (length yv) (length xv) start (map (chan sig xv yv) inst)) as [Hl' Hf'];
    [rewrite map_length; lia | exact Hf | exact Hms |].
  split; [rewrite Hl'; exact Hl | exact Hf'].
Qed.

(* (n_samples, n_nodes, len yv, len xv) *)
Theorem make_multi_confmaps_shape pts n_nodes xv yv sig :
  Forall (fun inst => length inst = n_nodes) (concat pts) ->
  length (make_multi_confmaps pts n_nodes xv yv sig) = length pts /\
  Forall (fun chans => length chans = n_nodes /\ Forall (cmap_shape (length yv) (length xv)) chans)
         (make_multi_confmaps pts n_nodes xv yv sig).
Proof.
  intros Hall. unfold make_multi_confmaps. split; [apply map_length|].
  apply Forall_forall. intros chans Hin. apply in_map_iff in Hin. destruct Hin as [_ [<- _]].
  apply (multi_fold_shape sig xv yv n_nodes (concat pts) Hall).
  split; [apply repeat_length|].
  apply Forall_forall. intros m Hin. apply repeat_spec in Hin. subst. apply zero_map_shape.
Qed.
