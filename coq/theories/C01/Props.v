(* Props.v (C01) — statements only.  Proofs: C01/Lemmas.v.
   Reading: a model cell holds `option Q` (argument of exp; None = value 0);
   `val` is its real value; `gauss_spec p x y s` is the property's formula
   exp(-d^2/(2 s^2)) written independently over R (0 for a missing keypoint). *)
From Coq Require Import List Arith ZArith QArith Qreals Reals.
Import ListNotations.
From SV Require Import C01.ConfMaps C01.Lemmas.
Local Open Scope R_scope.

(* value formula at every grid cell of every channel of generate_confmaps:
   cell (i,j) samples image position (x,y) = (j*stride, i*stride) with
   standard deviation sigma*stride *)
Theorem c01_value_formula :
  forall pts H W sigma s smp nodes c p i j,
  (0 < s)%nat -> (0 < sigma)%Q ->
  nth_error pts smp = Some nodes -> nth_error nodes c = Some p ->
  (i * s < H)%nat -> (j * s < W)%nat ->
  exists a,
    cell4 (generate_confmaps3 pts H W sigma s) smp c i j = Some a /\
    val a = gauss_spec p (INR (j * s)) (INR (i * s)) (Q2R sigma * INR s).
Proof. exact generate_confmaps3_cell. Qed.
Print Assumptions c01_value_formula.

(* range: every value lies in [0,1] (hence is finite, never NaN) *)
Theorem c01_range : forall p x y sig, sig <> 0 -> 0 <= gauss_spec p x y sig <= 1.
Proof. exact gauss_spec_range. Qed.
Print Assumptions c01_range.

Theorem c01_cell_range : forall sig p x y, (0 < sig)%Q -> 0 <= val (cell_arg sig p x y) <= 1.
Proof. exact val_range. Qed.
Print Assumptions c01_cell_range.

(* largest at the nearest grid cell: the value is antitone in the squared
   distance to the keypoint, strictly so, and equals 1 exactly on the keypoint *)
Theorem c01_nearer_is_larger : forall p x1 y1 x2 y2 sig,
  sig <> 0 -> dist2 p x1 y1 <= dist2 p x2 y2 ->
  gauss_spec (Some p) x2 y2 sig <= gauss_spec (Some p) x1 y1 sig.
Proof. exact gauss_spec_monotone. Qed.
Print Assumptions c01_nearer_is_larger.

Theorem c01_strictly_nearer_is_strictly_larger : forall p x1 y1 x2 y2 sig,
  sig <> 0 -> dist2 p x1 y1 < dist2 p x2 y2 ->
  gauss_spec (Some p) x2 y2 sig < gauss_spec (Some p) x1 y1 sig.
Proof. exact gauss_spec_strict. Qed.
Print Assumptions c01_strictly_nearer_is_strictly_larger.

Theorem c01_one_iff_on_keypoint : forall p x y sig,
  sig <> 0 -> (gauss_spec (Some p) x y sig = 1 <-> dist2 p x y = 0).
Proof. exact gauss_spec_one_iff. Qed.
Print Assumptions c01_one_iff_on_keypoint.

(* multi-instance / centroid maps: per-cell maximum over the animals; the
   statement is about make_multi_confmaps on whatever grid vectors it is given *)
Theorem c01_multi_is_max_over_animals :
  forall pts n_nodes xv yv sig smp c i j x y,
  (0 < sig)%Q -> nth_error yv i = Some y -> nth_error xv j = Some x ->
  (c < n_nodes)%nat -> (smp < length pts)%nat ->
  Forall (fun inst => length inst = n_nodes) (concat pts) ->
  exists a,
    cell4 (make_multi_confmaps pts n_nodes xv yv sig) smp c i j = Some a /\
    val a = Rmax_list (map (fun inst => gauss_spec (nth c inst None) (Q2R x) (Q2R y) (Q2R sig))
                           (concat pts)).
Proof. exact multi_confmaps_cell. Qed.
Print Assumptions c01_multi_is_max_over_animals.

(* a missing keypoint contributes nothing; a channel whose contributors are all
   missing is identically zero *)
Theorem c01_missing_contributes_nothing : forall sig x y ps1 ps2 a0,
  fold_cell sig x y (ps1 ++ None :: ps2) a0 = fold_cell sig x y (ps1 ++ ps2) a0.
Proof. exact multi_cell_missing_neutral. Qed.
Print Assumptions c01_missing_contributes_nothing.

Theorem c01_all_missing_zero : forall sig x y ps,
  Forall (fun p => p = None) ps -> val (fold_cell sig x y ps None) = 0.
Proof. intros. rewrite multi_cell_all_missing by assumption. reflexivity. Qed.
Print Assumptions c01_all_missing_zero.

Theorem c01_missing_single_zero : forall sig x y, val (cell_arg sig None x y) = 0.
Proof. reflexivity. Qed.
Print Assumptions c01_missing_single_zero.

(* shape: ceil(n/stride) samples per axis, = n/stride when the stride divides n *)
Theorem c01_grid_length : forall n s, length (grid n s) = ceil_div n s.
Proof. exact grid_length. Qed.
Print Assumptions c01_grid_length.

Theorem c01_grid_length_exact : forall q s, (0 < s)%nat -> length (grid (q * s) s) = q.
Proof. intros. rewrite grid_length. apply ceil_div_exact. assumption. Qed.
Print Assumptions c01_grid_length_exact.

(* non-vacuity: a concrete keypoint / grid meets the hypotheses *)
Example ex_c01_nonvacuous :
  exists a, cell4 (generate_confmaps3 [[Some (3#2, 5#2)]] 8 8 (3#2) 2) 0 0 1 1 = Some a.
Proof. eexists. vm_compute. reflexivity. Qed.
