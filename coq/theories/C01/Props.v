(* Props.v (C01) — statements only.  Proofs: C01/Lemmas.v.
   Reading: a model cell holds `option Q` (argument of exp; None = value 0);
   `val` is its real value; `gauss_spec p x y s` is the property's formula
   exp(-d^2/(2 s^2)) written independently over R (0 for a missing keypoint). *)
From Coq Require Import List Arith ZArith QArith Qreals Reals.
Import ListNotations.
From SV Require Import C01.ConfMaps C01.Lemmas C01.Entry C01.TExpr C01.Lemmas2.
Local Open Scope R_scope.

(* value formula at every grid cell of every channel of generate_confmaps:
   cell (i,j) samples image position (x,y) = (j*stride, i*stride) with
   standard deviation sigma*stride *)
Theorem c01_value_formula :
  forall pts H W sigma s smp nodes c p i j,
  (0 < s)%nat -> (0 < sigma)%Q ->
  nth_error pts smp = Some nodes -> nth_error nodes c = Some p ->
  (i * s < H)%nat -> (j * s < W)%nat ->
  exists a,
    cell4 (generate_confmaps3 pts H W sigma s) smp c i j = Some a /\
    val a = gauss_spec p (INR (j * s)) (INR (i * s)) (Q2R sigma * INR s).
Proof. exact generate_confmaps3_cell. Qed.
Print Assumptions c01_value_formula.

(* range: every value lies in [0,1] (hence is finite, never NaN) *)
Theorem c01_range : forall p x y sig, sig <> 0 -> 0 <= gauss_spec p x y sig <= 1.
Proof. exact gauss_spec_range. Qed.
Print Assumptions c01_range.

Theorem c01_cell_range : forall sig p x y, (0 < sig)%Q -> 0 <= val (cell_arg sig p x y) <= 1.
Proof. exact val_range. Qed.
Print Assumptions c01_cell_range.

(* largest at the nearest grid cell: the value is antitone in the squared
   distance to the keypoint, strictly so, and equals 1 exactly on the keypoint *)
Theorem c01_nearer_is_larger : forall p x1 y1 x2 y2 sig,
  sig <> 0 -> dist2 p x1 y1 <= dist2 p x2 y2 ->
  gauss_spec (Some p) x2 y2 sig <= gauss_spec (Some p) x1 y1 sig.
Proof. exact gauss_spec_monotone. Qed.
Print Assumptions c01_nearer_is_larger.

Theorem c01_strictly_nearer_is_strictly_larger : forall p x1 y1 x2 y2 sig,
  sig <> 0 -> dist2 p x1 y1 < dist2 p x2 y2 ->
  gauss_spec (Some p) x2 y2 sig < gauss_spec (Some p) x1 y1 sig.
Proof. exact gauss_spec_strict. Qed.
Print Assumptions c01_strictly_nearer_is_strictly_larger.

Theorem c01_one_iff_on_keypoint : forall p x y sig,
  sig <> 0 -> (gauss_spec (Some p) x y sig = 1 <-> dist2 p x y = 0).
Proof. exact gauss_spec_one_iff. Qed.
Print Assumptions c01_one_iff_on_keypoint.

(* multi-instance / centroid maps: per-cell maximum over the animals; the
   statement is about make_multi_confmaps on whatever grid vectors it is given *)
Theorem c01_multi_is_max_over_animals :
  forall pts n_nodes xv yv sig smp c i j x y,
  (0 < sig)%Q -> nth_error yv i = Some y -> nth_error xv j = Some x ->
  (c < n_nodes)%nat -> (smp < length pts)%nat ->
  Forall (fun inst => length inst = n_nodes) (concat pts) ->
  exists a,
    cell4 (make_multi_confmaps pts n_nodes xv yv sig) smp c i j = Some a /\
    val a = Rmax_list (map (fun inst => gauss_spec (nth c inst None) (Q2R x) (Q2R y) (Q2R sig))
                           (concat pts)).
Proof. exact multi_confmaps_cell. Qed.
Print Assumptions c01_multi_is_max_over_animals.

(* a missing keypoint contributes nothing; a channel whose contributors are all
   missing is identically zero *)
Theorem c01_missing_contributes_nothing : forall sig x y ps1 ps2 a0,
  fold_cell sig x y (ps1 ++ None :: ps2) a0 = fold_cell sig x y (ps1 ++ ps2) a0.
Proof. exact multi_cell_missing_neutral. Qed.
Print Assumptions c01_missing_contributes_nothing.

Theorem c01_all_missing_zero : forall sig x y ps,
  Forall (fun p => p = None) ps -> val (fold_cell sig x y ps None) = 0.
Proof. intros. rewrite multi_cell_all_missing by assumption. reflexivity. Qed.
Print Assumptions c01_all_missing_zero.

Theorem c01_missing_single_zero : forall sig x y, val (cell_arg sig None x y) = 0.
Proof. reflexivity. Qed.
Print Assumptions c01_missing_single_zero.

(* shape: ceil(n/stride) samples per axis, = n/stride when the stride divides n *)
Theorem c01_grid_length : forall n s, length (grid n s) = ceil_div n s.
Proof. exact grid_length. Qed.
Print Assumptions c01_grid_length.

Theorem c01_grid_length_exact : forall q s, (0 < s)%nat -> length (grid (q * s) s) = q.
Proof. intros. rewrite grid_length. apply ceil_div_exact. assumption. Qed.
Print Assumptions c01_grid_length_exact.

(* non-vacuity: a concrete keypoint / grid meets the hypotheses *)
Example ex_c01_nonvacuous :
  exists a, cell4 (generate_confmaps3 [[Some (3#2, 5#2)]] 8 8 (3#2) 2) 0 0 1 1 = Some a.
Proof. eexists. vm_compute. reflexivity. Qed.

(* ====================================================================== round 2 *)

(* rank-4 input of generate_confmaps ((samples, instances, nodes, 2), flattened
   by .view): channel k*n_nodes + c holds node c of animal k *)
Theorem c01_value_formula_rank4 :
  forall pts H W sigma s smp insts n_nodes k inst c p i j,
  (0 < s)%nat -> (0 < sigma)%Q ->
  nth_error pts smp = Some insts -> Forall (fun l => length l = n_nodes) insts ->
  nth_error insts k = Some inst -> nth_error inst c = Some p ->
  (i * s < H)%nat -> (j * s < W)%nat ->
  exists a,
    cell4 (generate_confmaps4 pts H W sigma s) smp (k * n_nodes + c) i j = Some a /\
    val a = gauss_spec p (INR (j * s)) (INR (i * s)) (Q2R sigma * INR s).
Proof. exact generate_confmaps4_cell. Qed.
Print Assumptions c01_value_formula_rank4.

(* generate_multiconfmaps end to end (stride grid, sigma*stride, the slice by
   num_instances): per-cell maximum over the animals *)
Theorem c01_multi_value_formula :
  forall pts n_nodes H W num sigma s smp c i j,
  (0 < s)%nat -> (0 < sigma)%Q ->
  (i * s < H)%nat -> (j * s < W)%nat -> (c < n_nodes)%nat -> (smp < length pts)%nat ->
  Forall (fun inst => length inst = n_nodes) (concat pts) ->
  exists a,
    cell4 (generate_multiconfmaps pts n_nodes H W num sigma s) smp c i j = Some a /\
    val a = Rmax_list (map (fun inst => gauss_spec (nth c inst None) (INR (j * s)) (INR (i * s))
                                                   (Q2R sigma * INR s))
                           (concat (map (firstn num) pts))).
Proof. exact generate_multiconfmaps_cell. Qed.
Print Assumptions c01_multi_value_formula.

Theorem c01_centroid_value_formula :
  forall cents H W num sigma s smp i j,
  (0 < s)%nat -> (0 < sigma)%Q ->
  (i * s < H)%nat -> (j * s < W)%nat -> (smp < length cents)%nat ->
  exists a,
    cell4 (generate_multiconfmaps_centroids cents H W num sigma s) smp 0 i j = Some a /\
    val a = Rmax_list (map (fun c => gauss_spec c (INR (j * s)) (INR (i * s)) (Q2R sigma * INR s))
                           (concat (map (firstn num) cents))).
Proof. exact generate_multiconfmaps_centroids_cell. Qed.
Print Assumptions c01_centroid_value_formula.

(* every cell of a multi-instance / centroid map lies in [0,1] (finite, not NaN) *)
Theorem c01_multi_range :
  forall pts n_nodes xv yv sig smp c i j x y,
  (0 < sig)%Q -> nth_error yv i = Some y -> nth_error xv j = Some x ->
  (c < n_nodes)%nat -> (smp < length pts)%nat ->
  Forall (fun inst => length inst = n_nodes) (concat pts) ->
  exists a, cell4 (make_multi_confmaps pts n_nodes xv yv sig) smp c i j = Some a /\ 0 <= val a <= 1.
Proof. exact multi_confmaps_range. Qed.
Print Assumptions c01_multi_range.

(* a node that no contributing animal has labelled gives an all-zero channel *)
Theorem c01_multi_missing_channel_zero :
  forall pts n_nodes xv yv sig smp c i j x y,
  (0 < sig)%Q -> nth_error yv i = Some y -> nth_error xv j = Some x ->
  (c < n_nodes)%nat -> (smp < length pts)%nat ->
  Forall (fun inst => length inst = n_nodes) (concat pts) ->
  Forall (fun inst => nth c inst None = None) (concat pts) ->
  exists a, cell4 (make_multi_confmaps pts n_nodes xv yv sig) smp c i j = Some a /\ val a = 0.
Proof. exact multi_confmaps_missing_channel_zero. Qed.
Print Assumptions c01_multi_missing_channel_zero.

(* largest at the nearest grid cell, on the output of generate_confmaps *)
Theorem c01_nearest_cell_is_largest :
  forall pts H W sigma s smp nodes c q i j i' j',
  (0 < s)%nat -> (0 < sigma)%Q ->
  nth_error pts smp = Some nodes -> nth_error nodes c = Some (Some q) ->
  (i * s < H)%nat -> (j * s < W)%nat -> (i' * s < H)%nat -> (j' * s < W)%nat ->
  dist2 q (INR (j * s)) (INR (i * s)) <= dist2 q (INR (j' * s)) (INR (i' * s)) ->
  exists a a',
    cell4 (generate_confmaps3 pts H W sigma s) smp c i j = Some a /\
    cell4 (generate_confmaps3 pts H W sigma s) smp c i' j' = Some a' /\
    val a' <= val a.
Proof. exact generate_confmaps3_nearest_is_largest. Qed.
Print Assumptions c01_nearest_cell_is_largest.

(* shapes: (samples, nodes, ceil(H/stride), ceil(W/stride)) *)
Theorem c01_shape_single :
  forall pts H W sigma s,
  length (generate_confmaps3 pts H W sigma s) = length pts /\
  forall smp nodes, nth_error pts smp = Some nodes ->
    exists chans, nth_error (generate_confmaps3 pts H W sigma s) smp = Some chans /\
      length chans = length nodes /\
      Forall (cmap_shape (ceil_div H s) (ceil_div W s)) chans.
Proof. exact generate_confmaps3_shape. Qed.
Print Assumptions c01_shape_single.

Theorem c01_shape_multi :
  forall pts n_nodes xv yv sig,
  Forall (fun inst => length inst = n_nodes) (concat pts) ->
  length (make_multi_confmaps pts n_nodes xv yv sig) = length pts /\
  Forall (fun chans => length chans = n_nodes /\ Forall (cmap_shape (length yv) (length xv)) chans)
         (make_multi_confmaps pts n_nodes xv yv sig).
Proof. exact make_multi_confmaps_shape. Qed.
Print Assumptions c01_shape_multi.

(* the DataPipes: ConfidenceMapGenerator is generate_confmaps (both key
   options), the centroid pipe is the centroid variant; the multi-instance pipe
   does not slice by num_instances and agrees with generate_multiconfmaps when
   the rows beyond num_instances are unlabelled (NaN padding) *)
Theorem c01_datapipe_single :
  (forall pts H W sigma s, dp_single_instances pts H W sigma s = generate_confmaps4 pts H W sigma s) /\
  (forall pts H W sigma s, dp_single_other pts H W sigma s = generate_confmaps3 pts H W sigma s) /\
  (forall cents H W num sigma s,
     dp_centroids cents H W num sigma s = generate_multiconfmaps_centroids cents H W num sigma s).
Proof. exact (conj dp_single_instances_eq (conj dp_single_other_eq dp_centroids_eq)). Qed.
Print Assumptions c01_datapipe_single.

Theorem c01_datapipe_multi_ignores_padding :
  forall pts n_nodes H W num sigma s smp c i j,
  (0 < s)%nat -> (0 < sigma)%Q ->
  (i * s < H)%nat -> (j * s < W)%nat -> (c < n_nodes)%nat -> (smp < length pts)%nat ->
  Forall (fun inst => length inst = n_nodes) (concat pts) ->
  Forall (fun smp => Forall (fun inst => nth c inst None = None) (skipn num smp)) pts ->
  exists a b,
    cell4 (dp_multi pts n_nodes H W sigma s) smp c i j = Some a /\
    cell4 (generate_multiconfmaps pts n_nodes H W num sigma s) smp c i j = Some b /\
    val a = val b.
Proof. exact dp_multi_cell_ignores_padding. Qed.
Print Assumptions c01_datapipe_multi_ignores_padding.

(* the description language of TExpr.v: the canonical descriptions of the five
   function bodies denote the model functions (the per-run obligations in
   Gen/C01_ConfmapsOblig.v instantiate these with the descriptions regenerated
   from the source) *)
Theorem c01_ir_make_confmaps : forall pts xv yv sig,
  denote_confmaps canon_confmaps pts xv yv sig = as_tval (make_confmaps pts xv yv sig).
Proof. exact denote_confmaps_canon. Qed.
Print Assumptions c01_ir_make_confmaps.

Theorem c01_ir_make_grid_vectors : forall H W s, denote_grid canon_grid H W s = make_grid_vectors H W s.
Proof. exact denote_grid_canon. Qed.
Print Assumptions c01_ir_make_grid_vectors.

Theorem c01_ir_make_multi_confmaps : forall pts n_nodes xv yv sig,
  denote_multi canon_multi pts n_nodes xv yv sig = Some (make_multi_confmaps pts n_nodes xv yv sig).
Proof. exact denote_multi_canon. Qed.
Print Assumptions c01_ir_make_multi_confmaps.

Theorem c01_ir_generate_confmaps :
  (forall pts H W sigma s,
     denote_genc canon_genc (SVP3 pts) H W sigma s = Some (generate_confmaps3 pts H W sigma s)) /\
  (forall pts H W sigma s,
     denote_genc canon_genc (SVP4 pts) H W sigma s = Some (generate_confmaps4 pts H W sigma s)).
Proof. exact (conj denote_genc_canon3 denote_genc_canon4). Qed.
Print Assumptions c01_ir_generate_confmaps.

Theorem c01_ir_generate_multiconfmaps :
  (forall pts n_nodes H W num sigma s,
     denote_genm canon_genm false (SVP4 pts) n_nodes H W num sigma s =
     Some (generate_multiconfmaps pts n_nodes H W num sigma s)) /\
  (forall cents n_nodes H W num sigma s,
     denote_genm canon_genm true (SVP3 cents) n_nodes H W num sigma s =
     Some (generate_multiconfmaps_centroids cents H W num sigma s)).
Proof. exact (conj denote_genm_canon_instances denote_genm_canon_centroids). Qed.
Print Assumptions c01_ir_generate_multiconfmaps.

(* non-vacuity of the round-2 implications *)
Example ex_c01_multi_nonvacuous :
  exists a, cell4 (generate_multiconfmaps [[[Some (3#2, 5#2); None]; [None; None]; [Some (6#1, 1#1); Some (0#1, 0#1)]]]
                     2 8 8 3 (3#2) 2) 0 0 1 1 = Some (Some a).
Proof. eexists. vm_compute. reflexivity. Qed.

Example ex_c01_centroid_nonvacuous :
  exists a, cell4 (generate_multiconfmaps_centroids [[None; Some (3#2, 5#2); None]] 7 5 2 (3#2) 2) 0 0 1 1 = Some (Some a).
Proof. eexists. vm_compute. reflexivity. Qed.

Example ex_c01_padding_nonvacuous :
  Forall (fun smp => Forall (fun inst => nth 0 inst None = None) (skipn 1 smp))
         [[[Some (3#2, 5#2)]; [(None : kp)]]].
Proof. repeat constructor. Qed.

Example ex_c01_rank4_nonvacuous :
  exists a, cell4 (generate_confmaps4 [[[Some (1#1, 1#1); None]; [None; Some (3#2, 5#2)]]] 8 8 (3#2) 2)
                  0 (1 * 2 + 1) 1 1 = Some (Some a).
Proof. eexists. vm_compute. reflexivity. Qed.
