(* Props.v (C01) — statements only.  Proofs: C01/Lemmas.v, Lemmas2.v, Lemmas3.v.
   Reading: a model cell holds `option Q` (argument of exp; None = value 0);
   `val` is its real value; `gauss_spec p x y s` is the property's formula
   exp(-d^2/(2 s^2)) written independently over R (0 for a missing keypoint).

   Idealisation: exact arithmetic.  A model value is an `R`, so "never NaN or
   infinite" is a TYPING fact of the model (plus the [0,1] theorems), not a theorem
   about float32; the code's float32 arithmetic can underflow 2(sigma*stride)^2 or
   overflow d^2 (nan_to_num then silences 0/0, inf/inf): the theorems speak for
   2(sigma*stride)^2 and d^2 inside the float32 normal range (harness: sigma in
   [1/8, 64], |coordinate| <= 5000), see notes/C01.md "Outside".

   Variants (finding F60): `fx = false` is the PINNED tree (make_multi_confmaps
   broadcasts every animal over all samples), `fx = true` the repaired variant
   (fix f86fea7 = proposed_fixes/C01_F60.diff; the CURRENT tree).  Theorems named `_pinned_all_samples` state what
   the pinned code computes (maximum over the animals of ALL samples); they are
   not the property.  The property is the PER-SAMPLE reading: `_repaired` (no side
   condition), `_partial` (pinned tree, outside the selector
   `others_contribute`), `_refuted`, `_one_sample` (every call /repo makes).
   Names ending in `_spec` are facts of real analysis about the statement's own
   formula, `_def` hold by unfolding a definition. *)
From Coq Require Import List Arith ZArith QArith Qreals Reals Lia.
Import ListNotations.
From SV Require Import C01.ConfMaps C01.Lemmas C01.Entry C01.TExpr C01.Lemmas2 C01.Lemmas3.
Local Open Scope R_scope.

(* value formula at every grid cell of every channel of generate_confmaps:
   cell (i,j) samples image position (x,y) = (j*stride, i*stride) with
   standard deviation sigma*stride *)
Theorem c01_value_formula :
  forall pts H W sigma s smp nodes c p i j,
  (0 < s)%nat -> (0 < sigma)%Q ->
  nth_error pts smp = Some nodes -> nth_error nodes c = Some p ->
  (i * s < H)%nat -> (j * s < W)%nat ->
  exists a,
    cell4 (generate_confmaps3 pts H W sigma s) smp c i j = Some a /\
    val a = gauss_spec p (INR (j * s)) (INR (i * s)) (Q2R sigma * INR s).
Proof. exact generate_confmaps3_cell. Qed.
Print Assumptions c01_value_formula.

(* range: every value lies in [0,1].  c01_range_spec is about the statement's
   formula; c01_cell_range about the model's cell function; on the OUTPUTS:
   c01_generate_confmaps_range (below), c01_multi_range *)
Theorem c01_range_spec : forall p x y sig, sig <> 0 -> 0 <= gauss_spec p x y sig <= 1.
Proof. exact gauss_spec_range. Qed.
Print Assumptions c01_range_spec.

Theorem c01_cell_range : forall sig p x y, (0 < sig)%Q -> 0 <= val (cell_arg sig p x y) <= 1.
Proof. exact val_range. Qed.
Print Assumptions c01_cell_range.

(* the statement's formula is antitone in the squared distance to the keypoint,
   strictly so, and equals 1 exactly on the keypoint (facts of real analysis about
   gauss_spec; on the OUTPUTS: c01_nearest_cell_is_largest, c01_nearest_cell_strict,
   c01_multi_nearest_cell, c01_centroid_nearest_cell) *)
Theorem c01_nearer_is_larger_spec : forall p x1 y1 x2 y2 sig,
  sig <> 0 -> dist2 p x1 y1 <= dist2 p x2 y2 ->
  gauss_spec (Some p) x2 y2 sig <= gauss_spec (Some p) x1 y1 sig.
Proof. exact gauss_spec_monotone. Qed.
Print Assumptions c01_nearer_is_larger_spec.

Theorem c01_strictly_nearer_is_strictly_larger_spec : forall p x1 y1 x2 y2 sig,
  sig <> 0 -> dist2 p x1 y1 < dist2 p x2 y2 ->
  gauss_spec (Some p) x2 y2 sig < gauss_spec (Some p) x1 y1 sig.
Proof. exact gauss_spec_strict. Qed.
Print Assumptions c01_strictly_nearer_is_strictly_larger_spec.

Theorem c01_one_iff_on_keypoint_spec : forall p x y sig,
  sig <> 0 -> (gauss_spec (Some p) x y sig = 1 <-> dist2 p x y = 0).
Proof. exact gauss_spec_one_iff. Qed.
Print Assumptions c01_one_iff_on_keypoint_spec.

(* PINNED tree (before the repair of F60), what the code computes: the per-cell
   maximum over the animals of ALL samples (equal to the per-sample maximum for
   one sample); on whatever grid vectors make_multi_confmaps is given *)
Theorem c01_multi_is_max_over_animals_pinned_all_samples :
  forall pts n_nodes xv yv sig smp c i j x y,
  (0 < sig)%Q -> nth_error yv i = Some y -> nth_error xv j = Some x ->
  (c < n_nodes)%nat -> (smp < length pts)%nat ->
  Forall (fun inst => length inst = n_nodes) (concat pts) ->
  exists a,
    cell4 (make_multi_confmaps pts n_nodes xv yv sig) smp c i j = Some a /\
    val a = Rmax_list (map (fun inst => gauss_spec (nth c inst None) (Q2R x) (Q2R y) (Q2R sig))
                           (concat pts)).
Proof. exact multi_confmaps_cell. Qed.
Print Assumptions c01_multi_is_max_over_animals_pinned_all_samples.

(* a missing keypoint contributes nothing; a channel whose contributors are all
   missing is identically zero: about the cell-wise fold `fold_cell`, which IS the
   cell of the executable per-sample function (c01_fold_cell_is_the_cell below);
   on the outputs: c01_multi_missing_channel_zero_* *)
Theorem c01_missing_contributes_nothing_def : forall sig x y ps1 ps2 a0,
  fold_cell sig x y (ps1 ++ None :: ps2) a0 = fold_cell sig x y (ps1 ++ ps2) a0.
Proof. exact multi_cell_missing_neutral. Qed.
Print Assumptions c01_missing_contributes_nothing_def.

Theorem c01_all_missing_zero_def : forall sig x y ps,
  Forall (fun p => p = None) ps -> val (fold_cell sig x y ps None) = 0.
Proof. intros. rewrite multi_cell_all_missing by assumption. reflexivity. Qed.
Print Assumptions c01_all_missing_zero_def.

Theorem c01_missing_single_zero_def : forall sig x y, val (cell_arg sig None x y) = 0.
Proof. reflexivity. Qed.
Print Assumptions c01_missing_single_zero_def.

(* shape: ceil(n/stride) samples per axis, = n/stride when the stride divides n
   (stride >= 1: torch.arange(step=0) raises, the model's ceil_div n 0 = 0 is a totalisation) *)
Theorem c01_grid_length : forall n s, (0 < s)%nat -> length (grid n s) = ceil_div n s.
Proof. intros n s _. apply grid_length. Qed.
Print Assumptions c01_grid_length.

Theorem c01_grid_length_exact : forall q s, (0 < s)%nat -> length (grid (q * s) s) = q.
Proof. intros. rewrite grid_length. apply ceil_div_exact. assumption. Qed.
Print Assumptions c01_grid_length_exact.

(* non-vacuity: a concrete keypoint / grid meets the hypotheses *)
Example ex_c01_nonvacuous :
  exists a, cell4 (generate_confmaps3 [[Some (3#2, 5#2)]] 8 8 (3#2) 2) 0 0 1 1 = Some (Some a).
Proof. eexists. vm_compute. reflexivity. Qed.

(* ====================================================================== round 2 *)

(* rank-4 input of generate_confmaps ((samples, instances, nodes, 2), flattened
   by .view): channel k*n_nodes + c holds node c of animal k *)
Theorem c01_value_formula_rank4 :
  forall pts H W sigma s smp insts n_nodes k inst c p i j,
  (0 < s)%nat -> (0 < sigma)%Q ->
  nth_error pts smp = Some insts -> Forall (fun l => length l = n_nodes) insts ->
  nth_error insts k = Some inst -> nth_error inst c = Some p ->
  (i * s < H)%nat -> (j * s < W)%nat ->
  exists a,
    cell4 (generate_confmaps4 pts H W sigma s) smp (k * n_nodes + c) i j = Some a /\
    val a = gauss_spec p (INR (j * s)) (INR (i * s)) (Q2R sigma * INR s).
Proof. exact generate_confmaps4_cell. Qed.
Print Assumptions c01_value_formula_rank4.

(* PINNED tree: generate_multiconfmaps end to end (stride grid, sigma*stride, the
   slice by num_instances): per-cell maximum over the animals of ALL samples *)
Theorem c01_multi_value_formula_pinned_all_samples :
  forall pts n_nodes H W num sigma s smp c i j,
  (0 < s)%nat -> (0 < sigma)%Q ->
  (i * s < H)%nat -> (j * s < W)%nat -> (c < n_nodes)%nat -> (smp < length pts)%nat ->
  Forall (fun inst => length inst = n_nodes) (concat pts) ->
  exists a,
    cell4 (generate_multiconfmaps pts n_nodes H W num sigma s) smp c i j = Some a /\
    val a = Rmax_list (map (fun inst => gauss_spec (nth c inst None) (INR (j * s)) (INR (i * s))
                                                   (Q2R sigma * INR s))
                           (concat (map (firstn num) pts))).
Proof. exact generate_multiconfmaps_cell. Qed.
Print Assumptions c01_multi_value_formula_pinned_all_samples.

Theorem c01_centroid_value_formula_pinned_all_samples :
  forall cents H W num sigma s smp i j,
  (0 < s)%nat -> (0 < sigma)%Q ->
  (i * s < H)%nat -> (j * s < W)%nat -> (smp < length cents)%nat ->
  exists a,
    cell4 (generate_multiconfmaps_centroids cents H W num sigma s) smp 0 i j = Some a /\
    val a = Rmax_list (map (fun c => gauss_spec c (INR (j * s)) (INR (i * s)) (Q2R sigma * INR s))
                           (concat (map (firstn num) cents))).
Proof. exact generate_multiconfmaps_centroids_cell. Qed.
Print Assumptions c01_centroid_value_formula_pinned_all_samples.

(* every cell of a multi-instance / centroid map lies in [0,1], both variants *)
Theorem c01_multi_range :
  forall fx pts n_nodes xv yv sig smp c i j x y,
  (0 < sig)%Q -> nth_error yv i = Some y -> nth_error xv j = Some x ->
  (c < n_nodes)%nat -> (smp < length pts)%nat ->
  Forall (fun inst => length inst = n_nodes) (concat pts) ->
  exists a, cell4 (mmc fx pts n_nodes xv yv sig) smp c i j = Some a /\ 0 <= val a <= 1.
Proof. exact mmc_range. Qed.
Print Assumptions c01_multi_range.

(* PINNED tree: a node that no animal of ANY sample has labelled gives an all-zero channel *)
Theorem c01_multi_missing_channel_zero_pinned_all_samples :
  forall pts n_nodes xv yv sig smp c i j x y,
  (0 < sig)%Q -> nth_error yv i = Some y -> nth_error xv j = Some x ->
  (c < n_nodes)%nat -> (smp < length pts)%nat ->
  Forall (fun inst => length inst = n_nodes) (concat pts) ->
  Forall (fun inst => nth c inst None = None) (concat pts) ->
  exists a, cell4 (make_multi_confmaps pts n_nodes xv yv sig) smp c i j = Some a /\ val a = 0.
Proof. exact multi_confmaps_missing_channel_zero. Qed.
Print Assumptions c01_multi_missing_channel_zero_pinned_all_samples.

(* largest at the nearest grid cell, on the output of generate_confmaps *)
Theorem c01_nearest_cell_is_largest :
  forall pts H W sigma s smp nodes c q i j i' j',
  (0 < s)%nat -> (0 < sigma)%Q ->
  nth_error pts smp = Some nodes -> nth_error nodes c = Some (Some q) ->
  (i * s < H)%nat -> (j * s < W)%nat -> (i' * s < H)%nat -> (j' * s < W)%nat ->
  dist2 q (INR (j * s)) (INR (i * s)) <= dist2 q (INR (j' * s)) (INR (i' * s)) ->
  exists a a',
    cell4 (generate_confmaps3 pts H W sigma s) smp c i j = Some a /\
    cell4 (generate_confmaps3 pts H W sigma s) smp c i' j' = Some a' /\
    val a' <= val a.
Proof. exact generate_confmaps3_nearest_is_largest. Qed.
Print Assumptions c01_nearest_cell_is_largest.

(* shapes: (samples, nodes, ceil(H/stride), ceil(W/stride)) *)
Theorem c01_shape_single :
  forall pts H W sigma s, (0 < s)%nat ->
  length (generate_confmaps3 pts H W sigma s) = length pts /\
  forall smp nodes, nth_error pts smp = Some nodes ->
    exists chans, nth_error (generate_confmaps3 pts H W sigma s) smp = Some chans /\
      length chans = length nodes /\
      Forall (cmap_shape (ceil_div H s) (ceil_div W s)) chans.
Proof. intros pts H W sigma s _. apply generate_confmaps3_shape. Qed.
Print Assumptions c01_shape_single.

(* out_shape S C h w out := length out = S /\ every sample has C channels of h rows of w cells *)
Theorem c01_shape_multi :
  forall fx pts n_nodes xv yv sig,
  Forall (fun inst => length inst = n_nodes) (concat pts) ->
  out_shape (length pts) n_nodes (length yv) (length xv) (mmc fx pts n_nodes xv yv sig).
Proof. exact mmc_shape. Qed.
Print Assumptions c01_shape_multi.

(* the DataPipes (definitional in the model: the pipes' bodies repeat the
   generate_* bodies; the tie of the pipes to the code is dynamic only):
   ConfidenceMapGenerator is generate_confmaps (both key
   options), the centroid pipe is the centroid variant; the multi-instance pipe
   does not slice by num_instances and agrees with generate_multiconfmaps when
   the rows beyond num_instances are unlabelled (NaN padding) *)
Theorem c01_datapipe_single_def :
  (forall pts H W sigma s, dp_single_instances pts H W sigma s = generate_confmaps4 pts H W sigma s) /\
  (forall pts H W sigma s, dp_single_other pts H W sigma s = generate_confmaps3 pts H W sigma s) /\
  (forall fx cents H W num sigma s,
     dp_centroids_v fx cents H W num sigma s = generate_multiconfmaps_centroids_v fx cents H W num sigma s).
Proof. exact (conj dp_single_instances_eq (conj dp_single_other_eq dp_centroids_v_eq)). Qed.
Print Assumptions c01_datapipe_single_def.

Theorem c01_datapipe_multi_ignores_padding_pinned_all_samples :
  forall pts n_nodes H W num sigma s smp c i j,
  (0 < s)%nat -> (0 < sigma)%Q ->
  (i * s < H)%nat -> (j * s < W)%nat -> (c < n_nodes)%nat -> (smp < length pts)%nat ->
  Forall (fun inst => length inst = n_nodes) (concat pts) ->
  Forall (fun smp => Forall (fun inst => nth c inst None = None) (skipn num smp)) pts ->
  exists a b,
    cell4 (dp_multi pts n_nodes H W sigma s) smp c i j = Some a /\
    cell4 (generate_multiconfmaps pts n_nodes H W num sigma s) smp c i j = Some b /\
    val a = val b.
Proof. exact dp_multi_cell_ignores_padding. Qed.
Print Assumptions c01_datapipe_multi_ignores_padding_pinned_all_samples.

(* the description language of TExpr.v: the canonical descriptions of the five
   function bodies denote the model functions (the per-run obligations
   Gen/C01_Oblig_<function>.v instantiate these with the descriptions regenerated
   from the source).  Proof content: c01_ir_make_confmaps (NaN-propagating
   arithmetic + layouts = cell_arg), c01_ir_make_grid_vectors,
   c01_ir_make_multi_confmaps (loop with broadcast = compute once, copy) and
   c01_ir_make_multi_confmaps_repaired (loop over transposed slots = per-sample
   folds).  c01_ir_generate_confmaps_def / c01_ir_generate_multiconfmaps_def are
   DEFINITIONAL: denote_genc / denote_genm call the model's functions in the
   model's order, so for these two bodies tie 1 is an AST-template match.
   `ar_float32` and the dtype of `zeros` are carried in the descriptions (the
   translator fails closed on another dtype) but have no denotation.
   sig > 0: at sig = 0 the model's Qdiv _ 0 = 0 is a totalisation (the code gives exp(-inf) = 0). *)
Theorem c01_ir_make_confmaps : forall pts xv yv sig, (0 < sig)%Q ->
  denote_confmaps canon_confmaps pts xv yv sig = as_tval (make_confmaps pts xv yv sig).
Proof. intros pts xv yv sig _. apply denote_confmaps_canon. Qed.
Print Assumptions c01_ir_make_confmaps.

Theorem c01_ir_make_grid_vectors : forall H W s, denote_grid canon_grid H W s = make_grid_vectors H W s.
Proof. exact denote_grid_canon. Qed.
Print Assumptions c01_ir_make_grid_vectors.

(* pinned tree *)
Theorem c01_ir_make_multi_confmaps : forall pts n_nodes xv yv sig,
  denote_multi canon_multi pts n_nodes xv yv sig = Some (make_multi_confmaps pts n_nodes xv yv sig).
Proof. exact denote_multi_canon. Qed.
Print Assumptions c01_ir_make_multi_confmaps.

(* repaired variant: on every rectangular array (a tensor) *)
Theorem c01_ir_make_multi_confmaps_repaired : forall pts n_nodes xv yv sig,
  rect pts ->
  denote_multi canon_multi_fixed pts n_nodes xv yv sig = Some (make_multi_confmaps_ps pts n_nodes xv yv sig).
Proof. exact denote_multi_canon_fixed. Qed.
Print Assumptions c01_ir_make_multi_confmaps_repaired.

Theorem c01_ir_generate_confmaps_def :
  (forall pts H W sigma s,
     denote_genc canon_genc (SVP3 pts) H W sigma s = Some (generate_confmaps3 pts H W sigma s)) /\
  (forall pts H W sigma s,
     denote_genc canon_genc (SVP4 pts) H W sigma s = Some (generate_confmaps4 pts H W sigma s)).
Proof. exact (conj denote_genc_canon3 denote_genc_canon4). Qed.
Print Assumptions c01_ir_generate_confmaps_def.

Theorem c01_ir_generate_multiconfmaps_def :
  (forall fx pts n_nodes H W num sigma s,
     denote_genm fx canon_genm false (SVP4 pts) n_nodes H W num sigma s =
     Some (generate_multiconfmaps_v fx pts n_nodes H W num sigma s)) /\
  (forall fx cents n_nodes H W num sigma s,
     denote_genm fx canon_genm true (SVP3 cents) n_nodes H W num sigma s =
     Some (generate_multiconfmaps_centroids_v fx cents H W num sigma s)).
Proof. exact (conj denote_genm_canon_instances_v denote_genm_canon_centroids_v). Qed.
Print Assumptions c01_ir_generate_multiconfmaps_def.

(* the variant functions at fx = false ARE the ConfMaps.v / Entry.v functions of rounds 1-2 *)
Theorem c01_variants_pinned_def :
  (forall pts n_nodes H W num sigma s,
     generate_multiconfmaps_v false pts n_nodes H W num sigma s = generate_multiconfmaps pts n_nodes H W num sigma s) /\
  (forall cents H W num sigma s,
     generate_multiconfmaps_centroids_v false cents H W num sigma s =
     generate_multiconfmaps_centroids cents H W num sigma s) /\
  (forall pts n_nodes H W sigma s, dp_multi_v false pts n_nodes H W sigma s = dp_multi pts n_nodes H W sigma s) /\
  (forall cents H W num sigma s, dp_centroids_v false cents H W num sigma s = dp_centroids cents H W num sigma s).
Proof.
  exact (conj generate_multiconfmaps_v_pinned (conj generate_multiconfmaps_centroids_v_pinned
          (conj dp_multi_v_pinned dp_centroids_v_pinned))).
Qed.
Print Assumptions c01_variants_pinned_def.

(* non-vacuity of the round-2 implications *)
Example ex_c01_multi_nonvacuous :
  exists a, cell4 (generate_multiconfmaps [[[Some (3#2, 5#2); None]; [None; None]; [Some (6#1, 1#1); Some (0#1, 0#1)]]]
                     2 8 8 3 (3#2) 2) 0 0 1 1 = Some (Some a).
Proof. eexists. vm_compute. reflexivity. Qed.

Example ex_c01_centroid_nonvacuous :
  exists a, cell4 (generate_multiconfmaps_centroids [[None; Some (3#2, 5#2); None]] 7 5 2 (3#2) 2) 0 0 1 1 = Some (Some a).
Proof. eexists. vm_compute. reflexivity. Qed.

(* a full instance of c01_datapipe_multi_ignores_padding_*: H = W = 8, s = 2,
   sigma = 3/2, num = 1, one padded row, sample 0, channel 0, cell (1,1) *)
Example ex_c01_padding_nonvacuous :
  let pts := [[[Some (3#2, 5#2)]; [(None : kp)]]] in
  (0 < 2)%nat /\ (0 < 3#2)%Q /\ (1 * 2 < 8)%nat /\ (0 < 1)%nat /\ nth_error pts 0 = Some [[Some (3#2, 5#2)]; [None]] /\
  Forall (fun inst => length inst = 1%nat) (concat pts) /\
  others_contribute pts 0 0 = false /\
  Forall (fun inst => nth 0 inst None = None) (skipn 1 [[Some (3#2, 5#2)]; [(None : kp)]]) /\
  exists a, cell4 (dp_multi_v false pts 1 8 8 (3#2) 2) 0 0 1 1 = Some (Some a).
Proof.
  cbv zeta. repeat (split; [first [lia | reflexivity | (repeat constructor)]|]).
  eexists. vm_compute. reflexivity.
Qed.

Example ex_c01_rank4_nonvacuous :
  exists a, cell4 (generate_confmaps4 [[[Some (1#1, 1#1); None]; [None; Some (3#2, 5#2)]]] 8 8 (3#2) 2)
                  0 (1 * 2 + 1) 1 1 = Some (Some a).
Proof. eexists. vm_compute. reflexivity. Qed.

(* ====================================================================== round 4
   PER-SAMPLE statements (the property): the channel of a frame is the per-cell
   maximum over the animals OF THAT FRAME.  Hypothesis
     fx = true \/ others_contribute ... smp c = false
   reads: the repaired variant, with no side condition; or the pinned tree
   outside the selector of F60 (no animal of ANOTHER sample has node c labelled
   among the contributing rows).  `_repaired` / `_partial` / `_one_sample` are the
   instances; `_refuted` shows the side condition is needed for the pinned tree. *)

(* make_multi_confmaps on whatever grid vectors *)
Theorem c01_multi_is_max_over_animals_variants :
  forall fx pts n_nodes xv yv sig smp insts c i j x y,
  (0 < sig)%Q -> nth_error yv i = Some y -> nth_error xv j = Some x ->
  (c < n_nodes)%nat -> nth_error pts smp = Some insts ->
  Forall (fun inst => length inst = n_nodes) (concat pts) ->
  fx = true \/ others_contribute pts smp c = false ->
  exists a,
    cell4 (mmc fx pts n_nodes xv yv sig) smp c i j = Some a /\
    val a = Rmax_list (map (fun inst => gauss_spec (nth c inst None) (Q2R x) (Q2R y) (Q2R sig)) insts).
Proof. exact mmc_cell_per_sample. Qed.
Print Assumptions c01_multi_is_max_over_animals_variants.

(* generate_multiconfmaps end to end (stride grid, sigma*stride, slice by num_instances) *)
Theorem c01_multi_value_formula_variants :
  forall fx pts n_nodes H W num sigma s smp insts c i j,
  (0 < s)%nat -> (0 < sigma)%Q ->
  (i * s < H)%nat -> (j * s < W)%nat -> (c < n_nodes)%nat -> nth_error pts smp = Some insts ->
  Forall (fun inst => length inst = n_nodes) (concat pts) ->
  fx = true \/ others_contribute (map (firstn num) pts) smp c = false ->
  exists a,
    cell4 (generate_multiconfmaps_v fx pts n_nodes H W num sigma s) smp c i j = Some a /\
    val a = Rmax_list (map (fun inst => gauss_spec (nth c inst None) (INR (j * s)) (INR (i * s))
                                                   (Q2R sigma * INR s))
                           (firstn num insts)).
Proof. exact generate_multiconfmaps_cell_per_sample. Qed.
Print Assumptions c01_multi_value_formula_variants.

Theorem c01_multi_value_formula_repaired :
  forall pts n_nodes H W num sigma s smp insts c i j,
  (0 < s)%nat -> (0 < sigma)%Q ->
  (i * s < H)%nat -> (j * s < W)%nat -> (c < n_nodes)%nat -> nth_error pts smp = Some insts ->
  Forall (fun inst => length inst = n_nodes) (concat pts) ->
  exists a,
    cell4 (generate_multiconfmaps_v true pts n_nodes H W num sigma s) smp c i j = Some a /\
    val a = Rmax_list (map (fun inst => gauss_spec (nth c inst None) (INR (j * s)) (INR (i * s))
                                                   (Q2R sigma * INR s))
                           (firstn num insts)).
Proof. intros. apply generate_multiconfmaps_cell_per_sample; auto. Qed.
Print Assumptions c01_multi_value_formula_repaired.

(* pinned tree = ConfMaps.generate_multiconfmaps; missing for the full statement:
   inputs with others_contribute = true, where it is false (c01_multi_value_formula_refuted) *)
Theorem c01_multi_value_formula_partial :
  forall pts n_nodes H W num sigma s smp insts c i j,
  (0 < s)%nat -> (0 < sigma)%Q ->
  (i * s < H)%nat -> (j * s < W)%nat -> (c < n_nodes)%nat -> nth_error pts smp = Some insts ->
  Forall (fun inst => length inst = n_nodes) (concat pts) ->
  others_contribute (map (firstn num) pts) smp c = false ->
  exists a,
    cell4 (generate_multiconfmaps pts n_nodes H W num sigma s) smp c i j = Some a /\
    val a = Rmax_list (map (fun inst => gauss_spec (nth c inst None) (INR (j * s)) (INR (i * s))
                                                   (Q2R sigma * INR s))
                           (firstn num insts)).
Proof. intros. apply (generate_multiconfmaps_cell_per_sample false); auto. Qed.
Print Assumptions c01_multi_value_formula_partial.

Theorem c01_multi_value_formula_refuted :
  exists pts n_nodes H W num sigma s smp insts c i j,
    (0 < s)%nat /\ (0 < sigma)%Q /\ (i * s < H)%nat /\ (j * s < W)%nat /\ (c < n_nodes)%nat /\
    nth_error pts smp = Some insts /\
    Forall (fun inst => length inst = n_nodes) (concat pts) /\
    others_contribute (map (firstn num) pts) smp c = true /\
    exists a,
      cell4 (generate_multiconfmaps_v false pts n_nodes H W num sigma s) smp c i j = Some a /\
      val a <> Rmax_list (map (fun inst => gauss_spec (nth c inst None) (INR (j * s)) (INR (i * s))
                                                      (Q2R sigma * INR s))
                              (firstn num insts)).
Proof. exact generate_multiconfmaps_per_sample_refuted. Qed.
Print Assumptions c01_multi_value_formula_refuted.

(* one sample (every call /repo makes: custom_datasets.py, streaming_datasets.py, the pipes per example): both variants *)
Theorem c01_multi_value_formula_one_sample :
  forall fx insts n_nodes H W num sigma s c i j,
  (0 < s)%nat -> (0 < sigma)%Q ->
  (i * s < H)%nat -> (j * s < W)%nat -> (c < n_nodes)%nat ->
  Forall (fun inst => length inst = n_nodes) insts ->
  exists a,
    cell4 (generate_multiconfmaps_v fx [insts] n_nodes H W num sigma s) 0 c i j = Some a /\
    val a = Rmax_list (map (fun inst => gauss_spec (nth c inst None) (INR (j * s)) (INR (i * s))
                                                   (Q2R sigma * INR s))
                           (firstn num insts)).
Proof.
  intros fx insts n_nodes H W num sigma s c i j Hs Hsig Hi Hj Hc Hall.
  apply generate_multiconfmaps_cell_per_sample; try assumption.
  - reflexivity.
  - simpl. rewrite app_nil_r. exact Hall.
  - right. reflexivity.
Qed.
Print Assumptions c01_multi_value_formula_one_sample.

(* centroid layout: ONE channel, maximum over the first num_instances centroids of the sample *)
Theorem c01_centroid_value_formula_variants :
  forall fx cents H W num sigma s smp cl i j,
  (0 < s)%nat -> (0 < sigma)%Q ->
  (i * s < H)%nat -> (j * s < W)%nat -> nth_error cents smp = Some cl ->
  fx = true \/ others_contribute (cent_pts cents num) smp 0 = false ->
  exists a,
    cell4 (generate_multiconfmaps_centroids_v fx cents H W num sigma s) smp 0 i j = Some a /\
    val a = Rmax_list (map (fun c => gauss_spec c (INR (j * s)) (INR (i * s)) (Q2R sigma * INR s))
                           (firstn num cl)).
Proof. exact generate_multiconfmaps_centroids_cell_per_sample. Qed.
Print Assumptions c01_centroid_value_formula_variants.

Theorem c01_centroid_value_formula_repaired :
  forall cents H W num sigma s smp cl i j,
  (0 < s)%nat -> (0 < sigma)%Q ->
  (i * s < H)%nat -> (j * s < W)%nat -> nth_error cents smp = Some cl ->
  exists a,
    cell4 (generate_multiconfmaps_centroids_v true cents H W num sigma s) smp 0 i j = Some a /\
    val a = Rmax_list (map (fun c => gauss_spec c (INR (j * s)) (INR (i * s)) (Q2R sigma * INR s))
                           (firstn num cl)).
Proof. intros. apply generate_multiconfmaps_centroids_cell_per_sample; auto. Qed.
Print Assumptions c01_centroid_value_formula_repaired.

Theorem c01_centroid_value_formula_partial :
  forall cents H W num sigma s smp cl i j,
  (0 < s)%nat -> (0 < sigma)%Q ->
  (i * s < H)%nat -> (j * s < W)%nat -> nth_error cents smp = Some cl ->
  others_contribute (cent_pts cents num) smp 0 = false ->
  exists a,
    cell4 (generate_multiconfmaps_centroids cents H W num sigma s) smp 0 i j = Some a /\
    val a = Rmax_list (map (fun c => gauss_spec c (INR (j * s)) (INR (i * s)) (Q2R sigma * INR s))
                           (firstn num cl)).
Proof. intros. apply (generate_multiconfmaps_centroids_cell_per_sample false); auto. Qed.
Print Assumptions c01_centroid_value_formula_partial.

(* the selector is never met by a one-sample array *)
Theorem c01_one_sample_not_selected :
  forall pts smp c, length pts = 1%nat -> (smp < length pts)%nat -> others_contribute pts smp c = false.
Proof. exact one_sample_not_selected. Qed.
Print Assumptions c01_one_sample_not_selected.

(* zero channel, per sample: a node that no animal of the sample has labelled *)
Theorem c01_multi_missing_channel_zero_variants :
  forall fx pts n_nodes xv yv sig smp insts c i j x y,
  (0 < sig)%Q -> nth_error yv i = Some y -> nth_error xv j = Some x ->
  (c < n_nodes)%nat -> nth_error pts smp = Some insts ->
  Forall (fun inst => length inst = n_nodes) (concat pts) ->
  fx = true \/ others_contribute pts smp c = false ->
  Forall (fun inst => nth c inst None = None) insts ->
  exists a, cell4 (mmc fx pts n_nodes xv yv sig) smp c i j = Some a /\ val a = 0.
Proof. exact mmc_missing_channel_zero. Qed.
Print Assumptions c01_multi_missing_channel_zero_variants.

(* the multi-instance DataPipe (no slice by num_instances), per sample *)
Theorem c01_datapipe_multi_ignores_padding_variants :
  forall fx pts n_nodes H W num sigma s smp insts c i j,
  (0 < s)%nat -> (0 < sigma)%Q ->
  (i * s < H)%nat -> (j * s < W)%nat -> (c < n_nodes)%nat -> nth_error pts smp = Some insts ->
  Forall (fun inst => length inst = n_nodes) (concat pts) ->
  fx = true \/ others_contribute pts smp c = false ->
  Forall (fun inst => nth c inst None = None) (skipn num insts) ->
  exists a,
    cell4 (dp_multi_v fx pts n_nodes H W sigma s) smp c i j = Some a /\
    val a = Rmax_list (map (fun inst => gauss_spec (nth c inst None) (INR (j * s)) (INR (i * s))
                                                   (Q2R sigma * INR s))
                           (firstn num insts)).
Proof. exact dp_multi_cell_per_sample. Qed.
Print Assumptions c01_datapipe_multi_ignores_padding_variants.

(* fold_cell (c01_missing_contributes_nothing_def, c01_all_missing_zero_def) is the
   cell of the executable per-sample function *)
Theorem c01_fold_cell_is_the_cell :
  forall insts n_nodes xv yv sig c i j x y,
  nth_error yv i = Some y -> nth_error xv j = Some x -> (c < n_nodes)%nat ->
  Forall (fun inst => length inst = n_nodes) insts ->
  cell4 (make_multi_confmaps_ps [insts] n_nodes xv yv sig) 0 c i j =
  Some (fold_cell sig x y (map (fun inst => nth c inst None) insts) None).
Proof. exact multi_one_cell_is_fold_cell. Qed.
Print Assumptions c01_fold_cell_is_the_cell.

(* range on the outputs of generate_confmaps *)
Theorem c01_generate_confmaps_range :
  forall pts H W sigma s smp nodes c p i j,
  (0 < s)%nat -> (0 < sigma)%Q ->
  nth_error pts smp = Some nodes -> nth_error nodes c = Some p ->
  (i * s < H)%nat -> (j * s < W)%nat ->
  exists a, cell4 (generate_confmaps3 pts H W sigma s) smp c i j = Some a /\ 0 <= val a <= 1.
Proof. exact generate_confmaps3_range. Qed.
Print Assumptions c01_generate_confmaps_range.

(* ---- shapes, end to end ---- *)
Theorem c01_shape_multi_e2e :
  forall fx pts n_nodes H W num sigma s, (0 < s)%nat ->
  Forall (fun inst => length inst = n_nodes) (concat pts) ->
  out_shape (length pts) n_nodes (ceil_div H s) (ceil_div W s)
            (generate_multiconfmaps_v fx pts n_nodes H W num sigma s).
Proof. intros fx pts n_nodes H W num sigma s _. apply generate_multiconfmaps_shape. Qed.
Print Assumptions c01_shape_multi_e2e.

Theorem c01_shape_centroid :
  forall fx cents H W num sigma s, (0 < s)%nat ->
  out_shape (length cents) 1 (ceil_div H s) (ceil_div W s)
            (generate_multiconfmaps_centroids_v fx cents H W num sigma s).
Proof. intros fx cents H W num sigma s _. apply generate_multiconfmaps_centroids_shape. Qed.
Print Assumptions c01_shape_centroid.

Theorem c01_shape_rank4 :
  forall pts H W sigma s, (0 < s)%nat ->
  length (generate_confmaps4 pts H W sigma s) = length pts /\
  forall smp insts n_nodes, nth_error pts smp = Some insts ->
    Forall (fun l => length l = n_nodes) insts ->
    exists chans, nth_error (generate_confmaps4 pts H W sigma s) smp = Some chans /\
      length chans = (length insts * n_nodes)%nat /\
      Forall (cmap_shape (ceil_div H s) (ceil_div W s)) chans.
Proof. intros pts H W sigma s _. apply generate_confmaps4_shape. Qed.
Print Assumptions c01_shape_rank4.

(* ---- largest at the nearest grid cell, on the outputs: weak, strict, = 1 iff on the keypoint ---- *)
Theorem c01_nearest_cell_strict :
  forall pts H W sigma s smp nodes c q i j i' j',
  (0 < s)%nat -> (0 < sigma)%Q ->
  nth_error pts smp = Some nodes -> nth_error nodes c = Some (Some q) ->
  (i * s < H)%nat -> (j * s < W)%nat -> (i' * s < H)%nat -> (j' * s < W)%nat ->
  exists a a',
    cell4 (generate_confmaps3 pts H W sigma s) smp c i j = Some a /\
    cell4 (generate_confmaps3 pts H W sigma s) smp c i' j' = Some a' /\
    (dist2 q (INR (j * s)) (INR (i * s)) <= dist2 q (INR (j' * s)) (INR (i' * s)) -> val a' <= val a) /\
    (dist2 q (INR (j * s)) (INR (i * s)) < dist2 q (INR (j' * s)) (INR (i' * s)) -> val a' < val a) /\
    (val a = 1 <-> dist2 q (INR (j * s)) (INR (i * s)) = 0).
Proof. exact generate_confmaps3_nearest_strict. Qed.
Print Assumptions c01_nearest_cell_strict.

(* multi-instance: every contributing animal's bump is below the cell value *)
Theorem c01_multi_ge_each_contributor :
  forall fx pts n_nodes H W num sigma s smp insts c i j inst,
  (0 < s)%nat -> (0 < sigma)%Q ->
  (i * s < H)%nat -> (j * s < W)%nat -> (c < n_nodes)%nat -> nth_error pts smp = Some insts ->
  Forall (fun inst => length inst = n_nodes) (concat pts) ->
  fx = true \/ others_contribute (map (firstn num) pts) smp c = false ->
  In inst (firstn num insts) ->
  exists a,
    cell4 (generate_multiconfmaps_v fx pts n_nodes H W num sigma s) smp c i j = Some a /\
    gauss_spec (nth c inst None) (INR (j * s)) (INR (i * s)) (Q2R sigma * INR s) <= val a.
Proof. exact generate_multiconfmaps_ge_each. Qed.
Print Assumptions c01_multi_ge_each_contributor.

(* a channel with a single visible contributor (single_contributor l c q: l = l1 ++ inst0 :: l2,
   node c of inst0 is q, node c missing in l1 and l2) is that keypoint's bump *)
Theorem c01_multi_nearest_cell :
  forall fx pts n_nodes H W num sigma s smp insts c q i j i' j',
  (0 < s)%nat -> (0 < sigma)%Q ->
  (i * s < H)%nat -> (j * s < W)%nat -> (i' * s < H)%nat -> (j' * s < W)%nat ->
  (c < n_nodes)%nat -> nth_error pts smp = Some insts ->
  Forall (fun inst => length inst = n_nodes) (concat pts) ->
  fx = true \/ others_contribute (map (firstn num) pts) smp c = false ->
  single_contributor (firstn num insts) c q ->
  exists a a',
    cell4 (generate_multiconfmaps_v fx pts n_nodes H W num sigma s) smp c i j = Some a /\
    cell4 (generate_multiconfmaps_v fx pts n_nodes H W num sigma s) smp c i' j' = Some a' /\
    (dist2 q (INR (j * s)) (INR (i * s)) <= dist2 q (INR (j' * s)) (INR (i' * s)) -> val a' <= val a) /\
    (dist2 q (INR (j * s)) (INR (i * s)) < dist2 q (INR (j' * s)) (INR (i' * s)) -> val a' < val a) /\
    (val a = 1 <-> dist2 q (INR (j * s)) (INR (i * s)) = 0).
Proof. exact generate_multiconfmaps_nearest. Qed.
Print Assumptions c01_multi_nearest_cell.

Theorem c01_centroid_nearest_cell :
  forall fx cents H W num sigma s smp cl q i j i' j',
  (0 < s)%nat -> (0 < sigma)%Q ->
  (i * s < H)%nat -> (j * s < W)%nat -> (i' * s < H)%nat -> (j' * s < W)%nat ->
  nth_error cents smp = Some cl ->
  fx = true \/ others_contribute (cent_pts cents num) smp 0 = false ->
  single_centroid (firstn num cl) q ->
  exists a a',
    cell4 (generate_multiconfmaps_centroids_v fx cents H W num sigma s) smp 0 i j = Some a /\
    cell4 (generate_multiconfmaps_centroids_v fx cents H W num sigma s) smp 0 i' j' = Some a' /\
    (dist2 q (INR (j * s)) (INR (i * s)) <= dist2 q (INR (j' * s)) (INR (i' * s)) -> val a' <= val a) /\
    (dist2 q (INR (j * s)) (INR (i * s)) < dist2 q (INR (j' * s)) (INR (i' * s)) -> val a' < val a) /\
    (val a = 1 <-> dist2 q (INR (j * s)) (INR (i * s)) = 0).
Proof. exact generate_multiconfmaps_centroids_nearest. Qed.
Print Assumptions c01_centroid_nearest_cell.

(* ---- non-vacuity of the round-4 implications ---- *)
(* two samples OUTSIDE the selector (pinned variant): sample 0 / node 0, the other sample has only node 1 *)
Example ex_c01_partial_two_samples_nonvacuous :
  let pts := [[[Some (2#1, 2#1); None]]; [[None; Some (1#1, 1#1)]]] in
  others_contribute (map (firstn 1) pts) 0 0 = false /\
  Forall (fun inst => length inst = 2%nat) (concat pts) /\
  exists a, cell4 (generate_multiconfmaps_v false pts 2 4 4 1 (3#2) 2) 0 0 1 1 = Some (Some a).
Proof. cbv zeta. split; [reflexivity|]. split; [repeat constructor|]. eexists. vm_compute. reflexivity. Qed.

(* two samples INSIDE the selector: the repaired variant gives sample 1 its own (empty) map,
   the pinned one leaks sample 0's keypoint *)
Example ex_c01_f60_witness :
  others_contribute (map (firstn 1) f60_pts) 1 0 = true /\
  cell4 (generate_multiconfmaps_v true f60_pts 1 4 4 1 (3#2) 2) 1 0 1 1 = Some None /\
  exists a, cell4 (generate_multiconfmaps_v false f60_pts 1 4 4 1 (3#2) 2) 1 0 1 1 = Some (Some a).
Proof. split; [reflexivity|]. split; [vm_compute; reflexivity|]. eexists. vm_compute. reflexivity. Qed.

Example ex_c01_single_contributor :
  single_contributor (firstn 3 [[None; Some (1#1, 1#1)]; [Some (3#2, 5#2); None]; [None; None]]) 0 (3#2, 5#2).
Proof. exists [[None; Some (1#1, 1#1)]], [Some (3#2, 5#2); None], [[None; None]]. split; [reflexivity|]. split; [reflexivity|]. split; repeat constructor. Qed.

Example ex_c01_single_centroid :
  single_centroid (firstn 2 [None; Some (3#2, 5#2); Some (0#1, 0#1)]) (3#2, 5#2).
Proof. exists [None], []. split; [reflexivity|]. split; repeat constructor. Qed.

Example ex_c01_rect : rect [[[Some (1#1, 1#1)]; [None]]; [[None]; [None]]].
Proof. repeat constructor. Qed.

Example ex_c01_shape_centroid_nonvacuous :
  out_shape 2 1 4 3 (generate_multiconfmaps_centroids_v true [[None; Some (3#2, 5#2)]; [None; None]] 7 5 2 (3#2) 2).
Proof. vm_compute. repeat constructor. Qed.
