(* TExpr.v (C01) — a small typed description language for the bodies of
     utils.make_grid_vectors, confidence_maps.make_confmaps, make_multi_confmaps,
     generate_confmaps, generate_multiconfmaps
   and its denotation (definitions only; proofs in Lemmas2.v).

   translator/c01_confmaps2coq.py regenerates, on every run of the check, a term
   of these types from the *source text* of the five functions (stdlib ast,
   fail-closed) into Gen/C01_ConfmapsIR.v; the per-run obligations
   (Gen/C01_ConfmapsOblig.v) state that the generated terms denote the model
   functions of ConfMaps.v / Entry.v, and are closed with the once-and-for-all
   theorems of Lemmas2.v about the `canon_*` terms below — which type-checks only
   if the generated term is convertible to the canonical one.

   Value domain of the elementwise tensor expression (`tval`):
     VNum q  : a float, `None` = NaN (arithmetic propagates NaN)
     VExp q  : torch.exp of the float q (NaN when q is NaN)
     VCell a : torch.nan_to_num of such a value; this is the model's cell
               (`option Q`: the argument of exp, None = the value 0)
   The denotation of callee calls uses the model function of the callee (each
   callee has its own denotation theorem): the reasoning is compositional. *)
From Coq Require Import List Arith ZArith QArith Bool.
Import ListNotations.
From SV Require Import C01.ConfMaps C01.Entry.
Open Scope Q_scope.

(* ---------------------------------------------------------------- elementwise *)
(* target shapes of torch.reshape, as the translator resolves them through
   `samples, n_nodes, _ = points_batch.shape`: 1, samples, n_nodes, -1 *)
Inductive ax := A1 | ASamples | ANodes | AAll.

Inductive texpr :=
| ECoord (k : nat) (shape : list ax)      (* torch.reshape(points_batch[:, :, k], shape) *)
| EXv (shape : list ax)                   (* torch.reshape(xv, shape) *)
| EYv (shape : list ax)                   (* torch.reshape(yv, shape) *)
| ESigma                                  (* the python float `sigma` *)
| EInt (z : Z)
| ESub (a b : texpr) | EAdd (a b : texpr) | EMul (a b : texpr) | EDiv (a b : texpr)
| ENeg (a : texpr) | EPow (a : texpr) (n : nat)
| EExp (a : texpr)                        (* torch.exp *)
| ENanToNum (a : texpr).                  (* torch.nan_to_num *)

Inductive tval := VNum (q : option Q) | VExp (q : option Q) | VCell (a : option Q) | VBad.

Definition ax_eqb (a b : ax) : bool :=
  match a, b with
  | A1, A1 | ASamples, ASamples | ANodes, ANodes | AAll, AAll => true
  | _, _ => false
  end.

Fixpoint shape_eqb (a b : list ax) : bool :=
  match a, b with
  | [], [] => true
  | x :: a', y :: b' => ax_eqb x y && shape_eqb a' b'
  | _, _ => false
  end.

Definition lift2 (f : Q -> Q -> Q) (a b : tval) : tval :=
  match a, b with
  | VNum (Some x), VNum (Some y) => VNum (Some (f x y))
  | VNum _, VNum _ => VNum None
  | _, _ => VBad
  end.

Definition lift1 (f : Q -> Q) (a : tval) : tval :=
  match a with
  | VNum (Some x) => VNum (Some (f x))
  | VNum None => VNum None
  | _ => VBad
  end.

Fixpoint qpow (a : Q) (n : nat) : Q :=
  match n with
  | O => 1
  | S O => a
  | S m => a * qpow a m
  end.

Definition coord (k : nat) (p : kp) : tval :=
  match k with
  | 0%nat => VNum (match p with Some (x, _) => Some x | None => None end)
  | 1%nat => VNum (match p with Some (_, y) => Some y | None => None end)
  | _ => VBad                                         (* IndexError *)
  end.

(* value of the expression at output index (s, n, i, j), where p is keypoint n of
   sample s, x = xv[j] and y = yv[i]: a leaf reshaped to (samples, n_nodes, 1, 1)
   varies with (s, n) only, (1, 1, 1, -1) with j only, (1, 1, -1, 1) with i only;
   any other layout of a leaf is not given a meaning (VBad) *)
Fixpoint eval (e : texpr) (p : kp) (x y sig : Q) : tval :=
  match e with
  | ECoord k sh => if shape_eqb sh [ASamples; ANodes; A1; A1] then coord k p else VBad
  | EXv sh => if shape_eqb sh [A1; A1; A1; AAll] then VNum (Some x) else VBad
  | EYv sh => if shape_eqb sh [A1; A1; AAll; A1] then VNum (Some y) else VBad
  | ESigma => VNum (Some sig)
  | EInt z => VNum (Some (inject_Z z))
  | ESub a b => lift2 Qminus (eval a p x y sig) (eval b p x y sig)
  | EAdd a b => lift2 Qplus (eval a p x y sig) (eval b p x y sig)
  | EMul a b => lift2 Qmult (eval a p x y sig) (eval b p x y sig)
  | EDiv a b => lift2 Qdiv (eval a p x y sig) (eval b p x y sig)
  | ENeg a => lift1 Qopp (eval a p x y sig)
  | EPow a n => lift1 (fun q => qpow q n) (eval a p x y sig)
  | EExp a => match eval a p x y sig with VNum q => VExp q | _ => VBad end
  | ENanToNum a => match eval a p x y sig with VExp q => VCell q | _ => VBad end
  end.

(* the (samples, n_nodes, grid_h, grid_w) tensor the body of make_confmaps returns *)
Definition denote_confmaps (e : texpr) (pts : list (list kp)) (xv yv : list Q) (sig : Q)
  : list (list (list (list tval))) :=
  map (map (fun p => map (fun y => map (fun x => eval e p x y sig) xv) yv)) pts.

Definition as_tval (out : list (list cmap)) : list (list (list (list tval))) :=
  map (map (map (map VCell))) out.

(* exp(-((xv_r - x) ** 2 + (yv_r - y) ** 2) / (2 * sigma**2)) then nan_to_num *)
Definition canon_confmaps : texpr :=
  ENanToNum (EExp (EDiv
    (ENeg (EAdd (EPow (ESub (EXv [A1; A1; A1; AAll]) (ECoord 0 [ASamples; ANodes; A1; A1])) 2)
                (EPow (ESub (EYv [A1; A1; AAll; A1]) (ECoord 1 [ASamples; ANodes; A1; A1])) 2)))
    (EMul (EInt 2) (EPow ESigma 2)))).

(* ---------------------------------------------------------------- make_grid_vectors *)
Inductive gname := GHeight | GWidth | GStride.
Inductive gx := GN (n : gname) | GLit (z : nat).
Record arange_ir := { ar_start : gx; ar_stop : gx; ar_step : gx; ar_float32 : bool }.
(* `return xv, yv` with both names resolved to their torch.arange calls *)
Record grid_ir := { gr_first : arange_ir; gr_second : arange_ir }.

Definition gx_val (g : gx) (H W s : nat) : nat :=
  match g with
  | GN GHeight => H | GN GWidth => W | GN GStride => s
  | GLit z => z
  end.

(* torch.arange(a, b, step): a, a+step, ... < b *)
Definition arange (a b st : nat) : list Q :=
  map (fun k => inject_Z (Z.of_nat (a + k * st))) (seq 0 (ceil_div (b - a) st)).

Definition denote_arange (r : arange_ir) (H W s : nat) : list Q :=
  arange (gx_val (ar_start r) H W s) (gx_val (ar_stop r) H W s) (gx_val (ar_step r) H W s).

Definition denote_grid (g : grid_ir) (H W s : nat) : list Q * list Q :=
  (denote_arange (gr_first g) H W s, denote_arange (gr_second g) H W s).

Definition canon_grid : grid_ir :=
  {| gr_first := {| ar_start := GLit 0; ar_stop := GN GWidth; ar_step := GN GStride; ar_float32 := true |};
     gr_second := {| ar_start := GLit 0; ar_stop := GN GHeight; ar_step := GN GStride; ar_float32 := true |} |}.

(* ---------------------------------------------------------------- make_multi_confmaps *)
(* dimension expressions, names resolved through
     samples, n_inst, n_nodes, _ = points_batch.shape ; w, h = xv.shape[0], yv.shape[0] *)
Inductive mdim := MSamples | MInst | MNodes | MLenXv | MLenYv | MLit (n : nat) | MMul (a b : mdim).
Inductive mref := RAcc | RNew.                      (* cms / cm_instance *)
Inductive marg := MUnsq0 | MRaw | MXv | MYv | MSigma.  (* p.unsqueeze(dim=0), p, xv, yv, sigma *)

(* how the loop variable ranges over the animals:
     points = points_batch.reshape(<shape>)        (pinned tree: all animals of all samples in a row)
     points = points_batch.transpose(<a>, <b>)     (repair of F60: animal slot k of every sample) *)
Inductive mlayout := LReshape (dims : list mdim) | LTranspose (a b : nat).

Record multi_ir := {
  mu_zeros : list mdim;          (* cms = torch.zeros(<shape>, dtype=torch.float32) *)
  mu_points : mlayout;           (* points = points_batch.<layout>; for p in points *)
  mu_call : list marg;           (* cm_instance = make_confmaps(<args>) *)
  mu_comb : mref * mref;         (* cms = torch.maximum(<a>, <b>) *)
  mu_ret : mref                  (* return cms *)
}.

Fixpoint mdim_eqb (a b : mdim) : bool :=
  match a, b with
  | MSamples, MSamples | MInst, MInst | MNodes, MNodes | MLenXv, MLenXv | MLenYv, MLenYv => true
  | MLit n, MLit m => Nat.eqb n m
  | MMul a1 a2, MMul b1 b2 => mdim_eqb a1 b1 && mdim_eqb a2 b2
  | _, _ => false
  end.

Fixpoint mdims_eqb (a b : list mdim) : bool :=
  match a, b with
  | [], [] => true
  | x :: a', y :: b' => mdim_eqb x y && mdims_eqb a' b'
  | _, _ => false
  end.

Definition marg_eqb (a b : marg) : bool :=
  match a, b with
  | MUnsq0, MUnsq0 | MRaw, MRaw | MXv, MXv | MYv, MYv | MSigma, MSigma => true
  | _, _ => false
  end.

Fixpoint margs_eqb (a b : list marg) : bool :=
  match a, b with
  | [], [] => true
  | x :: a', y :: b' => marg_eqb x y && margs_eqb a' b'
  | _, _ => false
  end.

Fixpoint mdim_val (d : mdim) (S I N lx ly : nat) : nat :=
  match d with
  | MSamples => S | MInst => I | MNodes => N | MLenXv => lx | MLenYv => ly
  | MLit n => n
  | MMul a b => (mdim_val a S I N lx ly * mdim_val b S I N lx ly)%nat
  end.

(* torch.zeros of a rank-4 shape *)
Definition zeros4 (d0 d1 d2 d3 : nat) : list (list cmap) :=
  repeat (repeat (repeat (repeat None d3) d2) d1) d0.

(* torch.maximum of a (samples, nodes, h, w) tensor with a (1, nodes, h, w) one:
   the second is broadcast over the samples *)
Definition maximum_bcast (cms new : list (list cmap)) : list (list cmap) :=
  map (fun sm => map2 cmap_max sm (hd [] new)) cms.

(* torch.maximum of two (samples, nodes, h, w) tensors: elementwise, no broadcast *)
Definition maximum_same (cms new : list (list cmap)) : list (list cmap) :=
  map2 (map2 cmap_max) cms new.

(* points_batch.transpose(0, 1) : (n_inst, samples, n_nodes, 2); element k holds
   animal slot k of every sample (a tensor is rectangular: every sample has
   I = n_inst rows; the default [] of nth is never reached on rectangular input) *)
Definition transpose01 (pts : list (list (list kp))) (I : nat) : list (list (list kp)) :=
  map (fun k => map (fun smp => nth k smp []) pts) (seq 0 I).

(* n_nodes is read off the shape of the array in the code and is an explicit
   parameter of the model (a list of lists has no shape when it is empty) *)
Definition denote_multi (ir : multi_ir) (pts : list (list (list kp))) (n_nodes : nat)
  (xv yv : list Q) (sig : Q) : option (list (list cmap)) :=
  let S := length pts in
  let I := length (hd [] pts) in
  match mu_zeros ir with
  | [d0; d1; d2; d3] =>
      let v d := mdim_val d S I n_nodes (length xv) (length yv) in
      let cms0 := zeros4 (v d0) (v d1) (v d2) (v d3) in
      match mu_points ir, mu_comb ir, mu_ret ir with
      | LReshape dims, (RAcc, RNew), RAcc =>
          (* points_batch.reshape(samples * n_inst, n_nodes, 2): the instances of
             all samples in one row-major list; any other shape has no meaning here.
             Each animal's (1, nodes, h, w) map is broadcast over the samples. *)
          if mdims_eqb dims [MMul MSamples MInst; MNodes; MLit 2]
             && margs_eqb (mu_call ir) [MUnsq0; MXv; MYv; MSigma]
          then Some (fold_left (fun cms inst => maximum_bcast cms (make_confmaps [inst] xv yv sig))
                               (concat pts) cms0)
          else None
      | LTranspose 0 1, (RAcc, RNew), RAcc =>
          (* p = animal slot k of every sample, (samples, n_nodes, 2), handed to
             make_confmaps as it is: a (samples, nodes, h, w) map, no broadcast *)
          if margs_eqb (mu_call ir) [MRaw; MXv; MYv; MSigma]
          then Some (fold_left (fun cms p => maximum_same cms (make_confmaps p xv yv sig))
                               (transpose01 pts I) cms0)
          else None
      | _, _, _ => None
      end
  | _ => None
  end.

(* pinned tree (before the repair of F60) *)
Definition canon_multi : multi_ir :=
  {| mu_zeros := [MSamples; MNodes; MLenYv; MLenXv];
     mu_points := LReshape [MMul MSamples MInst; MNodes; MLit 2];
     mu_call := [MUnsq0; MXv; MYv; MSigma];
     mu_comb := (RAcc, RNew);
     mu_ret := RAcc |}.

(* repaired variant (proposed_fixes/C01_F60.diff) *)
Definition canon_multi_fixed : multi_ir :=
  {| mu_zeros := [MSamples; MNodes; MLenYv; MLenXv];
     mu_points := LTranspose 0 1;
     mu_call := [MRaw; MXv; MYv; MSigma];
     mu_comb := (RAcc, RNew);
     mu_ret := RAcc |}.

(* a tensor: every sample has the same number of animal rows *)
Definition rect (pts : list (list (list kp))) : Prop :=
  Forall (fun smp => length smp = length (hd [] pts)) pts.

(* ---------------------------------------------------------------- generate_* *)
Inductive nm := NHeight | NWidth | NStride | NSigma | NXv | NYv | NPoints | NNum.
Inductive sx := SN (n : nm) | SMul (a b : sx).
Inductive sval :=
| SVNat (n : nat) | SVQ (q : Q) | SVVec (l : list Q)
| SVP3 (p : list (list kp)) | SVP4 (p : list (list (list kp))) | SVBad.

Definition nm_eqb (a b : nm) : bool :=
  match a, b with
  | NHeight, NHeight | NWidth, NWidth | NStride, NStride | NSigma, NSigma
  | NXv, NXv | NYv, NYv | NPoints, NPoints | NNum, NNum => true
  | _, _ => false
  end.

Definition env := nm -> sval.
Definition upd (e : env) (n : nm) (v : sval) : env := fun m => if nm_eqb m n then v else e m.
Definition env0 : env := fun _ => SVBad.

Fixpoint sx_val (e : env) (x : sx) : sval :=
  match x with
  | SN n => e n
  | SMul a b =>
      match sx_val e a, sx_val e b with
      | SVQ q, SVNat n => SVQ (q * inject_Z (Z.of_nat n))
      | SVNat n, SVQ q => SVQ (inject_Z (Z.of_nat n) * q)
      | SVNat n, SVNat m => SVNat (n * m)
      | SVQ q, SVQ r => SVQ (q * r)
      | _, _ => SVBad
      end
  end.

(* `height, width = img_hw ; xv, yv = make_grid_vectors(<args>)` *)
Definition bind_grid (e : env) (hw : nm * nm) (h w : nat) (gargs : list sx) (gunpack : nm * nm)
  : option env :=
  let e1 := upd (upd e (fst hw) (SVNat h)) (snd hw) (SVNat w) in
  match map (sx_val e1) gargs with
  | [SVNat a0; SVNat a1; SVNat a2] =>
      let g := make_grid_vectors a0 a1 a2 in
      Some (upd (upd e1 (fst gunpack) (SVVec (fst g))) (snd gunpack) (SVVec (snd g)))
  | _ => None
  end.

(* instance.view(<dims>) *)
Inductive vdim := VShape0 | VNeg1 | VLit (n : nat).
Definition vdim_eqb (a b : vdim) : bool :=
  match a, b with
  | VShape0, VShape0 | VNeg1, VNeg1 => true
  | VLit n, VLit m => Nat.eqb n m
  | _, _ => false
  end.
Fixpoint vdims_eqb (a b : list vdim) : bool :=
  match a, b with
  | [], [] => true
  | x :: a', y :: b' => vdim_eqb x y && vdims_eqb a' b'
  | _, _ => false
  end.

Record genc_ir := {
  gc_keep_rank : nat;            (* `if instance.ndim != <n>:` *)
  gc_view : list vdim;           (*     instance = instance.view(<dims>) *)
  gc_hw : nm * nm;               (* <a>, <b> = img_hw *)
  gc_grid_args : list sx;        (* make_grid_vectors(<args>) *)
  gc_grid_unpack : nm * nm;      (* <a>, <b> = make_grid_vectors(...) *)
  gc_call : list sx              (* return make_confmaps(<args>) *)
}.

Definition denote_genc (ir : genc_ir) (input : sval) (h w : nat) (sigma : Q) (s : nat)
  : option (list (list cmap)) :=
  let flat :=
    match input with
    | SVP3 p => Some p                 (* view(shape[0], -1, 2) of a rank-3 (.., .., 2) array is itself *)
    | SVP4 p => if Nat.eqb 4 (gc_keep_rank ir) then None      (* rank 4 reaches make_confmaps: ValueError *)
                else if vdims_eqb (gc_view ir) [VShape0; VNeg1; VLit 2] then Some (map (@concat kp) p)
                else None
    | _ => None
    end in
  match flat with
  | None => None
  | Some p =>
      let e := upd (upd (upd env0 NPoints (SVP3 p)) NSigma (SVQ sigma)) NStride (SVNat s) in
      match bind_grid e (gc_hw ir) h w (gc_grid_args ir) (gc_grid_unpack ir) with
      | None => None
      | Some e2 =>
          match map (sx_val e2) (gc_call ir) with
          | [SVP3 q; SVVec xv; SVVec yv; SVQ sg] => Some (make_confmaps q xv yv sg)
          | _ => None
          end
      end
  end.

Definition canon_genc : genc_ir :=
  {| gc_keep_rank := 3;
     gc_view := [VShape0; VNeg1; VLit 2];
     gc_hw := (NHeight, NWidth);
     gc_grid_args := [SN NHeight; SN NWidth; SN NStride];
     gc_grid_unpack := (NXv, NYv);
     gc_call := [SN NPoints; SN NXv; SN NYv; SMul (SN NSigma) (SN NStride)] |}.

(* subscripts `instances[:, :num_instances, :]` (+ optional .unsqueeze(dim=d)) *)
Inductive sidx := IAll | IUpTo (n : nm).
Record slice_ir := { sl_index : list sidx; sl_unsq : option Z }.

Record genm_ir := {
  gm_cent : slice_ir;            (* branch `if is_centroids:` *)
  gm_inst : slice_ir;            (* branch `else:` *)
  gm_hw : nm * nm;
  gm_grid_args : list sx;
  gm_grid_unpack : nm * nm;
  gm_call : list sx              (* return make_multi_confmaps(<args>) *)
}.

(* (samples, instances, nodes, 2) array indexed by a 4-subscript *)
Definition slice4 (ix : list sidx) (num : nat) (p : list (list (list kp)))
  : option (list (list (list kp))) :=
  match ix with
  | [IAll; IAll; IAll; IAll] => Some p
  | [IUpTo NNum; IAll; IAll; IAll] => Some (firstn num p)
  | [IAll; IUpTo NNum; IAll; IAll] => Some (map (firstn num) p)
  | [IAll; IAll; IUpTo NNum; IAll] => Some (map (map (firstn num)) p)
  | _ => None
  end.

(* (samples, instances, 2) array indexed by a 3-subscript *)
Definition slice3 (ix : list sidx) (num : nat) (p : list (list kp)) : option (list (list kp)) :=
  match ix with
  | [IAll; IAll; IAll] => Some p
  | [IUpTo NNum; IAll; IAll] => Some (firstn num p)
  | [IAll; IUpTo NNum; IAll] => Some (map (firstn num) p)
  | _ => None
  end.

(* the callee make_multi_confmaps denotes its model function in the variant fx
   (pinned / repaired, see Entry.v);
   input: SVP4 (samples, instances, nodes, 2) when is_centroids = false,
          SVP3 (samples, instances, 2) when is_centroids = true *)
Definition denote_genm (fx : bool) (ir : genm_ir) (is_centroids : bool) (input : sval) (n_nodes : nat)
  (h w num : nat) (sigma : Q) (s : nat) : option (list (list cmap)) :=
  let points :=
    match is_centroids, input with
    | true, SVP3 c =>
        match slice3 (sl_index (gm_cent ir)) num c, sl_unsq (gm_cent ir) with
        | Some c', Some (-2)%Z => Some (map (map (fun q => [q])) c', 1%nat)   (* (S, I, 1, 2) *)
        | _, _ => None
        end
    | false, SVP4 p =>
        match slice4 (sl_index (gm_inst ir)) num p, sl_unsq (gm_inst ir) with
        | Some p', None => Some (p', n_nodes)
        | _, _ => None
        end
    | _, _ => None
    end in
  match points with
  | None => None
  | Some (p, nn) =>
      let e := upd (upd (upd env0 NPoints (SVP4 p)) NSigma (SVQ sigma)) NStride (SVNat s) in
      match bind_grid e (gm_hw ir) h w (gm_grid_args ir) (gm_grid_unpack ir) with
      | None => None
      | Some e2 =>
          match map (sx_val e2) (gm_call ir) with
          | [SVP4 q; SVVec xv; SVVec yv; SVQ sg] => Some (mmc fx q nn xv yv sg)
          | _ => None
          end
      end
  end.

Definition canon_genm : genm_ir :=
  {| gm_cent := {| sl_index := [IAll; IUpTo NNum; IAll]; sl_unsq := Some (-2)%Z |};
     gm_inst := {| sl_index := [IAll; IUpTo NNum; IAll; IAll]; sl_unsq := None |};
     gm_hw := (NHeight, NWidth);
     gm_grid_args := [SN NHeight; SN NWidth; SN NStride];
     gm_grid_unpack := (NXv, NYv);
     gm_call := [SN NPoints; SN NXv; SN NYv; SMul (SN NSigma) (SN NStride)] |}.
