(* Lemmas3.v (C01) — round-4 proofs (review notes/review/C01.md):
   (A) the repaired loop of make_multi_confmaps (transpose(0,1), no broadcast)
       denotes the per-sample model function;
   (B) PER-SAMPLE value formula of make_multi_confmaps / generate_multiconfmaps /
       the centroid variant in both variants of the code (fx = false: pinned
       tree, before the repair of F60; fx = true: repaired), the exact selector of
       F60, its refutation witness;
   (C) per-sample zero channel, range, padding;
   (D) end-to-end shapes;
   (E) "largest at the nearest cell" on the outputs (single visible contributor),
       weak, strict, and "= 1 iff on the keypoint". *)
From Coq Require Import List Arith ZArith QArith Qreals Reals Lra Lia Psatz Bool.
Import ListNotations.
From SV Require Import C01.ConfMaps C01.Lemmas C01.Entry C01.TExpr C01.Lemmas2.

Local Open Scope R_scope.

(* ================================================================= (A) *)

Lemma map2_map_r {A B B' C} (g : A -> B -> C) (h : B' -> B) l m :
  map2 g l (map h m) = map2 (fun a b => g a (h b)) l m.
Proof.
  revert m. induction l as [|a l IH]; intros m; destruct m as [|b m]; simpl; try reflexivity.
  rewrite IH. reflexivity.
Qed.

Lemma map2_map2_l {A B C} (g : C -> B -> C) (h : A -> B -> C) l m :
  map2 g (map2 h l m) m = map2 (fun a b => g (h a b) b) l m.
Proof.
  revert m. induction l as [|a l IH]; intros m; destruct m as [|b m]; simpl; try reflexivity.
  rewrite IH. reflexivity.
Qed.

Lemma map2_fst_id {A B} (l : list A) (m : list B) :
  length l = length m -> map2 (fun a _ => a) l m = l.
Proof.
  revert m. induction l as [|a l IH]; intros m Hl; destruct m as [|b m]; simpl in *; try discriminate;
    [reflexivity|]. rewrite IH by lia. reflexivity.
Qed.

Lemma map2_ext_in {A B C} (g1 g2 : A -> B -> C) l m :
  Forall (fun b => forall a, g1 a b = g2 a b) m -> map2 g1 l m = map2 g2 l m.
Proof.
  revert l. induction m as [|b m IH]; intros l Hall; destruct l as [|a l]; simpl; try reflexivity.
  inversion Hall; subst. rewrite IH by assumption. f_equal. auto.
Qed.

Lemma map2_repeat_l {A B C} (g : A -> B -> C) a (m : list B) :
  map2 g (repeat a (length m)) m = map (g a) m.
Proof. induction m as [|b m IH]; simpl; [reflexivity|]. rewrite IH. reflexivity. Qed.

Lemma fold_left_map' {A B C} (g : A -> B -> A) (h : C -> B) l a :
  fold_left g (map h l) a = fold_left (fun a x => g a (h x)) l a.
Proof. revert a. induction l as [|x l IH]; intros a; simpl; [reflexivity|]. apply IH. Qed.

Lemma fold_left_ext_eq {A B} (f g : A -> B -> A) l a :
  (forall a x, f a x = g a x) -> fold_left f l a = fold_left g l a.
Proof. intros H. revert a. induction l as [|x l IH]; intros a; simpl; [reflexivity|]. rewrite H. apply IH. Qed.

Lemma map_nth_seq {A} (l : list A) d : map (fun k => nth k l d) (seq 0 (length l)) = l.
Proof.
  induction l as [|a l IH]; simpl; [reflexivity|].
  f_equal. rewrite <- seq_shift, map_map. exact IH.
Qed.

(* a fold over animal slots of a (map2 over samples) is the (map2 over samples)
   of the folds over each sample's slots *)
Lemma fold_slots {A} (f : A -> list kp -> A) (pts : list (list (list kp))) ks :
  forall cms, length cms = length pts ->
  fold_left (fun cms k => map2 f cms (map (fun smp => nth k smp []) pts)) ks cms =
  map2 (fun c smp => fold_left (fun acc k => f acc (nth k smp [])) ks c) cms pts.
Proof.
  induction ks as [|k ks IH]; intros cms Hl; simpl.
  - symmetry. apply map2_fst_id. exact Hl.
  - rewrite IH.
    + rewrite map2_map_r. rewrite map2_map2_l. reflexivity.
    + rewrite map2_length, map_length, Hl. apply Nat.min_id.
Qed.

(* the repaired loop: for p in points_batch.transpose(0, 1):
     cms = maximum(cms, make_confmaps(p, xv, yv, sigma))
   is the per-sample model function, on every rectangular array *)
Theorem denote_multi_canon_fixed pts n_nodes xv yv sig :
  rect pts ->
  denote_multi canon_multi_fixed pts n_nodes xv yv sig = Some (make_multi_confmaps_ps pts n_nodes xv yv sig).
Proof.
  intros Hrect.
  unfold denote_multi, canon_multi_fixed, make_multi_confmaps_ps, multi_one, zeros4, maximum_same,
    make_confmaps, zero_map, transpose01.
  cbn [mu_zeros mu_points mu_call mu_comb mu_ret margs_eqb marg_eqb andb mdim_val].
  f_equal.
  set (f := fun (acc : list cmap) (inst : list kp) => map2 cmap_max acc (map (chan sig xv yv) inst)).
  set (z := repeat (repeat (repeat None (length xv)) (length yv)) n_nodes).
  rewrite fold_left_map'.
  transitivity (fold_left (fun cms k => map2 f cms (map (fun smp => nth k smp []) pts))
                          (seq 0 (length (hd [] pts))) (repeat z (length pts))).
  { apply fold_left_ext_eq. intros cms k. unfold f. apply map2_map_r. }
  rewrite fold_slots by apply repeat_length.
  rewrite (map2_ext_in _ (fun c smp => fold_left f smp c)).
  - apply map2_repeat_l.
  - eapply Forall_impl; [|exact Hrect]. intros smp Hlen c. cbv beta in *.
    rewrite <- Hlen. rewrite <- (fold_left_map' f (fun k => nth k smp [])). rewrite map_nth_seq. reflexivity.
Qed.

(* with one sample the two variants are the same function *)
Lemma mmc_one_sample fx insts n_nodes xv yv sig :
  mmc fx [insts] n_nodes xv yv sig = make_multi_confmaps [insts] n_nodes xv yv sig.
Proof.
  destruct fx; [|reflexivity]. unfold mmc, make_multi_confmaps_ps, make_multi_confmaps, multi_one.
  simpl. rewrite app_nil_r. reflexivity.
Qed.

(* ================================================================= (B) *)

Lemma Forall_concat_nth {A} (P : A -> Prop) (pts : list (list A)) smp l :
  Forall P (concat pts) -> nth_error pts smp = Some l -> Forall P l.
Proof.
  intros Hall Hn. apply Forall_forall. intros a Ha. rewrite Forall_forall in Hall. apply Hall.
  apply in_concat. exists l. split; [eapply nth_error_In; exact Hn | exact Ha].
Qed.

Lemma multi_one_cell insts n_nodes xv yv sig c i j x y :
  (0 < sig)%Q -> nth_error yv i = Some y -> nth_error xv j = Some x -> (c < n_nodes)%nat ->
  Forall (fun inst => length inst = n_nodes) insts ->
  exists a,
    (match nth_error (multi_one insts n_nodes xv yv sig) c with Some m => cell m i j | None => None end) = Some a /\
    val a = Rmax_list (map (fun inst => gauss_spec (nth c inst None) (Q2R x) (Q2R y) (Q2R sig)) insts).
Proof.
  intros Hs Hy Hx Hc Hall. unfold multi_one. eexists. split.
  - apply (multi_fold_cell sig xv yv insts n_nodes c i j x y Hy Hx Hc Hall).
    + apply repeat_length.
    + rewrite (nth_error_nth' _ (zero_map (length xv) (length yv))) by (rewrite repeat_length; exact Hc).
      rewrite nth_repeat. apply zero_map_cell; apply nth_error_Some; congruence.
  - rewrite multi_cell_is_max by exact Hs. rewrite map_map. reflexivity.
Qed.

Lemma split_at_nth {A} (pts : list A) smp a :
  nth_error pts smp = Some a -> pts = firstn smp pts ++ a :: skipn (S smp) pts.
Proof.
  revert smp. induction pts as [|b pts IH]; intros smp Hn; destruct smp; simpl in *; try discriminate.
  - inversion Hn. reflexivity.
  - f_equal. apply IH. exact Hn.
Qed.

Lemma Rmax_list_others (g : list kp -> R) (pts : list (list (list kp))) smp insts :
  (forall inst, 0 <= g inst) ->
  nth_error pts smp = Some insts ->
  Forall (fun inst => g inst = 0) (other_samples pts smp) ->
  Rmax_list (map g (concat pts)) = Rmax_list (map g insts).
Proof.
  intros Hg Hn Hz. rewrite (split_at_nth pts smp insts Hn) at 1.
  unfold other_samples in Hz. rewrite concat_app in *. rewrite concat_cons. rewrite !map_app, !Rmax_list_app.
  apply Forall_app in Hz. destruct Hz as [H1 H2].
  assert (Hz : forall l, Forall (fun inst => g inst = 0) l -> Rmax_list (map g l) = 0).
  { intros l Hl. apply Rmax_list_zeros. apply Forall_forall. intros v Hin. apply in_map_iff in Hin.
    destruct Hin as [inst [<- Hin]]. rewrite Forall_forall in Hl. apply Hl. exact Hin. }
  assert (H1' : Rmax_list (map g (concat (firstn smp pts))) = 0).
  { apply Hz. exact H1. }
  assert (H2' : Rmax_list (map g (concat (skipn (S smp) pts))) = 0).
  { apply Hz. exact H2. }
  rewrite H1', H2'.
  pose proof (Rmax_list_nonneg (map g insts)) as Hn0.
  rewrite (Rmax_left _ 0) by exact Hn0. rewrite Rmax_right by exact Hn0. reflexivity.
Qed.

Lemma others_contribute_false pts smp c :
  others_contribute pts smp c = false ->
  Forall (fun inst => nth c inst None = None) (other_samples pts smp).
Proof.
  unfold others_contribute. intros He. apply Forall_forall. intros inst Hin.
  destruct (nth c inst None) as [q|] eqn:En; [|reflexivity].
  exfalso. assert (Ht : existsb (fun inst => kp_visible (nth c inst None)) (other_samples pts smp) = true).
  { apply existsb_exists. exists inst. split; [exact Hin|]. unfold kp in *. rewrite En. reflexivity. }
  congruence.
Qed.

(* THE per-sample statement, on whatever grid vectors: cell (i,j) of channel c of
   sample smp is the maximum over the animals OF THAT SAMPLE.  Holds of the
   repaired variant always, of the pinned variant exactly outside the selector
   of F60 (no animal of another sample has node c labelled; in particular for
   one sample) *)
Theorem mmc_cell_per_sample fx pts n_nodes xv yv sig smp insts c i j x y :
  (0 < sig)%Q -> nth_error yv i = Some y -> nth_error xv j = Some x ->
  (c < n_nodes)%nat -> nth_error pts smp = Some insts ->
  Forall (fun inst => length inst = n_nodes) (concat pts) ->
  fx = true \/ others_contribute pts smp c = false ->
  exists a,
    cell4 (mmc fx pts n_nodes xv yv sig) smp c i j = Some a /\
    val a = Rmax_list (map (fun inst => gauss_spec (nth c inst None) (Q2R x) (Q2R y) (Q2R sig)) insts).
Proof.
  intros Hs Hy Hx Hc Hn Hall Hsel. destruct fx.
  - unfold cell4, mmc, make_multi_confmaps_ps. rewrite nth_error_map, Hn. simpl.
    apply multi_one_cell; try assumption. eapply Forall_concat_nth; eassumption.
  - destruct Hsel as [Hf|Hsel]; [discriminate|]. unfold mmc.
    assert (Hlt : (smp < length pts)%nat) by (apply nth_error_Some; congruence).
    destruct (multi_confmaps_cell pts n_nodes xv yv sig smp c i j x y Hs Hy Hx Hc Hlt Hall) as [a [Ha Hv]].
    exists a. split; [exact Ha|]. rewrite Hv.
    apply (Rmax_list_others (fun inst => gauss_spec (nth c inst None) (Q2R x) (Q2R y) (Q2R sig)) pts smp insts).
    + intros inst. apply gauss_spec_nonneg.
    + exact Hn.
    + eapply Forall_impl; [|apply others_contribute_false; exact Hsel].
      intros inst Hm. cbv beta in *. unfold kp in *. rewrite Hm. reflexivity.
Qed.

Lemma length_one_others {A} (pts : list (list A)) smp : length pts = 1%nat -> (smp < length pts)%nat ->
  other_samples pts smp = [].
Proof.
  destruct pts as [|a [|b t]]; simpl; intros Hl Hs; try discriminate; try lia.
  assert (smp = 0%nat) by lia. subst. reflexivity.
Qed.

Lemma one_sample_not_selected pts smp c :
  length pts = 1%nat -> (smp < length pts)%nat -> others_contribute pts smp c = false.
Proof. intros Hl Hs. unfold others_contribute. rewrite length_one_others by assumption. reflexivity. Qed.

(* generate_multiconfmaps end to end, per sample *)
Theorem generate_multiconfmaps_cell_per_sample fx pts n_nodes H W num sigma s smp insts c i j :
  (0 < s)%nat -> (0 < sigma)%Q ->
  (i * s < H)%nat -> (j * s < W)%nat -> (c < n_nodes)%nat -> nth_error pts smp = Some insts ->
  Forall (fun inst => length inst = n_nodes) (concat pts) ->
  fx = true \/ others_contribute (map (firstn num) pts) smp c = false ->
  exists a,
    cell4 (generate_multiconfmaps_v fx pts n_nodes H W num sigma s) smp c i j = Some a /\
    val a = Rmax_list (map (fun inst => gauss_spec (nth c inst None) (INR (j * s)) (INR (i * s))
                                                   (Q2R sigma * INR s))
                           (firstn num insts)).
Proof.
  intros Hs Hsig Hi Hj Hc Hn Hall Hsel. unfold generate_multiconfmaps_v, stride_sigma.
  destruct (mmc_cell_per_sample fx (map (firstn num) pts) n_nodes (grid W s) (grid H s)
              (sigma * inject_Z (Z.of_nat s)) smp (firstn num insts) c i j
              (inject_Z (Z.of_nat (j * s))) (inject_Z (Z.of_nat (i * s)))) as [a [Ha Hv]].
  - apply stride_sigma_pos; assumption.
  - apply grid_nth; assumption.
  - apply grid_nth; assumption.
  - exact Hc.
  - rewrite nth_error_map, Hn. reflexivity.
  - apply Forall_concat_firstn. exact Hall.
  - exact Hsel.
  - exists a. split; [exact Ha|]. rewrite Hv. rewrite Q2R_mult, !Q2R_inject_nat. reflexivity.
Qed.

Lemma cent_pts_uniform cents num : Forall (fun inst : list kp => length inst = 1%nat) (concat (cent_pts cents num)).
Proof.
  unfold cent_pts. apply Forall_forall. intros inst Hin. apply in_concat in Hin.
  destruct Hin as [l [Hl Hin]]. apply in_map_iff in Hl. destruct Hl as [cl [<- _]].
  apply in_map_iff in Hin. destruct Hin as [q [<- _]]. reflexivity.
Qed.

(* centroid variant, per sample: one channel, maximum over the first
   num_instances centroids of that sample *)
Theorem generate_multiconfmaps_centroids_cell_per_sample fx cents H W num sigma s smp cl i j :
  (0 < s)%nat -> (0 < sigma)%Q ->
  (i * s < H)%nat -> (j * s < W)%nat -> nth_error cents smp = Some cl ->
  fx = true \/ others_contribute (cent_pts cents num) smp 0 = false ->
  exists a,
    cell4 (generate_multiconfmaps_centroids_v fx cents H W num sigma s) smp 0 i j = Some a /\
    val a = Rmax_list (map (fun c => gauss_spec c (INR (j * s)) (INR (i * s)) (Q2R sigma * INR s))
                           (firstn num cl)).
Proof.
  intros Hs Hsig Hi Hj Hn Hsel. unfold generate_multiconfmaps_centroids_v, stride_sigma.
  destruct (mmc_cell_per_sample fx (cent_pts cents num) 1 (grid W s) (grid H s)
              (sigma * inject_Z (Z.of_nat s)) smp (map (fun c => [c]) (firstn num cl)) 0 i j
              (inject_Z (Z.of_nat (j * s))) (inject_Z (Z.of_nat (i * s)))) as [a [Ha Hv]].
  - apply stride_sigma_pos; assumption.
  - apply grid_nth; assumption.
  - apply grid_nth; assumption.
  - lia.
  - unfold cent_pts. rewrite nth_error_map, Hn. reflexivity.
  - apply cent_pts_uniform.
  - exact Hsel.
  - exists a. split; [exact Ha|]. rewrite Hv, map_map. rewrite Q2R_mult, !Q2R_inject_nat. reflexivity.
Qed.

(* refutation of the per-sample statement for the pinned variant: two samples,
   one node, sample 0 has a keypoint on grid cell (1,1), sample 1 has none; the
   map of sample 1 is 1 at that cell instead of 0 *)
Definition f60_pts : list (list (list kp)) := [[[Some (2#1, 2#1)]]; [[None]]].

Lemma f60_selected : others_contribute (map (firstn 1) f60_pts) 1 0 = true.
Proof. reflexivity. Qed.

Theorem generate_multiconfmaps_per_sample_refuted :
  exists pts n_nodes H W num sigma s smp insts c i j,
    (0 < s)%nat /\ (0 < sigma)%Q /\ (i * s < H)%nat /\ (j * s < W)%nat /\ (c < n_nodes)%nat /\
    nth_error pts smp = Some insts /\
    Forall (fun inst => length inst = n_nodes) (concat pts) /\
    others_contribute (map (firstn num) pts) smp c = true /\
    exists a,
      cell4 (generate_multiconfmaps_v false pts n_nodes H W num sigma s) smp c i j = Some a /\
      val a <> Rmax_list (map (fun inst => gauss_spec (nth c inst None) (INR (j * s)) (INR (i * s))
                                                      (Q2R sigma * INR s))
                              (firstn num insts)).
Proof.
  exists f60_pts, 1%nat, 4%nat, 4%nat, 1%nat, (3#2)%Q, 2%nat, 1%nat, [[None]], 0%nat, 1%nat, 1%nat.
  repeat (split; [first [lia | reflexivity | (repeat constructor)]|]).
  exists (Some (0 # 72)%Q). split; [vm_compute; reflexivity|].
  cbn [firstn map nth gauss_spec Rmax_list val].
  replace (Q2R (0 # 72)) with 0 by (unfold Q2R; simpl; lra).
  rewrite exp_0. rewrite Rmax_left by lra. lra.
Qed.

(* ================================================================= (C) *)

Theorem mmc_range fx pts n_nodes xv yv sig smp c i j x y :
  (0 < sig)%Q -> nth_error yv i = Some y -> nth_error xv j = Some x ->
  (c < n_nodes)%nat -> (smp < length pts)%nat ->
  Forall (fun inst => length inst = n_nodes) (concat pts) ->
  exists a, cell4 (mmc fx pts n_nodes xv yv sig) smp c i j = Some a /\ 0 <= val a <= 1.
Proof.
  intros Hs Hy Hx Hc Hsmp Hall. destruct fx.
  - destruct (nth_error pts smp) as [insts|] eqn:Hn; [|apply nth_error_None in Hn; lia].
    destruct (mmc_cell_per_sample true pts n_nodes xv yv sig smp insts c i j x y Hs Hy Hx Hc Hn Hall
                (or_introl eq_refl)) as [a [Ha Hv]].
    exists a. split; [exact Ha|]. rewrite Hv.
    apply (Rmax_list_gauss_range (fun inst => nth c inst None)).
    apply Qlt_Rlt in Hs. rewrite Q2R_0 in Hs. lra.
  - apply (multi_confmaps_range pts n_nodes xv yv sig smp c i j x y); assumption.
Qed.

(* a node that no animal OF THE SAMPLE has labelled gives an all-zero channel of
   that sample (repaired variant: always; pinned: outside the selector) *)
Theorem mmc_missing_channel_zero fx pts n_nodes xv yv sig smp insts c i j x y :
  (0 < sig)%Q -> nth_error yv i = Some y -> nth_error xv j = Some x ->
  (c < n_nodes)%nat -> nth_error pts smp = Some insts ->
  Forall (fun inst => length inst = n_nodes) (concat pts) ->
  fx = true \/ others_contribute pts smp c = false ->
  Forall (fun inst => nth c inst None = None) insts ->
  exists a, cell4 (mmc fx pts n_nodes xv yv sig) smp c i j = Some a /\ val a = 0.
Proof.
  intros Hs Hy Hx Hc Hn Hall Hsel Hmiss.
  destruct (mmc_cell_per_sample fx pts n_nodes xv yv sig smp insts c i j x y Hs Hy Hx Hc Hn Hall Hsel)
    as [a [Ha Hv]].
  exists a. split; [exact Ha|]. rewrite Hv. apply Rmax_list_zeros.
  apply Forall_forall. intros v Hin. apply in_map_iff in Hin. destruct Hin as [inst [<- Hin]].
  rewrite Forall_forall in Hmiss. unfold kp in *. rewrite (Hmiss inst Hin). reflexivity.
Qed.

(* the multi-instance DataPipe (no slice), per sample: equals the maximum over
   the first num animals of the sample when the rows beyond num are unlabelled *)
Lemma Rmax_list_firstn_padding (g : list kp -> R) num (insts : list (list kp)) :
  (forall inst, 0 <= g inst) ->
  Forall (fun inst => g inst = 0) (skipn num insts) ->
  Rmax_list (map g insts) = Rmax_list (map g (firstn num insts)).
Proof.
  intros Hg Hpad. rewrite <- (firstn_skipn num insts) at 1. rewrite map_app, Rmax_list_app.
  rewrite (Rmax_list_zeros (map g (skipn num insts))).
  - apply Rmax_left. apply Rmax_list_nonneg.
  - apply Forall_forall. intros v Hin. apply in_map_iff in Hin. destruct Hin as [inst [<- Hin]].
    rewrite Forall_forall in Hpad. apply Hpad. exact Hin.
Qed.

Theorem dp_multi_cell_per_sample fx pts n_nodes H W num sigma s smp insts c i j :
  (0 < s)%nat -> (0 < sigma)%Q ->
  (i * s < H)%nat -> (j * s < W)%nat -> (c < n_nodes)%nat -> nth_error pts smp = Some insts ->
  Forall (fun inst => length inst = n_nodes) (concat pts) ->
  fx = true \/ others_contribute pts smp c = false ->
  Forall (fun inst => nth c inst None = None) (skipn num insts) ->
  exists a,
    cell4 (dp_multi_v fx pts n_nodes H W sigma s) smp c i j = Some a /\
    val a = Rmax_list (map (fun inst => gauss_spec (nth c inst None) (INR (j * s)) (INR (i * s))
                                                   (Q2R sigma * INR s))
                           (firstn num insts)).
Proof.
  intros Hs Hsig Hi Hj Hc Hn Hall Hsel Hpad. unfold dp_multi_v, make_grid_vectors, stride_sigma. cbn [fst snd].
  destruct (mmc_cell_per_sample fx pts n_nodes (grid W s) (grid H s)
              (sigma * inject_Z (Z.of_nat s)) smp insts c i j
              (inject_Z (Z.of_nat (j * s))) (inject_Z (Z.of_nat (i * s)))) as [a [Ha Hv]]; try assumption.
  - apply stride_sigma_pos; assumption.
  - apply grid_nth; assumption.
  - apply grid_nth; assumption.
  - exists a. split; [exact Ha|]. rewrite Hv. rewrite Q2R_mult, !Q2R_inject_nat.
    apply (Rmax_list_firstn_padding
             (fun inst => gauss_spec (nth c inst None) (INR (j * s)) (INR (i * s)) (Q2R sigma * INR s))).
    + intros inst. apply gauss_spec_nonneg.
    + eapply Forall_impl; [|exact Hpad]. intros inst Hm. cbv beta in *. unfold kp in *. rewrite Hm. reflexivity.
Qed.

(* ================================================================= (D) shapes *)

Definition out_shape (S C h w : nat) (out : list (list cmap)) : Prop :=
  length out = S /\ Forall (fun chans => length chans = C /\ Forall (cmap_shape h w) chans) out.

Lemma make_multi_confmaps_ps_shape pts n_nodes xv yv sig :
  Forall (fun inst => length inst = n_nodes) (concat pts) ->
  out_shape (length pts) n_nodes (length yv) (length xv) (make_multi_confmaps_ps pts n_nodes xv yv sig).
Proof.
  intros Hall. unfold out_shape, make_multi_confmaps_ps. split; [apply map_length|].
  apply Forall_forall. intros chans Hin. apply in_map_iff in Hin. destruct Hin as [insts [<- Hin]].
  apply In_nth_error in Hin. destruct Hin as [smp Hn].
  apply (multi_fold_shape sig xv yv n_nodes insts).
  - eapply Forall_concat_nth; eassumption.
  - split; [apply repeat_length|].
    apply Forall_forall. intros m Hm. apply repeat_spec in Hm. subst. apply zero_map_shape.
Qed.

Lemma mmc_shape fx pts n_nodes xv yv sig :
  Forall (fun inst => length inst = n_nodes) (concat pts) ->
  out_shape (length pts) n_nodes (length yv) (length xv) (mmc fx pts n_nodes xv yv sig).
Proof.
  intros Hall. destruct fx; [apply make_multi_confmaps_ps_shape; exact Hall|].
  apply make_multi_confmaps_shape. exact Hall.
Qed.

(* generate_multiconfmaps: (samples, n_nodes, ceil(H/s), ceil(W/s)) *)
Theorem generate_multiconfmaps_shape fx pts n_nodes H W num sigma s :
  Forall (fun inst => length inst = n_nodes) (concat pts) ->
  out_shape (length pts) n_nodes (ceil_div H s) (ceil_div W s)
            (generate_multiconfmaps_v fx pts n_nodes H W num sigma s).
Proof.
  intros Hall. unfold generate_multiconfmaps_v.
  pose proof (mmc_shape fx (map (firstn num) pts) n_nodes (grid W s) (grid H s) (stride_sigma sigma s)
                (Forall_concat_firstn _ num pts Hall)) as Hsh.
  rewrite map_length, !grid_length in Hsh. exact Hsh.
Qed.

(* centroid variant: exactly ONE channel *)
Theorem generate_multiconfmaps_centroids_shape fx cents H W num sigma s :
  out_shape (length cents) 1 (ceil_div H s) (ceil_div W s)
            (generate_multiconfmaps_centroids_v fx cents H W num sigma s).
Proof.
  unfold generate_multiconfmaps_centroids_v.
  pose proof (mmc_shape fx (cent_pts cents num) 1 (grid W s) (grid H s) (stride_sigma sigma s)
                (cent_pts_uniform cents num)) as Hsh.
  unfold cent_pts in Hsh at 1. rewrite map_length, !grid_length in Hsh. exact Hsh.
Qed.

Lemma length_concat_uniform {A} (ll : list (list A)) n :
  Forall (fun l => length l = n) ll -> length (concat ll) = (length ll * n)%nat.
Proof.
  induction 1 as [|l ll Hl Ht IH]; simpl; [reflexivity|]. rewrite app_length, IH, Hl. reflexivity.
Qed.

(* rank-4 generate_confmaps: n_inst * n_nodes channels *)
Theorem generate_confmaps4_shape pts H W sigma s :
  length (generate_confmaps4 pts H W sigma s) = length pts /\
  forall smp insts n_nodes, nth_error pts smp = Some insts ->
    Forall (fun l => length l = n_nodes) insts ->
    exists chans, nth_error (generate_confmaps4 pts H W sigma s) smp = Some chans /\
      length chans = (length insts * n_nodes)%nat /\
      Forall (cmap_shape (ceil_div H s) (ceil_div W s)) chans.
Proof.
  unfold generate_confmaps4.
  destruct (generate_confmaps3_shape (map (@concat kp) pts) H W sigma s) as [Hl Hs].
  split; [rewrite Hl; apply map_length|].
  intros smp insts n_nodes Hn Hall.
  destruct (Hs smp (concat insts)) as [chans [Hc [Hlen Hsh]]].
  - rewrite nth_error_map, Hn. reflexivity.
  - exists chans. split; [exact Hc|]. split; [|exact Hsh].
    rewrite Hlen. apply length_concat_uniform. exact Hall.
Qed.

(* ================================================================= (E) nearest cell *)

(* consequences of "the cell holds the bump of keypoint q" for two cells *)
Lemma bump_order q sg x y x' y' (v v' : R) :
  sg <> 0 ->
  v = gauss_spec (Some q) x y sg -> v' = gauss_spec (Some q) x' y' sg ->
  (dist2 q x y <= dist2 q x' y' -> v' <= v) /\
  (dist2 q x y < dist2 q x' y' -> v' < v) /\
  (v = 1 <-> dist2 q x y = 0).
Proof.
  intros Hs -> ->. split; [|split].
  - apply gauss_spec_monotone. exact Hs.
  - apply gauss_spec_strict. exact Hs.
  - apply gauss_spec_one_iff. exact Hs.
Qed.

Lemma stride_sigma_R_nonzero sigma s : (0 < s)%nat -> (0 < sigma)%Q -> Q2R sigma * INR s <> 0.
Proof.
  intros Hs Hsig. apply Qlt_Rlt in Hsig. rewrite Q2R_0 in Hsig.
  assert (0 < INR s) by (apply lt_0_INR; exact Hs). nra.
Qed.

(* generate_confmaps (rank 3): weak, strict, and "= 1 iff on the keypoint", on the output *)
Theorem generate_confmaps3_nearest_strict pts H W sigma s smp nodes c q i j i' j' :
  (0 < s)%nat -> (0 < sigma)%Q ->
  nth_error pts smp = Some nodes -> nth_error nodes c = Some (Some q) ->
  (i * s < H)%nat -> (j * s < W)%nat -> (i' * s < H)%nat -> (j' * s < W)%nat ->
  exists a a',
    cell4 (generate_confmaps3 pts H W sigma s) smp c i j = Some a /\
    cell4 (generate_confmaps3 pts H W sigma s) smp c i' j' = Some a' /\
    (dist2 q (INR (j * s)) (INR (i * s)) <= dist2 q (INR (j' * s)) (INR (i' * s)) -> val a' <= val a) /\
    (dist2 q (INR (j * s)) (INR (i * s)) < dist2 q (INR (j' * s)) (INR (i' * s)) -> val a' < val a) /\
    (val a = 1 <-> dist2 q (INR (j * s)) (INR (i * s)) = 0).
Proof.
  intros Hs Hsig Hsmp Hc Hi Hj Hi' Hj'.
  destruct (generate_confmaps3_cell pts H W sigma s smp nodes c (Some q) i j Hs Hsig Hsmp Hc Hi Hj) as [a [Ha Hv]].
  destruct (generate_confmaps3_cell pts H W sigma s smp nodes c (Some q) i' j' Hs Hsig Hsmp Hc Hi' Hj') as [a' [Ha' Hv']].
  exists a, a'. split; [exact Ha|]. split; [exact Ha'|].
  apply (bump_order q (Q2R sigma * INR s)); [apply stride_sigma_R_nonzero; assumption | exact Hv | exact Hv'].
Qed.

(* every contributor's bump is below the maximum *)
Lemma Rmax_list_ge_in (g : list kp -> R) l inst : In inst l -> g inst <= Rmax_list (map g l).
Proof.
  induction l as [|a l IH]; intros Hin; [inversion Hin|]. simpl.
  destruct Hin as [->|Hin]; [apply Rmax_l|]. eapply Rle_trans; [apply IH; exact Hin|apply Rmax_r].
Qed.

(* exactly one visible contributor: the maximum is its bump *)
Lemma Rmax_list_single (g : list kp -> R) l1 inst0 l2 :
  (forall inst, 0 <= g inst) ->
  Forall (fun inst => g inst = 0) l1 -> Forall (fun inst => g inst = 0) l2 ->
  Rmax_list (map g (l1 ++ inst0 :: l2)) = g inst0.
Proof.
  intros Hg H1 H2. rewrite map_app, Rmax_list_app. simpl.
  assert (Hz : forall l, Forall (fun inst => g inst = 0) l -> Rmax_list (map g l) = 0).
  { intros l Hl. apply Rmax_list_zeros. apply Forall_forall. intros v Hin. apply in_map_iff in Hin.
    destruct Hin as [inst [<- Hin]]. rewrite Forall_forall in Hl. apply Hl. exact Hin. }
  rewrite (Hz l1 H1), (Hz l2 H2). rewrite (Rmax_left (g inst0) 0) by apply Hg.
  apply Rmax_right. apply Hg.
Qed.

(* the sample's contributors to channel c: exactly one (inst0) has node c labelled *)
Definition single_contributor (contributors : list (list kp)) (c : nat) (q : Q * Q) : Prop :=
  exists l1 inst0 l2, contributors = l1 ++ inst0 :: l2 /\ nth c inst0 None = Some q /\
    Forall (fun inst => nth c inst None = None) l1 /\ Forall (fun inst => nth c inst None = None) l2.

Lemma single_contributor_max contributors c q x y sg :
  single_contributor contributors c q ->
  Rmax_list (map (fun inst => gauss_spec (nth c inst None) x y sg) contributors) = gauss_spec (Some q) x y sg.
Proof.
  intros [l1 [inst0 [l2 [-> [Hq [H1 H2]]]]]].
  rewrite (Rmax_list_single (fun inst => gauss_spec (nth c inst None) x y sg)).
  - unfold kp in *. rewrite Hq. reflexivity.
  - intros inst. apply gauss_spec_nonneg.
  - eapply Forall_impl; [|exact H1]. intros inst Hm. cbv beta in *. unfold kp in *. rewrite Hm. reflexivity.
  - eapply Forall_impl; [|exact H2]. intros inst Hm. cbv beta in *. unfold kp in *. rewrite Hm. reflexivity.
Qed.

(* generate_multiconfmaps: (i) every contributor's bump is below the cell value;
   (ii) with a single visible contributor the channel is its bump: largest at the
   nearest cell (weak / strict), equal to 1 exactly on the keypoint *)
Theorem generate_multiconfmaps_ge_each fx pts n_nodes H W num sigma s smp insts c i j inst :
  (0 < s)%nat -> (0 < sigma)%Q ->
  (i * s < H)%nat -> (j * s < W)%nat -> (c < n_nodes)%nat -> nth_error pts smp = Some insts ->
  Forall (fun inst => length inst = n_nodes) (concat pts) ->
  fx = true \/ others_contribute (map (firstn num) pts) smp c = false ->
  In inst (firstn num insts) ->
  exists a,
    cell4 (generate_multiconfmaps_v fx pts n_nodes H W num sigma s) smp c i j = Some a /\
    gauss_spec (nth c inst None) (INR (j * s)) (INR (i * s)) (Q2R sigma * INR s) <= val a.
Proof.
  intros Hs Hsig Hi Hj Hc Hn Hall Hsel Hin.
  destruct (generate_multiconfmaps_cell_per_sample fx pts n_nodes H W num sigma s smp insts c i j
              Hs Hsig Hi Hj Hc Hn Hall Hsel) as [a [Ha Hv]].
  exists a. split; [exact Ha|]. rewrite Hv.
  apply (Rmax_list_ge_in (fun inst => gauss_spec (nth c inst None) (INR (j * s)) (INR (i * s)) (Q2R sigma * INR s))).
  exact Hin.
Qed.

Theorem generate_multiconfmaps_nearest fx pts n_nodes H W num sigma s smp insts c q i j i' j' :
  (0 < s)%nat -> (0 < sigma)%Q ->
  (i * s < H)%nat -> (j * s < W)%nat -> (i' * s < H)%nat -> (j' * s < W)%nat ->
  (c < n_nodes)%nat -> nth_error pts smp = Some insts ->
  Forall (fun inst => length inst = n_nodes) (concat pts) ->
  fx = true \/ others_contribute (map (firstn num) pts) smp c = false ->
  single_contributor (firstn num insts) c q ->
  exists a a',
    cell4 (generate_multiconfmaps_v fx pts n_nodes H W num sigma s) smp c i j = Some a /\
    cell4 (generate_multiconfmaps_v fx pts n_nodes H W num sigma s) smp c i' j' = Some a' /\
    (dist2 q (INR (j * s)) (INR (i * s)) <= dist2 q (INR (j' * s)) (INR (i' * s)) -> val a' <= val a) /\
    (dist2 q (INR (j * s)) (INR (i * s)) < dist2 q (INR (j' * s)) (INR (i' * s)) -> val a' < val a) /\
    (val a = 1 <-> dist2 q (INR (j * s)) (INR (i * s)) = 0).
Proof.
  intros Hs Hsig Hi Hj Hi' Hj' Hc Hn Hall Hsel Hone.
  destruct (generate_multiconfmaps_cell_per_sample fx pts n_nodes H W num sigma s smp insts c i j
              Hs Hsig Hi Hj Hc Hn Hall Hsel) as [a [Ha Hv]].
  destruct (generate_multiconfmaps_cell_per_sample fx pts n_nodes H W num sigma s smp insts c i' j'
              Hs Hsig Hi' Hj' Hc Hn Hall Hsel) as [a' [Ha' Hv']].
  exists a, a'. split; [exact Ha|]. split; [exact Ha'|].
  rewrite (single_contributor_max _ c q _ _ _ Hone) in Hv. rewrite (single_contributor_max _ c q _ _ _ Hone) in Hv'.
  apply (bump_order q (Q2R sigma * INR s)); [apply stride_sigma_R_nonzero; assumption | exact Hv | exact Hv'].
Qed.

(* centroid maps: a single visible centroid among the first num of the sample *)
Definition single_centroid (cl : list kp) (q : Q * Q) : Prop :=
  exists l1 l2, cl = l1 ++ Some q :: l2 /\ Forall (fun c => c = None) l1 /\ Forall (fun c => c = None) l2.

Lemma single_centroid_max cl q x y sg :
  single_centroid cl q ->
  Rmax_list (map (fun c => gauss_spec c x y sg) cl) = gauss_spec (Some q) x y sg.
Proof.
  intros [l1 [l2 [-> [H1 H2]]]]. rewrite map_app, Rmax_list_app. cbn [map Rmax_list].
  assert (Hz : forall l, Forall (fun c : kp => c = None) l -> Rmax_list (map (fun c => gauss_spec c x y sg) l) = 0).
  { intros l Hl. apply Rmax_list_zeros. apply Forall_forall. intros v Hin. apply in_map_iff in Hin.
    destruct Hin as [c [<- Hin]]. rewrite Forall_forall in Hl. rewrite (Hl c Hin). reflexivity. }
  pose proof (Hz l1 H1) as E1. pose proof (Hz l2 H2) as E2. unfold kp in *. rewrite E1, E2.
  pose proof (gauss_spec_nonneg (Some q) x y sg) as Hn.
  rewrite (Rmax_left _ 0) by exact Hn. apply Rmax_right. exact Hn.
Qed.

Theorem generate_multiconfmaps_centroids_nearest fx cents H W num sigma s smp cl q i j i' j' :
  (0 < s)%nat -> (0 < sigma)%Q ->
  (i * s < H)%nat -> (j * s < W)%nat -> (i' * s < H)%nat -> (j' * s < W)%nat ->
  nth_error cents smp = Some cl ->
  fx = true \/ others_contribute (cent_pts cents num) smp 0 = false ->
  single_centroid (firstn num cl) q ->
  exists a a',
    cell4 (generate_multiconfmaps_centroids_v fx cents H W num sigma s) smp 0 i j = Some a /\
    cell4 (generate_multiconfmaps_centroids_v fx cents H W num sigma s) smp 0 i' j' = Some a' /\
    (dist2 q (INR (j * s)) (INR (i * s)) <= dist2 q (INR (j' * s)) (INR (i' * s)) -> val a' <= val a) /\
    (dist2 q (INR (j * s)) (INR (i * s)) < dist2 q (INR (j' * s)) (INR (i' * s)) -> val a' < val a) /\
    (val a = 1 <-> dist2 q (INR (j * s)) (INR (i * s)) = 0).
Proof.
  intros Hs Hsig Hi Hj Hi' Hj' Hn Hsel Hone.
  destruct (generate_multiconfmaps_centroids_cell_per_sample fx cents H W num sigma s smp cl i j
              Hs Hsig Hi Hj Hn Hsel) as [a [Ha Hv]].
  destruct (generate_multiconfmaps_centroids_cell_per_sample fx cents H W num sigma s smp cl i' j'
              Hs Hsig Hi' Hj' Hn Hsel) as [a' [Ha' Hv']].
  exists a, a'. split; [exact Ha|]. split; [exact Ha'|].
  rewrite (single_centroid_max _ q _ _ _ Hone) in Hv. rewrite (single_centroid_max _ q _ _ _ Hone) in Hv'.
  apply (bump_order q (Q2R sigma * INR s)); [apply stride_sigma_R_nonzero; assumption | exact Hv | exact Hv'].
Qed.

(* the helper fold_cell of Lemmas.v IS the cell of the executable function
   (connects c01_missing_contributes_nothing_def / c01_all_missing_zero_def to the run path) *)
Theorem multi_one_cell_is_fold_cell insts n_nodes xv yv sig c i j x y :
  nth_error yv i = Some y -> nth_error xv j = Some x -> (c < n_nodes)%nat ->
  Forall (fun inst => length inst = n_nodes) insts ->
  (match nth_error (multi_one insts n_nodes xv yv sig) c with Some m => cell m i j | None => None end) =
  Some (fold_cell sig x y (map (fun inst => nth c inst None) insts) None).
Proof.
  intros Hy Hx Hc Hall. unfold multi_one.
  apply (multi_fold_cell sig xv yv insts n_nodes c i j x y Hy Hx Hc Hall).
  - apply repeat_length.
  - rewrite (nth_error_nth' _ (zero_map (length xv) (length yv))) by (rewrite repeat_length; exact Hc).
    rewrite nth_repeat. apply zero_map_cell; apply nth_error_Some; congruence.
Qed.

(* range of every cell of generate_confmaps (composition of the value formula with the range of the formula) *)
Theorem generate_confmaps3_range pts H W sigma s smp nodes c p i j :
  (0 < s)%nat -> (0 < sigma)%Q ->
  nth_error pts smp = Some nodes -> nth_error nodes c = Some p ->
  (i * s < H)%nat -> (j * s < W)%nat ->
  exists a, cell4 (generate_confmaps3 pts H W sigma s) smp c i j = Some a /\ 0 <= val a <= 1.
Proof.
  intros Hs Hsig Hsmp Hc Hi Hj.
  destruct (generate_confmaps3_cell pts H W sigma s smp nodes c p i j Hs Hsig Hsmp Hc Hi Hj) as [a [Ha Hv]].
  exists a. split; [exact Ha|]. rewrite Hv. apply gauss_spec_range. apply stride_sigma_R_nonzero; assumption.
Qed.

Lemma dp_centroids_v_eq fx cents H W num sigma s :
  dp_centroids_v fx cents H W num sigma s = generate_multiconfmaps_centroids_v fx cents H W num sigma s.
Proof. reflexivity. Qed.

Lemma dp_multi_v_pinned pts n_nodes H W sigma s : dp_multi_v false pts n_nodes H W sigma s = dp_multi pts n_nodes H W sigma s.
Proof. reflexivity. Qed.

Lemma dp_centroids_v_pinned cents H W num sigma s :
  dp_centroids_v false cents H W num sigma s = dp_centroids cents H W num sigma s.
Proof. reflexivity. Qed.
