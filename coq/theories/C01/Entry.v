(* Entry.v (C01) — round-2 / round-4 widening of the executable model (definitions only;
   round 4: both variants of make_multi_confmaps and the selector of finding F60, below).
   ConfMaps.v is imported by C14/C18 and is left untouched; this file adds
     * make_grid_vectors as a function returning the pair (xv, yv),
     * the two DataPipes of sleap_nn/data/confidence_maps.py with their key
       options (ConfidenceMapGenerator: instance_key == "instances" flattens a
       rank-4 array, any other key takes a rank-3 array as it is;
       MultiConfidenceMapGenerator: centroids=False does NOT slice by
       num_instances, centroids=True reads example["centroids"] and slices),
     * the harness entry point `run2` that also reaches make_confmaps /
       make_multi_confmaps directly on arbitrary grid vectors. *)
From Coq Require Import List Arith ZArith QArith.
Import ListNotations.
From SV Require Import C01.ConfMaps.
Open Scope Q_scope.

(* utils.make_grid_vectors(image_height, image_width, output_stride) -> (xv, yv) *)
Definition make_grid_vectors (H W s : nat) : list Q * list Q := (grid W s, grid H s).

Definition stride_sigma (sigma : Q) (s : nat) : Q := sigma * inject_Z (Z.of_nat s).

(* ConfidenceMapGenerator.__iter__, instance_key == "instances":
   instance.view(n_samples, -1, 2) then make_confmaps *)
Definition dp_single_instances (pts : list (list (list kp))) (H W : nat) (sigma : Q) (s : nat)
  : list (list cmap) :=
  let g := make_grid_vectors H W s in
  make_confmaps (map (@concat kp) pts) (fst g) (snd g) (stride_sigma sigma s).

(* ConfidenceMapGenerator.__iter__, any other instance_key (pipelines.py uses
   "instance" with image_key "instance_image"): the rank-3 array as it is *)
Definition dp_single_other (pts : list (list kp)) (H W : nat) (sigma : Q) (s : nat)
  : list (list cmap) :=
  let g := make_grid_vectors H W s in
  make_confmaps pts (fst g) (snd g) (stride_sigma sigma s).

(* MultiConfidenceMapGenerator.__iter__, centroids=False: all rows of
   example[instance_key], no slice by num_instances *)
Definition dp_multi (pts : list (list (list kp))) (n_nodes H W : nat) (sigma : Q) (s : nat)
  : list (list cmap) :=
  let g := make_grid_vectors H W s in
  make_multi_confmaps pts n_nodes (fst g) (snd g) (stride_sigma sigma s).

(* MultiConfidenceMapGenerator.__iter__, centroids=True:
   example["centroids"][:, :num_instances, :].unsqueeze(-2) *)
Definition dp_centroids (cents : list (list kp)) (H W num : nat) (sigma : Q) (s : nat)
  : list (list cmap) :=
  let g := make_grid_vectors H W s in
  make_multi_confmaps (map (fun l => map (fun c => [c]) (firstn num l)) cents) 1
    (fst g) (snd g) (stride_sigma sigma s).

(* an animal none of whose keypoints is labelled (a NaN padding row) *)
Definition all_missing (inst : list kp) : bool :=
  forallb (fun p => match p with None => true | Some _ => false end) inst.

(* ====================================================================== round 4
   Finding F60 (cross-sample broadcast).  `make_multi_confmaps` of the pinned tree
   flattens (samples, n_inst) and broadcasts every animal's (1, nodes, h, w) map
   over ALL samples: with n_samples >= 2 every sample receives the maximum over
   the animals of all samples (ConfMaps.make_multi_confmaps models exactly that).
   The property speaks per frame ("the per-cell maximum over animals", "an
   all-zero channel when it is the only one", shape (nodes, H/stride, W/stride)),
   so the repaired variant computes, for every sample, the maximum over ITS OWN
   animals.  `fx = false` : pinned tree (before the repair proposed in
   proposed_fixes/C01_F60.diff) ; `fx = true` : repaired variant.  The harness
   detects which variant /repo implements by replaying corpus/C01/F60_*.json. *)

(* one sample: the fold of make_multi_confmaps over this sample's animals only *)
Definition multi_one (insts : list (list kp)) (n_nodes : nat) (xv yv : list Q) (sig : Q) : list cmap :=
  fold_left (fun acc inst => map2 cmap_max acc (map (chan sig xv yv) inst)) insts
            (repeat (zero_map (length xv) (length yv)) n_nodes).

(* repaired make_multi_confmaps: per sample *)
Definition make_multi_confmaps_ps (pts : list (list (list kp))) (n_nodes : nat)
  (xv yv : list Q) (sig : Q) : list (list cmap) :=
  map (fun insts => multi_one insts n_nodes xv yv sig) pts.

Definition mmc (fx : bool) (pts : list (list (list kp))) (n_nodes : nat)
  (xv yv : list Q) (sig : Q) : list (list cmap) :=
  if fx then make_multi_confmaps_ps pts n_nodes xv yv sig
  else make_multi_confmaps pts n_nodes xv yv sig.

(* (samples, instances, 2)[:, :num].unsqueeze(-2) : the centroid layout *)
Definition cent_pts (cents : list (list kp)) (num : nat) : list (list (list kp)) :=
  map (fun l => map (fun c => [c]) (firstn num l)) cents.

Definition generate_multiconfmaps_v (fx : bool) (pts : list (list (list kp))) (n_nodes : nat)
  (H W num_instances : nat) (sigma : Q) (s : nat) : list (list cmap) :=
  mmc fx (map (firstn num_instances) pts) n_nodes (grid W s) (grid H s) (stride_sigma sigma s).

Definition generate_multiconfmaps_centroids_v (fx : bool) (cents : list (list kp))
  (H W num_instances : nat) (sigma : Q) (s : nat) : list (list cmap) :=
  mmc fx (cent_pts cents num_instances) 1 (grid W s) (grid H s) (stride_sigma sigma s).

Definition dp_multi_v (fx : bool) (pts : list (list (list kp))) (n_nodes H W : nat) (sigma : Q) (s : nat)
  : list (list cmap) :=
  let g := make_grid_vectors H W s in
  mmc fx pts n_nodes (fst g) (snd g) (stride_sigma sigma s).

Definition dp_centroids_v (fx : bool) (cents : list (list kp)) (H W num : nat) (sigma : Q) (s : nat)
  : list (list cmap) :=
  let g := make_grid_vectors H W s in
  mmc fx (cent_pts cents num) 1 (fst g) (snd g) (stride_sigma sigma s).

(* ---- the selector of F60, decidable: channel c of sample smp is affected only
   if an animal of ANOTHER sample has node c labelled ---- *)
Definition kp_visible (p : kp) : bool := match p with Some _ => true | None => false end.

Definition other_samples {A} (pts : list (list A)) (smp : nat) : list A :=
  concat (firstn smp pts ++ skipn (S smp) pts).

Definition others_contribute (pts : list (list (list kp))) (smp c : nat) : bool :=
  existsb (fun inst => kp_visible (nth c inst None)) (other_samples pts smp).

(* ---- entry point for the correspondence harness (round 2) ---- *)
Inductive case2 :=
| C2Old (c : case)
| C2Mk (pts : list (list kp)) (xv yv : list Q) (sig : Q)            (* make_confmaps *)
| C2MkMulti (pts : list (list (list kp))) (n_nodes : nat) (xv yv : list Q) (sig : Q)
| C2DpInst (pts : list (list (list kp))) (H W : nat) (sigma : Q) (s : nat)
| C2DpOther (pts : list (list kp)) (H W : nat) (sigma : Q) (s : nat)
| C2DpMulti (pts : list (list (list kp))) (n_nodes H W : nat) (sigma : Q) (s : nat)
| C2DpCent (cents : list (list kp)) (H W num : nat) (sigma : Q) (s : nat).

Definition run2 (c : case2) : list (list cmap) :=
  match c with
  | C2Old c => run c
  | C2Mk p xv yv g => make_confmaps p xv yv g
  | C2MkMulti p n xv yv g => make_multi_confmaps p n xv yv g
  | C2DpInst p H W g s => dp_single_instances p H W g s
  | C2DpOther p H W g s => dp_single_other p H W g s
  | C2DpMulti p n H W g s => dp_multi p n H W g s
  | C2DpCent p H W k g s => dp_centroids p H W k g s
  end.

(* round 4: the same cases evaluated in the variant `fx` of make_multi_confmaps *)
Definition run3 (a : bool * case2) : list (list cmap) :=
  let '(fx, c) := a in
  match c with
  | C2Old (CMulti p n H W k g s) => generate_multiconfmaps_v fx p n H W k g s
  | C2Old (CCent p H W k g s) => generate_multiconfmaps_centroids_v fx p H W k g s
  | C2MkMulti p n xv yv g => mmc fx p n xv yv g
  | C2DpMulti p n H W g s => dp_multi_v fx p n H W g s
  | C2DpCent p H W k g s => dp_centroids_v fx p H W k g s
  | _ => run2 c
  end.

Definition run_grid (a : nat * nat * nat) : list Q * list Q :=
  let '(H, W, s) := a in make_grid_vectors H W s.
