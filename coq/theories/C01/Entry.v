(* Entry.v (C01) — round-2 widening of the executable model (definitions only).
   ConfMaps.v is imported by C14/C18 and is left untouched; this file adds
     * make_grid_vectors as a function returning the pair (xv, yv),
     * the two DataPipes of sleap_nn/data/confidence_maps.py with their key
       options (ConfidenceMapGenerator: instance_key == "instances" flattens a
       rank-4 array, any other key takes a rank-3 array as it is;
       MultiConfidenceMapGenerator: centroids=False does NOT slice by
       num_instances, centroids=True reads example["centroids"] and slices),
     * the harness entry point `run2` that also reaches make_confmaps /
       make_multi_confmaps directly on arbitrary grid vectors. *)
From Coq Require Import List Arith ZArith QArith.
Import ListNotations.
From SV Require Import C01.ConfMaps.
Open Scope Q_scope.

(* utils.make_grid_vectors(image_height, image_width, output_stride) -> (xv, yv) *)
Definition make_grid_vectors (H W s : nat) : list Q * list Q := (grid W s, grid H s).

Definition stride_sigma (sigma : Q) (s : nat) : Q := sigma * inject_Z (Z.of_nat s).

(* ConfidenceMapGenerator.__iter__, instance_key == "instances":
   instance.view(n_samples, -1, 2) then make_confmaps *)
Definition dp_single_instances (pts : list (list (list kp))) (H W : nat) (sigma : Q) (s : nat)
  : list (list cmap) :=
  let g := make_grid_vectors H W s in
  make_confmaps (map (@concat kp) pts) (fst g) (snd g) (stride_sigma sigma s).

(* ConfidenceMapGenerator.__iter__, any other instance_key (pipelines.py uses
   "instance" with image_key "instance_image"): the rank-3 array as it is *)
Definition dp_single_other (pts : list (list kp)) (H W : nat) (sigma : Q) (s : nat)
  : list (list cmap) :=
  let g := make_grid_vectors H W s in
  make_confmaps pts (fst g) (snd g) (stride_sigma sigma s).

(* MultiConfidenceMapGenerator.__iter__, centroids=False: all rows of
   example[instance_key], no slice by num_instances *)
Definition dp_multi (pts : list (list (list kp))) (n_nodes H W : nat) (sigma : Q) (s : nat)
  : list (list cmap) :=
  let g := make_grid_vectors H W s in
  make_multi_confmaps pts n_nodes (fst g) (snd g) (stride_sigma sigma s).

(* MultiConfidenceMapGenerator.__iter__, centroids=True:
   example["centroids"][:, :num_instances, :].unsqueeze(-2) *)
Definition dp_centroids (cents : list (list kp)) (H W num : nat) (sigma : Q) (s : nat)
  : list (list cmap) :=
  let g := make_grid_vectors H W s in
  make_multi_confmaps (map (fun l => map (fun c => [c]) (firstn num l)) cents) 1
    (fst g) (snd g) (stride_sigma sigma s).

(* an animal none of whose keypoints is labelled (a NaN padding row) *)
Definition all_missing (inst : list kp) : bool :=
  forallb (fun p => match p with None => true | Some _ => false end) inst.

(* ---- entry point for the correspondence harness (round 2) ---- *)
Inductive case2 :=
| C2Old (c : case)
| C2Mk (pts : list (list kp)) (xv yv : list Q) (sig : Q)            (* make_confmaps *)
| C2MkMulti (pts : list (list (list kp))) (n_nodes : nat) (xv yv : list Q) (sig : Q)
| C2DpInst (pts : list (list (list kp))) (H W : nat) (sigma : Q) (s : nat)
| C2DpOther (pts : list (list kp)) (H W : nat) (sigma : Q) (s : nat)
| C2DpMulti (pts : list (list (list kp))) (n_nodes H W : nat) (sigma : Q) (s : nat)
| C2DpCent (cents : list (list kp)) (H W num : nat) (sigma : Q) (s : nat).

Definition run2 (c : case2) : list (list cmap) :=
  match c with
  | C2Old c => run c
  | C2Mk p xv yv g => make_confmaps p xv yv g
  | C2MkMulti p n xv yv g => make_multi_confmaps p n xv yv g
  | C2DpInst p H W g s => dp_single_instances p H W g s
  | C2DpOther p H W g s => dp_single_other p H W g s
  | C2DpMulti p n H W g s => dp_multi p n H W g s
  | C2DpCent p H W k g s => dp_centroids p H W k g s
  end.

Definition run_grid (a : nat * nat * nat) : list Q * list Q :=
  let '(H, W, s) := a in make_grid_vectors H W s.
