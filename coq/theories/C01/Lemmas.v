(* Lemmas.v (C01) — proofs about ConfMaps.v over Coq's real numbers. *)
From Coq Require Import List Arith ZArith QArith Qreals Reals Lra Lia Psatz.
Import ListNotations.
From SV Require Import C01.ConfMaps.

Local Open Scope R_scope.

(* real value held by a model cell *)
Definition val (a : option Q) : R :=
  match a with None => 0 | Some q => exp (Q2R q) end.

(* the property's formula, written independently of the model, over R:
   exp(-d^2 / 2(sigma)^2) of the distance from the sampled image position
   (x, y) to the keypoint; 0 for a missing keypoint *)
Definition gauss_spec (p : kp) (x y sig : R) : R :=
  match p with
  | None => 0
  | Some (px, py) =>
      exp (- ((x - Q2R px) * (x - Q2R px) + (y - Q2R py) * (y - Q2R py)) / (2 * (sig * sig)))
  end.

Definition dist2 (p : Q * Q) (x y : R) : R :=
  (x - Q2R (fst p)) * (x - Q2R (fst p)) + (y - Q2R (snd p)) * (y - Q2R (snd p)).

Lemma Q2R_sq a : Q2R (sq a) = Q2R a * Q2R a.
Proof. unfold sq. apply Q2R_mult. Qed.

Lemma Q2R_0 : Q2R 0 = 0.  Proof. unfold Q2R; simpl; lra. Qed.
Lemma Q2R_2 : Q2R 2 = 2.  Proof. unfold Q2R; simpl; lra. Qed.

Lemma sum_sq_nonneg a b : 0 <= a * a + b * b.
Proof. pose proof (Rle_0_sqr a); pose proof (Rle_0_sqr b); unfold Rsqr in *; lra. Qed.

Lemma two_sq_pos s : s <> 0 -> 0 < 2 * (s * s).
Proof. intros H. pose proof (Rsqr_pos_lt s H). unfold Rsqr in *. lra. Qed.

Lemma neg_div_le a b c : 0 < c -> a <= b -> - b / c <= - a / c.
Proof.
  intros Hc Hab. unfold Rdiv. apply Rmult_le_compat_r; [left; apply Rinv_0_lt_compat; exact Hc|lra].
Qed.

Lemma neg_div_lt a b c : 0 < c -> a < b -> - b / c < - a / c.
Proof.
  intros Hc Hab. unfold Rdiv. apply Rmult_lt_compat_r; [apply Rinv_0_lt_compat; exact Hc|lra].
Qed.

Lemma neg_div_nonpos d c : 0 < c -> 0 <= d -> - d / c <= 0.
Proof.
  intros Hc Hd. pose proof (neg_div_le 0 d c Hc Hd) as H.
  replace (- 0 / c) with 0 in H by (unfold Rdiv; lra). exact H.
Qed.

Lemma neg_div_neg d c : 0 < c -> 0 < d -> - d / c < 0.
Proof.
  intros Hc Hd. pose proof (neg_div_lt 0 d c Hc Hd) as H.
  replace (- 0 / c) with 0 in H by (unfold Rdiv; lra). exact H.
Qed.

Lemma exp_le a b : a <= b -> exp a <= exp b.
Proof. intros [Hlt|Heq]; [left; apply exp_increasing; exact Hlt | rewrite Heq; right; reflexivity]. Qed.

Lemma sig_sq_nonzero (sig : Q) : (0 < sig)%Q -> ~ (2 * sq sig == 0)%Q.
Proof.
  intros Hs Heq. apply Qeq_eqR in Heq. rewrite Q2R_mult, Q2R_sq, Q2R_0, Q2R_2 in Heq.
  apply Qlt_Rlt in Hs. rewrite Q2R_0 in Hs.
  assert (Hne : Q2R sig <> 0) by lra. pose proof (two_sq_pos _ Hne). lra.
Qed.

(* (b) the value formula *)
Lemma cell_arg_value sig p x y :
  (0 < sig)%Q ->
  val (cell_arg sig p x y) = gauss_spec p (Q2R x) (Q2R y) (Q2R sig).
Proof.
  intros Hs. destruct p as [[px py]|]; simpl; [|reflexivity].
  f_equal. rewrite Q2R_div by (apply sig_sq_nonzero; exact Hs).
  rewrite Q2R_opp, Q2R_plus, !Q2R_sq, !Q2R_minus, Q2R_mult, Q2R_sq, Q2R_2.
  reflexivity.
Qed.

(* (a) range *)
Lemma gauss_spec_range p x y sig : sig <> 0 -> 0 <= gauss_spec p x y sig <= 1.
Proof.
  intros Hs. destruct p as [[px py]|]; simpl; [|split; lra].
  split; [left; apply exp_pos|].
  rewrite <- exp_0. apply exp_le.
  apply neg_div_nonpos; [apply two_sq_pos; exact Hs | apply sum_sq_nonneg].
Qed.

Lemma val_range sig p x y : (0 < sig)%Q -> 0 <= val (cell_arg sig p x y) <= 1.
Proof.
  intros Hs. rewrite cell_arg_value by exact Hs. apply gauss_spec_range.
  apply Qlt_Rlt in Hs. rewrite Q2R_0 in Hs. lra.
Qed.

(* (c) monotone in the distance: nearer cell, larger (or equal) value; the value
   is 1 exactly at distance 0 *)
Lemma gauss_spec_monotone p x1 y1 x2 y2 sig :
  sig <> 0 -> dist2 p x1 y1 <= dist2 p x2 y2 ->
  gauss_spec (Some p) x2 y2 sig <= gauss_spec (Some p) x1 y1 sig.
Proof.
  intros Hs Hd. destruct p as [px py]; unfold dist2 in Hd; simpl in *.
  apply exp_le. apply neg_div_le; [apply two_sq_pos; exact Hs | exact Hd].
Qed.

Lemma gauss_spec_strict p x1 y1 x2 y2 sig :
  sig <> 0 -> dist2 p x1 y1 < dist2 p x2 y2 ->
  gauss_spec (Some p) x2 y2 sig < gauss_spec (Some p) x1 y1 sig.
Proof.
  intros Hs Hd. destruct p as [px py]; unfold dist2 in Hd; simpl in *.
  apply exp_increasing. apply neg_div_lt; [apply two_sq_pos; exact Hs | exact Hd].
Qed.

Lemma gauss_spec_one_iff p x y sig :
  sig <> 0 -> (gauss_spec (Some p) x y sig = 1 <-> dist2 p x y = 0).
Proof.
  intros Hs. destruct p as [px py]; unfold dist2; simpl.
  set (d := (x - Q2R px) * (x - Q2R px) + (y - Q2R py) * (y - Q2R py)).
  assert (Hd : 0 <= d) by (unfold d; apply sum_sq_nonneg).
  split.
  - intros He. destruct Hd as [Hpos|Hz]; [|symmetry; exact Hz].
    exfalso. assert (Hlt : exp (- d / (2 * (sig * sig))) < exp 0).
    { apply exp_increasing. apply neg_div_neg; [apply two_sq_pos; exact Hs | exact Hpos]. }
    rewrite exp_0 in Hlt. lra.
  - intros Hz. rewrite Hz. replace (- 0 / (2 * (sig * sig))) with 0 by (unfold Rdiv; lra).
    apply exp_0.
Qed.

(* ---- structure: which cell holds what ---- *)

Lemma chan_cell sig xv yv p i j x y :
  nth_error yv i = Some y -> nth_error xv j = Some x ->
  cell (chan sig xv yv p) i j = Some (cell_arg sig p x y).
Proof.
  intros Hy Hx. unfold cell, chan.
  rewrite nth_error_map, Hy. simpl. rewrite nth_error_map, Hx. reflexivity.
Qed.

Lemma ceil_div_spec n s k : (0 < s)%nat -> (k < ceil_div n s)%nat <-> (k * s < n)%nat.
Proof.
  intros Hs. unfold ceil_div. split; intros H.
  - assert (Hm : (s * ((n + s - 1) / s) <= n + s - 1)%nat) by (apply Nat.mul_div_le; lia).
    nia.
  - assert (Hq : (S k <= (n + s - 1) / s)%nat); [|lia].
    apply Nat.div_le_lower_bound; [lia|nia].
Qed.

Lemma grid_length n s : length (grid n s) = ceil_div n s.
Proof. unfold grid. rewrite map_length, seq_length. reflexivity. Qed.

Lemma ceil_div_exact q s : (0 < s)%nat -> ceil_div (q * s) s = q.
Proof.
  intros Hs. unfold ceil_div.
  replace (q * s + s - 1)%nat with (s - 1 + q * s)%nat by lia.
  rewrite Nat.div_add by lia. rewrite Nat.div_small by lia. lia.
Qed.

Lemma grid_nth n s k : (0 < s)%nat -> (k * s < n)%nat ->
  nth_error (grid n s) k = Some (inject_Z (Z.of_nat (k * s))).
Proof.
  intros Hs Hk. unfold grid. rewrite nth_error_map.
  assert (Hlt : (k < ceil_div n s)%nat) by (apply ceil_div_spec; assumption).
  rewrite (nth_error_nth' _ 0%nat) by (rewrite seq_length; exact Hlt).
  rewrite seq_nth by exact Hlt. reflexivity.
Qed.

Lemma Q2R_inject_nat k : Q2R (inject_Z (Z.of_nat k)) = INR k.
Proof. unfold Q2R, inject_Z; simpl. rewrite INR_IZR_INZ. lra. Qed.

(* generate_confmaps: cell (i,j) of channel c of sample smp *)
Lemma generate_confmaps3_cell pts H W sigma s smp nodes c p i j :
  (0 < s)%nat -> (0 < sigma)%Q ->
  nth_error pts smp = Some nodes -> nth_error nodes c = Some p ->
  (i * s < H)%nat -> (j * s < W)%nat ->
  exists a,
    (match nth_error (generate_confmaps3 pts H W sigma s) smp with
     | Some chans => match nth_error chans c with Some m => cell m i j | None => None end
     | None => None end) = Some a /\
    val a = gauss_spec p (INR (j * s)) (INR (i * s)) (Q2R sigma * INR s).
Proof.
  intros Hs Hsig Hsmp Hc Hi Hj.
  unfold generate_confmaps3, make_confmaps.
  rewrite nth_error_map, Hsmp. simpl. rewrite nth_error_map, Hc. simpl.
  eexists. split.
  - apply chan_cell; apply grid_nth; assumption.
  - assert (Hpos : (0 < sigma * inject_Z (Z.of_nat s))%Q).
    { apply Qmult_lt_0_compat; [exact Hsig|]. unfold Qlt, inject_Z; simpl. lia. }
    rewrite cell_arg_value by exact Hpos.
    rewrite Q2R_mult, !Q2R_inject_nat. reflexivity.
Qed.

(* ---- multi-instance maps: maximum over animals ---- *)

Lemma val_nonneg a : 0 <= val a.
Proof. destruct a; simpl; [left; apply exp_pos | lra]. Qed.

Lemma val_omax a b : val (omax a b) = Rmax (val a) (val b).
Proof.
  destruct a as [x|], b as [y|]; simpl.
  - destruct (Qle_bool x y) eqn:E.
    + apply Qle_bool_iff, Qle_Rle in E. rewrite Rmax_right; [reflexivity|].
      destruct E as [Hlt|Heq]; [left; apply exp_increasing; exact Hlt | rewrite Heq; right; reflexivity].
    + assert (Hlt : (y < x)%Q).
      { apply Qnot_le_lt. intros Hle. apply Qle_bool_iff in Hle. congruence. }
      apply Qlt_Rlt in Hlt. rewrite Rmax_left; [reflexivity|]. left. apply exp_increasing. exact Hlt.
  - rewrite Rmax_left; [reflexivity|]. left. apply exp_pos.
  - rewrite Rmax_right; [reflexivity|]. left. apply exp_pos.
  - rewrite Rmax_left; [reflexivity|lra].
Qed.

(* cell-wise view of the fold in make_multi_confmaps, for one channel *)
Definition fold_cell (sig : Q) (x y : Q) (ps : list kp) (a0 : option Q) : option Q :=
  fold_left (fun acc p => omax acc (cell_arg sig p x y)) ps a0.

Fixpoint Rmax_list (l : list R) : R :=
  match l with [] => 0 | x :: t => Rmax x (Rmax_list t) end.

Lemma Rmax_list_nonneg l : 0 <= Rmax_list l.
Proof. induction l as [|x t IH]; simpl; [lra|]. eapply Rle_trans; [exact IH|apply Rmax_r]. Qed.

Lemma fold_cell_val sig x y ps a0 :
  val (fold_cell sig x y ps a0) =
  Rmax (val a0) (Rmax_list (map (fun p => val (cell_arg sig p x y)) ps)).
Proof.
  revert a0. induction ps as [|p t IH]; intros a0; simpl.
  - rewrite Rmax_left; [reflexivity|apply val_nonneg].
  - unfold fold_cell in *. simpl. rewrite IH, val_omax.
    rewrite Rmax_assoc. reflexivity.
Qed.

(* the multi-instance cell is the maximum of the animals' bumps; a missing
   keypoint (value 0) changes nothing; all missing => 0 *)
Lemma multi_cell_is_max sig x y ps :
  (0 < sig)%Q ->
  val (fold_cell sig x y ps None) =
  Rmax_list (map (fun p => gauss_spec p (Q2R x) (Q2R y) (Q2R sig)) ps).
Proof.
  intros Hs. rewrite fold_cell_val. simpl.
  rewrite Rmax_right by apply Rmax_list_nonneg.
  f_equal. apply map_ext. intros p. apply cell_arg_value. exact Hs.
Qed.

Lemma multi_cell_missing_neutral sig x y ps1 ps2 a0 :
  fold_cell sig x y (ps1 ++ None :: ps2) a0 = fold_cell sig x y (ps1 ++ ps2) a0.
Proof.
  unfold fold_cell. rewrite !fold_left_app. simpl.
  destruct (fold_left _ ps1 a0); reflexivity.
Qed.

Lemma multi_cell_all_missing sig x y ps :
  Forall (fun p => p = None) ps -> fold_cell sig x y ps None = None.
Proof.
  induction ps as [|p t IH]; intros Hall; [reflexivity|].
  inversion Hall as [|? ? Hp Ht]; subst. unfold fold_cell in *. simpl. apply IH. exact Ht.
Qed.

Lemma multi_cell_ge_each sig x y ps p :
  In p ps -> val (cell_arg sig p x y) <= val (fold_cell sig x y ps None).
Proof.
  intros Hin. rewrite fold_cell_val. simpl.
  rewrite Rmax_right by apply Rmax_list_nonneg.
  induction ps as [|q t IH]; [inversion Hin|].
  simpl. destruct Hin as [->|Hin]; [apply Rmax_l|].
  eapply Rle_trans; [apply IH; exact Hin|apply Rmax_r].
Qed.

(* connection between the executable make_multi_confmaps and fold_cell *)

Lemma map2_nth {A B C} (f : A -> B -> C) l m k a b :
  nth_error l k = Some a -> nth_error m k = Some b ->
  nth_error (map2 f l m) k = Some (f a b).
Proof.
  revert m k. induction l as [|x l IH]; intros m k Ha Hb; destruct k; simpl in *; try discriminate;
    destruct m as [|y m]; simpl in *; try discriminate.
  - congruence.
  - apply IH; assumption.
Qed.

Lemma map2_length {A B C} (f : A -> B -> C) l m :
  length (map2 f l m) = Nat.min (length l) (length m).
Proof.
  revert m. induction l as [|x l IH]; intros m; destruct m as [|y m]; simpl; try reflexivity.
  rewrite IH. reflexivity.
Qed.

Lemma cmap_max_cell a b i j u v :
  cell a i j = Some u -> cell b i j = Some v -> cell (cmap_max a b) i j = Some (omax u v).
Proof.
  unfold cell, cmap_max. intros Ha Hb.
  destruct (nth_error a i) as [ra|] eqn:Ea; [|discriminate].
  destruct (nth_error b i) as [rb|] eqn:Eb; [|discriminate].
  rewrite (map2_nth _ _ _ _ _ _ Ea Eb). apply map2_nth; assumption.
Qed.

Lemma zero_map_cell w h i j : (i < h)%nat -> (j < w)%nat -> cell (zero_map w h) i j = Some None.
Proof.
  intros Hi Hj. unfold cell, zero_map.
  rewrite (nth_error_nth' _ (repeat None w)) by (rewrite repeat_length; exact Hi).
  rewrite nth_repeat.
  rewrite (nth_error_nth' _ None) by (rewrite repeat_length; exact Hj).
  rewrite nth_repeat. reflexivity.
Qed.

(* channel c of the folded maps, at cell (i,j): the fold over the animals' c-th keypoints *)
Lemma multi_fold_cell sig xv yv (insts : list (list kp)) n_nodes c i j x y :
  nth_error yv i = Some y -> nth_error xv j = Some x ->
  (c < n_nodes)%nat ->
  Forall (fun inst => length inst = n_nodes) insts ->
  forall start a0,
    length start = n_nodes ->
    (match nth_error start c with Some m => cell m i j | None => None end) = Some a0 ->
    match nth_error (fold_left (fun acc inst => map2 cmap_max acc (map (chan sig xv yv) inst)) insts start) c with
    | Some m => cell m i j
    | None => None
    end = Some (fold_cell sig x y (map (fun inst => nth c inst None) insts) a0).
Proof.
  intros Hy Hx Hc Hall. induction insts as [|inst t IH]; intros start a0 Hlen Hstart; simpl.
  - exact Hstart.
  - pose proof (Forall_inv Hall) as Hl. pose proof (Forall_inv_tail Hall) as Ht. simpl in Hl.
    destruct (nth_error start c) as [m|] eqn:Em; [|discriminate].
    assert (Hinst : nth_error (map (chan sig xv yv) inst) c = Some (chan sig xv yv (nth c inst None))).
    { rewrite nth_error_map. rewrite (nth_error_nth' inst (None : kp)) by lia. reflexivity. }
    unfold fold_cell. simpl. apply (IH Ht).
    + rewrite map2_length, map_length. lia.
    + rewrite (map2_nth _ _ _ _ _ _ Em Hinst).
      apply cmap_max_cell; [exact Hstart|]. apply chan_cell; assumption.
Qed.

Definition cell4 (out : list (list cmap)) (smp c i j : nat) : option (option Q) :=
  match nth_error out smp with
  | Some chans => match nth_error chans c with Some m => cell m i j | None => None end
  | None => None
  end.

(* (d) make_multi_confmaps: every cell is the maximum over the animals of the
   single-animal bumps (0 for missing keypoints) *)
Theorem multi_confmaps_cell pts n_nodes xv yv sig smp c i j x y :
  (0 < sig)%Q -> nth_error yv i = Some y -> nth_error xv j = Some x ->
  (c < n_nodes)%nat -> (smp < length pts)%nat ->
  Forall (fun inst => length inst = n_nodes) (concat pts) ->
  exists a,
    cell4 (make_multi_confmaps pts n_nodes xv yv sig) smp c i j = Some a /\
    val a = Rmax_list (map (fun inst => gauss_spec (nth c inst None) (Q2R x) (Q2R y) (Q2R sig))
                           (concat pts)).
Proof.
  intros Hs Hy Hx Hc Hsmp Hall.
  unfold cell4, make_multi_confmaps.
  rewrite nth_error_map.
  destruct (nth_error pts smp) as [smpl|] eqn:Es.
  2:{ apply nth_error_None in Es. lia. }
  simpl.
  eexists. split.
  - apply (multi_fold_cell sig xv yv (concat pts) n_nodes c i j x y Hy Hx Hc Hall).
    + apply repeat_length.
    + rewrite (nth_error_nth' _ (zero_map (length xv) (length yv))) by (rewrite repeat_length; exact Hc).
      rewrite nth_repeat. apply zero_map_cell.
      * apply nth_error_Some. congruence.
      * apply nth_error_Some. congruence.
  - rewrite multi_cell_is_max by exact Hs. rewrite map_map. reflexivity.
Qed.

(* every cell of every output of make_confmaps / make_multi_confmaps is a value in [0,1] *)
Lemma omax_cases a b : omax a b = a \/ omax a b = b.
Proof. destruct a as [x|], b as [y|]; simpl; auto. destruct (Qle_bool x y); auto. Qed.

Lemma val_le_1_arg a : (match a with None => True | Some q => (q <= 0)%Q end) -> 0 <= val a <= 1.
Proof.
  destruct a as [q|]; simpl; intros H; [|split; lra].
  split; [left; apply exp_pos|]. rewrite <- exp_0. apply exp_le.
  apply Qle_Rle in H. rewrite Q2R_0 in H. exact H.
Qed.
