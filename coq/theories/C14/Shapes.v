(* Shapes.v — executable shape calculus for sleap_nn.architectures
   {common, encoder_decoder, unet, convnext, swint, heads, model}.py  (no proofs here).

   A tensor is abstracted to its shape (C, H, W) (the batch axis is carried
   through every layer unchanged and is not modelled).  Modules are *built* by
   functions that follow the constructors line by line (channel arithmetic in
   exact rationals: `int(filters * rate ** k)` is `trunc (filters * rate^k)`),
   and *run* by functions that follow the `forward` methods; a channel or size
   mismatch (the RuntimeError torch raises), a failed `list.index`
   (ValueError), an unbound loop variable (NameError) is `None`.

   The one stateful layer sleap-nn owns, MaxPool2dWithSamePadding, overwrites
   `self.padding = "same"` by `0` during its first call.  Its state is modelled
   explicitly: `pstate` maps the identifier of every pooling layer to
   "padding is still the string 'same'". *)
From Coq Require Import List ZArith QArith Qround Bool Arith.
Import ListNotations.
Open Scope Z_scope.

Definition shape := (Z * Z * Z)%type.            (* channels, height, width *)

(* ---------------------------------------------------------------- numbers *)
(* Python int(): truncation toward zero *)
Definition trunc (q : Q) : Z := if Qle_bool 0 q then Qfloor q else Qceiling q.

(* Python round(): to nearest, ties to even *)
Definition round_half_even (q : Q) : Z :=
  let f := Qfloor q in
  let d := (q - inject_Z f)%Q in
  match Qcompare d (1#2) with
  | Lt => f
  | Gt => f + 1
  | Eq => if Z.even f then f else f + 1
  end.

(* filters * rate ** e  (e may be negative) *)
Definition scaled (filters : Z) (rate : Q) (e : Z) : Q := (inject_Z filters * Qpower rate e)%Q.
(* int(filters * (rate ** e)) *)
Definition fint (filters : Z) (rate : Q) (e : Z) : Z := trunc (scaled filters rate e).

(* first index of x in l (list.index); None = ValueError *)
Fixpoint index_of (x : Z) (l : list Z) : option nat :=
  match l with
  | [] => None
  | y :: t => if x =? y then Some O
              else match index_of x t with None => None | Some i => Some (S i) end
  end.

Fixpoint min_list (d : Z) (l : list Z) : Z :=
  match l with [] => d | x :: t => Z.min x (min_list d t) end.

Fixpoint all_some {A} (l : list (option A)) : option (list A) :=
  match l with
  | [] => Some []
  | None :: _ => None
  | Some a :: t => match all_some t with None => None | Some r => Some (a :: r) end
  end.

(* -------------------------------------------------- repairs as flags *)
(* false = the pinned behaviour, true = the repaired behaviour.  In /repo HEAD (current tree):
   fx17 (commit 5fcfc16), fx18 (9a2daa4), fx41 (f15d414) are ON; fx42 is only proposed
   (proposed_fixes/C14_F42.diff) and OFF.  The harness detects the flags on every run.
   fx17  UNet.__init__ sizes the decoder input for the encoder's real output when
         middle_block=False (int(filters*rate^(levels-1)));
   fx18  Encoder: down blocks get max(convs_per_block-1, 1) convolutions and, for
         convs_per_block = 1, the last middle conv takes the last down block's channels;
   fx41  Model: a head whose stride is 2 * dec.current_stride (the encoder output's
         stride) is sized for dec.x_in_shape and fed the encoder output;
   fx42  ConvNeXt / Swin-T wrappers report max_stride = max(configured,
         stem_patch_stride * 2^down_blocks): the input domain is its multiples. *)
Record fixes := { fx17 : bool; fx18 : bool; fx41 : bool; fx42 : bool }.
Definition nofix : fixes := {| fx17 := false; fx18 := false; fx41 := false; fx42 := false |}.
Definition allfix : fixes := {| fx17 := true; fx18 := true; fx41 := true; fx42 := true |}.

(* ----------------------------------------------------------------- layers *)
Inductive layer :=
| LConvSame (cin cout k : Z)        (* nn.Conv2d(cin, cout, k, stride=1, padding="same") *)
| LConv (cin cout k s p : Z)        (* nn.Conv2d(cin, cout, k, stride=s, padding=p) *)
| LPool (id : nat)                  (* MaxPool2dWithSamePadding(kernel_size=2, stride=2, padding="same") *)
| LUp                               (* nn.Upsample(scale_factor=2) *)
| LConvT (cin cout : Z)             (* nn.ConvTranspose2d(cin, cout, kernel_size=2, stride=2, padding=0) *)
| LAct                              (* ReLU / Identity / Sigmoid: shape preserving, no channel check *)
| LNorm (c : Z)                     (* LayerNorm2d(c) / LayerNorm(c) over the channel axis *)
| LCNBlock (c : Z)                  (* torchvision CNBlock(dim=c): depthwise 7x7 conv padding 3 + MLP *)
| LSwinBlock (c nh : Z)             (* SwinTransformerBlock(dim=c, num_heads=nh) *)
| LMerge (c : Z).                   (* PatchMerging(dim=c): pad to even, 2x2 gather, Linear(4c,2c) *)

(* pooling-layer state: id -> "self.padding is still 'same'" *)
Definition pstate := nat -> bool.
Definition fresh : pstate := fun _ => true.
Definition clear (st : pstate) (id : nat) : pstate := fun j => if Nat.eqb j id then false else st j.

Definition ceil_div (a b : Z) : Z := - ((- a) / b).

(* MaxPool2dWithSamePadding._calc_same_pad *)
Definition calc_same_pad (i k s d : Z) : Z :=
  Z.max ((ceil_div i s - 1) * s + (k - 1) * d + 1 - i) 0.

(* F.max_pool2d output length, ceil_mode=False; a non-positive length raises *)
Definition max_pool_out (i k s p d : Z) : option Z :=
  let o := (i + 2 * p - d * (k - 1) - 1) / s + 1 in
  if 0 <? o then Some o else None.

(* one spatial side through MaxPool2dWithSamePadding(2, 2, "same"); `same` is the state *)
Definition pool_side (same : bool) (i : Z) : option Z :=
  if same then max_pool_out (i + calc_same_pad i 2 2 1) 2 2 0 1
  else max_pool_out i 2 2 0 1.

(* nn.Conv2d output length; kernel larger than the padded input raises *)
Definition conv_out (i k s p : Z) : option Z :=
  if i + 2 * p - k <? 0 then None else Some ((i + 2 * p - k) / s + 1).

Definition run_layer (l : layer) (st : pstate) (x : shape) : option shape * pstate :=
  let '(c, h, w) := x in
  match l with
  | LConvSame cin cout k => (if c =? cin then Some (cout, h, w) else None, st)
  | LConv cin cout k s p =>
      (if c =? cin then
         match conv_out h k s p, conv_out w k s p with
         | Some h', Some w' => Some (cout, h', w')
         | _, _ => None
         end
       else None, st)
  | LPool id =>
      (* the padding attribute is overwritten before F.max_pool2d is called *)
      (match pool_side (st id) h, pool_side (st id) w with
       | Some h', Some w' => Some (c, h', w')
       | _, _ => None
       end, clear st id)
  | LUp => (Some (c, 2 * h, 2 * w), st)
  | LConvT cin cout => (if c =? cin then Some (cout, 2 * h, 2 * w) else None, st)
  | LAct => (Some x, st)
  | LNorm cn => (if c =? cn then Some x else None, st)
  | LCNBlock cn => (if c =? cn then Some x else None, st)
  | LSwinBlock cn nh => (if (c =? cn) && (cn mod nh =? 0) then Some x else None, st)
  | LMerge cn => (if c =? cn then Some (2 * cn, ceil_div h 2, ceil_div w 2) else None, st)
  end.

(* nn.Sequential *)
Fixpoint run_layers (ls : list layer) (st : pstate) (x : shape) : option shape * pstate :=
  match ls with
  | [] => (Some x, st)
  | l :: t => match run_layer l st x with
              | (None, st') => (None, st')
              | (Some y, st') => run_layers t st' y
              end
  end.

(* torch.concat((x, feature), dim=1) *)
Definition concat (x f : shape) : option shape :=
  let '(c1, h1, w1) := x in let '(c2, h2, w2) := f in
  if (h1 =? h2) && (w1 =? w2) then Some (c1 + c2, h1, w1) else None.

(* (in_channels, out_channels, kernel, stride) of every Conv2d / ConvTranspose2d
   a layer registers, in registration order: compared with named_modules() *)
Definition convs_of (l : layer) : list (Z * Z * (Z * Z)) :=
  match l with
  | LConvSame cin cout k => [(cin, cout, (k, 1))]
  | LConv cin cout k s p => [(cin, cout, (k, s))]
  | LConvT cin cout => [(cin, cout, (2, 2))]
  | LCNBlock c => [(c, c, (7, 1))]
  | _ => []
  end.

(* -------------------------------------------------- encoder_decoder.py *)
(* the Conv2d(+activation) chain shared by SimpleConvBlock and the refine convs
   of SimpleUpsamplingBlock: in_channels if i == 0 else filters *)
Definition conv_chain (cin filters k : Z) (n : nat) : list layer :=
  flat_map (fun i => [LConvSame (if Nat.eqb i 0 then cin else filters) filters k; LAct]) (seq 0 n).

(* SimpleConvBlock.__init__ (batch_norm=False); its pooling layer gets identifier id *)
Definition simple_conv_block (id : nat) (cin : Z) (pool pool_before : bool)
           (num_convs : nat) (filters k : Z) : list layer :=
  (if pool && pool_before then [LPool id] else []) ++
  conv_chain cin filters k num_convs ++
  (if pool && negb pool_before then [LPool id] else []).

Record enc_item := { ei_scb : bool;          (* isinstance(block, SimpleConvBlock) *)
                     ei_pool : bool;         (* block.pool *)
                     ei_layers : list layer }.

Record unet_cfg := {
  u_in_channels : Z; u_kernel : Z; u_filters : Z; u_rate : Q;
  u_max_stride : Z; u_stem_stride : option Z; u_middle : bool; u_up_interp : bool;
  u_convs_per_block : Z; u_output_stride : Z }.

Definition stem_kernel : Z := 7.     (* UNet.from_config does not forward it: the default *)

(* Encoder.__init__ : encoder_stack.  Item i gets pooling identifier i.
   None = NameError (`block_filters` unbound when there is no block at all). *)
Definition down_convs (f18 : bool) (cpb : Z) : nat :=
  Z.to_nat (if f18 then Z.max (cpb - 1) 1 else cpb - 1).

Definition encoder_stack (f18 : bool) (cin filters : Z) (rate : Q) (stem down : nat) (cpb k : Z)
           (middle : bool) : option (list enc_item) :=
  let f := fint filters rate in
  let stem_part := map (fun b =>
      {| ei_scb := true; ei_pool := negb (Nat.eqb b 0);
         ei_layers := simple_conv_block b (if Nat.eqb b 0 then cin else f (Z.of_nat b - 1))
                        (negb (Nat.eqb b 0)) true (Z.to_nat cpb) (f (Z.of_nat b)) stem_kernel |})
      (seq 0 stem) in
  let down_part := map (fun b => let i := (b + stem)%nat in
      {| ei_scb := true; ei_pool := negb (Nat.eqb i 0);
         ei_layers := simple_conv_block i (if Nat.eqb i 0 then cin else f (Z.of_nat i - 1))
                        (negb (Nat.eqb i 0)) true (down_convs f18 cpb) (f (Z.of_nat i)) k |})
      (seq 0 down) in
  let n := (stem + down)%nat in
  match n with
  | O => None
  | S n1 =>
      let after := f (Z.of_nat n1) in
      let fn := f (Z.of_nat n) in
      let bare := {| ei_scb := false; ei_pool := false; ei_layers := [LPool n] |} in
      let mid :=
        if middle then
          (if 1 <? cpb then
             [{| ei_scb := true; ei_pool := false;
                 ei_layers := simple_conv_block (n + 1) after false false (Z.to_nat (cpb - 1)) fn k |}]
           else []) ++
          [{| ei_scb := true; ei_pool := false;
              ei_layers := simple_conv_block (n + 2) (if f18 && negb (1 <? cpb) then after else fn)
                             false false 1 fn k |}]
        else [] in
      Some (stem_part ++ down_part ++ [bare] ++ mid)
  end.

(* Encoder.__init__ : intermediate_features (keys), current_stride starts at 2 *)
Fixpoint inter_feats (stack : list enc_item) (i : nat) (cs : Z) (vals : list Z) : list nat :=
  match stack with
  | [] => []
  | it :: r =>
      let cs' := if ei_scb it && ei_pool it then cs * 2 else cs in
      if existsb (Z.eqb cs') vals then inter_feats r (S i) cs' vals
      else i :: inter_feats r (S i) cs' (cs' :: vals)
  end.

Definition memn (i : nat) (l : list nat) : bool := existsb (Nat.eqb i) l.

(* Encoder.forward: returns (x, features[::-1]); `feats` is accumulated reversed *)
Fixpoint enc_forward (stack : list enc_item) (i : nat) (keys : list nat) (st : pstate)
         (x : shape) (feats : list shape) : option (shape * list shape) * pstate :=
  match stack with
  | [] => (Some (x, feats), st)
  | it :: r =>
      match run_layers (ei_layers it) st x with
      | (None, st') => (None, st')
      | (Some y, st') => enc_forward r (S i) keys st' y (if memn i keys then y :: feats else feats)
      end
  end.

(* SimpleUpsamplingBlock (refine_convs_batch_norm = transpose_convs_batch_norm = False) *)
Record up_block := { ub_layers : list layer;
                     ub_concat_at : nat;     (* 1, or norm_act_layers = 2 for transposed conv *)
                     ub_out : Q }.           (* refine_convs_filters (possibly a float) *)

Definition simple_upsampling_block (x_in : Z) (up_interp : bool) (refine_convs : nat)
           (refine_filters : Q) (k transpose_filters : Z) : up_block :=
  {| ub_layers := (if up_interp then [LUp] else [LConvT transpose_filters transpose_filters; LAct])
                  ++ conv_chain x_in (trunc refine_filters) k refine_convs;
     ub_concat_at := if up_interp then 1%nat else 2%nat;
     ub_out := refine_filters |}.

(* SimpleUpsamplingBlock.forward *)
Fixpoint up_forward (ls : list layer) (idx at_ : nat) (feat : option shape) (st : pstate)
         (x : shape) : option shape * pstate :=
  match ls with
  | [] => (Some x, st)
  | l :: t =>
      let x1 := if Nat.eqb idx at_ then
                  match feat with Some f => concat x f | None => Some x end
                else Some x in
      match x1 with
      | None => (None, st)
      | Some x2 => match run_layer l st x2 with
                   | (None, st') => (None, st')
                   | (Some y, st') => up_forward t (S idx) at_ feat st' y
                   end
      end
  end.

Record decoder := { d_stack : list up_block; d_strides : list Z; d_residuals : nat; d_x_in : Z;
                    d_cs0 : Z }.      (* self.current_stride: the constructor argument *)

Definition dec_convs_per_block : nat := 2%nat.   (* no caller passes convs_per_block to Decoder *)

(* Decoder.__init__, the `for block in range(up_blocks)` loop (block_contraction=False) *)
Definition dec_for_block (x_in filters : Z) (rate : Q) (levels : Z) (k : Z) (up_interp : bool)
           (j : nat) : up_block :=
  let bfi := fun (b : Z) => fint filters rate (levels - 1 - b) in
  let jz := Z.of_nat j in
  simple_upsampling_block
    (if Nat.eqb j 0 then x_in + bfi 0 else bfi (jz - 1) + bfi jz)
    up_interp dec_convs_per_block (inject_Z (bfi jz)) k
    (if Nat.eqb j 0 then x_in else bfi (jz - 1)).

Fixpoint halvings (cs : Z) (n : nat) : list Z :=
  match n with O => [] | S m => cs :: halvings (cs / 2) m end.
Fixpoint halve (cs : Z) (n : nat) : Z :=
  match n with O => cs | S m => halve (cs / 2) m end.

(* Decoder.__init__, the `while current_stride >= output_stride` loop; `block`
   carries over from the for loop.  Out of fuel is impossible for output_stride >= 1
   (fuel is chosen larger than log2 of the stride). *)
Fixpoint dec_while (fuel : nat) (cs os : Z) (block : Z) (filters : Z) (rate : Q) (levels k : Z)
         (up_interp : bool) : option (list up_block * list Z) :=
  if cs <? os then Some ([], [])
  else match fuel with
       | O => None
       | S fu =>
           let bfi := fint filters rate (levels - 1 - block) in
           let out := inject_Z (Qfloor (inject_Z bfi / rate)) in       (* block_filters_in // filters_rate *)
           let ub := simple_upsampling_block bfi up_interp dec_convs_per_block out k bfi in
           match dec_while fu (cs / 2) os (block + 1) filters rate levels k up_interp with
           | None => None
           | Some (bs, ss) => Some (ub :: bs, cs :: ss)
           end
       end.

(* Decoder.__init__; levels = down_blocks + stem_blocks.  None = NameError
   (`block` unbound: while loop entered after an empty for loop). *)
Definition build_decoder (x_in cs0 filters : Z) (rate : Q) (up_blocks : nat) (levels os k : Z)
           (up_interp : bool) : option decoder :=
  let for_part := map (dec_for_block x_in filters rate levels k up_interp) (seq 0 up_blocks) in
  let cs1 := halve cs0 up_blocks in
  let fuel := S (S (Z.to_nat (Z.log2 cs1))) in
  if (cs1 <? os) then
    Some {| d_stack := for_part; d_strides := halvings cs0 up_blocks;
            d_residuals := up_blocks; d_x_in := x_in; d_cs0 := cs0 |}
  else match up_blocks with
       | O => None
       | S ub1 =>
           match dec_while fuel cs1 os (Z.of_nat ub1) filters rate levels k up_interp with
           | None => None
           | Some (bs, ss) =>
               Some {| d_stack := for_part ++ bs; d_strides := halvings cs0 up_blocks ++ ss;
                       d_residuals := up_blocks; d_x_in := x_in; d_cs0 := cs0 |}
           end
       end.

(* Decoder.forward: outputs["outputs"]; features[i] out of range = IndexError *)
Fixpoint dec_forward (stack : list up_block) (i residuals : nat) (feats : list shape)
         (st : pstate) (x : shape) : option (list shape) * pstate :=
  match stack with
  | [] => (Some [], st)
  | ub :: r =>
      let go := fun feat =>
        match up_forward (ub_layers ub) 0 (ub_concat_at ub) feat st x with
        | (None, st') => (None, st')
        | (Some y, st') =>
            match dec_forward r (S i) residuals feats st' y with
            | (None, st'') => (None, st'')
            | (Some ys, st'') => (Some (y :: ys), st'')
            end
        end in
      if Nat.ltb i residuals then
        match nth_error feats i with
        | None => (None, st)
        | Some f => go (Some f)
        end
      else go None
  end.

(* --------------------------------------------------------------- unet.py *)
(* np.log2(x).astype(int) for x >= 1 *)
Definition log2i (x : Z) : Z := Z.log2 x.

Record backbone := {
  bb_kind : nat;                              (* 0 unet, 1 convnext, 2 swint *)
  bb_enc : list enc_item;                     (* unet: encoder_stack; others: enc.features *)
  bb_keys : list nat;                         (* unet: intermediate_features keys *)
  bb_dec : decoder;
  bb_rate : Q;
  bb_output_stride : Z }.

Definition unet_stem_blocks (c : unet_cfg) : Z :=
  match u_stem_stride c with None => 0 | Some s => log2i s end.
Definition unet_down_blocks (c : unet_cfg) : Z := log2i (u_max_stride c) - unet_stem_blocks c.
Definition unet_up_blocks (c : unet_cfg) : nat :=
  if u_output_stride c <=? u_max_stride c
  then Z.to_nat (log2i (u_max_stride c / u_output_stride c)) else O.

Definition count_pools (stack : list enc_item) : nat :=
  length (filter (fun it => ei_scb it && ei_pool it) stack).

(* UNet.from_config + UNet.__init__ *)
Definition build_unet_fx (fx : fixes) (c : unet_cfg) : option backbone :=
  let stem := Z.to_nat (unet_stem_blocks c) in
  let down := Z.to_nat (unet_down_blocks c) in
  match encoder_stack (fx18 fx) (u_in_channels c) (u_filters c) (u_rate c) stem down
                      (u_convs_per_block c) (u_kernel c) (u_middle c) with
  | None => None
  | Some stack =>
      let current_stride := 2 ^ Z.of_nat (count_pools stack) in
      let levels := Z.of_nat (down + stem) in
      let x_in := fint (u_filters c) (u_rate c)
                       (if fx17 fx && negb (u_middle c) then levels - 1 else levels) in
      match build_decoder x_in current_stride (u_filters c) (u_rate c) (unet_up_blocks c)
                          levels (u_output_stride c) (u_kernel c) (u_up_interp c) with
      | None => None
      | Some d => Some {| bb_kind := 0; bb_enc := stack; bb_keys := inter_feats stack 0 2 [];
                          bb_dec := d; bb_rate := u_rate c;
                          bb_output_stride := u_output_stride c |}
      end
  end.

Definition build_unet : unet_cfg -> option backbone := build_unet_fx nofix.

(* ----------------------------------------------------------- convnext.py *)
Record convnext_cfg := {
  c_model_type : nat;       (* 0 tiny, 1 small, 2 base, 3 large, other: use c_arch *)
  c_arch : option (list Z * list Z);    (* depths, channels *)
  c_in_channels : Z; c_kernel : Z; c_stem_kernel : Z; c_stem_stride : Z;
  c_rate : Q; c_up_interp : bool; c_output_stride : Z; c_max_stride : Z }.

Definition convnext_arch (c : convnext_cfg) : list Z * list Z :=
  match c_model_type c with
  | 0%nat => ([3;3;9;3], [96;192;384;768])
  | 1%nat => ([3;3;27;3], [96;192;384;768])
  | 2%nat => ([3;3;27;3], [128;256;512;1024])
  | 3%nat => ([3;3;27;3], [192;384;768;1536])
  | _ => match c_arch c with Some a => a | None => ([3;3;9;3], [96;192;384;768]) end
  end.

(* ConvNeXtEncoder.__init__: self.features after the stem; None = IndexError
   (channels shorter than depths) *)
Fixpoint convnext_stages (depths channels : list Z) : option (list (list layer)) :=
  match depths, channels with
  | [], _ => Some []
  | _ :: _, [] => None
  | d :: [], c :: _ => Some [repeat (LCNBlock c) (Z.to_nat d)]
  | d :: dt, c :: ct =>
      match ct with
      | [] => None
      | c2 :: _ =>
          match convnext_stages dt ct with
          | None => None
          | Some r => Some (repeat (LCNBlock c) (Z.to_nat d) :: [LNorm c; LConv c c2 2 2 0] :: r)
          end
      end
  end.

Definition plain_item (ls : list layer) : enc_item :=
  {| ei_scb := false; ei_pool := false; ei_layers := ls |}.

Definition build_convnext (c : convnext_cfg) : option backbone :=
  let '(depths, channels) := convnext_arch c in
  match channels, convnext_stages depths channels with
  | c0 :: _, Some stages =>
      let stem := [LConv (c_in_channels c) c0 (c_stem_kernel c) (c_stem_stride c) 1; LNorm c0] in
      let down := (length channels - 1)%nat in
      let current_stride := c_stem_stride c * 2 ^ (Z.of_nat down - 1) in   (* 2 ** (down_blocks - 1): a float for down_blocks = 0 *)
      let x_in := last channels 0 in
      match build_decoder x_in current_stride c0 (c_rate c) down (Z.of_nat down)
                          (c_output_stride c) (c_kernel c) (c_up_interp c) with
      | None => None
      | Some d => Some {| bb_kind := 1; bb_enc := map plain_item (stem :: stages); bb_keys := [];
                          bb_dec := d; bb_rate := c_rate c;
                          bb_output_stride := c_output_stride c |}
      end
  | _, _ => None
  end.

(* -------------------------------------------------------------- swint.py *)
Record swint_cfg := {
  s_model_type : nat;       (* 0 tiny, 1 small, 2 base, other: use s_arch *)
  s_arch : option (Z * list Z * list Z);    (* embed, depths, num_heads *)
  s_in_channels : Z; s_kernel : Z; s_patch : Z; s_stem_stride : Z;
  s_rate : Q; s_up_interp : bool; s_output_stride : Z; s_max_stride : Z }.

Definition swint_arch (c : swint_cfg) : Z * list Z * list Z :=
  match s_model_type c with
  | 0%nat => (96, [2;2;6;2], [3;6;12;24])
  | 1%nat => (96, [2;2;18;2], [3;6;12;24])
  | 2%nat => (128, [2;2;18;2], [4;8;16;32])
  | _ => match s_arch c with Some a => a | None => (96, [2;2;6;2], [3;6;12;24]) end
  end.

(* SwinTransformerEncoder.__init__: stages and patch-merging layers; dim = embed * 2**i_stage.
   None = IndexError (num_heads shorter than depths). *)
Fixpoint swint_stages (dim : Z) (depths heads : list Z) : option (list (list layer)) :=
  match depths, heads with
  | [], _ => Some []
  | _ :: _, [] => None
  | d :: [], nh :: _ => Some [repeat (LSwinBlock dim nh) (Z.to_nat d)]
  | d :: dt, nh :: ht =>
      match swint_stages (2 * dim) dt ht with
      | None => None
      | Some r => Some (repeat (LSwinBlock dim nh) (Z.to_nat d) :: [LMerge dim] :: r)
      end
  end.

Definition build_swint (c : swint_cfg) : option backbone :=
  let '(embed, depths, heads) := swint_arch c in
  match depths, swint_stages embed depths heads with
  | _ :: _, Some stages =>
      let stem := [LConv (s_in_channels c) embed (s_patch c) (s_stem_stride c) 1; LNorm embed] in
      let down := (length depths - 1)%nat in
      let current_stride := s_stem_stride c * 2 ^ (Z.of_nat down - 1) in
      let x_in := embed * 2 ^ Z.of_nat down in
      (* self.norm = LayerNorm(embed * 2**(len(depths)-1)) is applied to the last element *)
      let stages' := removelast stages ++ [last stages [] ++ [LNorm x_in]] in
      match build_decoder x_in current_stride embed (s_rate c) down (Z.of_nat down)
                          (s_output_stride c) (s_kernel c) (s_up_interp c) with
      | None => None
      | Some d => Some {| bb_kind := 2; bb_enc := map plain_item (stem :: stages'); bb_keys := [];
                          bb_dec := d; bb_rate := s_rate c;
                          bb_output_stride := s_output_stride c |}
      end
  | _, _ => None
  end.

(* ConvNeXtEncoder.forward / SwinTransformerEncoder.forward: the list of all
   intermediate outputs *)
Fixpoint feats_forward (items : list enc_item) (st : pstate) (x : shape)
  : option (list shape) * pstate :=
  match items with
  | [] => (Some [], st)
  | it :: r =>
      match run_layers (ei_layers it) st x with
      | (None, st') => (None, st')
      | (Some y, st') =>
          match feats_forward r st' y with
          | (None, st'') => (None, st'')
          | (Some ys, st'') => (Some (y :: ys), st'')
          end
      end
  end.

Fixpoint every_other {A} (l : list A) : list A :=       (* l[::2] *)
  match l with
  | [] => []
  | a :: [] => [a]
  | a :: _ :: t => a :: every_other t
  end.

(* backbone.forward: the decoder's outputs (strides are d_strides) *)
Definition backbone_forward (b : backbone) (st : pstate) (x : shape)
  : option (list shape) * pstate :=
  match bb_kind b with
  | 0%nat =>
      match enc_forward (bb_enc b) 0 (bb_keys b) st x [] with
      | (None, st') => (None, st')
      | (Some (y, feats), st') =>
          dec_forward (d_stack (bb_dec b)) 0 (d_residuals (bb_dec b)) feats st' y
      end
  | _ =>
      match feats_forward (bb_enc b) st x with
      | (None, st') => (None, st')
      | (Some outs, st') =>
          match rev outs with
          | [] => (None, st')                              (* enc_output[-1] of an empty list *)
          | y :: _ =>
              let feats := rev (removelast (every_other outs)) in    (* [::2][:-1][::-1] *)
              dec_forward (d_stack (bb_dec b)) 0 (d_residuals (bb_dec b)) feats st' y
          end
      end
  end.

(* the encoder's output, i.e. the decoder's input `x` (repair fx41: Decoder.forward
   returns it as outputs["encoder_output"]); same state, same input as backbone_forward *)
Definition backbone_bottom (b : backbone) (st : pstate) (x : shape) : option shape :=
  match bb_kind b with
  | 0%nat =>
      match enc_forward (bb_enc b) 0 (bb_keys b) st x [] with
      | (Some (y, _), _) => Some y
      | (None, _) => None
      end
  | _ =>
      match feats_forward (bb_enc b) st x with
      | (Some outs, _) => match rev outs with [] => None | y :: _ => Some y end
      | (None, _) => None
      end
  end.

(* -------------------------------------------------------------- heads.py *)
Inductive head_kind := HSingle | HCentroid | HCentered | HMulti | HPaf | HClassMaps | HOffset.
Record head := { h_kind : head_kind;
                 h_n : Z;             (* number of parts / edges / classes *)
                 h_os : Z }.          (* output_stride *)

(* Head.channels *)
Definition head_channels (h : head) : Z :=
  match h_kind h with
  | HCentroid => 1
  | HPaf => 2 * h_n h
  | HOffset => 2 * h_n h
  | _ => h_n h
  end.

(* Head.make_head: Conv2d(x_in, channels, kernel 1, padding "same") + activation *)
Definition make_head (h : head) (x_in : Z) : list layer := [LConvSame x_in (head_channels h) 1; LAct].

(* model.get_head *)
Inductive model_type := MSingle | MCentered | MCentroid | MBottomUp.
Definition get_head (mt : model_type) (parts edges os_confmaps os_pafs : Z) : list head :=
  match mt with
  | MSingle => [{| h_kind := HSingle; h_n := parts; h_os := os_confmaps |}]
  | MCentered => [{| h_kind := HCentered; h_n := parts; h_os := os_confmaps |}]
  | MCentroid => [{| h_kind := HCentroid; h_n := parts; h_os := os_confmaps |}]
  | MBottomUp => [{| h_kind := HMulti; h_n := parts; h_os := os_confmaps |};
                  {| h_kind := HPaf; h_n := edges; h_os := os_pafs |}]
  end.

(* -------------------------------------------------------------- model.py *)
Record model := { m_backbone : backbone; m_heads : list head; m_head_layers : list (list layer);
                  m_f41 : bool }.     (* the code has the fx41 repair (f15d414: current tree) *)

(* Model.encoder_stride (fx41) *)
Definition encoder_stride (b : backbone) : Z := 2 * d_cs0 (bb_dec b).
Definition at_top (f41 : bool) (b : backbone) (h : head) : bool := f41 && (h_os h =? encoder_stride b).

(* max_channels property of the three wrappers *)
Definition max_channels (b : backbone) : Z := d_x_in (bb_dec b).

(* Model.__init__: in_channels of one head layer.
   fixed = false: the arithmetic of the pinned tree (before fix 14997bd);
   fixed = true : the current tree (14997bd): take the channel count of the decoder
                  block that serves the head. *)
Definition head_in_channels (fixed : bool) (b : backbone) (min_os : Z) (h : head) : option Z :=
  let strides := d_strides (bb_dec b) in
  if fixed then
    match index_of (h_os h) strides with
    | None => None
    | Some i => match nth_error (d_stack (bb_dec b)) i with
                | None => None
                | Some ub => Some (trunc (ub_out ub))
                end
    end
  else
    let base := round_half_even
                  (inject_Z (max_channels b) / Qpower (bb_rate b) (Z.of_nat (length (d_stack (bb_dec b)))))%Q in
    if h_os h =? min_os then Some base
    else match index_of min_os strides, index_of (h_os h) strides with
         | Some i1, Some i2 =>
             Some (trunc (inject_Z base * Qpower (bb_rate b) (Z.of_nat i1 - Z.of_nat i2))%Q)
         | _, _ => None
         end.

Definition head_in_channels_fx (f41 fixed : bool) (b : backbone) (min_os : Z) (h : head) : option Z :=
  if at_top f41 b h then Some (d_x_in (bb_dec b)) else head_in_channels fixed b min_os h.

Definition build_model_fx (f41 fixed : bool) (ob : option backbone) (heads : list head) : option model :=
  match ob with
  | None => None
  | Some b =>
      let min_os := Z.min (min_list (bb_output_stride b) (map h_os heads)) (bb_output_stride b) in
      match all_some (map (head_in_channels_fx f41 fixed b min_os) heads) with
      | None => None
      | Some ins => Some {| m_backbone := b; m_heads := heads;
                            m_head_layers := map (fun hi => make_head (fst hi) (snd hi)) (combine heads ins);
                            m_f41 := f41 |}
      end
  end.
Definition build_model : bool -> option backbone -> list head -> option model := build_model_fx false.

(* Model.forward: one output per head, in head order *)
Definition model_forward (m : model) (st : pstate) (x : shape) : option (list shape) * pstate :=
  match backbone_forward (m_backbone m) st x with
  | (None, st') => (None, st')
  | (Some outs, st') =>
      (all_some (map (fun hl =>
          if at_top (m_f41 m) (m_backbone m) (fst hl) then
            match backbone_bottom (m_backbone m) st x with
            | None => None
            | Some y => fst (run_layers (snd hl) st' y)
            end
          else
          match index_of (h_os (fst hl)) (d_strides (bb_dec (m_backbone m))) with
          | None => None
          | Some idx => match nth_error outs idx with
                        | None => None
                        | Some y => fst (run_layers (snd hl) st' y)
                        end
          end) (combine (m_heads m) (m_head_layers m))), st')
  end.

(* a sequence of calls on one model instance (the state persists, also across
   calls that raise) *)
Fixpoint model_calls (m : model) (st : pstate) (xs : list shape) : list (option (list shape)) :=
  match xs with
  | [] => []
  | x :: t => let '(o, st') := model_forward m st x in o :: model_calls m st' t
  end.

(* every Conv2d / ConvTranspose2d of the model in registration order *)
Definition model_convs (m : model) : list (Z * Z * (Z * Z)) :=
  flat_map (fun it => flat_map convs_of (ei_layers it)) (bb_enc (m_backbone m)) ++
  flat_map (fun ub => flat_map convs_of (ub_layers ub)) (d_stack (bb_dec (m_backbone m))) ++
  flat_map (flat_map convs_of) (m_head_layers m).

(* ------------------------------------------------- the data pipeline's side *)
(* target shape for a head: (channels, ceil(H / os), ceil(W / os))
   (generate_confmaps / generate_multiconfmaps / generate_pafs: C01, C05) *)
Definition target_shape (h : head) (H W : Z) : shape :=
  (head_channels h, ceil_div H (h_os h), ceil_div W (h_os h)).

(* ----------------------------------------------- finding selectors
   F17, F18, F20, F41 (UNet; top head of ConvNeXt / Swin-T), F43: FIXED in /repo (historic
   selectors, kept so that a regression is attributed); F42, F44: open (known). *)
Inductive config :=
| CfgUNet (c : unet_cfg)
| CfgConvNext (c : convnext_cfg)
| CfgSwinT (c : swint_cfg).

Definition build_backbone_fx (fx : fixes) (c : config) : option backbone :=
  match c with
  | CfgUNet u => build_unet_fx fx u
  | CfgConvNext u => build_convnext u
  | CfgSwinT u => build_swint u
  end.
Definition build_backbone : config -> option backbone := build_backbone_fx nofix.

Definition cfg_max_stride (c : config) : Z :=
  match c with
  | CfgUNet u => u_max_stride u
  | CfgConvNext u => c_max_stride u
  | CfgSwinT u => s_max_stride u
  end.
Definition cfg_output_stride (c : config) : Z :=
  match c with
  | CfgUNet u => u_output_stride u
  | CfgConvNext u => c_output_stride u
  | CfgSwinT u => s_output_stride u
  end.
Definition cfg_in_channels (c : config) : Z :=
  match c with
  | CfgUNet u => u_in_channels u
  | CfgConvNext u => c_in_channels u
  | CfgSwinT u => s_in_channels u
  end.
(* stem_patch_stride of the torchvision-derived backbones *)
Definition cfg_patch_stride (c : config) : option Z :=
  match c with
  | CfgUNet _ => None
  | CfgConvNext u => Some (c_stem_stride u)
  | CfgSwinT u => Some (s_stem_stride u)
  end.
(* the stride the encoder really reaches: stem_patch_stride * 2**(stages-1) *)
Definition effective_max_stride (c : config) : Z :=
  match c with
  | CfgUNet u => u_max_stride u
  | CfgConvNext u => c_stem_stride u * 2 ^ (Z.of_nat (length (snd (convnext_arch u))) - 1)
  | CfgSwinT u => s_stem_stride u * 2 ^ (Z.of_nat (length (snd (fst (swint_arch u)))) - 1)
  end.

(* F17: UNet without the middle block *)
Definition selector_F17 (c : config) : bool :=
  match c with CfgUNet u => negb (u_middle u) | _ => false end.
(* F18: UNet with fewer than two convolutions per block *)
Definition selector_F18 (c : config) : bool :=
  match c with CfgUNet u => u_convs_per_block u <? 2 | _ => false end.
(* F20: ConvNeXt / Swin-T whose finest requested stride is coarser than the stem stride *)
Definition selector_F20 (c : config) (heads : list head) : bool :=
  match cfg_patch_stride c with
  | None => false
  | Some sps => sps <? Z.min (min_list (cfg_output_stride c) (map h_os heads)) (cfg_output_stride c)
  end.
(* F41: a head at the coarsest stride (the encoder output itself) *)
Definition selector_F41 (c : config) (heads : list head) : bool :=
  existsb (fun h => effective_max_stride c <=? h_os h) heads.
(* F42: ConvNeXt / Swin-T whose configured max_stride is smaller than the stride the
   encoder reaches, on an input that is a multiple of the former only *)
Definition selector_F42 (c : config) (H W : Z) : bool :=
  match cfg_patch_stride c with
  | None => false
  | Some _ => (cfg_max_stride c <? effective_max_stride c) &&
              negb ((H mod effective_max_stride c =? 0) && (W mod effective_max_stride c =? 0))
  end.
(* F43: the head's in_channels, recomputed from max_channels by rounding, differs
   from the channel count of the decoder block that serves it *)
Definition selector_F43 (c : config) (heads : list head) : bool :=
  match c, build_backbone c with
  | CfgUNet _, Some b =>
      let min_os := Z.min (min_list (bb_output_stride b) (map h_os heads)) (bb_output_stride b) in
      existsb (fun h => match head_in_channels false b min_os h, head_in_channels true b min_os h with
                        | Some a, Some a' => negb (a =? a')
                        | _, _ => false
                        end) heads
  | _, _ => false
  end.

(* F44 (ConvNeXt / Swin-T only; open in the current tree): a head whose stride is coarser
   than the stride the encoder reaches (stem_patch_stride * 8).  Valid, because the configured
   max_stride admits it (config.check_output_strides even raises max_stride to the coarsest
   head stride), but no feature map of that stride exists: `strides.index` raises ValueError
   at construction, with or without the fx41 repair.  F44 implies F41 (historic selector). *)
Definition selector_F44 (c : config) (heads : list head) : bool :=
  match cfg_patch_stride c with
  | None => false
  | Some _ => existsb (fun h => effective_max_stride c <? h_os h) heads
  end.

Definition any_selector (c : config) (heads : list head) (H W : Z) : bool :=
  selector_F17 c || selector_F18 c || selector_F20 c heads || selector_F41 c heads ||
  selector_F42 c H W || selector_F43 c heads.

(* the contract: one output per head, (channels, H / os, W / os) *)
Definition contracted (heads : list head) (H W : Z) : list shape :=
  map (fun h => (head_channels h, H / h_os h, W / h_os h)) heads.

Definition shape_eqb (a b : shape) : bool :=
  let '(c1, h1, w1) := a in let '(c2, h2, w2) := b in (c1 =? c2) && (h1 =? h2) && (w1 =? w2).
Fixpoint shapes_eqb (a b : list shape) : bool :=
  match a, b with
  | [], [] => true
  | x :: s, y :: t => shape_eqb x y && shapes_eqb s t
  | _, _ => false
  end.

(* "the assembled model maps the input to the contracted outputs" as a boolean *)
Definition meets_contract (fixed : bool) (c : config) (heads : list head) (H W : Z) : bool :=
  match build_model fixed (build_backbone c) heads with
  | None => false
  | Some m => match fst (model_forward m fresh (cfg_in_channels c, H, W)) with
              | None => false
              | Some outs => shapes_eqb outs (contracted heads H W)
              end
  end.

(* the same with the repairs as flags *)
Definition meets_contract_fx (fixed : bool) (fx : fixes) (c : config) (heads : list head) (H W : Z) : bool :=
  match build_model_fx (fx41 fx) fixed (build_backbone_fx fx c) heads with
  | None => false
  | Some m => match fst (model_forward m fresh (cfg_in_channels c, H, W)) with
              | None => false
              | Some outs => shapes_eqb outs (contracted heads H W)
              end
  end.

(* the selectors that remain an excuse once the repairs `fx` (and the head rule
   `fixed`) are in the code *)
Definition any_selector_fx (fixed : bool) (fx : fixes) (c : config) (heads : list head) (H W : Z) : bool :=
  (negb (fx17 fx) && selector_F17 c) || (negb (fx18 fx) && selector_F18 c) ||
  (negb fixed && selector_F20 c heads) || (negb (fx41 fx) && selector_F41 c heads) ||
  (negb (fx42 fx) && selector_F42 c H W) || (negb fixed && selector_F43 c heads).

(* ------------------------------------------------ validity, as a boolean *)
(* "valid" = accepted by config/model_config.py and inside the documented ranges:
   strides are powers of two, backbone output stride <= every head stride <=
   max stride, UNet: stem stride <= max stride, filters_rate >= 1;
   ConvNeXt / Swin-T: four stages whose widths double (the shipped tiny/small/
   base/large, or a well-formed custom arch), base width a multiple of 4,
   filters_rate 2 (= the encoder's width ratio), stem kernel 4, stem stride 2 or 4 *)
Definition is_pow2 (z : Z) : bool := (0 <? z) && (z =? 2 ^ Z.log2 z).
Definition q_is (q : Q) (n : Z) (d : positive) : bool := (Qnum q =? n) && Pos.eqb (Qden q) d.

Definition valid_heads (c : config) (heads : list head) : bool :=
  negb (match heads with [] => true | _ => false end) &&
  forallb (fun h => is_pow2 (h_os h) && (cfg_output_stride c <=? h_os h) &&
                    (h_os h <=? Z.max (cfg_max_stride c) (effective_max_stride c))) heads.

Definition convnext_arch_ok (u : convnext_cfg) : bool :=
  match convnext_arch u with
  | (ds, [c0; c1; c2; c3]) =>
      Nat.eqb (length ds) 4 && (0 <? c0) && (c0 mod 4 =? 0) &&
      (c1 =? 2 * c0) && (c2 =? 4 * c0) && (c3 =? 8 * c0)
  | _ => false
  end.

Definition swint_arch_ok (u : swint_cfg) : bool :=
  match swint_arch u with
  | (E, ds, [n0; n1; n2; n3]) =>
      Nat.eqb (length ds) 4 && (0 <? E) && (E mod 4 =? 0) &&
      (E mod n0 =? 0) && ((2 * E) mod n1 =? 0) && ((2 * (2 * E)) mod n2 =? 0) &&
      ((2 * (2 * (2 * E))) mod n3 =? 0)
  | _ => false
  end.

Definition cfg_kernel (c : config) : Z :=
  match c with
  | CfgUNet u => u_kernel u
  | CfgConvNext u => c_kernel u
  | CfgSwinT u => s_kernel u
  end.

(* sizes the constructors need positive (round-4 review, finding 1): kernel_size = 0,
   in_channels <= 0 or a head without channels make torch raise (on the CPU; the meta device
   does not notice kernel 0 / 0 output channels), while the shape calculus, which ignores the
   kernel of a "same" convolution, would go through.  Such configurations are not valid. *)
Definition positive_sizes (c : config) (heads : list head) : bool :=
  (0 <? cfg_kernel c) && (0 <? cfg_in_channels c) && forallb (fun h => 0 <? h_n h) heads.

Definition valid_config_core (c : config) (heads : list head) : bool :=
  is_pow2 (cfg_output_stride c) && is_pow2 (cfg_max_stride c) && valid_heads c heads &&
  match c with
  | CfgUNet u =>
      (2 <=? u_max_stride u) && (1 <=? u_convs_per_block u) && (1 <=? u_filters u) &&
      Qle_bool 1 (u_rate u) &&
      match u_stem_stride u with None => true | Some s => is_pow2 s && (s <=? u_max_stride u) end
  | CfgConvNext u =>
      q_is (c_rate u) 2 1 && ((c_stem_stride u =? 2) || (c_stem_stride u =? 4)) &&
      (c_stem_kernel u =? 4) && convnext_arch_ok u
  | CfgSwinT u =>
      q_is (s_rate u) 2 1 && ((s_stem_stride u =? 2) || (s_stem_stride u =? 4)) &&
      (s_patch u =? 4) && swint_arch_ok u
  end.

Definition valid_config (c : config) (heads : list head) : bool :=
  valid_config_core c heads && positive_sizes c heads.

(* the property's inputs: sides are positive multiples of the configured max_stride *)
Definition in_domain (c : config) (H W : Z) : bool :=
  (0 <? H) && (0 <? W) && (H mod cfg_max_stride c =? 0) && (W mod cfg_max_stride c =? 0).

(* fx42: the assembled backbone reports max(configured, effective) as its max_stride;
   the property's inputs are the multiples of what the model reports *)
Definition model_max_stride (f42 : bool) (c : config) : Z :=
  if f42 then Z.max (cfg_max_stride c) (effective_max_stride c) else cfg_max_stride c.
Definition in_domain_fx (f42 : bool) (c : config) (H W : Z) : bool :=
  (0 <? H) && (0 <? W) && (H mod model_max_stride f42 c =? 0) && (W mod model_max_stride f42 c =? 0).

Definition sel_vector (c : config) (heads : list head) (H W : Z) : list bool :=
  [selector_F17 c; selector_F18 c; selector_F20 c heads; selector_F41 c heads; selector_F42 c H W;
   selector_F43 c heads; selector_F44 c heads].

(* ------------------------------------------------ harness entry point *)
Inductive case :=
| CModel (fixed : bool) (fx : fixes) (c : config) (mt : model_type) (parts edges os_c os_p : Z)
         (inputs : list (Z * Z))                     (* a sequence of calls (H, W) on one instance *)
| CPool (sizes : list (Z * Z))                       (* one MaxPool2dWithSamePadding(2,2,"same"), a sequence of calls *)
| CEncoder (fx : fixes) (c : unet_cfg) (inputs : list (Z * Z)).   (* UNet encoder alone: (x, features) per call *)

Record result := {
  r_built : bool;                                    (* construction did not raise *)
  r_convs : list (Z * Z * (Z * Z));                  (* every conv layer (in, out, (kernel, stride)) *)
  r_strides : list Z;                                (* backbone.dec.current_strides *)
  r_calls : list (option (list shape)) }.            (* per call: None = raises *)

Fixpoint pool_calls (same : bool) (xs : list (Z * Z)) : list (option (list shape)) :=
  match xs with
  | [] => []
  | (h, w) :: t =>
      (match pool_side same h, pool_side same w with
       | Some h', Some w' => Some [(1, h', w')]
       | _, _ => None
       end) :: pool_calls false t
  end.

Fixpoint encoder_calls (b : backbone) (cin : Z) (st : pstate) (xs : list (Z * Z))
  : list (option (list shape)) :=
  match xs with
  | [] => []
  | (h, w) :: t =>
      let '(o, st') := enc_forward (bb_enc b) 0 (bb_keys b) st (cin, h, w) [] in
      (match o with None => None | Some (y, fs) => Some (y :: fs) end) :: encoder_calls b cin st' t
  end.

Definition run (c : case) : result :=
  match c with
  | CModel fixed fx cfg mt parts edges os_c os_p inputs =>
      match build_model_fx (fx41 fx) fixed (build_backbone_fx fx cfg) (get_head mt parts edges os_c os_p) with
      | None => {| r_built := false; r_convs := []; r_strides := []; r_calls := [] |}
      | Some m =>
          {| r_built := true; r_convs := model_convs m;
             r_strides := d_strides (bb_dec (m_backbone m));
             r_calls := model_calls m fresh
                          (map (fun hw => (cfg_in_channels cfg, fst hw, snd hw)) inputs) |}
      end
  | CPool sizes => {| r_built := true; r_convs := []; r_strides := []; r_calls := pool_calls true sizes |}
  | CEncoder fx u inputs =>
      match build_unet_fx fx u with
      | None => {| r_built := false; r_convs := []; r_strides := []; r_calls := [] |}
      | Some b => {| r_built := true; r_convs := []; r_strides := [];
                     r_calls := encoder_calls b (u_in_channels u) fresh inputs |}
      end
  end.

(* validity / domain / selectors of a model case, per call: compared with the
   harness's own (Python) implementation of the same predicates on every run *)
Definition classify (c : case) : list (bool * (bool * list bool)) :=
  match c with
  | CModel _ fx cfg mt parts edges os_c os_p inputs =>
      let heads := get_head mt parts edges os_c os_p in
      map (fun hw => (valid_config cfg heads, (in_domain_fx (fx42 fx) cfg (fst hw) (snd hw),
                                               sel_vector cfg heads (fst hw) (snd hw)))) inputs
  | _ => []
  end.

(* the same plus the data pipeline's target shapes (target_shape) for every head, per call:
   compared with the shapes of generate_confmaps / generate_multiconfmaps / generate_pafs on
   every generated size, multiples of the stride or not (ceil, not floor) *)
Definition classify_targets (c : case) : list ((bool * (bool * list bool)) * list shape) :=
  match c with
  | CModel _ fx cfg mt parts edges os_c os_p inputs =>
      let heads := get_head mt parts edges os_c os_p in
      map (fun hw => ((valid_config cfg heads, (in_domain_fx (fx42 fx) cfg (fst hw) (snd hw),
                                                sel_vector cfg heads (fst hw) (snd hw))),
                      map (fun hd => target_shape hd (fst hw) (snd hw)) heads)) inputs
  | _ => []
  end.

From SV Require Import Base.Render.
Definition rshape : shape -> rdr := rtriple rZ rZ rZ.
Definition rresult (r : result) : rdr :=
  rpair rbool (rtriple (rlist (rpair (rpair rZ rZ) (rpair rZ rZ))) (rlist rZ) (rlist (ropt (rlist rshape))))
        (r_built r, (r_convs r, r_strides r, r_calls r)).
Definition rclassify : list (bool * (bool * list bool)) -> rdr := rlist (rpair rbool (rpair rbool (rlist rbool))).
Definition rclassify_targets : list ((bool * (bool * list bool)) * list shape) -> rdr :=
  rlist (rpair (rpair rbool (rpair rbool (rlist rbool))) (rlist rshape)).
