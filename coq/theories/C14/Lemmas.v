(* Lemmas.v (C14) — all proofs about the shape calculus of Shapes.v. *)
From Coq Require Import List ZArith QArith Qround Qpower Qfield Bool Arith Lia Znumtheory.
Import ListNotations.
From SV Require Import C14.Shapes.
Open Scope Z_scope.

Ltac Zify.zify_post_hook ::= Z.to_euclidean_division_equations.

(* ------------------------------------------------------------------ pow2 *)
Fixpoint pow2 (n : nat) : Z := match n with O => 1 | S m => 2 * pow2 m end.

Lemma pow2_pos n : 0 < pow2 n.
Proof. induction n; cbn [pow2]; lia. Qed.

Lemma pow2_eq n : pow2 n = 2 ^ Z.of_nat n.
Proof.
  induction n. reflexivity.
  rewrite Nat2Z.inj_succ, Z.pow_succ_r by lia. cbn [pow2]. lia.
Qed.

Lemma pow2_add a b : pow2 (a + b) = pow2 a * pow2 b.
Proof. induction a; cbn [pow2 Nat.add]; lia. Qed.

Lemma pow2_lt a b : (a < b)%nat -> pow2 a < pow2 b.
Proof.
  intros H. replace b with (a + (b - a))%nat by lia. rewrite pow2_add.
  assert (2 <= pow2 (b - a)).
  { destruct (b - a)%nat eqn:E. lia. cbn [pow2]. pose proof (pow2_pos n). lia. }
  pose proof (pow2_pos a). nia.
Qed.

Lemma pow2_inj a b : pow2 a = pow2 b -> a = b.
Proof.
  intros H. destruct (lt_eq_lt_dec a b) as [[L|E]|L]; auto;
    apply pow2_lt in L; lia.
Qed.

Lemma pow2_log2 n : Z.log2 (pow2 n) = Z.of_nat n.
Proof. rewrite pow2_eq. apply Z.log2_pow2. lia. Qed.

Lemma pow2_div a b : (b <= a)%nat -> pow2 a / pow2 b = pow2 (a - b).
Proof.
  intros H. replace a with ((a - b) + b)%nat at 1 by lia. rewrite pow2_add.
  apply Z.div_mul. pose proof (pow2_pos b). lia.
Qed.

(* ----------------------------------------------------- the pooling layer *)
Lemma calc_same_pad_222 i : 0 < i -> calc_same_pad i 2 2 1 = i mod 2.
Proof. intros H. unfold calc_same_pad, ceil_div. lia. Qed.

(* first call ("same"): ceil(i / 2) *)
Lemma pool_side_same i : 0 < i -> pool_side true i = Some (ceil_div i 2).
Proof.
  intros H. unfold pool_side, max_pool_out. rewrite calc_same_pad_222 by assumption.
  unfold ceil_div.
  destruct (0 <? (i + i mod 2 + 2 * 0 - 1 * (2 - 1) - 1) / 2 + 1) eqn:E.
  - f_equal. lia.
  - apply Z.ltb_ge in E. lia.
Qed.

(* later calls (padding = 0): floor(i / 2), and a 1-pixel side raises *)
Lemma pool_side_later i : 2 <= i -> pool_side false i = Some (i / 2).
Proof.
  intros H. unfold pool_side, max_pool_out.
  destruct (0 <? (i + 2 * 0 - 1 * (2 - 1) - 1) / 2 + 1) eqn:E.
  - f_equal. lia.
  - apply Z.ltb_ge in E. lia.
Qed.

Lemma pool_side_later_1 : pool_side false 1 = None.
Proof. reflexivity. Qed.

(* on an even side the state is irrelevant: the computed pad is 0 *)
Lemma pool_side_even same a : 0 < a -> pool_side same (2 * a) = Some a.
Proof.
  intros H. destruct same.
  - rewrite pool_side_same by lia. f_equal. unfold ceil_div. lia.
  - rewrite pool_side_later by lia. f_equal. lia.
Qed.

Lemma calc_same_pad_even a : 0 < a -> calc_same_pad (2 * a) 2 2 1 = 0.
Proof. intros. rewrite calc_same_pad_222 by lia. lia. Qed.

(* on an odd side the first call and the later calls differ *)
Lemma pool_side_odd_differs a : 0 < a ->
  pool_side true (2 * a + 1) = Some (a + 1) /\ pool_side false (2 * a + 1) = Some a.
Proof.
  intros H. split.
  - rewrite pool_side_same by lia. f_equal. unfold ceil_div. lia.
  - rewrite pool_side_later by lia. f_equal. lia.
Qed.

(* ------------------------------------------------------------ conv chains *)
Lemma run_layers_app l1 l2 st x :
  run_layers (l1 ++ l2) st x =
  match run_layers l1 st x with
  | (None, st') => (None, st')
  | (Some y, st') => run_layers l2 st' y
  end.
Proof.
  revert st x. induction l1 as [|l t IH]; intros; cbn [run_layers app].
  - reflexivity.
  - destruct (run_layer l st x) as [[y|] st']; auto.
Qed.

Lemma conv_chain_gen cin f k n : forall a c h w st,
  (a = 0%nat -> c = cin) -> (a <> 0%nat -> c = f) ->
  run_layers (flat_map (fun i => [LConvSame (if Nat.eqb i 0 then cin else f) f k; LAct]) (seq a n)) st (c, h, w)
  = (Some ((if Nat.eqb n 0 then c else f), h, w), st).
Proof.
  induction n as [|n IH]; intros a c h w st H0 H1.
  - reflexivity.
  - cbn [seq flat_map app run_layers run_layer].
    assert (E : c = (if Nat.eqb a 0 then cin else f)).
    { destruct a; cbn; [apply H0 | apply H1]; auto. }
    rewrite <- E, Z.eqb_refl. cbn [run_layer].
    rewrite (IH (S a) f h w st) by (intros; congruence).
    destruct n; reflexivity.
Qed.

Lemma run_conv_chain cin f k n h w st :
  run_layers (conv_chain cin f k n) st (cin, h, w) = (Some ((if Nat.eqb n 0 then cin else f), h, w), st).
Proof. unfold conv_chain. apply conv_chain_gen; intros; congruence. Qed.

(* ------------------------------------------------------ SimpleConvBlock *)
Lemma scb_pooled_run id c f kk n st h w : (0 < n)%nat -> 0 < h -> 0 < w ->
  run_layers (simple_conv_block id c true true n f kk) st (c, 2 * h, 2 * w) = (Some (f, h, w), clear st id).
Proof.
  intros Hn Hh Hw. unfold simple_conv_block. cbn [andb negb app run_layers run_layer].
  rewrite !pool_side_even by assumption. rewrite app_nil_r, run_conv_chain.
  destruct n; [lia | reflexivity].
Qed.

Lemma scb_plain_run id c f kk pb n st h w :
  run_layers (simple_conv_block id c false pb n f kk) st (c, h, w)
  = (Some ((if Nat.eqb n 0 then c else f), h, w), st).
Proof.
  unfold simple_conv_block. cbn [andb app]. rewrite app_nil_r. apply run_conv_chain.
Qed.

Lemma seq_shift_n s len : forall a, seq (a + s) len = map (fun i => (i + s)%nat) (seq a len).
Proof. induction len as [|l IH]; intros a; cbn [seq map]. reflexivity. f_equal. apply (IH (S a)). Qed.

Lemma nth_error_seq len : forall a j, (j < len)%nat -> nth_error (seq a len) j = Some (a + j)%nat.
Proof.
  induction len as [|l IH]; intros a j Hj. lia.
  destruct j; cbn [seq nth_error]. f_equal; lia.
  rewrite IH by lia. f_equal. lia.
Qed.

(* -------------------------------------------------------- UNet encoder *)
Section UNetEncoder.
(* ns / nd: number of convolutions in a stem / down block (both positive);
   mids: whatever follows the bare pooling layer (the middle block, or nothing),
   characterised by what it does to the pooled tensor *)
Variables (cin filters : Z) (rate : Q) (ns nd : nat) (k : Z) (stem down : nat).
Hypothesis Hns : (0 < ns)%nat.
Hypothesis Hnd : (0 < nd)%nat.
Let F (i : Z) : Z := fint filters rate i.
Let n := (stem + down)%nat.

Definition stem_item (b : nat) : enc_item :=
  {| ei_scb := true; ei_pool := negb (Nat.eqb b 0);
     ei_layers := simple_conv_block b (if Nat.eqb b 0 then cin else F (Z.of_nat b - 1))
                    (negb (Nat.eqb b 0)) true ns (F (Z.of_nat b)) stem_kernel |}.
Definition down_item (b : nat) : enc_item :=
  let i := (b + stem)%nat in
  {| ei_scb := true; ei_pool := negb (Nat.eqb i 0);
     ei_layers := simple_conv_block i (if Nat.eqb i 0 then cin else F (Z.of_nat i - 1))
                    (negb (Nat.eqb i 0)) true nd (F (Z.of_nat i)) k |}.
Definition lvl (i : nat) : enc_item := if Nat.ltb i stem then stem_item i else down_item (i - stem).
Definition bare_item : enc_item := {| ei_scb := false; ei_pool := false; ei_layers := [LPool n] |}.
Lemma levels_eq :
  map stem_item (seq 0 stem) ++ map down_item (seq 0 down) = map lvl (seq 0 n).
Proof.
  unfold n. rewrite seq_app, map_app. f_equal.
  - apply map_ext_in. intros i Hi. apply in_seq in Hi. unfold lvl.
    destruct (Nat.ltb_spec i stem); [reflexivity | lia].
  - rewrite (seq_shift_n stem down 0), map_map.
    apply map_ext. intros i. unfold lvl.
    destruct (Nat.ltb_spec (i + stem) stem); [lia |].
    f_equal. lia.
Qed.

(* a level block (index >= 1): pool, then at least one convolution *)
Lemma lvl_run i st h w : (0 < i)%nat -> 0 < h -> 0 < w ->
  run_layers (ei_layers (lvl i)) st (F (Z.of_nat i - 1), 2 * h, 2 * w) = (Some (F (Z.of_nat i), h, w), clear st i).
Proof.
  intros Hi Hh Hw. unfold lvl. destruct (Nat.ltb_spec i stem).
  - unfold stem_item. cbn [ei_layers]. destruct (Nat.eqb_spec i 0); [lia|]. cbn [negb].
    apply scb_pooled_run; lia.
  - unfold down_item. cbn [ei_layers]. replace (i - stem + stem)%nat with i by lia.
    destruct (Nat.eqb_spec i 0); [lia|]. cbn [negb].
    apply scb_pooled_run; lia.
Qed.

(* block 0: no pooling *)
Lemma lvl0_run st h w :
  run_layers (ei_layers (lvl 0)) st (cin, h, w) = (Some (F 0, h, w), st).
Proof.
  unfold lvl. destruct (Nat.ltb_spec 0 stem).
  - unfold stem_item. cbn [ei_layers Nat.eqb negb]. rewrite scb_plain_run.
    destruct (Nat.eqb_spec ns 0); [lia | reflexivity].
  - unfold down_item. cbn [ei_layers]. replace (0 - stem + stem)%nat with 0%nat by lia.
    cbn [Nat.eqb negb]. rewrite scb_plain_run.
    destruct (Nat.eqb_spec nd 0); [lia | reflexivity].
Qed.

Lemma lvl_flags i : ei_scb (lvl i) = true /\ ei_pool (lvl i) = negb (Nat.eqb i 0).
Proof.
  unfold lvl. destruct (Nat.ltb_spec i stem); cbn; split; auto.
  replace (i - stem + stem)%nat with i by lia. reflexivity.
Qed.

Definition lvl_feats (i0 len : nat) (h w : Z) : list shape :=
  map (fun t => (F (Z.of_nat i0 + Z.of_nat len - 1 - Z.of_nat t), h * pow2 t, w * pow2 t)) (seq 0 len).

Lemma lvl_feats_S i0 len h w :
  lvl_feats i0 (S len) h w = lvl_feats (S i0) len h w ++ [(F (Z.of_nat i0), h * pow2 len, w * pow2 len)].
Proof.
  unfold lvl_feats. rewrite seq_S, map_app. cbn [map Nat.add]. f_equal.
  - apply map_ext. intros t.
    replace (Z.of_nat i0 + Z.of_nat (S len) - 1 - Z.of_nat t)
      with (Z.of_nat (S i0) + Z.of_nat len - 1 - Z.of_nat t) by lia. reflexivity.
  - replace (Z.of_nat i0 + Z.of_nat (S len) - 1 - Z.of_nat len) with (Z.of_nat i0) by lia.
    reflexivity.
Qed.

Lemma enc_levels : forall len i0 rest keys st h w feats, (0 < i0)%nat ->
  (forall i, (i0 <= i < i0 + len)%nat -> memn i keys = true) -> 0 < h -> 0 < w ->
  exists st',
    enc_forward (map lvl (seq i0 len) ++ rest) i0 keys st
                (F (Z.of_nat i0 - 1), h * pow2 len, w * pow2 len) feats
    = enc_forward rest (i0 + len) keys st' (F (Z.of_nat i0 + Z.of_nat len - 1), h, w)
                  (lvl_feats i0 len h w ++ feats).
Proof.
  induction len as [|len IH]; intros i0 rest keys st h w feats Hi Hk Hh Hw.
  - exists st. cbn [seq map app pow2 lvl_feats]. rewrite !Z.mul_1_r, Nat.add_0_r.
    replace (Z.of_nat i0 + Z.of_nat 0 - 1) with (Z.of_nat i0 - 1) by lia. reflexivity.
  - cbn [seq map app enc_forward pow2].
    replace (h * (2 * pow2 len)) with (2 * (h * pow2 len)) by lia.
    replace (w * (2 * pow2 len)) with (2 * (w * pow2 len)) by lia.
    pose proof (pow2_pos len).
    rewrite lvl_run by nia.
    rewrite Hk by lia.
    destruct (IH (S i0) rest keys (clear st i0) h w
                 ((F (Z.of_nat i0), h * pow2 len, w * pow2 len) :: feats)) as [st' E]; try lia.
    { intros i Hi'. apply Hk. lia. }
    exists st'.
    replace (Z.of_nat (S i0) - 1) with (Z.of_nat i0) in E by lia.
    eapply eq_trans; [exact E|]. rewrite lvl_feats_S, <- app_assoc. cbn [app].
    replace (S i0 + len)%nat with (i0 + S len)%nat by lia.
    replace (Z.of_nat (S i0) + Z.of_nat len - 1) with (Z.of_nat i0 + Z.of_nat (S len) - 1) by lia.
    reflexivity.
Qed.

(* intermediate_features keys *)
Lemma inter_feats_levels : forall len i0 rest cs vals, (0 < i0)%nat -> 0 < cs ->
  In cs vals -> Forall (fun v => v <= cs) vals ->
  exists cs' vals', In cs' vals' /\ inter_feats (map lvl (seq i0 len) ++ rest) i0 cs vals
    = seq i0 len ++ inter_feats rest (i0 + len) cs' vals'.
Proof.
  induction len as [|len IH]; intros i0 rest cs vals Hi Hc Hin Hall.
  - exists cs, vals. cbn [seq map app]. rewrite Nat.add_0_r. auto.
  - cbn [seq map app inter_feats].
    destruct (lvl_flags i0) as [E1 E2]. rewrite E1, E2.
    destruct (Nat.eqb_spec i0 0); [lia|]. cbn [negb andb].
    assert (Hno : existsb (Z.eqb (cs * 2)) vals = false).
    { apply not_true_is_false. intros Hex. apply existsb_exists in Hex.
      destruct Hex as [v [Hv Hv2]]. apply Z.eqb_eq in Hv2.
      rewrite Forall_forall in Hall. specialize (Hall v Hv). lia. }
    rewrite Hno.
    destruct (IH (S i0) rest (cs * 2) (cs * 2 :: vals)) as [cs' [vals' [Hin' E]]]; try lia.
    { left; reflexivity. }
    { constructor. lia. eapply Forall_impl; [|exact Hall]. cbn. intros; lia. }
    exists cs', vals'. split; auto. rewrite E.
    replace (S i0 + len)%nat with (i0 + S len)%nat by lia. reflexivity.
Qed.

Lemma inter_feats_skip : forall rest i cs vals,
  Forall (fun it => ei_scb it && ei_pool it = false) rest -> In cs vals ->
  inter_feats rest i cs vals = [].
Proof.
  induction rest as [|it rest IH]; intros i cs vals Hall Hin. reflexivity.
  inversion Hall as [|? ? Hit Hrest]; subst. cbn [inter_feats]. rewrite Hit.
  assert (E : existsb (Z.eqb cs) vals = true).
  { apply existsb_exists. exists cs. split; auto. apply Z.eqb_refl. }
  rewrite E. apply IH; auto.
Qed.

Variables (mids : list enc_item) (xout : Z).
Hypothesis Hmids_flags : Forall (fun it => ei_scb it && ei_pool it = false) mids.
Hypothesis Hmids_run : forall i keys st h w feats,
  (forall j, (i <= j)%nat -> memn j keys = false) ->
  enc_forward mids i keys st (fint filters rate (Z.of_nat (stem + down) - 1), h, w) feats = (Some ((xout, h, w), feats), st).

Lemma keys_eq : (0 < n)%nat ->
  inter_feats (map lvl (seq 0 n) ++ [bare_item] ++ mids) 0 2 [] = seq 0 n.
Proof.
  intros Hn. destruct n as [|n1] eqn:En; [lia|].
  cbn [seq map app inter_feats].
  destruct (lvl_flags 0) as [E1 E2]. rewrite E1, E2. cbn [Nat.eqb negb andb existsb].
  destruct (inter_feats_levels n1 1 ([bare_item] ++ mids) 2 [2]) as [cs' [vals' [Hin E]]]; try lia.
  { left; reflexivity. }
  { constructor; [lia | constructor]. }
  cbn [app] in E. cbn [app]. rewrite E.
  rewrite inter_feats_skip; [| constructor; [reflexivity | exact Hmids_flags] | exact Hin].
  rewrite app_nil_r. reflexivity.
Qed.

Lemma memn_seq i m : memn i (seq 0 m) = Nat.ltb i m.
Proof.
  unfold memn. destruct (Nat.ltb_spec i m).
  - apply existsb_exists. exists i. split. apply in_seq; lia. apply Nat.eqb_refl.
  - apply not_true_is_false. intros Hex. apply existsb_exists in Hex.
    destruct Hex as [j [Hj Hj2]]. apply in_seq in Hj. apply Nat.eqb_eq in Hj2. lia.
Qed.

Lemma count_pools_eq : (0 < n)%nat ->
  count_pools (map lvl (seq 0 n) ++ [bare_item] ++ mids) = (n - 1)%nat.
Proof.
  intros Hn. unfold count_pools. rewrite filter_app, app_length.
  destruct n as [|n1] eqn:En; [lia|].
  cbn [seq map filter].
  destruct (lvl_flags 0) as [E1 E2]. rewrite E1, E2. cbn [Nat.eqb negb andb].
  assert (Hf : forall l, (forall i, In i l -> (0 < i)%nat) ->
            length (filter (fun it => ei_scb it && ei_pool it) (map lvl l)) = length l).
  { induction l as [|a l IH]; intros Hl. reflexivity.
    cbn [map filter]. destruct (lvl_flags a) as [A1 A2]. rewrite A1, A2.
    destruct (Nat.eqb_spec a 0). { specialize (Hl a (or_introl eq_refl)). lia. }
    cbn [negb andb length]. f_equal. apply IH. intros; apply Hl; right; auto. }
  rewrite Hf by (intros i Hi; apply in_seq in Hi; lia).
  rewrite seq_length.
  assert (Hm : filter (fun it => ei_scb it && ei_pool it) mids = []).
  { clear - Hmids_flags. induction mids as [|it l IH]. reflexivity.
    inversion Hmids_flags as [|? ? Hit Hl]; subst. cbn [filter]. rewrite Hit. exact (IH Hl). }
  cbn [app filter bare_item ei_scb ei_pool andb]. rewrite Hm. cbn. lia.
Qed.

(* the whole encoder on an input whose sides are multiples of 2^n: the bottom
   tensor and the skip features, whatever the state of the pooling layers *)
Theorem unet_encoder_forward st h w : (0 < n)%nat -> 0 < h -> 0 < w ->
  exists st' feats,
    enc_forward (map lvl (seq 0 n) ++ [bare_item] ++ mids) 0 (seq 0 n) st
                (cin, h * pow2 n, w * pow2 n) []
    = (Some ((xout, h, w), feats), st') /\ forall j, (j < n)%nat ->
      nth_error feats j = Some (F (Z.of_nat n - 1 - Z.of_nat j), h * pow2 (S j), w * pow2 (S j)).
Proof.
  intros Hn Hh Hw. destruct n as [|n1] eqn:En; [lia|].
  cbn [seq map app enc_forward]. rewrite lvl0_run.
  replace (memn 0 (0%nat :: seq 1 n1)) with true by reflexivity.
  destruct (enc_levels n1 1 (bare_item :: mids) (seq 0 (S n1)) st (2 * h) (2 * w)
                       [(F 0, h * pow2 (S n1), w * pow2 (S n1))]) as [st1 E]; try lia.
  { intros i Hi. rewrite memn_seq. apply Nat.ltb_lt. lia. }
  cbn [pow2] in *.
  replace (2 * h * pow2 n1) with (h * (2 * pow2 n1)) in E by lia.
  replace (2 * w * pow2 n1) with (w * (2 * pow2 n1)) in E by lia.
  replace (Z.of_nat 1 - 1) with 0 in E by lia.
  cbn [seq] in E.
  eexists. eexists. split.
  - eapply eq_trans; [exact E|]. clear E.
    (* the bare pooling layer and the middle block *)
    change (0%nat :: seq 1 n1) with (seq 0 (S n1)).
    cbn [enc_forward bare_item ei_layers run_layers run_layer].
    rewrite !pool_side_even by lia.
    rewrite memn_seq. destruct (Nat.ltb_spec (1 + n1) (S n1)); [lia|].
    assert (En' : (stem + down)%nat = S n1) by exact En.
    unfold F. replace (Z.of_nat 1 + Z.of_nat n1 - 1) with (Z.of_nat (stem + down) - 1) by lia.
    rewrite Hmids_run. reflexivity.
    intros j Hj. rewrite memn_seq. apply Nat.ltb_ge. lia.
  - intros j Hj.
    destruct (Nat.eq_dec j n1) as [->|Hne].
    + rewrite nth_error_app2; unfold lvl_feats; rewrite map_length, seq_length; [|lia].
      rewrite Nat.sub_diag. cbn [nth_error].
      replace (Z.of_nat (S n1) - 1 - Z.of_nat n1) with 0 by lia. reflexivity.
    + rewrite nth_error_app1 by (unfold lvl_feats; rewrite map_length, seq_length; lia).
      unfold lvl_feats. rewrite nth_error_map, nth_error_seq by lia. cbn [option_map Nat.add].
      replace (Z.of_nat 1 + Z.of_nat n1 - 1 - Z.of_nat j) with (Z.of_nat (S n1) - 1 - Z.of_nat j) by lia.
      replace (2 * h * pow2 j) with (h * (2 * pow2 j)) by lia.
      replace (2 * w * pow2 j) with (w * (2 * pow2 j)) by lia.
      reflexivity.
Qed.

End UNetEncoder.

(* what Encoder.__init__ appends after the bare pooling layer *)
Definition mid_items (f18 : bool) (filters : Z) (rate : Q) (cpb k : Z) (stem down : nat) (middle : bool)
  : list enc_item :=
  let n := (stem + down)%nat in
  let after := fint filters rate (Z.of_nat n - 1) in
  let fn := fint filters rate (Z.of_nat n) in
  if middle then
    (if 1 <? cpb then
       [{| ei_scb := true; ei_pool := false;
           ei_layers := simple_conv_block (n + 1) after false false (Z.to_nat (cpb - 1)) fn k |}]
     else []) ++
    [{| ei_scb := true; ei_pool := false;
        ei_layers := simple_conv_block (n + 2) (if f18 && negb (1 <? cpb) then after else fn)
                       false false 1 fn k |}]
  else [].

(* the encoder's output channels *)
Definition enc_xout (filters : Z) (rate : Q) (n : nat) (middle : bool) : Z :=
  fint filters rate (if middle then Z.of_nat n else Z.of_nat n - 1).

(* convs_per_block is usable: >= 2, or 1 with the fx18 repair *)
Definition cpb_ok (f18 : bool) (cpb : Z) : Prop := 2 <= cpb \/ (cpb = 1 /\ f18 = true).

Lemma cpb_ok_counts f18 cpb : cpb_ok f18 cpb -> (0 < Z.to_nat cpb)%nat /\ (0 < down_convs f18 cpb)%nat.
Proof. unfold cpb_ok, down_convs. intros [H | [-> ->]]. destruct f18; lia. cbn. lia. Qed.

Lemma encoder_stack_eq f18 cin filters rate cpb k stem down middle : cpb_ok f18 cpb -> (0 < stem + down)%nat ->
  encoder_stack f18 cin filters rate stem down cpb k middle
  = Some (map (lvl cin filters rate (Z.to_nat cpb) (down_convs f18 cpb) k stem) (seq 0 (stem + down)) ++
          [bare_item stem down] ++ mid_items f18 filters rate cpb k stem down middle).
Proof.
  intros Hc Hn. destruct (cpb_ok_counts f18 cpb Hc) as [C1 C2].
  rewrite <- levels_eq by assumption. unfold encoder_stack.
  destruct (stem + down)%nat as [|n1] eqn:En; [lia|].
  rewrite <- !app_assoc.
  unfold bare_item, mid_items, stem_item, down_item. rewrite ?En.
  replace (Z.of_nat (S n1) - 1) with (Z.of_nat n1) by lia.
  reflexivity.
Qed.

Lemma mids_flags f18 filters rate cpb k stem down middle :
  Forall (fun it => ei_scb it && ei_pool it = false) (mid_items f18 filters rate cpb k stem down middle).
Proof. unfold mid_items. destruct middle; [destruct (1 <? cpb)|]; repeat constructor. Qed.

Lemma mids_run f18 filters rate cpb k stem down middle : cpb_ok f18 cpb ->
  forall i keys st h w feats, (forall j, (i <= j)%nat -> memn j keys = false) ->
  enc_forward (mid_items f18 filters rate cpb k stem down middle) i keys st
              (fint filters rate (Z.of_nat (stem + down) - 1), h, w) feats
  = (Some ((enc_xout filters rate (stem + down) middle, h, w), feats), st).
Proof.
  intros Hc i keys st h w feats Hk. unfold mid_items, enc_xout.
  destruct middle; [|reflexivity].
  destruct (Z.ltb_spec 1 cpb) as [H1|H1].
  - cbn [app enc_forward ei_layers]. rewrite scb_plain_run.
    destruct (Nat.eqb_spec (Z.to_nat (cpb - 1)) 0); [lia|].
    rewrite Hk by lia. rewrite andb_false_r. rewrite scb_plain_run. cbn [Nat.eqb].
    rewrite Hk by lia. reflexivity.
  - destruct Hc as [Hc | [-> ->]]; [lia|].
    cbn [app enc_forward ei_layers andb negb]. rewrite scb_plain_run. cbn [Nat.eqb].
    rewrite Hk by lia. reflexivity.
Qed.

(* ------------------------------------------------------------- decoder *)
Lemma trunc_inject_Z z : trunc (inject_Z z) = z.
Proof.
  unfold trunc. destruct (Qle_bool 0 (inject_Z z)).
  - apply Qfloor_Z.
  - apply Qceiling_Z.
Qed.

Section DecoderFor.
Variables (x_in filters : Z) (rate : Q) (levels k : Z) (up_interp : bool).
Let bfi (j : Z) : Z := fint filters rate (levels - 1 - j).
Definition dec_cin (j : nat) : Z := if Nat.eqb j 0 then x_in else bfi (Z.of_nat j - 1).
Let blk := dec_for_block x_in filters rate levels k up_interp.

Lemma dec_block_run j st h w :
  up_forward (ub_layers (blk j)) 0 (ub_concat_at (blk j))
             (Some (bfi (Z.of_nat j), 2 * h, 2 * w)) st (dec_cin j, h, w)
  = (Some (bfi (Z.of_nat j), 2 * h, 2 * w), st).
Proof.
  unfold blk, dec_for_block, simple_upsampling_block, dec_cin, dec_convs_per_block, conv_chain.
  fold bfi. rewrite trunc_inject_Z.
  destruct up_interp; destruct (Nat.eqb_spec j 0) as [->|Hj];
    cbn [ub_layers ub_concat_at seq flat_map app];
    repeat (progress (cbn [up_forward Nat.eqb run_layer concat andb]; rewrite ?Z.eqb_refl));
    reflexivity.
Qed.

Definition dec_out (h w : Z) (t : nat) : shape := (bfi (Z.of_nat t), h * pow2 (S t), w * pow2 (S t)).

Lemma dec_for_forward : forall len j u rest feats st h w, (j + len <= u)%nat ->
  (forall t, (t < u)%nat -> nth_error feats t = Some (dec_out h w t)) ->
  dec_forward (map blk (seq j len) ++ rest) j u feats st (dec_cin j, h * pow2 j, w * pow2 j)
  = match dec_forward rest (j + len) u feats st (dec_cin (j + len), h * pow2 (j + len), w * pow2 (j + len)) with
    | (None, s) => (None, s)
    | (Some ys, s) => (Some (map (dec_out h w) (seq j len) ++ ys), s)
    end.
Proof.
  induction len as [|len IH]; intros j u rest feats st h w Hle Hf.
  - cbn [seq map app]. rewrite Nat.add_0_r.
    destruct (dec_forward rest j u feats st (dec_cin j, h * pow2 j, w * pow2 j)) as [[ys|] s]; reflexivity.
  - cbn [seq map app dec_forward].
    destruct (Nat.ltb_spec j u); [|lia].
    rewrite Hf by lia. unfold dec_out at 1. cbn [pow2].
    replace (h * (2 * pow2 j)) with (2 * (h * pow2 j)) by lia.
    replace (w * (2 * pow2 j)) with (2 * (w * pow2 j)) by lia.
    rewrite dec_block_run.
    assert (Ec : bfi (Z.of_nat j) = dec_cin (S j)).
    { unfold dec_cin. cbn [Nat.eqb]. f_equal. lia. }
    rewrite Ec.
    replace (2 * (h * pow2 j)) with (h * pow2 (S j)) by (cbn [pow2]; lia).
    replace (2 * (w * pow2 j)) with (w * pow2 (S j)) by (cbn [pow2]; lia).
    rewrite (IH (S j) u rest feats st h w) by (auto; lia).
    replace (S j + len)%nat with (j + S len)%nat by lia.
    destruct (dec_forward rest (j + S len) u feats st
                (dec_cin (j + S len), h * pow2 (j + S len), w * pow2 (j + S len))) as [[ys|] s]; [|reflexivity].
    unfold dec_out at 3. rewrite <- Ec. reflexivity.
Qed.

End DecoderFor.

Lemma halve_pow2 : forall k m, (k <= m)%nat -> halve (pow2 m) k = pow2 (m - k).
Proof.
  induction k as [|k IH]; intros m H; cbn [halve].
  - f_equal. lia.
  - destruct m as [|m]; [lia|]. cbn [pow2].
    replace (2 * pow2 m / 2) with (pow2 m) by (pose proof (pow2_pos m); lia).
    rewrite IH by lia. f_equal.
Qed.

Lemma halve_pow2_all m : halve (pow2 m) (S m) = 0.
Proof.
  replace (S m) with (m + 1)%nat by lia.
  assert (H : forall a b x, halve x (a + b) = halve (halve x a) b).
  { induction a as [|a IH]; intros; cbn [halve Nat.add]; auto. }
  rewrite H, halve_pow2 by lia. rewrite Nat.sub_diag. reflexivity.
Qed.

Lemma halvings_pow2 : forall k m, (k <= S m)%nat ->
  halvings (pow2 m) k = map (fun j => pow2 (m - j)) (seq 0 k).
Proof.
  induction k as [|k IH]; intros m H. reflexivity.
  cbn [halvings seq map]. f_equal. { f_equal. lia. }
  destruct m as [|m].
  - destruct k; [reflexivity | lia].
  - cbn [pow2]. replace (2 * pow2 m / 2) with (pow2 m) by (pose proof (pow2_pos m); lia).
    rewrite IH by lia. rewrite <- seq_shift, map_map. apply map_ext. intros j. reflexivity.
Qed.

(* list.index in a list of distinct powers of two *)
Lemma index_of_map_pow2 (g : nat -> nat) : forall len a i,
  (forall x y, (a <= x < a + len)%nat -> (a <= y < a + len)%nat -> g x = g y -> x = y) ->
  (a <= i < a + len)%nat ->
  index_of (pow2 (g i)) (map (fun j => pow2 (g j)) (seq a len)) = Some (i - a)%nat.
Proof.
  induction len as [|len IH]; intros a i Hg Hi. lia.
  cbn [seq map index_of].
  destruct (Z.eqb_spec (pow2 (g i)) (pow2 (g a))) as [E|E].
  - apply pow2_inj, Hg in E; try lia. subst. f_equal. lia.
  - assert (i <> a) by congruence.
    rewrite (IH (S a) i); try lia. f_equal; lia.
    intros x y Hx Hy. apply Hg; lia.
Qed.

Lemma all_some_map {A B} (f : A -> option B) (g : A -> B) l :
  (forall a, In a l -> f a = Some (g a)) -> all_some (map f l) = Some (map g l).
Proof.
  induction l as [|a l IH]; intros H. reflexivity.
  cbn [map all_some]. rewrite (H a) by (left; auto). rewrite IH by (intros; apply H; right; auto).
  reflexivity.
Qed.

Lemma min_list_ge d l : Forall (fun x => d <= x) l -> min_list d l = d.
Proof.
  induction 1 as [|x l Hx Hl IH]; cbn [min_list]. reflexivity. rewrite IH. lia.
Qed.

Lemma combine_map_r {A B} (g : A -> B) l : combine l (map g l) = map (fun a => (a, g a)) l.
Proof. induction l as [|a l IH]; cbn [map combine]; congruence. Qed.

Lemma mul_pow2_div h n t : (t <= n)%nat -> h * pow2 n / pow2 t = h * pow2 (n - t).
Proof.
  intros H. replace n with ((n - t) + t)%nat at 1 by lia. rewrite pow2_add, Z.mul_assoc.
  apply Z.div_mul. pose proof (pow2_pos t). lia.
Qed.

(* ------------------------------------------------------- UNet assembly *)
(* the configurations the general theorem ranges over: strides are powers of two,
   stem = 2^s blocks (None: s = 0), d further down blocks, s + d >= 1 levels,
   backbone output stride 2^b with b < s + d *)
Definition unet_valid (c : unet_cfg) (s d b : nat) : Prop :=
  u_max_stride c = pow2 (s + d) /\ u_output_stride c = pow2 b /\ (b < s + d)%nat /\
  ((s = 0%nat /\ u_stem_stride c = None) \/ u_stem_stride c = Some (pow2 s)).
(* ... the backbone output stride may equal max_stride (no decoder block at all) *)
Definition unet_valid_le (c : unet_cfg) (s d b : nat) : Prop :=
  u_max_stride c = pow2 (s + d) /\ u_output_stride c = pow2 b /\ (b <= s + d)%nat /\ (0 < s + d)%nat /\
  ((s = 0%nat /\ u_stem_stride c = None) \/ u_stem_stride c = Some (pow2 s)).
Lemma unet_valid_weaken c s d b : unet_valid c s d b -> unet_valid_le c s d b.
Proof. intros (A & B & C & D). repeat split; auto; lia. Qed.

(* x_in_shape of the decoder (UNet.__init__) *)
Definition unet_xin (fx : fixes) (c : unet_cfg) (n : nat) : Z :=
  fint (u_filters c) (u_rate c) (if fx17 fx && negb (u_middle c) then Z.of_nat n - 1 else Z.of_nat n).

Definition unet_decoder_fx (fx : fixes) (c : unet_cfg) (n b : nat) : decoder :=
  {| d_stack := map (dec_for_block (unet_xin fx c n) (u_filters c) (u_rate c) (Z.of_nat n)
                                   (u_kernel c) (u_up_interp c)) (seq 0 (n - b));
     d_strides := map (fun j => pow2 (n - 1 - j)) (seq 0 (n - b));
     d_residuals := (n - b)%nat;
     d_x_in := unet_xin fx c n;
     d_cs0 := pow2 (n - 1) |}.

Definition unet_backbone_fx (fx : fixes) (c : unet_cfg) (s d b : nat) : backbone :=
  {| bb_kind := 0;
     bb_enc := map (lvl (u_in_channels c) (u_filters c) (u_rate c) (Z.to_nat (u_convs_per_block c))
                        (down_convs (fx18 fx) (u_convs_per_block c)) (u_kernel c) s)
                   (seq 0 (s + d)) ++ [bare_item s d] ++
               mid_items (fx18 fx) (u_filters c) (u_rate c) (u_convs_per_block c) (u_kernel c) s d (u_middle c);
     bb_keys := seq 0 (s + d);
     bb_dec := unet_decoder_fx fx c (s + d) b;
     bb_rate := u_rate c;
     bb_output_stride := u_output_stride c |}.

Lemma unet_xin_nofix c n : unet_xin nofix c n = fint (u_filters c) (u_rate c) (Z.of_nat n).
Proof. reflexivity. Qed.

Definition unet_decoder : unet_cfg -> nat -> nat -> decoder := unet_decoder_fx nofix.
Definition unet_backbone : unet_cfg -> nat -> nat -> nat -> backbone := unet_backbone_fx nofix.

(* construction succeeds for every usable convs_per_block, with or without the middle block *)
Lemma build_unet_spec_fx fx c s d b :
  unet_valid_le c s d b -> cpb_ok (fx18 fx) (u_convs_per_block c) ->
  build_unet_fx fx c = Some (unet_backbone_fx fx c s d b).
Proof.
  intros (Hms & Hos & Hb & Hn & Hstem) Hcpb.
  assert (Es : unet_stem_blocks c = Z.of_nat s).
  { unfold unet_stem_blocks. destruct Hstem as [[-> ->] | ->]. reflexivity.
    unfold log2i. apply pow2_log2. }
  assert (Ed : unet_down_blocks c = Z.of_nat d).
  { unfold unet_down_blocks, log2i. rewrite Es, Hms, pow2_log2. lia. }
  assert (Hle : pow2 b <= pow2 (s + d)).
  { destruct (Nat.eq_dec b (s + d)) as [->|]; [lia | apply Z.lt_le_incl, pow2_lt; lia]. }
  assert (Eu : unet_up_blocks c = (s + d - b)%nat).
  { unfold unet_up_blocks, log2i. rewrite Hms, Hos.
    destruct (Z.leb_spec (pow2 b) (pow2 (s + d))); [|lia].
    rewrite pow2_div by lia. rewrite pow2_log2. lia. }
  unfold build_unet_fx. rewrite Es, Ed, Eu, !Nat2Z.id.
  rewrite encoder_stack_eq by (auto; lia).
  destruct (cpb_ok_counts _ _ Hcpb) as [C1 C2].
  rewrite (count_pools_eq _ _ _ _ _ _ _ _ C1 C2 _ _ (mids_flags _ _ _ _ _ _ _ _) (mids_run _ _ _ _ _ _ _ _ Hcpb)) by lia.
  rewrite (keys_eq _ _ _ _ _ _ _ _ C1 C2 _ _ (mids_flags _ _ _ _ _ _ _ _) (mids_run _ _ _ _ _ _ _ _ Hcpb)) by lia.
  rewrite <- pow2_eq. rewrite (Nat.add_comm d s).
  unfold build_decoder.
  set (n := (s + d)%nat) in *.
  assert (Ecs : halve (pow2 (n - 1)) (n - b) <? u_output_stride c = true).
  { apply Z.ltb_lt. rewrite Hos. destruct b as [|b1].
    - replace (n - 0)%nat with (S (n - 1)) by lia. rewrite halve_pow2_all. reflexivity.
    - rewrite halve_pow2 by lia. apply pow2_lt. lia. }
  rewrite Ecs. rewrite halvings_pow2 by lia.
  reflexivity.
Qed.

Lemma build_unet_spec c s d b :
  unet_valid c s d b -> 2 <= u_convs_per_block c -> u_middle c = true ->
  build_unet c = Some (unet_backbone c s d b).
Proof.
  intros Hv Hcpb _. apply build_unet_spec_fx. apply unet_valid_weaken; auto. left; auto.
Qed.

(* the decoder is sized for what the encoder delivers *)
Definition feeds (fx : fixes) (c : unet_cfg) : Prop := u_middle c = true \/ fx17 fx = true.

Lemma feeds_xin fx c n : feeds fx c -> enc_xout (u_filters c) (u_rate c) n (u_middle c) = unet_xin fx c n.
Proof.
  unfold feeds, enc_xout, unet_xin. intros [-> | ->]. rewrite andb_false_r. reflexivity.
  destruct (u_middle c); reflexivity.
Qed.

Lemma unet_encoder_fx fx c s d st h w :
  cpb_ok (fx18 fx) (u_convs_per_block c) -> feeds fx c -> (0 < s + d)%nat -> 0 < h -> 0 < w ->
  exists st' feats,
    enc_forward (bb_enc (unet_backbone_fx fx c s d 0)) 0 (seq 0 (s + d)) st
                (u_in_channels c, h * pow2 (s + d), w * pow2 (s + d)) []
    = (Some ((unet_xin fx c (s + d), h, w), feats), st') /\ forall j, (j < s + d)%nat ->
      nth_error feats j = Some (fint (u_filters c) (u_rate c) (Z.of_nat (s + d) - 1 - Z.of_nat j),
                                h * pow2 (S j), w * pow2 (S j)).
Proof.
  intros Hcpb Hfeed Hn Hh Hw. destruct (cpb_ok_counts _ _ Hcpb) as [C1 C2].
  rewrite <- (feeds_xin fx c (s + d) Hfeed). cbn [unet_backbone_fx bb_enc].
  apply (unet_encoder_forward (u_in_channels c) (u_filters c) (u_rate c) _ _ (u_kernel c) s d C1 C2
           _ _ (mids_run _ _ _ _ _ _ _ _ Hcpb)); assumption.
Qed.

(* the backbone's outputs: decoder block t is at stride 2^(n-1-t) *)
Lemma unet_backbone_forward_fx fx c s d b st h w :
  cpb_ok (fx18 fx) (u_convs_per_block c) -> feeds fx c -> (0 < s + d)%nat -> (b <= s + d)%nat -> 0 < h -> 0 < w ->
  (exists st',
    backbone_forward (unet_backbone_fx fx c s d b) st (u_in_channels c, h * pow2 (s + d), w * pow2 (s + d))
    = (Some (map (dec_out (u_filters c) (u_rate c) (Z.of_nat (s + d)) h w) (seq 0 (s + d - b))), st')) /\
  backbone_bottom (unet_backbone_fx fx c s d b) st (u_in_channels c, h * pow2 (s + d), w * pow2 (s + d))
  = Some (unet_xin fx c (s + d), h, w).
Proof.
  intros Hcpb Hfeed Hn Hb Hh Hw. unfold backbone_forward, backbone_bottom, unet_backbone_fx.
  cbn [bb_kind bb_enc bb_keys bb_dec].
  destruct (unet_encoder_fx fx c s d st h w Hcpb Hfeed Hn Hh Hw) as (st' & feats & E & Hf).
  cbn [unet_backbone_fx bb_enc] in E. rewrite E. split; [|reflexivity].
  exists st'. unfold unet_decoder_fx. cbn [d_stack d_residuals].
  pose proof (dec_for_forward (unet_xin fx c (s + d)) (u_filters c) (u_rate c)
                (Z.of_nat (s + d)) (u_kernel c) (u_up_interp c) (s + d - b) 0 (s + d - b) [] feats st' h w) as D.
  cbn [Nat.add dec_forward pow2] in D. rewrite !app_nil_r, !Z.mul_1_r in D.
  unfold dec_cin in D. cbn [Nat.eqb] in D.
  apply D. lia.
  intros t Ht. rewrite Hf by lia. reflexivity.
Qed.

Lemma unet_backbone_forward c s d b st h w :
  2 <= u_convs_per_block c -> u_middle c = true -> (b < s + d)%nat -> 0 < h -> 0 < w ->
  exists st',
    backbone_forward (unet_backbone c s d b) st (u_in_channels c, h * pow2 (s + d), w * pow2 (s + d))
    = (Some (map (dec_out (u_filters c) (u_rate c) (Z.of_nat (s + d)) h w) (seq 0 (s + d - b))), st').
Proof.
  intros Hcpb Hmid Hb Hh Hw.
  apply (unet_backbone_forward_fx nofix c s d b st h w); auto; try lia. left; auto. left; auto.
Qed.

Definition unet_F (c : unet_cfg) (t : nat) : Z := fint (u_filters c) (u_rate c) (Z.of_nat t).

(* heads: strides 2^t with b <= t < n *)
Definition heads_ok (heads : list head) (b n : nat) : Prop :=
  Forall (fun hd => exists t, (b <= t < n)%nat /\ h_os hd = pow2 t) heads.
(* ... or, with the fx41 repair, t = n: the encoder output itself *)
Definition heads_ok_fx (f41 : bool) (heads : list head) (b n : nat) : Prop :=
  Forall (fun hd => exists t, (b <= t)%nat /\ ((t < n)%nat \/ (t = n /\ f41 = true)) /\ h_os hd = pow2 t) heads.
Lemma heads_ok_weaken f41 heads b n : heads_ok heads b n -> heads_ok_fx f41 heads b n.
Proof.
  unfold heads_ok, heads_ok_fx. intros H. eapply Forall_impl; [|exact H].
  intros hd (t & Ht & E). exists t. repeat split; auto; lia.
Qed.

(* every head's conv is sized for the decoder block that serves it *)
Definition heads_sized_fx (fixed : bool) (fx : fixes) (c : unet_cfg) (s d b : nat) (heads : list head) : Prop :=
  forall hd t, In hd heads -> h_os hd = pow2 t -> (t < s + d)%nat ->
    head_in_channels fixed (unet_backbone_fx fx c s d b) (u_output_stride c) hd = Some (unet_F c t).
Definition heads_sized (fixed : bool) (c : unet_cfg) (s d b : nat) (heads : list head) : Prop :=
  forall hd t, In hd heads -> h_os hd = pow2 t ->
    head_in_channels fixed (unet_backbone c s d b) (u_output_stride c) hd = Some (unet_F c t).

Lemma index_of_stride n b t : (b <= t < n)%nat ->
  index_of (pow2 t) (map (fun j => pow2 (n - 1 - j)) (seq 0 (n - b))) = Some (n - 1 - t)%nat.
Proof.
  intros H.
  pose proof (index_of_map_pow2 (fun j => (n - 1 - j)%nat) (n - b) 0 (n - 1 - t)) as I.
  cbn beta in I. replace (n - 1 - (n - 1 - t))%nat with t in I by lia.
  rewrite I; try lia. f_equal; lia.
Qed.

Lemma at_top_unet f41 fx c s d b hd t : (0 < s + d)%nat -> h_os hd = pow2 t ->
  at_top f41 (unet_backbone_fx fx c s d b) hd = f41 && Nat.eqb t (s + d).
Proof.
  intros Hn E. unfold at_top, encoder_stride. cbn [unet_backbone_fx bb_dec unet_decoder_fx d_cs0].
  f_equal. rewrite E.
  replace (2 * pow2 (s + d - 1)) with (pow2 (s + d))
    by (replace (s + d)%nat with (S (s + d - 1)) at 1 by lia; reflexivity).
  destruct (Nat.eqb_spec t (s + d)) as [->|Hne]. apply Z.eqb_refl.
  apply Z.eqb_neq. intros Hp. apply pow2_inj in Hp. lia.
Qed.

Theorem unet_model_forward_fx fixed fx c s d b heads st h w :
  unet_valid_le c s d b -> cpb_ok (fx18 fx) (u_convs_per_block c) -> feeds fx c ->
  heads_ok_fx (fx41 fx) heads b (s + d) -> heads_sized_fx fixed fx c s d b heads -> 0 < h -> 0 < w ->
  exists m, build_model_fx (fx41 fx) fixed (build_unet_fx fx c) heads = Some m /\
    fst (model_forward m st (u_in_channels c, h * pow2 (s + d), w * pow2 (s + d)))
    = Some (contracted heads (h * pow2 (s + d)) (w * pow2 (s + d))).
Proof.
  intros Hv Hcpb Hfeed Hheads Hsized Hh Hw. unfold heads_ok_fx in Hheads.
  rewrite (build_unet_spec_fx fx c s d b) by assumption.
  destruct Hv as (Hms & Hos & Hb & Hn & Hstem).
  set (n := (s + d)%nat) in *.
  unfold build_model_fx.
  assert (Emin : Z.min (min_list (bb_output_stride (unet_backbone_fx fx c s d b)) (map h_os heads))
                       (bb_output_stride (unet_backbone_fx fx c s d b)) = u_output_stride c).
  { cbn [unet_backbone_fx bb_output_stride]. rewrite min_list_ge. lia.
    apply Forall_map. eapply Forall_impl; [|exact Hheads].
    intros hd (t & Ht & _ & E). cbn beta. rewrite E, Hos.
    destruct (Nat.eq_dec b t) as [->|]. lia. assert (pow2 b < pow2 t) by (apply pow2_lt; lia). lia. }
  rewrite Emin.
  set (tof := fun hd : head => Z.to_nat (Z.log2 (h_os hd))).
  assert (Etof : forall hd, In hd heads ->
            exists t, (b <= t)%nat /\ ((t < n)%nat \/ (t = n /\ fx41 fx = true)) /\ h_os hd = pow2 t /\ tof hd = t).
  { intros hd Hin. rewrite Forall_forall in Hheads. destruct (Hheads hd Hin) as (t & Ht & Ht2 & E).
    exists t. repeat split; auto. unfold tof. rewrite E, pow2_log2. lia. }
  set (chan := fun hd : head => if Nat.eqb (tof hd) n then unet_xin fx c n else unet_F c (tof hd)).
  rewrite (all_some_map _ chan).
  2:{ intros hd Hin. destruct (Etof hd Hin) as (t & Ht & Ht2 & E & Et). unfold head_in_channels_fx, chan.
      rewrite (at_top_unet _ fx c s d b hd t Hn E), Et. fold n.
      destruct Ht2 as [Hlt | [-> ->]].
      - destruct (Nat.eqb_spec t n); [lia|]. rewrite andb_false_r. apply Hsized; auto.
      - rewrite Nat.eqb_refl. reflexivity. }
  eexists. split. reflexivity.
  unfold model_forward. cbn [m_backbone m_heads m_head_layers m_f41].
  destruct (unet_backbone_forward_fx fx c s d b st h w) as ((st' & E) & Ebot); try assumption.
  fold n in E, Ebot. rewrite E. cbn [fst].
  rewrite combine_map_r, map_map. cbn [fst snd].
  rewrite combine_map_r, map_map. cbn [fst snd].
  unfold contracted.
  apply all_some_map.
  intros hd Hin. destruct (Etof hd Hin) as (t & Ht & Ht2 & Eos & Et).
  rewrite (at_top_unet _ fx c s d b hd t Hn Eos). fold n. unfold chan. rewrite Et, Eos.
  destruct Ht2 as [Hlt | [-> ->]].
  - destruct (Nat.eqb_spec t n); [lia|]. rewrite andb_false_r.
    cbn [unet_backbone_fx bb_dec unet_decoder_fx d_strides]. fold n.
    rewrite index_of_stride by lia.
    rewrite nth_error_map, nth_error_seq by lia. cbn [option_map Nat.add].
    unfold dec_out, make_head. cbn [run_layers run_layer].
    replace (Z.of_nat n - 1 - Z.of_nat (n - 1 - t)) with (Z.of_nat t) by lia.
    unfold unet_F. rewrite Z.eqb_refl. cbn [fst].
    replace (S (n - 1 - t)) with (n - t)%nat by lia.
    rewrite !mul_pow2_div by lia. reflexivity.
  - rewrite Nat.eqb_refl. cbn [andb]. rewrite Ebot.
    unfold make_head. cbn [run_layers run_layer]. rewrite Z.eqb_refl. cbn [fst].
    rewrite !mul_pow2_div by lia. rewrite Nat.sub_diag. cbn [pow2]. rewrite !Z.mul_1_r. reflexivity.
Qed.

Theorem unet_model_forward fixed c s d b heads st h w :
  unet_valid c s d b -> 2 <= u_convs_per_block c -> u_middle c = true ->
  heads_ok heads b (s + d) -> heads_sized fixed c s d b heads -> 0 < h -> 0 < w ->
  exists m, build_model fixed (build_unet c) heads = Some m /\
    fst (model_forward m st (u_in_channels c, h * pow2 (s + d), w * pow2 (s + d)))
    = Some (contracted heads (h * pow2 (s + d)) (w * pow2 (s + d))).
Proof.
  intros Hv Hcpb Hmid Hheads Hsized Hh Hw.
  apply (unet_model_forward_fx fixed nofix c s d b heads st h w); auto.
  - apply unet_valid_weaken; auto.
  - left; auto.
  - left; auto.
  - apply heads_ok_weaken; auto.
  - intros hd t Hin E _. apply Hsized; auto.
Qed.

(* ------------------------------------------- head in_channels arithmetic *)
Lemma trunc_comp q1 q2 : q1 == q2 -> trunc q1 = trunc q2.
Proof.
  intros H. unfold trunc.
  assert (E1 : Qle_bool 0 q1 = Qle_bool 0 q2) by (rewrite H; reflexivity).
  assert (E2 : Qfloor q1 = Qfloor q2) by (rewrite H; reflexivity).
  assert (E3 : Qceiling q1 = Qceiling q2) by (rewrite H; reflexivity).
  rewrite E1, E2, E3. reflexivity.
Qed.

Lemma round_half_even_int q z : q == inject_Z z -> round_half_even q = z.
Proof.
  intros H. unfold round_half_even.
  assert (E2 : Qfloor q = z) by (rewrite H; apply Qfloor_Z).
  rewrite E2. cbv zeta.
  assert (E : Qcompare (q - inject_Z z) (1 # 2) = Lt).
  { assert (E0 : q - inject_Z z == 0) by (rewrite H; ring). rewrite E0. reflexivity. }
  rewrite E. reflexivity.
Qed.

Lemma inject_Z_nonzero z : z <> 0 -> ~ inject_Z z == 0.
Proof. intros H E. unfold Qeq in E. cbn in E. lia. Qed.

Lemma Qpower_frac (p : Z) (q : positive) (k : Z) : 0 <= k ->
  (p # q) ^ k == inject_Z (p ^ k) / inject_Z (Zpos q ^ k).
Proof.
  intros Hk. rewrite (Qmake_Qdiv p q), Qdiv_power, <- !Zpower_Qpower by lia. reflexivity.
Qed.

(* filters = m * q^n and rate = p/q : filters * rate^k is the integer m * q^(n-k) * p^k *)
Definition Gint (m p : Z) (q : positive) (n k : Z) : Z := m * Zpos q ^ (n - k) * p ^ k.

Lemma scaled_Gint m p q n k : 0 <= k <= n ->
  scaled (m * Zpos q ^ n) (p # q) k == inject_Z (Gint m p q n k).
Proof.
  intros Hk. unfold scaled, Gint. rewrite Qpower_frac by lia.
  replace (Zpos q ^ n) with (Zpos q ^ (n - k) * Zpos q ^ k)
    by (rewrite <- Z.pow_add_r by lia; f_equal; lia).
  rewrite !inject_Z_mult. field.
  apply inject_Z_nonzero. apply Z.pow_nonzero; lia.
Qed.

Lemma fint_Gint m p q n k : 0 <= k <= n -> fint (m * Zpos q ^ n) (p # q) k = Gint m p q n k.
Proof.
  intros Hk. unfold fint. rewrite (trunc_comp _ _ (scaled_Gint m p q n k Hk)). apply trunc_inject_Z.
Qed.

Lemma Gint_div m p q n u : 0 < p -> 0 <= u <= n ->
  inject_Z (Gint m p q n n) / (p # q) ^ u == inject_Z (Gint m p q n (n - u)).
Proof.
  intros Hp Hu. unfold Gint. rewrite Qpower_frac by lia.
  replace (n - n) with 0 by lia. replace (n - (n - u)) with u by lia.
  replace (p ^ n) with (p ^ (n - u) * p ^ u) by (rewrite <- Z.pow_add_r by lia; f_equal; lia).
  rewrite Z.pow_0_r, !inject_Z_mult. field. split.
  - apply inject_Z_nonzero. apply Z.pow_nonzero; lia.
  - apply inject_Z_nonzero. apply Z.pow_nonzero; lia.
Qed.

Lemma Gint_mul m p q n b t : 0 <= b <= t -> t <= n ->
  inject_Z (Gint m p q n b) * (p # q) ^ (t - b) == inject_Z (Gint m p q n t).
Proof.
  intros Hb Ht. unfold Gint. rewrite Qpower_frac by lia.
  replace (Zpos q ^ (n - b)) with (Zpos q ^ (n - t) * Zpos q ^ (t - b))
    by (rewrite <- Z.pow_add_r by lia; f_equal; lia).
  replace (p ^ t) with (p ^ b * p ^ (t - b)) by (rewrite <- Z.pow_add_r by lia; f_equal; lia).
  rewrite !inject_Z_mult. field.
  apply inject_Z_nonzero. apply Z.pow_nonzero; lia.
Qed.

(* the proposed repair reads the channel count off the decoder block: always right *)
Lemma heads_sized_fixed c s d b heads :
  (b < s + d)%nat -> heads_ok heads b (s + d) -> heads_sized true c s d b heads.
Proof.
  intros Hb Hheads hd t Hin Eos. unfold heads_ok in Hheads. rewrite Forall_forall in Hheads.
  destruct (Hheads hd Hin) as (t' & Ht & E). rewrite E in Eos. apply pow2_inj in Eos. subst t'.
  unfold head_in_channels. cbn [unet_backbone unet_backbone_fx unet_decoder_fx unet_xin fx17 nofix andb bb_dec unet_decoder d_strides d_stack]; rewrite ?unet_xin_nofix. rewrite E.
  rewrite index_of_stride by lia.
  rewrite nth_error_map, nth_error_seq by lia. cbn [option_map Nat.add].
  unfold dec_for_block, simple_upsampling_block. cbn [ub_out]. rewrite trunc_inject_Z.
  unfold unet_F. do 2 f_equal. lia.
Qed.

(* the pinned arithmetic is right whenever filters * rate^k is integral up to k = n *)
Lemma heads_sized_rate c s d b heads (m p : Z) (q : positive) :
  u_rate c = p # q -> 0 < p -> u_filters c = m * Zpos q ^ Z.of_nat (s + d) ->
  u_output_stride c = pow2 b -> (b < s + d)%nat -> heads_ok heads b (s + d) ->
  heads_sized false c s d b heads.
Proof.
  intros Hr Hp Hf Hos Hb Hheads hd t Hin Eos. unfold heads_ok in Hheads. rewrite Forall_forall in Hheads.
  destruct (Hheads hd Hin) as (t' & Ht & E). rewrite E in Eos. apply pow2_inj in Eos. subst t'.
  set (n := (s + d)%nat) in *.
  unfold head_in_channels, max_channels.
  cbn [unet_backbone unet_backbone_fx unet_decoder_fx unet_xin fx17 nofix andb bb_dec unet_decoder d_strides d_stack d_x_in bb_rate]; rewrite ?unet_xin_nofix.
  rewrite map_length, seq_length. fold n. rewrite Hr, Hf, E, Hos.
  rewrite fint_Gint by lia.
  assert (Ebase : round_half_even (inject_Z (Gint m p q (Z.of_nat n) (Z.of_nat n)) / (p # q) ^ Z.of_nat (n - b))
                  = Gint m p q (Z.of_nat n) (Z.of_nat b)).
  { apply round_half_even_int. rewrite Gint_div by lia.
    replace (Z.of_nat n - Z.of_nat (n - b)) with (Z.of_nat b) by lia. reflexivity. }
  rewrite Ebase. unfold unet_F. rewrite ?Hr, ?Hf, fint_Gint by lia.
  destruct (Z.eqb_spec (pow2 t) (pow2 b)) as [Et|Et].
  - apply pow2_inj in Et. subst t. reflexivity.
  - rewrite (index_of_stride n b b), (index_of_stride n b t) by lia.
    f_equal. replace (Z.of_nat (n - 1 - b) - Z.of_nat (n - 1 - t)) with (Z.of_nat t - Z.of_nat b) by lia.
    rewrite (trunc_comp _ _ (Gint_mul m p q (Z.of_nat n) (Z.of_nat b) (Z.of_nat t) ltac:(lia) ltac:(lia))).
    apply trunc_inject_Z.
Qed.

(* -------------------------------------------------- rate 2 arithmetic *)
Ltac nz := repeat split; apply inject_Z_nonzero; first [lia | apply Z.pow_nonzero; lia].
Lemma fint2_nonneg C e : 0 <= e -> fint C (2 # 1) e = C * 2 ^ e.
Proof.
  intros He. pose proof (fint_Gint C 2 1 e e ltac:(lia)) as H.
  rewrite Z.pow_1_l, Z.mul_1_r in H by lia. rewrite H. unfold Gint.
  rewrite Z.sub_diag, Z.pow_0_r. lia.
Qed.

Lemma scaled2_neg a i : 0 <= i -> scaled (a * 2 ^ i) (2 # 1) (- i) == inject_Z a.
Proof.
  intros Hi. unfold scaled. rewrite Qpower_opp, Qpower_frac by lia.
  rewrite Z.pow_1_l by lia. rewrite inject_Z_mult. field; try nz.
Qed.

Lemma fint2_neg a i : 0 <= i -> fint (a * 2 ^ i) (2 # 1) (- i) = a.
Proof. intros Hi. unfold fint. rewrite (trunc_comp _ _ (scaled2_neg a i Hi)). apply trunc_inject_Z. Qed.

Lemma Qfloor_half a : Qfloor (inject_Z (2 * a) / (2 # 1)) = a.
Proof.
  assert (E : inject_Z (2 * a) / (2 # 1) == inject_Z a).
  { rewrite inject_Z_mult. field. }
  rewrite E. apply Qfloor_Z.
Qed.

Lemma rhe_div2 a L : 0 <= L -> round_half_even (inject_Z (a * 2 ^ L) / (2 # 1) ^ L) = a.
Proof.
  intros HL. apply round_half_even_int. rewrite Qpower_frac by lia.
  rewrite Z.pow_1_l by lia. rewrite inject_Z_mult. field; try nz.
Qed.

Lemma trunc_mul2 a f : 0 <= f -> trunc (inject_Z a * (2 # 1) ^ f) = a * 2 ^ f.
Proof.
  intros Hf.
  assert (E : inject_Z a * (2 # 1) ^ f == inject_Z (a * 2 ^ f)).
  { rewrite Qpower_frac by lia. rewrite Z.pow_1_l by lia. rewrite inject_Z_mult. field; try nz. }
  rewrite (trunc_comp _ _ E). apply trunc_inject_Z.
Qed.

(* ------------------------------------ ConvNeXt / Swin-T encoder stages *)
Lemma run_repeat_cn c n : forall st h w,
  run_layers (repeat (LCNBlock c) n) st (c, h, w) = (Some (c, h, w), st).
Proof.
  induction n as [|n IH]; intros; cbn [repeat run_layers run_layer]. reflexivity.
  rewrite Z.eqb_refl. apply IH.
Qed.

Lemma run_repeat_swin c nh n : c mod nh = 0 -> forall st h w,
  run_layers (repeat (LSwinBlock c nh) n) st (c, h, w) = (Some (c, h, w), st).
Proof.
  intros Hm. induction n as [|n IH]; intros; cbn [repeat run_layers run_layer]. reflexivity.
  rewrite Z.eqb_refl, Hm. cbn [Z.eqb andb]. apply IH.
Qed.

(* stem: Conv2d(kernel 4, stride sps, padding 1) on a multiple of sps *)
Lemma conv_out_stem sps a : (sps = 2 \/ sps = 4) -> 0 < a -> conv_out (sps * a) 4 sps 1 = Some a.
Proof.
  intros Hs Ha. unfold conv_out.
  destruct (Z.ltb_spec (sps * a + 2 * 1 - 4) 0); [lia|]. f_equal. lia.
Qed.

(* ConvNeXt downsampling: Conv2d(kernel 2, stride 2) on an even side *)
Lemma conv_out_down a : 0 < a -> conv_out (2 * a) 2 2 0 = Some a.
Proof.
  intros Ha. unfold conv_out. destruct (Z.ltb_spec (2 * a + 2 * 0 - 2) 0); [lia|]. f_equal. lia.
Qed.

Lemma ceil_div_even a : ceil_div (2 * a) 2 = a.
Proof. unfold ceil_div. lia. Qed.

(* ------------------------------------- ConvNeXt / Swin-T: the decoder *)
(* base channels C = 4 * C4, stem_patch_stride = 2^e (e = 1, 2), backbone output
   stride 2^b (b <= e): the decoder has L = 3 + e - b blocks, block i delivers
   C4 * 2^(4-i) channels at stride 2^(e+2-i) *)
Definition gen_extra (Cc k : Z) (interp : bool) (i : nat) : up_block :=
  let bfi := fint Cc (2 # 1) (3 - 1 - (Z.of_nat i - 1)) in
  simple_upsampling_block bfi interp 2 (inject_Z (Qfloor (inject_Z bfi / (2 # 1)))) k bfi.

Lemma build_decoder_gen (X Cc k : Z) (interp : bool) e b : (1 <= e <= 2)%nat -> (b <= e)%nat ->
  build_decoder X (pow2 e * 2 ^ (Z.of_nat 3 - 1)) Cc (2 # 1) 3 (Z.of_nat 3) (pow2 b) k interp
  = Some {| d_stack := map (dec_for_block X Cc (2 # 1) 3 k interp) (seq 0 3) ++
                       map (gen_extra Cc k interp) (seq 3 (3 + e - b - 3));
            d_strides := map (fun j => pow2 (e + 2 - j)) (seq 0 (3 + e - b));
            d_residuals := 3;
            d_x_in := X;
            d_cs0 := pow2 e * 2 ^ (Z.of_nat 3 - 1) |}.
Proof.
  intros He Hb.
  assert (Hcases : ((e = 1 /\ b = 1) \/ (e = 1 /\ b = 0) \/ (e = 2 /\ b = 2) \/ (e = 2 /\ b = 1) \/ (e = 2 /\ b = 0))%nat) by lia.
  unfold build_decoder, gen_extra.
  destruct Hcases as [[-> ->]|[[-> ->]|[[-> ->]|[[-> ->]|[-> ->]]]]];
    cbn -[fint trunc Qfloor inject_Z Qdiv simple_upsampling_block dec_for_block]; reflexivity.
Qed.

Ltac compute_pows :=
  repeat match goal with
  | |- context[2 ^ ?e] => let v := eval vm_compute in (2 ^ e) in progress change (2 ^ e) with v
  | |- context[pow2 ?n] => let v := eval vm_compute in (pow2 n) in progress change (pow2 n) with v
  end.

Section TV.
Variables (C4 k : Z) (interp : bool).
Let C := 4 * C4.
Definition tv_ch (i : nat) : Z := C4 * pow2 (4 - i).
Definition tv_extra (i : nat) : up_block :=
  simple_upsampling_block (tv_ch (i - 1)) interp 2 (inject_Z (tv_ch i)) k (tv_ch (i - 1)).
Definition tv_decoder (e L : nat) : decoder :=
  {| d_stack := map (dec_for_block (8 * C) C (2 # 1) 3 k interp) (seq 0 3) ++ map tv_extra (seq 3 (L - 3));
     d_strides := map (fun j => pow2 (e + 2 - j)) (seq 0 L);
     d_residuals := 3;
     d_x_in := 8 * C;
     d_cs0 := pow2 e * 2 ^ (Z.of_nat 3 - 1) |}.

Lemma tv_fint_0 : fint C (2 # 1) (3 - 1 - 2) = tv_ch 2.
Proof.
  unfold C, tv_ch. rewrite fint2_nonneg by lia. replace (3 - 1 - 2) with 0 by lia.
  rewrite Z.pow_0_r. cbn [Nat.sub pow2]. lia.
Qed.
Lemma tv_fint_m1 : fint C (2 # 1) (3 - 1 - (2 + 1)) = tv_ch 3.
Proof.
  unfold C, tv_ch. replace (4 * C4) with (2 * C4 * 2 ^ 1) by lia.
  replace (3 - 1 - (2 + 1)) with (- (1)) by lia. rewrite fint2_neg by lia. cbn [Nat.sub pow2]. lia.
Qed.
Lemma tv_floor_3 : Qfloor (inject_Z (tv_ch 2) / (2 # 1)) = tv_ch 3.
Proof. unfold tv_ch. cbn [Nat.sub pow2]. replace (C4 * (2 * (2 * 1))) with (2 * (C4 * (2 * 1))) by lia. apply Qfloor_half. Qed.
Lemma tv_floor_4 : Qfloor (inject_Z (tv_ch 3) / (2 # 1)) = tv_ch 4.
Proof. unfold tv_ch. cbn [Nat.sub pow2]. replace (C4 * (2 * 1)) with (2 * (C4 * 1)) by lia. apply Qfloor_half. Qed.

Lemma tv_build_decoder e b : (1 <= e <= 2)%nat -> (b <= e)%nat ->
  build_decoder (8 * C) (pow2 e * 2 ^ (Z.of_nat 3 - 1)) C (2 # 1) 3 (Z.of_nat 3) (pow2 b) k interp
  = Some (tv_decoder e (3 + e - b)).
Proof.
  intros He Hb. rewrite build_decoder_gen by assumption. unfold tv_decoder. do 3 f_equal.
  assert (E3 : gen_extra C k interp 3 = tv_extra 3).
  { unfold gen_extra, tv_extra. cbn [Z.of_nat Nat.sub Pos.of_succ_nat Pos.succ].
    replace (3 - 1 - (3 - 1)) with (3 - 1 - 2) by lia. cbv zeta. rewrite tv_fint_0, tv_floor_3. reflexivity. }
  assert (E4 : gen_extra C k interp 4 = tv_extra 4).
  { unfold gen_extra, tv_extra. cbn [Z.of_nat Nat.sub Pos.of_succ_nat Pos.succ].
    replace (3 - 1 - (4 - 1)) with (3 - 1 - (2 + 1)) by lia. cbv zeta. rewrite tv_fint_m1, tv_floor_4. reflexivity. }
  assert (HE : (3 + e - b - 3 = 0 \/ 3 + e - b - 3 = 1 \/ 3 + e - b - 3 = 2)%nat) by lia.
  destruct HE as [-> | [-> | ->]]; cbn [seq map]; rewrite ?E3, ?E4; reflexivity.
Qed.

Lemma tv_extra_run i st h w :
  up_forward (ub_layers (tv_extra i)) 0 (ub_concat_at (tv_extra i)) None st (tv_ch (i - 1), h, w)
  = (Some (tv_ch i, 2 * h, 2 * w), st).
Proof.
  unfold tv_extra, simple_upsampling_block, conv_chain. rewrite trunc_inject_Z.
  destruct interp; cbn [ub_layers ub_concat_at seq flat_map app];
    repeat (progress (cbn [up_forward Nat.eqb run_layer concat andb]; rewrite ?Z.eqb_refl));
    reflexivity.
Qed.

Lemma tv_extras_forward : forall E i feats st h w, (3 <= i)%nat ->
  dec_forward (map tv_extra (seq i E)) i 3 feats st (tv_ch (i - 1), h, w)
  = (Some (map (fun j => (tv_ch j, h * pow2 (S j - i), w * pow2 (S j - i))) (seq i E)), st).
Proof.
  induction E as [|E IH]; intros i feats st h w Hi. reflexivity.
  cbn [seq map dec_forward]. destruct (Nat.ltb_spec i 3); [lia|].
  rewrite tv_extra_run.
  pose proof (IH (S i) feats st (2 * h) (2 * w)) as IH'.
  replace (S i - 1)%nat with i in IH' by lia. rewrite IH' by lia. do 2 f_equal.
  f_equal.
  - replace (S i - i)%nat with 1%nat by lia. cbn [pow2]. f_equal; [f_equal|]; lia.
  - apply map_ext_in. intros j Hj. apply in_seq in Hj.
    replace (S j - i)%nat with (S (S j - S i)) by lia. cbn [pow2]. f_equal; [f_equal|]; lia.
Qed.

(* the decoder's outputs, block i at h * 2^(i+1) *)
Definition tv_out (h w : Z) (i : nat) : shape := (tv_ch i, h * pow2 (S i), w * pow2 (S i)).

Lemma tv_dec_forward e L feats st h w : (3 <= L <= 5)%nat ->
  (forall t, (t < 3)%nat -> nth_error feats t = Some (tv_out h w t)) ->
  dec_forward (d_stack (tv_decoder e L)) 0 3 feats st (8 * C, h, w)
  = (Some (map (tv_out h w) (seq 0 L)), st).
Proof.
  intros HL Hf. cbn [tv_decoder d_stack].
  pose proof (dec_for_forward (8 * C) C (2 # 1) 3 k interp 3 0 3 (map tv_extra (seq 3 (L - 3))) feats st h w) as D.
  cbn [Nat.add pow2] in D. rewrite !Z.mul_1_r in D.
  assert (Ech : forall t, (t < 3)%nat -> dec_out C (2 # 1) 3 h w t = tv_out h w t).
  { intros t Ht. unfold dec_out, tv_out, tv_ch, C. rewrite fint2_nonneg by lia.
    do 2 f_equal. destruct t as [|[|[|]]]; try lia; compute_pows; lia. }
  unfold dec_cin in D. cbn [Nat.eqb] in D. rewrite D; clear D; try lia.
  2:{ intros t Ht. rewrite Hf by assumption. rewrite Ech by assumption. reflexivity. }
  replace (fint C (2 # 1) (3 - 1 - (Z.of_nat 3 - 1))) with (tv_ch (3 - 1)).
  2:{ symmetry. replace (3 - 1 - (Z.of_nat 3 - 1)) with (3 - 1 - 2) by lia. apply tv_fint_0. }
  rewrite tv_extras_forward by lia.
  replace L with (3 + (L - 3))%nat at 2 by lia. rewrite seq_app, map_app.
  cbn [seq map Nat.add]. rewrite !Ech by lia. do 3 f_equal.
  apply map_ext_in. intros j Hj. apply in_seq in Hj. unfold tv_out.
  assert (Ep : pow2 (S j) = 8 * pow2 (S j - 3)).
  { replace (S j) with (3 + (S j - 3))%nat at 1 by lia. rewrite pow2_add. reflexivity. }
  rewrite Ep. f_equal; [f_equal|]; lia.
Qed.

End TV.

Lemma index_of_tv e L t : (e + 2 - (L - 1) <= t <= e + 2)%nat -> (1 <= L <= e + 3)%nat ->
  index_of (pow2 t) (map (fun j => pow2 (e + 2 - j)) (seq 0 L)) = Some (e + 2 - t)%nat.
Proof.
  intros Ht HL.
  pose proof (index_of_map_pow2 (fun j => (e + 2 - j)%nat) L 0 (e + 2 - t)) as I.
  cbn beta in I. replace (e + 2 - (e + 2 - t))%nat with t in I by lia.
  rewrite I; try lia. f_equal; lia.
Qed.


(* --------------------------- ConvNeXt / Swin-T: heads on a tv_decoder *)
Section TVModel.
Variables (C4 k : Z) (interp : bool) (e b : nat).
Hypothesis He : (1 <= e <= 2)%nat.
Hypothesis Hb : (b <= e)%nat.
Let L := (3 + e - b)%nat.

Lemma tv_base : round_half_even (inject_Z (8 * (4 * C4)) / (2 # 1) ^ Z.of_nat L) = C4 * pow2 (5 - L).
Proof.
  assert (HL : (L = 3 \/ L = 4 \/ L = 5)%nat) by (unfold L; lia).
  replace (8 * (4 * C4)) with (C4 * pow2 (5 - L) * 2 ^ Z.of_nat L).
  - apply rhe_div2. lia.
  - destruct HL as [-> | [-> | ->]]; compute_pows; lia.
Qed.

Lemma tv_factor i2 : (i2 <= L - 1)%nat ->
  trunc (inject_Z (C4 * pow2 (5 - L)) * (2 # 1) ^ (Z.of_nat (L - 1) - Z.of_nat i2)) = tv_ch C4 i2.
Proof.
  intros Hi. rewrite trunc_mul2 by lia.
  replace (Z.of_nat (L - 1) - Z.of_nat i2) with (Z.of_nat (L - 1 - i2)) by lia.
  rewrite <- pow2_eq, <- Z.mul_assoc, <- pow2_add. unfold tv_ch. do 2 f_equal. unfold L in *. lia.
Qed.

Lemma tv_stack_out i : (i < L)%nat ->
  option_map (fun ub => trunc (ub_out ub)) (nth_error (d_stack (tv_decoder C4 k interp e L)) i) = Some (tv_ch C4 i).
Proof.
  intros Hi. cbn [tv_decoder d_stack].
  destruct (Nat.ltb_spec i 3).
  - rewrite nth_error_app1 by (rewrite map_length, seq_length; lia).
    rewrite nth_error_map, nth_error_seq by lia. cbn [option_map Nat.add].
    unfold dec_for_block, simple_upsampling_block. cbn [ub_out]. rewrite trunc_inject_Z.
    rewrite fint2_nonneg by lia. unfold tv_ch. f_equal.
    destruct i as [|[|[|]]]; try lia; compute_pows; lia.
  - rewrite nth_error_app2 by (rewrite map_length, seq_length; lia).
    rewrite map_length, seq_length.
    rewrite nth_error_map, nth_error_seq by (unfold L in *; lia). cbn [option_map].
    unfold tv_extra, simple_upsampling_block. cbn [ub_out]. rewrite trunc_inject_Z.
    do 2 f_equal. lia.
Qed.

Definition tv_heads_ok (heads : list head) : Prop :=
  Forall (fun hd => exists t, (b <= t <= e + 2)%nat /\ h_os hd = pow2 t) heads.

Lemma tv_head_in fixed bb hd t :
  bb_dec bb = tv_decoder C4 k interp e L -> bb_rate bb = 2 # 1 ->
  (b <= t <= e + 2)%nat -> h_os hd = pow2 t ->
  head_in_channels fixed bb (pow2 b) hd = Some (tv_ch C4 (e + 2 - t)).
Proof.
  intros Hd Hr Ht Eos. unfold head_in_channels, max_channels. rewrite Hd, Hr, Eos.
  assert (HL : (3 <= L <= 5)%nat) by (unfold L; lia).
  assert (Ei : forall t', (b <= t' <= e + 2)%nat ->
            index_of (pow2 t') (d_strides (tv_decoder C4 k interp e L)) = Some (e + 2 - t')%nat).
  { intros t' Ht'. cbn [tv_decoder d_strides]. apply index_of_tv; unfold L; lia. }
  destruct fixed.
  - rewrite Ei by lia.
    pose proof (tv_stack_out (e + 2 - t) ltac:(unfold L; lia)) as Hs.
    destruct (nth_error (d_stack (tv_decoder C4 k interp e L)) (e + 2 - t)) as [ub|]; cbn [option_map] in Hs;
      [injection Hs as Hs; rewrite Hs; reflexivity | discriminate].
  - assert (Elen : length (d_stack (tv_decoder C4 k interp e L)) = L).
    { cbn [tv_decoder d_stack]. rewrite app_length, !map_length, !seq_length. lia. }
    rewrite Elen. cbn [tv_decoder d_x_in]. rewrite tv_base.
    destruct (Z.eqb_spec (pow2 t) (pow2 b)) as [Et|Et].
    + apply pow2_inj in Et. subst t. unfold tv_ch.
      replace (4 - (e + 2 - b))%nat with (5 - L)%nat by (unfold L; lia). reflexivity.
    + rewrite (Ei b), (Ei t) by lia. f_equal.
      replace (e + 2 - b)%nat with (L - 1)%nat by (unfold L; lia).
      apply tv_factor. unfold L. lia.
Qed.

(* the generic conclusion for a backbone that carries a tv_decoder and whose
   forward pass delivers tv_out *)
Lemma at_top_tv f41 bb hd t :
  bb_dec bb = tv_decoder C4 k interp e L -> (t <= e + 2)%nat -> h_os hd = pow2 t -> at_top f41 bb hd = false.
Proof.
  intros Hd Ht E. unfold at_top, encoder_stride. rewrite Hd, E. cbn [tv_decoder d_cs0].
  replace (2 * (pow2 e * 2 ^ (Z.of_nat 3 - 1))) with (pow2 (e + 3)).
  - rewrite andb_false_iff. right. apply Z.eqb_neq. intros Hp. apply pow2_inj in Hp. lia.
  - rewrite pow2_add. change (pow2 3) with 8. change (2 ^ (Z.of_nat 3 - 1)) with 4. lia.
Qed.

Theorem tv_model_forward f41 fixed bb heads st x h w st' :
  bb_dec bb = tv_decoder C4 k interp e L -> bb_rate bb = 2 # 1 -> bb_output_stride bb = pow2 b ->
  tv_heads_ok heads ->
  backbone_forward bb st x = (Some (map (tv_out C4 h w) (seq 0 L)), st') ->
  exists m, build_model_fx f41 fixed (Some bb) heads = Some m /\
    fst (model_forward m st x) = Some (contracted heads (h * pow2 (e + 3)) (w * pow2 (e + 3))).
Proof.
  intros Hd Hr Hos Hheads Hfw. unfold tv_heads_ok in Hheads. unfold build_model_fx.
  assert (Emin : Z.min (min_list (bb_output_stride bb) (map h_os heads)) (bb_output_stride bb) = pow2 b).
  { rewrite Hos, min_list_ge. lia.
    apply Forall_map. eapply Forall_impl; [|exact Hheads].
    intros hd (t & Ht & E). cbn beta. rewrite E.
    destruct (Nat.eq_dec b t) as [->|]. lia. assert (pow2 b < pow2 t) by (apply pow2_lt; lia). lia. }
  rewrite Emin.
  set (tof := fun hd : head => Z.to_nat (Z.log2 (h_os hd))).
  assert (Etof : forall hd, In hd heads -> exists t, (b <= t <= e + 2)%nat /\ h_os hd = pow2 t /\ tof hd = t).
  { intros hd Hin. rewrite Forall_forall in Hheads. destruct (Hheads hd Hin) as (t & Ht & E).
    exists t. repeat split; try lia; auto. unfold tof. rewrite E, pow2_log2. lia. }
  rewrite (all_some_map _ (fun hd => tv_ch C4 (e + 2 - tof hd))).
  2:{ intros hd Hin. destruct (Etof hd Hin) as (t & Ht & E & Et). rewrite Et.
      unfold head_in_channels_fx. rewrite (at_top_tv f41 bb hd t Hd ltac:(lia) E). apply tv_head_in; auto. }
  eexists. split. reflexivity.
  unfold model_forward. cbn [m_backbone m_heads m_head_layers m_f41].
  rewrite Hfw. cbn [fst].
  rewrite combine_map_r, map_map. cbn [fst snd].
  rewrite combine_map_r, map_map. cbn [fst snd].
  unfold contracted. apply all_some_map.
  intros hd Hin. destruct (Etof hd Hin) as (t & Ht & Eos & Et).
  rewrite (at_top_tv f41 bb hd t Hd ltac:(lia) Eos). rewrite Et, Eos, Hd.
  cbn [tv_decoder d_strides]. rewrite index_of_tv by (unfold L; lia).
  rewrite nth_error_map, nth_error_seq by (unfold L; lia). cbn [option_map Nat.add].
  unfold tv_out, make_head. cbn [run_layers run_layer]. rewrite Z.eqb_refl. cbn [fst].
  replace (S (e + 2 - t)) with (e + 3 - t)%nat by lia.
  rewrite !mul_pow2_div by lia. reflexivity.
Qed.

End TVModel.

(* ----------------------------------------------------------- ConvNeXt *)
(* four stages with channels C, 2C, 4C, 8C (C = 4 * C4), any depths; stem kernel 4,
   stem_patch_stride 2^e (e = 1, 2), filters_rate 2, output stride 2^b <= the stem's *)
Definition convnext_valid (c : convnext_cfg) (C4 : Z) (ds : list Z) (e b : nat) : Prop :=
  convnext_arch c = (ds, [4 * C4; 2 * (4 * C4); 4 * (4 * C4); 8 * (4 * C4)]) /\ length ds = 4%nat /\
  c_stem_kernel c = 4 /\ c_stem_stride c = pow2 e /\ (1 <= e <= 2)%nat /\
  c_rate c = 2 # 1 /\ c_output_stride c = pow2 b /\ (b <= e)%nat.

Definition convnext_enc (c : convnext_cfg) (C4 : Z) (d0 d1 d2 d3 : Z) : list enc_item :=
  let C := 4 * C4 in
  map plain_item
    [[LConv (c_in_channels c) C (c_stem_kernel c) (c_stem_stride c) 1; LNorm C];
     repeat (LCNBlock C) (Z.to_nat d0); [LNorm C; LConv C (2 * C) 2 2 0];
     repeat (LCNBlock (2 * C)) (Z.to_nat d1); [LNorm (2 * C); LConv (2 * C) (4 * C) 2 2 0];
     repeat (LCNBlock (4 * C)) (Z.to_nat d2); [LNorm (4 * C); LConv (4 * C) (8 * C) 2 2 0];
     repeat (LCNBlock (8 * C)) (Z.to_nat d3)].

Lemma build_convnext_spec c C4 ds e b : convnext_valid c C4 ds e b ->
  exists d0 d1 d2 d3 bb, build_convnext c = Some bb /\
    bb_kind bb = 1%nat /\ bb_enc bb = convnext_enc c C4 d0 d1 d2 d3 /\
    bb_dec bb = tv_decoder C4 (c_kernel c) (c_up_interp c) e (3 + e - b) /\
    bb_rate bb = 2 # 1 /\ bb_output_stride bb = pow2 b.
Proof.
  intros (Ha & Hl & Hk & Hs & He & Hr & Ho & Hb).
  destruct ds as [|d0 [|d1 [|d2 [|d3 [|]]]]]; try discriminate Hl.
  exists d0, d1, d2, d3. unfold build_convnext. rewrite Ha.
  cbn [convnext_stages length Nat.sub last].
  rewrite Hs, Hr, Ho.
  rewrite (tv_build_decoder C4 (c_kernel c) (c_up_interp c) e b) by assumption.
  eexists. split. reflexivity. cbn [bb_kind bb_enc bb_dec bb_rate bb_output_stride].
  repeat split. unfold convnext_enc. rewrite Hs. reflexivity.
Qed.

Lemma some_shape_eq (a b c a' b' c' : Z) : a = a' -> b = b' -> c = c' -> Some (a, b, c) = Some (a', b', c').
Proof. intros; subst; reflexivity. Qed.

Lemma feats_forward_cons_ok it items st x y :
  run_layers (ei_layers it) st x = (Some y, st) ->
  feats_forward (it :: items) st x =
  match feats_forward items st y with
  | (None, s) => (None, s)
  | (Some ys, s) => (Some (y :: ys), s)
  end.
Proof. intros H. cbn [feats_forward]. rewrite H. reflexivity. Qed.

Lemma run_stem cin C sps a a' st : (sps = 2 \/ sps = 4) -> 0 < a -> 0 < a' ->
  run_layers (ei_layers (plain_item [LConv cin C 4 sps 1; LNorm C])) st (cin, sps * a, sps * a')
  = (Some (C, a, a'), st).
Proof.
  intros Hs Ha Ha'. cbn [plain_item ei_layers run_layers run_layer].
  rewrite Z.eqb_refl, !conv_out_stem by assumption. cbn [run_layer]. rewrite Z.eqb_refl. reflexivity.
Qed.

Lemma run_cn_stage C n a a' st :
  run_layers (ei_layers (plain_item (repeat (LCNBlock C) n))) st (C, a, a') = (Some (C, a, a'), st).
Proof. cbn [plain_item ei_layers]. apply run_repeat_cn. Qed.

Lemma run_cn_down C C2 a a' st : 0 < a -> 0 < a' ->
  run_layers (ei_layers (plain_item [LNorm C; LConv C C2 2 2 0])) st (C, 2 * a, 2 * a')
  = (Some (C2, a, a'), st).
Proof.
  intros Ha Ha'. cbn [plain_item ei_layers run_layers run_layer].
  rewrite Z.eqb_refl. cbn [run_layer]. rewrite Z.eqb_refl, !conv_out_down by assumption. reflexivity.
Qed.

Lemma convnext_backbone_forward c C4 d0 d1 d2 d3 e bb L st h w :
  bb_kind bb = 1%nat -> bb_enc bb = convnext_enc c C4 d0 d1 d2 d3 ->
  bb_dec bb = tv_decoder C4 (c_kernel c) (c_up_interp c) e L -> (3 <= L <= 5)%nat ->
  c_stem_kernel c = 4 -> c_stem_stride c = pow2 e -> (1 <= e <= 2)%nat -> 0 < h -> 0 < w ->
  backbone_forward bb st (c_in_channels c, pow2 e * (2 * (2 * (2 * h))), pow2 e * (2 * (2 * (2 * w))))
  = (Some (map (tv_out C4 h w) (seq 0 L)), st).
Proof.
  intros Hk He Hd HL Hsk Hs Hee Hh Hw. unfold backbone_forward. rewrite Hk, He, Hd.
  unfold convnext_enc. rewrite Hsk, Hs.
  assert (Hsps : pow2 e = 2 \/ pow2 e = 4).
  { destruct e as [|[|[|]]]; try lia; cbn; auto. }
  cbn [map].
  assert (H2h : 0 < 2 * h) by lia. assert (H2w : 0 < 2 * w) by lia.
  assert (H4h : 0 < 2 * (2 * h)) by lia. assert (H4w : 0 < 2 * (2 * w)) by lia.
  assert (H8h : 0 < 2 * (2 * (2 * h))) by lia. assert (H8w : 0 < 2 * (2 * (2 * w))) by lia.
  rewrite (feats_forward_cons_ok _ _ _ _ _ (run_stem _ _ _ _ _ st Hsps H8h H8w)).
  rewrite (feats_forward_cons_ok _ _ _ _ _ (run_cn_stage _ _ _ _ st)).
  rewrite (feats_forward_cons_ok _ _ _ _ _ (run_cn_down _ _ _ _ st H4h H4w)).
  rewrite (feats_forward_cons_ok _ _ _ _ _ (run_cn_stage _ _ _ _ st)).
  rewrite (feats_forward_cons_ok _ _ _ _ _ (run_cn_down _ _ _ _ st H2h H2w)).
  rewrite (feats_forward_cons_ok _ _ _ _ _ (run_cn_stage _ _ _ _ st)).
  rewrite (feats_forward_cons_ok _ _ _ _ _ (run_cn_down _ _ _ _ st Hh Hw)).
  rewrite (feats_forward_cons_ok _ _ _ _ _ (run_cn_stage _ _ _ _ st)).
  cbn [feats_forward rev app every_other removelast].
  apply tv_dec_forward. assumption.
  intros t Ht. unfold tv_out, tv_ch.
  destruct t as [|[|[|]]]; try lia; cbn [nth_error]; compute_pows; apply some_shape_eq; lia.
Qed.

Theorem convnext_model_forward f41 fixed c C4 ds e b heads st h w :
  convnext_valid c C4 ds e b -> tv_heads_ok e b heads -> 0 < h -> 0 < w ->
  exists m, build_model_fx f41 fixed (build_convnext c) heads = Some m /\
    fst (model_forward m st (c_in_channels c, pow2 e * (2 * (2 * (2 * h))), pow2 e * (2 * (2 * (2 * w)))))
    = Some (contracted heads (h * pow2 (e + 3)) (w * pow2 (e + 3))).
Proof.
  intros Hv Hheads Hh Hw.
  destruct (build_convnext_spec c C4 ds e b Hv) as (d0 & d1 & d2 & d3 & bb & Eb & Hk & Hen & Hd & Hr & Ho).
  destruct Hv as (Ha & Hl & Hsk & Hs & He & Hrr & Hoo & Hb).
  rewrite Eb.
  eapply (tv_model_forward C4 (c_kernel c) (c_up_interp c) e b He Hb); eauto.
  eapply convnext_backbone_forward; eauto. lia.
Qed.

(* ------------------------------------------------------------- Swin-T *)
Definition swint_valid (c : swint_cfg) (C4 : Z) (ds nhs : list Z) (e b : nat) : Prop :=
  swint_arch c = (4 * C4, ds, nhs) /\ length ds = 4%nat /\ length nhs = 4%nat /\
  (4 * C4) mod (nth 0 nhs 1) = 0 /\ (2 * (4 * C4)) mod (nth 1 nhs 1) = 0 /\
  (2 * (2 * (4 * C4))) mod (nth 2 nhs 1) = 0 /\ (2 * (2 * (2 * (4 * C4)))) mod (nth 3 nhs 1) = 0 /\
  s_patch c = 4 /\ s_stem_stride c = pow2 e /\ (1 <= e <= 2)%nat /\
  s_rate c = 2 # 1 /\ s_output_stride c = pow2 b /\ (b <= e)%nat.

Definition swint_enc (c : swint_cfg) (C4 : Z) (d0 d1 d2 d3 n0 n1 n2 n3 : Z) : list enc_item :=
  let E := 4 * C4 in
  map plain_item
    [[LConv (s_in_channels c) E (s_patch c) (s_stem_stride c) 1; LNorm E];
     repeat (LSwinBlock E n0) (Z.to_nat d0); [LMerge E];
     repeat (LSwinBlock (2 * E) n1) (Z.to_nat d1); [LMerge (2 * E)];
     repeat (LSwinBlock (2 * (2 * E)) n2) (Z.to_nat d2); [LMerge (2 * (2 * E))];
     repeat (LSwinBlock (2 * (2 * (2 * E))) n3) (Z.to_nat d3) ++ [LNorm (E * 2 ^ Z.of_nat 3)]].

Lemma build_swint_spec c C4 ds nhs e b : swint_valid c C4 ds nhs e b ->
  exists d0 d1 d2 d3 n0 n1 n2 n3 bb, build_swint c = Some bb /\
    nhs = [n0; n1; n2; n3] /\
    bb_kind bb = 2%nat /\ bb_enc bb = swint_enc c C4 d0 d1 d2 d3 n0 n1 n2 n3 /\
    bb_dec bb = tv_decoder C4 (s_kernel c) (s_up_interp c) e (3 + e - b) /\
    bb_rate bb = 2 # 1 /\ bb_output_stride bb = pow2 b.
Proof.
  intros (Ha & Hl & Hl2 & _ & _ & _ & _ & Hk & Hs & He & Hr & Ho & Hb).
  destruct ds as [|d0 [|d1 [|d2 [|d3 [|]]]]]; try discriminate Hl.
  destruct nhs as [|n0 [|n1 [|n2 [|n3 [|]]]]]; try discriminate Hl2.
  exists d0, d1, d2, d3, n0, n1, n2, n3. unfold build_swint. rewrite Ha.
  cbn [swint_stages length Nat.sub last removelast app].
  rewrite Hs, Hr, Ho.
  replace (4 * C4 * 2 ^ Z.of_nat 3) with (8 * (4 * C4)) by (compute_pows; lia).
  rewrite (tv_build_decoder C4 (s_kernel c) (s_up_interp c) e b) by assumption.
  eexists. split. reflexivity. cbn [bb_kind bb_enc bb_dec bb_rate bb_output_stride].
  repeat split. unfold swint_enc. rewrite Hs.
  replace (4 * C4 * 2 ^ Z.of_nat 3) with (8 * (4 * C4)) by (compute_pows; lia). reflexivity.
Qed.

Lemma run_sw_stage C nh n a a' st : C mod nh = 0 ->
  run_layers (ei_layers (plain_item (repeat (LSwinBlock C nh) n))) st (C, a, a') = (Some (C, a, a'), st).
Proof. intros. cbn [plain_item ei_layers]. apply run_repeat_swin. assumption. Qed.

Lemma run_sw_merge C a a' st :
  run_layers (ei_layers (plain_item [LMerge C])) st (C, 2 * a, 2 * a') = (Some (2 * C, a, a'), st).
Proof.
  cbn [plain_item ei_layers run_layers run_layer]. rewrite Z.eqb_refl, !ceil_div_even. reflexivity.
Qed.

Lemma run_sw_last C nh n X a a' st : C mod nh = 0 -> X = C ->
  run_layers (ei_layers (plain_item (repeat (LSwinBlock C nh) n ++ [LNorm X]))) st (C, a, a')
  = (Some (C, a, a'), st).
Proof.
  intros Hm ->. cbn [plain_item ei_layers]. rewrite run_layers_app, run_repeat_swin by assumption.
  cbn [run_layers run_layer]. rewrite Z.eqb_refl. reflexivity.
Qed.

Lemma swint_backbone_forward c C4 d0 d1 d2 d3 n0 n1 n2 n3 e bb L st h w :
  bb_kind bb = 2%nat -> bb_enc bb = swint_enc c C4 d0 d1 d2 d3 n0 n1 n2 n3 ->
  bb_dec bb = tv_decoder C4 (s_kernel c) (s_up_interp c) e L -> (3 <= L <= 5)%nat ->
  (4 * C4) mod n0 = 0 -> (2 * (4 * C4)) mod n1 = 0 ->
  (2 * (2 * (4 * C4))) mod n2 = 0 -> (2 * (2 * (2 * (4 * C4)))) mod n3 = 0 ->
  s_patch c = 4 -> s_stem_stride c = pow2 e -> (1 <= e <= 2)%nat -> 0 < h -> 0 < w ->
  backbone_forward bb st (s_in_channels c, pow2 e * (2 * (2 * (2 * h))), pow2 e * (2 * (2 * (2 * w))))
  = (Some (map (tv_out C4 h w) (seq 0 L)), st).
Proof.
  intros Hk He Hd HL M0 M1 M2 M3 Hsk Hs Hee Hh Hw. unfold backbone_forward. rewrite Hk, He, Hd.
  unfold swint_enc. rewrite Hsk, Hs.
  assert (Hsps : pow2 e = 2 \/ pow2 e = 4).
  { clear - Hee. destruct e as [|[|[|]]]; try lia; cbn; auto. }
  cbn [map].
  assert (H2h : 0 < 2 * h) by (clear - Hh; lia). assert (H2w : 0 < 2 * w) by (clear - Hw; lia).
  assert (H4h : 0 < 2 * (2 * h)) by (clear - Hh; lia). assert (H4w : 0 < 2 * (2 * w)) by (clear - Hw; lia).
  assert (H8h : 0 < 2 * (2 * (2 * h))) by (clear - Hh; lia). assert (H8w : 0 < 2 * (2 * (2 * w))) by (clear - Hw; lia).
  assert (EX : 4 * C4 * 2 ^ Z.of_nat 3 = 2 * (2 * (2 * (4 * C4)))) by (clear; compute_pows; lia).
  rewrite (feats_forward_cons_ok _ _ _ _ _ (run_stem _ _ _ _ _ st Hsps H8h H8w)).
  rewrite (feats_forward_cons_ok _ _ _ _ _ (run_sw_stage _ _ _ _ _ st M0)).
  rewrite (feats_forward_cons_ok _ _ _ _ _ (run_sw_merge _ _ _ st)).
  rewrite (feats_forward_cons_ok _ _ _ _ _ (run_sw_stage _ _ _ _ _ st M1)).
  rewrite (feats_forward_cons_ok _ _ _ _ _ (run_sw_merge _ _ _ st)).
  rewrite (feats_forward_cons_ok _ _ _ _ _ (run_sw_stage _ _ _ _ _ st M2)).
  rewrite (feats_forward_cons_ok _ _ _ _ _ (run_sw_merge _ _ _ st)).
  rewrite (feats_forward_cons_ok _ _ _ _ _ (run_sw_last _ _ _ _ _ _ st M3 EX)).
  cbn [feats_forward rev app every_other removelast].
  clear M0 M1 M2 M3.
  replace (2 * (2 * (2 * (4 * C4)))) with (8 * (4 * C4)) by lia.
  apply tv_dec_forward. assumption.
  intros t Ht. unfold tv_out, tv_ch.
  destruct t as [|[|[|]]]; try lia; cbn [nth_error]; compute_pows; apply some_shape_eq; lia.
Qed.

Theorem swint_model_forward f41 fixed c C4 ds nhs e b heads st h w :
  swint_valid c C4 ds nhs e b -> tv_heads_ok e b heads -> 0 < h -> 0 < w ->
  exists m, build_model_fx f41 fixed (build_swint c) heads = Some m /\
    fst (model_forward m st (s_in_channels c, pow2 e * (2 * (2 * (2 * h))), pow2 e * (2 * (2 * (2 * w)))))
    = Some (contracted heads (h * pow2 (e + 3)) (w * pow2 (e + 3))).
Proof.
  intros Hv Hheads Hh Hw.
  destruct (build_swint_spec c C4 ds nhs e b Hv)
    as (d0 & d1 & d2 & d3 & n0 & n1 & n2 & n3 & bb & Eb & En & Hk & Hen & Hd & Hr & Ho).
  destruct Hv as (Ha & Hl & Hl2 & M0 & M1 & M2 & M3 & Hsk & Hs & He & Hrr & Hoo & Hb).
  subst nhs. cbn [nth] in M0, M1, M2, M3.
  rewrite Eb.
  eapply (tv_model_forward C4 (s_kernel c) (s_up_interp c) e b He Hb); eauto.
  eapply swint_backbone_forward; eauto. clear - He Hb. lia.
Qed.

(* ------------------------------------ booleans of Shapes.v, as properties *)
(* valid_config = the structural conditions (valid_config_core) && positive_sizes; the proofs
   below need the structural part only (the shape calculus never inspects a kernel size) *)
Lemma valid_core c heads : valid_config c heads = true -> valid_config_core c heads = true.
Proof. unfold valid_config. intros H. apply andb_true_iff in H. tauto. Qed.

Lemma is_pow2_spec z : is_pow2 z = true -> exists n, z = pow2 n.
Proof.
  unfold is_pow2. intros H. apply andb_true_iff in H. destruct H as [H0 H1].
  apply Z.ltb_lt in H0. apply Z.eqb_eq in H1.
  exists (Z.to_nat (Z.log2 z)). rewrite pow2_eq, Z2Nat.id by apply Z.log2_nonneg. exact H1.
Qed.

Lemma pow2_le_inv a b : pow2 a <= pow2 b -> (a <= b)%nat.
Proof.
  intros H. destruct (le_lt_dec a b) as [|L]; auto. apply pow2_lt in L. lia.
Qed.

Lemma pow2_lt_inv a b : pow2 a < pow2 b -> (a < b)%nat.
Proof.
  intros H. destruct (le_lt_dec b a) as [L|]; auto.
  destruct (Nat.eq_dec a b) as [->|]. lia. assert (pow2 b < pow2 a) by (apply pow2_lt; lia). lia.
Qed.

Lemma mod_pow2_mult H n : 0 < H -> H mod pow2 n = 0 -> exists h, 0 < h /\ H = h * pow2 n.
Proof.
  intros Hp Hm. pose proof (pow2_pos n). exists (H / pow2 n). split.
  - apply Z.div_str_pos. split; auto. apply Z.mod_divide in Hm; [|lia].
    apply Z.divide_pos_le in Hm; lia.
  - rewrite Z.mul_comm. apply Z.div_exact in Hm; lia.
Qed.

Lemma mod_pow2_weaken H a b : (a <= b)%nat -> H mod pow2 b = 0 -> H mod pow2 a = 0.
Proof.
  intros Hab Hm. pose proof (pow2_pos a). pose proof (pow2_pos b).
  apply Z.mod_divide in Hm; [|lia]. apply Z.mod_divide; [lia|].
  eapply Z.divide_trans; [|exact Hm].
  replace b with ((b - a) + a)%nat by lia. rewrite pow2_add. apply Z.divide_factor_r.
Qed.

Lemma existsb_false {A} (f : A -> bool) l : existsb f l = false -> forall x, In x l -> f x = false.
Proof.
  intros H x Hin. apply not_true_is_false. intros Hx.
  assert (existsb f l = true) by (apply existsb_exists; eauto). congruence.
Qed.

(* ----------------------------------- UNet: the statement in selector form *)
Lemma head_in_false_some u s d b hd t : (b <= t < s + d)%nat -> h_os hd = pow2 t ->
  u_output_stride u = pow2 b ->
  exists x, head_in_channels false (unet_backbone u s d b) (u_output_stride u) hd = Some x.
Proof.
  intros Ht E Hos. unfold head_in_channels.
  cbn [unet_backbone unet_backbone_fx unet_decoder_fx unet_xin fx17 nofix andb bb_dec unet_decoder d_strides]; rewrite ?unet_xin_nofix. rewrite E, Hos.
  destruct (pow2 t =? pow2 b). eauto.
  rewrite (index_of_stride (s + d) b b), (index_of_stride (s + d) b t) by lia. eauto.
Qed.

Lemma unet_min_os u s d b heads : u_output_stride u = pow2 b -> heads_ok heads b (s + d) ->
  Z.min (min_list (bb_output_stride (unet_backbone u s d b)) (map h_os heads))
        (bb_output_stride (unet_backbone u s d b)) = u_output_stride u.
Proof.
  intros Hos Hheads. cbn [unet_backbone unet_backbone_fx unet_decoder_fx unet_xin fx17 nofix andb bb_output_stride]; rewrite ?unet_xin_nofix. rewrite min_list_ge. lia.
  apply Forall_map. eapply Forall_impl; [|exact Hheads].
  intros hd (t & Ht & E). cbn beta. rewrite E, Hos.
  destruct (Nat.eq_dec b t) as [->|]. lia. assert (pow2 b < pow2 t) by (apply pow2_lt; lia). lia.
Qed.

Lemma selector_F43_false_sized u s d b heads :
  unet_valid u s d b -> 2 <= u_convs_per_block u -> u_middle u = true -> heads_ok heads b (s + d) ->
  selector_F43 (CfgUNet u) heads = false -> heads_sized false u s d b heads.
Proof.
  intros Hv Hcpb Hmid Hheads Hsel hd t Hin Eos.
  pose proof Hv as (Hms & Hos & Hb & Hstem).
  unfold selector_F43 in Hsel. change (build_backbone (CfgUNet u)) with (build_unet u) in Hsel.
  rewrite (build_unet_spec u s d b Hv Hcpb Hmid) in Hsel.
  rewrite (unet_min_os u s d b heads Hos Hheads) in Hsel.
  pose proof (existsb_false _ _ Hsel hd Hin) as Hhd. cbn beta in Hhd.
  pose proof Hheads as Hh2. unfold heads_ok in Hh2. rewrite Forall_forall in Hh2.
  destruct (Hh2 hd Hin) as (t' & Ht & E). rewrite E in Eos. apply pow2_inj in Eos. subst t'.
  rewrite (heads_sized_fixed u s d b heads Hb Hheads hd t Hin E) in Hhd.
  destruct (head_in_false_some u s d b hd t Ht E Hos) as (x & Ex). rewrite Ex in Hhd. rewrite Ex.
  apply negb_false_iff, Z.eqb_eq in Hhd. congruence.
Qed.

Theorem unet_contract_partial fixed u heads H W :
  valid_config (CfgUNet u) heads = true -> in_domain (CfgUNet u) H W = true ->
  selector_F17 (CfgUNet u) = false -> selector_F18 (CfgUNet u) = false ->
  selector_F41 (CfgUNet u) heads = false ->
  (fixed = true \/ selector_F43 (CfgUNet u) heads = false) ->
  exists m, build_model fixed (build_unet u) heads = Some m /\
    forall st, fst (model_forward m st (u_in_channels u, H, W)) = Some (contracted heads H W).
Proof.
  intros Hval Hdom H17 H18 H41 H43.
  apply valid_core in Hval. unfold valid_config_core in Hval. cbn [cfg_output_stride cfg_max_stride] in Hval.
  apply andb_true_iff in Hval. destruct Hval as [Hval Hu].
  apply andb_true_iff in Hval. destruct Hval as [Hval Hvh].
  apply andb_true_iff in Hval. destruct Hval as [Hpos Hpms].
  apply andb_true_iff in Hu. destruct Hu as [Hu Hstem].
  destruct (is_pow2_spec _ Hpos) as (b & Hos). destruct (is_pow2_spec _ Hpms) as (n & Hms).
  (* stem *)
  assert (Hs : exists s, (s <= n)%nat /\ ((s = 0%nat /\ u_stem_stride u = None) \/ u_stem_stride u = Some (pow2 s))).
  { destruct (u_stem_stride u) as [sv|] eqn:Es.
    - apply andb_true_iff in Hstem. destruct Hstem as [Hp Hle]. destruct (is_pow2_spec _ Hp) as (s & ->).
      apply Z.leb_le in Hle. rewrite Hms in Hle. exists s. split. apply pow2_le_inv; auto. right; reflexivity.
    - exists 0%nat. split. lia. left; auto. }
  destruct Hs as (s & Hsn & Hstem').
  set (d := (n - s)%nat). assert (En : n = (s + d)%nat) by (unfold d; lia).
  (* selectors *)
  unfold selector_F17 in H17. apply negb_false_iff in H17.
  unfold selector_F18 in H18. apply Z.ltb_ge in H18.
  unfold selector_F41 in H41. cbn [effective_max_stride] in H41.
  unfold valid_heads in Hvh. apply andb_true_iff in Hvh. destruct Hvh as [Hne Hall].
  rewrite forallb_forall in Hall.
  assert (Hheads : heads_ok heads b n /\ (b < n)%nat).
  { assert (Hh : forall hd, In hd heads -> exists t, (b <= t < n)%nat /\ h_os hd = pow2 t).
    { intros hd Hin. specialize (Hall hd Hin).
      apply andb_true_iff in Hall. destruct Hall as [Hall Hle2].
      apply andb_true_iff in Hall. destruct Hall as [Hp2 H0].
      destruct (is_pow2_spec _ Hp2) as (t & Et). exists t. split; auto.
      cbn [cfg_output_stride] in H0. apply Z.leb_le in H0. rewrite Hos, Et in H0.
      pose proof (existsb_false _ _ H41 hd Hin) as Hlt. cbn beta in Hlt. apply Z.leb_gt in Hlt.
      rewrite Hms, Et in Hlt. split. apply pow2_le_inv; auto. apply pow2_lt_inv; auto. }
    split. apply Forall_forall; auto.
    destruct heads as [|hd0 ?]; [discriminate Hne|].
    destruct (Hh hd0 (or_introl eq_refl)) as (t & Ht & _). lia. }
  destruct Hheads as [Hheads Hbn].
  assert (Hv : unet_valid u s d b).
  { unfold unet_valid. rewrite <- En. repeat split; auto. }
  (* input *)
  unfold in_domain in Hdom. cbn [cfg_max_stride] in Hdom.
  repeat (apply andb_true_iff in Hdom; destruct Hdom as [Hdom ?]).
  apply Z.ltb_lt in Hdom. apply Z.ltb_lt in H2. apply Z.eqb_eq in H1. apply Z.eqb_eq in H0.
  rewrite Hms in H0, H1.
  destruct (mod_pow2_mult H n Hdom H1) as (h & Hh & ->).
  destruct (mod_pow2_mult W n H2 H0) as (w & Hw & ->).
  rewrite En in Hheads.
  assert (Hsized : heads_sized fixed u s d b heads).
  { destruct H43 as [-> | H43].
    - apply heads_sized_fixed; auto. lia.
    - destruct fixed. apply heads_sized_fixed; auto; lia.
      apply selector_F43_false_sized; auto. }
  destruct (unet_model_forward fixed u s d b heads fresh h w Hv H18 H17 Hheads Hsized Hh Hw) as (m & Em & _).
  exists m. split. exact Em.
  intros st.
  destruct (unet_model_forward fixed u s d b heads st h w Hv H18 H17 Hheads Hsized Hh Hw) as (m' & Em' & Hf).
  rewrite Em in Em'. injection Em' as <-. rewrite En. exact Hf.
Qed.

(* --------------------- ConvNeXt / Swin-T: the statement in selector form *)
Lemma q_is_spec q n d : q_is q n d = true -> q = n # d.
Proof.
  unfold q_is. intros H. apply andb_true_iff in H. destruct H as [H1 H2].
  apply Z.eqb_eq in H1. apply Pos.eqb_eq in H2. destruct q as [qn qd]. cbn in *. subst. reflexivity.
Qed.

Lemma tv_common (bos sps cfgmax eff : Z) heads H W e :
  sps = pow2 e -> eff = pow2 (e + 3) -> is_pow2 bos = true -> is_pow2 cfgmax = true ->
  forallb (fun hd => is_pow2 (h_os hd) && (bos <=? h_os hd) && (h_os hd <=? Z.max cfgmax eff)) heads = true ->
  (sps <? Z.min (min_list bos (map h_os heads)) bos) = false ->
  existsb (fun hd => eff <=? h_os hd) heads = false ->
  (0 <? H) && (0 <? W) && (H mod cfgmax =? 0) && (W mod cfgmax =? 0) = true ->
  (cfgmax <? eff) && negb ((H mod eff =? 0) && (W mod eff =? 0)) = false ->
  exists b h w, bos = pow2 b /\ (b <= e)%nat /\ tv_heads_ok e b heads /\ 0 < h /\ 0 < w /\
    H = pow2 e * (2 * (2 * (2 * h))) /\ W = pow2 e * (2 * (2 * (2 * w))) /\
    H = h * pow2 (e + 3) /\ W = w * pow2 (e + 3).
Proof.
  intros Hsps Heff Hpb Hpm Hall H20 H41 Hdom H42.
  destruct (is_pow2_spec _ Hpb) as (b & Hb). destruct (is_pow2_spec _ Hpm) as (mm & Hmm).
  rewrite forallb_forall in Hall.
  assert (Hh : forall hd, In hd heads -> exists t, (b <= t <= e + 2)%nat /\ h_os hd = pow2 t).
  { intros hd Hin. specialize (Hall hd Hin).
    apply andb_true_iff in Hall. destruct Hall as [Hall _].
    apply andb_true_iff in Hall. destruct Hall as [Hp2 Hle].
    destruct (is_pow2_spec _ Hp2) as (t & Et). exists t. split; auto.
    apply Z.leb_le in Hle. rewrite Hb, Et in Hle.
    pose proof (existsb_false _ _ H41 hd Hin) as Hlt. cbn beta in Hlt. apply Z.leb_gt in Hlt.
    rewrite Heff, Et in Hlt. apply pow2_le_inv in Hle. apply pow2_lt_inv in Hlt. lia. }
  assert (Hmin : min_list bos (map h_os heads) = bos).
  { apply min_list_ge. apply Forall_map, Forall_forall. intros hd Hin.
    destruct (Hh hd Hin) as (t & Ht & Et). rewrite Et, Hb.
    destruct (Nat.eq_dec b t) as [->|]. lia. assert (pow2 b < pow2 t) by (apply pow2_lt; lia). lia. }
  rewrite Hmin, Z.min_id in H20. apply Z.ltb_ge in H20. rewrite Hb, Hsps in H20. apply pow2_le_inv in H20.
  repeat (apply andb_true_iff in Hdom; destruct Hdom as [Hdom ?]).
  apply Z.ltb_lt in Hdom. apply Z.ltb_lt in H2. apply Z.eqb_eq in H1. apply Z.eqb_eq in H0.
  assert (Hdiv : H mod pow2 (e + 3) = 0 /\ W mod pow2 (e + 3) = 0).
  { apply andb_false_iff in H42. destruct H42 as [Hge | Hd].
    - apply Z.ltb_ge in Hge. rewrite Heff, Hmm in Hge. apply pow2_le_inv in Hge.
      rewrite Hmm in H0, H1. split; eapply mod_pow2_weaken; eauto.
    - apply negb_false_iff, andb_true_iff in Hd. destruct Hd as [D1 D2].
      apply Z.eqb_eq in D1. apply Z.eqb_eq in D2. rewrite Heff in D1, D2. auto. }
  destruct Hdiv as [D1 D2].
  destruct (mod_pow2_mult H (e + 3) Hdom D1) as (h & Hh0 & EH).
  destruct (mod_pow2_mult W (e + 3) H2 D2) as (w & Hw0 & EW).
  exists b, h, w. repeat split; auto.
  - apply Forall_forall. auto.
  - rewrite EH, pow2_add. cbn [pow2]. lia.
  - rewrite EW, pow2_add. cbn [pow2]. lia.
Qed.

Lemma sps_pow2 sps : (sps =? 2) || (sps =? 4) = true -> exists e, (1 <= e <= 2)%nat /\ sps = pow2 e.
Proof.
  intros H. apply orb_true_iff in H. destruct H as [H|H]; apply Z.eqb_eq in H; subst.
  - exists 1%nat. split. lia. reflexivity.
  - exists 2%nat. split. lia. reflexivity.
Qed.

Theorem convnext_contract_partial f41 fixed u heads H W :
  valid_config (CfgConvNext u) heads = true -> in_domain (CfgConvNext u) H W = true ->
  selector_F20 (CfgConvNext u) heads = false -> selector_F41 (CfgConvNext u) heads = false ->
  selector_F42 (CfgConvNext u) H W = false ->
  exists m, build_model_fx f41 fixed (build_convnext u) heads = Some m /\
    forall st, fst (model_forward m st (c_in_channels u, H, W)) = Some (contracted heads H W).
Proof.
  intros Hval Hdom H20 H41 H42.
  apply valid_core in Hval. unfold valid_config_core in Hval. cbn [cfg_output_stride cfg_max_stride] in Hval.
  apply andb_true_iff in Hval. destruct Hval as [Hval Hu].
  apply andb_true_iff in Hval. destruct Hval as [Hval Hvh].
  apply andb_true_iff in Hval. destruct Hval as [Hpos Hpms].
  apply andb_true_iff in Hu. destruct Hu as [Hu Harch].
  apply andb_true_iff in Hu. destruct Hu as [Hu Hker].
  apply andb_true_iff in Hu. destruct Hu as [Hrate Hsps].
  apply q_is_spec in Hrate. apply Z.eqb_eq in Hker.
  destruct (sps_pow2 _ Hsps) as (e & He & Es).
  (* the architecture *)
  unfold convnext_arch_ok in Harch.
  destruct (convnext_arch u) as [ds chs] eqn:Ea.
  destruct chs as [|c0 [|c1 [|c2 [|c3 [|]]]]]; try discriminate Harch.
  apply andb_true_iff in Harch. destruct Harch as [Harch A3]. apply Z.eqb_eq in A3.
  apply andb_true_iff in Harch. destruct Harch as [Harch A2]. apply Z.eqb_eq in A2.
  apply andb_true_iff in Harch. destruct Harch as [Harch A1]. apply Z.eqb_eq in A1.
  apply andb_true_iff in Harch. destruct Harch as [Harch A0]. apply Z.eqb_eq in A0.
  apply andb_true_iff in Harch. destruct Harch as [Alen _]. apply Nat.eqb_eq in Alen.
  set (C4 := c0 / 4). assert (Ec0 : c0 = 4 * C4) by (clear - A0; unfold C4; lia).
  assert (Earch : (ds, [c0; c1; c2; c3]) = (ds, [4 * C4; 2 * (4 * C4); 4 * (4 * C4); 8 * (4 * C4)])).
  { rewrite A1, A2, A3, Ec0. reflexivity. }
  assert (Eeff : effective_max_stride (CfgConvNext u) = pow2 (e + 3)).
  { cbn [effective_max_stride]. rewrite Ea, Es. cbn [snd length]. rewrite pow2_add. compute_pows. lia. }
  unfold valid_heads in Hvh. apply andb_true_iff in Hvh. destruct Hvh as [_ Hall].
  unfold selector_F20 in H20. cbn [cfg_patch_stride cfg_output_stride] in H20.
  unfold selector_F41 in H41. unfold selector_F42 in H42. cbn [cfg_patch_stride cfg_max_stride] in H42.
  unfold in_domain in Hdom. cbn [cfg_max_stride] in Hdom. cbn [cfg_output_stride cfg_max_stride] in Hall.
  destruct (tv_common (c_output_stride u) (c_stem_stride u) (c_max_stride u)
              (effective_max_stride (CfgConvNext u)) heads H W e Es Eeff Hpos Hpms Hall H20 H41 Hdom H42)
    as (b & h & w & Hos & Hbe & Hheads & Hh & Hw & EH & EW & EH2 & EW2).
  assert (Hv : convnext_valid u C4 ds e b).
  { unfold convnext_valid. rewrite Ea. split. exact Earch.
    split. exact Alen. split. exact Hker. split. exact Es. split. exact He.
    split. exact Hrate. split. exact Hos. exact Hbe. }
  destruct (convnext_model_forward f41 fixed u C4 ds e b heads fresh h w Hv Hheads Hh Hw) as (m & Em & _).
  exists m. split. exact Em. intros st.
  destruct (convnext_model_forward f41 fixed u C4 ds e b heads st h w Hv Hheads Hh Hw) as (m' & Em' & Hf).
  rewrite Em in Em'. injection Em' as <-.
  rewrite <- EH, <- EW in Hf. rewrite <- EH2, <- EW2 in Hf. exact Hf.
Qed.

Theorem swint_contract_partial f41 fixed u heads H W :
  valid_config (CfgSwinT u) heads = true -> in_domain (CfgSwinT u) H W = true ->
  selector_F20 (CfgSwinT u) heads = false -> selector_F41 (CfgSwinT u) heads = false ->
  selector_F42 (CfgSwinT u) H W = false ->
  exists m, build_model_fx f41 fixed (build_swint u) heads = Some m /\
    forall st, fst (model_forward m st (s_in_channels u, H, W)) = Some (contracted heads H W).
Proof.
  intros Hval Hdom H20 H41 H42.
  apply valid_core in Hval. unfold valid_config_core in Hval. cbn [cfg_output_stride cfg_max_stride] in Hval.
  apply andb_true_iff in Hval. destruct Hval as [Hval Hu].
  apply andb_true_iff in Hval. destruct Hval as [Hval Hvh].
  apply andb_true_iff in Hval. destruct Hval as [Hpos Hpms].
  apply andb_true_iff in Hu. destruct Hu as [Hu Harch].
  apply andb_true_iff in Hu. destruct Hu as [Hu Hker].
  apply andb_true_iff in Hu. destruct Hu as [Hrate Hsps].
  apply q_is_spec in Hrate. apply Z.eqb_eq in Hker.
  destruct (sps_pow2 _ Hsps) as (e & He & Es).
  unfold swint_arch_ok in Harch.
  destruct (swint_arch u) as [[E ds] nhs] eqn:Ea.
  destruct nhs as [|n0 [|n1 [|n2 [|n3 [|]]]]]; try discriminate Harch.
  apply andb_true_iff in Harch. destruct Harch as [Harch M3]. apply Z.eqb_eq in M3.
  apply andb_true_iff in Harch. destruct Harch as [Harch M2]. apply Z.eqb_eq in M2.
  apply andb_true_iff in Harch. destruct Harch as [Harch M1]. apply Z.eqb_eq in M1.
  apply andb_true_iff in Harch. destruct Harch as [Harch M0]. apply Z.eqb_eq in M0.
  apply andb_true_iff in Harch. destruct Harch as [Harch A0]. apply Z.eqb_eq in A0.
  apply andb_true_iff in Harch. destruct Harch as [Alen _]. apply Nat.eqb_eq in Alen.
  set (C4 := E / 4). assert (EE : E = 4 * C4) by (clear - A0; unfold C4; lia).
  clearbody C4. subst E.
  assert (Eeff : effective_max_stride (CfgSwinT u) = pow2 (e + 3)).
  { cbn [effective_max_stride]. rewrite Ea, Es. cbn [fst snd]. rewrite Alen, pow2_add. compute_pows.
    clear. lia. }
  unfold valid_heads in Hvh. apply andb_true_iff in Hvh. destruct Hvh as [_ Hall].
  unfold selector_F20 in H20. cbn [cfg_patch_stride cfg_output_stride] in H20.
  unfold selector_F41 in H41. unfold selector_F42 in H42. cbn [cfg_patch_stride cfg_max_stride] in H42.
  unfold in_domain in Hdom. cbn [cfg_max_stride] in Hdom. cbn [cfg_output_stride cfg_max_stride] in Hall.
  destruct (tv_common (s_output_stride u) (s_stem_stride u) (s_max_stride u)
              (effective_max_stride (CfgSwinT u)) heads H W e Es Eeff Hpos Hpms Hall H20 H41 Hdom H42)
    as (b & h & w & Hos & Hbe & Hheads & Hh & Hw & EH & EW & EH2 & EW2).
  assert (Hv : swint_valid u C4 ds [n0; n1; n2; n3] e b).
  { unfold swint_valid. rewrite Ea. cbn [nth length].
    split. reflexivity. split. exact Alen. split. reflexivity.
    split. exact M0. split. exact M1. split. exact M2. split. exact M3.
    split. exact Hker. split. exact Es. split. exact He.
    split. exact Hrate. split. exact Hos. exact Hbe. }
  destruct (swint_model_forward f41 fixed u C4 ds [n0; n1; n2; n3] e b heads fresh h w Hv Hheads Hh Hw) as (m & Em & _).
  exists m. split. exact Em. intros st.
  destruct (swint_model_forward f41 fixed u C4 ds [n0; n1; n2; n3] e b heads st h w Hv Hheads Hh Hw) as (m' & Em' & Hf).
  rewrite Em in Em'. injection Em' as <-.
  rewrite <- EH, <- EW in Hf. rewrite <- EH2, <- EW2 in Hf. exact Hf.
Qed.

(* ---------------------------------------- the property, for all backbones *)
Theorem contract_partial fixed c heads H W :
  valid_config c heads = true -> in_domain c H W = true -> any_selector c heads H W = false ->
  exists m, build_model fixed (build_backbone c) heads = Some m /\
    forall st, fst (model_forward m st (cfg_in_channels c, H, W)) = Some (contracted heads H W).
Proof.
  intros Hval Hdom Hsel. unfold any_selector in Hsel.
  repeat (apply orb_false_iff in Hsel; destruct Hsel as [Hsel ?]).
  destruct c as [u|u|u]; cbn [build_backbone cfg_in_channels].
  - apply unet_contract_partial; auto.
  - apply convnext_contract_partial; auto.
  - apply swint_contract_partial; auto.
Qed.

(* under the proposed repair the head sizing selector (F43) is not needed *)
Theorem contract_partial_repaired u heads H W :
  valid_config (CfgUNet u) heads = true -> in_domain (CfgUNet u) H W = true ->
  selector_F17 (CfgUNet u) = false -> selector_F18 (CfgUNet u) = false ->
  selector_F41 (CfgUNet u) heads = false ->
  exists m, build_model true (build_unet u) heads = Some m /\
    forall st, fst (model_forward m st (u_in_channels u, H, W)) = Some (contracted heads H W).
Proof. intros. apply unet_contract_partial; auto. Qed.

(* ------------------------------------------ (b) the finite preset grid *)
(* Model.__init__'s arithmetic for a UNet head at stride 2^t, as a function of
   (filters, rate, levels n, backbone stride 2^b) only *)
Definition head_arith (f : Z) (r : Q) (n b t : nat) : Z :=
  let base := round_half_even (inject_Z (fint f r (Z.of_nat n)) / r ^ Z.of_nat (n - b)) in
  if Nat.eqb t b then base
  else trunc (inject_Z base * r ^ (Z.of_nat (n - 1 - b) - Z.of_nat (n - 1 - t))).

Lemma head_in_false_arith u s d b hd t : (b <= t < s + d)%nat -> h_os hd = pow2 t ->
  u_output_stride u = pow2 b ->
  head_in_channels false (unet_backbone u s d b) (u_output_stride u) hd
  = Some (head_arith (u_filters u) (u_rate u) (s + d) b t).
Proof.
  intros Ht E Hos. unfold head_in_channels, head_arith, max_channels.
  cbn [unet_backbone unet_backbone_fx unet_decoder_fx unet_xin fx17 nofix andb bb_dec unet_decoder d_strides d_stack d_x_in bb_rate]; rewrite ?unet_xin_nofix.
  rewrite map_length, seq_length, E, Hos.
  destruct (Z.eqb_spec (pow2 t) (pow2 b)) as [Et|Et].
  - apply pow2_inj in Et. subst t. rewrite Nat.eqb_refl. reflexivity.
  - destruct (Nat.eqb_spec t b) as [->|]; [congruence|].
    rewrite (index_of_stride (s + d) b b), (index_of_stride (s + d) b t) by lia. reflexivity.
Qed.

Definition grid_filters : list Z := [16; 24; 32; 64].
Definition grid_rates : list Q := [3 # 2; 2 # 1].
(* the one grid point where the arithmetic is wrong: 24 * 1.5^k, max_stride 64,
   backbone stride 16, head at 32 (181 instead of 182 channels) *)
Definition grid_bad (f : Z) (r : Q) (n b t : nat) : bool :=
  (f =? 24) && q_is r 3 2 && Nat.eqb n 6 && Nat.eqb b 4 && Nat.eqb t 5.
Definition grid_check (f : Z) (r : Q) (n b t : nat) : bool :=
  (head_arith f r n b t =? fint f r (Z.of_nat t)) || grid_bad f r n b t.
Definition grid_ok : bool :=
  forallb (fun f => forallb (fun r => forallb (fun n => forallb (fun b =>
    forallb (fun t => grid_check f r n b t) (seq b (n - b))) (seq 0 n)) (seq 1 6)) grid_rates) grid_filters.

Lemma grid_ok_true : grid_ok = true.
Proof. vm_compute. reflexivity. Qed.

(* and it really is wrong there *)
Lemma grid_bad_is_bad : head_arith 24 (3 # 2) 6 4 5 = 181 /\ fint 24 (3 # 2) 5 = 182.
Proof. split; vm_compute; reflexivity. Qed.

Lemma grid_point f r n b t : In f grid_filters -> In r grid_rates -> (1 <= n <= 6)%nat -> (b <= t < n)%nat ->
  grid_bad f r n b t = false -> head_arith f r n b t = fint f r (Z.of_nat t).
Proof.
  intros Hf Hr Hn Ht Hbad. pose proof grid_ok_true as G. unfold grid_ok in G.
  rewrite forallb_forall in G. specialize (G f Hf).
  rewrite forallb_forall in G. specialize (G r Hr).
  rewrite forallb_forall in G. specialize (G n ltac:(apply in_seq; lia)).
  rewrite forallb_forall in G. specialize (G b ltac:(apply in_seq; lia)).
  rewrite forallb_forall in G. specialize (G t ltac:(apply in_seq; lia)).
  unfold grid_check in G. rewrite Hbad, orb_false_r in G. apply Z.eqb_eq in G. exact G.
Qed.

Theorem unet_grid fixed u heads H W :
  valid_config (CfgUNet u) heads = true -> in_domain (CfgUNet u) H W = true ->
  selector_F17 (CfgUNet u) = false -> selector_F18 (CfgUNet u) = false ->
  selector_F41 (CfgUNet u) heads = false ->
  In (u_filters u) grid_filters -> In (u_rate u) grid_rates -> u_max_stride u <= 64 ->
  (forall hd, In hd heads ->
     ~ (u_filters u = 24 /\ u_rate u = 3 # 2 /\ u_max_stride u = 64 /\ u_output_stride u = 16 /\ h_os hd = 32)) ->
  exists m, build_model fixed (build_unet u) heads = Some m /\
    forall st, fst (model_forward m st (u_in_channels u, H, W)) = Some (contracted heads H W).
Proof.
  intros Hval Hdom H17 H18 H41 Hf Hr Hms64 Hnb.
  apply unet_contract_partial; auto. right.
  (* re-derive the structure as in unet_contract_partial *)
  pose proof Hval as Hval0.
  apply valid_core in Hval. unfold valid_config_core in Hval. cbn [cfg_output_stride cfg_max_stride] in Hval.
  apply andb_true_iff in Hval. destruct Hval as [Hval Hu].
  apply andb_true_iff in Hval. destruct Hval as [Hval Hvh].
  apply andb_true_iff in Hval. destruct Hval as [Hpos Hpms].
  apply andb_true_iff in Hu. destruct Hu as [Hu Hstem].
  apply andb_true_iff in Hu. destruct Hu as [Hu _].
  apply andb_true_iff in Hu. destruct Hu as [Hu _].
  apply andb_true_iff in Hu. destruct Hu as [Hms2 _]. apply Z.leb_le in Hms2.
  destruct (is_pow2_spec _ Hpos) as (b & Hos). destruct (is_pow2_spec _ Hpms) as (n & Hms).
  assert (Hs : exists s, (s <= n)%nat /\ ((s = 0%nat /\ u_stem_stride u = None) \/ u_stem_stride u = Some (pow2 s))).
  { destruct (u_stem_stride u) as [sv|] eqn:Es.
    - apply andb_true_iff in Hstem. destruct Hstem as [Hp Hle]. destruct (is_pow2_spec _ Hp) as (s & ->).
      apply Z.leb_le in Hle. rewrite Hms in Hle. exists s. split. apply pow2_le_inv; auto. right; reflexivity.
    - exists 0%nat. split. lia. left; auto. }
  destruct Hs as (s & Hsn & Hstem').
  set (d := (n - s)%nat). assert (En : n = (s + d)%nat) by (unfold d; lia).
  unfold selector_F17 in H17. apply negb_false_iff in H17.
  unfold selector_F18 in H18. apply Z.ltb_ge in H18.
  unfold selector_F41 in H41. cbn [effective_max_stride] in H41.
  unfold valid_heads in Hvh. apply andb_true_iff in Hvh. destruct Hvh as [Hne Hall].
  rewrite forallb_forall in Hall.
  assert (Hh : forall hd, In hd heads -> exists t, (b <= t < n)%nat /\ h_os hd = pow2 t).
  { intros hd Hin. specialize (Hall hd Hin).
    apply andb_true_iff in Hall. destruct Hall as [Hall Hle2].
    apply andb_true_iff in Hall. destruct Hall as [Hp2 H0].
    destruct (is_pow2_spec _ Hp2) as (t & Et). exists t. split; auto.
    cbn [cfg_output_stride] in H0. apply Z.leb_le in H0. rewrite Hos, Et in H0.
    pose proof (existsb_false _ _ H41 hd Hin) as Hlt. cbn beta in Hlt. apply Z.leb_gt in Hlt.
    rewrite Hms, Et in Hlt. split. apply pow2_le_inv; auto. apply pow2_lt_inv; auto. }
  assert (Hbn : (b < n)%nat).
  { destruct heads as [|hd0 ?]; [discriminate Hne|].
    destruct (Hh hd0 (or_introl eq_refl)) as (t & Ht & _). lia. }
  assert (Hn6 : (1 <= n <= 6)%nat).
  { split.
    - destruct n; [cbn in Hms; lia | lia].
    - apply pow2_le_inv. rewrite <- Hms. exact Hms64. }
  assert (Hv : unet_valid u s d b).
  { unfold unet_valid. rewrite <- En. repeat split; auto. }
  assert (Hheads : heads_ok heads b (s + d)).
  { rewrite <- En. apply Forall_forall. auto. }
  (* selector_F43 is false: both sizings agree on every head *)
  unfold selector_F43. change (build_backbone (CfgUNet u)) with (build_unet u).
  rewrite (build_unet_spec u s d b Hv H18 H17), (unet_min_os u s d b heads Hos Hheads).
  apply not_true_is_false. intros Hex. apply existsb_exists in Hex. destruct Hex as (hd & Hin & Hhd).
  destruct (Hh hd Hin) as (t & Ht & Et).
  rewrite (head_in_false_arith u s d b hd t ltac:(lia) Et Hos) in Hhd.
  rewrite (heads_sized_fixed u s d b heads ltac:(lia) Hheads hd t Hin Et) in Hhd.
  rewrite <- En in Hhd. unfold unet_F in Hhd.
  rewrite grid_point in Hhd; auto.
  - rewrite Z.eqb_refl in Hhd. discriminate.
  - apply not_true_is_false. intros Hb. unfold grid_bad in Hb.
    repeat (apply andb_true_iff in Hb; destruct Hb as [Hb ?]).
    apply Z.eqb_eq in Hb. apply q_is_spec in H3. apply Nat.eqb_eq in H2, H1, H0.
    rewrite H2 in Hms. rewrite H1 in Hos. rewrite H0 in Et.
    apply (Hnb hd Hin). repeat split; auto.
Qed.

(* ------------------------------ (d) call sequences on one model instance *)
Lemma model_calls_stateless m (g : shape -> list shape) : forall xs st,
  (forall x, In x xs -> forall st', fst (model_forward m st' x) = Some (g x)) ->
  model_calls m st xs = map (fun x => Some (g x)) xs.
Proof.
  induction xs as [|x xs IH]; intros st H. reflexivity.
  cbn [model_calls map]. pose proof (H x (or_introl eq_refl) st) as Hx.
  destruct (model_forward m st x) as [o st'] eqn:E. cbn [fst] in Hx. subst o. f_equal.
  apply IH. intros y Hy. apply H. right; assumption.
Qed.

Theorem call_sequences fixed c heads m (inputs : list (Z * Z)) :
  valid_config c heads = true -> build_model fixed (build_backbone c) heads = Some m ->
  Forall (fun hw => in_domain c (fst hw) (snd hw) = true /\
                    any_selector c heads (fst hw) (snd hw) = false) inputs ->
  forall st,
    model_calls m st (map (fun hw => (cfg_in_channels c, fst hw, snd hw)) inputs)
    = map (fun hw => Some (contracted heads (fst hw) (snd hw))) inputs.
Proof.
  intros Hval Hm Hin st.
  rewrite (model_calls_stateless m (fun x => contracted heads (snd (fst x)) (snd x))).
  - rewrite map_map. reflexivity.
  - intros x Hx st'. apply in_map_iff in Hx. destruct Hx as ((H & W) & <- & Hhw).
    rewrite Forall_forall in Hin. destruct (Hin (H, W) Hhw) as [Hd Hs]. cbn [fst snd] in *.
    destruct (contract_partial fixed c heads H W Hval Hd Hs) as (m' & Em' & Hf).
    rewrite Hm in Em'. injection Em' as <-. apply Hf.
Qed.

(* ------------------------------ (c) the data pipeline's target shapes *)
Lemma ceil_div_exact_z a b : 0 < b -> a mod b = 0 -> ceil_div a b = a / b.
Proof.
  intros Hb Hm. unfold ceil_div. rewrite Z.div_opp_l_z by (auto; intro; subst; inversion Hb).
  apply Z.opp_involutive.
Qed.

Lemma contracted_targets heads H W :
  (forall hd, In hd heads -> 0 < h_os hd /\ H mod h_os hd = 0 /\ W mod h_os hd = 0) ->
  contracted heads H W = map (fun hd => target_shape hd H W) heads.
Proof.
  intros Hd. unfold contracted, target_shape. apply map_ext_in. intros hd Hin.
  destruct (Hd hd Hin) as (Hp & H1 & H2). rewrite !ceil_div_exact_z by assumption. reflexivity.
Qed.

Lemma pow2_mod_mult h a b : (b <= a)%nat -> (h * pow2 a) mod pow2 b = 0.
Proof.
  intros Hab. replace a with ((a - b) + b)%nat by lia. rewrite pow2_add, Z.mul_assoc.
  apply Z.mod_mul. pose proof (pow2_pos b). lia.
Qed.

Lemma eff_pow2 c heads : valid_config c heads = true -> exists k, effective_max_stride c = pow2 k.
Proof.
  intros Hval. apply valid_core in Hval. unfold valid_config_core in Hval.
  apply andb_true_iff in Hval. destruct Hval as [Hval Hu].
  apply andb_true_iff in Hval. destruct Hval as [Hval _].
  apply andb_true_iff in Hval. destruct Hval as [_ Hpms].
  destruct c as [u|u|u]; cbn [effective_max_stride cfg_max_stride] in *.
  - apply is_pow2_spec. exact Hpms.
  - apply andb_true_iff in Hu. destruct Hu as [Hu Harch].
    apply andb_true_iff in Hu. destruct Hu as [Hu _].
    apply andb_true_iff in Hu. destruct Hu as [_ Hsps].
    destruct (sps_pow2 _ Hsps) as (e & He & Es).
    unfold convnext_arch_ok in Harch. destruct (convnext_arch u) as [ds chs].
    destruct chs as [|c0 [|c1 [|c2 [|c3 [|]]]]]; try discriminate Harch.
    exists (e + 3)%nat. rewrite Es. cbn [snd length]. rewrite pow2_add. compute_pows. lia.
  - apply andb_true_iff in Hu. destruct Hu as [Hu Harch].
    apply andb_true_iff in Hu. destruct Hu as [Hu _].
    apply andb_true_iff in Hu. destruct Hu as [_ Hsps].
    destruct (sps_pow2 _ Hsps) as (e & He & Es).
    unfold swint_arch_ok in Harch. destruct (swint_arch u) as [[E ds] nhs].
    destruct nhs as [|n0 [|n1 [|n2 [|n3 [|]]]]]; try discriminate Harch.
    repeat (apply andb_true_iff in Harch; destruct Harch as [Harch _]).
    apply Nat.eqb_eq in Harch.
    exists (e + 3)%nat. rewrite Es. cbn [fst snd]. rewrite Harch, pow2_add. compute_pows. lia.
Qed.

Lemma domain_divisible c heads H W :
  valid_config c heads = true -> in_domain c H W = true ->
  selector_F41 c heads = false -> selector_F42 c H W = false ->
  forall hd, In hd heads -> 0 < h_os hd /\ H mod h_os hd = 0 /\ W mod h_os hd = 0.
Proof.
  intros Hval Hdom H41 H42 hd Hin.
  destruct (eff_pow2 c heads Hval) as (k & Ek).
  apply valid_core in Hval. unfold valid_config_core in Hval.
  apply andb_true_iff in Hval. destruct Hval as [Hval _].
  apply andb_true_iff in Hval. destruct Hval as [Hval Hvh].
  apply andb_true_iff in Hval. destruct Hval as [_ Hpms].
  destruct (is_pow2_spec _ Hpms) as (mm & Hmm).
  unfold valid_heads in Hvh. apply andb_true_iff in Hvh. destruct Hvh as [_ Hall].
  rewrite forallb_forall in Hall. specialize (Hall hd Hin).
  apply andb_true_iff in Hall. destruct Hall as [Hall _].
  apply andb_true_iff in Hall. destruct Hall as [Hp2 _].
  destruct (is_pow2_spec _ Hp2) as (t & Et).
  unfold selector_F41 in H41. pose proof (existsb_false _ _ H41 hd Hin) as Hlt. cbn beta in Hlt.
  apply Z.leb_gt in Hlt. rewrite Ek, Et in Hlt. apply pow2_lt_inv in Hlt.
  unfold in_domain in Hdom.
  repeat (apply andb_true_iff in Hdom; destruct Hdom as [Hdom ?]).
  apply Z.eqb_eq in H0, H1. rewrite Hmm in H0, H1.
  assert (Hdiv : H mod pow2 k = 0 /\ W mod pow2 k = 0).
  { unfold selector_F42 in H42. destruct (cfg_patch_stride c) eqn:Eps.
    - apply andb_false_iff in H42. destruct H42 as [Hge | Hd].
      + apply Z.ltb_ge in Hge. rewrite Ek, Hmm in Hge. apply pow2_le_inv in Hge.
        split; eapply mod_pow2_weaken; eauto.
      + apply negb_false_iff, andb_true_iff in Hd. destruct Hd as [D1 D2].
        apply Z.eqb_eq in D1, D2. rewrite Ek in D1, D2. auto.
    - destruct c; try discriminate Eps. cbn [effective_max_stride cfg_max_stride] in *.
      rewrite Hmm in Ek. apply pow2_inj in Ek. subst. auto. }
  destruct Hdiv as [D1 D2]. rewrite Et. pose proof (pow2_pos t).
  split. assumption. split.
  - apply (mod_pow2_weaken H t k); [lia | exact D1].
  - apply (mod_pow2_weaken W t k); [lia | exact D2].
Qed.

(* the master statement with the data pipeline's target shapes on the right *)
Theorem contract_targets fixed c heads H W :
  valid_config c heads = true -> in_domain c H W = true -> any_selector c heads H W = false ->
  exists m, build_model fixed (build_backbone c) heads = Some m /\
    forall st, fst (model_forward m st (cfg_in_channels c, H, W))
               = Some (map (fun hd => target_shape hd H W) heads).
Proof.
  intros Hval Hdom Hsel.
  destruct (contract_partial fixed c heads H W Hval Hdom Hsel) as (m & Em & Hf).
  exists m. split; auto. intros st. rewrite Hf. f_equal. apply contracted_targets.
  unfold any_selector in Hsel.
  repeat (apply orb_false_iff in Hsel; destruct Hsel as [Hsel ?]).
  eapply domain_divisible; eauto.
Qed.

(* ------------------- link with C01: the target grid of generate_confmaps *)
From SV Require C01.ConfMaps C01.Lemmas.

Lemma target_side_is_c01_grid (H os : nat) : (0 < os)%nat ->
  Z.of_nat (length (C01.ConfMaps.grid H os)) = ceil_div (Z.of_nat H) (Z.of_nat os).
Proof.
  intros Hos. rewrite C01.Lemmas.grid_length. unfold C01.ConfMaps.ceil_div, ceil_div.
  rewrite Nat2Z.inj_div, Nat2Z.inj_sub, Nat2Z.inj_add by lia.
  change (Z.of_nat 1) with 1.
  set (a := Z.of_nat H). set (b := Z.of_nat os). assert (Hb : 0 < b) by (unfold b; lia).
  clearbody a b. clear - Hb.
  pose proof (Z.div_mod (a + b - 1) b ltac:(lia)). pose proof (Z.mod_pos_bound (a + b - 1) b Hb).
  pose proof (Z.div_mod (- a) b ltac:(lia)). pose proof (Z.mod_pos_bound (- a) b Hb).
  nia.
Qed.

(* ------------------------------------------- refutation witnesses (vm_compute) *)
Definition w_unet (filters : Z) (rate : Q) (ms os : Z) (middle : bool) (cpb : Z) : config :=
  CfgUNet {| u_in_channels := 1; u_kernel := 3; u_filters := filters; u_rate := rate; u_max_stride := ms;
             u_stem_stride := None; u_middle := middle; u_up_interp := true; u_convs_per_block := cpb;
             u_output_stride := os |}.
Definition w_convnext_tiny (sps os ms : Z) : config :=
  CfgConvNext {| c_model_type := 0; c_arch := None; c_in_channels := 1; c_kernel := 3; c_stem_kernel := 4;
                 c_stem_stride := sps; c_rate := 2 # 1; c_up_interp := true; c_output_stride := os;
                 c_max_stride := ms |}.
Definition w_swint_tiny (sps os ms : Z) : config :=
  CfgSwinT {| s_model_type := 0; s_arch := None; s_in_channels := 1; s_kernel := 3; s_patch := 4;
              s_stem_stride := sps; s_rate := 2 # 1; s_up_interp := true; s_output_stride := os;
              s_max_stride := ms |}.

(* HISTORIC: each witness: a valid configuration, an input inside the domain, exactly one
   selector true, and the contract fails on the PINNED model (fixed = false, nofix: before the
   fixes 14997bd, 5fcfc16, 9a2daa4, f15d414); for the current tree see refutes_fx below *)
Definition refutes (c : config) (heads : list head) (H W : Z) (sels : list bool) : Prop :=
  valid_config c heads = true /\ in_domain c H W = true /\ sel_vector c heads H W = sels /\
  meets_contract false c heads H W = false.

Lemma refuted_F17 : refutes (w_unet 16 (2 # 1) 16 2 false 2) (get_head MSingle 3 2 2 2) 32 48
                            [true; false; false; false; false; false; false].
Proof. repeat split; vm_compute; reflexivity. Qed.
Lemma refuted_F18 : refutes (w_unet 16 (2 # 1) 16 2 true 1) (get_head MSingle 3 2 2 2) 32 48
                            [false; true; false; false; false; false; false].
Proof. repeat split; vm_compute; reflexivity. Qed.
Lemma refuted_F20 : refutes (w_convnext_tiny 2 4 16) (get_head MSingle 3 2 4 4) 32 48
                            [false; false; true; false; false; false; false].
Proof. repeat split; vm_compute; reflexivity. Qed.
Lemma refuted_F41 : refutes (w_unet 16 (2 # 1) 16 16 true 2) (get_head MCentroid 3 2 16 16) 32 48
                            [false; false; false; true; false; false; false].
Proof. repeat split; vm_compute; reflexivity. Qed.
Lemma refuted_F42 : refutes (w_swint_tiny 4 4 16) (get_head MSingle 3 2 4 4) 48 48
                            [false; false; false; false; true; false; false].
Proof. repeat split; vm_compute; reflexivity. Qed.
Lemma refuted_F43 : refutes (w_unet 24 (3 # 2) 64 16 true 2) (get_head MBottomUp 3 2 16 32) 64 64
                            [false; false; false; false; false; true; false].
Proof. repeat split; vm_compute; reflexivity. Qed.

Lemma full_statement_refuted :
  exists c heads H W, valid_config c heads = true /\ in_domain c H W = true /\
                      meets_contract false c heads H W = false.
Proof.
  exists (w_unet 16 (2 # 1) 16 2 false 2), (get_head MSingle 3 2 2 2), 32, 48.
  destruct refuted_F17 as (A & B & _ & D). auto.
Qed.

(* the proposed repair removes F20 and F43 on their witnesses *)
Lemma repaired_witnesses :
  meets_contract true (w_convnext_tiny 2 4 16) (get_head MSingle 3 2 4 4) 32 48 = true /\
  meets_contract true (w_unet 24 (3 # 2) 64 16 true 2) (get_head MBottomUp 3 2 16 32) 64 64 = true.
Proof. split; vm_compute; reflexivity. Qed.

(* outside the domain the pooling layer's state shows: the UNet encoder returns
   different shapes for the same odd-sized input on its first and second call *)
Definition w_u : unet_cfg :=
  {| u_in_channels := 1; u_kernel := 3; u_filters := 4; u_rate := 2 # 1; u_max_stride := 16;
     u_stem_stride := None; u_middle := true; u_up_interp := true; u_convs_per_block := 2;
     u_output_stride := 2 |}.

Lemma stateful_outside_domain :
  r_calls (run (CEncoder nofix w_u [(33, 48); (33, 48)]))
  = [Some [(64, 3, 3); (32, 5, 6); (16, 9, 12); (8, 17, 24); (4, 33, 48)];
     Some [(64, 2, 3); (32, 4, 6); (16, 8, 12); (8, 16, 24); (4, 33, 48)]].
Proof. vm_compute. reflexivity. Qed.

(* ... and inside the domain it does not: same encoder, a multiple of 16 *)
Lemma stateless_inside_domain :
  r_calls (run (CEncoder nofix w_u [(32, 48); (33, 48); (32, 48)]))
  = [Some [(64, 2, 3); (32, 4, 6); (16, 8, 12); (8, 16, 24); (4, 32, 48)];
     Some [(64, 2, 3); (32, 4, 6); (16, 8, 12); (8, 16, 24); (4, 33, 48)];
     Some [(64, 2, 3); (32, 4, 6); (16, 8, 12); (8, 16, 24); (4, 32, 48)]].
Proof. vm_compute. reflexivity. Qed.

(* non-vacuity: the hypotheses of the master statement are satisfiable for each backbone *)
Lemma ex_domain_unet :
  let c := w_unet 24 (3 # 2) 32 4 true 2 in let hs := get_head MBottomUp 5 4 4 8 in
  valid_config c hs = true /\ in_domain c 64 96 = true /\ any_selector c hs 64 96 = false /\ meets_contract false c hs 64 96 = true.
Proof. repeat split; vm_compute; reflexivity. Qed.
Lemma ex_domain_convnext :
  let c := w_convnext_tiny 2 2 16 in let hs := get_head MBottomUp 5 4 2 4 in
  valid_config c hs = true /\ in_domain c 32 48 = true /\ any_selector c hs 32 48 = false /\ meets_contract false c hs 32 48 = true.
Proof. repeat split; vm_compute; reflexivity. Qed.
Lemma ex_domain_swint :
  let c := w_swint_tiny 4 1 32 in let hs := get_head MCentroid 5 4 2 2 in
  valid_config c hs = true /\ in_domain c 64 32 = true /\ any_selector c hs 64 32 = false /\ meets_contract false c hs 64 32 = true.
Proof. repeat split; vm_compute; reflexivity. Qed.

(* (a) in explicit form: any depth, any rational rate p/q with filters = m * q^n *)
Theorem unet_general_rate c s d b heads (m p : Z) (q : positive) st h w :
  unet_valid c s d b -> 2 <= u_convs_per_block c -> u_middle c = true ->
  heads_ok heads b (s + d) ->
  u_rate c = p # q -> 0 < p -> u_filters c = m * Zpos q ^ Z.of_nat (s + d) ->
  0 < h -> 0 < w ->
  exists mm, build_model false (build_unet c) heads = Some mm /\
    fst (model_forward mm st (u_in_channels c, h * pow2 (s + d), w * pow2 (s + d)))
    = Some (contracted heads (h * pow2 (s + d)) (w * pow2 (s + d))).
Proof.
  intros Hv Hcpb Hmid Hheads Hr Hp Hf Hh Hw.
  apply (unet_model_forward false c s d b); auto.
  destruct Hv as (Hms & Hos & Hb & Hstem).
  eapply heads_sized_rate; eauto.
Qed.

Theorem unet_general_repaired c s d b heads st h w :
  unet_valid c s d b -> 2 <= u_convs_per_block c -> u_middle c = true ->
  heads_ok heads b (s + d) -> 0 < h -> 0 < w ->
  exists mm, build_model true (build_unet c) heads = Some mm /\
    fst (model_forward mm st (u_in_channels c, h * pow2 (s + d), w * pow2 (s + d)))
    = Some (contracted heads (h * pow2 (s + d)) (w * pow2 (s + d))).
Proof.
  intros Hv Hcpb Hmid Hheads Hh Hw.
  apply (unet_model_forward true c s d b); auto.
  destruct Hv as (Hms & Hos & Hb & Hstem).
  apply heads_sized_fixed; auto.
Qed.

(* ======================================================================
   The proposed repairs (fx17, fx18, fx41, fx42) as flags: with the head rule
   of the current tree (fixed = true) the contract holds for EVERY value of the
   flags, each flag removing exactly its selector from the hypotheses. *)

Lemma heads_sized_fixed_fx fx c s d b heads :
  Forall (fun hd => exists t, (b <= t)%nat /\ h_os hd = pow2 t) heads ->
  heads_sized_fx true fx c s d b heads.
Proof.
  intros Hheads hd t Hin Eos Ht. rewrite Forall_forall in Hheads.
  destruct (Hheads hd Hin) as (t' & Hbt & E). rewrite E in Eos. apply pow2_inj in Eos. subst t'.
  unfold head_in_channels. cbn [unet_backbone_fx unet_decoder_fx bb_dec d_strides d_stack]. rewrite E.
  rewrite index_of_stride by lia.
  rewrite nth_error_map, nth_error_seq by lia. cbn [option_map Nat.add].
  unfold dec_for_block, simple_upsampling_block. cbn [ub_out]. rewrite trunc_inject_Z.
  unfold unet_F. do 2 f_equal. lia.
Qed.

Theorem unet_contract_fx fx u heads H W :
  valid_config (CfgUNet u) heads = true -> in_domain (CfgUNet u) H W = true ->
  (fx17 fx = true \/ selector_F17 (CfgUNet u) = false) ->
  (fx18 fx = true \/ selector_F18 (CfgUNet u) = false) ->
  (fx41 fx = true \/ selector_F41 (CfgUNet u) heads = false) ->
  exists m, build_model_fx (fx41 fx) true (build_unet_fx fx u) heads = Some m /\
    forall st, fst (model_forward m st (u_in_channels u, H, W)) = Some (contracted heads H W).
Proof.
  intros Hval Hdom H17 H18 H41.
  apply valid_core in Hval. unfold valid_config_core in Hval. cbn [cfg_output_stride cfg_max_stride] in Hval.
  apply andb_true_iff in Hval. destruct Hval as [Hval Hu].
  apply andb_true_iff in Hval. destruct Hval as [Hval Hvh].
  apply andb_true_iff in Hval. destruct Hval as [Hpos Hpms].
  apply andb_true_iff in Hu. destruct Hu as [Hu Hstem].
  apply andb_true_iff in Hu. destruct Hu as [Hu Hrate].
  apply andb_true_iff in Hu. destruct Hu as [Hu Hfilt].
  apply andb_true_iff in Hu. destruct Hu as [Hms2 Hcpb1].
  apply Z.leb_le in Hms2. apply Z.leb_le in Hcpb1.
  destruct (is_pow2_spec _ Hpos) as (b & Hos). destruct (is_pow2_spec _ Hpms) as (n & Hms).
  assert (Hn : (0 < n)%nat).
  { destruct n; [rewrite Hms in Hms2; cbn in Hms2; lia | lia]. }
  assert (Hs : exists s, (s <= n)%nat /\ ((s = 0%nat /\ u_stem_stride u = None) \/ u_stem_stride u = Some (pow2 s))).
  { destruct (u_stem_stride u) as [sv|] eqn:Es.
    - apply andb_true_iff in Hstem. destruct Hstem as [Hp Hle]. destruct (is_pow2_spec _ Hp) as (s & ->).
      apply Z.leb_le in Hle. rewrite Hms in Hle. exists s. split. apply pow2_le_inv; auto. right; reflexivity.
    - exists 0%nat. split. lia. left; auto. }
  destruct Hs as (s & Hsn & Hstem').
  set (d := (n - s)%nat). assert (En : n = (s + d)%nat) by (unfold d; lia).
  (* the flags against the selectors *)
  assert (Hcpb : cpb_ok (fx18 fx) (u_convs_per_block u)).
  { unfold cpb_ok. destruct H18 as [-> | H18].
    - destruct (Z.eq_dec (u_convs_per_block u) 1); [right; auto | left; lia].
    - unfold selector_F18 in H18. apply Z.ltb_ge in H18. left; auto. }
  assert (Hfeed : feeds fx u).
  { unfold feeds. destruct H17 as [-> | H17]; [right; auto|].
    unfold selector_F17 in H17. apply negb_false_iff in H17. left; auto. }
  unfold valid_heads in Hvh. apply andb_true_iff in Hvh. destruct Hvh as [Hne Hall].
  rewrite forallb_forall in Hall.
  assert (Hh : forall hd, In hd heads ->
            exists t, (b <= t)%nat /\ ((t < n)%nat \/ (t = n /\ fx41 fx = true)) /\ h_os hd = pow2 t).
  { intros hd Hin. specialize (Hall hd Hin).
    apply andb_true_iff in Hall. destruct Hall as [Hall Hle2].
    apply andb_true_iff in Hall. destruct Hall as [Hp2 H0].
    destruct (is_pow2_spec _ Hp2) as (t & Et). exists t.
    cbn [cfg_output_stride] in H0. apply Z.leb_le in H0. rewrite Hos, Et in H0.
    cbn [cfg_max_stride effective_max_stride] in Hle2. rewrite Z.max_id in Hle2.
    apply Z.leb_le in Hle2. rewrite Hms, Et in Hle2.
    assert (Htn : (t <= n)%nat) by (apply pow2_le_inv; auto).
    split. apply pow2_le_inv; auto. split; auto.
    destruct H41 as [H41 | H41].
    - destruct (Nat.eq_dec t n); [right; auto | left; lia].
    - left. unfold selector_F41 in H41. cbn [effective_max_stride] in H41.
      pose proof (existsb_false _ _ H41 hd Hin) as Hlt. cbn beta in Hlt. apply Z.leb_gt in Hlt.
      rewrite Hms, Et in Hlt. apply pow2_lt_inv; auto. }
  assert (Hbn : (b <= n)%nat).
  { destruct heads as [|hd0 ?]; [discriminate Hne|].
    destruct (Hh hd0 (or_introl eq_refl)) as (t & Ht & Ht2 & _). lia. }
  assert (Hv : unet_valid_le u s d b).
  { unfold unet_valid_le. rewrite <- En. repeat split; auto. }
  unfold in_domain in Hdom. cbn [cfg_max_stride] in Hdom.
  repeat (apply andb_true_iff in Hdom; destruct Hdom as [Hdom ?]).
  apply Z.ltb_lt in Hdom. apply Z.ltb_lt in H2. apply Z.eqb_eq in H1. apply Z.eqb_eq in H0.
  rewrite Hms in H0, H1.
  destruct (mod_pow2_mult H n Hdom H1) as (h & Hh' & ->).
  destruct (mod_pow2_mult W n H2 H0) as (w & Hw & ->).
  assert (Hheads : heads_ok_fx (fx41 fx) heads b (s + d)).
  { rewrite <- En. apply Forall_forall. exact Hh. }
  assert (Hsized : heads_sized_fx true fx u s d b heads).
  { apply heads_sized_fixed_fx. apply Forall_forall. intros hd Hin.
    destruct (Hh hd Hin) as (t & Ht & _ & E). exists t; auto. }
  destruct (unet_model_forward_fx true fx u s d b heads fresh h w Hv Hcpb Hfeed Hheads Hsized Hh' Hw) as (m & Em & _).
  exists m. split. exact Em.
  intros st.
  destruct (unet_model_forward_fx true fx u s d b heads st h w Hv Hcpb Hfeed Hheads Hsized Hh' Hw) as (m' & Em' & Hf).
  rewrite Em in Em'. injection Em' as <-. rewrite En. exact Hf.
Qed.

(* fx42: the domain reported by the repaired wrappers lies inside the configured one
   and outside selector F42 *)
Lemma in_domain_fx_off c H W : in_domain_fx false c H W = in_domain c H W.
Proof. reflexivity. Qed.

Lemma in_domain_fx_on c heads H W : valid_config c heads = true ->
  in_domain_fx true c H W = true -> in_domain c H W = true /\ selector_F42 c H W = false.
Proof.
  intros Hval Hdom. destruct (eff_pow2 c heads Hval) as (k & Ek).
  assert (Hp : exists n, cfg_max_stride c = pow2 n).
  { apply valid_core in Hval. unfold valid_config_core in Hval.
    apply andb_true_iff in Hval. destruct Hval as [Hval _].
    apply andb_true_iff in Hval. destruct Hval as [Hval _].
    apply andb_true_iff in Hval. destruct Hval as [_ Hpms]. apply is_pow2_spec; auto. }
  destruct Hp as (n & En).
  unfold in_domain_fx, model_max_stride in Hdom. rewrite Ek, En in Hdom.
  repeat (apply andb_true_iff in Hdom; destruct Hdom as [Hdom ?]).
  apply Z.eqb_eq in H0, H1.
  assert (Emax : Z.max (pow2 n) (pow2 k) = pow2 (Nat.max n k)).
  { destruct (Nat.le_gt_cases n k) as [Hle|Hgt].
    - rewrite Nat.max_r by lia. destruct (Nat.eq_dec n k) as [->|]; [lia|].
      assert (pow2 n < pow2 k) by (apply pow2_lt; lia). lia.
    - rewrite Nat.max_l by lia. assert (pow2 k < pow2 n) by (apply pow2_lt; lia). lia. }
  rewrite Emax in H0, H1.
  pose proof (mod_pow2_weaken H n (Nat.max n k) (Nat.le_max_l n k) H1) as A1.
  pose proof (mod_pow2_weaken W n (Nat.max n k) (Nat.le_max_l n k) H0) as A2.
  pose proof (mod_pow2_weaken H k (Nat.max n k) (Nat.le_max_r n k) H1) as B1.
  pose proof (mod_pow2_weaken W k (Nat.max n k) (Nat.le_max_r n k) H0) as B2.
  split.
  - unfold in_domain. rewrite En, Hdom, H2, A1, A2. reflexivity.
  - unfold selector_F42. destruct (cfg_patch_stride c); [|reflexivity].
    rewrite Ek, B1, B2. cbn. apply andb_false_r.
Qed.

(* THE STATEMENT WITH THE REPAIRS AS FLAGS (head rule of the current tree).
   PARTIAL in two respects, both for ConvNeXt / Swin-T only: selector F41 stays whatever
   fx41 is, and selector F20 stays although the head rule is repaired -- for those two
   regions the repaired behaviour is established on the witnesses / the preset grid by
   vm_compute (tv_top_head_fx, repaired_witnesses), not by an unbounded proof. *)
Definition residual_selector (fx : fixes) (c : config) (heads : list head) (H W : Z) : bool :=
  (negb (fx17 fx) && selector_F17 c) || (negb (fx18 fx) && selector_F18 c) ||
  ((match c with CfgUNet _ => negb (fx41 fx) | _ => true end) && selector_F41 c heads) ||
  (negb (fx42 fx) && selector_F42 c H W) || selector_F20 c heads.

Lemma flag_or (f s : bool) : negb f && s = false -> f = true \/ s = false.
Proof. destruct f, s; cbn; auto. Qed.

Theorem contract_fx_partial fx c heads H W :
  valid_config c heads = true -> in_domain_fx (fx42 fx) c H W = true ->
  residual_selector fx c heads H W = false ->
  exists m, build_model_fx (fx41 fx) true (build_backbone_fx fx c) heads = Some m /\
    forall st, fst (model_forward m st (cfg_in_channels c, H, W)) = Some (contracted heads H W).
Proof.
  intros Hval Hdom Hsel. unfold residual_selector in Hsel.
  repeat (apply orb_false_iff in Hsel; destruct Hsel as [Hsel ?]).
  assert (Hd : in_domain c H W = true /\ selector_F42 c H W = false).
  { destruct (fx42 fx) eqn:E42.
    - eapply in_domain_fx_on; eauto.
    - split. exact Hdom. cbn in H1. exact H1. }
  destruct Hd as [Hd H42].
  destruct c as [u|u|u]; cbn [build_backbone_fx cfg_in_channels].
  - apply unet_contract_fx; auto using flag_or.
  - apply convnext_contract_partial; auto.
  - apply swint_contract_partial; auto.
Qed.

(* call sequences on one instance of the repaired model: every in-domain call returns
   what a fresh instance returns, whatever was called before *)
Theorem call_sequences_fx fx c heads m (inputs : list (Z * Z)) :
  valid_config c heads = true ->
  build_model_fx (fx41 fx) true (build_backbone_fx fx c) heads = Some m ->
  Forall (fun hw => in_domain_fx (fx42 fx) c (fst hw) (snd hw) = true /\
                    residual_selector fx c heads (fst hw) (snd hw) = false) inputs ->
  forall st,
    model_calls m st (map (fun hw => (cfg_in_channels c, fst hw, snd hw)) inputs)
    = map (fun hw => Some (contracted heads (fst hw) (snd hw))) inputs.
Proof.
  intros Hval Hm Hin st.
  rewrite (model_calls_stateless m (fun x => contracted heads (snd (fst x)) (snd x))).
  - rewrite map_map. reflexivity.
  - intros x Hx st'. apply in_map_iff in Hx. destruct Hx as ((H & W) & <- & Hhw).
    rewrite Forall_forall in Hin. destruct (Hin (H, W) Hhw) as [Hd Hs]. cbn [fst snd] in *.
    destruct (contract_fx_partial fx c heads H W Hval Hd Hs) as (m' & Em' & Hf).
    rewrite Hm in Em'. injection Em' as <-. apply Hf.
Qed.

(* the four witnesses: refuted in the pinned tree (refuted_F17 ... refuted_F42), met with the repair
   (F17 5fcfc16, F18 9a2daa4, F41 f15d414 are in /repo; F42 is proposed only) *)
Definition only17 := {| fx17 := true; fx18 := false; fx41 := false; fx42 := false |}.
Definition only18 := {| fx17 := false; fx18 := true; fx41 := false; fx42 := false |}.
Definition only41 := {| fx17 := false; fx18 := false; fx41 := true; fx42 := false |}.
Definition only42 := {| fx17 := false; fx18 := false; fx41 := false; fx42 := true |}.

Lemma repaired_witnesses_fx :
  meets_contract_fx true only17 (w_unet 16 (2 # 1) 16 2 false 2) (get_head MSingle 3 2 2 2) 32 48 = true /\
  meets_contract_fx true only18 (w_unet 16 (2 # 1) 16 2 true 1) (get_head MSingle 3 2 2 2) 32 48 = true /\
  meets_contract_fx true only41 (w_unet 16 (2 # 1) 16 16 true 2) (get_head MCentroid 3 2 16 16) 32 48 = true /\
  in_domain_fx true (w_swint_tiny 4 4 16) 48 48 = false /\
  meets_contract_fx true allfix (w_unet 16 (3 # 2) 16 4 false 1) (get_head MBottomUp 3 2 16 4) 32 48 = true.
Proof. repeat split; vm_compute; reflexivity. Qed.

(* FINITE grid (the bound is the list): a head on the encoder output of the shipped
   ConvNeXt / Swin-T presets, both stem strides, with fx41 *)
Definition tv_presets : list config :=
  flat_map (fun sps =>
    map (fun mt => CfgConvNext {| c_model_type := mt; c_arch := None; c_in_channels := 1; c_kernel := 3;
                                  c_stem_kernel := 4; c_stem_stride := sps; c_rate := 2 # 1; c_up_interp := true;
                                  c_output_stride := sps; c_max_stride := 8 * sps |}) [0; 1; 2; 3]%nat ++
    map (fun mt => CfgSwinT {| s_model_type := mt; s_arch := None; s_in_channels := 1; s_kernel := 3;
                               s_patch := 4; s_stem_stride := sps; s_rate := 2 # 1; s_up_interp := false;
                               s_output_stride := sps; s_max_stride := 8 * sps |}) [0; 1; 2]%nat) [2; 4].

Lemma tv_top_head_fx :
  forallb (fun c =>
    let hs := get_head MBottomUp 3 2 (cfg_output_stride c) (effective_max_stride c) in
    valid_config c hs && selector_F41 c hs && negb (meets_contract_fx true nofix c hs 64 96) &&
    meets_contract_fx true only41 c hs 64 96) tv_presets = true.
Proof. vm_compute. reflexivity. Qed.

(* ======================================================================
   Round 4 (review findings 2, 3, 4, 5, 7).

   ConvNeXt / Swin-T with the head rule of the current tree (fixed = true, 14997bd):
   the regions that used to fall under selector F20 (backbone output stride coarser
   than stem_patch_stride: b > e) and F41 (a head on the encoder output, t = e + 3,
   with the f15d414 repair) get an UNBOUNDED proof.  The decoder's `for` loop always
   builds three blocks at strides 4*sps, 2*sps, sps whatever output_stride is; the
   `while` loop adds e - b more (none when b >= e): L = 3 + (e - b). *)

Lemma build_decoder_gen_hi (X Cc k : Z) (interp : bool) e b : (1 <= e <= 2)%nat -> (e <= b)%nat ->
  build_decoder X (pow2 e * 2 ^ (Z.of_nat 3 - 1)) Cc (2 # 1) 3 (Z.of_nat 3) (pow2 b) k interp
  = Some {| d_stack := map (dec_for_block X Cc (2 # 1) 3 k interp) (seq 0 3);
            d_strides := map (fun j => pow2 (e + 2 - j)) (seq 0 3);
            d_residuals := 3;
            d_x_in := X;
            d_cs0 := pow2 e * 2 ^ (Z.of_nat 3 - 1) |}.
Proof.
  intros He Hb. assert (Hc : (e = 1 \/ e = 2)%nat) by lia.
  assert (Hp : pow2 e <= pow2 b).
  { destruct (Nat.eq_dec e b) as [->|]; [lia|]. assert (pow2 e < pow2 b) by (apply pow2_lt; lia). lia. }
  unfold build_decoder. cbv zeta.
  destruct Hc as [-> | ->].
  - change (halve (pow2 1 * 2 ^ (Z.of_nat 3 - 1)) 3) with 1. change (pow2 1) with 2 in Hp.
    destruct (Z.ltb_spec 1 (pow2 b)); [|lia]. reflexivity.
  - change (halve (pow2 2 * 2 ^ (Z.of_nat 3 - 1)) 3) with 2. change (pow2 2) with 4 in Hp.
    destruct (Z.ltb_spec 2 (pow2 b)); [|lia]. reflexivity.
Qed.

Lemma tv_build_decoder_any C4 k interp e b : (1 <= e <= 2)%nat ->
  build_decoder (8 * (4 * C4)) (pow2 e * 2 ^ (Z.of_nat 3 - 1)) (4 * C4) (2 # 1) 3 (Z.of_nat 3) (pow2 b) k interp
  = Some (tv_decoder C4 k interp e (3 + (e - b))).
Proof.
  intros He. destruct (le_lt_dec b e) as [Hbe | Hbe].
  - rewrite tv_build_decoder by assumption. do 2 f_equal. lia.
  - rewrite build_decoder_gen_hi by lia. replace (3 + (e - b))%nat with 3%nat by lia.
    unfold tv_decoder. cbn [Nat.sub seq map]. rewrite app_nil_r. reflexivity.
Qed.

Lemma tv_stack_out_gen C4 k interp e L i : (i < L)%nat ->
  option_map (fun ub => trunc (ub_out ub)) (nth_error (d_stack (tv_decoder C4 k interp e L)) i) = Some (tv_ch C4 i).
Proof.
  intros Hi. cbn [tv_decoder d_stack].
  destruct (Nat.ltb_spec i 3).
  - rewrite nth_error_app1 by (rewrite map_length, seq_length; lia).
    rewrite nth_error_map, nth_error_seq by lia. cbn [option_map Nat.add].
    unfold dec_for_block, simple_upsampling_block. cbn [ub_out]. rewrite trunc_inject_Z.
    rewrite fint2_nonneg by lia. unfold tv_ch. f_equal.
    destruct i as [|[|[|]]]; try lia; compute_pows; lia.
  - rewrite nth_error_app2 by (rewrite map_length, seq_length; lia).
    rewrite map_length, seq_length.
    rewrite nth_error_map, nth_error_seq by lia. cbn [option_map].
    unfold tv_extra, simple_upsampling_block. cbn [ub_out]. rewrite trunc_inject_Z.
    do 2 f_equal. lia.
Qed.

Section TVModelX.
Variables (C4 k : Z) (interp : bool) (e b : nat).
Hypothesis He : (1 <= e <= 2)%nat.
Let L := (3 + (e - b))%nat.

(* heads at 2^t, backbone stride 2^b <= 2^t <= 4 * stem_patch_stride, or -- with the f15d414
   repair -- 2^t = 8 * stem_patch_stride: the encoder output itself *)
Definition tv_heads_ok_fx (f41 : bool) (heads : list head) : Prop :=
  Forall (fun hd => exists t, (b <= t)%nat /\ ((t <= e + 2)%nat \/ (t = (e + 3)%nat /\ f41 = true)) /\
                              h_os hd = pow2 t) heads.

Lemma at_top_tv_gen f41 bb hd t L' :
  bb_dec bb = tv_decoder C4 k interp e L' -> h_os hd = pow2 t -> at_top f41 bb hd = f41 && Nat.eqb t (e + 3).
Proof.
  intros Hd E. unfold at_top, encoder_stride. rewrite Hd, E. cbn [tv_decoder d_cs0]. f_equal.
  replace (2 * (pow2 e * 2 ^ (Z.of_nat 3 - 1))) with (pow2 (e + 3)).
  - destruct (Nat.eqb_spec t (e + 3)) as [->|Hne]. apply Z.eqb_refl.
    apply Z.eqb_neq. intros Hp. apply pow2_inj in Hp. lia.
  - rewrite pow2_add. change (pow2 3) with 8. change (2 ^ (Z.of_nat 3 - 1)) with 4. lia.
Qed.

Theorem tv_model_forward_x f41 bb heads st x h w st' :
  bb_dec bb = tv_decoder C4 k interp e L -> bb_output_stride bb = pow2 b ->
  tv_heads_ok_fx f41 heads ->
  backbone_forward bb st x = (Some (map (tv_out C4 h w) (seq 0 L)), st') ->
  backbone_bottom bb st x = Some (8 * (4 * C4), h, w) ->
  exists m, build_model_fx f41 true (Some bb) heads = Some m /\
    fst (model_forward m st x) = Some (contracted heads (h * pow2 (e + 3)) (w * pow2 (e + 3))).
Proof.
  intros Hd Hos Hheads Hfw Hbot. unfold tv_heads_ok_fx in Hheads. unfold build_model_fx.
  set (tof := fun hd : head => Z.to_nat (Z.log2 (h_os hd))).
  assert (Etof : forall hd, In hd heads ->
            exists t, (b <= t)%nat /\ ((t <= e + 2)%nat \/ (t = (e + 3)%nat /\ f41 = true)) /\
                      h_os hd = pow2 t /\ tof hd = t).
  { intros hd Hin. rewrite Forall_forall in Hheads. destruct (Hheads hd Hin) as (t & Ht & Ht2 & E).
    exists t. repeat split; auto. unfold tof. rewrite E, pow2_log2. lia. }
  set (chan := fun hd : head => if Nat.eqb (tof hd) (e + 3) then 8 * (4 * C4) else tv_ch C4 (e + 2 - tof hd)).
  rewrite (all_some_map _ chan).
  2:{ intros hd Hin. destruct (Etof hd Hin) as (t & Ht & Ht2 & E & Et). unfold head_in_channels_fx, chan.
      rewrite (at_top_tv_gen f41 bb hd t L Hd E), Et.
      destruct Ht2 as [Hle | [-> ->]].
      - destruct (Nat.eqb_spec t (e + 3)); [lia|]. rewrite andb_false_r.
        unfold head_in_channels. rewrite Hd, E. cbn [tv_decoder d_strides].
        rewrite index_of_tv by (unfold L; lia).
        pose proof (tv_stack_out_gen C4 k interp e L (e + 2 - t) ltac:(unfold L; lia)) as Hs.
        cbn [tv_decoder d_stack] in Hs |- *.
        destruct (nth_error _ (e + 2 - t)) as [ub|]; cbn [option_map] in Hs;
          [injection Hs as Hs; rewrite Hs; reflexivity | discriminate].
      - rewrite Nat.eqb_refl. cbn [andb]. rewrite Hd. reflexivity. }
  eexists. split. reflexivity.
  unfold model_forward. cbn [m_backbone m_heads m_head_layers m_f41].
  rewrite Hfw. cbn [fst].
  rewrite combine_map_r, map_map. cbn [fst snd].
  rewrite combine_map_r, map_map. cbn [fst snd].
  unfold contracted. apply all_some_map.
  intros hd Hin. destruct (Etof hd Hin) as (t & Ht & Ht2 & Eos & Et).
  rewrite (at_top_tv_gen f41 bb hd t L Hd Eos). unfold chan. rewrite Et, Eos.
  destruct Ht2 as [Hle | [-> ->]].
  - destruct (Nat.eqb_spec t (e + 3)); [lia|]. rewrite andb_false_r. rewrite Hd.
    cbn [tv_decoder d_strides]. rewrite index_of_tv by (unfold L; lia).
    rewrite nth_error_map, nth_error_seq by (unfold L; lia). cbn [option_map Nat.add].
    unfold tv_out, make_head. cbn [run_layers run_layer]. rewrite Z.eqb_refl. cbn [fst].
    replace (S (e + 2 - t)) with (e + 3 - t)%nat by lia.
    rewrite !mul_pow2_div by lia. reflexivity.
  - rewrite Nat.eqb_refl. cbn [andb]. rewrite Hbot.
    unfold make_head. cbn [run_layers run_layer]. rewrite Z.eqb_refl. cbn [fst].
    rewrite !mul_pow2_div by lia. rewrite Nat.sub_diag. cbn [pow2]. rewrite !Z.mul_1_r. reflexivity.
Qed.

End TVModelX.

(* ConvNeXt / Swin-T configurations without the restriction b <= e *)
Definition convnext_valid_x (c : convnext_cfg) (C4 : Z) (ds : list Z) (e b : nat) : Prop :=
  convnext_arch c = (ds, [4 * C4; 2 * (4 * C4); 4 * (4 * C4); 8 * (4 * C4)]) /\ length ds = 4%nat /\
  c_stem_kernel c = 4 /\ c_stem_stride c = pow2 e /\ (1 <= e <= 2)%nat /\
  c_rate c = 2 # 1 /\ c_output_stride c = pow2 b.

Lemma convnext_valid_weaken c C4 ds e b : convnext_valid c C4 ds e b -> convnext_valid_x c C4 ds e b.
Proof. unfold convnext_valid, convnext_valid_x. tauto. Qed.

Lemma build_convnext_spec_x c C4 ds e b : convnext_valid_x c C4 ds e b ->
  exists d0 d1 d2 d3 bb, build_convnext c = Some bb /\
    bb_kind bb = 1%nat /\ bb_enc bb = convnext_enc c C4 d0 d1 d2 d3 /\
    bb_dec bb = tv_decoder C4 (c_kernel c) (c_up_interp c) e (3 + (e - b)) /\
    bb_rate bb = 2 # 1 /\ bb_output_stride bb = pow2 b.
Proof.
  intros (Ha & Hl & Hk & Hs & He & Hr & Ho).
  destruct ds as [|d0 [|d1 [|d2 [|d3 [|]]]]]; try discriminate Hl.
  exists d0, d1, d2, d3. unfold build_convnext. rewrite Ha.
  cbn [convnext_stages length Nat.sub last].
  rewrite Hs, Hr, Ho.
  rewrite (tv_build_decoder_any C4 (c_kernel c) (c_up_interp c) e b) by assumption.
  eexists. split. reflexivity. cbn [bb_kind bb_enc bb_dec bb_rate bb_output_stride].
  repeat split. unfold convnext_enc. rewrite Hs. reflexivity.
Qed.

(* the encoder's own output (what a head at stride 8 * stem_patch_stride is fed) *)
Lemma convnext_backbone_bottom c C4 d0 d1 d2 d3 e bb st h w :
  bb_kind bb = 1%nat -> bb_enc bb = convnext_enc c C4 d0 d1 d2 d3 ->
  c_stem_kernel c = 4 -> c_stem_stride c = pow2 e -> (1 <= e <= 2)%nat -> 0 < h -> 0 < w ->
  backbone_bottom bb st (c_in_channels c, pow2 e * (2 * (2 * (2 * h))), pow2 e * (2 * (2 * (2 * w))))
  = Some (8 * (4 * C4), h, w).
Proof.
  intros Hk He Hsk Hs Hee Hh Hw. unfold backbone_bottom. rewrite Hk, He.
  unfold convnext_enc. rewrite Hsk, Hs.
  assert (Hsps : pow2 e = 2 \/ pow2 e = 4).
  { destruct e as [|[|[|]]]; try lia; cbn; auto. }
  cbn [map].
  assert (H2h : 0 < 2 * h) by lia. assert (H2w : 0 < 2 * w) by lia.
  assert (H4h : 0 < 2 * (2 * h)) by lia. assert (H4w : 0 < 2 * (2 * w)) by lia.
  assert (H8h : 0 < 2 * (2 * (2 * h))) by lia. assert (H8w : 0 < 2 * (2 * (2 * w))) by lia.
  rewrite (feats_forward_cons_ok _ _ _ _ _ (run_stem _ _ _ _ _ st Hsps H8h H8w)).
  rewrite (feats_forward_cons_ok _ _ _ _ _ (run_cn_stage _ _ _ _ st)).
  rewrite (feats_forward_cons_ok _ _ _ _ _ (run_cn_down _ _ _ _ st H4h H4w)).
  rewrite (feats_forward_cons_ok _ _ _ _ _ (run_cn_stage _ _ _ _ st)).
  rewrite (feats_forward_cons_ok _ _ _ _ _ (run_cn_down _ _ _ _ st H2h H2w)).
  rewrite (feats_forward_cons_ok _ _ _ _ _ (run_cn_stage _ _ _ _ st)).
  rewrite (feats_forward_cons_ok _ _ _ _ _ (run_cn_down _ _ _ _ st Hh Hw)).
  rewrite (feats_forward_cons_ok _ _ _ _ _ (run_cn_stage _ _ _ _ st)).
  cbn [feats_forward rev app]. reflexivity.
Qed.

Theorem convnext_model_forward_x f41 c C4 ds e b heads st h w :
  convnext_valid_x c C4 ds e b -> tv_heads_ok_fx e b f41 heads -> 0 < h -> 0 < w ->
  exists m, build_model_fx f41 true (build_convnext c) heads = Some m /\
    fst (model_forward m st (c_in_channels c, pow2 e * (2 * (2 * (2 * h))), pow2 e * (2 * (2 * (2 * w)))))
    = Some (contracted heads (h * pow2 (e + 3)) (w * pow2 (e + 3))).
Proof.
  intros Hv Hheads Hh Hw.
  destruct (build_convnext_spec_x c C4 ds e b Hv) as (d0 & d1 & d2 & d3 & bb & Eb & Hk & Hen & Hd & Hr & Ho).
  destruct Hv as (Ha & Hl & Hsk & Hs & He & Hrr & Hoo).
  rewrite Eb.
  eapply (tv_model_forward_x C4 (c_kernel c) (c_up_interp c) e b He); eauto.
  - eapply convnext_backbone_forward; eauto. lia.
  - eapply convnext_backbone_bottom; eauto.
Qed.

Definition swint_valid_x (c : swint_cfg) (C4 : Z) (ds nhs : list Z) (e b : nat) : Prop :=
  swint_arch c = (4 * C4, ds, nhs) /\ length ds = 4%nat /\ length nhs = 4%nat /\
  (4 * C4) mod (nth 0 nhs 1) = 0 /\ (2 * (4 * C4)) mod (nth 1 nhs 1) = 0 /\
  (2 * (2 * (4 * C4))) mod (nth 2 nhs 1) = 0 /\ (2 * (2 * (2 * (4 * C4)))) mod (nth 3 nhs 1) = 0 /\
  s_patch c = 4 /\ s_stem_stride c = pow2 e /\ (1 <= e <= 2)%nat /\
  s_rate c = 2 # 1 /\ s_output_stride c = pow2 b.

Lemma swint_valid_weaken c C4 ds nhs e b : swint_valid c C4 ds nhs e b -> swint_valid_x c C4 ds nhs e b.
Proof. unfold swint_valid, swint_valid_x. tauto. Qed.

Lemma build_swint_spec_x c C4 ds nhs e b : swint_valid_x c C4 ds nhs e b ->
  exists d0 d1 d2 d3 n0 n1 n2 n3 bb, build_swint c = Some bb /\
    nhs = [n0; n1; n2; n3] /\
    bb_kind bb = 2%nat /\ bb_enc bb = swint_enc c C4 d0 d1 d2 d3 n0 n1 n2 n3 /\
    bb_dec bb = tv_decoder C4 (s_kernel c) (s_up_interp c) e (3 + (e - b)) /\
    bb_rate bb = 2 # 1 /\ bb_output_stride bb = pow2 b.
Proof.
  intros (Ha & Hl & Hl2 & _ & _ & _ & _ & Hk & Hs & He & Hr & Ho).
  destruct ds as [|d0 [|d1 [|d2 [|d3 [|]]]]]; try discriminate Hl.
  destruct nhs as [|n0 [|n1 [|n2 [|n3 [|]]]]]; try discriminate Hl2.
  exists d0, d1, d2, d3, n0, n1, n2, n3. unfold build_swint. rewrite Ha.
  cbn [swint_stages length Nat.sub last removelast app].
  rewrite Hs, Hr, Ho.
  replace (4 * C4 * 2 ^ Z.of_nat 3) with (8 * (4 * C4)) by (compute_pows; lia).
  rewrite (tv_build_decoder_any C4 (s_kernel c) (s_up_interp c) e b) by assumption.
  eexists. split. reflexivity. cbn [bb_kind bb_enc bb_dec bb_rate bb_output_stride].
  repeat split. unfold swint_enc. rewrite Hs.
  replace (4 * C4 * 2 ^ Z.of_nat 3) with (8 * (4 * C4)) by (compute_pows; lia). reflexivity.
Qed.

Lemma swint_backbone_bottom c C4 d0 d1 d2 d3 n0 n1 n2 n3 e bb st h w :
  bb_kind bb = 2%nat -> bb_enc bb = swint_enc c C4 d0 d1 d2 d3 n0 n1 n2 n3 ->
  (4 * C4) mod n0 = 0 -> (2 * (4 * C4)) mod n1 = 0 ->
  (2 * (2 * (4 * C4))) mod n2 = 0 -> (2 * (2 * (2 * (4 * C4)))) mod n3 = 0 ->
  s_patch c = 4 -> s_stem_stride c = pow2 e -> (1 <= e <= 2)%nat -> 0 < h -> 0 < w ->
  backbone_bottom bb st (s_in_channels c, pow2 e * (2 * (2 * (2 * h))), pow2 e * (2 * (2 * (2 * w))))
  = Some (8 * (4 * C4), h, w).
Proof.
  intros Hk He M0 M1 M2 M3 Hsk Hs Hee Hh Hw. unfold backbone_bottom. rewrite Hk, He.
  unfold swint_enc. rewrite Hsk, Hs.
  assert (Hsps : pow2 e = 2 \/ pow2 e = 4).
  { clear - Hee. destruct e as [|[|[|]]]; try lia; cbn; auto. }
  cbn [map].
  assert (H2h : 0 < 2 * h) by (clear - Hh; lia). assert (H2w : 0 < 2 * w) by (clear - Hw; lia).
  assert (H4h : 0 < 2 * (2 * h)) by (clear - Hh; lia). assert (H4w : 0 < 2 * (2 * w)) by (clear - Hw; lia).
  assert (H8h : 0 < 2 * (2 * (2 * h))) by (clear - Hh; lia). assert (H8w : 0 < 2 * (2 * (2 * w))) by (clear - Hw; lia).
  assert (EX : 4 * C4 * 2 ^ Z.of_nat 3 = 2 * (2 * (2 * (4 * C4)))) by (clear; compute_pows; lia).
  rewrite (feats_forward_cons_ok _ _ _ _ _ (run_stem _ _ _ _ _ st Hsps H8h H8w)).
  rewrite (feats_forward_cons_ok _ _ _ _ _ (run_sw_stage _ _ _ _ _ st M0)).
  rewrite (feats_forward_cons_ok _ _ _ _ _ (run_sw_merge _ _ _ st)).
  rewrite (feats_forward_cons_ok _ _ _ _ _ (run_sw_stage _ _ _ _ _ st M1)).
  rewrite (feats_forward_cons_ok _ _ _ _ _ (run_sw_merge _ _ _ st)).
  rewrite (feats_forward_cons_ok _ _ _ _ _ (run_sw_stage _ _ _ _ _ st M2)).
  rewrite (feats_forward_cons_ok _ _ _ _ _ (run_sw_merge _ _ _ st)).
  rewrite (feats_forward_cons_ok _ _ _ _ _ (run_sw_last _ _ _ _ _ _ st M3 EX)).
  cbn [feats_forward rev app]. apply some_shape_eq; clear; lia.
Qed.

Theorem swint_model_forward_x f41 c C4 ds nhs e b heads st h w :
  swint_valid_x c C4 ds nhs e b -> tv_heads_ok_fx e b f41 heads -> 0 < h -> 0 < w ->
  exists m, build_model_fx f41 true (build_swint c) heads = Some m /\
    fst (model_forward m st (s_in_channels c, pow2 e * (2 * (2 * (2 * h))), pow2 e * (2 * (2 * (2 * w)))))
    = Some (contracted heads (h * pow2 (e + 3)) (w * pow2 (e + 3))).
Proof.
  intros Hv Hheads Hh Hw.
  destruct (build_swint_spec_x c C4 ds nhs e b Hv)
    as (d0 & d1 & d2 & d3 & n0 & n1 & n2 & n3 & bb & Eb & En & Hk & Hen & Hd & Hr & Ho).
  destruct Hv as (Ha & Hl & Hl2 & M0 & M1 & M2 & M3 & Hsk & Hs & He & Hrr & Hoo).
  subst nhs. cbn [nth] in M0, M1, M2, M3.
  rewrite Eb.
  eapply (tv_model_forward_x C4 (s_kernel c) (s_up_interp c) e b He); eauto.
  - eapply swint_backbone_forward; eauto. clear - He. lia.
  - eapply swint_backbone_bottom; eauto.
Qed.

(* --------- ConvNeXt / Swin-T in selector form, head rule of the current tree --------- *)
Lemma tv_common_x (f41 : bool) (bos sps cfgmax eff : Z) heads H W e :
  sps = pow2 e -> eff = pow2 (e + 3) -> is_pow2 bos = true -> is_pow2 cfgmax = true ->
  forallb (fun hd => is_pow2 (h_os hd) && (bos <=? h_os hd) && (h_os hd <=? Z.max cfgmax eff)) heads = true ->
  (f41 = true \/ existsb (fun hd => eff <=? h_os hd) heads = false) ->
  existsb (fun hd => eff <? h_os hd) heads = false ->
  (0 <? H) && (0 <? W) && (H mod cfgmax =? 0) && (W mod cfgmax =? 0) = true ->
  (cfgmax <? eff) && negb ((H mod eff =? 0) && (W mod eff =? 0)) = false ->
  exists b h w, bos = pow2 b /\ tv_heads_ok_fx e b f41 heads /\ 0 < h /\ 0 < w /\
    H = pow2 e * (2 * (2 * (2 * h))) /\ W = pow2 e * (2 * (2 * (2 * w))) /\
    H = h * pow2 (e + 3) /\ W = w * pow2 (e + 3).
Proof.
  intros Hsps Heff Hpb Hpm Hall H41 H44 Hdom H42.
  destruct (is_pow2_spec _ Hpb) as (b & Hb). destruct (is_pow2_spec _ Hpm) as (mm & Hmm).
  rewrite forallb_forall in Hall.
  assert (Hh : forall hd, In hd heads ->
            exists t, (b <= t)%nat /\ ((t <= e + 2)%nat \/ (t = (e + 3)%nat /\ f41 = true)) /\ h_os hd = pow2 t).
  { intros hd Hin. specialize (Hall hd Hin).
    apply andb_true_iff in Hall. destruct Hall as [Hall _].
    apply andb_true_iff in Hall. destruct Hall as [Hp2 Hle].
    destruct (is_pow2_spec _ Hp2) as (t & Et). exists t.
    apply Z.leb_le in Hle. rewrite Hb, Et in Hle. apply pow2_le_inv in Hle.
    pose proof (existsb_false _ _ H44 hd Hin) as Hge. cbn beta in Hge. apply Z.ltb_ge in Hge.
    rewrite Heff, Et in Hge. apply pow2_le_inv in Hge.
    split. exact Hle. split; [|exact Et].
    destruct H41 as [-> | H41].
    - destruct (Nat.eq_dec t (e + 3)); [right; auto | left; lia].
    - left. pose proof (existsb_false _ _ H41 hd Hin) as Hlt. cbn beta in Hlt. apply Z.leb_gt in Hlt.
      rewrite Heff, Et in Hlt. apply pow2_lt_inv in Hlt. lia. }
  repeat (apply andb_true_iff in Hdom; destruct Hdom as [Hdom ?]).
  apply Z.ltb_lt in Hdom. apply Z.ltb_lt in H2. apply Z.eqb_eq in H1. apply Z.eqb_eq in H0.
  assert (Hdiv : H mod pow2 (e + 3) = 0 /\ W mod pow2 (e + 3) = 0).
  { apply andb_false_iff in H42. destruct H42 as [Hge | Hd].
    - apply Z.ltb_ge in Hge. rewrite Heff, Hmm in Hge. apply pow2_le_inv in Hge.
      rewrite Hmm in H0, H1. split; eapply mod_pow2_weaken; eauto.
    - apply negb_false_iff, andb_true_iff in Hd. destruct Hd as [D1 D2].
      apply Z.eqb_eq in D1. apply Z.eqb_eq in D2. rewrite Heff in D1, D2. auto. }
  destruct Hdiv as [D1 D2].
  destruct (mod_pow2_mult H (e + 3) Hdom D1) as (h & Hh0 & EH).
  destruct (mod_pow2_mult W (e + 3) H2 D2) as (w & Hw0 & EW).
  exists b, h, w. repeat split; auto.
  - apply Forall_forall. auto.
  - rewrite EH, pow2_add. cbn [pow2]. lia.
  - rewrite EW, pow2_add. cbn [pow2]. lia.
Qed.

Theorem convnext_contract_fx f41 u heads H W :
  valid_config (CfgConvNext u) heads = true -> in_domain (CfgConvNext u) H W = true ->
  (f41 = true \/ selector_F41 (CfgConvNext u) heads = false) ->
  selector_F44 (CfgConvNext u) heads = false -> selector_F42 (CfgConvNext u) H W = false ->
  exists m, build_model_fx f41 true (build_convnext u) heads = Some m /\
    forall st, fst (model_forward m st (c_in_channels u, H, W)) = Some (contracted heads H W).
Proof.
  intros Hval Hdom H41 H44 H42.
  apply valid_core in Hval. unfold valid_config_core in Hval. cbn [cfg_output_stride cfg_max_stride] in Hval.
  apply andb_true_iff in Hval. destruct Hval as [Hval Hu].
  apply andb_true_iff in Hval. destruct Hval as [Hval Hvh].
  apply andb_true_iff in Hval. destruct Hval as [Hpos Hpms].
  apply andb_true_iff in Hu. destruct Hu as [Hu Harch].
  apply andb_true_iff in Hu. destruct Hu as [Hu Hker].
  apply andb_true_iff in Hu. destruct Hu as [Hrate Hsps].
  apply q_is_spec in Hrate. apply Z.eqb_eq in Hker.
  destruct (sps_pow2 _ Hsps) as (e & He & Es).
  unfold convnext_arch_ok in Harch.
  destruct (convnext_arch u) as [ds chs] eqn:Ea.
  destruct chs as [|c0 [|c1 [|c2 [|c3 [|]]]]]; try discriminate Harch.
  apply andb_true_iff in Harch. destruct Harch as [Harch A3]. apply Z.eqb_eq in A3.
  apply andb_true_iff in Harch. destruct Harch as [Harch A2]. apply Z.eqb_eq in A2.
  apply andb_true_iff in Harch. destruct Harch as [Harch A1]. apply Z.eqb_eq in A1.
  apply andb_true_iff in Harch. destruct Harch as [Harch A0]. apply Z.eqb_eq in A0.
  apply andb_true_iff in Harch. destruct Harch as [Alen _]. apply Nat.eqb_eq in Alen.
  set (C4 := c0 / 4). assert (Ec0 : c0 = 4 * C4) by (clear - A0; unfold C4; lia).
  assert (Earch : (ds, [c0; c1; c2; c3]) = (ds, [4 * C4; 2 * (4 * C4); 4 * (4 * C4); 8 * (4 * C4)])).
  { rewrite A1, A2, A3, Ec0. reflexivity. }
  assert (Eeff : effective_max_stride (CfgConvNext u) = pow2 (e + 3)).
  { cbn [effective_max_stride]. rewrite Ea, Es. cbn [snd length]. rewrite pow2_add. compute_pows. lia. }
  unfold valid_heads in Hvh. apply andb_true_iff in Hvh. destruct Hvh as [_ Hall].
  unfold selector_F41 in H41. unfold selector_F44 in H44. cbn [cfg_patch_stride] in H44.
  unfold selector_F42 in H42. cbn [cfg_patch_stride cfg_max_stride] in H42.
  unfold in_domain in Hdom. cbn [cfg_max_stride] in Hdom. cbn [cfg_output_stride cfg_max_stride] in Hall.
  destruct (tv_common_x f41 (c_output_stride u) (c_stem_stride u) (c_max_stride u)
              (effective_max_stride (CfgConvNext u)) heads H W e Es Eeff Hpos Hpms Hall H41 H44 Hdom H42)
    as (b & h & w & Hos & Hheads & Hh & Hw & EH & EW & EH2 & EW2).
  assert (Hv : convnext_valid_x u C4 ds e b).
  { unfold convnext_valid_x. rewrite Ea. split. exact Earch.
    split. exact Alen. split. exact Hker. split. exact Es. split. exact He.
    split. exact Hrate. exact Hos. }
  destruct (convnext_model_forward_x f41 u C4 ds e b heads fresh h w Hv Hheads Hh Hw) as (m & Em & _).
  exists m. split. exact Em. intros st.
  destruct (convnext_model_forward_x f41 u C4 ds e b heads st h w Hv Hheads Hh Hw) as (m' & Em' & Hf).
  rewrite Em in Em'. injection Em' as <-.
  rewrite <- EH, <- EW in Hf. rewrite <- EH2, <- EW2 in Hf. exact Hf.
Qed.

Theorem swint_contract_fx f41 u heads H W :
  valid_config (CfgSwinT u) heads = true -> in_domain (CfgSwinT u) H W = true ->
  (f41 = true \/ selector_F41 (CfgSwinT u) heads = false) ->
  selector_F44 (CfgSwinT u) heads = false -> selector_F42 (CfgSwinT u) H W = false ->
  exists m, build_model_fx f41 true (build_swint u) heads = Some m /\
    forall st, fst (model_forward m st (s_in_channels u, H, W)) = Some (contracted heads H W).
Proof.
  intros Hval Hdom H41 H44 H42.
  apply valid_core in Hval. unfold valid_config_core in Hval. cbn [cfg_output_stride cfg_max_stride] in Hval.
  apply andb_true_iff in Hval. destruct Hval as [Hval Hu].
  apply andb_true_iff in Hval. destruct Hval as [Hval Hvh].
  apply andb_true_iff in Hval. destruct Hval as [Hpos Hpms].
  apply andb_true_iff in Hu. destruct Hu as [Hu Harch].
  apply andb_true_iff in Hu. destruct Hu as [Hu Hker].
  apply andb_true_iff in Hu. destruct Hu as [Hrate Hsps].
  apply q_is_spec in Hrate. apply Z.eqb_eq in Hker.
  destruct (sps_pow2 _ Hsps) as (e & He & Es).
  unfold swint_arch_ok in Harch.
  destruct (swint_arch u) as [[E ds] nhs] eqn:Ea.
  destruct nhs as [|n0 [|n1 [|n2 [|n3 [|]]]]]; try discriminate Harch.
  apply andb_true_iff in Harch. destruct Harch as [Harch M3]. apply Z.eqb_eq in M3.
  apply andb_true_iff in Harch. destruct Harch as [Harch M2]. apply Z.eqb_eq in M2.
  apply andb_true_iff in Harch. destruct Harch as [Harch M1]. apply Z.eqb_eq in M1.
  apply andb_true_iff in Harch. destruct Harch as [Harch M0]. apply Z.eqb_eq in M0.
  apply andb_true_iff in Harch. destruct Harch as [Harch A0]. apply Z.eqb_eq in A0.
  apply andb_true_iff in Harch. destruct Harch as [Alen _]. apply Nat.eqb_eq in Alen.
  set (C4 := E / 4). assert (EE : E = 4 * C4) by (clear - A0; unfold C4; lia).
  clearbody C4. subst E.
  assert (Eeff : effective_max_stride (CfgSwinT u) = pow2 (e + 3)).
  { cbn [effective_max_stride]. rewrite Ea, Es. cbn [fst snd]. rewrite Alen, pow2_add. compute_pows.
    clear. lia. }
  unfold valid_heads in Hvh. apply andb_true_iff in Hvh. destruct Hvh as [_ Hall].
  unfold selector_F41 in H41. unfold selector_F44 in H44. cbn [cfg_patch_stride] in H44.
  unfold selector_F42 in H42. cbn [cfg_patch_stride cfg_max_stride] in H42.
  unfold in_domain in Hdom. cbn [cfg_max_stride] in Hdom. cbn [cfg_output_stride cfg_max_stride] in Hall.
  destruct (tv_common_x f41 (s_output_stride u) (s_stem_stride u) (s_max_stride u)
              (effective_max_stride (CfgSwinT u)) heads H W e Es Eeff Hpos Hpms Hall H41 H44 Hdom H42)
    as (b & h & w & Hos & Hheads & Hh & Hw & EH & EW & EH2 & EW2).
  assert (Hv : swint_valid_x u C4 ds [n0; n1; n2; n3] e b).
  { unfold swint_valid_x. rewrite Ea. cbn [nth length].
    split. reflexivity. split. exact Alen. split. reflexivity.
    split. exact M0. split. exact M1. split. exact M2. split. exact M3.
    split. exact Hker. split. exact Es. split. exact He.
    split. exact Hrate. exact Hos. }
  destruct (swint_model_forward_x f41 u C4 ds [n0; n1; n2; n3] e b heads fresh h w Hv Hheads Hh Hw) as (m & Em & _).
  exists m. split. exact Em. intros st.
  destruct (swint_model_forward_x f41 u C4 ds [n0; n1; n2; n3] e b heads st h w Hv Hheads Hh Hw) as (m' & Em' & Hf).
  rewrite Em in Em'. injection Em' as <-.
  rewrite <- EH, <- EW in Hf. rewrite <- EH2, <- EW2 in Hf. exact Hf.
Qed.

(* THE STATEMENT FOR THE CURRENT HEAD RULE, ALL THREE FAMILIES, ALL FLAGS: the only
   hypotheses left are the selectors of repairs that are switched off and the open F44.
   With the flags of the current tree (fx17 = fx18 = fx41 = true, fx42 = false) it reads:
   valid, in-domain, not F42, not F44 => contract. *)
Definition open_selector (fx : fixes) (c : config) (heads : list head) (H W : Z) : bool :=
  (negb (fx17 fx) && selector_F17 c) || (negb (fx18 fx) && selector_F18 c) ||
  (negb (fx41 fx) && selector_F41 c heads) || (negb (fx42 fx) && selector_F42 c H W) ||
  selector_F44 c heads.

Lemma F44_false_unet u heads : selector_F44 (CfgUNet u) heads = false.
Proof. reflexivity. Qed.

Lemma F41_false_F44_false c heads : selector_F41 c heads = false -> selector_F44 c heads = false.
Proof.
  unfold selector_F41, selector_F44. intros H. destruct (cfg_patch_stride c); [|reflexivity].
  induction heads as [|hd tl IH]; [reflexivity|]. cbn [existsb] in *.
  apply orb_false_iff in H. destruct H as [H1 H2]. rewrite (IH H2), orb_false_r.
  apply Z.leb_gt in H1. apply Z.ltb_ge. lia.
Qed.

(* the older residual selector is weaker: contract_fx_partial is a corollary of contract_fx_open *)
Lemma residual_implies_open fx c heads H W :
  residual_selector fx c heads H W = false -> open_selector fx c heads H W = false.
Proof.
  unfold residual_selector, open_selector. intros Hs.
  repeat (apply orb_false_iff in Hs; destruct Hs as [Hs ?]).
  rewrite Hs, H3, H1. cbn [orb].
  destruct c as [u|u|u]; cbn [andb] in H2 |- *.
  - rewrite H2. reflexivity.
  - rewrite H2, andb_false_r. cbn [orb]. apply F41_false_F44_false; auto.
  - rewrite H2, andb_false_r. cbn [orb]. apply F41_false_F44_false; auto.
Qed.

Theorem contract_fx_open fx c heads H W :
  valid_config c heads = true -> in_domain_fx (fx42 fx) c H W = true ->
  open_selector fx c heads H W = false ->
  exists m, build_model_fx (fx41 fx) true (build_backbone_fx fx c) heads = Some m /\
    forall st, fst (model_forward m st (cfg_in_channels c, H, W)) = Some (contracted heads H W).
Proof.
  intros Hval Hdom Hsel. unfold open_selector in Hsel.
  repeat (apply orb_false_iff in Hsel; destruct Hsel as [Hsel ?]).
  assert (Hd : in_domain c H W = true /\ selector_F42 c H W = false).
  { destruct (fx42 fx) eqn:E42.
    - eapply in_domain_fx_on; eauto.
    - split. exact Hdom. cbn in H1. exact H1. }
  destruct Hd as [Hd H42].
  destruct c as [u|u|u]; cbn [build_backbone_fx cfg_in_channels].
  - apply unet_contract_fx; auto using flag_or.
  - apply convnext_contract_fx; auto using flag_or.
  - apply swint_contract_fx; auto using flag_or.
Qed.

Theorem call_sequences_fx_open fx c heads m (inputs : list (Z * Z)) :
  valid_config c heads = true ->
  build_model_fx (fx41 fx) true (build_backbone_fx fx c) heads = Some m ->
  Forall (fun hw => in_domain_fx (fx42 fx) c (fst hw) (snd hw) = true /\
                    open_selector fx c heads (fst hw) (snd hw) = false) inputs ->
  forall st,
    model_calls m st (map (fun hw => (cfg_in_channels c, fst hw, snd hw)) inputs)
    = map (fun hw => Some (contracted heads (fst hw) (snd hw))) inputs.
Proof.
  intros Hval Hm Hin st.
  rewrite (model_calls_stateless m (fun x => contracted heads (snd (fst x)) (snd x))).
  - rewrite map_map. reflexivity.
  - intros x Hx st'. apply in_map_iff in Hx. destruct Hx as ((H & W) & <- & Hhw).
    rewrite Forall_forall in Hin. destruct (Hin (H, W) Hhw) as [Hd Hs]. cbn [fst snd] in *.
    destruct (contract_fx_open fx c heads H W Hval Hd Hs) as (m' & Em' & Hf).
    rewrite Hm in Em'. injection Em' as <-. apply Hf.
Qed.

(* --------- (c) target shapes for the current variant (review finding 4) --------- *)
Lemma domain_divisible_x c heads H W :
  valid_config c heads = true -> in_domain c H W = true ->
  selector_F44 c heads = false -> selector_F42 c H W = false ->
  forall hd, In hd heads -> 0 < h_os hd /\ H mod h_os hd = 0 /\ W mod h_os hd = 0.
Proof.
  intros Hval Hdom H44 H42 hd Hin.
  destruct (eff_pow2 c heads Hval) as (k & Ek).
  apply valid_core in Hval. unfold valid_config_core in Hval.
  apply andb_true_iff in Hval. destruct Hval as [Hval _].
  apply andb_true_iff in Hval. destruct Hval as [Hval Hvh].
  apply andb_true_iff in Hval. destruct Hval as [_ Hpms].
  destruct (is_pow2_spec _ Hpms) as (mm & Hmm).
  unfold valid_heads in Hvh. apply andb_true_iff in Hvh. destruct Hvh as [_ Hall].
  rewrite forallb_forall in Hall. specialize (Hall hd Hin).
  apply andb_true_iff in Hall. destruct Hall as [Hall Hle].
  apply andb_true_iff in Hall. destruct Hall as [Hp2 _].
  destruct (is_pow2_spec _ Hp2) as (t & Et).
  apply Z.leb_le in Hle. rewrite Et, Ek, Hmm in Hle.
  assert (Htk : (t <= k)%nat).
  { unfold selector_F44 in H44. destruct (cfg_patch_stride c) eqn:Eps.
    - pose proof (existsb_false _ _ H44 hd Hin) as Hge. cbn beta in Hge. apply Z.ltb_ge in Hge.
      rewrite Ek, Et in Hge. apply pow2_le_inv; auto.
    - destruct c; try discriminate Eps. cbn [effective_max_stride cfg_max_stride] in *.
      rewrite Hmm in Ek. apply pow2_inj in Ek. subst. rewrite Z.max_id in Hle. apply pow2_le_inv; auto. }
  unfold in_domain in Hdom.
  repeat (apply andb_true_iff in Hdom; destruct Hdom as [Hdom ?]).
  apply Z.eqb_eq in H0, H1. rewrite Hmm in H0, H1.
  assert (Hdiv : H mod pow2 k = 0 /\ W mod pow2 k = 0).
  { unfold selector_F42 in H42. destruct (cfg_patch_stride c) eqn:Eps.
    - apply andb_false_iff in H42. destruct H42 as [Hge | Hd].
      + apply Z.ltb_ge in Hge. rewrite Ek, Hmm in Hge. apply pow2_le_inv in Hge.
        split; eapply mod_pow2_weaken; eauto.
      + apply negb_false_iff, andb_true_iff in Hd. destruct Hd as [D1 D2].
        apply Z.eqb_eq in D1, D2. rewrite Ek in D1, D2. auto.
    - destruct c; try discriminate Eps. cbn [effective_max_stride cfg_max_stride] in *.
      rewrite Hmm in Ek. apply pow2_inj in Ek. subst. auto. }
  destruct Hdiv as [D1 D2]. rewrite Et. pose proof (pow2_pos t).
  split. assumption. split.
  - apply (mod_pow2_weaken H t k); [lia | exact D1].
  - apply (mod_pow2_weaken W t k); [lia | exact D2].
Qed.

Theorem contract_targets_fx fx c heads H W :
  valid_config c heads = true -> in_domain_fx (fx42 fx) c H W = true ->
  open_selector fx c heads H W = false ->
  exists m, build_model_fx (fx41 fx) true (build_backbone_fx fx c) heads = Some m /\
    forall st, fst (model_forward m st (cfg_in_channels c, H, W))
               = Some (map (fun hd => target_shape hd H W) heads).
Proof.
  intros Hval Hdom Hsel.
  destruct (contract_fx_open fx c heads H W Hval Hdom Hsel) as (m & Em & Hf).
  exists m. split; auto. intros st. rewrite Hf. f_equal. apply contracted_targets.
  unfold open_selector in Hsel.
  repeat (apply orb_false_iff in Hsel; destruct Hsel as [Hsel ?]).
  assert (Hd : in_domain c H W = true /\ selector_F42 c H W = false).
  { destruct (fx42 fx) eqn:E42.
    - eapply in_domain_fx_on; eauto.
    - split. exact Hdom. cbn in H1. exact H1. }
  destruct Hd as [Hd H42].
  eapply domain_divisible_x; eauto.
Qed.

(* every valid UNet of the current tree (no selector at all): targets form of c14_unet_all_repairs *)
Theorem unet_targets_fx fx u heads H W :
  valid_config (CfgUNet u) heads = true -> in_domain (CfgUNet u) H W = true ->
  fx17 fx = true -> fx18 fx = true -> fx41 fx = true ->
  exists m, build_model_fx (fx41 fx) true (build_unet_fx fx u) heads = Some m /\
    forall st, fst (model_forward m st (u_in_channels u, H, W))
               = Some (map (fun hd => target_shape hd H W) heads).
Proof.
  intros Hval Hdom E17 E18 E41.
  destruct (unet_contract_fx fx u heads H W Hval Hdom (or_introl E17) (or_introl E18) (or_introl E41)) as (m & Em & Hf).
  exists m. split; auto. intros st. rewrite Hf. f_equal. apply contracted_targets.
  eapply domain_divisible_x; eauto.
Qed.

(* --------- explicit UNet form for the current head rule without the sizing hypothesis (finding 7) --------- *)
Theorem unet_general_fx_fixed fx c s d b heads st h w :
  unet_valid_le c s d b -> cpb_ok (fx18 fx) (u_convs_per_block c) -> feeds fx c ->
  heads_ok_fx (fx41 fx) heads b (s + d) -> 0 < h -> 0 < w ->
  exists m, build_model_fx (fx41 fx) true (build_unet_fx fx c) heads = Some m /\
    fst (model_forward m st (u_in_channels c, h * pow2 (s + d), w * pow2 (s + d)))
    = Some (contracted heads (h * pow2 (s + d)) (w * pow2 (s + d))).
Proof.
  intros Hv Hcpb Hfeed Hheads Hh Hw.
  apply (unet_model_forward_fx true fx c s d b); auto.
  apply heads_sized_fixed_fx. unfold heads_ok_fx in Hheads.
  eapply Forall_impl; [|exact Hheads]. intros hd (t & Ht & _ & E). exists t; auto.
Qed.

(* --------- refutations for the CURRENT tree (fx17 = fx18 = fx41 = true, fx42 = false; head rule repaired) --------- *)
Definition cur3 : fixes := {| fx17 := true; fx18 := true; fx41 := true; fx42 := false |}.

Definition refutes_fx (fx : fixes) (c : config) (heads : list head) (H W : Z) (sels : list bool) : Prop :=
  valid_config c heads = true /\ in_domain_fx (fx42 fx) c H W = true /\ sel_vector c heads H W = sels /\
  meets_contract_fx true fx c heads H W = false.

(* F42 (open): Swin-T tiny, stem_patch_stride 4, documented max_stride 16, 48 x 48 *)
Lemma refuted_F42_current :
  refutes_fx cur3 (w_swint_tiny 4 4 16) (get_head MSingle 3 2 4 4) 48 48
             [false; false; false; false; true; false; false].
Proof. repeat split; vm_compute; reflexivity. Qed.

(* F44 (open): ConvNeXt tiny, stem_patch_stride 2 (the encoder reaches 16), max_stride 32, head at 32.
   Construction fails; no flag helps (allfix included).  Selector F41 is the historic superset. *)
Lemma refuted_F44_current :
  refutes_fx cur3 (w_convnext_tiny 2 2 32) (get_head MSingle 3 2 32 32) 64 64
             [false; false; false; true; false; false; true] /\
  refutes_fx allfix (w_convnext_tiny 2 2 32) (get_head MSingle 3 2 32 32) 64 64
             [false; false; false; true; false; false; true] /\
  build_model_fx true true (build_backbone_fx allfix (w_convnext_tiny 2 2 32)) (get_head MSingle 3 2 32 32) = None.
Proof. repeat split; vm_compute; reflexivity. Qed.

Lemma full_statement_refuted_current :
  exists c heads H W, valid_config c heads = true /\ in_domain_fx (fx42 cur3) c H W = true /\
                      meets_contract_fx true cur3 c heads H W = false.
Proof.
  exists (w_swint_tiny 4 4 16), (get_head MSingle 3 2 4 4), 48, 48.
  destruct refuted_F42_current as (A & B & _ & D). auto.
Qed.

(* non-vacuity of contract_fx_open in the two regions that are new: b > e (old F20 region) with a
   custom ConvNeXt and transposed convolutions, and a head on the Swin-T encoder output (old F41 region) *)
Definition w_convnext_custom : config :=
  CfgConvNext {| c_model_type := 9; c_arch := Some ([1; 2; 1; 1], [12; 24; 48; 96]); c_in_channels := 3;
                 c_kernel := 3; c_stem_kernel := 4; c_stem_stride := 2; c_rate := 2 # 1; c_up_interp := false;
                 c_output_stride := 4; c_max_stride := 16 |}.
Lemma ex_open_convnext_b_gt_e :
  let hs := get_head MBottomUp 3 2 4 8 in
  valid_config w_convnext_custom hs = true /\ in_domain_fx false w_convnext_custom 32 48 = true /\
  open_selector cur3 w_convnext_custom hs 32 48 = false /\ selector_F20 w_convnext_custom hs = true /\
  meets_contract_fx true cur3 w_convnext_custom hs 32 48 = true.
Proof. repeat split; vm_compute; reflexivity. Qed.
Lemma ex_open_swint_top :
  let c := w_swint_tiny 4 4 32 in let hs := get_head MBottomUp 3 2 4 32 in
  valid_config c hs = true /\ in_domain_fx false c 64 96 = true /\
  open_selector cur3 c hs 64 96 = false /\ selector_F41 c hs = true /\
  meets_contract_fx true cur3 c hs 64 96 = true.
Proof. repeat split; vm_compute; reflexivity. Qed.
Lemma ex_open_unet :
  let c := w_unet 24 (3 # 2) 32 4 false 1 in let hs := get_head MBottomUp 5 4 4 32 in
  valid_config c hs = true /\ in_domain_fx false c 64 96 = true /\
  open_selector cur3 c hs 64 96 = false /\ meets_contract_fx true cur3 c hs 64 96 = true.
Proof. repeat split; vm_compute; reflexivity. Qed.

(* finding 1: the degenerate sizes are not valid any more *)
Lemma ex_degenerate_invalid :
  valid_config (CfgUNet {| u_in_channels := -3; u_kernel := 0; u_filters := 8; u_rate := 2 # 1; u_max_stride := 8;
                           u_stem_stride := None; u_middle := true; u_up_interp := true; u_convs_per_block := 2;
                           u_output_stride := 2 |}) (get_head MSingle (-2) 2 2 2) = false /\
  valid_config (w_unet 8 (2 # 1) 8 2 true 2) (get_head MSingle 0 2 2 2) = false /\
  valid_config (w_unet 8 (2 # 1) 8 2 true 2) (get_head MBottomUp 2 0 2 2) = false /\
  valid_config (w_unet 8 (2 # 1) 8 2 true 2) (get_head MBottomUp 2 1 2 2) = true.
Proof. repeat split; vm_compute; reflexivity. Qed.
