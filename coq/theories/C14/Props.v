From Coq Require Import List ZArith QArith.
From SV Require Import C14.Shapes C14.Lemmas.
Theorem c14_placeholder : True. Proof. exact placeholder_true. Qed.
Print Assumptions c14_placeholder.
