(* Props.v (C14) — statements only.  Proofs: C14/Lemmas.v; model: C14/Shapes.v.

   Reading.  `build_model fixed (build_backbone c) heads` follows Model.__init__ /
   from_config (None = the constructor raises); `model_forward m st x` follows
   Model.forward on an input of shape x = (channels, H, W), `st` being the state of
   the MaxPool2dWithSamePadding layers (which of them still hold padding="same");
   its first component is None when torch would raise.  `contracted heads H W` is
   the property's right-hand side: one (channels, H/os, W/os) per head, with
   channels = parts | 2*edges | 1.  `pow2 n = 2^n`.

   VARIANTS.  `fixed` = the head in_channels rule: false = the PINNED tree (before fix 14997bd),
   true = the CURRENT tree (/repo HEAD; the head reads the decoder block that feeds it).
   `fx : fixes` = the later repairs as flags: fx17 (5fcfc16), fx18 (9a2daa4), fx41 (f15d414) are
   IN the current tree, fx42 (proposed_fixes/C14_F42.diff) is NOT.  So
       current tree  =  build_model_fx true true (build_backbone_fx cur3 c),  cur3 = {17,18,41 on; 42 off}
       pinned tree   =  build_model false (build_backbone c)  (= ..._fx with nofix).
   The harness detects the variant on every run by replaying the corpus witnesses and evaluates
   exactly these functions (Shapes.run (CModel fixed fx ...)).  Theorems about `fixed = false` /
   `nofix` are HISTORIC: no code implements that variant any more; they document the repaired
   defects and keep the check able to report a regression.
   Open in the current tree: F42 and F44 (section "CURRENT TREE" below).

   valid_config / in_domain / selector_Fk are the booleans of Shapes.v; the harness
   implements the same predicates in Python.  valid_config now also demands positive kernel
   size, in_channels and head channel counts (round-4 review, finding 1). *)
From Coq Require Import List ZArith QArith Bool.
Import ListNotations.
From SV Require Import C14.Shapes C14.Lemmas.
From SV Require C01.ConfMaps.
Local Open Scope Z_scope.

Theorem c14_pow2 : forall n, pow2 n = 2 ^ Z.of_nat n.
Proof. exact pow2_eq. Qed.
Print Assumptions c14_pow2.

(* ---------------------------------------------------------------------------
   HISTORIC (pinned tree, before 14997bd / 5fcfc16 / 9a2daa4 / f15d414): the property as
   given was FALSE: a valid configuration and an input whose sides are multiples of
   max_stride for which assembly or the forward pass raises.  One witness per defect,
   each falling under exactly one of the selectors F17..F43 (7th entry: F44, see below).
   F17, F18, F20, F41 (UNet and the top head of ConvNeXt/Swin-T), F43 are FIXED in /repo;
   for the refutation of the CURRENT tree see c14_full_statement_refuted_current. *)
Theorem c14_full_statement_refuted :
  exists c heads H W, valid_config c heads = true /\ in_domain c H W = true /\
                      meets_contract false c heads H W = false.
Proof. exact full_statement_refuted. Qed.
Print Assumptions c14_full_statement_refuted.

(* F17: UNet, middle_block = False *)
Theorem c14_refuted_F17 :
  refutes (w_unet 16 (2 # 1) 16 2 false 2) (get_head MSingle 3 2 2 2) 32 48
          [true; false; false; false; false; false; false].
Proof. exact refuted_F17. Qed.
Print Assumptions c14_refuted_F17.

(* F18: UNet, convs_per_block = 1 *)
Theorem c14_refuted_F18 :
  refutes (w_unet 16 (2 # 1) 16 2 true 1) (get_head MSingle 3 2 2 2) 32 48
          [false; true; false; false; false; false; false].
Proof. exact refuted_F18. Qed.
Print Assumptions c14_refuted_F18.

(* F20: ConvNeXt tiny, stem_patch_stride 2, output stride 4 *)
Theorem c14_refuted_F20 :
  refutes (w_convnext_tiny 2 4 16) (get_head MSingle 3 2 4 4) 32 48
          [false; false; true; false; false; false; false].
Proof. exact refuted_F20. Qed.
Print Assumptions c14_refuted_F20.

(* F41: a head at max_stride *)
Theorem c14_refuted_F41 :
  refutes (w_unet 16 (2 # 1) 16 16 true 2) (get_head MCentroid 3 2 16 16) 32 48
          [false; false; false; true; false; false; false].
Proof. exact refuted_F41. Qed.
Print Assumptions c14_refuted_F41.

(* F42: Swin-T tiny, stem_patch_stride 4, documented max_stride 16, input 48 x 48 *)
Theorem c14_refuted_F42 :
  refutes (w_swint_tiny 4 4 16) (get_head MSingle 3 2 4 4) 48 48
          [false; false; false; false; true; false; false].
Proof. exact refuted_F42. Qed.
Print Assumptions c14_refuted_F42.

(* F43: UNet filters 24, rate 3/2, max_stride 64, heads at 16 and 32 *)
Theorem c14_refuted_F43 :
  refutes (w_unet 24 (3 # 2) 64 16 true 2) (get_head MBottomUp 3 2 16 32) 64 64
          [false; false; false; false; false; true; false].
Proof. exact refuted_F43. Qed.
Print Assumptions c14_refuted_F43.

(* ---------------------------------------------------------------------------
   HISTORIC form (any head rule, no later repair; superseded for the current tree by
   c14_contract_fx_open).  Outside the six selectors the property holds for
   EVERY valid configuration of the three backbone families (any depth, any filters
   and rate, any stem stride, convs_per_block >= 2, both upsampling modes, any number
   and kind of heads), EVERY input whose sides are multiples of max_stride, and EVERY
   state of the pooling layers — i.e. whatever was called before (statelessness).
   Unbounded: proved by induction over the encoder/decoder depth. *)
Theorem c14_contract_partial : forall fixed c heads H W,
  valid_config c heads = true -> in_domain c H W = true -> any_selector c heads H W = false ->
  exists m, build_model fixed (build_backbone c) heads = Some m /\
    forall st, fst (model_forward m st (cfg_in_channels c, H, W)) = Some (contracted heads H W).
Proof. exact contract_partial. Qed.
Print Assumptions c14_contract_partial.

(* (c) ... and these are the shapes of the targets the data pipeline generates for
   the same head: (channels, ceil(H/os), ceil(W/os)).  HISTORIC hypotheses (all six selectors);
   for the current tree: c14_contract_targets_fx, c14_unet_targets_fx.  The channel half is
   definitional (target_shape takes its channels from head_channels, as the model head does);
   the harness compares target_shape with the repo's target generators on every generated size. *)
Theorem c14_contract_targets : forall fixed c heads H W,
  valid_config c heads = true -> in_domain c H W = true -> any_selector c heads H W = false ->
  exists m, build_model fixed (build_backbone c) heads = Some m /\
    forall st, fst (model_forward m st (cfg_in_channels c, H, W))
               = Some (map (fun hd => target_shape hd H W) heads).
Proof. exact contract_targets. Qed.
Print Assumptions c14_contract_targets.

(* target_shape's ceil_div is the length of C01's sampling grid (generate_confmaps) *)
Theorem c14_target_side_is_c01_grid : forall H os : nat, (0 < os)%nat ->
  Z.of_nat (length (C01.ConfMaps.grid H os)) = ceil_div (Z.of_nat H) (Z.of_nat os).
Proof. exact target_side_is_c01_grid. Qed.
Print Assumptions c14_target_side_is_c01_grid.

(* ---------------------------------------------------------------------------
   (a) in explicit form.  UNet with s stem blocks and d down blocks (max_stride
   2^(s+d)), backbone output stride 2^b, heads at strides 2^t with b <= t < s+d,
   rate p/q and filters = m * q^(s+d) (rate 2: any filters; rate 3/2: filters a
   multiple of 2^(s+d)): the pinned arithmetic sizes every head correctly. *)
Theorem c14_unet_general : forall c s d b heads (m p : Z) (q : positive) st h w,
  unet_valid c s d b -> 2 <= u_convs_per_block c -> u_middle c = true ->
  heads_ok heads b (s + d) ->
  u_rate c = p # q -> 0 < p -> u_filters c = m * Zpos q ^ Z.of_nat (s + d) ->
  0 < h -> 0 < w ->
  exists mm, build_model false (build_unet c) heads = Some mm /\
    fst (model_forward mm st (u_in_channels c, h * pow2 (s + d), w * pow2 (s + d)))
    = Some (contracted heads (h * pow2 (s + d)) (w * pow2 (s + d))).
Proof. exact unet_general_rate. Qed.
Print Assumptions c14_unet_general.

(* with the repair no condition on filters and rate remains *)
Theorem c14_unet_general_repaired : forall c s d b heads st h w,
  unet_valid c s d b -> 2 <= u_convs_per_block c -> u_middle c = true ->
  heads_ok heads b (s + d) -> 0 < h -> 0 < w ->
  exists mm, build_model true (build_unet c) heads = Some mm /\
    fst (model_forward mm st (u_in_channels c, h * pow2 (s + d), w * pow2 (s + d)))
    = Some (contracted heads (h * pow2 (s + d)) (w * pow2 (s + d))).
Proof. exact unet_general_repaired. Qed.
Print Assumptions c14_unet_general_repaired.

(* ConvNeXt: four stages C, 2C, 4C, 8C (C = 4*C4), any depths, stem stride 2^e,
   output stride 2^b <= 2^e, heads at 2^t with b <= t <= e+2, input multiple of 2^(e+3) *)
Theorem c14_convnext_general : forall f41 fixed c C4 ds e b heads st h w,
  convnext_valid c C4 ds e b -> tv_heads_ok e b heads -> 0 < h -> 0 < w ->
  exists m, build_model_fx f41 fixed (build_convnext c) heads = Some m /\
    fst (model_forward m st (c_in_channels c, pow2 e * (2 * (2 * (2 * h))), pow2 e * (2 * (2 * (2 * w)))))
    = Some (contracted heads (h * pow2 (e + 3)) (w * pow2 (e + 3))).
Proof. exact convnext_model_forward. Qed.
Print Assumptions c14_convnext_general.

Theorem c14_swint_general : forall f41 fixed c C4 ds nhs e b heads st h w,
  swint_valid c C4 ds nhs e b -> tv_heads_ok e b heads -> 0 < h -> 0 < w ->
  exists m, build_model_fx f41 fixed (build_swint c) heads = Some m /\
    fst (model_forward m st (s_in_channels c, pow2 e * (2 * (2 * (2 * h))), pow2 e * (2 * (2 * (2 * w)))))
    = Some (contracted heads (h * pow2 (e + 3)) (w * pow2 (e + 3))).
Proof. exact swint_model_forward. Qed.
Print Assumptions c14_swint_general.

(* ---------------------------------------------------------------------------
   (b) FINITE grid (the bound is in the statement): filters in {16,24,32,64},
   filters_rate in {3/2, 2}, max_stride <= 64 — the presets, where filters * rate^k
   is not integral (24 * 1.5^5 = 182.25).  The head arithmetic was evaluated on the
   whole grid by vm_compute: it is right everywhere except at ONE point (F43), and
   the conclusion is again for all other parameters, all inputs, all states. *)
Theorem c14_unet_grid : forall fixed u heads H W,
  valid_config (CfgUNet u) heads = true -> in_domain (CfgUNet u) H W = true ->
  selector_F17 (CfgUNet u) = false -> selector_F18 (CfgUNet u) = false ->
  selector_F41 (CfgUNet u) heads = false ->
  In (u_filters u) [16; 24; 32; 64] -> In (u_rate u) [3 # 2; 2 # 1] -> u_max_stride u <= 64 ->
  (forall hd, In hd heads ->
     ~ (u_filters u = 24 /\ u_rate u = 3 # 2 /\ u_max_stride u = 64 /\ u_output_stride u = 16 /\ h_os hd = 32)) ->
  exists m, build_model fixed (build_unet u) heads = Some m /\
    forall st, fst (model_forward m st (u_in_channels u, H, W)) = Some (contracted heads H W).
Proof. exact unet_grid. Qed.
Print Assumptions c14_unet_grid.

Theorem c14_grid_exception_is_real :
  head_arith 24 (3 # 2) 6 4 5 = 181 /\ fint 24 (3 # 2) 5 = 182.
Proof. exact grid_bad_is_bad. Qed.
Print Assumptions c14_grid_exception_is_real.

(* the repair removes F20 and F43 on their witnesses *)
Theorem c14_repair_removes_F20_F43 :
  meets_contract true (w_convnext_tiny 2 4 16) (get_head MSingle 3 2 4 4) 32 48 = true /\
  meets_contract true (w_unet 24 (3 # 2) 64 16 true 2) (get_head MBottomUp 3 2 16 32) 64 64 = true.
Proof. exact repaired_witnesses. Qed.
Print Assumptions c14_repair_removes_F20_F43.

(* ---------------------------------------------------------------------------
   THE REPAIRS AS FLAGS (F17 5fcfc16, F18 9a2daa4, F41 f15d414: in /repo; F42: proposed only).
   `fx : fixes` says which repairs the code has (nofix = the pinned tree; cur3 = the current
   tree; the harness detects the flags by replaying the corpus witnesses); `build_unet = build_unet_fx nofix`,
   `build_model = build_model_fx false`, `in_domain = in_domain_fx false` by definition, so
   every theorem above is the fx = nofix instance.  Head rule: the current tree's (fixed = true).

   UNet, every value of the three flags, unbounded: each flag removes exactly its
   selector from the hypotheses (flag on: no condition; flag off: selector false). *)
Theorem c14_unet_contract_fx : forall fx u heads H W,
  valid_config (CfgUNet u) heads = true -> in_domain (CfgUNet u) H W = true ->
  (fx17 fx = true \/ selector_F17 (CfgUNet u) = false) ->
  (fx18 fx = true \/ selector_F18 (CfgUNet u) = false) ->
  (fx41 fx = true \/ selector_F41 (CfgUNet u) heads = false) ->
  exists m, build_model_fx (fx41 fx) true (build_unet_fx fx u) heads = Some m /\
    forall st, fst (model_forward m st (u_in_channels u, H, W)) = Some (contracted heads H W).
Proof. exact unet_contract_fx. Qed.
Print Assumptions c14_unet_contract_fx.

(* all repairs on: EVERY valid UNet configuration meets the contract on every input
   whose sides are multiples of max_stride, from every state -- the property's sentence
   for the UNet family without any exception *)
Theorem c14_unet_all_repairs : forall u heads H W,
  valid_config (CfgUNet u) heads = true -> in_domain (CfgUNet u) H W = true ->
  exists m, build_model_fx true true (build_unet_fx allfix u) heads = Some m /\
    forall st, fst (model_forward m st (u_in_channels u, H, W)) = Some (contracted heads H W).
Proof. intros. apply (unet_contract_fx allfix); auto. Qed.
Print Assumptions c14_unet_all_repairs.

(* in explicit form: any depth, stem, filters, rate, both upsampling modes; convs_per_block
   >= 2 or (1 and fx18); middle block or fx17; heads at 2^t, b <= t < n or (t = n and fx41).
   CONDITIONAL on `heads_sized_fx` (every head conv sized for its block): for fixed = true that
   hypothesis is discharged (c14_unet_general_fx_fixed below), for fixed = false it is the
   negation of F43. *)
Theorem c14_unet_general_fx : forall fixed fx c s d b heads st h w,
  unet_valid_le c s d b -> cpb_ok (fx18 fx) (u_convs_per_block c) -> feeds fx c ->
  heads_ok_fx (fx41 fx) heads b (s + d) -> heads_sized_fx fixed fx c s d b heads -> 0 < h -> 0 < w ->
  exists m, build_model_fx (fx41 fx) fixed (build_unet_fx fx c) heads = Some m /\
    fst (model_forward m st (u_in_channels c, h * pow2 (s + d), w * pow2 (s + d)))
    = Some (contracted heads (h * pow2 (s + d)) (w * pow2 (s + d))).
Proof. exact unet_model_forward_fx. Qed.
Print Assumptions c14_unet_general_fx.

(* the same for the current head rule, no sizing hypothesis (review finding 7) *)
Theorem c14_unet_general_fx_fixed : forall fx c s d b heads st h w,
  unet_valid_le c s d b -> cpb_ok (fx18 fx) (u_convs_per_block c) -> feeds fx c ->
  heads_ok_fx (fx41 fx) heads b (s + d) -> 0 < h -> 0 < w ->
  exists m, build_model_fx (fx41 fx) true (build_unet_fx fx c) heads = Some m /\
    fst (model_forward m st (u_in_channels c, h * pow2 (s + d), w * pow2 (s + d)))
    = Some (contracted heads (h * pow2 (s + d)) (w * pow2 (s + d))).
Proof. exact unet_general_fx_fixed. Qed.
Print Assumptions c14_unet_general_fx_fixed.

(* construction alone never needed the middle block: F17 is a forward-pass failure *)
Theorem c14_unet_builds : forall fx c s d b,
  unet_valid_le c s d b -> cpb_ok (fx18 fx) (u_convs_per_block c) ->
  build_unet_fx fx c = Some (unet_backbone_fx fx c s d b).
Proof. exact build_unet_spec_fx. Qed.
Print Assumptions c14_unet_builds.

(* fx42: the multiples of the max_stride the repaired wrappers report are multiples of
   the configured one and never fall under selector F42 *)
Theorem c14_fx42_domain : forall c heads H W, valid_config c heads = true ->
  in_domain_fx true c H W = true -> in_domain c H W = true /\ selector_F42 c H W = false.
Proof. exact in_domain_fx_on. Qed.
Print Assumptions c14_fx42_domain.

(* all three families, every value of the flags.  SUPERSEDED by c14_contract_fx_open (whose
   selector is weaker: c14_residual_implies_open): here selector F41 stays for ConvNeXt / Swin-T
   whatever fx41 is and selector F20 stays although the head rule is repaired. *)
Theorem c14_contract_fx_partial : forall fx c heads H W,
  valid_config c heads = true -> in_domain_fx (fx42 fx) c H W = true ->
  residual_selector fx c heads H W = false ->
  exists m, build_model_fx (fx41 fx) true (build_backbone_fx fx c) heads = Some m /\
    forall st, fst (model_forward m st (cfg_in_channels c, H, W)) = Some (contracted heads H W).
Proof. exact contract_fx_partial. Qed.
Print Assumptions c14_contract_fx_partial.

Theorem c14_call_sequences_fx : forall fx c heads m (inputs : list (Z * Z)),
  valid_config c heads = true ->
  build_model_fx (fx41 fx) true (build_backbone_fx fx c) heads = Some m ->
  Forall (fun hw => in_domain_fx (fx42 fx) c (fst hw) (snd hw) = true /\
                    residual_selector fx c heads (fst hw) (snd hw) = false) inputs ->
  forall st,
    model_calls m st (map (fun hw => (cfg_in_channels c, fst hw, snd hw)) inputs)
    = map (fun hw => Some (contracted heads (fst hw) (snd hw))) inputs.
Proof. exact call_sequences_fx. Qed.
Print Assumptions c14_call_sequences_fx.

(* each repair turns its refuted witness into a configuration that meets the contract
   (F42: takes the 48 x 48 input out of the domain); last line: all four at once on a
   UNet without middle block, one conv per block, transposed-conv-free, heads at 16 and 4 *)
Theorem c14_repairs_on_witnesses :
  meets_contract_fx true only17 (w_unet 16 (2 # 1) 16 2 false 2) (get_head MSingle 3 2 2 2) 32 48 = true /\
  meets_contract_fx true only18 (w_unet 16 (2 # 1) 16 2 true 1) (get_head MSingle 3 2 2 2) 32 48 = true /\
  meets_contract_fx true only41 (w_unet 16 (2 # 1) 16 16 true 2) (get_head MCentroid 3 2 16 16) 32 48 = true /\
  in_domain_fx true (w_swint_tiny 4 4 16) 48 48 = false /\
  meets_contract_fx true allfix (w_unet 16 (3 # 2) 16 4 false 1) (get_head MBottomUp 3 2 16 4) 32 48 = true.
Proof. exact repaired_witnesses_fx. Qed.
Print Assumptions c14_repairs_on_witnesses.

(* FINITE (the seven shipped presets x stem stride 2, 4): a head on the encoder output
   failed in the pinned tree (before f15d414) and meets the contract with fx41; unbounded
   form: c14_convnext_general_x / c14_swint_general_x *)
Theorem c14_tv_top_head_fx :
  forallb (fun c =>
    let hs := get_head MBottomUp 3 2 (cfg_output_stride c) (effective_max_stride c) in
    valid_config c hs && selector_F41 c hs && negb (meets_contract_fx true nofix c hs 64 96) &&
    meets_contract_fx true only41 c hs 64 96) tv_presets = true.
Proof. exact tv_top_head_fx. Qed.
Print Assumptions c14_tv_top_head_fx.

(* ---------------------------------------------------------------------------
   CURRENT TREE (round-4 review, findings 2-5).  Head rule repaired (fixed = true); flags cur3.

   ConvNeXt / Swin-T in explicit form WITHOUT b <= e and WITH the head on the encoder output:
   stem stride 2^e (e = 1, 2), ANY backbone output stride 2^b, heads at 2^t with b <= t and
   (t <= e + 2, or t = e + 3 when the code has f15d414).  Unbounded in depths, widths, inputs,
   pooling states.  Covers the former F20 region (b > e) and the former F41 region. *)
Theorem c14_convnext_general_x : forall f41 c C4 ds e b heads st h w,
  convnext_valid_x c C4 ds e b -> tv_heads_ok_fx e b f41 heads -> 0 < h -> 0 < w ->
  exists m, build_model_fx f41 true (build_convnext c) heads = Some m /\
    fst (model_forward m st (c_in_channels c, pow2 e * (2 * (2 * (2 * h))), pow2 e * (2 * (2 * (2 * w)))))
    = Some (contracted heads (h * pow2 (e + 3)) (w * pow2 (e + 3))).
Proof. exact convnext_model_forward_x. Qed.
Print Assumptions c14_convnext_general_x.

Theorem c14_swint_general_x : forall f41 c C4 ds nhs e b heads st h w,
  swint_valid_x c C4 ds nhs e b -> tv_heads_ok_fx e b f41 heads -> 0 < h -> 0 < w ->
  exists m, build_model_fx f41 true (build_swint c) heads = Some m /\
    fst (model_forward m st (s_in_channels c, pow2 e * (2 * (2 * (2 * h))), pow2 e * (2 * (2 * (2 * w)))))
    = Some (contracted heads (h * pow2 (e + 3)) (w * pow2 (e + 3))).
Proof. exact swint_model_forward_x. Qed.
Print Assumptions c14_swint_general_x.

(* THE STRONGEST TRUE STATEMENT for the current head rule, all three families, every value of
   the flags: the hypotheses left are the selectors of the repairs that are switched off, and
   F44.  For the current tree (fx = cur3) it reads: valid, in-domain, not F42, not F44 =>
   contract, from every pooling state.  `_open` = partial only by the two OPEN findings. *)
Theorem c14_contract_fx_open : forall fx c heads H W,
  valid_config c heads = true -> in_domain_fx (fx42 fx) c H W = true ->
  open_selector fx c heads H W = false ->
  exists m, build_model_fx (fx41 fx) true (build_backbone_fx fx c) heads = Some m /\
    forall st, fst (model_forward m st (cfg_in_channels c, H, W)) = Some (contracted heads H W).
Proof. exact contract_fx_open. Qed.
Print Assumptions c14_contract_fx_open.

Theorem c14_residual_implies_open : forall fx c heads H W,
  residual_selector fx c heads H W = false -> open_selector fx c heads H W = false.
Proof. exact residual_implies_open. Qed.
Print Assumptions c14_residual_implies_open.

(* (c) for the current variant: ... = the data pipeline's target shapes *)
Theorem c14_contract_targets_fx : forall fx c heads H W,
  valid_config c heads = true -> in_domain_fx (fx42 fx) c H W = true ->
  open_selector fx c heads H W = false ->
  exists m, build_model_fx (fx41 fx) true (build_backbone_fx fx c) heads = Some m /\
    forall st, fst (model_forward m st (cfg_in_channels c, H, W))
               = Some (map (fun hd => target_shape hd H W) heads).
Proof. exact contract_targets_fx. Qed.
Print Assumptions c14_contract_targets_fx.

(* UNet of the current tree: EVERY valid configuration (no middle block, one conv per block,
   head at max_stride included), no selector *)
Theorem c14_unet_targets_fx : forall fx u heads H W,
  valid_config (CfgUNet u) heads = true -> in_domain (CfgUNet u) H W = true ->
  fx17 fx = true -> fx18 fx = true -> fx41 fx = true ->
  exists m, build_model_fx (fx41 fx) true (build_unet_fx fx u) heads = Some m /\
    forall st, fst (model_forward m st (u_in_channels u, H, W))
               = Some (map (fun hd => target_shape hd H W) heads).
Proof. exact unet_targets_fx. Qed.
Print Assumptions c14_unet_targets_fx.

Theorem c14_call_sequences_fx_open : forall fx c heads m (inputs : list (Z * Z)),
  valid_config c heads = true ->
  build_model_fx (fx41 fx) true (build_backbone_fx fx c) heads = Some m ->
  Forall (fun hw => in_domain_fx (fx42 fx) c (fst hw) (snd hw) = true /\
                    open_selector fx c heads (fst hw) (snd hw) = false) inputs ->
  forall st,
    model_calls m st (map (fun hw => (cfg_in_channels c, fst hw, snd hw)) inputs)
    = map (fun hw => Some (contracted heads (fst hw) (snd hw))) inputs.
Proof. exact call_sequences_fx_open. Qed.
Print Assumptions c14_call_sequences_fx_open.

(* The property as given is FALSE of the CURRENT tree too: two open findings.
   F42 (known): Swin-T tiny, stem_patch_stride 4, max_stride 16 ("always 16"), 48 x 48. *)
Theorem c14_full_statement_refuted_current :
  exists c heads H W, valid_config c heads = true /\ in_domain_fx (fx42 cur3) c H W = true /\
                      meets_contract_fx true cur3 c heads H W = false.
Proof. exact full_statement_refuted_current. Qed.
Print Assumptions c14_full_statement_refuted_current.

Theorem c14_refuted_F42_current :
  refutes_fx cur3 (w_swint_tiny 4 4 16) (get_head MSingle 3 2 4 4) 48 48
             [false; false; false; false; true; false; false].
Proof. exact refuted_F42_current. Qed.
Print Assumptions c14_refuted_F42_current.

(* F44 (known, new in round 4): ConvNeXt tiny, stem_patch_stride 2 (the encoder reaches 16),
   max_stride 32, head at stride 32, 64 x 64: `strides.index(32)` raises at construction.
   Valid (head stride <= max_stride; check_output_strides itself raises max_stride to the
   coarsest head stride) and in-domain.  Fails with every flag on (allfix) as well: no
   proposed repair covers it.  Selector F41 (historic) is a superset of F44. *)
Theorem c14_refuted_F44_current :
  refutes_fx cur3 (w_convnext_tiny 2 2 32) (get_head MSingle 3 2 32 32) 64 64
             [false; false; false; true; false; false; true] /\
  refutes_fx allfix (w_convnext_tiny 2 2 32) (get_head MSingle 3 2 32 32) 64 64
             [false; false; false; true; false; false; true] /\
  build_model_fx true true (build_backbone_fx allfix (w_convnext_tiny 2 2 32)) (get_head MSingle 3 2 32 32) = None.
Proof. exact refuted_F44_current. Qed.
Print Assumptions c14_refuted_F44_current.

(* ---------------------------------------------------------------------------
   (d) the one stateful layer.  On an even side the computed pad is 0 and the
   result does not depend on whether the layer was called before ... *)
Theorem c14_pool_pad_zero_on_even : forall same a, 0 < a ->
  calc_same_pad (2 * a) 2 2 1 = 0 /\ pool_side same (2 * a) = Some a.
Proof. intros. split. apply calc_same_pad_even; assumption. apply pool_side_even; assumption. Qed.
Print Assumptions c14_pool_pad_zero_on_even.

(* ... on an odd side it does (first call: ceil, later calls: floor) *)
Theorem c14_pool_first_call_differs_on_odd : forall a, 0 < a ->
  pool_side true (2 * a + 1) = Some (a + 1) /\ pool_side false (2 * a + 1) = Some a.
Proof. exact pool_side_odd_differs. Qed.
Print Assumptions c14_pool_first_call_differs_on_odd.

(* any sequence of in-domain calls on one instance, from any state: every call
   returns what a fresh instance returns *)
Theorem c14_call_sequences : forall fixed c heads m (inputs : list (Z * Z)),
  valid_config c heads = true -> build_model fixed (build_backbone c) heads = Some m ->
  Forall (fun hw => in_domain c (fst hw) (snd hw) = true /\
                    any_selector c heads (fst hw) (snd hw) = false) inputs ->
  forall st,
    model_calls m st (map (fun hw => (cfg_in_channels c, fst hw, snd hw)) inputs)
    = map (fun hw => Some (contracted heads (fst hw) (snd hw))) inputs.
Proof. exact call_sequences. Qed.
Print Assumptions c14_call_sequences.

(* outside the domain (33 is not a multiple of 16) the same UNet encoder returns
   different shapes on its first and on its second call: the restriction to
   multiples of max_stride is necessary for statelessness *)
Theorem c14_stateful_outside_domain :
  r_calls (run (CEncoder nofix w_u [(33, 48); (33, 48)]))
  = [Some [(64, 3, 3); (32, 5, 6); (16, 9, 12); (8, 17, 24); (4, 33, 48)];
     Some [(64, 2, 3); (32, 4, 6); (16, 8, 12); (8, 16, 24); (4, 33, 48)]].
Proof. exact stateful_outside_domain. Qed.
Print Assumptions c14_stateful_outside_domain.

(* non-vacuity of the master statement's hypotheses, one per backbone *)
Example ex_c14_unet :
  let c := w_unet 24 (3 # 2) 32 4 true 2 in let hs := get_head MBottomUp 5 4 4 8 in
  valid_config c hs = true /\ in_domain c 64 96 = true /\ any_selector c hs 64 96 = false /\
  meets_contract false c hs 64 96 = true.
Proof. exact ex_domain_unet. Qed.
Example ex_c14_convnext :
  let c := w_convnext_tiny 2 2 16 in let hs := get_head MBottomUp 5 4 2 4 in
  valid_config c hs = true /\ in_domain c 32 48 = true /\ any_selector c hs 32 48 = false /\
  meets_contract false c hs 32 48 = true.
Proof. exact ex_domain_convnext. Qed.
Example ex_c14_swint :
  let c := w_swint_tiny 4 1 32 in let hs := get_head MCentroid 5 4 2 2 in
  valid_config c hs = true /\ in_domain c 64 32 = true /\ any_selector c hs 64 32 = false /\
  meets_contract false c hs 64 32 = true.
Proof. exact ex_domain_swint. Qed.

(* non-vacuity of c14_contract_fx_open for the current tree: UNet without middle block, one conv
   per block, head at max_stride; ConvNeXt with output stride > stem stride (old F20 region);
   Swin-T with a head on the encoder output (old F41 region) *)
Example ex_c14_open_unet :
  let c := w_unet 24 (3 # 2) 32 4 false 1 in let hs := get_head MBottomUp 5 4 4 32 in
  valid_config c hs = true /\ in_domain_fx false c 64 96 = true /\
  open_selector cur3 c hs 64 96 = false /\ meets_contract_fx true cur3 c hs 64 96 = true.
Proof. exact ex_open_unet. Qed.
Example ex_c14_open_convnext_b_gt_e :
  let hs := get_head MBottomUp 3 2 4 8 in
  valid_config w_convnext_custom hs = true /\ in_domain_fx false w_convnext_custom 32 48 = true /\
  open_selector cur3 w_convnext_custom hs 32 48 = false /\ selector_F20 w_convnext_custom hs = true /\
  meets_contract_fx true cur3 w_convnext_custom hs 32 48 = true.
Proof. exact ex_open_convnext_b_gt_e. Qed.
Example ex_c14_open_swint_top :
  let c := w_swint_tiny 4 4 32 in let hs := get_head MBottomUp 3 2 4 32 in
  valid_config c hs = true /\ in_domain_fx false c 64 96 = true /\
  open_selector cur3 c hs 64 96 = false /\ selector_F41 c hs = true /\
  meets_contract_fx true cur3 c hs 64 96 = true.
Proof. exact ex_open_swint_top. Qed.
(* degenerate sizes (kernel 0, in_channels <= 0, a head without channels) are not valid *)
Example ex_c14_degenerate_invalid :
  valid_config (CfgUNet {| u_in_channels := -3; u_kernel := 0; u_filters := 8; u_rate := 2 # 1; u_max_stride := 8;
                           u_stem_stride := None; u_middle := true; u_up_interp := true; u_convs_per_block := 2;
                           u_output_stride := 2 |}) (get_head MSingle (-2) 2 2 2) = false /\
  valid_config (w_unet 8 (2 # 1) 8 2 true 2) (get_head MSingle 0 2 2 2) = false /\
  valid_config (w_unet 8 (2 # 1) 8 2 true 2) (get_head MBottomUp 2 0 2 2) = false /\
  valid_config (w_unet 8 (2 # 1) 8 2 true 2) (get_head MBottomUp 2 1 2 2) = true.
Proof. exact ex_degenerate_invalid. Qed.
