(* Props.v (C11) — statements only; proofs live in C11/Lemmas.v.

   Part 1 (this file, proved once): soundness of the alias-certificate checker
   of C11/AliasIR.v with respect to the heap semantics `exec`.  On every run
   translator/c11_alias2coq.py regenerates the AliasIR programs of the data
   helpers and Dataset methods from the repository's source, and
   Gen/C11_Oblig.v (generated, compiled per run) contains one obligation
   `accepted_<f> : fn_accepted fn_<f> = true` (vm_compute) per accepted target
   and the instance `pure_<f>` of `fn_accepted_sound` below; for a target the
   checker rejects it contains instead `refuted_<f>`, an instance of
   `refute_check_sound` (a concrete execution of the generated program in
   which a pre-existing object changes), when a refuting script is found.

   All theorems quantify over every heap, argument list, branch choice, loop
   count, written value and stopping point: no size bound. *)
From Coq Require Import String.
From Coq Require Import List Arith NArith ZArith Bool.
Import ListNotations.
From SV Require Import C11.AliasIR C11.Values C11.Lemmas C11.LemmasV.

(* --- the checker is sound ------------------------------------------------- *)

(* If the certificate (pts, hpts) satisfies the inclusion constraints of p and
   no in-place write goes through a variable that may hold a pre-existing
   object, then no execution of p changes any object that existed before the
   call — in particular none reachable from a parameter (labels, cached
   sample dicts and their tensors). *)
Theorem no_param_write_sound : forall pts hpts p,
  closed pts hpts p = true -> no_param_write pts p = true ->
  forall args h e' h', wf_heap h -> args_in args h -> exec args p ([], h) (e', h') ->
  forall o, o < length h -> nth_error h' o = nth_error h o.
Proof. exact no_param_write_sound_l. Qed.
Print Assumptions no_param_write_sound.

Theorem params_unchanged : forall pts hpts p,
  closed pts hpts p = true -> no_param_write pts p = true ->
  forall args h e' h', wf_heap h -> args_in args h -> exec args p ([], h) (e', h') ->
  forall i a o, nth_error args i = Some a -> reach h a o -> nth_error h' o = nth_error h o.
Proof. exact params_unchanged_l. Qed.
Print Assumptions params_unchanged.

(* per-function form used by the generated obligations *)
Theorem fn_accepted_sound : forall f, fn_accepted f = true ->
  forall args h e' h', wf_heap h -> args_in args h -> exec args (f_body f) ([], h) (e', h') ->
  forall o, o < length h -> nth_error h' o = nth_error h o.
Proof. exact fn_accepted_sound_l. Qed.
Print Assumptions fn_accepted_sound.

(* What a variable (e.g. the returned value) holds at the end is either a new
   object from a site the certificate lists for it, or a pre-existing object
   reachable from a parameter the certificate lists for it: the "result
   aliases argument i" facts observed dynamically must be among these. *)
Theorem var_alias_sound : forall pts hpts p,
  closed pts hpts p = true -> no_param_write pts p = true ->
  forall args h e' h', wf_heap h -> args_in args h -> exec args p ([], h) (e', h') ->
  forall x o, elookup e' x = Some o ->
    (o < length h /\ exists i a, In (AParam i) (pts x) /\ nth_error args i = Some a /\ reach h a o) \/
    (length h <= o /\ exists c, nth_error h' o = Some c /\ In (ASite (c_site c)) (pts x)).
Proof. exact var_alias_sound_l. Qed.
Print Assumptions var_alias_sound.

Theorem ref_alias_sound : forall pts hpts p,
  closed pts hpts p = true -> no_param_write pts p = true ->
  forall args h e' h', wf_heap h -> args_in args h -> exec args p ([], h) (e', h') ->
  forall x o c o', elookup e' x = Some o -> nth_error h' o = Some c -> In o' (c_refs c) ->
  o' < length h ->
  exists r i a, In r (pts x) /\ In (AParam i) (hp hpts r) /\ nth_error args i = Some a /\ reach h a o'.
Proof. exact ref_alias_sound_l. Qed.
Print Assumptions ref_alias_sound.

(* --- the checker and the semantics are not vacuous -------------------------- *)

(* `x = p[...]; x[...] = fresh` : the semantics has an execution that changes
   the parameter, and no certificate makes the checker accept it *)
Theorem write_through_changes_param :
  exists h args e' h' o, wf_heap h /\ args_in args h /\ exec args p_write_through ([], h) (e', h') /\
    (exists a, nth_error args 0 = Some a /\ reach h a o) /\ nth_error h' o <> nth_error h o.
Proof. exact write_through_changes_param_l. Qed.
Print Assumptions write_through_changes_param.

Theorem write_through_rejected : forall pts hpts,
  closed pts hpts p_write_through = true -> no_param_write pts p_write_through = false.
Proof. exact write_through_rejected_l. Qed.
Print Assumptions write_through_rejected.

(* --- refutations of rejected programs ---------------------------------------- *)

(* script-guided runs are executions of the heap semantics *)
Theorem srun_sound : forall fuel args p sc st sc' st',
  srun fuel args p sc st = Some (sc', st') -> exec args p st st'.
Proof. exact srun_sound_l. Qed.
Print Assumptions srun_sound.

(* a successful refute_check (evaluated by vm_compute per run on the generated
   program of a rejected target) is a counterexample to purity *)
Theorem refute_check_sound : forall fuel p h args sc o, refute_check fuel p h args sc o = true ->
  exists e' h', wf_heap h /\ args_in args h /\ exec args p ([], h) (e', h') /\
                o < length h /\ nth_error h' o <> nth_error h o.
Proof. exact refute_check_sound_l. Qed.
Print Assumptions refute_check_sound.

Theorem refuted_not_accepted : forall fuel p h args sc o pts hpts,
  refute_check fuel p h args sc o = true -> check pts hpts p = false.
Proof. exact refuted_not_accepted_l. Qed.
Print Assumptions refuted_not_accepted.

(* --- history independence ------------------------------------------------------ *)

(* If a read leaves the state (cache) as it was — which is what acceptance of
   __getitem__ gives for every cached object — then after ANY sequence of
   earlier reads `pre`, reading index i returns exactly what reading i on the
   initial state returns. *)
Theorem history_independent : forall (S A : Type) (read : S -> nat -> S * A),
  (forall s i, fst (read s i) = s) ->
  forall pre post s i,
  nth_error (snd (run_hist S A read s (pre ++ i :: post))) (length pre) = Some (snd (read s i)).
Proof. exact history_independent_l. Qed.
Print Assumptions history_independent.

(* --- value level: centroids, "missing stays missing" (F5) ----------------------- *)

(* generate_centroids as the code is (fixed = false: the bbox midpoint is
   written through the anchor view into the caller's keypoints) and with the
   proposed one-line repair (fixed = true). *)

(* full statement, REFUTED for the code as it is: a missing anchor keypoint of
   a non-empty instance is overwritten in the caller's tensor *)
Theorem generate_centroids_preserves_input_refuted :
  exists anchor inst, snd (gen_centroid false anchor inst) <> inst.
Proof. exact gen_centroid_unfixed_refuted. Qed.
Print Assumptions generate_centroids_preserves_input_refuted.

Theorem missing_stays_missing_refuted :
  exists anchor inst k, nth k inst None = None /\
                        nth k (snd (gen_centroid false anchor inst)) None <> None.
Proof. exact missing_stays_missing_unfixed_refuted. Qed.
Print Assumptions missing_stays_missing_refuted.

(* strongest true statement for the code as it is: outside the selector
   (anchor given, anchor keypoint missing, instance not empty) the input is
   untouched *)
Theorem generate_centroids_preserves_input_partial : forall anchor inst,
  selector_F5 anchor inst = false -> snd (gen_centroid false anchor inst) = inst.
Proof. exact gen_centroid_unfixed_partial. Qed.
Print Assumptions generate_centroids_preserves_input_partial.

(* with the repair: for every anchor choice and every instance *)
Theorem generate_centroids_preserves_input_fixed : forall anchor inst,
  snd (gen_centroid true anchor inst) = inst.
Proof. exact gen_centroid_fixed_preserves. Qed.
Print Assumptions generate_centroids_preserves_input_fixed.

(* the centroid itself is the same in both versions: the anchor if labelled,
   else the bbox midpoint of the labelled keypoints, missing iff the instance is empty *)
Theorem centroid_value_same : forall anchor inst,
  fst (gen_centroid false anchor inst) = fst (gen_centroid true anchor inst).
Proof. exact gen_centroid_value_same. Qed.
Print Assumptions centroid_value_same.

Theorem centroid_missing_iff_empty : forall fixed anchor inst,
  fst (gen_centroid fixed anchor inst) = None <-> all_missing inst = true.
Proof. exact centroid_missing_iff_empty_l. Qed.
Print Assumptions centroid_missing_iff_empty.

(* missing stays missing through the derived samples (scaling, crop offset):
   a keypoint that is None in the labels is None in `instances` / `instance`
   of the sample, for every dataset flavour, scale, offset and anchor, when
   generate_centroids does not write (fixed) or outside the selector *)
Theorem missing_stays_missing_fixed : forall anchor scale off (inst : instance) k,
  nth k inst None = None ->
  nth k (sample_instance true anchor scale off inst) None = None.
Proof. exact missing_stays_missing_fixed_l. Qed.
Print Assumptions missing_stays_missing_fixed.

Theorem missing_stays_missing_partial : forall anchor scale off (inst : instance) k,
  selector_F5 anchor inst = false -> nth k inst None = None ->
  nth k (sample_instance false anchor scale off inst) None = None.
Proof. exact missing_stays_missing_partial_l. Qed.
Print Assumptions missing_stays_missing_partial.

(* and nothing is dropped either: same length, labelled stays labelled *)
Theorem sample_instance_length : forall fixed anchor scale off inst,
  length (sample_instance fixed anchor scale off inst) = length inst.
Proof. exact sample_instance_length_l. Qed.
Print Assumptions sample_instance_length.

(* dataset length = number of non-empty instances (centered-instance) /
   frames with at least one (the other three); empty instances give no sample *)
Theorem centered_len_counts_nonempty : forall frames,
  length (instance_idx_list frames) = count_nonempty_instances frames.
Proof. exact centered_len_counts_nonempty_l. Qed.
Print Assumptions centered_len_counts_nonempty.

Theorem instance_idx_list_sound : forall frames f i,
  In (f, i) (instance_idx_list frames) <->
  exists fr inst, nth_error frames f = Some fr /\ nth_error fr i = Some inst /\ all_missing inst = false.
Proof. exact instance_idx_list_sound_l. Qed.
Print Assumptions instance_idx_list_sound.

Theorem frame_idx_list_sound : forall frames f,
  In f (lf_idx_list frames) <->
  exists fr, nth_error frames f = Some fr /\ existsb (fun inst => negb (all_missing inst)) fr = true.
Proof. exact frame_idx_list_sound_l. Qed.
Print Assumptions frame_idx_list_sound.

(* non-vacuity *)
Example ex_selector_hit : selector_F5 (Some 0) [None; Some (QArith_base.Qmake 4%Z 1%positive, QArith_base.Qmake 6%Z 1%positive)] = true.
Proof. reflexivity. Qed.
Example ex_selector_miss : selector_F5 (Some 1) [None; Some (QArith_base.Qmake 4%Z 1%positive, QArith_base.Qmake 6%Z 1%positive)] = false.
Proof. reflexivity. Qed.
