(* Props.v (C11) — statements only; proofs live in C11/Lemmas.v.

   Part 1 (this file, proved once): soundness of the alias-certificate checker
   of C11/AliasIR.v with respect to the heap semantics `exec`.  On every run
   translator/c11_alias2coq.py regenerates the AliasIR programs of the data
   helpers and Dataset methods from the repository's source, and
   Gen/C11_Oblig.v (generated, compiled per run) contains one obligation
   `accepted_<f> : fn_accepted fn_<f> = true` (vm_compute) per accepted target
   and the instance `pure_<f>` of `fn_accepted_sound` below; for a target the
   checker rejects it contains instead `refuted_<f>`, an instance of
   `refute_check_sound` (a concrete execution of the generated program in
   which a pre-existing object changes), when a refuting script is found.

   All theorems quantify over every heap, argument list, branch choice, loop
   count, written value and stopping point: no size bound. *)
From Coq Require Import String.
From Coq Require Import List Arith NArith ZArith Bool.
Import ListNotations.
From SV Require Import C11.AliasIR C11.Values C11.Lemmas C11.LemmasV.
From SV Require Import C11.History C11.LemmasH C11.Dataset C11.LemmasD.
From SV Require Import C11.Chunks C11.LemmasC.

(* --- the checker is sound ------------------------------------------------- *)

(* If the certificate (pts, hpts) satisfies the inclusion constraints of p and
   no in-place write goes through a variable that may hold a pre-existing
   object, then no execution of p changes any object that existed before the
   call — in particular none reachable from a parameter (labels, cached
   sample dicts and their tensors). *)
Theorem no_param_write_sound : forall pts hpts p,
  closed pts hpts p = true -> no_param_write pts p = true ->
  forall args h e' h', wf_heap h -> args_in args h -> exec args p ([], h) (e', h') ->
  forall o, o < length h -> nth_error h' o = nth_error h o.
Proof. exact no_param_write_sound_l. Qed.
Print Assumptions no_param_write_sound.

Theorem params_unchanged : forall pts hpts p,
  closed pts hpts p = true -> no_param_write pts p = true ->
  forall args h e' h', wf_heap h -> args_in args h -> exec args p ([], h) (e', h') ->
  forall i a o, nth_error args i = Some a -> reach h a o -> nth_error h' o = nth_error h o.
Proof. exact params_unchanged_l. Qed.
Print Assumptions params_unchanged.

(* per-function form used by the generated obligations *)
Theorem fn_accepted_sound : forall f, fn_accepted f = true ->
  forall args h e' h', wf_heap h -> args_in args h -> exec args (f_body f) ([], h) (e', h') ->
  forall o, o < length h -> nth_error h' o = nth_error h o.
Proof. exact fn_accepted_sound_l. Qed.
Print Assumptions fn_accepted_sound.

(* What a variable (e.g. the returned value) holds at the end is either a new
   object from a site the certificate lists for it, or a pre-existing object
   reachable from a parameter the certificate lists for it: the "result
   aliases argument i" facts observed dynamically must be among these. *)
Theorem var_alias_sound : forall pts hpts p,
  closed pts hpts p = true -> no_param_write pts p = true ->
  forall args h e' h', wf_heap h -> args_in args h -> exec args p ([], h) (e', h') ->
  forall x o, elookup e' x = Some o ->
    (o < length h /\ exists i a, In (AParam i) (pts x) /\ nth_error args i = Some a /\ reach h a o) \/
    (length h <= o /\ exists c, nth_error h' o = Some c /\ In (ASite (c_site c)) (pts x)).
Proof. exact var_alias_sound_l. Qed.
Print Assumptions var_alias_sound.

Theorem ref_alias_sound : forall pts hpts p,
  closed pts hpts p = true -> no_param_write pts p = true ->
  forall args h e' h', wf_heap h -> args_in args h -> exec args p ([], h) (e', h') ->
  forall x o c o', elookup e' x = Some o -> nth_error h' o = Some c -> In o' (c_refs c) ->
  o' < length h ->
  exists r i a, In r (pts x) /\ In (AParam i) (hp hpts r) /\ nth_error args i = Some a /\ reach h a o'.
Proof. exact ref_alias_sound_l. Qed.
Print Assumptions ref_alias_sound.

(* --- the checker and the semantics are not vacuous -------------------------- *)

(* `x = p[...]; x[...] = fresh` : the semantics has an execution that changes
   the parameter, and no certificate makes the checker accept it *)
Theorem write_through_changes_param :
  exists h args e' h' o, wf_heap h /\ args_in args h /\ exec args p_write_through ([], h) (e', h') /\
    (exists a, nth_error args 0 = Some a /\ reach h a o) /\ nth_error h' o <> nth_error h o.
Proof. exact write_through_changes_param_l. Qed.
Print Assumptions write_through_changes_param.

Theorem write_through_rejected : forall pts hpts,
  closed pts hpts p_write_through = true -> no_param_write pts p_write_through = false.
Proof. exact write_through_rejected_l. Qed.
Print Assumptions write_through_rejected.

(* --- refutations of rejected programs ---------------------------------------- *)

(* script-guided runs are executions of the heap semantics *)
Theorem srun_sound : forall fuel args p sc st sc' st',
  srun fuel args p sc st = Some (sc', st') -> exec args p st st'.
Proof. exact srun_sound_l. Qed.
Print Assumptions srun_sound.

(* a successful refute_check (evaluated by vm_compute per run on the generated
   program of a rejected target) is a counterexample to purity *)
Theorem refute_check_sound : forall fuel p h args sc o, refute_check fuel p h args sc o = true ->
  exists e' h', wf_heap h /\ args_in args h /\ exec args p ([], h) (e', h') /\
                o < length h /\ nth_error h' o <> nth_error h o.
Proof. exact refute_check_sound_l. Qed.
Print Assumptions refute_check_sound.

Theorem refuted_not_accepted : forall fuel p h args sc o pts hpts,
  refute_check fuel p h args sc o = true -> check pts hpts p = false.
Proof. exact refuted_not_accepted_l. Qed.
Print Assumptions refuted_not_accepted.

(* --- history independence ------------------------------------------------------ *)

(* GENERIC lemma over an arbitrary state type and reader (tied to no translated program; kept as the
   abstract shape of the argument, review finding 3): if a read leaves the state as it was, then after
   ANY sequence of earlier reads `pre`, reading index i returns what reading i on the initial state
   returns.  The statement about the regenerated programs is `same_index_same_sample` below. *)
Theorem history_independent_generic : forall (S A : Type) (read : S -> nat -> S * A),
  (forall s i, fst (read s i) = s) ->
  forall pre post s i,
  nth_error (snd (run_hist S A read s (pre ++ i :: post))) (length pre) = Some (snd (read s i)).
Proof. exact history_independent_l. Qed.
Print Assumptions history_independent_generic.

(* --- value level: centroids, "missing stays missing" (F5) ----------------------- *)

(* generate_centroids on the PINNED tree, before fix 563a1fb (fixed = false: the bbox midpoint is
   written through the anchor view into the caller's keypoints) and on the CURRENT tree (/repo HEAD,
   fixed = true: the anchor slice is cloned).  No code implements fixed = false any more: the
   `_refuted` / `_partial` theorems document the historic defect F5 and keep the check able to report a
   regression (the harness detects the variant by replaying the corpus witness).
   Domain (review finding 2): the code raises IndexError when the anchor is not a node; `gen_centroid`
   is total (bbox midpoint there), so the statements below carry `anchor_domain anchor (length inst)`.

   `generate_centroids_preserves_input_fixed` is a `_def` theorem (review finding 5): gen_centroid true
   returns `inst` by definition; what carries the claim for the code is the per-run `pure_generate_centroids`
   and the `run_centroid` comparison of the caller's keypoints after the call. *)

(* full statement, REFUTED for the pinned tree (before fix 563a1fb): a missing anchor keypoint of
   a non-empty instance is overwritten in the caller's tensor *)
Theorem generate_centroids_preserves_input_refuted :
  exists anchor inst, snd (gen_centroid false anchor inst) <> inst.
Proof. exact gen_centroid_unfixed_refuted. Qed.
Print Assumptions generate_centroids_preserves_input_refuted.

Theorem missing_stays_missing_refuted :
  exists anchor inst k, nth k inst None = None /\
                        nth k (snd (gen_centroid false anchor inst)) None <> None.
Proof. exact missing_stays_missing_unfixed_refuted. Qed.
Print Assumptions missing_stays_missing_refuted.

(* strongest true statement for the pinned tree (before fix 563a1fb): outside the selector
   (anchor given, anchor keypoint missing, instance not empty) the input is
   untouched *)
Theorem generate_centroids_preserves_input_partial : forall anchor inst,
  selector_F5 anchor inst = false -> snd (gen_centroid false anchor inst) = inst.
Proof. exact gen_centroid_unfixed_partial. Qed.
Print Assumptions generate_centroids_preserves_input_partial.

(* current tree (fix 563a1fb): for every anchor choice inside the domain and every instance  [_def] *)
Theorem generate_centroids_preserves_input_fixed : forall anchor inst,
  anchor_domain anchor (length inst) = true ->
  snd (gen_centroid true anchor inst) = inst.
Proof. exact gen_centroid_fixed_preserves_dom_l. Qed.
Print Assumptions generate_centroids_preserves_input_fixed.

(* the centroid itself is the same in both versions: the anchor if labelled,
   else the bbox midpoint of the labelled keypoints, missing iff the instance is empty *)
Theorem centroid_value_same : forall anchor inst,
  fst (gen_centroid false anchor inst) = fst (gen_centroid true anchor inst).
Proof. exact gen_centroid_value_same. Qed.
Print Assumptions centroid_value_same.

Theorem centroid_missing_iff_empty : forall fixed anchor inst,
  anchor_domain anchor (length inst) = true ->
  (fst (gen_centroid fixed anchor inst) = None <-> all_missing inst = true).
Proof. exact centroid_missing_iff_empty_dom_l. Qed.
Print Assumptions centroid_missing_iff_empty.

(* missing stays missing through the derived samples (scaling, crop offset):
   a keypoint that is None in the labels is None in `instances` / `instance`
   of the sample, for every dataset flavour, scale, offset and anchor, when
   generate_centroids does not write (fixed) or outside the selector.
   `sample_instance` is related to the evaluated `centered_sample` by
   `centered_sample_is_sample_instance` below (review finding 4); the on-path forms are
   `centered_sample_missing` / `centered_sample_unfixed_refuted`. *)
Theorem missing_stays_missing_fixed : forall anchor scale off (inst : instance) k,
  nth k inst None = None ->
  nth k (sample_instance true anchor scale off inst) None = None.
Proof. exact missing_stays_missing_fixed_l. Qed.
Print Assumptions missing_stays_missing_fixed.

Theorem missing_stays_missing_partial : forall anchor scale off (inst : instance) k,
  selector_F5 anchor inst = false -> nth k inst None = None ->
  nth k (sample_instance false anchor scale off inst) None = None.
Proof. exact missing_stays_missing_partial_l. Qed.
Print Assumptions missing_stays_missing_partial.

(* and nothing is dropped either: same length, labelled stays labelled *)
Theorem sample_instance_length : forall fixed anchor scale off inst,
  length (sample_instance fixed anchor scale off inst) = length inst.
Proof. exact sample_instance_length_l. Qed.
Print Assumptions sample_instance_length.

(* dataset length = number of non-empty instances (centered-instance) /
   frames with at least one (the other three); empty instances give no sample *)
Theorem centered_len_counts_nonempty : forall frames,
  length (instance_idx_list frames) = count_nonempty_instances frames.
Proof. exact centered_len_counts_nonempty_l. Qed.
Print Assumptions centered_len_counts_nonempty.

Theorem instance_idx_list_sound : forall frames f i,
  In (f, i) (instance_idx_list frames) <->
  exists fr inst, nth_error frames f = Some fr /\ nth_error fr i = Some inst /\ all_missing inst = false.
Proof. exact instance_idx_list_sound_l. Qed.
Print Assumptions instance_idx_list_sound.

Theorem frame_idx_list_sound : forall frames f,
  In f (lf_idx_list frames) <->
  exists fr, nth_error frames f = Some fr /\ existsb (fun inst => negb (all_missing inst)) fr = true.
Proof. exact frame_idx_list_sound_l. Qed.
Print Assumptions frame_idx_list_sound.

(* non-vacuity *)
Example ex_selector_hit : selector_F5 (Some 0) [None; Some (QArith_base.Qmake 4%Z 1%positive, QArith_base.Qmake 6%Z 1%positive)] = true.
Proof. reflexivity. Qed.
Example ex_selector_miss : selector_F5 (Some 1) [None; Some (QArith_base.Qmake 4%Z 1%positive, QArith_base.Qmake 6%Z 1%positive)] = false.
Proof. reflexivity. Qed.

(* ======================================================================== *)
(* --- histories over the heap: the cache is part of the heap ---------------- *)

(* `calls fs h h'`: any sequence of executions of bodies of fs (any dataset's
   __getitem__, any helper), each from the heap the previous one left, with
   any arguments existing at that point.  If every function of fs is accepted
   (per run: `all_accepted` in Gen/C11_Oblig.v for the regenerated programs),
   the heap only grows: every object that existed at the start — the labels,
   the dataset, its cache dict, every cached sample dict and tensor — is
   bit-for-bit what it was, after ANY history. *)
Theorem history_frame : forall fs, Forall (fun f => fn_accepted f = true) fs ->
  forall h h', wf_heap h -> calls fs h h' ->
  forall o, o < length h -> nth_error h' o = nth_error h o.
Proof. exact history_frame_l. Qed.
Print Assumptions history_frame.

Theorem history_extends : forall fs, Forall (fun f => fn_accepted f = true) fs ->
  forall h h', calls fs h h' -> wf_heap h -> wf_heap h' /\ exists extra, h' = h ++ extra.
Proof. exact calls_extend_l. Qed.
Print Assumptions history_extends.

(* ... and so is everything reachable from it, to any depth *)
Theorem history_value : forall fs, Forall (fun f => fn_accepted f = true) fs ->
  forall h h', wf_heap h -> calls fs h h' ->
  forall n o, o < length h -> value n h' o = value n h o.
Proof. exact history_value_l. Qed.
Print Assumptions history_value.

(* a sample handed out by an earlier read is not altered by later reads *)
Theorem earlier_results_stable : forall fs, Forall (fun f => fn_accepted f = true) fs ->
  forall h0 h1 h2, wf_heap h0 -> calls fs h0 h1 -> calls fs h1 h2 ->
  forall n o, o < length h1 -> value n h2 o = value n h1 o.
Proof. exact earlier_results_stable_l. Qed.
Print Assumptions earlier_results_stable.

(* Same index, same sample, as a statement about the accepted program.  `rd`
   is the interpreter's deterministic behaviour on the body of f; the two
   contracts are the trusted base made explicit: (1) what rd does is one of the
   executions of the translated body, (2) objects that cannot be reached from
   the arguments do not influence the value of the result.  Then after any
   history of calls of accepted functions (reads of any index in any order,
   helper calls), the read returns the value it returns on the initial heap. *)
Theorem same_sample_after_calls : forall fs, Forall (fun f => fn_accepted f = true) fs ->
  forall (rd : heap -> list obj -> obj * heap),
  (forall h extra args n, wf_heap h -> wf_heap (h ++ extra) -> args_ok args h ->
     value n (snd (rd (h ++ extra) args)) (fst (rd (h ++ extra) args)) =
     value n (snd (rd h args)) (fst (rd h args))) ->
  forall h h' args n, wf_heap h -> calls fs h h' -> args_ok args h ->
  value n (snd (rd h' args)) (fst (rd h' args)) = value n (snd (rd h args)) (fst (rd h args)).
Proof. exact same_sample_after_calls_l. Qed.
Print Assumptions same_sample_after_calls.

Theorem same_index_same_sample : forall fs, Forall (fun f => fn_accepted f = true) fs ->
  forall f, In f fs ->
  forall (rd : heap -> list obj -> obj * heap),
  (forall h args, wf_heap h -> args_ok args h ->
     exists e', exec args (f_body f) ([], h) (e', snd (rd h args))) ->
  (forall h extra args n, wf_heap h -> wf_heap (h ++ extra) -> args_ok args h ->
     value n (snd (rd (h ++ extra) args)) (fst (rd (h ++ extra) args)) =
     value n (snd (rd h args)) (fst (rd h args))) ->
  forall h pre args n, wf_heap h -> Forall (fun a => args_ok a h) pre -> args_ok args h ->
  let h' := run_reads rd h pre in
  value n (snd (rd h' args)) (fst (rd h' args)) = value n (snd (rd h args)) (fst (rd h args)).
Proof. exact same_index_same_sample_l. Qed.
Print Assumptions same_index_same_sample.

(* review finding 3: contract (1) holds for the script-guided interpreter `rd_of` (History.v) on EVERY
   program, so for any accepted f only locality of the reader remains a hypothesis ... *)
Theorem same_index_same_sample_srun : forall fs, Forall (fun f => fn_accepted f = true) fs ->
  forall f, In f fs -> forall fuel,
  (forall h extra args n, wf_heap h -> wf_heap (h ++ extra) -> args_ok args h ->
     value n (snd (rd_of fuel (f_body f) (f_ret f) (h ++ extra) args))
             (fst (rd_of fuel (f_body f) (f_ret f) (h ++ extra) args)) =
     value n (snd (rd_of fuel (f_body f) (f_ret f) h args)) (fst (rd_of fuel (f_body f) (f_ret f) h args))) ->
  forall h pre args n, wf_heap h -> Forall (fun a => args_ok a h) pre -> args_ok args h ->
  let h' := run_reads (rd_of fuel (f_body f) (f_ret f)) h pre in
  value n (snd (rd_of fuel (f_body f) (f_ret f) h' args)) (fst (rd_of fuel (f_body f) (f_ret f) h' args)) =
  value n (snd (rd_of fuel (f_body f) (f_ret f) h args)) (fst (rd_of fuel (f_body f) (f_ret f) h args)).
Proof. exact same_index_same_sample_srun_l. Qed.
Print Assumptions same_index_same_sample_srun.

(* ... and BOTH contracts are satisfiable: for the accepted program `x = args[0]; return {"k": x}` (a
   reader that allocates and whose result refers to a pre-existing object) the conclusion holds
   unconditionally after any history of reads.  For the regenerated `__getitem__` programs locality is
   NOT proved: the clause "same index, same sample" rests on history_pure (the cache and everything
   reachable from it is unchanged by any history) + the bit-identical re-read oracle. *)
Theorem ex_reader_same_index : forall h pre args n,
  wf_heap h -> Forall (fun a => args_ok a h) pre -> args_ok args h ->
  let rd := rd_of 5 p_reader_ex 1%N in
  let h' := run_reads rd h pre in
  value n (snd (rd h' args)) (fst (rd h' args)) = value n (snd (rd h args)) (fst (rd h args)).
Proof. exact ex_reader_same_index_l. Qed.
Print Assumptions ex_reader_same_index.

Example ex_reader_accepted : fn_accepted f_reader_ex = true.
Proof. exact f_reader_ex_accepted_l. Qed.
Example ex_reader_allocates :
  run_reads (rd_of 5 p_reader_ex 1%N) [mkcell 0%N 3 []] [[0]; [0]] <> [mkcell 0%N 3 []] /\
  value 2 (snd (rd_of 5 p_reader_ex 1%N [mkcell 0%N 3 []] [0])) (fst (rd_of 5 p_reader_ex 1%N [mkcell 0%N 3 []] [0]))
  = Node 0 [Node 3 []].
Proof. exact ex_reader_allocates_l. Qed.

(* non-vacuity, and the shallow-copy pitfall: with
     sample = self.cache[index].copy(); sample["instance"] -= point
   the semantics has an execution after which the value of `self` (dataset ->
   cache -> cached dict -> tensor) differs, and NO certificate is accepted;
   with the rebinding the code has (`sample["instance"] = sample["instance"] - point`)
   a certificate is accepted *)
Theorem cached_entry_augassign_changes_cache :
  exists e' h', wf_heap cache_heap /\ args_ok [0] cache_heap /\
    exec [0] p_cached_entry_augassign ([], cache_heap) (e', h') /\
    reach cache_heap 0 3 /\ value 4 h' 0 <> value 4 cache_heap 0.
Proof. exact cached_entry_augassign_changes_cache_l. Qed.
Print Assumptions cached_entry_augassign_changes_cache.

Theorem cached_entry_augassign_rejected : forall pts hpts,
  closed pts hpts p_cached_entry_augassign = true ->
  no_param_write pts p_cached_entry_augassign = false.
Proof. exact cached_entry_augassign_rejected_l. Qed.
Print Assumptions cached_entry_augassign_rejected.

Example ex_cached_entry_rebind_accepted : check pts_rebind hpts_rebind p_cached_entry_rebind = true.
Proof. exact cached_entry_rebind_accepted_l. Qed.

(* ======================================================================== *)
(* --- which label instances become samples (Dataset.v) ----------------------- *)

(* the user-instance filter is idempotent: _get_lf_idx_list, _get_instance_idx_list
   and process_lf all apply it to the same frame object, in any order, any number of times *)
Theorem rebind_idem : forall uo fr, rebind uo (rebind uo fr) = rebind uo fr.
Proof. exact rebind_idem_l. Qed.
Print Assumptions rebind_idem.

Theorem rebind_users : forall fr, existsb li_user fr = true -> rebind true fr = filter li_user fr.
Proof. exact rebind_users_l. Qed.
Print Assumptions rebind_users.

Theorem rebind_no_users : forall uo fr, existsb li_user fr = false -> rebind uo fr = fr.
Proof. exact rebind_no_users_l. Qed.
Print Assumptions rebind_no_users.

(* --- F110: what the CALLER'S labels hold after a dataset was built over them ----------------

   Property, first sentence: "Building and reading training data never changes the labels."
   `lf.instances = lf.user_instances` (providers.process_lf, BaseDataset._get_lf_idx_list,
   CenteredInstanceDataset._get_instance_idx_list) is a store into the caller's LabeledFrame:
   `labels_after false` (pinned tree, before fix 8c4b3a1 of finding F110; historic) is `map (rebind uo)`,
   `labels_after true` is the CURRENT tree (fix 8c4b3a1 = proposed_fixes/C11_F110.diff).  The harness detects the variant by replaying
   corpus/C11/F110_*.json and compares the instance lists of the real label objects after
   construction with this model (run_ds2 / run_frame_after). *)

(* full statement, REFUTED for the pinned tree (before fix 8c4b3a1; no code implements it any more): a predicted instance next to a user instance is
   dropped from the caller's frame *)
Theorem labels_unchanged_refuted : exists uo frames, labels_after false uo frames <> frames.
Proof. exact labels_unchanged_refuted_l. Qed.
Print Assumptions labels_unchanged_refuted.

(* the selector is EXACT: the store changes a frame iff user_instances_only and the frame holds both a
   user and a predicted instance; then the frame loses at least one (predicted) instance *)
Theorem rebind_changes_iff : forall uo fr, rebind uo fr <> fr <-> selector_F110 uo fr = true.
Proof. exact rebind_changes_iff_l. Qed.
Print Assumptions rebind_changes_iff.

Theorem rebind_drops : forall uo fr, selector_F110 uo fr = true ->
  (length (rebind uo fr) < length fr)%nat /\
  (forall li, In li (rebind uo fr) -> li_user li = true) /\
  exists li, In li fr /\ li_user li = false /\ ~ In li (rebind uo fr).
Proof. exact rebind_drops_l. Qed.
Print Assumptions rebind_drops.

Theorem labels_changed_iff : forall uo frames,
  labels_after false uo frames <> frames <-> exists fr, In fr frames /\ selector_F110 uo fr = true.
Proof. exact labels_changed_iff_l. Qed.
Print Assumptions labels_changed_iff.

(* strongest true statement for the pinned tree (before fix 8c4b3a1): outside the selector the labels are untouched *)
Theorem labels_unchanged_partial : forall uo frames,
  (forall fr, In fr frames -> selector_F110 uo fr = false) -> labels_after false uo frames = frames.
Proof. exact labels_unchanged_partial_l. Qed.
Print Assumptions labels_unchanged_partial.

(* with the proposed repair [_def: labels_after true is the identity by definition; the claim for the
   code is the per-run acceptance of the regenerated programs + the instance-list snapshot] *)
Theorem labels_unchanged_fixed : forall uo frames, labels_after true uo frames = frames.
Proof. exact labels_unchanged_fixed_l. Qed.
Print Assumptions labels_unchanged_fixed.

(* consequence inside the property ("sample is a function of labels and index"): a SECOND dataset built
   over the same label objects.  It selects the same frames and instances (the filter is idempotent) ... *)
Theorem second_dataset_same_selection : forall b uo frames,
  ds_frames uo (labels_after b uo frames) = ds_frames uo frames.
Proof. exact ds_frames_after_l. Qed.
Print Assumptions second_dataset_same_selection.

Theorem second_dataset_centered_same : forall b fixed anchor uo s frames k,
  centered_sample fixed anchor uo s (labels_after b uo frames) k = centered_sample fixed anchor uo s frames k.
Proof. exact second_dataset_centered_same_l. Qed.
Print Assumptions second_dataset_centered_same.

(* ... but max_instances is recomputed over the altered labels and can only shrink: REFUTED that the
   frame-level samples are the same (fewer all-NaN padding rows) *)
Theorem second_dataset_max_instances_le : forall b uo frames,
  (max_instances (labels_after b uo frames) <= max_instances frames)%nat.
Proof. exact max_instances_after_le_l. Qed.
Print Assumptions second_dataset_max_instances_le.

Theorem second_dataset_frame_sample_refuted : exists uo s frames k,
  frame_sample uo s (labels_after false uo frames) k <> frame_sample uo s frames k.
Proof. exact second_dataset_frame_sample_refuted_l. Qed.
Print Assumptions second_dataset_frame_sample_refuted.

(* strongest true statements: equal samples when max_instances is unchanged (in particular outside the
   selector, and always with the repair); in general same num_instances, same label rows, the rest padding *)
Theorem second_dataset_frame_sample_partial : forall b uo s frames k,
  max_instances (labels_after b uo frames) = max_instances frames ->
  frame_sample uo s (labels_after b uo frames) k = frame_sample uo s frames k.
Proof. exact second_dataset_frame_sample_partial_l. Qed.
Print Assumptions second_dataset_frame_sample_partial.

Theorem second_dataset_frame_rows : forall b uo s frames k rows1 n1 rows2 n2,
  frame_sample uo s frames k = Some (rows1, n1) ->
  frame_sample uo s (labels_after b uo frames) k = Some (rows2, n2) ->
  n2 = n1 /\ (forall j, (j < n1)%nat -> nth_error rows2 j = nth_error rows1 j) /\
  (forall j row, (n1 <= j)%nat -> nth_error rows2 j = Some row -> all_missing row = true).
Proof. exact second_dataset_frame_rows_l. Qed.
Print Assumptions second_dataset_frame_rows.

Example ex_selector_F110 :
  selector_F110 true [mklinst false [None]; mklinst true [None]] = true /\
  selector_F110 true [mklinst true [None]; mklinst true [None]] = false /\
  selector_F110 true [mklinst false [None]] = false /\
  selector_F110 false [mklinst false [None]; mklinst true [None]] = false.
Proof. repeat split; reflexivity. Qed.

(* no instance is invented *)
Theorem considered_from_labels : forall uo fr inst, In inst (considered uo fr) ->
  exists li, In li fr /\ li_pts li = inst.
Proof. exact considered_from_labels_l. Qed.
Print Assumptions considered_from_labels.

(* Domain (review finding 2): `providers.process_lf` raises (np.stack of an empty list) on a frame
   without a non-empty considered instance; Dataset.process_lf is total.  The theorems carry
   `lf_domain uo fr = true`; the generators also produce frames outside it and the harness checks that
   the code raises exactly there (run_chunk_dom).
   process_lf: num_instances counts the non-empty considered instances; the first
   num_instances rows are those instances in label order (an empty instance in the
   middle of the frame is skipped, not kept); every further row is NaN padding;
   `instances` has max_instances rows *)
Theorem process_lf_num : forall uo maxi fr, lf_domain uo fr = true ->
  snd (process_lf uo maxi fr) = length (filter nonempty (considered uo fr)) /\
  (0 < snd (process_lf uo maxi fr))%nat.
Proof. exact process_lf_num_dom_l. Qed.
Print Assumptions process_lf_num.

Theorem process_lf_row : forall uo maxi fr j, lf_domain uo fr = true ->
  (j < snd (process_lf uo maxi fr))%nat ->
  nth_error (fst (process_lf uo maxi fr)) j = nth_error (filter nonempty (considered uo fr)) j.
Proof. exact process_lf_row_dom_l. Qed.
Print Assumptions process_lf_row.

(* a padding row is all-NaN and as wide as the first (non-empty) label row *)
Theorem process_lf_pad : forall uo maxi fr j row, lf_domain uo fr = true ->
  (snd (process_lf uo maxi fr) <= j)%nat ->
  nth_error (fst (process_lf uo maxi fr)) j = Some row ->
  all_missing row = true /\
  exists r0, nth_error (fst (process_lf uo maxi fr)) 0 = Some r0 /\ nonempty r0 = true /\ length row = length r0.
Proof. exact process_lf_pad_dom_l. Qed.

(* what the TOTALISED definition returns where the code raises: model only, no code behaviour *)
Theorem process_lf_outside_domain_model_only : forall uo maxi fr, lf_domain uo fr = false ->
  process_lf uo maxi fr = (if Nat.eqb maxi 1 then [] else repeat [] (absdiff maxi 0), 0%nat).
Proof. exact process_lf_outside_domain_model_only_l. Qed.
Print Assumptions process_lf_outside_domain_model_only.

(* the datasets call process_lf only inside its domain *)
Theorem frame_sample_in_domain : forall uo frames k f,
  nth_error (lf_idx_list (ds_frames uo frames)) k = Some f ->
  lf_domain uo (rebind uo (nth f frames [])) = true.
Proof. exact frame_sample_in_domain_l. Qed.
Print Assumptions frame_sample_in_domain.
Print Assumptions process_lf_pad.

Theorem num_le_max_instances : forall uo frames fr, In fr frames ->
  (snd (process_lf uo (max_instances frames) (rebind uo fr)) <= max_instances frames)%nat.
Proof. exact num_le_max_instances_l. Qed.
Print Assumptions num_le_max_instances.

(* sample k of BottomUp / Centroid / SingleInstance datasets, for every label set,
   user_instances_only, scale and k *)
Theorem frame_sample_defined : forall uo s frames k,
  (k < length (lf_idx_list (ds_frames uo frames)))%nat <-> frame_sample uo s frames k <> None.
Proof. exact frame_sample_defined_l. Qed.
Print Assumptions frame_sample_defined.

Theorem frame_sample_rows : forall uo s frames k rows n,
  frame_sample uo s frames k = Some (rows, n) ->
  exists f, nth_error (lf_idx_list (ds_frames uo frames)) k = Some f /\ (f < length frames)%nat /\
    let labs := filter nonempty (considered uo (nth f frames [])) in
    n = length labs /\ (0 < n)%nat /\
    (forall j lab, nth_error labs j = Some lab -> nth_error rows j = Some (map (scale_kp s) lab)) /\
    (forall j row, (n <= j)%nat -> nth_error rows j = Some row -> all_missing row = true).
Proof. exact frame_sample_rows_l. Qed.
Print Assumptions frame_sample_rows.

(* a keypoint of a sample row is missing exactly when the label keypoint is *)
Theorem scaled_missing_iff : forall s (inst : instance) k,
  nth k (map (scale_kp s) inst) None = None <-> nth k inst None = None.
Proof. exact scaled_missing_iff_l. Qed.
Print Assumptions scaled_missing_iff.

Theorem frame_sample_width : forall uo s frames k rows n,
  frame_sample uo s frames k = Some (rows, n) -> Nat.eqb (max_instances frames) 1 = false ->
  length rows = max_instances frames.
Proof. exact frame_sample_width_l. Qed.
Print Assumptions frame_sample_width.

Theorem frame_len : forall uo frames,
  length (lf_idx_list (ds_frames uo frames)) =
  length (filter (fun fr => existsb nonempty (considered uo fr)) frames).
Proof. exact frame_len_l. Qed.
Print Assumptions frame_len.

(* SingleInstanceDataset in both variants (C18 F181; `fixedS` detected per run from `ds.max_instances`):
   fixedS = false pads like the other frame-level classes [_def: single_sample false = frame_sample];
   fixedS = true uses max_instances = 1.  The row theorem holds for BOTH values; without padding the sample
   holds exactly the label rows, and a second dataset over the same labels returns identical samples *)
Theorem single_sample_unfixed : forall uo s frames k,
  single_sample false uo s frames k = frame_sample uo s frames k.
Proof. exact single_sample_unfixed_l. Qed.
Print Assumptions single_sample_unfixed.

Theorem single_sample_defined : forall fixedS uo s frames k,
  (k < length (lf_idx_list (ds_frames uo frames)))%nat <-> single_sample fixedS uo s frames k <> None.
Proof. exact single_sample_defined_l. Qed.
Print Assumptions single_sample_defined.

Theorem single_sample_rows : forall fixedS uo s frames k rows n,
  single_sample fixedS uo s frames k = Some (rows, n) ->
  exists f, nth_error (lf_idx_list (ds_frames uo frames)) k = Some f /\ (f < length frames)%nat /\
    let labs := filter nonempty (considered uo (nth f frames [])) in
    n = length labs /\ (0 < n)%nat /\
    (forall j lab, nth_error labs j = Some lab -> nth_error rows j = Some (map (scale_kp s) lab)) /\
    (forall j row, (n <= j)%nat -> nth_error rows j = Some row -> all_missing row = true).
Proof. exact single_sample_rows_l. Qed.
Print Assumptions single_sample_rows.

Theorem single_sample_fixed_no_padding : forall uo s frames k rows n,
  single_sample true uo s frames k = Some (rows, n) -> length rows = n.
Proof. exact single_sample_fixed_no_padding_l. Qed.
Print Assumptions single_sample_fixed_no_padding.

Theorem single_sample_unfixed_pads : exists uo s frames k rows n,
  single_sample false uo s frames k = Some (rows, n) /\ length rows <> n.
Proof. exact single_sample_unfixed_pads_l. Qed.
Print Assumptions single_sample_unfixed_pads.

Theorem second_dataset_single_same : forall b uo s frames k,
  single_sample true uo s (labels_after b uo frames) k = single_sample true uo s frames k.
Proof. exact second_dataset_single_same_l. Qed.
Print Assumptions second_dataset_single_same.

(* CenteredInstanceDataset: sample k is cut around the k-th non-empty considered
   instance — the row `_fill_cache` takes from the stacked (rebound) frame is the
   instance `_get_instance_idx_list` enumerated (one index space) *)
Theorem centered_source_is_indexed_instance : forall uo frames k,
  (k < length (instance_idx_list (ds_frames uo frames)))%nat ->
  exists f i inst, nth_error (instance_idx_list (ds_frames uo frames)) k = Some (f, i) /\
    (f < length frames)%nat /\
    centered_source uo frames k = Some inst /\
    nth_error (considered uo (nth f frames [])) i = Some inst /\ nonempty inst = true.
Proof. exact centered_source_l. Qed.
Print Assumptions centered_source_is_indexed_instance.

Theorem centered_sample_defined : forall fixed anchor uo s frames k,
  (k < length (instance_idx_list (ds_frames uo frames)))%nat <->
  centered_sample fixed anchor uo s frames k <> None.
Proof. exact centered_sample_defined_l. Qed.
Print Assumptions centered_sample_defined.

Theorem centered_sample_fixed : forall anchor uo s frames k c kept,
  centered_sample true anchor uo s frames k = Some (c, kept) ->
  exists f i inst, nth_error (instance_idx_list (ds_frames uo frames)) k = Some (f, i) /\
    nth_error (considered uo (nth f frames [])) i = Some inst /\ nonempty inst = true /\
    kept = map (scale_kp s) inst /\ c <> None.
Proof. exact centered_sample_fixed_l. Qed.
Print Assumptions centered_sample_fixed.

(* review finding 4: Values.sample_instance (the subject of the missing_stays_missing theorems) IS what the
   evaluated centered_sample keeps, up to the crop offset ... *)
Theorem centered_sample_is_sample_instance : forall fixed anchor uo s frames k c kept,
  centered_sample fixed anchor uo s frames k = Some (c, kept) ->
  exists inst, centered_source uo frames k = Some inst /\
    c = fst (gen_centroid fixed anchor (map (scale_kp s) inst)) /\
    forall off, sample_instance fixed anchor s off inst = map (shift_kp off) kept.
Proof. exact centered_sample_is_sample_instance_l. Qed.
Print Assumptions centered_sample_is_sample_instance.

(* ... and missing stays missing ON the evaluated path for both variants of generate_centroids: the
   current tree (fixed = true), or the pinned tree (before fix 563a1fb) outside selector_F5 *)
Theorem centered_sample_missing : forall fixed anchor uo s frames k c kept inst,
  centered_sample fixed anchor uo s frames k = Some (c, kept) ->
  centered_source uo frames k = Some inst ->
  fixed = true \/ selector_F5 anchor inst = false ->
  kept = map (scale_kp s) inst /\
  forall j, nth j kept None = None <-> nth j inst None = None.
Proof. exact centered_sample_missing_l. Qed.
Print Assumptions centered_sample_missing.

Theorem centered_sample_unfixed_refuted : exists anchor uo s frames k c kept inst j,
  centered_sample false anchor uo s frames k = Some (c, kept) /\
  centered_source uo frames k = Some inst /\ selector_F5 anchor inst = true /\
  nth j inst None = None /\ nth j kept None <> None.
Proof. exact centered_sample_unfixed_refuted_l. Qed.
Print Assumptions centered_sample_unfixed_refuted.

(* lengths: one sample per non-empty considered instance; with user_instances_only
   and a user instance in every frame, per non-empty USER instance *)
Theorem centered_len_considered : forall uo frames,
  length (instance_idx_list (ds_frames uo frames)) =
  list_sum (map (fun fr => length (filter nonempty (considered uo fr))) frames).
Proof. exact centered_len_considered_l. Qed.
Print Assumptions centered_len_considered.

Theorem centered_len_user : forall frames,
  (forall fr, In fr frames -> existsb li_user fr = true) ->
  length (instance_idx_list (ds_frames true frames)) = count_user_nonempty frames.
Proof. exact centered_len_user_l. Qed.
Print Assumptions centered_len_user.

(* non-vacuity: a frame [predicted P; empty user; user U1; user U2], user_instances_only *)
Definition ex_p : instance := [Some (QArith_base.Qmake 9%Z 1%positive, QArith_base.Qmake 9%Z 1%positive)].
Definition ex_u1 : instance := [Some (QArith_base.Qmake 1%Z 1%positive, QArith_base.Qmake 2%Z 1%positive)].
Definition ex_u2 : instance := [Some (QArith_base.Qmake 3%Z 1%positive, QArith_base.Qmake 4%Z 1%positive)].
Definition ex_frames : list lframe :=
  [[mklinst false ex_p; mklinst true [None]; mklinst true ex_u1; mklinst true ex_u2]].
Example ex_frame_sample :
  frame_sample true (QArith_base.Qmake 1%Z 1%positive) ex_frames 0 <> None /\
  snd (process_lf true (max_instances ex_frames) (nth 0 ex_frames [])) = 2%nat /\
  length (fst (process_lf true (max_instances ex_frames) (nth 0 ex_frames []))) = 4%nat.
Proof. split; [vm_compute; discriminate|split; reflexivity]. Qed.
Example ex_centered_index_space :
  instance_idx_list (ds_frames true ex_frames) = [(0, 1); (0, 2)]%nat /\
  centered_source true ex_frames 1 = Some ex_u2 /\ count_user_nonempty ex_frames = 2%nat.
Proof. repeat split; reflexivity. Qed.

(* ======================================================================== *)
(* --- the litdata chunk functions (Chunks.v, round 3) ------------------------ *)

(* Domain (review finding 2): every chunk function starts with process_lf, which raises on a frame
   without a non-empty considered instance; centroid_/centered_instance_data_chunks also raise when the
   anchor is not a node.  Chunks.v is total, so the theorems carry `lf_domain` / `chunk_anchor_domain`
   (both evaluated against the code per run through `run_chunk_dom`); `centroid_chunk_keeps_instances` is
   a `_def`-style consequence of gen_centroid true (review finding 5).
   what a chunk sample holds of the labelled frame, for every frame of the domain, user_instances_only,
   max_instances and eff_scale: num_instances counts the non-empty considered instances; row j
   below it is the j-th of them in label order, every keypoint multiplied by eff_scale and missing
   ones still missing (scaled_missing_iff); every further row is all-NaN padding *)
Theorem chunk_base_rows : forall uo maxi eff fr, lf_domain uo fr = true ->
  let labs := filter nonempty (considered uo fr) in
  let b := chunk_base uo maxi eff fr in
  snd b = length labs /\ (0 < snd b)%nat /\
  (forall j lab, nth_error labs j = Some lab -> nth_error (fst b) j = Some (map (scale_kp eff) lab)) /\
  (forall j row, (snd b <= j)%nat -> nth_error (fst b) j = Some row -> all_missing row = true).
Proof. exact chunk_base_rows_dom_l. Qed.
Print Assumptions chunk_base_rows.

(* bottomup_data_chunks / single_instance_data_chunks (max_instances = 1): x eff_scale x scale *)
Theorem bottomup_chunk_rows : forall uo maxi eff s fr, lf_domain uo fr = true ->
  let labs := filter nonempty (considered uo fr) in
  let b := bottomup_chunk uo maxi eff s fr in
  snd b = length labs /\ (0 < snd b)%nat /\
  (forall j lab, nth_error labs j = Some lab ->
     nth_error (fst b) j = Some (map (scale_kp s) (map (scale_kp eff) lab))) /\
  (forall j row, (snd b <= j)%nat -> nth_error (fst b) j = Some row -> all_missing row = true).
Proof. exact bottomup_chunk_rows_dom_l. Qed.
Print Assumptions bottomup_chunk_rows.

(* centroid_data_chunks: computing the centroids and rescaling them leaves the `instances` of the
   sample exactly as chunk_base_rows describes them — for every anchor choice, every scale, with
   or without padding rows, anchors present or not (generate_centroids as repaired) *)
Theorem centroid_chunk_keeps_instances : forall anchor uo maxi eff s fr,
  lf_domain uo fr = true -> chunk_anchor_domain anchor uo fr = true ->
  fst (centroid_chunk true anchor uo maxi eff s fr) = chunk_base uo maxi eff fr.
Proof. exact centroid_chunk_keeps_instances_dom_l. Qed.
Print Assumptions centroid_chunk_keeps_instances.

Theorem centroid_chunk_unfixed_refuted : exists anchor uo maxi eff s fr,
  fst (centroid_chunk false anchor uo maxi eff s fr) <> chunk_base uo maxi eff fr.
Proof. exact centroid_chunk_unfixed_refuted_l. Qed.
Print Assumptions centroid_chunk_unfixed_refuted.

(* centroid j = scale x centroid of row j (anchor keypoint, else bbox midpoint of the labelled
   keypoints); it is missing exactly for rows without a labelled keypoint (the padding) *)
Theorem centroid_chunk_centroids : forall fixed anchor uo maxi eff s fr j,
  lf_domain uo fr = true -> chunk_anchor_domain anchor uo fr = true ->
  nth_error (snd (centroid_chunk fixed anchor uo maxi eff s fr)) j =
  option_map (fun row => scale_kp s (fst (gen_centroid fixed anchor row)))
             (nth_error (fst (chunk_base uo maxi eff fr)) j).
Proof. exact centroid_chunk_centroids_dom_l. Qed.
Print Assumptions centroid_chunk_centroids.

Theorem centroid_chunk_missing_iff : forall fixed anchor uo maxi eff s fr j row c,
  lf_domain uo fr = true -> chunk_anchor_domain anchor uo fr = true ->
  nth_error (fst (chunk_base uo maxi eff fr)) j = Some row ->
  nth_error (snd (centroid_chunk fixed anchor uo maxi eff s fr)) j = Some c ->
  (c = None <-> all_missing row = true).
Proof. exact centroid_chunk_missing_iff_dom_l. Qed.
Print Assumptions centroid_chunk_missing_iff.

(* centered_instance_data_chunks: one crop per non-empty considered instance, in label order,
   holding that label's keypoints x eff_scale, cut around its own (present) centroid *)
Theorem centered_chunk_crops : forall anchor uo maxi eff fr,
  lf_domain uo fr = true -> chunk_anchor_domain anchor uo fr = true ->
  let labs := filter nonempty (considered uo fr) in
  let cs := centered_chunk true anchor uo maxi eff fr in
  length cs = length labs /\ (0 < length cs)%nat /\
  (forall j lab, nth_error labs j = Some lab ->
     exists c, nth_error cs j = Some (c, map (scale_kp eff) lab) /\ c <> None /\
               c = fst (gen_centroid true anchor (map (scale_kp eff) lab))).
Proof. exact centered_chunk_dom_l. Qed.
Print Assumptions centered_chunk_crops.

Example ex_centroid_chunk :
  centroid_chunk true (Some 1%nat) true 2 (QArith_base.Qmake 1%Z 1%positive) (QArith_base.Qmake 1%Z 2%positive)
    [mklinst true [None; Some (QArith_base.Qmake 4%Z 1%positive, QArith_base.Qmake 6%Z 1%positive)];
     mklinst true [Some (QArith_base.Qmake 2%Z 1%positive, QArith_base.Qmake 2%Z 1%positive);
                   Some (QArith_base.Qmake 8%Z 1%positive, QArith_base.Qmake 2%Z 1%positive)]]
  <> (([], 0%nat), []) /\
  length (centered_chunk true (Some 1%nat) true 2 (QArith_base.Qmake 1%Z 1%positive)
    [mklinst true [None; Some (QArith_base.Qmake 4%Z 1%positive, QArith_base.Qmake 6%Z 1%positive)];
     mklinst true [None; None]]) = 1%nat.
Proof. split; [vm_compute; discriminate|reflexivity]. Qed.
Example ex_chunk_domain :
  lf_domain true [mklinst true [None; Some (QArith_base.Qmake 4%Z 1%positive, QArith_base.Qmake 6%Z 1%positive)];
                  mklinst false [None; None]] = true /\
  chunk_anchor_domain (Some 1%nat) true
    [mklinst true [None; Some (QArith_base.Qmake 4%Z 1%positive, QArith_base.Qmake 6%Z 1%positive)]] = true /\
  lf_domain true [mklinst true [None; None];
                  mklinst false [Some (QArith_base.Qmake 1%Z 1%positive, QArith_base.Qmake 1%Z 1%positive); None]] = false /\
  chunk_anchor_domain (Some 2%nat) true
    [mklinst true [None; Some (QArith_base.Qmake 4%Z 1%positive, QArith_base.Qmake 6%Z 1%positive)]] = false.
Proof. repeat split; reflexivity. Qed.

(* ---- round 5: the DERIVED targets carry every labelled keypoint of the sample and nothing else ----
   (the value of a live channel - a unit peak at the keypoint - is C01's theorem; C11 states which
   channels are live and evaluates both on every sample of every dataset) *)
Theorem frame_sample_channel_live : forall uo s frames k rows n,
  frame_sample uo s frames k = Some (rows, n) ->
  exists f, nth_error (lf_idx_list (ds_frames uo frames)) k = Some f /\
    forall j, channel_live rows j = true <->
      exists inst, In inst (considered uo (nth f frames [])) /\ nth j inst None <> None.
Proof. exact frame_sample_channel_live_l. Qed.
Print Assumptions frame_sample_channel_live.

(* padding rows and the NaN rows of other animals never switch a channel off or on *)
Theorem process_lf_channel_live : forall uo maxi fr j,
  channel_live (fst (process_lf uo maxi fr)) j = channel_live (considered uo fr) j.
Proof. exact process_lf_channel_live_l. Qed.
Print Assumptions process_lf_channel_live.

Theorem channel_live_iff : forall rows j,
  channel_live rows j = true <-> exists inst, In inst rows /\ nth j inst None <> None.
Proof. exact channel_live_iff_l. Qed.
Print Assumptions channel_live_iff.

(* per-row channels (SingleInstanceDataset, CenteredInstanceDataset): scaling keeps the flag *)
Theorem node_labelled_scale : forall s j inst, node_labelled j (map (scale_kp s) inst) = node_labelled j inst.
Proof. exact node_labelled_scale_l. Qed.
Print Assumptions node_labelled_scale.

Theorem multi_channels_nth : forall nodes rows j, (j < nodes)%nat ->
  nth j (multi_channels nodes rows) false = channel_live rows j.
Proof. exact multi_channels_nth_l. Qed.
Print Assumptions multi_channels_nth.

(* two animals with complementary NaN patterns: node 0 only in A, node 1 only in B, node 2 in neither *)
Example ex_channel_live_complementary :
  multi_channels 3
    [[Some (QArith_base.Qmake 1%Z 1%positive, QArith_base.Qmake 2%Z 1%positive); None; None];
     [None; Some (QArith_base.Qmake 3%Z 1%positive, QArith_base.Qmake 4%Z 1%positive); None];
     nan_row 3] = [true; true; false].
Proof. reflexivity. Qed.
