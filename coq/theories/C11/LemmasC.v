(* LemmasC.v (C11) — proofs about the chunk-function value model (C11/Chunks.v). *)
From Coq Require Import List Arith ZArith QArith Bool Lia.
Import ListNotations.
From SV Require Import C11.Values C11.LemmasV C11.Dataset C11.LemmasD C11.Chunks.

Lemma nth_error_scale_rows : forall s rows j,
  nth_error (scale_rows s rows) j = option_map (map (scale_kp s)) (nth_error rows j).
Proof. intros. unfold scale_rows. apply nth_error_map'. Qed.

(* the label rows of a chunk sample: num_instances = number of non-empty considered instances; row j
   below it is the j-th of them (label order) with every keypoint multiplied by eff_scale, missing
   ones stay missing; every further row is all-NaN padding.  Nothing else is in the sample. *)
Lemma chunk_base_rows_l : forall uo maxi eff fr,
  let labs := filter nonempty (considered uo fr) in
  let b := chunk_base uo maxi eff fr in
  snd b = length labs /\
  (forall j lab, nth_error labs j = Some lab -> nth_error (fst b) j = Some (map (scale_kp eff) lab)) /\
  (forall j row, (snd b <= j)%nat -> nth_error (fst b) j = Some row -> all_missing row = true).
Proof.
  intros uo maxi eff fr labs b. unfold b, chunk_base. cbn [fst snd]. split; [apply process_lf_num_l|]. split.
  - intros j lab H. rewrite nth_error_scale_rows.
    assert (Hj : (j < snd (process_lf uo maxi fr))%nat).
    { rewrite process_lf_num_l. apply nth_error_Some. unfold labs in H. congruence. }
    rewrite (process_lf_row_l uo maxi fr j Hj). unfold labs in H. rewrite H. reflexivity.
  - intros j row Hle H. rewrite nth_error_scale_rows in H.
    destruct (nth_error (fst (process_lf uo maxi fr)) j) as [r|] eqn:E; [|discriminate].
    simpl in H. inversion H; subst. rewrite all_missing_scale. eapply process_lf_pad_l; eauto.
Qed.

Lemma bottomup_chunk_rows_l : forall uo maxi eff s fr,
  let labs := filter nonempty (considered uo fr) in
  let b := bottomup_chunk uo maxi eff s fr in
  snd b = length labs /\
  (forall j lab, nth_error labs j = Some lab ->
     nth_error (fst b) j = Some (map (scale_kp s) (map (scale_kp eff) lab))) /\
  (forall j row, (snd b <= j)%nat -> nth_error (fst b) j = Some row -> all_missing row = true).
Proof.
  intros uo maxi eff s fr labs b. destruct (chunk_base_rows_l uo maxi eff fr) as [Hn [Hr Hp]].
  unfold b, bottomup_chunk. cbn [fst snd]. split; [exact Hn|]. split.
  - intros j lab H. rewrite nth_error_scale_rows, (Hr j lab H). reflexivity.
  - intros j row Hle H. rewrite nth_error_scale_rows in H.
    destruct (nth_error (fst (chunk_base uo maxi eff fr)) j) as [r|] eqn:E; [|discriminate].
    simpl in H. inversion H; subst. rewrite all_missing_scale. eapply Hp; eauto.
Qed.

Lemma map_snd_gen_centroid_fixed : forall anchor rows,
  map snd (map (gen_centroid true anchor) rows) = rows.
Proof.
  intros. rewrite map_map. rewrite <- (map_id rows) at 2. apply map_ext.
  intros. apply gen_centroid_fixed_preserves.
Qed.

(* computing the centroids and bringing them to the resized image leaves `instances` as they
   were: whatever the anchor, the scale and the NaN pattern (the code as repaired, fixed = true) *)
Lemma centroid_chunk_keeps_instances_l : forall anchor uo maxi eff s fr,
  fst (centroid_chunk true anchor uo maxi eff s fr) = chunk_base uo maxi eff fr.
Proof.
  intros. unfold centroid_chunk. cbn [fst]. rewrite map_snd_gen_centroid_fixed.
  destruct (chunk_base uo maxi eff fr); reflexivity.
Qed.

Lemma centroid_chunk_centroids_l : forall fixed anchor uo maxi eff s fr j,
  nth_error (snd (centroid_chunk fixed anchor uo maxi eff s fr)) j =
  option_map (fun row => scale_kp s (fst (gen_centroid fixed anchor row)))
             (nth_error (fst (chunk_base uo maxi eff fr)) j).
Proof.
  intros. unfold centroid_chunk. cbn [snd]. rewrite map_map. apply nth_error_map'.
Qed.

Lemma scale_kp_none_iff : forall s k, scale_kp s k = None <-> k = None.
Proof. intros s [[x y]|]; simpl; split; congruence. Qed.

(* a centroid is missing exactly for the rows without any labelled keypoint (the padding rows) *)
Lemma centroid_chunk_missing_iff_l : forall fixed anchor uo maxi eff s fr j row c,
  nth_error (fst (chunk_base uo maxi eff fr)) j = Some row ->
  nth_error (snd (centroid_chunk fixed anchor uo maxi eff s fr)) j = Some c ->
  (c = None <-> all_missing row = true).
Proof.
  intros fixed anchor uo maxi eff s fr j row c Hr Hc.
  rewrite centroid_chunk_centroids_l, Hr in Hc. simpl in Hc. inversion Hc; subst.
  rewrite scale_kp_none_iff. apply centroid_missing_iff_empty_l.
Qed.

Lemma firstn_map_nth_error : forall A B (g : A -> B) n l j, (j < n)%nat ->
  nth_error (firstn n (map g l)) j = option_map g (nth_error l j).
Proof.
  intros A B g n. induction n as [|n IH]; intros l j Hj; [lia|].
  destruct l as [|a t]; simpl.
  - destruct j; reflexivity.
  - destruct j as [|j]; simpl; [reflexivity|]. apply IH. lia.
Qed.

Lemma process_lf_rows_ge : forall uo maxi fr,
  (length (filter nonempty (considered uo fr)) <= length (fst (process_lf uo maxi fr)))%nat.
Proof.
  intros. unfold process_lf. cbn [fst]. destruct (Nat.eqb maxi 1); [lia|].
  rewrite app_length. lia.
Qed.

(* one crop per non-empty considered instance, in label order, cut around the centroid of
   THAT instance; the keypoints kept are the label's x eff_scale *)
Lemma centered_chunk_l : forall anchor uo maxi eff fr,
  let labs := filter nonempty (considered uo fr) in
  let cs := centered_chunk true anchor uo maxi eff fr in
  length cs = length labs /\
  (forall j lab, nth_error labs j = Some lab ->
     exists c, nth_error cs j = Some (c, map (scale_kp eff) lab) /\ c <> None /\
               c = fst (gen_centroid true anchor (map (scale_kp eff) lab))).
Proof.
  intros anchor uo maxi eff fr labs cs. pose proof (process_lf_rows_ge uo maxi fr) as Hlen.
  destruct (chunk_base_rows_l uo maxi eff fr) as [Hn [Hr _]].
  unfold cs, centered_chunk. split.
  - rewrite firstn_length, map_length, Hn.
    unfold chunk_base, scale_rows. cbn [fst]. rewrite map_length.
    unfold labs in *. apply Nat.min_l. exact Hlen.
  - intros j lab H.
    assert (Hj : (j < snd (chunk_base uo maxi eff fr))%nat).
    { rewrite Hn. apply nth_error_Some. fold labs. congruence. }
    rewrite (firstn_map_nth_error _ _ _ _ _ _ Hj), (Hr j lab H). simpl.
    exists (fst (gen_centroid true anchor (map (scale_kp eff) lab))). split.
    + rewrite (surjective_pairing (gen_centroid true anchor (map (scale_kp eff) lab))) at 1.
      rewrite gen_centroid_fixed_preserves. reflexivity.
    + split; [|reflexivity]. intro E. apply centroid_missing_iff_empty_l in E.
      rewrite all_missing_scale in E.
      apply nth_error_In in H. unfold labs in H. apply filter_In in H. destruct H as [_ Hne].
      unfold nonempty in Hne. rewrite E in Hne. discriminate.
Qed.

(* the unrepaired generate_centroids (fixed = false) altered `instances` in a chunk sample:
   the refutation kept beside the repaired statement *)
Lemma centroid_chunk_unfixed_refuted_l : exists anchor uo maxi eff s fr,
  fst (centroid_chunk false anchor uo maxi eff s fr) <> chunk_base uo maxi eff fr.
Proof.
  exists (Some 0%nat), true, 1%nat, 1%Q, 1%Q, [mklinst true [None; Some (4 # 1, 6 # 1)]].
  vm_compute. intro H. discriminate.
Qed.

Lemma ex_centroid_chunk_w :
  centroid_chunk true (Some 1%nat) true 2 1 (1 # 2)
    [mklinst true [None; Some (4 # 1, 6 # 1)]; mklinst true [Some (2 # 1, 2 # 1); Some (8 # 1, 2 # 1)]]
  = (([[None; Some (4 * 1, 6 * 1)]; [Some (2 * 1, 2 * 1); Some (8 * 1, 2 * 1)]], 2%nat),
     [Some (4 * 1 * (1 # 2), 6 * 1 * (1 # 2)); Some (8 * 1 * (1 # 2), 2 * 1 * (1 # 2))])%Q.
Proof. vm_compute. reflexivity. Qed.

(* ------------------------------------------ inside the domain (review finding 2) -- *)

Lemma lf_domain_pos : forall uo fr, lf_domain uo fr = true ->
  (0 < length (filter nonempty (considered uo fr)))%nat.
Proof. intros uo fr H. apply existsb_filter_pos. exact H. Qed.

(* what the TOTALISED model does where the code raises (np.stack of an empty list): no label row,
   zero-node padding rows.  Model only: no code behaviour corresponds to it. *)
Lemma process_lf_outside_domain_model_only_l : forall uo maxi fr, lf_domain uo fr = false ->
  process_lf uo maxi fr = (if Nat.eqb maxi 1 then [] else repeat [] (absdiff maxi 0), 0%nat).
Proof.
  intros uo maxi fr H. unfold process_lf.
  assert (E : filter nonempty (considered uo fr) = []).
  { unfold lf_domain in H. induction (considered uo fr) as [|a t IH]; simpl in *; auto.
    destruct (nonempty a); simpl in *; [discriminate|auto]. }
  rewrite E. simpl. destruct (Nat.eqb maxi 1); reflexivity.
Qed.

Lemma process_lf_num_dom_l : forall uo maxi fr, lf_domain uo fr = true ->
  snd (process_lf uo maxi fr) = length (filter nonempty (considered uo fr)) /\
  (0 < snd (process_lf uo maxi fr))%nat.
Proof. intros uo maxi fr H. rewrite process_lf_num_l. split; [reflexivity|apply lf_domain_pos; exact H]. Qed.

Lemma process_lf_row_dom_l : forall uo maxi fr j, lf_domain uo fr = true ->
  (j < snd (process_lf uo maxi fr))%nat ->
  nth_error (fst (process_lf uo maxi fr)) j = nth_error (filter nonempty (considered uo fr)) j.
Proof. intros uo maxi fr j _. apply process_lf_row_l. Qed.

Lemma process_lf_pad_dom_l : forall uo maxi fr j row, lf_domain uo fr = true ->
  (snd (process_lf uo maxi fr) <= j)%nat ->
  nth_error (fst (process_lf uo maxi fr)) j = Some row ->
  all_missing row = true /\
  exists r0, nth_error (fst (process_lf uo maxi fr)) 0 = Some r0 /\ nonempty r0 = true /\ length row = length r0.
Proof.
  intros uo maxi fr j row D Hle Hn. split; [eapply process_lf_pad_l; eauto|].
  pose proof (lf_domain_pos uo fr D) as P. unfold process_lf in *. cbn [fst snd] in *.
  destruct (filter nonempty (considered uo fr)) as [|r0 t] eqn:E; [simpl in P; lia|].
  assert (Hne : nonempty r0 = true).
  { assert (In r0 (filter nonempty (considered uo fr))) by (rewrite E; left; reflexivity).
    apply filter_In in H. tauto. }
  exists r0. destruct (Nat.eqb maxi 1).
  - split; [reflexivity|]. split; auto. apply nth_error_None in Hle. congruence.
  - split; [reflexivity|]. split; auto.
    rewrite nth_error_app2 in Hn by exact Hle. apply nth_error_In in Hn. apply repeat_spec in Hn.
    subst row. unfold nan_row. apply repeat_length.
Qed.

Lemma chunk_base_rows_dom_l : forall uo maxi eff fr, lf_domain uo fr = true ->
  let labs := filter nonempty (considered uo fr) in
  let b := chunk_base uo maxi eff fr in
  snd b = length labs /\ (0 < snd b)%nat /\
  (forall j lab, nth_error labs j = Some lab -> nth_error (fst b) j = Some (map (scale_kp eff) lab)) /\
  (forall j row, (snd b <= j)%nat -> nth_error (fst b) j = Some row -> all_missing row = true).
Proof.
  intros uo maxi eff fr D labs b. destruct (chunk_base_rows_l uo maxi eff fr) as [Hn [Hr Hp]].
  split; [exact Hn|]. split; [|split; assumption].
  unfold b. rewrite Hn. apply lf_domain_pos. exact D.
Qed.

Lemma bottomup_chunk_rows_dom_l : forall uo maxi eff s fr, lf_domain uo fr = true ->
  let labs := filter nonempty (considered uo fr) in
  let b := bottomup_chunk uo maxi eff s fr in
  snd b = length labs /\ (0 < snd b)%nat /\
  (forall j lab, nth_error labs j = Some lab ->
     nth_error (fst b) j = Some (map (scale_kp s) (map (scale_kp eff) lab))) /\
  (forall j row, (snd b <= j)%nat -> nth_error (fst b) j = Some row -> all_missing row = true).
Proof.
  intros uo maxi eff s fr D labs b. destruct (bottomup_chunk_rows_l uo maxi eff s fr) as [Hn [Hr Hp]].
  split; [exact Hn|]. split; [|split; assumption].
  unfold b. rewrite Hn. apply lf_domain_pos. exact D.
Qed.

Lemma centroid_chunk_keeps_instances_dom_l : forall anchor uo maxi eff s fr,
  lf_domain uo fr = true -> chunk_anchor_domain anchor uo fr = true ->
  fst (centroid_chunk true anchor uo maxi eff s fr) = chunk_base uo maxi eff fr.
Proof. intros anchor uo maxi eff s fr _ _. apply centroid_chunk_keeps_instances_l. Qed.

Lemma centroid_chunk_centroids_dom_l : forall fixed anchor uo maxi eff s fr j,
  lf_domain uo fr = true -> chunk_anchor_domain anchor uo fr = true ->
  nth_error (snd (centroid_chunk fixed anchor uo maxi eff s fr)) j =
  option_map (fun row => scale_kp s (fst (gen_centroid fixed anchor row)))
             (nth_error (fst (chunk_base uo maxi eff fr)) j).
Proof. intros fixed anchor uo maxi eff s fr j _ _. apply centroid_chunk_centroids_l. Qed.

Lemma centroid_chunk_missing_iff_dom_l : forall fixed anchor uo maxi eff s fr j row c,
  lf_domain uo fr = true -> chunk_anchor_domain anchor uo fr = true ->
  nth_error (fst (chunk_base uo maxi eff fr)) j = Some row ->
  nth_error (snd (centroid_chunk fixed anchor uo maxi eff s fr)) j = Some c ->
  (c = None <-> all_missing row = true).
Proof. intros fixed anchor uo maxi eff s fr j row c _ _. apply centroid_chunk_missing_iff_l. Qed.

Lemma centered_chunk_dom_l : forall anchor uo maxi eff fr,
  lf_domain uo fr = true -> chunk_anchor_domain anchor uo fr = true ->
  let labs := filter nonempty (considered uo fr) in
  let cs := centered_chunk true anchor uo maxi eff fr in
  length cs = length labs /\ (0 < length cs)%nat /\
  (forall j lab, nth_error labs j = Some lab ->
     exists c, nth_error cs j = Some (c, map (scale_kp eff) lab) /\ c <> None /\
               c = fst (gen_centroid true anchor (map (scale_kp eff) lab))).
Proof.
  intros anchor uo maxi eff fr D _ labs cs. destruct (centered_chunk_l anchor uo maxi eff fr) as [Hn Hr].
  split; [exact Hn|]. split; [|exact Hr]. unfold cs. rewrite Hn. apply lf_domain_pos. exact D.
Qed.

(* the datasets call process_lf only inside its domain: every frame of lf_idx_list has a non-empty
   considered instance (so the dataset-level theorems never rest on the totalisation) *)
Lemma frame_sample_in_domain_l : forall uo frames k f,
  nth_error (lf_idx_list (ds_frames uo frames)) k = Some f ->
  lf_domain uo (rebind uo (nth f frames [])) = true.
Proof.
  intros uo frames k f E.
  assert (Hin : In f (lf_idx_list (ds_frames uo frames))) by (eapply nth_error_In; eauto).
  apply frame_idx_list_sound_l in Hin. destruct Hin as [fr [Hfr Hex]].
  destruct (ds_frames_nth _ _ _ _ Hfr) as [-> _]. unfold lf_domain. rewrite considered_rebind. exact Hex.
Qed.

Lemma ex_chunk_domain_w :
  lf_domain true [mklinst true [None; Some (4 # 1, 6 # 1)]; mklinst false [None; None]] = true /\
  chunk_anchor_domain (Some 1%nat) true [mklinst true [None; Some (4 # 1, 6 # 1)]] = true /\
  lf_domain true [mklinst true [None; None]; mklinst false [Some (1, 1); None]] = false /\
  chunk_anchor_domain (Some 2%nat) true [mklinst true [None; Some (4 # 1, 6 # 1)]] = false.
Proof. repeat split; reflexivity. Qed.
