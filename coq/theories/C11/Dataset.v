(* Dataset.v (C11) — value-level model of how the datasets of
   sleap_nn/data/custom_datasets.py select and lay out label instances
   (definitions only; executable).

   A frame holds user-labelled and predicted instances (`li_user`).
     rebind uo fr      `if user_instances_only: if lf.user_instances: lf.instances = lf.user_instances`
                       (_get_lf_idx_list, _get_instance_idx_list, process_lf all do it; the CALLER'S
                       frame object keeps the filtered list afterwards: finding F110, `labels_after`
                       below; with proposed_fixes/C11_F110.diff the filtered list is a local and
                       `rebind` is only what the dataset considers)
     considered uo fr  the keypoint arrays of the frame's instances after that filter
     max_instances     providers.get_max_instances: max len(lf.instances) over the frames
                       BEFORE any filtering (BaseDataset.__init__ computes it first)
     process_lf        providers.process_lf: the non-empty considered instances in order,
                       padded with all-NaN rows to max_instances (not when max_instances = 1),
                       and num_instances
     frame_sample      sample k of BottomUp / Centroid / SingleInstance datasets:
                       frame lf_idx_list[k], process_lf on the (already rebound) frame, * scale
     centered_sample   sample k of CenteredInstanceDataset: (frame, instance) =
                       instance_idx_list[k]; `for inst in lf` stacks ALL instances of the rebound
                       frame (empty ones too), row inst_idx is taken, * scale, generate_centroids *)
From Coq Require Import List Arith ZArith QArith Bool.
Import ListNotations.
From SV Require Import C11.Values.

Record linst := mklinst { li_user : bool; li_pts : instance }.
Definition lframe := list linst.

Definition rebind (uo : bool) (fr : lframe) : lframe :=
  if uo then match filter li_user fr with [] => fr | _ :: _ => filter li_user fr end else fr.

Definition considered (uo : bool) (fr : lframe) : frame := map li_pts (rebind uo fr).

Definition max_instances (frames : list lframe) : nat := list_max (map (@length linst) frames).

Definition absdiff (a b : nat) : nat := ((a - b) + (b - a))%nat.

Definition nan_row (nodes : nat) : instance := repeat None nodes.

Definition process_lf (uo : bool) (maxi : nat) (fr : lframe) : list instance * nat :=
  let rows := filter nonempty (considered uo fr) in
  let n := length rows in
  let nodes := match rows with r :: _ => length r | [] => O end in
  (if Nat.eqb maxi 1 then rows else (rows ++ repeat (nan_row nodes) (absdiff maxi n))%list, n).

Definition scale_rows (s : Q) (rows : list instance) : list instance := map (map (scale_kp s)) rows.

Definition ds_frames (uo : bool) (frames : list lframe) : list frame := map (considered uo) frames.

Definition frame_sample (uo : bool) (s : Q) (frames : list lframe) (k : nat)
  : option (list instance * nat) :=
  match nth_error (lf_idx_list (ds_frames uo frames)) k with
  | None => None
  | Some f =>
      let r := process_lf uo (max_instances frames) (rebind uo (nth f frames [])) in
      Some (scale_rows s (fst r), snd r)
  end.

(* SingleInstanceDataset (finding C18 F181): fixedS = false  the class pads to get_max_instances(labels) like
   the other frame-level classes (tree before fix 30d1c17, e.g. afd312c: single_sample false = frame_sample);
   fixedS = true  `self.max_instances = 1` in SingleInstanceDataset.__init__ (CURRENT tree, fix 30d1c17): process_lf adds no NaN padding row.  The harness detects the variant by reading
   `ds.max_instances` of a SingleInstanceDataset built over a two-instance frame. *)
Definition frame_sample_m (maxi : nat) (uo : bool) (s : Q) (frames : list lframe) (k : nat)
  : option (list instance * nat) :=
  match nth_error (lf_idx_list (ds_frames uo frames)) k with
  | None => None
  | Some f =>
      let r := process_lf uo maxi (rebind uo (nth f frames [])) in
      Some (scale_rows s (fst r), snd r)
  end.
Definition single_max_instances (fixedS : bool) (frames : list lframe) : nat :=
  if fixedS then 1%nat else max_instances frames.
Definition single_sample (fixedS uo : bool) (s : Q) (frames : list lframe) (k : nat) :=
  frame_sample_m (single_max_instances fixedS frames) uo s frames k.

Definition centered_source (uo : bool) (frames : list lframe) (k : nat) : option instance :=
  match nth_error (instance_idx_list (ds_frames uo frames)) k with
  | None => None
  | Some (f, i) => nth_error (map li_pts (rebind uo (nth f frames []))) i
  end.

(* (centroid, keypoints kept in the sample), both before the crop offset is subtracted *)
Definition centered_sample (fixed : bool) (anchor : option nat) (uo : bool) (s : Q)
  (frames : list lframe) (k : nat) : option (kp * instance) :=
  match centered_source uo frames k with
  | None => None
  | Some inst => Some (gen_centroid fixed anchor (map (scale_kp s) inst))
  end.

Definition user_nonempty (li : linst) : bool := li_user li && nonempty (li_pts li).
Definition count_user_nonempty (frames : list lframe) : nat :=
  list_sum (map (fun fr => length (filter user_nonempty fr)) frames).

(* ---- what the CALLER'S Labels object holds after a dataset was built over it (finding F110) ----
   fixedL = false  pinned tree (and every tree before fix 8c4b3a1; historic): `lf.instances =
                   lf.user_instances` is a store into the caller's LabeledFrame; `_get_lf_idx_list` /
                   `_get_instance_idx_list` run over every frame in `__init__`, `process_lf` again on
                   every frame it is given: the labels hold `rebind uo fr` for every frame afterwards
                   (`frame_after`: one frame handed to process_lf / a chunk function)
   fixedL = true   proposed_fixes/C11_F110.diff: the filtered list is a local (`get_lf_instances`)
   The harness decides which one the code under check is by replaying the corpus witness.
   `selector_F110 uo fr` = exactly the frames the store changes: user_instances_only and the frame
   holds both a user and a predicted instance (`rebind_changes_iff`). *)
Definition frame_after (fixedL uo : bool) (fr : lframe) : lframe := if fixedL then fr else rebind uo fr.
Definition labels_after (fixedL uo : bool) (frames : list lframe) : list lframe :=
  map (frame_after fixedL uo) frames.

Definition mixed (fr : lframe) : bool :=
  existsb li_user fr && existsb (fun li => negb (li_user li)) fr.
Definition selector_F110 (uo : bool) (fr : lframe) : bool := uo && mixed fr.

(* the domain of process_lf / the chunk functions / generate_centroids (review finding 2): the code
   raises (np.stack([]) in process_lf, IndexError for the anchor slice) outside it; the totalised
   definitions above return rows of zero nodes / the bbox midpoint there, so the theorems about them
   carry these as hypotheses *)
Definition lf_domain (uo : bool) (fr : lframe) : bool := existsb nonempty (considered uo fr).
Definition anchor_domain (anchor : option nat) (nodes : nat) : bool :=
  match anchor with Some a => Nat.ltb a nodes | None => true end.

(* ---- evaluation entry point for the correspondence harness ----
   (fixed, anchor, uo, scale, frames as lists of (is_user, keypoints)) ->
   (lf_idx_list, instance_idx_list, max_instances,
    frame samples in index order, centered samples in index order) *)
Definition of_raw (frames : list (list (bool * instance))) : list lframe :=
  map (map (fun p => mklinst (fst p) (snd p))) frames.

Fixpoint collect {A} (g : nat -> option A) (n : nat) : list A :=
  match n with
  | O => []
  | S m => (collect g m ++ match g m with Some a => [a] | None => [] end)%list
  end.

Definition run_ds (c : bool * option nat * bool * Q * list (list (bool * instance)))
  : (list nat * list (nat * nat) * nat) * (list (list instance * nat) * list (kp * instance)) :=
  let '(fixed, anchor, uo, s, raw) := c in
  let frames := of_raw raw in
  let lfl := lf_idx_list (ds_frames uo frames) in
  let il := instance_idx_list (ds_frames uo frames) in
  ((lfl, il, max_instances frames),
   (collect (frame_sample uo s frames) (length lfl),
    collect (centered_sample fixed anchor uo s frames) (length il))).

(* (fixedL, run_ds case) -> (user flags of the instances each frame of the caller's labels holds after a
   dataset was built over them, run_ds of a SECOND dataset built over those same label objects) *)
Definition to_raw (frames : list lframe) : list (list (bool * instance)) :=
  map (map (fun li => (li_user li, li_pts li))) frames.

Definition run_ds2 (c : bool * (bool * option nat * bool * Q * list (list (bool * instance))))
  : list (list bool) *
    ((list nat * list (nat * nat) * nat) * (list (list instance * nat) * list (kp * instance))) :=
  let '(fixedL, (fixed, anchor, uo, s, raw)) := c in
  let after := labels_after fixedL uo (of_raw raw) in
  (map (map li_user) after, run_ds (fixed, anchor, uo, s, to_raw after)).

(* (fixedL, uo, frame) -> user flags of the instances the caller's frame holds after process_lf / a
   chunk function was called on it *)
Definition run_frame_after (c : bool * bool * list (bool * instance)) : list bool :=
  let '(fixedL, uo, raw) := c in
  map li_user (frame_after fixedL uo (map (fun p => mklinst (fst p) (snd p)) raw)).

(* (fixedS, fixedL, uo, scale, frames) -> SingleInstanceDataset: (max_instances, samples in index order) of a
   dataset over the labels, and of a SECOND dataset built over the same label objects afterwards *)
Definition run_single (c : bool * bool * bool * Q * list (list (bool * instance)))
  : (nat * list (list instance * nat)) * (nat * list (list instance * nat)) :=
  let '(fixedS, fixedL, uo, s, raw) := c in
  let frames := of_raw raw in
  let after := labels_after fixedL uo frames in
  let one := fun fs => (single_max_instances fixedS fs,
                        collect (single_sample fixedS uo s fs) (length (lf_idx_list (ds_frames uo fs)))) in
  (one frames, one after).

(* ---- round 5: which channels of the DERIVED targets of a sample carry a keypoint ----
   confidence_maps.make_multi_confmaps reduces the per-instance maps of a frame with `maximum`, each
   per-instance map having its missing (NaN) nodes zero-filled BEFORE the reduction
   (make_confmaps: `nan_to_num`).  So channel j of a BottomUpDataset sample (and the reduction over the
   centroids of a CentroidDataset sample) is non-zero exactly when SOME row of the sample labels node j:
     node_labelled j inst    node j of one instance is labelled
     channel_live rows j     some row labels node j            (bottom-up channel j / centroid channel)
     multi_channels          the live flags of all channels of a multi-instance sample
     single_channels         SingleInstanceDataset / generate_confmaps: one channel per (row, node)
   The harness reads the same flags off the real samples (`cms[0, j].any()`), next to the value
   clause (a local maximum at the keypoint), for every index of every dataset. *)
Definition node_labelled (j : nat) (inst : instance) : bool := negb (is_missing (nth j inst None)).
Definition channel_live (rows : list instance) (j : nat) : bool := existsb (node_labelled j) rows.
Definition multi_channels (nodes : nat) (rows : list instance) : list bool :=
  map (channel_live rows) (seq 0 nodes).
Definition single_channels (nodes : nat) (rows : list instance) : list bool :=
  flat_map (fun r => map (fun j => node_labelled j r) (seq 0 nodes)) rows.
Definition row_nodes (rows : list instance) : nat := match rows with r :: _ => length r | [] => O end.

(* (fixedS, run_ds case) -> per index: live flags of the channels of the frame-level multi-instance
   sample, of the SingleInstanceDataset sample, and of the centered-instance sample *)
Definition run_presence (c : bool * (bool * option nat * bool * Q * list (list (bool * instance))))
  : list (list bool) * (list (list bool) * list (list bool)) :=
  let '(fixedS, (fixed, anchor, uo, s, raw)) := c in
  let frames := of_raw raw in
  let nl := length (lf_idx_list (ds_frames uo frames)) in
  let il := instance_idx_list (ds_frames uo frames) in
  (map (fun r => multi_channels (row_nodes (fst r)) (fst r)) (collect (frame_sample uo s frames) nl),
   (map (fun r => single_channels (row_nodes (fst r)) (fst r)) (collect (single_sample fixedS uo s frames) nl),
    map (fun r => map (fun k => negb (is_missing k)) (snd r))
        (collect (centered_sample fixed anchor uo s frames) (length il)))).
