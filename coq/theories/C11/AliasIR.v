(* AliasIR.v (C11) — definitions only (no proofs).

   A small imperative IR over "tensor variables", a heap semantics, and a
   flow-insensitive may-alias (points-to) analysis in certificate-checking
   form.  `translator/c11_alias2coq.py` turns the data helpers and the Dataset
   `__getitem__`/`_fill_cache` bodies of /repo into terms of `stmt` on every
   run (Gen/C11_AliasProg.v) together with an UNTRUSTED points-to certificate
   (pts, hpts); `check pts hpts p` is evaluated by vm_compute per run and
   C11/Lemmas.v proves once that an accepted program never changes an object
   that existed before the call.

   Objects.  One kind of heap cell stands for a tensor *storage*, a numpy
   buffer, or a Python container (dict/tuple/list): it has a payload `c_data`
   (the numbers; an arbitrary nat, the analysis never looks at it) and a list
   of references `c_refs` to other objects (the entries of a container; [] for
   a tensor).  A tensor *view* is identified with its storage: a variable that
   holds a view of x holds x's object.  `c_site` is a ghost field: the
   allocation site that created the cell (never read by the semantics).

   Right-hand sides:
     RParam i      the i-th argument of the function
     RFresh s      result of an operation that allocates (clone, arithmetic,
                   stack, cat, zeros, kornia/torchvision functional calls, ...)
     RAlias y      the same object as y (view, permute, squeeze, unsqueeze, T,
                   expand, from_numpy, .numpy(), dict.items(), ...)
     RMaybe s y    y's object or a fresh one (reshape, contiguous, to, float, ...)
     RBox s ys     a new container holding (some of) the objects of ys
     RCopy s y     a new container with the references of y (dict.copy())
     RProj y       y itself (indexing/slicing a tensor gives a view) or one of
                   the objects y refers to (container lookup, attribute,
                   iteration element, tuple unpacking)
   Statements: assignment; in-place mutation `SStore x ys` (x[...] = y,
   x += y, x.op_(y), op(..., out=x), container item assignment / append /
   update: the payload of x's object becomes arbitrary, its references become
   any selection of the old references and the objects of ys); sequence;
   two-way branch (either side); loop (any number of iterations).
   Execution may stop after any statement (exception, return, break). *)
From Coq Require Import String.
From Coq Require Import List Arith NArith Bool.
Import ListNotations.

(* variable and allocation-site identifiers are binary numbers (the generated
   programs have hundreds of them); heap objects and argument positions are nat *)
Definition var := N.
Definition site := N.
Definition obj := nat.

Inductive root := AParam (i : nat) | ASite (s : site).

Inductive rhs :=
| RParam (i : nat)
| RFresh (s : site)
| RAlias (y : var)
| RMaybe (s : site) (y : var)
| RBox (s : site) (ys : list var)
| RCopy (s : site) (y : var)
| RProj (y : var).

Inductive stmt :=
| SSkip
| SAssign (x : var) (r : rhs)
| SStore (x : var) (ys : list var)
| SSeq (a b : stmt)
| SIf (a b : stmt)
| SLoop (a : stmt).

Definition seq_of (l : list stmt) : stmt := fold_right SSeq SSkip l.

(* ---------------------------------------------------------------- heap -- *)

Record cell := mkcell { c_site : site; c_data : nat; c_refs : list obj }.
Definition heap := list cell.
Definition env := list (var * obj).          (* latest binding first *)

Fixpoint elookup (e : env) (x : var) : option obj :=
  match e with
  | [] => None
  | (y, o) :: t => if N.eqb x y then Some o else elookup t x
  end.

Fixpoint upd (h : heap) (o : obj) (c : cell) : heap :=
  match h, o with
  | [], _ => []
  | _ :: t, O => c :: t
  | x :: t, S k => x :: upd t k c
  end.

(* value of a right-hand side: the object it yields and the heap after a
   possible allocation (new objects are appended: obj = index) *)
Inductive eval_rhs (args : list obj) (e : env) (h : heap) : rhs -> obj -> heap -> Prop :=
| ev_param : forall i a, nth_error args i = Some a -> eval_rhs args e h (RParam i) a h
| ev_fresh : forall s d, eval_rhs args e h (RFresh s) (length h) (h ++ [mkcell s d []])%list
| ev_alias : forall y o, elookup e y = Some o -> eval_rhs args e h (RAlias y) o h
| ev_maybe_same : forall s y o, elookup e y = Some o -> eval_rhs args e h (RMaybe s y) o h
| ev_maybe_fresh : forall s y d, eval_rhs args e h (RMaybe s y) (length h) (h ++ [mkcell s d []])%list
| ev_box : forall s ys os d,
    (forall o, In o os -> exists y, In y ys /\ elookup e y = Some o) ->
    eval_rhs args e h (RBox s ys) (length h) (h ++ [mkcell s d os])%list
| ev_copy : forall s y o c d, elookup e y = Some o -> nth_error h o = Some c ->
    eval_rhs args e h (RCopy s y) (length h) (h ++ [mkcell s d (c_refs c)])%list
| ev_proj_self : forall y o, elookup e y = Some o -> eval_rhs args e h (RProj y) o h
| ev_proj_ref : forall y o c o', elookup e y = Some o -> nth_error h o = Some c ->
    In o' (c_refs c) -> eval_rhs args e h (RProj y) o' h.

Inductive exec (args : list obj) : stmt -> env * heap -> env * heap -> Prop :=
| ex_stop : forall s st, exec args s st st        (* exception / return / break / empty loop / skip *)
| ex_assign : forall x r e h o h',
    eval_rhs args e h r o h' -> exec args (SAssign x r) (e, h) ((x, o) :: e, h')
| ex_store : forall x ys e h o c d refs',
    elookup e x = Some o -> nth_error h o = Some c ->
    (forall o', In o' refs' -> In o' (c_refs c) \/ exists y, In y ys /\ elookup e y = Some o') ->
    exec args (SStore x ys) (e, h) (e, upd h o (mkcell (c_site c) d refs'))
| ex_seq : forall a b st st1 st2, exec args a st st1 -> exec args b st1 st2 -> exec args (SSeq a b) st st2
| ex_if_l : forall a b st st1, exec args a st st1 -> exec args (SIf a b) st st1
| ex_if_r : forall a b st st1, exec args b st st1 -> exec args (SIf a b) st st1
| ex_loop : forall a st st1 st2, exec args a st st1 -> exec args (SLoop a) st1 st2 ->
    exec args (SLoop a) st st2.

(* objects reachable from a through references *)
Inductive reach (h : heap) (a : obj) : obj -> Prop :=
| reach_refl : reach h a a
| reach_step : forall o c o', reach h a o -> nth_error h o = Some c -> In o' (c_refs c) -> reach h a o'.

Definition wf_heap (h : heap) : Prop :=
  forall o c, nth_error h o = Some c -> forall o', In o' (c_refs c) -> o' < length h.

(* ------------------------------------------------- the certificate checker -- *)

Definition root_eqb (a b : root) : bool :=
  match a, b with
  | AParam i, AParam j => Nat.eqb i j
  | ASite s, ASite t => N.eqb s t
  | _, _ => false
  end.

Definition mem (r : root) (l : list root) : bool := existsb (root_eqb r) l.
Definition subset (a b : list root) : bool := forallb (fun r => mem r b) a.

(* what the objects represented by r may refer to; everything reachable from a
   parameter is represented by that parameter *)
Definition hp (hpts : root -> list root) (r : root) : list root :=
  match r with AParam _ => r :: hpts r | ASite _ => hpts r end.

Definition closed_rhs (pts : var -> list root) (hpts : root -> list root) (x : var) (r : rhs) : bool :=
  match r with
  | RParam i => mem (AParam i) (pts x)
  | RFresh s => mem (ASite s) (pts x)
  | RAlias y => subset (pts y) (pts x)
  | RMaybe s y => mem (ASite s) (pts x) && subset (pts y) (pts x)
  | RBox s ys => mem (ASite s) (pts x) && forallb (fun y => subset (pts y) (hpts (ASite s))) ys
  | RCopy s y => mem (ASite s) (pts x) &&
                 forallb (fun r => subset (hp hpts r) (hpts (ASite s))) (pts y)
  | RProj y => subset (pts y) (pts x) && forallb (fun r => subset (hp hpts r) (pts x)) (pts y)
  end.

(* the Andersen-style inclusion constraints of every statement hold *)
Fixpoint closed (pts : var -> list root) (hpts : root -> list root) (p : stmt) : bool :=
  match p with
  | SSkip => true
  | SAssign x r => closed_rhs pts hpts x r
  | SStore x ys => forallb (fun r => forallb (fun y => subset (pts y) (hp hpts r)) ys) (pts x)
  | SSeq a b | SIf a b => closed pts hpts a && closed pts hpts b
  | SLoop a => closed pts hpts a
  end.

Definition is_site (r : root) : bool := match r with ASite _ => true | AParam _ => false end.

(* no in-place mutation through a variable that may hold a pre-existing object *)
Fixpoint no_param_write (pts : var -> list root) (p : stmt) : bool :=
  match p with
  | SStore x _ => forallb is_site (pts x)
  | SSeq a b | SIf a b => no_param_write pts a && no_param_write pts b
  | SLoop a => no_param_write pts a
  | _ => true
  end.

Definition check (pts : var -> list root) (hpts : root -> list root) (p : stmt) : bool :=
  closed pts hpts p && no_param_write pts p.

(* ---- diagnostics evaluated per run (facts the dynamic tie must stay inside) -- *)

Fixpoint params_of (l : list root) : list nat :=
  match l with [] => [] | AParam i :: t => i :: params_of t | ASite _ :: t => params_of t end.

(* parameters that some SStore may write *)
Fixpoint written_params (pts : var -> list root) (p : stmt) : list nat :=
  match p with
  | SStore x _ => params_of (pts x)
  | SSeq a b | SIf a b => (written_params pts a ++ written_params pts b)%list
  | SLoop a => written_params pts a
  | _ => []
  end.

(* parameters whose objects the value of x, or anything it refers to (to depth
   `fuel`), may be: breadth-first closure of pts x under hp, each root expanded once *)
Fixpoint diff_new (l seen : list root) : list root :=
  match l with
  | [] => []
  | r :: t => if mem r seen then diff_new t seen else r :: diff_new t (r :: seen)
  end.

Fixpoint closure (hpts : root -> list root) (fuel : nat) (frontier seen : list root) : list root :=
  match fuel with
  | O => seen
  | S f =>
      match frontier with
      | [] => seen
      | _ => let new := diff_new (flat_map (hp hpts) frontier) seen in
             closure hpts f new (new ++ seen)%list
      end
  end.

Definition result_params (pts : var -> list root) (hpts : root -> list root) (fuel : nat) (x : var)
  : list nat :=
  let s := diff_new (pts x) [] in params_of (closure hpts fuel s s).

(* ---- certificates are emitted as association lists ---- *)

Fixpoint assoc_var (m : list (var * list root)) (x : var) : list root :=
  match m with
  | [] => []
  | (y, l) :: t => if N.eqb x y then l else assoc_var t x
  end.

Fixpoint assoc_root (m : list (root * list root)) (r : root) : list root :=
  match m with
  | [] => []
  | (q, l) :: t => if root_eqb r q then l else assoc_root t r
  end.

(* one translated function *)
Record fn := mkfn {
  f_name : string;
  f_nparams : nat;
  f_ret : var;                               (* variable holding the returned value *)
  f_body : stmt;
  f_pts : list (var * list root);            (* certificate *)
  f_hpts : list (root * list root) }.

Definition fn_closed (f : fn) : bool := closed (assoc_var (f_pts f)) (assoc_root (f_hpts f)) (f_body f).
Definition fn_nowrite (f : fn) : bool := no_param_write (assoc_var (f_pts f)) (f_body f).
Definition fn_accepted (f : fn) : bool := fn_closed f && fn_nowrite f.

Fixpoint dedup (l : list nat) : list nat :=
  match l with
  | [] => []
  | x :: t => if existsb (Nat.eqb x) t then dedup t else x :: dedup t
  end.

(* (name, closed, no_param_write, written params, params the result may alias) *)
Definition fn_report (f : fn) : string * (bool * bool) * (list nat * list nat) :=
  (f_name f, (fn_closed f, fn_nowrite f),
   (dedup (written_params (assoc_var (f_pts f)) (f_body f)),
    dedup (result_params (assoc_var (f_pts f)) (assoc_root (f_hpts f)) 6 (f_ret f)))).

(* ---- script-guided deterministic executions ------------------------------
   Used per run to exhibit, for a program the checker REJECTS, a concrete
   execution of the heap semantics in which a pre-existing object changes
   (the script resolves the nondeterminism: branch taken, loop continuation,
   view-or-reference for RProj, same-or-fresh for RMaybe; an exhausted script
   reads as 0).  A store increments the payload, so it is always visible. *)

Definition pick (sc : list nat) : nat * list nat :=
  match sc with [] => (O, []) | c :: t => (c, t) end.

Definition bound_vals (e : env) (ys : list var) : list obj :=
  flat_map (fun y => match elookup e y with Some o => [o] | None => [] end) ys.

Definition seval (args : list obj) (e : env) (h : heap) (r : rhs) (sc : list nat)
  : option (obj * heap * list nat) :=
  match r with
  | RParam i => match nth_error args i with Some a => Some (a, h, sc) | None => None end
  | RFresh s => Some (length h, (h ++ [mkcell s 0 []])%list, sc)
  | RAlias y => match elookup e y with Some o => Some (o, h, sc) | None => None end
  | RMaybe s y =>
      let (c, sc') := pick sc in
      match c with
      | O => match elookup e y with Some o => Some (o, h, sc') | None => None end
      | S _ => Some (length h, (h ++ [mkcell s 0 []])%list, sc')
      end
  | RBox s ys => Some (length h, (h ++ [mkcell s 0 (bound_vals e ys)])%list, sc)
  | RCopy s y =>
      match elookup e y with
      | Some o => match nth_error h o with
                  | Some c => Some (length h, (h ++ [mkcell s 0 (c_refs c)])%list, sc)
                  | None => None end
      | None => None
      end
  | RProj y =>
      let (c, sc') := pick sc in
      match elookup e y with
      | None => None
      | Some o =>
          match c with
          | O => Some (o, h, sc')
          | S k => match nth_error h o with
                   | None => None
                   | Some cl => match nth_error (c_refs cl) k with
                                | Some o' => Some (o', h, sc')
                                | None => Some (o, h, sc') end   (* no such reference: the view *)
                   end
          end
      end
  end.

Fixpoint srun (fuel : nat) (args : list obj) (p : stmt) (sc : list nat) (st : env * heap)
  : option (list nat * (env * heap)) :=
  match fuel with
  | O => None
  | S f =>
      match p with
      | SSkip => Some (sc, st)
      | SAssign x r =>
          let (e, h) := st in
          match seval args e h r sc with
          | Some (o, h', sc') => Some (sc', ((x, o) :: e, h'))
          | None => None
          end
      | SStore x ys =>
          let (e, h) := st in
          match elookup e x with
          | None => None
          | Some o => match nth_error h o with
                      | None => None
                      | Some c => Some (sc, (e, upd h o (mkcell (c_site c) (S (c_data c)) (c_refs c))))
                      end
          end
      | SSeq a b =>
          match srun f args a sc st with
          | Some (sc1, st1) => srun f args b sc1 st1
          | None => None
          end
      | SIf a b =>
          let (c, sc') := pick sc in
          match c with O => srun f args a sc' st | S _ => srun f args b sc' st end
      | SLoop a =>
          let (c, sc') := pick sc in
          match c with
          | O => Some (sc', st)
          | S _ => match srun f args a sc' st with
                   | Some (sc1, st1) => srun f args (SLoop a) sc1 st1
                   | None => None
                   end
          end
      end
  end.

Definition wf_heapb (h : heap) : bool :=
  forallb (fun c => forallb (fun o' => Nat.ltb o' (length h)) (c_refs c)) h.
Definition args_inb (args : list obj) (h : heap) : bool :=
  forallb (fun a => Nat.ltb a (length h)) args.

(* the script drives p from (args, h) to a heap in which the pre-existing
   object o has a different payload *)
Definition refute_check (fuel : nat) (p : stmt) (h : heap) (args : list obj) (sc : list nat) (o : obj) : bool :=
  wf_heapb h && args_inb args h && Nat.ltb o (length h) &&
  match srun fuel args p sc ([], h) with
  | Some (_, (_, h')) =>
      match nth_error h' o, nth_error h o with
      | Some c', Some c => negb (Nat.eqb (c_data c') (c_data c))
      | _, _ => false
      end
  | None => false
  end.

(* canonical start heap for n arguments: argument i is object i, and
   i -> n+i -> 2n+i -> 3n+i is a private chain of references (three levels of
   container lookup: self -> cache -> sample dict -> tensor) *)
Definition start_heap (n : nat) : heap :=
  (map (fun k => mkcell 0%N 0 [n + k]) (seq 0 (3 * n)) ++ map (fun _ => mkcell 0%N 0 []) (seq 0 n))%list.
Definition start_args (n : nat) : list obj := seq 0 n.
