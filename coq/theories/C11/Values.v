(* Values.v (C11) — value-level executable model (definitions only).

   Keypoints are `option (Q*Q)`: None = missing (NaN, NaN) as sleap-io stores
   an unlabelled node.  An instance is a list of keypoints (one per node), a
   frame a list of instances.

   gen_centroid models sleap_nn/data/instance_centroids.py:generate_centroids
   on ONE instance and returns the centroid AND the caller's keypoints as they
   are after the call:
     fixed = false   PINNED tree (before fix 563a1fb): `centroids = points[..., anchor, :]`
                     is a view, so `centroids[missing] = bbox midpoint` also overwrites
                     the anchor keypoint of the caller's tensor (finding F5, fixed);
     fixed = true    CURRENT tree (/repo HEAD, fix 563a1fb = proposed_fixes/C11_F5.diff):
                     the anchor slice is cloned.
   gen_centroid is total: for an anchor that is not a node the code raises IndexError, the
   model returns the bbox midpoint (Dataset.anchor_domain names the domain; review finding 2).
   The harness decides which one the code under check is by replaying the
   corpus witness, and compares this model with the real function on every
   generated case.

   sample_instance models what CenteredInstanceDataset / CentroidDataset keep
   of an instance: keypoints * scale, generate_centroids (which may write),
   minus the crop offset (0 for the centroid dataset).  It is not evaluated by the
   harness itself; LemmasD.centered_sample_is_sample_instance_l relates it to the
   evaluated Dataset.centered_sample (review finding 4).

   lf_idx_list / instance_idx_list model BaseDataset._get_lf_idx_list and
   CenteredInstanceDataset._get_instance_idx_list (filtering of all-NaN
   instances); len(dataset) is the length of these lists. *)
From Coq Require Import List Arith ZArith QArith Bool.
Import ListNotations.

Definition kp := option (Q * Q).
Definition instance := list kp.
Definition frame := list instance.

Definition is_missing (k : kp) : bool := match k with None => true | Some _ => false end.
Definition all_missing (inst : instance) : bool := forallb is_missing inst.

Definition qmin (a b : Q) : Q := if Qle_bool a b then a else b.
Definition qmax (a b : Q) : Q := if Qle_bool a b then b else a.

(* bounds (xmin, xmax, ymin, ymax) of the labelled keypoints; NaNs are ignored
   (torch.where(isnan, +-inf, points) before min / max) *)
Fixpoint bbox (inst : instance) : option (Q * Q * Q * Q) :=
  match inst with
  | [] => None
  | None :: t => bbox t
  | Some (x, y) :: t =>
      match bbox t with
      | None => Some (x, x, y, y)
      | Some (x0, x1, y0, y1) => Some (qmin x x0, qmax x x1, qmin y y0, qmax y y1)
      end
  end.

(* find_points_bbox_midpoint: (max + min) * 0.5; NaN for an empty instance
   ((+inf) + (-inf) = NaN) *)
Definition bbox_mid (inst : instance) : kp :=
  match bbox inst with
  | None => None
  | Some (x0, x1, y0, y1) => Some ((x1 + x0) * (1 # 2), (y1 + y0) * (1 # 2))
  end.

Fixpoint set_nth (k : nat) (v : kp) (l : instance) : instance :=
  match l, k with
  | [], _ => []
  | _ :: t, O => v :: t
  | x :: t, S k' => x :: set_nth k' v t
  end.

Definition gen_centroid (fixed : bool) (anchor : option nat) (inst : instance) : kp * instance :=
  let c0 := match anchor with Some a => nth a inst None | None => None end in
  match c0 with
  | Some c => (Some c, inst)
  | None =>
      let m := bbox_mid inst in
      (m, if fixed then inst
          else match anchor with Some a => set_nth a m inst | None => inst end)
  end.

(* the inputs on which the unrepaired code (pinned tree, before fix 563a1fb) alters its argument: an anchor is
   configured, that node is unlabelled, and the instance has a labelled node *)
Definition selector_F5 (anchor : option nat) (inst : instance) : bool :=
  match anchor with
  | Some a => Nat.ltb a (length inst) && is_missing (nth a inst None) && negb (all_missing inst)
  | None => false
  end.

Definition scale_kp (s : Q) (k : kp) : kp :=
  match k with None => None | Some (x, y) => Some (x * s, y * s) end.
Definition shift_kp (off : Q * Q) (k : kp) : kp :=
  match k with None => None | Some (x, y) => Some (x - fst off, y - snd off) end.

Definition sample_instance (fixed : bool) (anchor : option nat) (scale : Q) (off : Q * Q)
  (inst : instance) : instance :=
  map (shift_kp off) (snd (gen_centroid fixed anchor (map (scale_kp scale) inst))).

(* ---- which frames / instances produce samples ---- *)

Fixpoint enum_from {A} (s : nat) (l : list A) : list (nat * A) :=
  match l with [] => [] | x :: t => (s, x) :: enum_from (S s) t end.

Definition nonempty (inst : instance) : bool := negb (all_missing inst).

Definition lf_idx_list (frames : list frame) : list nat :=
  map fst (filter (fun p => existsb nonempty (snd p)) (enum_from 0 frames)).

Definition instance_idx_list (frames : list frame) : list (nat * nat) :=
  flat_map (fun p => map (fun q => (fst p, fst q))
                         (filter (fun q => nonempty (snd q)) (enum_from 0 (snd p))))
           (enum_from 0 frames).

Definition count_nonempty_instances (frames : list frame) : nat :=
  list_sum (map (fun fr => length (filter nonempty fr)) frames).

(* ---- evaluation entry points for the correspondence harness ---- *)

(* (fixed, anchor, instance) -> (centroid, instance after the call) *)
Definition run_centroid (c : bool * option nat * instance) : kp * instance :=
  let '(fixed, anchor, inst) := c in gen_centroid fixed anchor inst.

(* presence pattern of a label set -> (frame indices, (frame, instance) indices) *)
Definition of_pattern (frames : list (list (list bool))) : list frame :=
  map (map (map (fun b : bool => if b then Some (0 # 1, 0 # 1) else None))) frames.
Definition run_idx (frames : list (list (list bool))) : list nat * list (nat * nat) :=
  (lf_idx_list (of_pattern frames), instance_idx_list (of_pattern frames)).
