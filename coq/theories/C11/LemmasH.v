(* LemmasH.v (C11) — proofs about histories of calls (C11/History.v). *)
From Coq Require Import String.
From Coq Require Import List Arith NArith Bool Lia.
Import ListNotations.
From SV Require Import C11.AliasIR C11.Lemmas C11.History.

Lemma args_ok_in : forall args h, args_ok args h <-> args_in args h.
Proof. intros; split; intro H; exact H. Qed.

(* ------------------------------------------------ one accepted execution -- *)

Lemma list_extends : forall (A : Type) (l l' : list A),
  length l <= length l' -> (forall o, o < length l -> nth_error l' o = nth_error l o) ->
  l' = l ++ skipn (length l) l'.
Proof.
  induction l as [|x t IH]; intros l' Hlen Hnth; simpl.
  - reflexivity.
  - destruct l' as [|y t']; simpl in Hlen; [lia|].
    pose proof (Hnth 0 ltac:(simpl; lia)) as H0. simpl in H0. inversion H0; subst y.
    f_equal. apply IH; [lia|]. intros o Ho. apply (Hnth (S o)). simpl; lia.
Qed.

Lemma exec_accepted_wf : forall pts hpts p, closed pts hpts p = true -> no_param_write pts p = true ->
  forall args h e' h', wf_heap h -> args_in args h -> exec args p ([], h) (e', h') -> wf_heap h'.
Proof.
  intros pts hpts p Hc Hw args h e' h' Hwf Ha Hex.
  pose proof (exec_inv pts hpts p Hc Hw args h e' h' Hwf Ha Hex) as I.
  intros o c Hn o' Hin.
  destruct (lt_dec o (length h)) as [Hlt|Hge].
  - rewrite (inv_old _ _ _ _ _ _ I o Hlt) in Hn.
    pose proof (Hwf _ _ Hn _ Hin). pose proof (inv_len _ _ _ _ _ _ I). lia.
  - assert (Hr : repr args h h' o (ASite (c_site c))).
    { simpl. split; [lia|]. exists c; auto. }
    destruct (inv_heap _ _ _ _ _ _ I _ _ _ Hn Hr _ Hin) as [Hlt' _]. exact Hlt'.
Qed.

Lemma exec_accepted_extends : forall f, fn_accepted f = true ->
  forall args h e' h', wf_heap h -> args_in args h -> exec args (f_body f) ([], h) (e', h') ->
  wf_heap h' /\ exists extra, h' = h ++ extra.
Proof.
  intros f H args h e' h' Hwf Ha Hex.
  unfold fn_accepted, fn_closed, fn_nowrite in H. apply andb_true_iff in H. destruct H as [Hc Hw].
  split.
  - eapply exec_accepted_wf; eauto.
  - pose proof (exec_inv _ _ _ Hc Hw args h e' h' Hwf Ha Hex) as I.
    exists (skipn (length h) h'). apply list_extends.
    + apply (inv_len _ _ _ _ _ _ I).
    + apply (inv_old _ _ _ _ _ _ I).
Qed.

(* ------------------------------------------------------------- histories -- *)

Lemma calls_extend_l : forall fs, Forall (fun f => fn_accepted f = true) fs ->
  forall h h', calls fs h h' -> wf_heap h -> wf_heap h' /\ exists extra, h' = h ++ extra.
Proof.
  intros fs Hacc h h' Hc. induction Hc as [h|f args h e1 h1 h2 Hin Ha Hex Hrest IH]; intro Hwf.
  - split; auto. exists []. rewrite app_nil_r. reflexivity.
  - rewrite Forall_forall in Hacc.
    destruct (exec_accepted_extends f (Hacc _ Hin) args h e1 h1 Hwf Ha Hex) as [Hwf1 [x1 E1]].
    destruct (IH Hwf1) as [Hwf2 [x2 E2]]. split; auto.
    exists (x1 ++ x2). rewrite E2, E1, app_assoc. reflexivity.
Qed.

Lemma history_frame_l : forall fs, Forall (fun f => fn_accepted f = true) fs ->
  forall h h', wf_heap h -> calls fs h h' ->
  forall o, o < length h -> nth_error h' o = nth_error h o.
Proof.
  intros fs Hacc h h' Hwf Hc o Ho.
  destruct (calls_extend_l fs Hacc h h' Hc Hwf) as [_ [x E]]. subst h'.
  apply nth_error_app1; assumption.
Qed.

Lemma value_app : forall fuel h extra o, wf_heap h -> o < length h ->
  value fuel (h ++ extra) o = value fuel h o.
Proof.
  induction fuel as [|n IH]; intros h extra o Hwf Ho; simpl; auto.
  rewrite nth_error_app1 by assumption.
  destruct (nth_error h o) as [c|] eqn:E; auto.
  f_equal. apply map_ext_in. intros o' Hin. apply IH; auto. eapply Hwf; eauto.
Qed.

(* what an object existing at the start of a history holds — to any depth — is
   the same at its end *)
Lemma history_value_l : forall fs, Forall (fun f => fn_accepted f = true) fs ->
  forall h h', wf_heap h -> calls fs h h' ->
  forall n o, o < length h -> value n h' o = value n h o.
Proof.
  intros fs Hacc h h' Hwf Hc n o Ho.
  destruct (calls_extend_l fs Hacc h h' Hc Hwf) as [_ [x E]]. subst h'.
  apply value_app; assumption.
Qed.

Lemma calls_trans : forall fs h1 h2 h3, calls fs h1 h2 -> calls fs h2 h3 -> calls fs h1 h3.
Proof.
  intros fs h1 h2 h3 H. induction H; intro H3; auto. econstructor; eauto.
Qed.

(* a sample handed out by an earlier call (any object existing at an
   intermediate point h1 of the history) is not altered by the later calls *)
Lemma earlier_results_stable_l : forall fs, Forall (fun f => fn_accepted f = true) fs ->
  forall h0 h1 h2, wf_heap h0 -> calls fs h0 h1 -> calls fs h1 h2 ->
  forall n o, o < length h1 -> value n h2 o = value n h1 o.
Proof.
  intros fs Hacc h0 h1 h2 Hwf H01 H12 n o Ho.
  destruct (calls_extend_l fs Hacc h0 h1 H01 Hwf) as [Hwf1 _].
  eapply history_value_l; eauto.
Qed.

(* -------------------------------------------- same index, same sample -- *)

Section Reader.
  Variable fs : list fn.
  Hypothesis fs_accepted : Forall (fun f => fn_accepted f = true) fs.
  Variable f : fn.
  Hypothesis f_in : In f fs.
  (* the interpreter's deterministic behaviour on the body of f *)
  Variable rd : heap -> list obj -> obj * heap.
  (* contract 1 (the translation over-approximates the code): what rd does is one
     of the executions of the translated body *)
  Hypothesis rd_refines : forall h args, wf_heap h -> args_ok args h ->
    exists e', exec args (f_body f) ([], h) (e', snd (rd h args)).
  (* contract 2 (the interpreter is deterministic and reads only what it can
     reach from the arguments): objects appended to the heap — unreachable from
     the arguments, which live in the closed part h — do not influence the value
     of the result *)
  Hypothesis rd_local : forall h extra args n, wf_heap h -> wf_heap (h ++ extra) -> args_ok args h ->
    value n (snd (rd (h ++ extra) args)) (fst (rd (h ++ extra) args)) =
    value n (snd (rd h args)) (fst (rd h args)).

  Lemma same_sample_after_calls_l : forall h h' args n,
    wf_heap h -> calls fs h h' -> args_ok args h ->
    value n (snd (rd h' args)) (fst (rd h' args)) = value n (snd (rd h args)) (fst (rd h args)).
  Proof.
    intros h h' args n Hwf Hc Ha.
    destruct (calls_extend_l fs fs_accepted h h' Hc Hwf) as [Hwf' [x E]]. subst h'.
    apply rd_local; assumption.
  Qed.

  Lemma args_ok_app : forall args h x, args_ok args h -> args_ok args (h ++ x).
  Proof. intros args h x H i a Hi. rewrite app_length. pose proof (H i a Hi). lia. Qed.

  (* a history of reads is a history of calls *)
  Lemma run_reads_calls : forall hist h, wf_heap h -> Forall (fun a => args_ok a h) hist ->
    calls fs h (run_reads rd h hist).
  Proof.
    induction hist as [|a t IH]; intros h Hwf Hall; simpl.
    - constructor.
    - inversion Hall as [|? ? Ha Ht]; subst.
      destruct (rd_refines h a Hwf Ha) as [e' Hex].
      rewrite Forall_forall in fs_accepted.
      destruct (exec_accepted_extends f (fs_accepted _ f_in) a h e' _ Hwf Ha Hex) as [Hwf1 [x E]].
      econstructor; eauto. apply IH; auto.
      rewrite E. eapply Forall_impl; [|exact Ht]. intros a0 H0. apply args_ok_app; assumption.
  Qed.

  Lemma same_index_same_sample_l : forall h pre args n,
    wf_heap h -> Forall (fun a => args_ok a h) pre -> args_ok args h ->
    let h' := run_reads rd h pre in
    value n (snd (rd h' args)) (fst (rd h' args)) = value n (snd (rd h args)) (fst (rd h args)).
  Proof.
    intros h pre args n Hwf Hall Ha h'. apply same_sample_after_calls_l; auto.
    apply run_reads_calls; auto.
  Qed.
End Reader.

(* -------------------------------------------- the cache write-through pattern -- *)

(* `sample = self.cache[index].copy(); sample["instance"] -= point` has an
   execution that changes the cached tensor (so a later read of the same index
   differs), and no certificate makes the checker accept it *)
Definition cache_heap : heap :=
  [mkcell 0%N 0 [1]; mkcell 0%N 0 [2]; mkcell 0%N 0 [3]; mkcell 0%N 7 []].

Lemma cached_entry_augassign_changes_cache_l :
  exists e' h', wf_heap cache_heap /\ args_ok [0] cache_heap /\
    exec [0] p_cached_entry_augassign ([], cache_heap) (e', h') /\
    reach cache_heap 0 3 /\ value 4 h' 0 <> value 4 cache_heap 0.
Proof.
  assert (R : refute_check 100 p_cached_entry_augassign cache_heap [0] [1; 1; 1] 3 = true)
    by (vm_compute; reflexivity).
  unfold refute_check in R.
  destruct (srun 100 [0] p_cached_entry_augassign [1; 1; 1] ([], cache_heap)) as [[sc' [e' h']]|] eqn:E;
    [|rewrite andb_false_r in R; discriminate].
  exists e', h'.
  pose proof (srun_sound_l _ _ _ _ _ _ _ E) as Hex.
  vm_compute in E. inversion E; subst.
  split. { apply wf_heapb_sound. vm_compute. reflexivity. }
  split. { intros i a Hi. destruct i as [|[|i]]; simpl in Hi; inversion Hi; subst; simpl; lia. }
  split. { exact Hex. }
  split.
  { eapply reach_step with (o := 2) (c := mkcell 0%N 0 [3]); [|reflexivity|left; reflexivity].
    eapply reach_step with (o := 1) (c := mkcell 0%N 0 [2]); [|reflexivity|left; reflexivity].
    eapply reach_step with (o := 0) (c := mkcell 0%N 0 [1]); [|reflexivity|left; reflexivity].
    constructor. }
  vm_compute. discriminate.
Qed.

Lemma cached_entry_augassign_rejected_l : forall pts hpts,
  closed pts hpts p_cached_entry_augassign = true ->
  no_param_write pts p_cached_entry_augassign = false.
Proof.
  intros pts hpts Hc.
  destruct (no_param_write pts p_cached_entry_augassign) eqn:Hw; auto. exfalso.
  assert (R : refute_check 100 p_cached_entry_augassign cache_heap [0] [1; 1; 1] 3 = true)
    by (vm_compute; reflexivity).
  pose proof (refuted_not_accepted_l _ _ _ _ _ _ pts hpts R) as F.
  unfold check in F. rewrite Hc, Hw in F. discriminate.
Qed.

Lemma cached_entry_rebind_accepted_l :
  check pts_rebind hpts_rebind p_cached_entry_rebind = true.
Proof. vm_compute. reflexivity. Qed.

(* ------------------------------- a concrete reader (review finding 3) -- *)

(* contract 1 holds for the script-guided interpreter on EVERY program *)
Lemma rd_of_refines_l : forall fuel p res h args,
  exists e', exec args p ([], h) (e', snd (rd_of fuel p res h args)).
Proof.
  intros fuel p res h args. unfold rd_of.
  destruct (srun fuel args p [] ([], h)) as [[sc' [e' h']]|] eqn:E.
  - exists e'. simpl. eapply srun_sound_l; eauto.
  - exists []. simpl. apply ex_stop.
Qed.

Lemma value_oob : forall n h, value n h (length h) = Node 0 [].
Proof.
  intros [|n] h; simpl; auto.
  assert (E : nth_error h (length h) = None) by (apply nth_error_None; lia). rewrite E. reflexivity.
Qed.

Lemma rd_reader_ex_eq : forall h a t,
  rd_of 5 p_reader_ex 1%N h (a :: t) = (length h, h ++ [mkcell 7%N 0 [a]]).
Proof. intros. reflexivity. Qed.

Lemma rd_reader_ex_nil : forall h, rd_of 5 p_reader_ex 1%N h [] = (length h, h).
Proof. intros. reflexivity. Qed.

Lemma value_reader_ex : forall n h a, wf_heap h -> a < length h ->
  value (S n) (h ++ [mkcell 7%N 0 [a]]) (length h) = Node 0 [value n h a].
Proof.
  intros n h a Hwf Ha. simpl. rewrite nth_error_app2 by lia. rewrite Nat.sub_diag. simpl.
  rewrite value_app by assumption. reflexivity.
Qed.

(* contract 2 (locality) for the example reader *)
Lemma rd_reader_ex_local_l : forall h extra args n, wf_heap h -> wf_heap (h ++ extra) -> args_ok args h ->
  value n (snd (rd_of 5 p_reader_ex 1%N (h ++ extra) args)) (fst (rd_of 5 p_reader_ex 1%N (h ++ extra) args)) =
  value n (snd (rd_of 5 p_reader_ex 1%N h args)) (fst (rd_of 5 p_reader_ex 1%N h args)).
Proof.
  intros h extra args n Hwf Hwf' Ha. destruct args as [|a t].
  - rewrite !rd_reader_ex_nil. simpl. rewrite !value_oob. reflexivity.
  - rewrite !rd_reader_ex_eq. cbn [fst snd].
    assert (Hlt : a < length h) by (apply (Ha 0 a); reflexivity).
    destruct n as [|n]; [reflexivity|].
    rewrite !value_reader_ex; auto.
    + rewrite value_app by assumption. reflexivity.
    + rewrite app_length. lia.
Qed.

Lemma f_reader_ex_accepted_l : fn_accepted f_reader_ex = true.
Proof. vm_compute. reflexivity. Qed.

(* same_index_same_sample with contract 1 discharged for the interpreter `rd_of` (any accepted f of fs):
   only locality of the reader remains a hypothesis *)
Lemma same_index_same_sample_srun_l : forall fs, Forall (fun f => fn_accepted f = true) fs ->
  forall f, In f fs -> forall fuel,
  (forall h extra args n, wf_heap h -> wf_heap (h ++ extra) -> args_ok args h ->
     value n (snd (rd_of fuel (f_body f) (f_ret f) (h ++ extra) args))
             (fst (rd_of fuel (f_body f) (f_ret f) (h ++ extra) args)) =
     value n (snd (rd_of fuel (f_body f) (f_ret f) h args)) (fst (rd_of fuel (f_body f) (f_ret f) h args))) ->
  forall h pre args n, wf_heap h -> Forall (fun a => args_ok a h) pre -> args_ok args h ->
  let h' := run_reads (rd_of fuel (f_body f) (f_ret f)) h pre in
  value n (snd (rd_of fuel (f_body f) (f_ret f) h' args)) (fst (rd_of fuel (f_body f) (f_ret f) h' args)) =
  value n (snd (rd_of fuel (f_body f) (f_ret f) h args)) (fst (rd_of fuel (f_body f) (f_ret f) h args)).
Proof.
  intros fs Hacc f Hin fuel Hloc. apply (same_index_same_sample_l fs Hacc f Hin); auto.
  intros h args _ _. apply rd_of_refines_l.
Qed.

(* both contracts instantiated: the theorem's hypotheses are satisfiable by a reader that allocates and
   whose result refers to a pre-existing object; its conclusion holds for it after ANY history of reads *)
Lemma ex_reader_same_index_l : forall h pre args n,
  wf_heap h -> Forall (fun a => args_ok a h) pre -> args_ok args h ->
  let rd := rd_of 5 p_reader_ex 1%N in
  let h' := run_reads rd h pre in
  value n (snd (rd h' args)) (fst (rd h' args)) = value n (snd (rd h args)) (fst (rd h args)).
Proof.
  intros h pre args n Hwf Hpre Ha.
  apply (same_index_same_sample_srun_l [f_reader_ex]
           (Forall_cons _ f_reader_ex_accepted_l (Forall_nil _)) f_reader_ex (or_introl eq_refl) 5); auto.
  exact rd_reader_ex_local_l.
Qed.

(* ... and the history really grows the heap (the example is not the identity reader) *)
Lemma ex_reader_allocates_l :
  run_reads (rd_of 5 p_reader_ex 1%N) [mkcell 0%N 3 []] [[0]; [0]] <> [mkcell 0%N 3 []] /\
  value 2 (snd (rd_of 5 p_reader_ex 1%N [mkcell 0%N 3 []] [0])) (fst (rd_of 5 p_reader_ex 1%N [mkcell 0%N 3 []] [0]))
  = Node 0 [Node 3 []].
Proof. split; [vm_compute; discriminate|reflexivity]. Qed.
